package main

import (
	"fmt"
	"math"

	"gonum.org/v1/gonum/blas"
	"gonum.org/v1/gonum/blas/blas64"
	"gonum.org/v1/gonum/internal/verif/vlib"
	"gonum.org/v1/gonum/lapack"
	"gonum.org/v1/gonum/lapack/lapack64"
)

// genWrap: every lapack64 wrapper of a routine in scope, called with every
// legal value of each of its flag arguments (every Transpose that the
// documentation accepts including ConjTrans, both Uplo, both Diag, both Side,
// every norm, forward/backward) on non-symmetric inputs (DL != DU for
// tridiagonal matrices). The oracle is the documented equation of the wrapper
// (residual of op(A)*X = B, reconstruction of the factorization, exact norm,
// exact permutation); in addition the result is compared bit for bit with the
// direct call of the Implementation method wherever the wrapper is a plain
// forwarder (a wrapper may transform its arguments first, as Gtsv does, so the
// bitwise comparison alone is not an oracle).

var allTrans = []blas.Transpose{blas.NoTrans, blas.Trans, blas.ConjTrans}

func sameBits(ck *checker, what string, a, b []float64) {
	if i, ok := vlib.Same64(a, b); !ok {
		ck.failf("%s: wrapper and direct call differ at offset %d", what, i)
	}
}

// unplace reads an r x c matrix with leading dimension ld.
func unplace(d []float64, r, c, ld int) M {
	m := newM(r, c)
	for i := 0; i < r; i++ {
		for j := 0; j < c; j++ {
			m.a[i*c+j] = d[i*ld+j]
		}
	}
	return m
}

func general(d []float64, r, c, s int) blas64.General {
	return blas64.General{Rows: r, Cols: c, Stride: s, Data: d}
}

func invResid(ck *checker, name string, a, inv M) {
	n := a.r
	if hasNaN(inv) {
		ck.failf("%s: NaN in inverse", name)
		return
	}
	res := norm1(sub(mul(a, inv), eye(n)))
	ck.ratio(name+" |A*inv-I|/(n eps |A||inv|)", res/(float64(n)*eps*norm1(a)*norm1(inv)))
}

func genWrap(g *vlib.G) {
	for _, n := range []int{1, 2, 4, 7} {
		for _, pad := range []int{0, 3} {
			n, pad := n, pad
			ld := n + pad
			nrhs := 2
			ldb := nrhs + (pad+2)%5 // padded differently from a
			dd := genDD(0)(n, n)    // non-symmetric, diagonally dominant
			spd := genSPD(0)(n)
			xt := xTrue(n, nrhs)
			gen := func(a M) []float64 { return place(a, ld, nil).d }
			rhs := func(op M) (M, []float64) {
				b := mul(op, xt)
				return b, place(b, ldb, nil).d
			}

			// ---- symmetric positive definite: Potrf, Potrs, Potri, Pocon, Pstrf, Lansy
			g.Case(fmt.Sprintf("lapack64 spd n=%d ld+%d", n, pad), func(t *vlib.T) {
				ck := &checker{t: t}
				t.Nontrivial()
				for _, uplo := range uplos {
					ck.ctx = "uplo=" + uploName(uplo)
					a1, a2 := place(spd, ld, keepUplo(uplo)), place(spd, ld, keepUplo(uplo))
					tr, ok1 := lapack64.Potrf(blas64.Symmetric{N: n, Stride: ld, Data: a1.d, Uplo: uplo})
					ok2 := impl.Dpotrf(uplo, n, a2.d, ld)
					sameBits(ck, "Potrf", a1.d, a2.d)
					if ok1 != ok2 || tr.Uplo != uplo || tr.N != n || tr.Stride != ld || tr.Diag != blas.NonUnit || &tr.Data[0] != &a1.d[0] {
						ck.failf("Potrf: returned triangular uplo=%v n=%d stride=%d diag=%v ok=%v", tr.Uplo, tr.N, tr.Stride, tr.Diag, ok1)
					}
					cholOracle(ck, "Potrf", uplo, spd, a1.getRef(), ok1, sfam{name: "spd", pd: true})
					b, b1 := rhs(spd)
					lapack64.Potrs(tr, general(b1, n, nrhs, ldb))
					solveResid(ck, "Potrs", spd, unplace(b1, n, nrhs, ldb), b, n)
					anorm := norm1(spd)
					c1 := lapack64.Pocon(blas64.Symmetric{N: n, Stride: ld, Data: a1.d, Uplo: uplo}, anorm, make([]float64, 3*n), make([]int, n))
					if inv, iok := inverse(spd); iok {
						condCheck(ck, "Pocon", c1, anorm, norm1(inv))
					}
					sy, okI := lapack64.Potri(tr)
					if !okI || sy.Uplo != uplo || sy.N != n || sy.Stride != ld {
						ck.failf("Potri: returned symmetric uplo=%v n=%d ok=%v", sy.Uplo, sy.N, okI)
					}
					invResid(ck, "Potri", spd, symOf(a1.getRef(), uplo))
					if i, intact := a1.poisonIntact(); !intact {
						ck.failf("Potrf/Potri wrote the other triangle at offset %d", i)
					}
					// Pstrf
					a1 = place(spd, ld, keepUplo(uplo))
					piv := make([]int, n)
					tp, rank, okP := lapack64.Pstrf(blas64.Symmetric{N: n, Stride: ld, Data: a1.d, Uplo: uplo}, piv, -1, make([]float64, 2*n))
					if tp.Uplo != uplo || tp.N != n || tp.Stride != ld {
						ck.failf("Pstrf: returned triangular uplo=%v n=%d", tp.Uplo, tp.N)
					}
					pstOracle(ck, "Pstrf", uplo, spd, pstRun{fac: a1.getRef(), piv: piv, rank: rank, ok: okP}, -1, "pd", -1, false)
					for _, nrm := range normKinds {
						as := place(spd, ld, keepUplo(uplo))
						normCheck(ck, "Lansy", nrm, lapack64.Lansy(nrm, blas64.Symmetric{N: n, Stride: ld, Data: as.d, Uplo: uplo}, make([]float64, n)), spd)
					}
				}
				t.Outcome("spd")
			})

			// ---- symmetric band and triangular band: Pbtrf, Pbtrs, Pbcon, Lansb, Lantb, Tbtrs
			g.Case(fmt.Sprintf("lapack64 band n=%d ld+%d", n, pad), func(t *vlib.T) {
				ck := &checker{t: t}
				t.Nontrivial()
				kd := imin(2, n-1)
				ldab := kd + 1 + pad
				bs := genBandSPD(n, kd)
				for _, uplo := range uplos {
					ck.ctx = "uplo=" + uploName(uplo)
					s1 := placeBand(bs, uplo, kd, ldab, false)
					s2 := placeBand(bs, uplo, kd, ldab, false)
					sb := blas64.SymmetricBand{N: n, K: kd, Stride: ldab, Data: s1.d, Uplo: uplo}
					for _, nrm := range normKinds {
						normCheck(ck, "Lansb", nrm, lapack64.Lansb(nrm, sb, make([]float64, n)), bs)
					}
					tb, ok1 := lapack64.Pbtrf(sb)
					ok2 := impl.Dpbtrf(uplo, n, kd, s2.d, ldab)
					sameBits(ck, "Pbtrf", s1.d, s2.d)
					if ok1 != ok2 || tb.K != kd || tb.N != n || tb.Uplo != uplo || tb.Stride != ldab || tb.Diag != blas.NonUnit {
						ck.failf("Pbtrf: returned band n=%d k=%d uplo=%v", tb.N, tb.K, tb.Uplo)
					}
					bandCholOracle(ck, "Pbtrf", uplo, bs, pbRun{fac: s1.tri(), ok: ok1}, bfam{name: "bspd", pd: true})
					b, b1 := rhs(bs)
					lapack64.Pbtrs(tb, general(b1, n, nrhs, ldb))
					solveResid(ck, "Pbtrs", bs, unplace(b1, n, nrhs, ldb), b, n)
					anorm := norm1(bs)
					rc := lapack64.Pbcon(sb, anorm, make([]float64, 3*n), make([]int, n))
					if inv, iok := inverse(bs); iok {
						condCheck(ck, "Pbcon", rc, anorm, norm1(inv))
					}
					// triangular band matrices from a non-symmetric dense matrix
					for _, diag := range diags {
						tm := bandRestrict(triDense(dd, uplo, diag), kd)
						ts := placeBand(tm, uplo, kd, ldab, diag == blas.Unit)
						tbm := blas64.TriangularBand{N: n, K: kd, Stride: ldab, Data: ts.d, Uplo: uplo, Diag: diag}
						for _, nrm := range normKinds {
							ck.ctx = fmt.Sprintf("uplo=%s diag=%s norm=%s", uploName(uplo), diagName(diag), normName(nrm))
							normCheck(ck, "Lantb", nrm, lapack64.Lantb(nrm, tbm, make([]float64, n)), tm)
						}
						for _, trans := range allTrans {
							ck.ctx = fmt.Sprintf("uplo=%s diag=%s trans=%s", uploName(uplo), diagName(diag), transName(trans))
							op := opOf(tm, trans)
							b, b1 := rhs(op)
							if ok := lapack64.Tbtrs(trans, tbm, general(b1, n, nrhs, ldb)); !ok {
								ck.failf("Tbtrs ok=false")
							}
							solveResid(ck, "Tbtrs", op, unplace(b1, n, nrhs, ldb), b, n)
							ts.checkRO(ck, "Tbtrs a")
						}
					}
				}
				t.Outcome("band")
			})

			// ---- dense triangular: Trtri, Trtrs, Trcon, Lantr
			g.Case(fmt.Sprintf("lapack64 tri n=%d ld+%d", n, pad), func(t *vlib.T) {
				ck := &checker{t: t}
				t.Nontrivial()
				for _, uplo := range uplos {
					for _, diag := range diags {
						tm := triDense(dd, uplo, diag)
						as := place(dd, ld, keepTri(uplo, diag))
						tri := blas64.Triangular{N: n, Stride: ld, Data: as.d, Uplo: uplo, Diag: diag}
						for _, nrm := range normKinds {
							ck.ctx = fmt.Sprintf("uplo=%s diag=%s norm=%s", uploName(uplo), diagName(diag), normName(nrm))
							normCheck(ck, "Lantr", nrm, lapack64.Lantr(nrm, tri, make([]float64, n)), tm)
						}
						inv, iok := inverse(tm)
						for _, nrm := range []lapack.MatrixNorm{lapack.MaxColumnSum, lapack.MaxRowSum} {
							ck.ctx = fmt.Sprintf("uplo=%s diag=%s norm=%s", uploName(uplo), diagName(diag), normName(nrm))
							rc := lapack64.Trcon(nrm, tri, make([]float64, 3*n), make([]int, n))
							if iok {
								if nrm == lapack.MaxRowSum {
									condCheck(ck, "Trcon-inf", rc, normInf(tm), normInf(inv))
								} else {
									condCheck(ck, "Trcon-1", rc, norm1(tm), norm1(inv))
								}
							}
						}
						for _, trans := range allTrans {
							ck.ctx = fmt.Sprintf("uplo=%s diag=%s trans=%s", uploName(uplo), diagName(diag), transName(trans))
							op := opOf(tm, trans)
							b, b1 := rhs(op)
							if ok := lapack64.Trtrs(trans, tri, general(b1, n, nrhs, ldb)); !ok {
								ck.failf("Trtrs ok=false")
							}
							solveResid(ck, "Trtrs", op, unplace(b1, n, nrhs, ldb), b, n)
						}
						as.checkRO(ck, "Lantr/Trcon/Trtrs a")
						ck.ctx = fmt.Sprintf("uplo=%s diag=%s", uploName(uplo), diagName(diag))
						if ok := lapack64.Trtri(tri); !ok {
							ck.failf("Trtri ok=false")
						}
						if i, intact := as.poisonIntact(); !intact {
							ck.failf("Trtri wrote unreferenced storage at offset %d", i)
						}
						invResid(ck, "Trtri", tm, triDense(as.getRef(), uplo, diag))
					}
				}
				t.Outcome("tri")
			})

			// ---- LU: Getrf, Getrs, Getri, Gecon
			g.Case(fmt.Sprintf("lapack64 lu n=%d ld+%d", n, pad), func(t *vlib.T) {
				ck := &checker{t: t}
				t.Nontrivial()
				a1, a2 := gen(dd), gen(dd)
				p1, p2 := make([]int, n), make([]int, n)
				o1 := lapack64.Getrf(general(a1, n, n, ld), p1)
				o2 := impl.Dgetrf(n, n, a2, ld, p2)
				sameBits(ck, "Getrf", a1, a2)
				if o1 != o2 || !intsSame(p1, p2) {
					ck.failf("Getrf ok/ipiv differ from the direct call")
				}
				luOracle(ck, "Getrf", dd, unplace(a1, n, n, ld), p1, o1, 0)
				for _, trans := range allTrans {
					ck.ctx = "trans=" + transName(trans)
					op := opOf(dd, trans)
					b, b1 := rhs(op)
					lapack64.Getrs(trans, general(a1, n, n, ld), general(b1, n, nrhs, ldb), p1)
					solveResid(ck, "Getrs", op, unplace(b1, n, nrhs, ldb), b, n)
				}
				inv, iok := inverse(dd)
				for _, nrm := range []lapack.MatrixNorm{lapack.MaxColumnSum, lapack.MaxRowSum} {
					ck.ctx = "norm=" + normName(nrm)
					anorm, ainv := norm1(dd), norm1(inv)
					name := "Gecon-1"
					if nrm == lapack.MaxRowSum {
						anorm, ainv, name = normInf(dd), normInf(inv), "Gecon-inf"
					}
					rc := lapack64.Gecon(nrm, general(a1, n, n, ld), anorm, make([]float64, 4*n), make([]int, n))
					if iok {
						condCheck(ck, name, rc, anorm, ainv)
					}
				}
				ck.ctx = ""
				w1 := make([]float64, 64*n)
				if ok := lapack64.Getri(general(a1, n, n, ld), p1, w1, len(w1)); !ok {
					ck.failf("Getri ok=false")
				}
				invResid(ck, "Getri", dd, unplace(a1, n, n, ld))
				t.Outcome("lu")
			})

			// ---- orthogonal factorizations and least squares
			g.Case(fmt.Sprintf("lapack64 qr n=%d ld+%d", n, pad), func(t *vlib.T) {
				ck := &checker{t: t}
				t.Nontrivial()
				m := n + 2
				lw := 4096 + 64*(m+n)
				tall := genDD(1)(m, n)
				wide := genDD(1)(n, m)
				ldw := m + pad
				type fac struct {
					kd      fkind
					a       M
					r, c    int
					ld      int
					factor  func(a blas64.General, tau, work []float64, lwork int)
					orm     func(side blas.Side, trans blas.Transpose, a blas64.General, tau []float64, c blas64.General, work []float64, lwork int)
					org     func(a blas64.General, tau, work []float64, lwork int)
					orgK    okind
					nameOrm string
				}
				for _, f := range []fac{
					{kindQR, tall, m, n, ld, lapack64.Geqrf, lapack64.Ormqr, func(a blas64.General, tau, work []float64, lwork int) { lapack64.Orgqr(a, tau, work, lwork) }, orgQR, "Ormqr"},
					{kindLQ, wide, n, m, ldw, lapack64.Gelqf, lapack64.Ormlq, lapack64.Orglq, orgLQ, "Ormlq"},
				} {
					a1 := place(f.a, f.ld, nil).d
					tau := make([]float64, n)
					f.factor(general(a1, f.r, f.c, f.ld), tau, make([]float64, lw), lw)
					out := unplace(a1, f.r, f.c, f.ld)
					ck.ctx = f.kd.name
					factorOracle(ck, f.kd, f.kd.name, f.a, facRun{out: out, tau: tau})
					rf := f.kd.refl(out, tau)
					q := qOf(rf, f.kd.asc)
					dim := float64(rf.dim)
					for _, side := range sides {
						for _, trans := range transes { // ConjTrans is not accepted by Dormqr/Dormlq
							ck.ctx = fmt.Sprintf("%s side=%s trans=%s", f.nameOrm, sideName(side), transName(trans))
							cm, cn := rf.dim, 3
							if side == blas.Right {
								cm, cn = 3, rf.dim
							}
							c := genDD(2)(cm, cn)
							c1 := place(c, cn+pad+1, nil).d
							f.orm(side, trans, general(a1, f.r, f.c, f.ld), tau, general(c1, cm, cn, cn+pad+1), make([]float64, lw), lw)
							qop := q
							if trans == blas.Trans {
								qop = q.T()
							}
							var want M
							if side == blas.Left {
								want = mul(qop, c)
							} else {
								want = mul(c, qop)
							}
							ck.ratio("orm |C-QC|/(n eps |C|)", norm1(sub(unplace(c1, cm, cn, cn+pad+1), want))/(dim*eps*math.Max(1, norm1(c))))
						}
					}
					ck.ctx = f.orgK.name
					_, _, want := orgInput(f.orgK, rf, f.r, f.c, n)
					f.org(general(a1, f.r, f.c, f.ld), tau, make([]float64, lw), lw)
					ck.ratio("org |Q-Qref|/(n eps)", norm1(sub(unplace(a1, f.r, f.c, f.ld), want))/(dim*eps))
				}
				// Geqp3
				ck.ctx = "Geqp3"
				a1 := place(tall, ld, nil).d
				jp := make([]int, n)
				for j := range jp {
					jp[j] = -1
				}
				jp0 := append([]int(nil), jp...)
				tau := make([]float64, n)
				work := make([]float64, lw)
				lapack64.Geqp3(general(a1, m, n, ld), jp, tau, work, lw)
				qp3Oracle(ck, "Geqp3", tall, jp0, qp3Run{out: unplace(a1, m, n, ld), tau: tau, jpvt: jp, w0: work[0]})
				// Gels: every trans, tall and wide
				for _, a := range []M{tall, wide} {
					for _, trans := range allTrans {
						ck.ctx = fmt.Sprintf("Gels %dx%d trans=%s", a.r, a.c, transName(trans))
						op := opOf(a, trans)
						bb := newM(imax(a.r, a.c), nrhs)
						for i := 0; i < op.r; i++ {
							for j := 0; j < nrhs; j++ {
								bb.a[i*nrhs+j] = float64(h3(i, j, 61) + 1)
							}
						}
						lda := a.c + pad
						a1 := place(a, lda, nil).d
						b1 := place(bb, ldb, nil).d
						if ok := lapack64.Gels(trans, general(a1, a.r, a.c, lda), general(b1, bb.r, nrhs, ldb), make([]float64, lw), lw); !ok {
							ck.failf("Gels ok=false")
							continue
						}
						gelsOracle(ck, "Gels", op, bb.slice(0, op.r, 0, nrhs), unplace(b1, op.c, nrhs, ldb), true)
					}
				}
				t.Outcome("qr")
			})

			// ---- norms of general and band matrices, permutations
			g.Case(fmt.Sprintf("lapack64 norms+perm n=%d ld+%d", n, pad), func(t *vlib.T) {
				ck := &checker{t: t}
				t.Nontrivial()
				m := n + 2
				rect := genDD(1)(m, n)
				for _, nrm := range normKinds {
					ck.ctx = "norm=" + normName(nrm)
					as := place(rect, ld, nil)
					normCheck(ck, "Lange", nrm, lapack64.Lange(nrm, general(as.d, m, n, ld), make([]float64, n)), rect)
				}
				kl, ku := imin(1, n-1), imin(2, n-1)
				ldab := kl + ku + 1 + pad
				gb := make([]float64, m*ldab)
				dense := newM(m, n)
				for i := range gb {
					gb[i] = vlib.Poison64(0x500 + i)
				}
				for i := 0; i < imin(m, n+kl); i++ {
					for j := imax(0, i-kl); j <= imin(n-1, i+ku); j++ {
						gb[i*ldab+kl+j-i] = rect.at(i, j)
						dense.a[i*n+j] = rect.at(i, j)
					}
				}
				for _, nrm := range normKinds {
					ck.ctx = "norm=" + normName(nrm)
					normCheck(ck, "Langb", nrm, lapack64.Langb(nrm, blas64.Band{Rows: m, Cols: n, KL: kl, KU: ku, Stride: ldab, Data: gb}), dense)
				}
				for _, fwd := range []bool{true, false} {
					ck.ctx = fmt.Sprintf("forward=%v", fwd)
					x := labelM(m, n)
					kc := make([]int, n)
					for i := range kc {
						kc[i] = (i + 1) % n
					}
					kr := make([]int, m)
					for i := range kr {
						kr[i] = (i + 2) % m
					}
					wantC, wantR := newM(m, n), newM(m, n)
					for i := 0; i < m; i++ {
						for j := 0; j < n; j++ {
							if fwd {
								wantC.a[i*n+j] = x.at(i, kc[j])
								wantR.a[i*n+j] = x.at(kr[i], j)
							} else {
								wantC.a[i*n+kc[j]] = x.at(i, j)
								wantR.a[kr[i]*n+j] = x.at(i, j)
							}
						}
					}
					a1 := gen(x)
					lapack64.Lapmt(fwd, general(a1, m, n, ld), append([]int(nil), kc...))
					if i, same := exactEq(unplace(a1, m, n, ld), wantC); !same {
						ck.failf("Lapmt: element %d wrong", i)
					}
					a1 = gen(x)
					lapack64.Lapmr(fwd, general(a1, m, n, ld), append([]int(nil), kr...))
					if i, same := exactEq(unplace(a1, m, n, ld), wantR); !same {
						ck.failf("Lapmr: element %d wrong", i)
					}
				}
				t.Outcome("norms+perm")
			})

			// ---- tridiagonal with DL != DU: Gtsv, Lagtm, Langt for every trans
			for _, fam := range []string{"dd", "pivoting"} {
				fam := fam
				g.Case(fmt.Sprintf("lapack64 tridiag n=%d ld+%d fam=%s", n, pad, fam), func(t *vlib.T) {
					ck := &checker{t: t}
					t.Nontrivial()
					var dl, d, du []float64
					for _, f := range gtFams(n) {
						if f.name == fam {
							dl, d, du = f.gen(n)
						}
					}
					for i := range dl {
						if dl[i] == du[i] {
							du[i] += 2 // the transposed system must differ from the original one
						}
					}
					a := tridiagDense(dl, d, du)
					for _, nrm := range normKinds {
						ck.ctx = "norm=" + normName(nrm)
						normCheck(ck, "Langt", nrm, lapack64.Langt(nrm, lapack64.Tridiagonal{N: n, DL: dl, D: d, DU: du}), a)
					}
					for _, trans := range allTrans {
						ck.ctx = "trans=" + transName(trans)
						op := opOf(a, trans)
						b, b1 := rhs(op)
						l1, d1, u1 := append([]float64(nil), dl...), append([]float64(nil), d...), append([]float64(nil), du...)
						ok := lapack64.Gtsv(trans, lapack64.Tridiagonal{N: n, DL: l1, D: d1, DU: u1}, general(b1, n, nrhs, ldb))
						if !ok {
							if fam == "dd" {
								ck.failf("Gtsv ok=false on a diagonally dominant matrix")
							}
							continue
						}
						solveResid(ck, "Gtsv", op, unplace(b1, n, nrhs, ldb), b, n)
						// Lagtm: C = alpha*op(A)*B + beta*C, exact on integers
						for _, alpha := range []float64{0, 1, -1} {
							for _, beta := range []float64{0, 1, -1} {
								bm := genDD(4)(n, nrhs)
								cm := genDD(5)(n, nrhs)
								want := mul(op, bm)
								for i := range want.a {
									want.a[i] = alpha*want.a[i] + beta*cm.a[i]
								}
								bs := place(bm, ldb, nil)
								cs := place(cm, ldb, nil)
								lapack64.Lagtm(trans, alpha, lapack64.Tridiagonal{N: n, DL: dl, D: d, DU: du}, general(bs.d, n, nrhs, ldb), beta, general(cs.d, n, nrhs, ldb))
								bs.checkRO(ck, "Lagtm b")
								if i, same := exactEq(cs.get(), want); !same {
									ck.failf("Lagtm alpha=%v beta=%v: C[%d]=%v want %v (exact integer data)", alpha, beta, i, cs.get().a[i], want.a[i])
								}
							}
						}
					}
					t.Outcome("tridiag/" + fam)
				})
			}
		}
	}
}
