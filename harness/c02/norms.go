package main

import (
	"fmt"
	"math"

	"gonum.org/v1/gonum/blas"
	"gonum.org/v1/gonum/internal/verif/vlib"
	"gonum.org/v1/gonum/lapack"
)

var normKinds = []lapack.MatrixNorm{lapack.MaxAbs, lapack.MaxColumnSum, lapack.MaxRowSum, lapack.Frobenius}

func normName(n lapack.MatrixNorm) string {
	switch n {
	case lapack.MaxAbs:
		return "max"
	case lapack.MaxColumnSum:
		return "1"
	case lapack.MaxRowSum:
		return "inf"
	}
	return "fro"
}

func refNorm(kind lapack.MatrixNorm, a M) float64 {
	switch kind {
	case lapack.MaxAbs:
		return normMax(a)
	case lapack.MaxColumnSum:
		return norm1(a)
	case lapack.MaxRowSum:
		return normInf(a)
	}
	return normFro(a)
}

// normCheck: exact for max/1/inf on integer data (times a power of two), (count+2) ulps for Frobenius.
func normCheck(ck *checker, name string, kind lapack.MatrixNorm, got float64, dense M) {
	want := refNorm(kind, dense)
	if math.IsNaN(got) {
		ck.failf("%s %s-norm is NaN (poison read from unreferenced storage?)", name, normName(kind))
		return
	}
	if kind != lapack.Frobenius {
		if got != want {
			ck.failf("%s %s-norm = %v, want exactly %v", name, normName(kind), got, want)
		}
		return
	}
	tol := float64(len(dense.a)+2) * eps * want
	if math.Abs(got-want) > tol {
		ck.failf("%s fro-norm = %v, want %v +- %v", name, got, want, tol)
	}
}

func intM(m, n, salt, e int) M {
	a := newM(m, n)
	for i := 0; i < m; i++ {
		for j := 0; j < n; j++ {
			a.a[i*n+j] = math.Ldexp(float64(h3(i, j, salt)), e)
		}
	}
	return a
}

func genNorms(g *vlib.G) {
	N := vlib.Pick(g, 9, 12)
	exps := []int{0, 600, -600}
	// Dlange, Dlantr (trapezoidal)
	for m := 0; m <= N; m++ {
		for n := 0; n <= N; n++ {
			for _, e := range exps {
				m, n, e := m, n, e
				g.Case(fmt.Sprintf("Dlange/Dlantr m=%d n=%d exp=%d", m, n, e), func(t *vlib.T) {
					ck := &checker{t: t}
					if m*n >= 2 {
						t.Nontrivial()
					}
					a := intM(m, n, 100, e)
					for _, kind := range normKinds {
						for _, pad := range []int{0, 3} {
							lda := imax(1, n) + pad
							ck.ctx = fmt.Sprintf("norm=%s lda=%d", normName(kind), lda)
							s := place(a, lda, nil)
							var work []float64
							if kind == lapack.MaxColumnSum {
								work = poisonVec(n)
							}
							got := impl.Dlange(kind, m, n, s.d, lda, work)
							s.checkRO(ck, "Dlange a")
							normCheck(ck, "Dlange", kind, got, a)
							for _, uplo := range uplos {
								for _, diag := range diags {
									keep := func(i, j int) bool {
										if i == j {
											return diag == blas.NonUnit
										}
										if uplo == blas.Upper {
											return j > i
										}
										return j < i
									}
									st := place(a, lda, keep)
									dense := newM(m, n)
									for i := 0; i < m; i++ {
										for j := 0; j < n; j++ {
											if keep(i, j) {
												dense.a[i*n+j] = a.at(i, j)
											} else if i == j {
												dense.a[i*n+j] = 1
											}
										}
									}
									var w2 []float64
									if kind == lapack.MaxColumnSum {
										w2 = poisonVec(n)
									}
									got := impl.Dlantr(kind, uplo, diag, m, n, st.d, lda, w2)
									st.checkRO(ck, "Dlantr a")
									if imin(m, n) == 0 {
										if got != 0 {
											ck.failf("Dlantr of an empty matrix = %v", got)
										}
										continue
									}
									if diag == blas.Unit && e != 0 {
										continue // the implicit ones make the mixed-scale Frobenius reference unhelpful; integer scale only
									}
									normCheck(ck, fmt.Sprintf("Dlantr uplo=%s diag=%s", uploName(uplo), diagName(diag)), kind, got, dense)
								}
							}
						}
					}
					t.Outcome(fmt.Sprintf("exp=%d", e))
				})
			}
		}
	}
	// Dlansy, Dlanhs (square)
	for n := 0; n <= N; n++ {
		for _, e := range exps {
			n, e := n, e
			g.Case(fmt.Sprintf("Dlansy/Dlanhs n=%d exp=%d", n, e), func(t *vlib.T) {
				ck := &checker{t: t}
				if n >= 2 {
					t.Nontrivial()
				}
				a := intM(n, n, 101, e)
				for _, kind := range normKinds {
					for _, pad := range []int{0, 3} {
						lda := imax(1, n) + pad
						ck.ctx = fmt.Sprintf("norm=%s lda=%d", normName(kind), lda)
						for _, uplo := range uplos {
							s := place(a, lda, keepUplo(uplo))
							var work []float64
							if kind == lapack.MaxColumnSum || kind == lapack.MaxRowSum {
								work = poisonVec(n)
							}
							got := impl.Dlansy(kind, uplo, n, s.d, lda, work)
							s.checkRO(ck, "Dlansy a")
							normCheck(ck, "Dlansy uplo="+uploName(uplo), kind, got, symOf(a, uplo))
						}
						// Hessenberg: elements below the first subdiagonal are not referenced
						keepH := func(i, j int) bool { return i <= j+1 }
						s := place(a, lda, keepH)
						dense := newM(n, n)
						for i := 0; i < n; i++ {
							for j := 0; j < n; j++ {
								if keepH(i, j) {
									dense.a[i*n+j] = a.at(i, j)
								}
							}
						}
						var work []float64
						if kind == lapack.MaxColumnSum {
							work = poisonVec(n)
						}
						got := impl.Dlanhs(kind, n, s.d, lda, work)
						s.checkRO(ck, "Dlanhs a")
						normCheck(ck, "Dlanhs", kind, got, dense)
					}
				}
				t.Outcome(fmt.Sprintf("exp=%d", e))
			})
		}
	}
	// band: Dlangb, Dlansb, Dlantb
	for m := 0; m <= N; m++ {
		for n := 0; n <= N; n++ {
			for _, kl := range []int{0, 1, 2, 4} {
				for _, ku := range []int{0, 1, 3} {
					m, n, kl, ku := m, n, kl, ku
					g.Case(fmt.Sprintf("Dlangb m=%d n=%d kl=%d ku=%d", m, n, kl, ku), func(t *vlib.T) {
						ck := &checker{t: t}
						if m*n >= 2 {
							t.Nontrivial()
						}
						a := intM(m, n, 102, 0)
						dense := newM(m, n)
						for _, pad := range []int{0, 2} {
							ldab := kl + ku + 1 + pad
							rows := imin(m, n+kl)
							ab := make([]float64, rows*ldab)
							for i := range ab {
								ab[i] = vlib.Poison64(0x300 + i)
							}
							for i := 0; i < m; i++ {
								for j := imax(0, i-kl); j <= imin(n-1, i+ku); j++ {
									ab[i*ldab+kl+j-i] = a.at(i, j)
									dense.a[i*n+j] = a.at(i, j)
								}
							}
							snap := append([]float64(nil), ab...)
							for _, kind := range normKinds {
								ck.ctx = fmt.Sprintf("norm=%s ldab=%d", normName(kind), ldab)
								got := impl.Dlangb(kind, m, n, kl, ku, ab, ldab)
								if _, same := vlib.Same64(ab, snap); !same {
									ck.failf("Dlangb modified ab")
								}
								if m == 0 || n == 0 {
									if got != 0 {
										ck.failf("Dlangb of an empty matrix = %v", got)
									}
									continue
								}
								normCheck(ck, "Dlangb", kind, got, dense)
							}
						}
						t.Outcome("gb")
					})
				}
			}
		}
	}
	for n := 0; n <= N; n++ {
		for _, kd := range kdMenu(n, g.Thorough()) {
			n, kd := n, kd
			g.Case(fmt.Sprintf("Dlansb/Dlantb n=%d kd=%d", n, kd), func(t *vlib.T) {
				ck := &checker{t: t}
				if n >= 2 {
					t.Nontrivial()
				}
				a := intM(n, n, 103, 0)
				for _, kind := range normKinds {
					for _, pad := range []int{0, 3} {
						for _, uplo := range uplos {
							ck.ctx = fmt.Sprintf("norm=%s ldab=%d uplo=%s", normName(kind), kd+1+pad, uploName(uplo))
							sym := bandRestrict(symOf(a, uplo), kd)
							s := placeBand(sym, uplo, kd, kd+1+pad, false)
							var work []float64
							if kind == lapack.MaxColumnSum || kind == lapack.MaxRowSum {
								work = poisonVec(n)
							}
							got := impl.Dlansb(kind, uplo, n, kd, s.d, kd+1+pad, work)
							s.checkRO(ck, "Dlansb ab")
							normCheck(ck, "Dlansb", kind, got, sym)
							for _, diag := range diags {
								tm := bandRestrict(triDense(a, uplo, diag), kd)
								st := placeBand(tm, uplo, kd, kd+1+pad, diag == blas.Unit)
								var w2 []float64
								if kind == lapack.MaxColumnSum {
									w2 = poisonVec(n)
								}
								got := impl.Dlantb(kind, uplo, diag, n, kd, st.d, kd+1+pad, w2)
								st.checkRO(ck, "Dlantb a")
								normCheck(ck, "Dlantb diag="+diagName(diag), kind, got, tm)
							}
						}
					}
				}
				t.Outcome("sb/tb")
			})
		}
	}
	// tridiagonal: Dlangt, Dlanst
	for n := 0; n <= vlib.Pick(g, 14, 20); n++ {
		for _, e := range exps {
			n, e := n, e
			g.Case(fmt.Sprintf("Dlangt/Dlanst n=%d exp=%d", n, e), func(t *vlib.T) {
				ck := &checker{t: t}
				if n >= 2 {
					t.Nontrivial()
				}
				d := make([]float64, n)
				dl := make([]float64, imax(0, n-1))
				du := make([]float64, imax(0, n-1))
				for i := range d {
					d[i] = math.Ldexp(float64(h3(i, 0, 104)), e)
				}
				for i := range dl {
					dl[i] = math.Ldexp(float64(h3(i, 1, 104)), e)
					du[i] = math.Ldexp(float64(h3(i, 2, 104)), e)
				}
				for _, kind := range normKinds {
					ck.ctx = "norm=" + normName(kind)
					d1, dl1, du1 := append([]float64(nil), d...), append([]float64(nil), dl...), append([]float64(nil), du...)
					got := impl.Dlangt(kind, n, dl1, d1, du1)
					normCheck(ck, "Dlangt", kind, got, tridiagDense(dl, d, du))
					got = impl.Dlanst(kind, n, d1, dl1)
					normCheck(ck, "Dlanst", kind, got, tridiagDense(dl, d, dl))
					if _, same := vlib.Same64(d1, d); !same {
						ck.failf("norm routine modified d")
					}
				}
				t.Outcome(fmt.Sprintf("exp=%d", e))
			})
		}
	}
}
