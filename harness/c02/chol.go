package main

import (
	"fmt"
	"math"

	"gonum.org/v1/gonum/blas"
	"gonum.org/v1/gonum/internal/verif/vlib"
)

// triOf returns the uplo triangle of f (including the diagonal), zero elsewhere.
func triOf(f M, uplo blas.Uplo) M {
	t := newM(f.r, f.c)
	for i := 0; i < f.r; i++ {
		for j := 0; j < f.c; j++ {
			if (uplo == blas.Upper && j >= i) || (uplo == blas.Lower && j <= i) {
				t.a[i*f.c+j] = f.a[i*f.c+j]
			}
		}
	}
	return t
}

// symOf completes the uplo triangle of f to a full symmetric matrix.
func symOf(f M, uplo blas.Uplo) M {
	s := newM(f.r, f.c)
	for i := 0; i < f.r; i++ {
		for j := 0; j < f.c; j++ {
			if (uplo == blas.Upper && j >= i) || (uplo == blas.Lower && j <= i) {
				s.a[i*f.c+j] = f.a[i*f.c+j]
				s.a[j*f.c+i] = f.a[i*f.c+j]
			}
		}
	}
	return s
}

// cholProduct returns U^T*U or L*L^T.
func cholProduct(tri M, uplo blas.Uplo) M {
	if uplo == blas.Upper {
		return mul(tri.T(), tri)
	}
	return mul(tri, tri.T())
}

func cholOracle(ck *checker, what string, uplo blas.Uplo, a, fac M, ok bool, f sfam) {
	n := a.r
	if f.pd && !ok {
		ck.failf("%s: ok=false on a positive definite matrix", what)
	}
	if f.notPD != nil && f.notPD(n) && ok {
		ck.failf("%s: ok=true on a matrix that is not positive definite", what)
	}
	if !ok || n == 0 {
		return
	}
	tri := triOf(fac, uplo)
	if hasNaN(tri) {
		ck.failf("%s: NaN in factor", what)
		return
	}
	for i := 0; i < n; i++ {
		if !(tri.at(i, i) > 0) {
			ck.failf("%s: diagonal entry %d of the factor is %v", what, i, tri.at(i, i))
			return
		}
	}
	res := norm1(sub(cholProduct(tri, uplo), a))
	ck.ratio("chol |RtR-A|/(n eps |A|)", res/(float64(n)*eps*norm1(a)))
}

type cholRun struct {
	fac  M // referenced triangle, zero elsewhere
	ok   bool
	path string
}

func runPotrf(ck *checker, what string, uplo blas.Uplo, a M, lda int, blocked bool) cholRun {
	n := a.r
	s := place(a, lda, keepUplo(uplo))
	resetL3()
	var ok bool
	if blocked {
		ok = impl.Dpotrf(uplo, n, s.d, lda)
	} else {
		ok = impl.Dpotf2(uplo, n, s.d, lda)
	}
	r := cholRun{fac: s.getRef(), ok: ok, path: pathL3()}
	if i, intact := s.poisonIntact(); !intact {
		ck.failf("%s: unreferenced storage written at offset %d (row %d col %d)", what, i, i/lda, i%lda)
	}
	if ok {
		if i, bad := s.refHasNaN(); bad {
			ck.failf("%s: NaN in factor at row %d col %d", what, i/lda, i%lda)
		}
	}
	return r
}

func genChol(g *vlib.G) {
	N := vlib.Pick(g, 12, 14)
	nbs := vlib.Pick(g, []int{1, 2, 3, 4}, []int{1, 2, 3, 4, 5})
	fams := symFams(N, true)
	for n := 0; n <= N; n++ {
		for _, f := range fams {
			if k, ok := posFam(f.name); ok && k >= n {
				continue
			}
			for _, uplo := range uplos {
				for _, nb := range nbs {
					n, f, uplo, nb := n, f, uplo, nb
					g.Case(fmt.Sprintf("Dpotrf uplo=%s n=%d fam=%s nb=%d", uploName(uplo), n, f.name, nb), func(t *vlib.T) {
						defer seamOff()
						seamOn(nb, 0)
						ck := &checker{t: t}
						a := f.gen(n)
						if n >= 2 {
							t.Nontrivial()
						}
						ref := runPotrf(ck, "Dpotf2 packed", uplo, a, imax(1, n), false)
						cholOracle(ck, "Dpotf2 packed", uplo, a, ref.fac, ref.ok, f)
						if ref.path != "unblocked" {
							ck.failf("harness: Dpotf2 used level-3 BLAS")
						}
						path := ""
						for _, lda := range []int{imax(1, n), imax(1, n) + 3} {
							ck.ctx = fmt.Sprintf("lda=%d", lda)
							if lda != imax(1, n) {
								r2 := runPotrf(ck, "Dpotf2", uplo, a, lda, false)
								cholOracle(ck, "Dpotf2", uplo, a, r2.fac, r2.ok, f)
								if r2.ok != ref.ok {
									ck.failf("Dpotf2: ok depends on lda")
								} else if ref.ok && f.well {
									if d := maxAbsDiff(r2.fac, ref.fac); d > diffTol*math.Max(1, normMax(a)) {
										ck.failf("Dpotf2 lda vs packed: factors differ by %.3g", d)
									}
								}
							}
							rb := runPotrf(ck, "Dpotrf", uplo, a, lda, true)
							cholOracle(ck, "Dpotrf", uplo, a, rb.fac, rb.ok, f)
							if rb.ok != ref.ok {
								// only the margin families promise a definite answer; in between both answers are legal.
								if f.pd || (f.notPD != nil && f.notPD(n)) {
									ck.failf("Dpotrf ok=%v but Dpotf2 ok=%v", rb.ok, ref.ok)
								}
							} else if ref.ok && f.well {
								if d := maxAbsDiff(rb.fac, ref.fac); d > diffTol*math.Max(1, normMax(a)) {
									ck.failf("Dpotrf vs Dpotf2: factors differ by %.3g", d)
								}
							}
							path = rb.path
						}
						ck.ctx = ""
						okc := "pd"
						if !ref.ok {
							okc = "notpd"
						}
						t.Outcome(path + "/" + okc)
					})
				}
			}
		}
	}
}

// genCholSolve: Dpotrs, Dpotri, Dpocon on the factor computed by Dpotrf.
func genCholSolve(g *vlib.G) {
	N := vlib.Pick(g, 12, 14)
	nbs := vlib.Pick(g, []int{1, 2, 3, 4}, []int{1, 2, 3, 4, 5})
	fams := pickSFams(symFams(N, false), "spd", "spdgraded", "id", "tri21", "zero")
	for n := 0; n <= N; n++ {
		for _, f := range fams {
			for _, uplo := range uplos {
				for _, nb := range nbs {
					n, f, uplo, nb := n, f, uplo, nb
					g.Case(fmt.Sprintf("Cholsolve uplo=%s n=%d fam=%s nb=%d", uploName(uplo), n, f.name, nb), func(t *vlib.T) {
						defer seamOff()
						seamOn(nb, 0)
						ck := &checker{t: t}
						a := f.gen(n)
						if n >= 2 {
							t.Nontrivial()
						}
						lda := imax(1, n) + (nb % 2 * 3)
						fac := runPotrf(ck, "Dpotrf", uplo, a, lda, true)
						if !fac.ok {
							if f.pd {
								ck.failf("Dpotrf failed on a positive definite matrix")
							}
							// Dpotri on a factor with a zero diagonal must refuse.
							if f.name == "zero" && n > 0 {
								s := place(newM(n, n), lda, keepUplo(uplo))
								if ok := impl.Dpotri(uplo, n, s.d, lda); ok {
									ck.failf("Dpotri ok=true on a singular factor")
								}
								s.checkRO(ck, "Dpotri a (singular)")
							}
							t.Outcome("notpd")
							return
						}
						facS := place(fac.fac, lda, keepUplo(uplo))
						for _, nrhs := range []int{0, 1, 3} {
							for _, ldb := range []int{imax(1, nrhs), imax(1, nrhs) + 3} {
								ck.ctx = fmt.Sprintf("nrhs=%d ldb=%d", nrhs, ldb)
								x := xTrue(n, nrhs)
								b := mul(a, x)
								bs := place(b, ldb, nil)
								impl.Dpotrs(uplo, n, nrhs, facS.d, lda, bs.d, ldb)
								facS.checkRO(ck, "Dpotrs a")
								bs.checkOut(ck, "Dpotrs b")
								xh := bs.get()
								solveResid(ck, "Dpotrs", a, xh, b, n)
								if f.well && n > 0 && nrhs > 0 {
									if d := maxAbsDiff(xh, x); d > diffTol*normMax(x) {
										ck.failf("Dpotrs: forward error %.3g on a well-conditioned system", d)
									}
								}
							}
						}
						ck.ctx = ""
						// Dpotri (Dtrtri + Dlauum, both blocked under the seam)
						s := place(fac.fac, lda, keepUplo(uplo))
						resetL3()
						ok := impl.Dpotri(uplo, n, s.d, lda)
						pathI := pathL3()
						if !ok {
							ck.failf("Dpotri ok=false on a positive definite matrix")
						}
						if i, intact := s.poisonIntact(); !intact {
							ck.failf("Dpotri: unreferenced storage written at offset %d", i)
						}
						if n > 0 && ok {
							inv := symOf(s.getRef(), uplo)
							if hasNaN(inv) {
								ck.failf("Dpotri: NaN in inverse")
							} else {
								res := norm1(sub(mul(a, inv), eye(n)))
								ck.ratio("Dpotri |A*inv-I|/(n eps |A||inv|)", res/(float64(n)*eps*norm1(a)*norm1(inv)))
							}
						}
						// Dpocon
						if n == 0 {
							if rc := impl.Dpocon(uplo, 0, nil, 1, 0, nil, nil); rc != 1 {
								ck.failf("Dpocon n=0 returned %v, want 1", rc)
							}
						} else {
							work := poisonVec(3 * n)
							iwork := make([]int, n)
							rc := impl.Dpocon(uplo, n, facS.d, lda, norm1(a), work, iwork)
							facS.checkRO(ck, "Dpocon a")
							if ainv, iok := inverse(a); iok {
								condCheck(ck, "Dpocon", rc, norm1(a), norm1(ainv))
							}
						}
						t.Outcome("pd/potrf-" + fac.path + "/potri-" + pathI)
					})
				}
			}
		}
	}
}
