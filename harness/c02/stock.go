package main

import (
	"fmt"
	"math"

	"gonum.org/v1/gonum/blas"
	"gonum.org/v1/gonum/internal/verif/vlib"
)

// Part (b): the stock tuning parameters (no seam) on sizes straddling the
// block sizes 32 and 64 and the crossover 128, and the differential
// "seam nb vs stock nb" on the same inputs.

func stockSizes(g *vlib.G) []int {
	if g.Thorough() {
		return []int{0, 1, 2, 3, 5, 31, 32, 33, 63, 64, 65, 95, 96, 97, 127, 128, 129, 130, 161, 193}
	}
	return []int{31, 32, 33, 63, 64, 65, 127, 128, 129, 130}
}

// zeroColFams: one exactly singular family per listed column: with the stock block size 64 the zero
// pivot lies in the first, second or third block column of Dgetrf (and at their first and last columns).
func zeroColFams(cols ...int) []fam {
	var fs []fam
	for _, j := range cols {
		j := j
		fs = append(fs, fam{fmt.Sprintf("zerocol%d", j), genZeroCol(j), func(m, n int) bool { return j < imin(m, n) }, false})
	}
	return fs
}

func genStockLU(g *vlib.G) {
	sizes := stockSizes(g)
	fams := pickFams(generalFams(200, false), "dd", "had", "rowgraded", "duprow", "signmix", "cluster")
	fams = append(fams, zeroColFams(0, 33, 63, 64, 65, 100, 127, 128, 129, 192)...)
	if !g.Thorough() {
		fams = pickFams(generalFams(66, false), "dd", "had", "rowgraded", "cluster")
		fams = append(fams, zeroColFams(0, 33, 63, 64, 65, 100, 127, 128, 129)...)
	}
	for _, m := range sizes {
		for _, n := range sizes {
			for _, f := range fams {
				m, n, f := m, n, f
				if j, ok := posFam(f.name); ok && j >= imin(m, n) {
					continue
				}
				g.Case(fmt.Sprintf("stock Dgetrf m=%d n=%d fam=%s", m, n, f.name), func(t *vlib.T) {
					defer seamOff()
					seamOff()
					ck := &checker{t: t}
					t.Nontrivial()
					a := f.gen(m, n)
					ref := runGetrf(ck, "Dgetf2", a, imax(1, n), false)
					luOracle(ck, "Dgetf2", a, ref.lu, ref.ipiv, ref.ok, 0)
					var st luRun
					for _, lda := range []int{imax(1, n), imax(1, n) + 3} {
						ck.ctx = fmt.Sprintf("stock lda=%d", lda)
						st = runGetrf(ck, "Dgetrf", a, lda, true)
						luOracle(ck, "Dgetrf", a, st.lu, st.ipiv, st.ok, 0)
						compareLU(ck, "Dgetrf(stock) vs Dgetf2", a, ref, st, f.well)
					}
					ck.ctx = "seam nb=5"
					seamOn(5, 0)
					sm := runGetrf(ck, "Dgetrf", a, imax(1, n), true)
					seamOff()
					luOracle(ck, "Dgetrf", a, sm.lu, sm.ipiv, sm.ok, 0)
					compareLU(ck, "Dgetrf seam nb vs stock nb", a, st, sm, f.well)
					ck.ctx = ""
					if f.exactSingular(m, n) && (st.ok || sm.ok || ref.ok) {
						ck.failf("ok=true on an exactly singular input")
					}
					t.Outcome("stock-" + st.path + "/seam-" + sm.path)
					if m != n || !st.ok || n == 0 {
						return
					}
					// square: Dgetri with several workspace lengths, Dgetrs
					lda := n + 3
					query := workQuery(ck, "Dgetri", n, false, func(work []float64) {
						impl.Dgetri(n, place(st.lu, lda, nil).d, lda, append([]int(nil), st.ipiv...), work, -1)
					})
					var refInv M
					paths := map[string]bool{}
					for k, lwork := range uniq(imax(1, n), query, n, 2*n-1, 2*n, 17*n, query-1, query+5) {
						ck.ctx = fmt.Sprintf("Dgetri lwork=%d", lwork)
						s := place(st.lu, lda, nil)
						ip := append([]int(nil), st.ipiv...)
						work := poisonVec(lwork)
						resetL3()
						if ok := impl.Dgetri(n, s.d, lda, ip, work, lwork); !ok {
							ck.failf("Dgetri ok=false")
							continue
						}
						paths[map[bool]string{true: "blocked", false: "unblocked"}[l3.gemm > 0]] = true
						s.checkOut(ck, "Dgetri a")
						inv := s.get()
						if hasNaN(inv) {
							continue
						}
						res := norm1(sub(mul(inv, a), eye(n))) // left residual, see lu.go
						ck.ratio("Dgetri |inv*A-I|/(n eps |A||inv|)", res/(float64(n)*eps*norm1(a)*norm1(inv)))
						if k == 0 {
							refInv = inv
						} else if f.well {
							if d := maxAbsDiff(inv, refInv); d > diffTol*math.Max(1, normMax(refInv)) {
								ck.failf("inverse differs between workspace lengths by %.3g", d)
							}
						}
					}
					ck.ctx = ""
					facS := place(st.lu, lda, nil)
					for _, tr := range transes {
						x := xTrue(n, 3)
						op := opOf(a, tr)
						b := mul(op, x)
						bs := place(b, 5, nil)
						impl.Dgetrs(tr, n, 3, facS.d, lda, st.ipiv, bs.d, 5)
						bs.checkOut(ck, "Dgetrs b")
						solveResid(ck, "Dgetrs", op, bs.get(), b, n)
					}
					oc := ""
					for _, p := range []string{"blocked", "unblocked"} {
						if paths[p] {
							oc += "+" + p
						}
					}
					t.Outcome("stock-" + st.path + "/seam-" + sm.path + "/getri" + oc)
				})
			}
		}
		if g.Stopped() {
			return
		}
	}
}

func genStockChol(g *vlib.G) {
	sizes := stockSizes(g)
	fams := pickSFams(symFams(200, false), "spd", "spdgraded", "tri21")
	for _, k := range []int{0, 33, 63, 64, 65, 100, 127, 128, 129, 192} {
		k := k
		if !g.Thorough() && k == 192 {
			continue
		}
		fams = append(fams,
			sfam{fmt.Sprintf("negdiag%d", k), genNegDiag(k), false, func(n int) bool { return k < n }, false},
			sfam{fmt.Sprintf("ldlneg%d", k), genLDLNeg(k, 2), false, func(n int) bool { return k < n }, false})
	}
	for _, n := range sizes {
		for _, f := range fams {
			for _, uplo := range uplos {
				n, f, uplo := n, f, uplo
				if k, ok := posFam(f.name); ok && k >= n {
					continue
				}
				g.Case(fmt.Sprintf("stock Dpotrf uplo=%s n=%d fam=%s", uploName(uplo), n, f.name), func(t *vlib.T) {
					defer seamOff()
					seamOff()
					ck := &checker{t: t}
					t.Nontrivial()
					a := f.gen(n)
					ff := f
					if f.notPD != nil && !f.notPD(n) {
						ff.notPD = nil // the negative entry lies outside this order: plain SPD
						ff.pd = true
					}
					ref := runPotrf(ck, "Dpotf2", uplo, a, imax(1, n), false)
					cholOracle(ck, "Dpotf2", uplo, a, ref.fac, ref.ok, ff)
					var st cholRun
					for _, lda := range []int{imax(1, n), imax(1, n) + 3} {
						ck.ctx = fmt.Sprintf("stock lda=%d", lda)
						st = runPotrf(ck, "Dpotrf", uplo, a, lda, true)
						cholOracle(ck, "Dpotrf", uplo, a, st.fac, st.ok, ff)
						if st.ok != ref.ok {
							ck.failf("Dpotrf ok=%v but Dpotf2 ok=%v", st.ok, ref.ok)
						} else if st.ok && f.well {
							if d := maxAbsDiff(st.fac, ref.fac); d > diffTol*math.Max(1, normMax(a)) {
								ck.failf("Dpotrf(stock) vs Dpotf2: factors differ by %.3g", d)
							}
						}
					}
					ck.ctx = "seam nb=5"
					seamOn(5, 0)
					sm := runPotrf(ck, "Dpotrf", uplo, a, imax(1, n), true)
					seamOff()
					cholOracle(ck, "Dpotrf", uplo, a, sm.fac, sm.ok, ff)
					if sm.ok != st.ok {
						ck.failf("seam nb vs stock nb: ok differs")
					} else if st.ok && f.well {
						if d := maxAbsDiff(st.fac, sm.fac); d > diffTol*math.Max(1, normMax(a)) {
							ck.failf("seam nb vs stock nb: factors differ by %.3g", d)
						}
					}
					ck.ctx = ""
					t.Outcome("stock-" + st.path + "/seam-" + sm.path)
					if !st.ok || n == 0 {
						return
					}
					// Dpotri = Dtrtri + Dlauum at stock block size 64, and Dpotrs
					lda := n + 3
					s := place(st.fac, lda, keepUplo(uplo))
					resetL3()
					if ok := impl.Dpotri(uplo, n, s.d, lda); !ok {
						ck.failf("Dpotri ok=false")
						return
					}
					pathI := pathL3()
					if i, intact := s.poisonIntact(); !intact {
						ck.failf("Dpotri: unreferenced storage written at offset %d", i)
					}
					inv := symOf(s.getRef(), uplo)
					if !hasNaN(inv) {
						res := norm1(sub(mul(a, inv), eye(n)))
						ck.ratio("Dpotri |A*inv-I|/(n eps |A||inv|)", res/(float64(n)*eps*norm1(a)*norm1(inv)))
					} else {
						ck.failf("Dpotri: NaN in inverse")
					}
					facS := place(st.fac, lda, keepUplo(uplo))
					x := xTrue(n, 3)
					b := mul(a, x)
					bs := place(b, 3, nil)
					impl.Dpotrs(uplo, n, 3, facS.d, lda, bs.d, 3)
					solveResid(ck, "Dpotrs", a, bs.get(), b, n)
					t.Outcome("stock-" + st.path + "/seam-" + sm.path + "/potri-" + pathI)
				})
			}
		}
	}
}

var sparseSize = map[int]bool{33: true, 64: true, 65: true, 129: true, 193: true}

func genStockQR(g *vlib.G) {
	sizes := stockSizes(g)
	var shapes [][2]int
	for _, m := range sizes {
		for _, n := range sizes {
			shapes = append(shapes, [2]int{m, n})
		}
	}
	if !g.Thorough() {
		// quick: (B32 u B64)^2 and a selection of shapes around and beyond the crossover 128
		shapes = shapes[:0]
		for _, m := range []int{31, 32, 33, 63, 64, 65} {
			for _, n := range []int{31, 32, 33, 63, 64, 65} {
				shapes = append(shapes, [2]int{m, n})
			}
		}
		for _, m := range []int{31, 32, 33, 63, 64, 65, 127, 128, 129, 130} {
			for _, n := range []int{31, 32, 33, 63, 64, 65, 127, 128, 129, 130} {
				if m > 100 || n > 100 {
					shapes = append(shapes, [2]int{m, n})
				}
			}
		}
		shapes = append(shapes, [2]int{161, 129}, [2]int{129, 161}, [2]int{193, 130})
	}
	// the sub-grid on which RQ runs in the quick tier
	quickAll := map[[2]int]bool{{127, 127}: true, {128, 128}: true, {129, 129}: true, {130, 130}: true, {130, 65}: true, {65, 130}: true,
		{129, 33}: true, {33, 129}: true, {161, 129}: true, {129, 161}: true, {193, 130}: true}
	fams := pickFams(generalFams(200, false), "dd", "had", "rowgraded", "zerocol100", "sparse", "cluster", "signmix")
	if !g.Thorough() {
		fams = pickFams(generalFams(66, false), "dd", "had", "sparse", "cluster")
	}
	kinds := []fkind{kindQR, kindLQ, kindRQ}
	for _, kd := range kinds {
		for _, sh := range shapes {
			for _, f := range fams {
				kd, m, n, f := kd, sh[0], sh[1], f
				if !g.Thorough() && (kd.name == "Dgerqf" || f.name != "dd") && (m > 100 || n > 100) && !quickAll[[2]int{m, n}] {
					continue // quick tier: on the large shapes RQ and the families other than dd run on a sub-grid only
				}
				if (f.name == "sparse" || f.name == "signmix") && g.Thorough() && !(sparseSize[m] && sparseSize[n]) {
					continue // the sparse family fails (known Dlarft defect) and every failure is re-run four times: keep it small
				}
				g.Case(fmt.Sprintf("stock %s m=%d n=%d fam=%s", kd.name, m, n, f.name), func(t *vlib.T) {
					defer seamOff()
					seamOff()
					ck := &checker{t: t}
					t.Nontrivial()
					a := f.gen(m, n)
					k := imin(m, n)
					ldmin := imax(1, n)
					unit := kd.unit(m, n)
					ref := runFactor(ck, kd, kd.unbName, a, ldmin, -1)
					factorOracle(ck, kd, kd.unbName, a, ref)
					// sparse inputs give Householder vectors with trailing zeros: the known Dlarft defect applies
					risky := kd.forward && larftRisk(kd.refl(ref.out, ref.tau))
					if risky {
						ck.class = larftClass
					}
					query := workQuery(ck, kd.name, unit, k == 0, func(work []float64) {
						kd.blocked(m, n, place(a, ldmin, nil).d, ldmin, poisonVec(k), work, -1)
					})
					paths := map[string]int{}
					var opt facRun
					for idx, lwork := range uniq(imax(1, unit), query, imax(1, unit), 2*unit-1, 2*unit, 16*unit, query-1, query+5) {
						lda := ldmin + (idx % 2 * 3)
						ck.ctx = fmt.Sprintf("stock lwork=%d lda=%d", lwork, lda)
						rb := runFactor(ck, kd, kd.name, a, lda, lwork)
						factorOracle(ck, kd, kd.name, a, rb)
						paths[rb.path]++
						if idx == 0 {
							opt = rb
						}
						if f.wellQR() {
							compareFac(ck, kd.name+"(stock) vs "+kd.unbName, a, ref, rb)
						}
					}
					ck.ctx = "seam nb=5 nx=0"
					seamOn(5, 0)
					sm := runFactor(ck, kd, kd.name, a, ldmin, imax(1, unit)*5)
					seamOff()
					factorOracle(ck, kd, kd.name, a, sm)
					if f.wellQR() {
						compareFac(ck, kd.name+" seam nb vs stock nb", a, opt, sm)
					}
					ck.ctx = ""
					oc := ""
					for _, p := range []string{"blocked", "unblocked"} {
						if paths[p] > 0 {
							oc += "+" + p
						}
					}
					t.Outcome("stock-" + oc[1:] + "/seam-" + sm.path)
					if k == 0 || kd.name == "Dgerqf" {
						return
					}
					// Dorgqr/Dorglq (thin Q) and Dormqr/Dormlq at stock parameters on the optimum factorization
					rf := kd.refl(opt.out, opt.tau)
					q := qOf(rf, kd.asc)
					dim := float64(rf.dim)
					var ok okind
					var mk mkind
					var qm, qn int
					if kd.name == "Dgeqrf" {
						ok, mk, qm, qn = orgQR, ormQR, m, k
					} else {
						ok, mk, qm, qn = orgLQ, ormLQ, k, n
					}
					in, keep, want := orgInput(ok, rf, qm, qn, k)
					ounit := ok.unit(qm, qn)
					oq := workQuery(ck, ok.name, ounit, false, func(work []float64) {
						ok.blocked(qm, qn, k, place(in, imax(1, qn), keep).d, imax(1, qn), append([]float64(nil), rf.tau...), work, -1)
					})
					opaths := map[string]int{}
					for idx, lwork := range uniq(imax(1, ounit), oq, imax(1, ounit), 16*ounit, oq+5) {
						lda := imax(1, qn) + (idx % 2 * 3)
						ck.ctx = fmt.Sprintf("%s lwork=%d lda=%d", ok.name, lwork, lda)
						s := place(in, lda, keep)
						work := poisonVec(lwork)
						resetL3()
						ok.blocked(qm, qn, k, s.d, lda, append([]float64(nil), rf.tau...), work, lwork)
						opaths[pathL3()]++
						for i := 0; i < qm; i++ {
							for j := 0; j < qn; j++ {
								s.ref[i*lda+j] = true
							}
						}
						s.checkOut(ck, ok.name)
						if got := s.get(); !hasNaN(got) {
							ck.ratio("org |Q-Qref|/(n eps)", norm1(sub(got, want))/(dim*eps))
						}
					}
					// Dorm*: all side/trans with a 3-wide C
					keepV := func(i, j int) bool {
						if kd.name == "Dgeqrf" {
							return i > j
						}
						return j > i
					}
					var src M
					if kd.name == "Dgeqrf" {
						src = opt.out.slice(0, m, 0, k)
					} else {
						src = opt.out.slice(0, k, 0, n)
					}
					mpaths := map[string]int{}
					for _, side := range sides {
						for _, trans := range transes {
							cm, cn := rf.dim, 3
							if side == blas.Right {
								cm, cn = 3, rf.dim
							}
							nw := cn
							if side == blas.Right {
								nw = cm
							}
							c := genDD(13)(cm, cn)
							qop := q
							if trans == blas.Trans {
								qop = q.T()
							}
							var wantC M
							if side == blas.Left {
								wantC = mul(qop, c)
							} else {
								wantC = mul(c, qop)
							}
							mq := workQuery(ck, mk.name, nw, false, func(work []float64) {
								mk.blocked(side, trans, cm, cn, k, place(src, src.c, keepV).d, src.c, append([]float64(nil), opt.tau[:k]...), place(c, cn, nil).d, cn, work, -1)
							})
							for idx, lwork := range uniq(imax(1, nw), mq, imax(1, nw), ormTsize+nw*16, ormTsize+nw*16-1, mq+5) {
								pad := idx % 2 * 3
								ck.ctx = fmt.Sprintf("%s side=%s trans=%s lwork=%d pad=%d", mk.name, sideName(side), transName(trans), lwork, pad)
								as := place(src, src.c+pad, keepV)
								cs := place(c, cn+pad, nil)
								work := poisonVec(lwork)
								resetL3()
								mk.blocked(side, trans, cm, cn, k, as.d, src.c+pad, append([]float64(nil), opt.tau[:k]...), cs.d, cn+pad, work, lwork)
								mpaths[pathL3()]++
								as.checkRO(ck, mk.name+" a")
								cs.checkOut(ck, mk.name+" c")
								if got := cs.get(); !hasNaN(got) {
									ck.ratio("orm |C-QC|/(n eps |C|)", norm1(sub(got, wantC))/(dim*eps*math.Max(1, norm1(c))))
								}
							}
						}
					}
					ck.ctx = ""
					oc2 := ""
					for _, p := range []string{"blocked", "unblocked"} {
						if opaths[p] > 0 {
							oc2 += "+" + p
						}
					}
					oc3 := ""
					for _, p := range []string{"blocked", "unblocked"} {
						if mpaths[p] > 0 {
							oc3 += "+" + p
						}
					}
					t.Outcome("stock-" + oc[1:] + "/seam-" + sm.path + "/org" + oc2 + "/orm" + oc3)
				})
			}
		}
		if g.Stopped() {
			return
		}
	}
}

// genStockMisc: the remaining blocked routines at their stock block sizes.
func genStockMisc(g *vlib.G) {
	sizes := vlib.Pick(g, []int{65, 129}, []int{63, 64, 65, 129, 193})
	genStockQp3(g)
	for _, n := range sizes {
		for _, uplo := range uplos {
			n, uplo := n, uplo
			for _, diag := range diags {
				diag := diag
				g.Case(fmt.Sprintf("stock Dtrtri uplo=%s diag=%s n=%d", uploName(uplo), diagName(diag), n), func(t *vlib.T) {
					ck := &checker{t: t}
					t.Nontrivial()
					a := genDD(11)(n, n)
					tm := triDense(a, uplo, diag)
					ref := runTrtri(ck, "Dtrti2", uplo, diag, a, n, false)
					rb := runTrtri(ck, "Dtrtri", uplo, diag, a, n+3, true)
					res := norm1(sub(mul(tm, rb.out), eye(n)))
					ck.ratio("trtri |T*inv-I|/(n eps |T||inv|)", res/(float64(n)*eps*norm1(tm)*norm1(rb.out)))
					if d := maxAbsDiff(rb.out, ref.out); d > diffTol*math.Max(1, normMax(ref.out)) {
						ck.failf("Dtrtri vs Dtrti2: inverses differ by %.3g", d)
					}
					t.Outcome("trtri-" + rb.path)
				})
			}
			g.Case(fmt.Sprintf("stock Dlauum uplo=%s n=%d", uploName(uplo), n), func(t *vlib.T) {
				ck := &checker{t: t}
				t.Nontrivial()
				a := intM(n, n, 97, 0)
				tm := triDense(a, uplo, blas.NonUnit)
				var want M
				if uplo == blas.Upper {
					want = triOf(mul(tm, tm.T()), uplo)
				} else {
					want = triOf(mul(tm.T(), tm), uplo)
				}
				s := place(a, n+3, keepUplo(uplo))
				resetL3()
				impl.Dlauum(uplo, n, s.d, n+3)
				path := pathL3()
				s.checkOut(ck, "Dlauum")
				if i, same := exactEq(s.getRef(), want); !same {
					ck.failf("product[%d,%d]=%v want %v (exact integer data)", i/n, i%n, s.getRef().a[i], want.a[i])
				}
				t.Outcome("lauum-" + path)
			})
			for _, tl := range []struct {
				name string
				tol  float64
			}{{"default", -1}, {"zero", 0}, {"tie", 0.25}} {
				tl := tl
				g.Case(fmt.Sprintf("stock Dpstrf exact-psd uplo=%s n=%d tol=%s", uploName(uplo), n, tl.name), func(t *vlib.T) {
					// exactly rank-deficient PSD input at the stock block size 64: the zero pivot ties tol = 0
					ck := &checker{t: t}
					t.Nontrivial()
					r := n - 2
					a, pivots := genPSDClusters(n, r)
					dstop := tl.tol
					if dstop < 0 {
						dstop = float64(n) * (eps / 2) * pivots[0]
					}
					want := 1
					for _, p := range pivots[1:] {
						if p > dstop {
							want++
						}
					}
					path := ""
					for _, blocked := range []bool{false, true} {
						run := runPstrf(ck, "Dpstrf", uplo, a, n+3, tl.tol, blocked)
						ck.ctx = fmt.Sprintf("blocked=%v", blocked)
						if run.rank != want || run.ok {
							ck.failf("rank=%d ok=%v, want rank %d and ok=false", run.rank, run.ok, want)
						}
						for _, v := range run.fac.a {
							if math.IsNaN(v) || math.IsInf(v, 0) {
								ck.failf("NaN or Inf in the factor")
								break
							}
						}
						pstOracle(ck, "Dpstrf", uplo, a, run, tl.tol, "psd", want, true)
						path = run.path
					}
					t.Outcome("pstrf-exact-" + path)
				})
			}
			g.Case(fmt.Sprintf("stock Dpstrf uplo=%s n=%d", uploName(uplo), n), func(t *vlib.T) {
				ck := &checker{t: t}
				t.Nontrivial()
				a := genSPD(0)(n)
				ref := runPstrf(ck, "Dpstf2", uplo, a, n, -1, false)
				pstOracle(ck, "Dpstf2", uplo, a, ref, -1, "pd", -1, false)
				rb := runPstrf(ck, "Dpstrf", uplo, a, n+3, -1, true)
				pstOracle(ck, "Dpstrf", uplo, a, rb, -1, "pd", -1, false)
				t.Outcome("pstrf-" + rb.path)
			})
			for _, kd := range []int{31, 32, 33, 64, 65, 100} {
				kd := kd
				if kd >= n+2 {
					continue
				}
				g.Case(fmt.Sprintf("stock Dpbtrf uplo=%s n=%d kd=%d", uploName(uplo), n, kd), func(t *vlib.T) {
					ck := &checker{t: t}
					t.Nontrivial()
					f := bfam{"bspd", genBandSPD, true, nil, true}
					a := genBandSPD(n, kd)
					ref := runPbtrf(ck, "Dpbtf2", uplo, a, kd, kd+1, false)
					bandCholOracle(ck, "Dpbtf2", uplo, a, ref, f)
					rb := runPbtrf(ck, "Dpbtrf", uplo, a, kd, kd+4, true)
					bandCholOracle(ck, "Dpbtrf", uplo, a, rb, f)
					if d := maxAbsDiff(rb.fac, ref.fac); d > diffTol*math.Max(1, normMax(a)) {
						ck.failf("Dpbtrf vs Dpbtf2: factors differ by %.3g", d)
					}
					t.Outcome("pbtrf-" + rb.path)
				})
			}
		}
		for _, m := range []int{65, 130} {
			n, m := n, m
			for _, trans := range allTrans {
				trans := trans
				g.Case(fmt.Sprintf("stock Dgels trans=%s m=%d n=%d", transName(trans), m, n), func(t *vlib.T) {
					ck := &checker{t: t}
					t.Nontrivial()
					a := genDD(0)(m, n)
					op := opOf(a, trans)
					nrhs := 3
					b := newM(imax(m, n), nrhs)
					for i := 0; i < op.r; i++ {
						for j := 0; j < nrhs; j++ {
							b.a[i*nrhs+j] = float64(h3(i, j, 61) + 1)
						}
					}
					mn := imin(m, n)
					minw := mn + imax(mn, nrhs)
					query := workQuery(ck, "Dgels", minw, false, func(work []float64) {
						impl.Dgels(trans, m, n, nrhs, place(a, n, nil).d, n, place(b, nrhs, nil).d, nrhs, work, -1)
					})
					paths := ""
					for _, lwork := range uniq(minw, minw, query, query+5, mn+4096+33*imax(mn, nrhs)) {
						ck.ctx = fmt.Sprintf("lwork=%d", lwork)
						r := runGels(ck, trans, a, b, n+3, nrhs+5, lwork)
						if !r.ok {
							ck.failf("Dgels returned false")
							continue
						}
						gelsOracle(ck, "Dgels", op, b.slice(0, op.r, 0, nrhs), r.x, true)
						paths += "+" + r.path
					}
					ck.ctx = ""
					t.Outcome("gels" + paths)
				})
			}
		}
	}
}

// genStockQp3: Dgeqp3 with the stock parameters (nb=32, nx=128) on shapes whose free part exceeds 128+32
// columns, so that Dlaqps factors full blocks (jb=32), a partial block (1 < jb < 32) and leaves the rest to
// Dlaqp2; free, partly fixed and rank-deficient inputs; lwork at the minimum, at a reduced block size, at
// the optimum and next to it.
func genStockQp3(g *vlib.G) {
	shapes := [][2]int{{131, 131}, {170, 170}, {180, 165}, {165, 200}}
	if g.Thorough() {
		shapes = append(shapes, [2]int{129, 129}, [2]int{130, 140}, [2]int{161, 161}, [2]int{193, 193}, [2]int{200, 170}, [2]int{225, 193})
	}
	fams := pickFams(generalFams(230, false), "colgraded", "dd", "cluster", "rank1", "zerocol115")
	for _, sh := range shapes {
		for _, f := range fams {
			for _, pat := range []string{"free", "mixed"} {
				m, n, f, pat := sh[0], sh[1], f, pat
				if pat == "mixed" && f.name != "dd" && f.name != "colgraded" {
					continue
				}
				g.Case(fmt.Sprintf("stock Dgeqp3 m=%d n=%d fam=%s jpvt=%s", m, n, f.name, pat), func(t *vlib.T) {
					ck := &checker{t: t}
					t.Nontrivial()
					a := f.gen(m, n)
					jp := make([]int, n)
					for j := range jp {
						jp[j] = -1
						if pat == "mixed" && j%7 == 3 {
							jp[j] = 0
						}
					}
					query := workQuery(ck, "Dgeqp3", 3*n+1, false, func(work []float64) {
						impl.Dgeqp3(m, n, place(a, n, nil).d, n, append([]int(nil), jp...), poisonVec(imin(m, n)), work, -1)
					})
					paths := map[string]int{}
					for idx, lwork := range uniq(3*n+1, 3*n+1, 2*n+(n+1)*16, 2*n+(n+1)*16-1, query-1, query, query+5) {
						lda := n + (idx % 2 * 3)
						ck.ctx = fmt.Sprintf("lwork=%d lda=%d", lwork, lda)
						r := runGeqp3(ck, "Dgeqp3", a, lda, jp, lwork)
						qp3Oracle(ck, "Dgeqp3", a, jp, r)
						if !r.failed {
							paths[r.path]++
						}
					}
					ck.ctx = ""
					t.Outcome(fmt.Sprintf("qp3-%s laqps=%d laqp2=%d", pat, paths["laqps"], paths["laqp2"]))
				})
			}
		}
	}
}
