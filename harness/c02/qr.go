package main

import (
	"fmt"
	"math"

	"gonum.org/v1/gonum/blas"
	"gonum.org/v1/gonum/internal/verif/vlib"
)

// refl is a list of elementary reflectors H_i = I - tau_i v_i v_i^T of order dim, each v_i dense.
type refl struct {
	v   [][]float64
	tau []float64
	dim int
}

func (r refl) take(k int) refl { return refl{r.v[:k], r.tau[:k], r.dim} }

// qOf multiplies the reflectors out: H_0 H_1 ... H_{k-1} (asc) or H_{k-1} ... H_0.
func qOf(r refl, asc bool) M {
	q := eye(r.dim)
	n := r.dim
	apply := func(i int) {
		v, tau := r.v[i], r.tau[i]
		// q <- q * (I - tau v v^T)
		for a := 0; a < n; a++ {
			var s float64
			for b := 0; b < n; b++ {
				s += q.a[a*n+b] * v[b]
			}
			s *= tau
			for b := 0; b < n; b++ {
				q.a[a*n+b] -= s * v[b]
			}
		}
	}
	if asc {
		for i := 0; i < len(r.v); i++ {
			apply(i)
		}
	} else {
		for i := len(r.v) - 1; i >= 0; i-- {
			apply(i)
		}
	}
	return q
}

func qrReflectors(out M, tau []float64) refl {
	m, n := out.r, out.c
	k := imin(imin(m, n), len(tau))
	r := refl{dim: m, tau: tau[:k]}
	for i := 0; i < k; i++ {
		v := make([]float64, m)
		v[i] = 1
		for l := i + 1; l < m; l++ {
			v[l] = out.at(l, i)
		}
		r.v = append(r.v, v)
	}
	return r
}

func lqReflectors(out M, tau []float64) refl {
	m, n := out.r, out.c
	k := imin(imin(m, n), len(tau))
	r := refl{dim: n, tau: tau[:k]}
	for i := 0; i < k; i++ {
		v := make([]float64, n)
		v[i] = 1
		for l := i + 1; l < n; l++ {
			v[l] = out.at(i, l)
		}
		r.v = append(r.v, v)
	}
	return r
}

func rqReflectors(out M, tau []float64) refl {
	m, n := out.r, out.c
	k := imin(m, n)
	r := refl{dim: n, tau: tau[:k]}
	for i := 0; i < k; i++ {
		v := make([]float64, n)
		v[n-k+i] = 1
		for l := 0; l < n-k+i; l++ {
			v[l] = out.at(m-k+i, l)
		}
		r.v = append(r.v, v)
	}
	return r
}

func qlReflectors(out M, tau []float64) refl {
	m, n := out.r, out.c
	k := imin(m, n)
	r := refl{dim: m, tau: tau[:k]}
	for i := 0; i < k; i++ {
		v := make([]float64, m)
		v[m-k+i] = 1
		for l := 0; l < m-k+i; l++ {
			v[l] = out.at(l, n-k+i)
		}
		r.v = append(r.v, v)
	}
	return r
}

// larftRisk reports whether a forward sequence of reflectors has the shape that
// the known Dlarft defect (class dlarft-forward-prevlastv) mishandles: some
// reflector with fewer trailing non-zeros than an earlier one is followed by a
// longer one.
func larftRisk(r refl) bool {
	last := make([]int, len(r.v))
	for i, v := range r.v {
		last[i] = -1
		if r.tau[i] == 0 {
			continue
		}
		for l := len(v) - 1; l >= 0; l-- {
			if v[l] != 0 {
				last[i] = l
				break
			}
		}
	}
	for b := 1; b < len(last); b++ {
		if last[b] < 0 {
			continue
		}
		longerBefore := false
		for a := 0; a < b; a++ {
			if last[a] > last[b] {
				longerBefore = true
			}
		}
		if !longerBefore {
			continue
		}
		for c := b + 1; c < len(last); c++ {
			if last[c] > last[b] {
				return true
			}
		}
	}
	return false
}

const larftClass = "dlarft-forward-prevlastv"

// fkind describes one of the four orthogonal factorizations.
type fkind struct {
	name, unbName string
	hasBlocked    bool
	unit          func(m, n int) int // documented minimum workspace (and the divisor of the nb = lwork/unit fallback)
	blocked       func(m, n int, a []float64, lda int, tau, work []float64, lwork int)
	unblocked     func(m, n int, a []float64, lda int, tau, work []float64)
	refl          func(out M, tau []float64) refl
	asc           bool // Q = H_0 ... H_{k-1}
	left          bool // A = Q*T, else A = T*Q
	inTri         func(m, n, i, j int) bool
	forward       bool // uses Dlarft(Forward)
}

var kindQR = fkind{
	name: "Dgeqrf", unbName: "Dgeqr2", hasBlocked: true,
	unit: func(m, n int) int { return n },
	blocked: func(m, n int, a []float64, lda int, tau, work []float64, lwork int) {
		impl.Dgeqrf(m, n, a, lda, tau, work, lwork)
	},
	unblocked: func(m, n int, a []float64, lda int, tau, work []float64) { impl.Dgeqr2(m, n, a, lda, tau, work) },
	refl:      qrReflectors, asc: true, left: true, forward: true,
	inTri: func(m, n, i, j int) bool { return j >= i },
}

var kindLQ = fkind{
	name: "Dgelqf", unbName: "Dgelq2", hasBlocked: true,
	unit: func(m, n int) int { return m },
	blocked: func(m, n int, a []float64, lda int, tau, work []float64, lwork int) {
		impl.Dgelqf(m, n, a, lda, tau, work, lwork)
	},
	unblocked: func(m, n int, a []float64, lda int, tau, work []float64) { impl.Dgelq2(m, n, a, lda, tau, work) },
	refl:      lqReflectors, asc: false, left: false, forward: true,
	inTri: func(m, n, i, j int) bool { return j <= i },
}

var kindRQ = fkind{
	name: "Dgerqf", unbName: "Dgerq2", hasBlocked: true,
	unit: func(m, n int) int { return m },
	blocked: func(m, n int, a []float64, lda int, tau, work []float64, lwork int) {
		impl.Dgerqf(m, n, a, lda, tau, work, lwork)
	},
	unblocked: func(m, n int, a []float64, lda int, tau, work []float64) { impl.Dgerq2(m, n, a, lda, tau, work) },
	refl:      rqReflectors, asc: true, left: false,
	inTri: func(m, n, i, j int) bool { return j-i >= n-m },
}

var kindQL = fkind{
	name: "", unbName: "Dgeql2", hasBlocked: false,
	unit:      func(m, n int) int { return n },
	unblocked: func(m, n int, a []float64, lda int, tau, work []float64) { impl.Dgeql2(m, n, a, lda, tau, work) },
	refl:      qlReflectors, asc: false, left: true,
	inTri: func(m, n, i, j int) bool { return i-j >= m-n },
}

type facRun struct {
	out  M
	tau  []float64
	path string
}

// runFactor runs the blocked driver (lwork >= 0) or the unblocked routine (lwork < 0).
func runFactor(ck *checker, kd fkind, what string, a M, lda, lwork int) facRun {
	m, n := a.r, a.c
	k := imin(m, n)
	s := place(a, lda, nil)
	tau := poisonVec(k)
	resetL3()
	if lwork >= 0 {
		work := poisonVec(imax(1, lwork))
		kd.blocked(m, n, s.d, lda, tau, work, lwork)
	} else {
		work := poisonVec(kd.unit(m, n))
		kd.unblocked(m, n, s.d, lda, tau, work)
	}
	r := facRun{out: s.get(), tau: tau, path: pathL3()}
	s.checkOut(ck, what)
	if anyNaN(tau) {
		ck.failf("%s: NaN in tau", what)
	}
	return r
}

// factorOracle: Q built from the returned reflectors is orthogonal and reproduces A with the triangular factor.
func factorOracle(ck *checker, kd fkind, what string, a M, r facRun) {
	m, n := a.r, a.c
	if imin(m, n) == 0 {
		return
	}
	if hasNaN(r.out) || anyNaN(r.tau) {
		ck.failf("%s: NaN in factorization", what)
		return
	}
	rf := kd.refl(r.out, r.tau)
	q := qOf(rf, kd.asc)
	dim := float64(rf.dim)
	ck.ratio("qr |QtQ-I|/(n eps)", norm1(sub(mul(q.T(), q), eye(rf.dim)))/(dim*eps))
	tri := newM(m, n)
	for i := 0; i < m; i++ {
		for j := 0; j < n; j++ {
			if kd.inTri(m, n, i, j) {
				tri.a[i*n+j] = r.out.at(i, j)
			}
		}
	}
	var prod M
	if kd.left {
		prod = mul(q, tri)
	} else {
		prod = mul(tri, q)
	}
	res := norm1(sub(prod, a))
	an := norm1(a)
	if an == 0 {
		if res != 0 {
			ck.failf("%s: zero matrix but Q*R != 0", what)
		}
		return
	}
	ck.ratio("qr |QR-A|/(n eps |A|)", res/(dim*eps*an))
}

func compareFac(ck *checker, what string, a M, ref, got facRun) {
	sc := math.Max(1, normMax(a))
	if d := maxAbsDiff(ref.out, got.out); d > diffTol*sc {
		ck.failf("%s: factor arrays differ by %.3g (scale %.3g)", what, d, sc)
	}
	for i := range ref.tau {
		if math.Abs(ref.tau[i]-got.tau[i]) > diffTol {
			ck.failf("%s: tau[%d] differs: %v vs %v", what, i, ref.tau[i], got.tau[i])
			break
		}
	}
}

func genFactor(kd fkind) func(g *vlib.G) {
	return func(g *vlib.G) {
		N := vlib.Pick(g, 12, 14)
		nbs := vlib.Pick(g, []int{1, 2, 3, 4}, []int{1, 2, 3, 4, 5})
		nxs := []int{0, 4}
		if !kd.hasBlocked {
			nbs, nxs = []int{1}, []int{0}
		}
		fams := generalFams(N, g.Thorough())
		for m := 0; m <= N; m++ {
			for n := 0; n <= N; n++ {
				for _, f := range fams {
					if j, ok := posFam(f.name); ok && j >= n {
						continue
					}
					for _, nb := range nbs {
						for _, nx := range nxs {
							m, n, f, nb, nx := m, n, f, nb, nx
							nm := kd.name
							if !kd.hasBlocked {
								nm = kd.unbName
							}
							g.Case(fmt.Sprintf("%s m=%d n=%d fam=%s nb=%d nx=%d", nm, m, n, f.name, nb, nx), func(t *vlib.T) {
								defer seamOff()
								seamOn(nb, nx)
								ck := &checker{t: t}
								a := f.gen(m, n)
								k := imin(m, n)
								if k >= 2 {
									t.Nontrivial()
								}
								ldmin := imax(1, n)
								ref := runFactor(ck, kd, kd.unbName+" packed", a, ldmin, -1)
								factorOracle(ck, kd, kd.unbName+" packed", a, ref)
								if ref.path != "unblocked" {
									ck.failf("harness: %s used level-3 BLAS", kd.unbName)
								}
								r2 := runFactor(ck, kd, kd.unbName+" lda+3", a, ldmin+3, -1)
								if _, same := vlib.Same64(r2.out.a, ref.out.a); !same && f.wellQR() {
									compareFac(ck, kd.unbName+" lda vs packed", a, ref, r2)
								}
								factorOracle(ck, kd, kd.unbName+" lda+3", a, r2)
								if !kd.hasBlocked {
									t.Outcome("unblocked")
									return
								}
								risky := kd.forward && larftRisk(kd.refl(ref.out, ref.tau))
								unit := kd.unit(m, n)
								// workspace query: nothing but work[0] may be touched
								qs := place(a, ldmin, nil)
								qtau := poisonVec(k)
								qtau0 := append([]float64(nil), qtau...)
								ck.quietEmpty = !(f.name == "dd" && nb == nbs[0] && nx == 0)
								query := workQuery(ck, kd.name, unit, k == 0, func(work []float64) {
									kd.blocked(m, n, qs.d, ldmin, qtau, work, -1)
								})
								qs.checkRO(ck, kd.name+" query a")
								if _, same := vlib.Same64(qtau, qtau0); !same {
									ck.failf("%s query wrote tau", kd.name)
								}
								paths := map[string]int{}
								var opt facRun
								menu := append([]int{query}, lworkMenu(imax(1, unit), query, unit, true)...)
								for idx, lwork := range menu {
									for _, lda := range []int{ldmin, ldmin + 3} {
										if lda != ldmin && idx > 0 && lwork != imax(1, unit) && lwork != query+5 {
											continue // the lda variant runs for lwork in {min, query, query+5}
										}
										ck.ctx = fmt.Sprintf("lwork=%d lda=%d", lwork, lda)
										ck.class = ""
										rb := runFactor(ck, kd, kd.name, a, lda, lwork)
										if risky && rb.path == "blocked" {
											ck.class = larftClass
										}
										factorOracle(ck, kd, kd.name, a, rb)
										paths[rb.path]++
										if idx == 0 && lda == ldmin {
											opt = rb
										}
										if f.wellQR() {
											compareFac(ck, kd.name+" vs "+kd.unbName, a, ref, rb)
											compareFac(ck, kd.name+" vs optimum lwork", a, opt, rb)
										}
									}
								}
								ck.ctx, ck.class = "", ""
								oc := ""
								for _, p := range []string{"blocked", "unblocked"} {
									if paths[p] > 0 {
										oc += "+" + p
									}
								}
								t.Outcome(oc[1:])
								t.Count("factorizations_blocked_path", int64(paths["blocked"]))
								t.Count("factorizations_unblocked_path", int64(paths["unblocked"]))
							})
						}
					}
				}
			}
			if g.Stopped() {
				return
			}
		}
	}
}

// ---------------------------------------------------------------------------
// Dorg*: generation of Q

// okind describes one generator routine.
type okind struct {
	name, unbName string
	hasBlocked    bool
	cols          bool // reflectors are columns, Q has orthonormal columns (m >= n >= k); else rows (k <= m <= n)
	unit          func(m, n int) int
	blocked       func(m, n, k int, a []float64, lda int, tau, work []float64, lwork int)
	unblocked     func(m, n, k int, a []float64, lda int, tau, work []float64)
	source        fkind // factorization producing the reflectors
	forward       bool
}

var orgQR = okind{
	name: "Dorgqr", unbName: "Dorg2r", hasBlocked: true, cols: true, forward: true,
	unit: func(m, n int) int { return n },
	blocked: func(m, n, k int, a []float64, lda int, tau, work []float64, lwork int) {
		impl.Dorgqr(m, n, k, a, lda, tau, work, lwork)
	},
	unblocked: func(m, n, k int, a []float64, lda int, tau, work []float64) { impl.Dorg2r(m, n, k, a, lda, tau, work) },
	source:    kindQR,
}

var orgLQ = okind{
	name: "Dorglq", unbName: "Dorgl2", hasBlocked: true, cols: false, forward: true,
	unit: func(m, n int) int { return m },
	blocked: func(m, n, k int, a []float64, lda int, tau, work []float64, lwork int) {
		impl.Dorglq(m, n, k, a, lda, tau, work, lwork)
	},
	unblocked: func(m, n, k int, a []float64, lda int, tau, work []float64) { impl.Dorgl2(m, n, k, a, lda, tau, work) },
	source:    kindLQ,
}

var orgQL = okind{
	name: "Dorgql", unbName: "Dorg2l", hasBlocked: true, cols: true,
	unit: func(m, n int) int { return n },
	blocked: func(m, n, k int, a []float64, lda int, tau, work []float64, lwork int) {
		impl.Dorgql(m, n, k, a, lda, tau, work, lwork)
	},
	unblocked: func(m, n, k int, a []float64, lda int, tau, work []float64) { impl.Dorg2l(m, n, k, a, lda, tau, work) },
	source:    kindQL,
}

var orgRQ = okind{
	name: "", unbName: "Dorgr2", hasBlocked: false, cols: false,
	unit:      func(m, n int) int { return m },
	unblocked: func(m, n, k int, a []float64, lda int, tau, work []float64) { impl.Dorgr2(m, n, k, a, lda, tau, work) },
	source:    kindRQ,
}

// orgInput builds the m x n input array of a generator from k dense reflectors
// of order dim, with poison in every position the routine must overwrite
// without reading, and returns the expected m x n result.
func orgInput(ok okind, rf refl, m, n, k int) (in M, keep func(i, j int) bool, want M) {
	in = newM(m, n)
	stored := make([]bool, m*n)
	switch ok.source.name {
	case "Dgeqrf": // reflector i in column i, rows i+1..m-1
		for i := 0; i < k; i++ {
			for l := i + 1; l < m; l++ {
				in.a[l*n+i] = rf.v[i][l]
				stored[l*n+i] = true
			}
		}
		want = qOf(rf.take(k), true).slice(0, m, 0, n)
	case "Dgelqf": // reflector i in row i, columns i+1..n-1
		for i := 0; i < k; i++ {
			for l := i + 1; l < n; l++ {
				in.a[i*n+l] = rf.v[i][l]
				stored[i*n+l] = true
			}
		}
		want = qOf(rf.take(k), false).slice(0, m, 0, n)
	case "": // QL: reflector i in column n-k+i, rows 0..m-k+i-1
		for i := 0; i < k; i++ {
			for l := 0; l < m-k+i; l++ {
				in.a[l*n+n-k+i] = rf.v[i][l]
				stored[l*n+n-k+i] = true
			}
		}
		want = qOf(rf.take(k), false).slice(0, m, m-n, m)
	case "Dgerqf": // reflector i in row m-k+i, columns 0..n-k+i-1
		for i := 0; i < k; i++ {
			for l := 0; l < n-k+i; l++ {
				in.a[(m-k+i)*n+l] = rf.v[i][l]
				stored[(m-k+i)*n+l] = true
			}
		}
		want = qOf(rf.take(k), true).slice(n-m, n, 0, n)
	}
	keep = func(i, j int) bool { return stored[i*n+j] }
	return in, keep, want
}

// orgShapes enumerates (m,n,k) admissible for the generator.
func orgShapes(ok okind, N int, f func(m, n, k int)) {
	for m := 0; m <= N; m++ {
		for n := 0; n <= N; n++ {
			if ok.cols && n > m || !ok.cols && m > n {
				continue
			}
			kmax := imin(m, n)
			for k := 0; k <= kmax; k++ {
				f(m, n, k)
			}
		}
	}
}

func genOrg(ok okind) func(g *vlib.G) {
	return func(g *vlib.G) {
		N := vlib.Pick(g, 12, 14)
		nbs := vlib.Pick(g, []int{1, 2, 3, 4}, []int{1, 2, 3, 4, 5})
		nxs := []int{0, 4}
		if !ok.hasBlocked {
			nbs, nxs = []int{1}, []int{0}
		}
		fams := pickFams(generalFams(N, false), "dd", "sparse", "signmix")
		nm := ok.name
		if !ok.hasBlocked {
			nm = ok.unbName
		}
		orgShapes(ok, N, func(m, n, k int) {
			for _, f := range fams {
				for _, nb := range nbs {
					for _, nx := range nxs {
						m, n, k, f, nb, nx := m, n, k, f, nb, nx
						g.Case(fmt.Sprintf("%s m=%d n=%d k=%d fam=%s nb=%d nx=%d", nm, m, n, k, f.name, nb, nx), func(t *vlib.T) {
							defer seamOff()
							seamOn(nb, nx)
							ck := &checker{t: t}
							if k >= 2 {
								t.Nontrivial()
							}
							// k reflectors of the right order from the unblocked factorization of a dim x k (k x dim) matrix.
							var src M
							if ok.cols {
								src = f.gen(m, k)
							} else {
								src = f.gen(k, n)
							}
							fr := runFactor(ck, ok.source, ok.source.unbName, src, imax(1, src.c), -1)
							rf := ok.source.refl(fr.out, fr.tau)
							if len(rf.v) != k {
								ck.failf("harness: expected %d reflectors, got %d", k, len(rf.v))
								return
							}
							in, keep, want := orgInput(ok, rf, m, n, k)
							risky := ok.forward && larftRisk(rf)
							ldmin := imax(1, n)
							unit := ok.unit(m, n)
							dim := float64(imax(1, rf.dim))
							run := func(what string, lda, lwork int) (M, string) {
								s := place(in, lda, keep)
								// the routine overwrites everything: afterwards the whole m x n block is result.
								tau := append([]float64(nil), rf.tau...)
								resetL3()
								if lwork >= 0 {
									work := poisonVec(imax(1, lwork))
									ok.blocked(m, n, k, s.d, lda, tau, work, lwork)
								} else {
									work := poisonVec(unit)
									ok.unblocked(m, n, k, s.d, lda, tau, work)
								}
								path := pathL3()
								if _, same := vlib.Same64(tau, rf.tau); !same {
									ck.failf("%s modified tau", what)
								}
								for i := 0; i < m; i++ {
									for j := 0; j < n; j++ {
										s.ref[i*lda+j] = true
									}
								}
								s.checkOut(ck, what)
								q := s.get()
								if m > 0 && n > 0 && !hasNaN(q) {
									ck.ratio("org |Q-Qref|/(n eps)", norm1(sub(q, want))/(dim*eps))
									var g M
									if ok.cols {
										g = mul(q.T(), q)
									} else {
										g = mul(q, q.T())
									}
									ck.ratio("org |QtQ-I|/(n eps)", norm1(sub(g, eye(g.r)))/(dim*eps))
								}
								return q, path
							}
							ref, _ := run(ok.unbName, ldmin, -1)
							run(ok.unbName+" lda+3", ldmin+3, -1)
							if !ok.hasBlocked {
								t.Outcome("unblocked")
								return
							}
							qs := place(in, ldmin, keep)
							qtau := append([]float64(nil), rf.tau...)
							query := workQuery(ck, ok.name, unit, m == 0 || n == 0, func(work []float64) {
								ok.blocked(m, n, k, qs.d, ldmin, qtau, work, -1)
							})
							qs.checkRO(ck, ok.name+" query a")
							if _, same := vlib.Same64(qtau, rf.tau); !same {
								ck.failf("%s query wrote tau", ok.name)
							}
							paths := map[string]int{}
							for _, lwork := range lworkMenu(imax(1, unit), query, unit, true) {
								for _, lda := range []int{ldmin, ldmin + 3} {
									if lda != ldmin && lwork != imax(1, unit) && lwork != query && lwork != query+5 {
										continue
									}
									ck.ctx = fmt.Sprintf("lwork=%d lda=%d", lwork, lda)
									ck.class = ""
									if risky {
										ck.class = larftClass
									}
									q, path := run(ok.name, lda, lwork)
									paths[path]++
									if d := maxAbsDiff(q, ref); m > 0 && n > 0 && d > diffTol {
										ck.failf("%s vs %s: Q differs by %.3g", ok.name, ok.unbName, d)
									}
								}
							}
							ck.ctx, ck.class = "", ""
							oc := ""
							for _, p := range []string{"blocked", "unblocked"} {
								if paths[p] > 0 {
									oc += "+" + p
								}
							}
							t.Outcome(oc[1:])
						})
					}
				}
			}
		})
	}
}

// ---------------------------------------------------------------------------
// Dorm*: multiplication by Q

type mkind struct {
	name, unbName string
	hasBlocked    bool
	source        fkind
	rows          bool // reflectors stored as rows (A is k x nq), else columns (A is nq x k)
	blocked       func(side blas.Side, trans blas.Transpose, m, n, k int, a []float64, lda int, tau, c []float64, ldc int, work []float64, lwork int)
	unblocked     func(side blas.Side, trans blas.Transpose, m, n, k int, a []float64, lda int, tau, c []float64, ldc int, work []float64)
	forward       bool
}

var ormQR = mkind{
	name: "Dormqr", unbName: "Dorm2r", hasBlocked: true, source: kindQR, forward: true,
	blocked: func(side blas.Side, trans blas.Transpose, m, n, k int, a []float64, lda int, tau, c []float64, ldc int, work []float64, lwork int) {
		impl.Dormqr(side, trans, m, n, k, a, lda, tau, c, ldc, work, lwork)
	},
	unblocked: func(side blas.Side, trans blas.Transpose, m, n, k int, a []float64, lda int, tau, c []float64, ldc int, work []float64) {
		impl.Dorm2r(side, trans, m, n, k, a, lda, tau, c, ldc, work)
	},
}

var ormLQ = mkind{
	name: "Dormlq", unbName: "Dorml2", hasBlocked: true, source: kindLQ, rows: true, forward: true,
	blocked: func(side blas.Side, trans blas.Transpose, m, n, k int, a []float64, lda int, tau, c []float64, ldc int, work []float64, lwork int) {
		impl.Dormlq(side, trans, m, n, k, a, lda, tau, c, ldc, work, lwork)
	},
	unblocked: func(side blas.Side, trans blas.Transpose, m, n, k int, a []float64, lda int, tau, c []float64, ldc int, work []float64) {
		impl.Dorml2(side, trans, m, n, k, a, lda, tau, c, ldc, work)
	},
}

var ormRQ = mkind{
	name: "", unbName: "Dormr2", hasBlocked: false, source: kindRQ, rows: true,
	unblocked: func(side blas.Side, trans blas.Transpose, m, n, k int, a []float64, lda int, tau, c []float64, ldc int, work []float64) {
		impl.Dormr2(side, trans, m, n, k, a, lda, tau, c, ldc, work)
	},
}

const ormTsize = 64 * 64 // the T workspace of Dormqr/Dormlq (nbmax*ldt)

func genOrm(mk mkind) func(g *vlib.G) {
	return func(g *vlib.G) {
		N := vlib.Pick(g, 12, 13)
		nbs := vlib.Pick(g, []int{1, 2, 3, 4}, []int{1, 2, 3, 4, 5})
		if !mk.hasBlocked {
			nbs = []int{1}
		}
		fams := pickFams(generalFams(N, false), "dd", "sparse", "signmix")
		nm := mk.name
		if !mk.hasBlocked {
			nm = mk.unbName
		}
		for _, side := range sides {
			for _, trans := range transes {
				for m := 0; m <= N; m++ {
					for n := 0; n <= N; n++ {
						nq, nw := m, n
						if side == blas.Right {
							nq, nw = n, m
						}
						for k := 0; k <= nq; k++ {
							for _, f := range fams {
								if f.name == "sparse" && k < 3 {
									continue
								}
								for _, nb := range nbs {
									side, trans, m, n, k, f, nb, nq, nw := side, trans, m, n, k, f, nb, nq, nw
									g.Case(fmt.Sprintf("%s side=%s trans=%s m=%d n=%d k=%d fam=%s nb=%d", nm, sideName(side), transName(trans), m, n, k, f.name, nb), func(t *vlib.T) {
										defer seamOff()
										seamOn(nb, 0)
										ck := &checker{t: t}
										if k >= 2 && m > 0 && n > 0 {
											t.Nontrivial()
										}
										var src M
										if mk.rows {
											src = f.gen(k, nq)
										} else {
											src = f.gen(nq, k)
										}
										fr := runFactor(ck, mk.source, mk.source.unbName, src, imax(1, src.c), -1)
										rf := mk.source.refl(fr.out, fr.tau)
										if len(rf.v) != k {
											ck.failf("harness: expected %d reflectors, got %d", k, len(rf.v))
											return
										}
										q := qOf(rf, mk.source.asc)
										if k == 0 {
											q = eye(nq)
										}
										qop := q
										if trans == blas.Trans {
											qop = q.T()
										}
										c := genDD(7)(m, n)
										var want M
										if side == blas.Left {
											want = mul(qop, c)
										} else {
											want = mul(c, qop)
										}
										risky := mk.forward && larftRisk(rf)
										// the factored array is the operand: its triangular part is not referenced by Dorm*.
										keepV := func(i, j int) bool {
											switch mk.source.name {
											case "Dgeqrf":
												return i > j
											case "Dgelqf":
												return j > i
											default: // RQ: row i holds v_i in columns 0..nq-k+i-1
												return j < nq-k+i
											}
										}
										ldaMin := imax(1, src.c)
										run := func(what string, lda, ldc, lwork int) (M, string) {
											as := place(fr.out, lda, keepV)
											cs := place(c, ldc, nil)
											tau := append([]float64(nil), fr.tau...)
											resetL3()
											if lwork >= 0 {
												work := poisonVec(imax(1, lwork))
												mk.blocked(side, trans, m, n, k, as.d, lda, tau, cs.d, ldc, work, lwork)
											} else {
												work := poisonVec(nw)
												mk.unblocked(side, trans, m, n, k, as.d, lda, tau, cs.d, ldc, work)
											}
											path := pathL3()
											as.checkRO(ck, what+" a")
											if _, same := vlib.Same64(tau, fr.tau); !same {
												ck.failf("%s modified tau", what)
											}
											cs.checkOut(ck, what+" c")
											got := cs.get()
											if m > 0 && n > 0 && !hasNaN(got) {
												ck.ratio("orm |C-QC|/(n eps |C|)", norm1(sub(got, want))/(float64(imax(1, nq))*eps*math.Max(norm1(c), 1)))
											}
											return got, path
										}
										ref, _ := run(mk.unbName, ldaMin, imax(1, n), -1)
										for _, pd := range ldPads[1:] {
											ck.ctx = fmt.Sprintf("lda+%d ldc+%d", pd[0], pd[1])
											run(mk.unbName, ldaMin+pd[0], imax(1, n)+pd[1], -1)
										}
										ck.ctx = ""
										if !mk.hasBlocked {
											t.Outcome("unblocked")
											return
										}
										as := place(fr.out, ldaMin, keepV)
										cs := place(c, imax(1, n), nil)
										qtau := append([]float64(nil), fr.tau...)
										ck.quietEmpty = !(f.name == "dd" && nb == nbs[0])
										query := workQuery(ck, mk.name, nw, m == 0 || n == 0 || k == 0, func(work []float64) {
											mk.blocked(side, trans, m, n, k, as.d, ldaMin, qtau, cs.d, imax(1, n), work, -1)
										})
										as.checkRO(ck, mk.name+" query a")
										cs.checkRO(ck, mk.name+" query c")
										if _, same := vlib.Same64(qtau, fr.tau); !same {
											ck.failf("%s query wrote tau", mk.name)
										}
										// lwork menu: the minimum, around the T-workspace size, every point where
										// (lwork-tsize)/nw changes, the optimum and beyond.
										menu := []int{imax(1, nw), ormTsize - 1, ormTsize, query, query + 5}
										for j := 1; j <= nb+1; j++ {
											menu = append(menu, ormTsize+j*nw-1, ormTsize+j*nw)
										}
										paths := map[string]int{}
										for _, lwork := range uniq(imax(1, nw), menu...) {
											for _, pd := range ldPads {
												if pd != ldPads[0] && lwork != imax(1, nw) && lwork != query {
													continue
												}
												ck.ctx = fmt.Sprintf("lwork=%d lda+%d ldc+%d", lwork, pd[0], pd[1])
												ck.class = ""
												if risky {
													ck.class = larftClass
												}
												got, path := run(mk.name, ldaMin+pd[0], imax(1, n)+pd[1], lwork)
												paths[path]++
												if d := maxAbsDiff(got, ref); m > 0 && n > 0 && d > diffTol*math.Max(1, normMax(c)) {
													ck.failf("%s vs %s: result differs by %.3g", mk.name, mk.unbName, d)
												}
											}
										}
										ck.ctx, ck.class = "", ""
										oc := ""
										for _, p := range []string{"blocked", "unblocked"} {
											if paths[p] > 0 {
												oc += "+" + p
											}
										}
										t.Outcome(oc[1:])
									})
								}
							}
						}
					}
				}
				if g.Stopped() {
					return
				}
			}
		}
	}
}
