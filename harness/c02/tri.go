package main

import (
	"fmt"
	"math"

	"gonum.org/v1/gonum/blas"
	"gonum.org/v1/gonum/internal/verif/vlib"
	"gonum.org/v1/gonum/lapack"
)

// triDense returns the triangular matrix that (uplo, diag) selects from a: the
// other triangle zero, the diagonal one for diag == Unit.
func triDense(a M, uplo blas.Uplo, diag blas.Diag) M {
	n := a.r
	t := newM(n, a.c)
	for i := 0; i < n; i++ {
		for j := 0; j < a.c; j++ {
			switch {
			case i == j:
				if diag == blas.Unit {
					t.a[i*a.c+j] = 1
				} else {
					t.a[i*a.c+j] = a.at(i, j)
				}
			case uplo == blas.Upper && j > i, uplo == blas.Lower && j < i:
				t.a[i*a.c+j] = a.at(i, j)
			}
		}
	}
	return t
}

type tfam struct {
	name string
	gen  func(n int) M
	// zeroDiag >= 0: that diagonal entry is exactly zero (singular for NonUnit)
	zeroDiag int
	well     bool
}

func triFams(maxn int) []tfam {
	fs := []tfam{
		{"dd", func(n int) M { return genDD(11)(n, n) }, -1, true},
		{"graded", func(n int) M { return genGraded(n, n) }, -1, false},
		{"id", func(n int) M { return eye(n) }, -1, true},
		{"ones", func(n int) M {
			a := newM(n, n)
			for i := range a.a {
				a.a[i] = 1
			}
			for i := 0; i < n; i++ {
				a.a[i*n+i] = 2
			}
			return a
		}, -1, true},
	}
	for k := 0; k < maxn; k++ {
		k := k
		fs = append(fs, tfam{fmt.Sprintf("zerodiag%d", k), func(n int) M {
			a := genDD(11)(n, n)
			if k < n {
				a.a[k*n+k] = 0
			}
			return a
		}, k, false})
	}
	return fs
}

type trRun struct {
	out  M // referenced part, zero elsewhere
	ok   bool
	path string
}

func runTrtri(ck *checker, what string, uplo blas.Uplo, diag blas.Diag, a M, lda int, blocked bool) trRun {
	n := a.r
	s := place(a, lda, keepTri(uplo, diag))
	resetL3()
	ok := true
	if blocked {
		ok = impl.Dtrtri(uplo, diag, n, s.d, lda)
	} else {
		impl.Dtrti2(uplo, diag, n, s.d, lda)
	}
	r := trRun{ok: ok, path: pathL3()}
	if i, intact := s.poisonIntact(); !intact {
		ck.failf("%s: unreferenced storage written at offset %d (row %d col %d)", what, i, i/lda, i%lda)
	}
	if !ok {
		s.checkRO(ck, what+" (singular: no inversion may be performed)")
	}
	r.out = triDense(s.getRef(), uplo, diag)
	return r
}

func genTri(g *vlib.G) {
	N := vlib.Pick(g, 12, 14)
	nbs := vlib.Pick(g, []int{1, 2, 3, 4}, []int{1, 2, 3, 4, 5})
	fams := triFams(N)
	for n := 0; n <= N; n++ {
		for _, f := range fams {
			if f.zeroDiag >= n {
				continue
			}
			for _, uplo := range uplos {
				for _, diag := range diags {
					for _, nb := range nbs {
						n, f, uplo, diag, nb := n, f, uplo, diag, nb
						g.Case(fmt.Sprintf("Dtrtri uplo=%s diag=%s n=%d fam=%s nb=%d", uploName(uplo), diagName(diag), n, f.name, nb), func(t *vlib.T) {
							defer seamOff()
							seamOn(nb, 0)
							ck := &checker{t: t}
							if n >= 2 {
								t.Nontrivial()
							}
							a := f.gen(n)
							tm := triDense(a, uplo, diag)
							singular := f.zeroDiag >= 0 && diag == blas.NonUnit
							path := ""
							var ref trRun
							if !singular {
								ref = runTrtri(ck, "Dtrti2", uplo, diag, a, imax(1, n), false)
								if ref.path != "unblocked" {
									ck.failf("harness: Dtrti2 used level-3 BLAS")
								}
							}
							for _, lda := range []int{imax(1, n), imax(1, n) + 3} {
								ck.ctx = fmt.Sprintf("lda=%d", lda)
								rb := runTrtri(ck, "Dtrtri", uplo, diag, a, lda, true)
								path = rb.path
								if rb.ok == singular {
									ck.failf("Dtrtri ok=%v, exactly singular=%v", rb.ok, singular)
								}
								if !rb.ok || n == 0 {
									continue
								}
								if hasNaN(rb.out) {
									ck.failf("Dtrtri: NaN in inverse")
									continue
								}
								res := norm1(sub(mul(tm, rb.out), eye(n)))
								ck.ratio("trtri |T*inv-I|/(n eps |T||inv|)", res/(float64(n)*eps*norm1(tm)*norm1(rb.out)))
								if !singular {
									res2 := norm1(sub(mul(tm, ref.out), eye(n)))
									ck.ratio("trtri |T*inv-I|/(n eps |T||inv|)", res2/(float64(n)*eps*norm1(tm)*norm1(ref.out)))
									if f.well {
										if d := maxAbsDiff(rb.out, ref.out); d > diffTol*math.Max(1, normMax(ref.out)) {
											ck.failf("Dtrtri vs Dtrti2: inverses differ by %.3g", d)
										}
									}
								}
							}
							ck.ctx = ""
							// Dtrtrs
							for _, trans := range []blas.Transpose{blas.NoTrans, blas.Trans, blas.ConjTrans} {
								for _, nrhs := range []int{0, 1, 3} {
									pd := ldPads[(nrhs+int(trans))%len(ldPads)]
									lda, ldb := imax(1, n)+pd[0], imax(1, nrhs)+pd[1]
									ck.ctx = fmt.Sprintf("Dtrtrs trans=%s nrhs=%d lda=%d ldb=%d", transName(trans), nrhs, lda, ldb)
									x := xTrue(n, nrhs)
									op := opOf(tm, trans)
									b := mul(op, x)
									as := place(a, lda, keepTri(uplo, diag))
									bs := place(b, ldb, nil)
									ok := impl.Dtrtrs(uplo, trans, diag, n, nrhs, as.d, lda, bs.d, ldb)
									as.checkRO(ck, "Dtrtrs a")
									if ok == (singular && n > 0) {
										ck.failf("Dtrtrs ok=%v, exactly singular=%v", ok, singular)
									}
									if !ok {
										bs.checkRO(ck, "Dtrtrs b (singular: no solve may be performed)")
										continue
									}
									bs.checkOut(ck, "Dtrtrs b")
									solveResid(ck, "Dtrtrs", op, bs.get(), b, n)
								}
							}
							ck.ctx = ""
							// Dtrcon
							for _, nrm := range []lapack.MatrixNorm{lapack.MaxColumnSum, lapack.MaxRowSum} {
								if n == 0 {
									if rc := impl.Dtrcon(nrm, uplo, diag, 0, nil, 1, nil, nil); rc != 1 {
										ck.failf("Dtrcon n=0 returned %v, want 1", rc)
									}
									continue
								}
								as := place(a, imax(1, n), keepTri(uplo, diag))
								work := poisonVec(3 * n)
								iwork := make([]int, n)
								rc := impl.Dtrcon(nrm, uplo, diag, n, as.d, imax(1, n), work, iwork)
								as.checkRO(ck, "Dtrcon a")
								name := "Dtrcon-1"
								if nrm == lapack.MaxRowSum {
									name = "Dtrcon-inf"
								}
								if singular {
									if rc != 0 {
										ck.failf("%s = %v for an exactly singular triangular matrix, want 0", name, rc)
									}
									continue
								}
								inv, iok := inverse(tm)
								if !iok {
									continue
								}
								if nrm == lapack.MaxRowSum {
									condCheck(ck, name, rc, normInf(tm), normInf(inv))
								} else {
									condCheck(ck, name, rc, norm1(tm), norm1(inv))
								}
							}
							oc := "ok"
							if singular {
								oc = "singular"
							}
							t.Outcome(path + "/" + oc)
						})
					}
				}
			}
		}
	}
}

// ---------------------------------------------------------------------------
// Dlauum / Dlauu2: exact on integers

func genLauum(g *vlib.G) {
	N := vlib.Pick(g, 12, 14)
	nbs := vlib.Pick(g, []int{1, 2, 3, 4}, []int{1, 2, 3, 4, 5})
	for n := 0; n <= N; n++ {
		for _, uplo := range uplos {
			for _, nb := range nbs {
				for _, salt := range []int{0, 1} {
					n, uplo, nb, salt := n, uplo, nb, salt
					g.Case(fmt.Sprintf("Dlauum uplo=%s n=%d nb=%d fill=%d", uploName(uplo), n, nb, salt), func(t *vlib.T) {
						defer seamOff()
						seamOn(nb, 0)
						ck := &checker{t: t}
						if n >= 2 {
							t.Nontrivial()
						}
						a := newM(n, n)
						for i := 0; i < n; i++ {
							for j := 0; j < n; j++ {
								a.a[i*n+j] = float64(h3(i, j, 90+salt))
							}
						}
						tm := triDense(a, uplo, blas.NonUnit)
						var want M
						if uplo == blas.Upper {
							want = mul(tm, tm.T())
						} else {
							want = mul(tm.T(), tm)
						}
						want = triOf(want, uplo)
						path := ""
						for _, blocked := range []bool{false, true} {
							for _, lda := range []int{imax(1, n), imax(1, n) + 3} {
								ck.ctx = fmt.Sprintf("blocked=%v lda=%d", blocked, lda)
								s := place(a, lda, keepUplo(uplo))
								resetL3()
								if blocked {
									impl.Dlauum(uplo, n, s.d, lda)
									path = pathL3()
								} else {
									impl.Dlauu2(uplo, n, s.d, lda)
								}
								s.checkOut(ck, "Dlauum a")
								if i, same := exactEq(s.getRef(), want); !same {
									ck.failf("product[%d,%d]=%v, want %v (exact integer data)", i/n, i%n, s.getRef().a[i], want.a[i])
								}
							}
						}
						ck.ctx = ""
						t.Outcome(path)
					})
				}
			}
		}
	}
}

// ---------------------------------------------------------------------------
// Dtbtrs, Dlatrs, Dlatbs

func bandOfTri(tm M, kd int) M { return bandRestrict(tm, kd) }

func genTriBand(g *vlib.G) {
	N := vlib.Pick(g, 12, 14)
	fams := triFams(N)
	for n := 0; n <= N; n++ {
		for _, kd := range kdMenu(n, g.Thorough()) {
			for _, f := range fams {
				if f.zeroDiag >= n {
					continue
				}
				for _, uplo := range uplos {
					for _, diag := range diags {
						n, kd, f, uplo, diag := n, kd, f, uplo, diag
						g.Case(fmt.Sprintf("Dtbtrs uplo=%s diag=%s n=%d kd=%d fam=%s", uploName(uplo), diagName(diag), n, kd, f.name), func(t *vlib.T) {
							ck := &checker{t: t}
							if n >= 2 && kd >= 1 {
								t.Nontrivial()
							}
							a := f.gen(n)
							tm := bandOfTri(triDense(a, uplo, diag), kd)
							singular := f.zeroDiag >= 0 && diag == blas.NonUnit
							for _, trans := range []blas.Transpose{blas.NoTrans, blas.Trans, blas.ConjTrans} {
								for _, nrhs := range []int{0, 1, 3} {
									for _, pd := range ldPads {
										pad, padB := pd[0], pd[1]
										ck.ctx = fmt.Sprintf("trans=%s nrhs=%d ldab+%d ldb+%d", transName(trans), nrhs, pad, padB)
										x := xTrue(n, nrhs)
										op := opOf(tm, trans)
										b := mul(op, x)
										as := placeBand(tm, uplo, kd, kd+1+pad, diag == blas.Unit)
										bs := place(b, imax(1, nrhs)+padB, nil)
										ok := impl.Dtbtrs(uplo, trans, diag, n, kd, nrhs, as.d, kd+1+pad, bs.d, imax(1, nrhs)+padB)
										as.checkRO(ck, "Dtbtrs a")
										if ok == (singular && n > 0) {
											ck.failf("Dtbtrs ok=%v, exactly singular=%v", ok, singular)
										}
										if !ok {
											bs.checkRO(ck, "Dtbtrs b (singular: no solution is computed)")
											continue
										}
										bs.checkOut(ck, "Dtbtrs b")
										solveResid(ck, "Dtbtrs", op, bs.get(), b, n)
									}
								}
							}
							ck.ctx = ""
							t.Outcome(map[bool]string{true: "singular", false: "ok"}[singular])
						})
					}
				}
			}
		}
	}
}

// latrsCheck verifies op(A) x = scale*b for the scaled triangular solvers.
func latrsCheck(ck *checker, name string, op M, b, x []float64, scale float64, singular, extreme bool) {
	n := len(b)
	if math.IsNaN(scale) || scale < 0 || scale > 1 {
		ck.failf("%s: scale = %v outside [0,1]", name, scale)
		return
	}
	if anyNaN(x) {
		ck.failf("%s: NaN in solution", name)
		return
	}
	var xmax, bmax, amax float64
	for i := 0; i < n; i++ {
		xmax = math.Max(xmax, math.Abs(x[i]))
		bmax = math.Max(bmax, math.Abs(b[i]))
	}
	amax = normInf(op)
	if math.IsInf(xmax, 0) {
		ck.failf("%s: solution overflowed although scaling is the purpose of the routine", name)
		return
	}
	if singular {
		if scale != 0 {
			ck.failf("%s: scale = %v for an exactly singular matrix, want 0", name, scale)
		}
		if xmax == 0 {
			ck.failf("%s: trivial solution for a singular matrix", name)
		}
	} else if scale == 0 && !extreme {
		ck.failf("%s: scale = 0 for a non-singular matrix of moderate size", name)
	}
	// work with x/xmax to keep the reference product finite
	if xmax == 0 {
		if scale*bmax != 0 {
			ck.failf("%s: x = 0 but scale*b != 0", name)
		}
		return
	}
	var res float64
	for i := 0; i < n; i++ {
		var s float64
		for j := 0; j < n; j++ {
			s += op.a[i*n+j] * (x[j] / xmax)
		}
		res = math.Max(res, math.Abs(s-scale*b[i]/xmax))
	}
	den := float64(n) * eps * (amax + scale*bmax/xmax)
	if den == 0 {
		if res != 0 {
			ck.failf("%s: non-zero residual with zero scale", name)
		}
		return
	}
	ck.ratio(name+" |Ax-s*b|/(n eps (|A||x|+s|b|))", res/den)
}

func genLatrs(g *vlib.G) {
	N := vlib.Pick(g, 12, 14)
	type scen struct {
		name     string
		dexp     int // diagonal scaled by 2^dexp
		bexp     int // right-hand side scaled by 2^bexp
		oexp     int // off-diagonal scaled by 2^oexp
		singular bool
	}
	scens := []scen{{"plain", 0, 0, 0, false}, {"tinydiag", -300, 700, 0, false}, {"hugeoff", 0, 0, 990, false}, {"singular", 0, 0, 0, true}, {"tinyall", -1000, -1000, -1000, false}}
	for n := 1; n <= N; n++ {
		for _, sc := range scens {
			for _, uplo := range uplos {
				for _, trans := range []blas.Transpose{blas.NoTrans, blas.Trans, blas.ConjTrans} {
					for _, diag := range diags {
						if sc.singular && diag == blas.Unit {
							continue
						}
						for _, band := range []bool{false, true} {
							n, sc, uplo, trans, diag, band := n, sc, uplo, trans, diag, band
							name := "Dlatrs"
							if band {
								name = "Dlatbs"
							}
							g.Case(fmt.Sprintf("%s uplo=%s trans=%s diag=%s n=%d scen=%s", name, uploName(uplo), transName(trans), diagName(diag), n, sc.name), func(t *vlib.T) {
								ck := &checker{t: t}
								if n >= 2 {
									t.Nontrivial()
								}
								a := genDD(12)(n, n)
								for i := 0; i < n; i++ {
									for j := 0; j < n; j++ {
										if i == j {
											a.a[i*n+j] = math.Ldexp(a.a[i*n+j], sc.dexp)
										} else {
											a.a[i*n+j] = math.Ldexp(a.a[i*n+j], sc.oexp)
										}
									}
								}
								if sc.singular {
									k := n / 2
									a.a[k*n+k] = 0
								}
								tm := triDense(a, uplo, diag)
								kds := []int{0}
								if band {
									kds = uniq(0, 0, 1, 2, n-1)
								}
								b := make([]float64, n)
								for i := range b {
									v := h3(i, 1, 95)
									if v == 0 {
										v = 1
									}
									b[i] = math.Ldexp(float64(v), sc.bexp)
								}
								outcomes := map[string]bool{}
								for _, kd := range kds {
									tmb := tm
									if band {
										tmb = bandOfTri(tm, kd)
									}
									op := opOf(tmb, trans)
									// exact column norms of the off-diagonal part
									cn := make([]float64, n)
									for j := 0; j < n; j++ {
										for i := 0; i < n; i++ {
											if i != j {
												cn[j] += math.Abs(tmb.at(i, j))
											}
										}
									}
									for _, normin := range []bool{false, true} {
										for _, pad := range []int{0, 3} {
											ck.ctx = fmt.Sprintf("kd=%d normin=%v pad=%d", kd, normin, pad)
											x := append([]float64(nil), b...)
											cnorm := poisonVec(n)
											if normin {
												copy(cnorm, cn)
											}
											var scale float64
											if band {
												as := placeBand(tmb, uplo, kd, kd+1+pad, diag == blas.Unit)
												scale = impl.Dlatbs(uplo, trans, diag, normin, n, kd, as.d, kd+1+pad, x, cnorm)
												as.checkRO(ck, name+" ab")
											} else {
												as := place(a, n+pad, keepTri(uplo, diag))
												scale = impl.Dlatrs(uplo, trans, diag, normin, n, as.d, n+pad, x, cnorm)
												as.checkRO(ck, name+" a")
											}
											if !normin && sc.oexp < 900 {
												for j := 0; j < n; j++ {
													if cnorm[j] != cn[j] {
														ck.failf("%s: cnorm[%d]=%v, want the 1-norm of the off-diagonal part of column %d = %v", name, j, cnorm[j], j, cn[j])
														break
													}
												}
											}
											latrsCheck(ck, name, op, b, x, scale, sc.singular, sc.name == "hugeoff" || sc.name == "tinydiag")
											switch {
											case scale == 1:
												outcomes["scale=1"] = true
											case scale == 0:
												outcomes["scale=0"] = true
											default:
												outcomes["scaled"] = true
											}
										}
									}
								}
								ck.ctx = ""
								oc := ""
								for _, k := range vlib.SortedKeys(outcomes) {
									oc += "+" + k
								}
								t.Outcome(sc.name + "/" + oc[1:])
							})
						}
					}
				}
			}
		}
	}
}
