package main

import (
	"fmt"
	"math"
	"math/big"

	"gonum.org/v1/gonum/blas"
	"gonum.org/v1/gonum/internal/verif/vlib"
	"gonum.org/v1/gonum/lapack"
)

// Condition estimators on magnitude ladders. The factors handed to Dgecon,
// Dpocon, Dpbcon, Dtrcon and Dptcon contain entries m*2^e with e down to -1020
// and up to +1000, so that the scaled triangular solvers Dlatrs/Dlatbs leave
// their fast path and return scale < 1 (the estimators then have to divide the
// iterate by scale). The oracle is the definition 1/(|A| * |inv A|) computed
// exactly in math/big.Rat from the same factors.

type ratM struct {
	r, c int
	a    []*big.Rat
}

func newRatM(r, c int) ratM {
	m := ratM{r, c, make([]*big.Rat, r*c)}
	for i := range m.a {
		m.a[i] = new(big.Rat)
	}
	return m
}

func ratOf(m M) ratM {
	x := newRatM(m.r, m.c)
	for i, v := range m.a {
		x.a[i].SetFloat64(v)
	}
	return x
}

func (a ratM) mul(b ratM) ratM {
	c := newRatM(a.r, b.c)
	t := new(big.Rat)
	for i := 0; i < a.r; i++ {
		for l := 0; l < a.c; l++ {
			if a.a[i*a.c+l].Sign() == 0 {
				continue
			}
			for j := 0; j < b.c; j++ {
				t.Mul(a.a[i*a.c+l], b.a[l*b.c+j])
				c.a[i*b.c+j].Add(c.a[i*b.c+j], t)
			}
		}
	}
	return c
}

func (a ratM) T() ratM {
	t := newRatM(a.c, a.r)
	for i := 0; i < a.r; i++ {
		for j := 0; j < a.c; j++ {
			t.a[j*a.r+i].Set(a.a[i*a.c+j])
		}
	}
	return t
}

// inverse by exact Gauss-Jordan; ok=false if singular.
func (a ratM) inverse() (ratM, bool) {
	n := a.r
	w := newRatM(n, 2*n)
	for i := 0; i < n; i++ {
		for j := 0; j < n; j++ {
			w.a[i*2*n+j].Set(a.a[i*n+j])
		}
		w.a[i*2*n+n+i].SetInt64(1)
	}
	t := new(big.Rat)
	for k := 0; k < n; k++ {
		p := -1
		for i := k; i < n; i++ {
			if w.a[i*2*n+k].Sign() != 0 {
				p = i
				break
			}
		}
		if p < 0 {
			return ratM{}, false
		}
		if p != k {
			for j := 0; j < 2*n; j++ {
				w.a[k*2*n+j], w.a[p*2*n+j] = w.a[p*2*n+j], w.a[k*2*n+j]
			}
		}
		d := new(big.Rat).Inv(w.a[k*2*n+k])
		for j := 0; j < 2*n; j++ {
			w.a[k*2*n+j].Mul(w.a[k*2*n+j], d)
		}
		for i := 0; i < n; i++ {
			if i == k || w.a[i*2*n+k].Sign() == 0 {
				continue
			}
			f := new(big.Rat).Set(w.a[i*2*n+k])
			for j := 0; j < 2*n; j++ {
				t.Mul(f, w.a[k*2*n+j])
				w.a[i*2*n+j].Sub(w.a[i*2*n+j], t)
			}
		}
	}
	inv := newRatM(n, n)
	for i := 0; i < n; i++ {
		for j := 0; j < n; j++ {
			inv.a[i*n+j].Set(w.a[i*2*n+n+j])
		}
	}
	return inv, true
}

// comp returns the comparison matrix M(T): |t_ii| on the diagonal, -|t_ij| elsewhere. For a triangular T,
// inv(M(T)) is non-negative and bounds |inv(T~)| for every T~ with |T~| = |T|, in particular the inverse that a
// floating-point substitution effectively applies when the exact inverse benefits from cancellation.
func (a ratM) comp() ratM {
	m := newRatM(a.r, a.c)
	for i := 0; i < a.r; i++ {
		for j := 0; j < a.c; j++ {
			m.a[i*a.c+j].Abs(a.a[i*a.c+j])
			if i != j {
				m.a[i*a.c+j].Neg(m.a[i*a.c+j])
			}
		}
	}
	return m
}

// norm is the 1-norm (one == true) or the infinity norm.
func (a ratM) norm(one bool) *big.Rat {
	best := new(big.Rat)
	outer, inner := a.r, a.c
	if one {
		outer, inner = a.c, a.r
	}
	for o := 0; o < outer; o++ {
		s := new(big.Rat)
		for i := 0; i < inner; i++ {
			var v *big.Rat
			if one {
				v = a.a[i*a.c+o]
			} else {
				v = a.a[o*a.c+i]
			}
			s.Add(s, new(big.Rat).Abs(v))
		}
		if s.Cmp(best) > 0 {
			best = s
		}
	}
	return best
}

// log2Rat returns log2 of a positive rational.
func log2Rat(x *big.Rat) float64 {
	f := new(big.Float).SetPrec(64).SetRat(x)
	m := new(big.Float)
	e := f.MantExp(m)
	mf, _ := m.Float64()
	return float64(e) + math.Log2(mf)
}

func log2F(x float64) float64 {
	m, e := math.Frexp(x)
	return float64(e) + math.Log2(m)
}

// rcondCheck compares an estimate with the exact 1/(|A| |inv A|).
// ainvbound >= ainvnorm is the norm of the product of the comparison-matrix inverses of the factors: the
// largest |inv A| that the substitutions can produce. est must lie between 1/(|A|*ainvbound) and a modest
// multiple of the exact value; when the exact inverse involves no cancellation both coincide.
func rcondCheck(ck *checker, name string, est float64, anorm, ainvnorm, ainvbound *big.Rat, n int) string {
	if math.IsNaN(est) || est < 0 || math.IsInf(est, 0) {
		ck.failf("%s: rcond = %v", name, est)
		return "bad"
	}
	truth := new(big.Rat).Mul(anorm, ainvnorm)
	lt := -log2Rat(truth) // log2 of the exact reciprocal condition number
	if est == 0 {
		// the estimators give up (return 0) when undoing the scaling would overflow, and tiny
		// values underflow: accepted only when the exact value is below 2^-900
		if lt > -900 {
			ck.failf("%s: rcond = 0 but the exact reciprocal condition number is 2^%.1f", name, lt)
		}
		return "zero"
	}
	le := log2F(est)
	// the estimate of |inv A| is a lower bound of what the solves produce: rcond >= 1/(|A| bound), up to rounding
	lo := -1.0 - (log2Rat(ainvbound) - log2Rat(ainvnorm))
	hi := math.Log2(math.Max(condFactor, 3*float64(n)))
	if est < 0x1p-1000 {
		lo, hi = lo-2, hi+2 // subnormal results carry few bits
	}
	if le-lt < lo || le-lt > hi {
		ck.failf("%s: rcond = %g = 2^%.1f, exact 1/(|A||inv A|) = 2^%.1f (allowed offset [%.1f, %.1f] bits)", name, est, le, lt, lo, hi)
		return "bad"
	}
	ck.t.Max("max_ratio_x1000:"+name+" est/true (ladder)", int64(math.Ceil(1000*math.Exp2(le-lt))))
	return "ok"
}

func ratToF(x *big.Rat) float64 {
	f, _ := new(big.Float).SetPrec(53).SetRat(x).Float64()
	return f
}

// ladder is one pattern of diagonal exponents.
type ladder struct {
	name string
	exp  func(n, i int) int
}

// ladders returns the diagonal exponent patterns; emax bounds |e| (1020 for LU and triangular
// factors, 500 for Cholesky factors whose squares must stay representable).
func ladders(emax int, thorough bool) []ladder {
	ls := []ladder{{"flat", func(n, i int) int { return 0 }}}
	es := []int{emax / 10, emax / 2, emax * 9 / 10, emax - 40, emax - 20, emax}
	if !thorough {
		es = []int{emax / 2, emax - 40, emax}
	}
	for _, e := range es {
		e := e
		for _, pos := range []string{"first", "mid", "last"} {
			pos := pos
			at := func(n int) int {
				switch pos {
				case "first":
					return 0
				case "mid":
					return n / 2
				}
				return n - 1
			}
			ls = append(ls, ladder{fmt.Sprintf("tiny%d-%s", e, pos), func(n, i int) int {
				if i == at(n) {
					return -e
				}
				return 0
			}})
			if e <= emax-20 {
				ls = append(ls, ladder{fmt.Sprintf("huge%d-%s", e, pos), func(n, i int) int {
					if i == at(n) {
						return e
					}
					return 0
				}})
			}
		}
		ls = append(ls, ladder{fmt.Sprintf("twotiny%d", e), func(n, i int) int {
			if i == 0 || i == n-1 {
				return -e
			}
			return 0
		}})
		ls = append(ls, ladder{fmt.Sprintf("graded%d", e), func(n, i int) int {
			if n <= 1 {
				return -e
			}
			return -e * i / (n - 1)
		}})
		ls = append(ls, ladder{fmt.Sprintf("mixed%d", e), func(n, i int) int {
			if i%2 == 0 {
				return -e
			}
			return e / 2
		}})
	}
	return ls
}

// triLadder builds an upper triangular matrix with diagonal (1 or 3)*2^e_i and small off-diagonal entries.
func triLadder(n int, ld ladder, off string) M {
	t := newM(n, n)
	for i := 0; i < n; i++ {
		t.a[i*n+i] = math.Ldexp(float64(1+2*(i%2)), ld.exp(n, i))
		for j := i + 1; j < n; j++ {
			switch off {
			case "half": // the bidiagonal example: 1/2 on the first super-diagonal
				if j == i+1 {
					t.a[i*n+j] = 0.5
				}
			case "ints":
				t.a[i*n+j] = float64(h3(i, j, 111) % 3)
			}
		}
	}
	return t
}

func genConLadder(g *vlib.G) {
	N := vlib.Pick(g, 5, 7)
	for n := 1; n <= N; n++ {
		for _, off := range []string{"half", "ints"} {
			// ---- Dgecon and Dtrcon: exponents down to -1020
			for _, ld := range ladders(1020, g.Thorough()) {
				n, off, ld := n, off, ld
				g.Case(fmt.Sprintf("Dgecon/Dtrcon ladder n=%d off=%s diag=%s", n, off, ld.name), func(t *vlib.T) {
					ck := &checker{t: t}
					t.Nontrivial()
					u := triLadder(n, ld, off)
					// L: unit lower with +-1/2 on the first sub-diagonal
					l := eye(n)
					for i := 1; i < n; i++ {
						l.a[i*n+i-1] = 0.5 - float64(i%2)
					}
					lu := u.clone()
					for i := 1; i < n; i++ {
						lu.a[i*n+i-1] = l.a[i*n+i-1]
					}
					ar := ratOf(l).mul(ratOf(u))
					ainv, ok := ar.inverse()
					outcomes := map[string]bool{}
					if ok {
						ui, _ := ratOf(u).comp().inverse()
						li, _ := ratOf(l).comp().inverse()
						abound := ui.mul(li)
						for _, pad := range []int{0, 3} {
							for _, nrm := range []lapack.MatrixNorm{lapack.MaxColumnSum, lapack.MaxRowSum} {
								one := nrm == lapack.MaxColumnSum
								an := ar.norm(one)
								anorm := ratToF(an)
								if math.IsInf(anorm, 0) || anorm == 0 {
									continue
								}
								ck.ctx = fmt.Sprintf("norm=%s lda+%d", normName(nrm), pad)
								s := place(lu, n+pad, nil)
								rc := impl.Dgecon(nrm, n, s.d, n+pad, anorm, poisonVec(4*n), make([]int, n))
								s.checkRO(ck, "Dgecon a")
								outcomes["gecon-"+rcondCheck(ck, "Dgecon", rc, an, ainv.norm(one), abound.norm(one), n)] = true
							}
						}
					}
					// Dtrcon on U and on U^T (lower), non-unit; and on the unit triangular matrix whose
					// off-diagonal carries the ladder
					for _, uplo := range uplos {
						for _, diag := range diags {
							tm := u.clone()
							if diag == blas.Unit {
								// unit diagonal, ladder on the first super-diagonal (growth through the off-diagonal)
								for i := 0; i < n; i++ {
									tm.a[i*n+i] = 1
									if i+1 < n {
										e := ld.exp(n, i)
										if e < 0 {
											e = -e
										}
										tm.a[i*n+i+1] = math.Ldexp(1, imin(e, 600)/imax(1, n-1))
									}
								}
							}
							if uplo == blas.Lower {
								tm = tm.T()
							}
							tr := ratOf(tm)
							tinv, ok := tr.inverse()
							if !ok {
								continue
							}
							tbound, _ := tr.comp().inverse()
							for _, nrm := range []lapack.MatrixNorm{lapack.MaxColumnSum, lapack.MaxRowSum} {
								one := nrm == lapack.MaxColumnSum
								ck.ctx = fmt.Sprintf("Dtrcon uplo=%s diag=%s norm=%s", uploName(uplo), diagName(diag), normName(nrm))
								s := place(tm, n+3, keepTri(uplo, diag))
								rc := impl.Dtrcon(nrm, uplo, diag, n, s.d, n+3, poisonVec(3*n), make([]int, n))
								s.checkRO(ck, "Dtrcon a")
								outcomes["trcon-"+rcondCheck(ck, "Dtrcon", rc, tr.norm(one), tinv.norm(one), tbound.norm(one), n)] = true
							}
						}
					}
					ck.ctx = ""
					oc := ""
					for _, k := range vlib.SortedKeys(outcomes) {
						oc += "+" + k
					}
					t.Outcome(oc)
				})
			}
			// ---- Dpocon, Dpbcon, Dptcon: the matrix is the square of the factor, exponents down to -500
			for _, ld := range ladders(500, g.Thorough()) {
				n, off, ld := n, off, ld
				g.Case(fmt.Sprintf("Dpocon/Dpbcon/Dptcon ladder n=%d off=%s diag=%s", n, off, ld.name), func(t *vlib.T) {
					ck := &checker{t: t}
					t.Nontrivial()
					r := triLadder(n, ld, off) // A = R^T R
					outcomes := map[string]bool{}
					for _, uplo := range uplos {
						for _, kd := range uniq(0, n-1, 1) {
							rb := bandRestrict(r, kd)
							rr := ratOf(rb)
							ar := rr.T().mul(rr)
							ainv, ok := ar.inverse()
							an := ar.norm(true)
							anorm := ratToF(an)
							if !ok || math.IsInf(anorm, 0) || anorm == 0 {
								continue
							}
							ri, _ := rr.comp().inverse()
							abound := ri.mul(ri.T()).norm(true)
							fac := rb
							if uplo == blas.Lower {
								fac = rb.T()
							}
							ck.ctx = fmt.Sprintf("uplo=%s kd=%d", uploName(uplo), kd)
							if kd == n-1 || n == 1 {
								s := place(fac, n+3, keepUplo(uplo))
								rc := impl.Dpocon(uplo, n, s.d, n+3, anorm, poisonVec(3*n), make([]int, n))
								s.checkRO(ck, "Dpocon a")
								outcomes["pocon-"+rcondCheck(ck, "Dpocon", rc, an, ainv.norm(true), abound, n)] = true
							}
							bs := placeBand(fac, uplo, kd, kd+3, false)
							rc := impl.Dpbcon(uplo, n, kd, bs.d, kd+3, anorm, poisonVec(3*n), make([]int, n))
							bs.checkRO(ck, "Dpbcon ab")
							outcomes["pbcon-"+rcondCheck(ck, "Dpbcon", rc, an, ainv.norm(true), abound, n)] = true
						}
					}
					// Dptcon: A = L*D*L^T, D the squared ladder, L unit bidiagonal
					ck.ctx = "Dptcon"
					d := make([]float64, n)
					e := make([]float64, imax(0, n-1))
					lm, dm := eye(n), newM(n, n)
					for i := 0; i < n; i++ {
						d[i] = math.Ldexp(float64(1+2*(i%2)), 2*ld.exp(n, i))
						dm.a[i*n+i] = d[i]
						if i < n-1 {
							e[i] = 0.5 - float64(i%2)
							if off == "ints" {
								e[i] *= 4
							}
							lm.a[(i+1)*n+i] = e[i]
						}
					}
					ar := ratOf(lm).mul(ratOf(dm)).mul(ratOf(lm).T())
					if ainv, ok := ar.inverse(); ok {
						an := ar.norm(true)
						lci, _ := ratOf(lm).comp().inverse()
						di, _ := ratOf(dm).inverse()
						abound := lci.T().mul(di).mul(lci).norm(true)
						if anorm := ratToF(an); !math.IsInf(anorm, 0) && anorm != 0 {
							rc := impl.Dptcon(n, append([]float64(nil), d...), append([]float64(nil), e...), anorm, poisonVec(n))
							outcomes["ptcon-"+rcondCheck(ck, "Dptcon", rc, an, ainv.norm(true), abound, n)] = true
						}
					}
					ck.ctx = ""
					oc := ""
					for _, k := range vlib.SortedKeys(outcomes) {
						oc += "+" + k
					}
					t.Outcome(oc)
				})
			}
		}
	}
}
