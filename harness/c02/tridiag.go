package main

import (
	"fmt"
	"math"

	"gonum.org/v1/gonum/internal/verif/vlib"
	"gonum.org/v1/gonum/lapack"
)

// tridiagonal matrix from its three diagonals
func tridiagDense(dl, d, du []float64) M {
	n := len(d)
	a := newM(n, n)
	for i := 0; i < n; i++ {
		a.a[i*n+i] = d[i]
		if i+1 < n {
			a.a[i*n+i+1] = du[i]
			a.a[(i+1)*n+i] = dl[i]
		}
	}
	return a
}

type gtfam struct {
	name string
	gen  func(n int) (dl, d, du []float64)
	// singular: elimination meets an exactly zero pivot
	singular func(n int) bool
	well     bool
}

func gtFams(maxn int) []gtfam {
	mk := func(n int, f func(i int) (l, d, u float64)) (dl, d, du []float64) {
		d = make([]float64, n)
		dl = make([]float64, imax(0, n-1))
		du = make([]float64, imax(0, n-1))
		for i := 0; i < n; i++ {
			l, dd, u := f(i)
			d[i] = dd
			if i < n-1 {
				dl[i], du[i] = l, u
			}
		}
		return
	}
	fs := []gtfam{
		{"dd", func(n int) (dl, d, du []float64) {
			return mk(n, func(i int) (float64, float64, float64) {
				return float64(h3(i, 0, 70)), float64(7 + i%3), float64(h3(i, 1, 70))
			})
		}, never1, true},
		{"pivoting", func(n int) (dl, d, du []float64) { // |dl| > |d|: every step interchanges rows
			return mk(n, func(i int) (float64, float64, float64) {
				return float64(4 + i%2), float64(1 + h3(i, 2, 71)%2), float64(2 - i%3)
			})
		}, nil, false},
		{"mixed", func(n int) (dl, d, du []float64) {
			return mk(n, func(i int) (float64, float64, float64) {
				if i%2 == 0 {
					return 5, 1, 2
				}
				return 1, 6, -2
			})
		}, nil, false},
		{"zero", func(n int) (dl, d, du []float64) {
			return mk(n, func(i int) (float64, float64, float64) { return 0, 0, 0 })
		}, func(n int) bool { return n > 0 }, false},
		{"id", func(n int) (dl, d, du []float64) {
			return mk(n, func(i int) (float64, float64, float64) { return 0, 1, 0 })
		}, never1, true},
	}
	for k := 0; k < maxn; k++ {
		k := k
		fs = append(fs, gtfam{fmt.Sprintf("zerocol%d", k), func(n int) (dl, d, du []float64) {
			dl, d, du = mk(n, func(i int) (float64, float64, float64) {
				return float64(h3(i, 0, 70)), float64(7 + i%3), float64(h3(i, 1, 70))
			})
			if k < n {
				d[k] = 0
				if k < n-1 {
					dl[k] = 0
				}
				if k > 0 {
					du[k-1] = 0
				}
			}
			return
		}, func(n int) bool { return k < n }, false})
	}
	return fs
}

func never1(n int) bool { return false }

func genGtsv(g *vlib.G) {
	N := vlib.Pick(g, 14, 18)
	fams := gtFams(N)
	for n := 0; n <= N; n++ {
		for _, f := range fams {
			if k, ok := posFam(f.name); ok && k >= n {
				continue
			}
			for _, nrhs := range []int{0, 1, 3} {
				for _, pad := range []int{0, 3} {
					n, f, nrhs, pad := n, f, nrhs, pad
					g.Case(fmt.Sprintf("Dgtsv n=%d fam=%s nrhs=%d ldb+%d", n, f.name, nrhs, pad), func(t *vlib.T) {
						ck := &checker{t: t}
						if n >= 2 && nrhs > 0 {
							t.Nontrivial()
						}
						dl, d, du := f.gen(n)
						a := tridiagDense(dl, d, du)
						x := xTrue(n, nrhs)
						b := mul(a, x)
						ldb := imax(1, nrhs) + pad
						bs := place(b, ldb, nil)
						dl2, d2, du2 := append([]float64(nil), dl...), append([]float64(nil), d...), append([]float64(nil), du...)
						ok := impl.Dgtsv(n, nrhs, dl2, d2, du2, bs.d, ldb)
						if i, intact := bs.poisonIntact(); !intact {
							ck.failf("Dgtsv b: padding written at offset %d", i)
						}
						if n == 0 || nrhs == 0 {
							if !ok {
								ck.failf("Dgtsv returned false on an empty problem")
							}
							t.Outcome("empty")
							return
						}
						if f.singular != nil && f.singular(n) {
							if ok {
								ck.failf("Dgtsv ok=true on an exactly singular matrix")
							}
							t.Outcome("singular")
							return
						}
						if f.singular == nil {
							// no promise either way: only consistency
							if !ok {
								t.Outcome("ok=false")
								return
							}
						} else if !ok {
							ck.failf("Dgtsv ok=false on a diagonally dominant matrix")
							return
						}
						xh := bs.get()
						if hasNaN(xh) {
							ck.failf("NaN in solution")
							return
						}
						solveResid(ck, "Dgtsv", a, xh, b, n)
						if f.well {
							if dd := maxAbsDiff(xh, x); dd > diffTol*normMax(x) {
								ck.failf("Dgtsv forward error %.3g on a well-conditioned system", dd)
							}
						}
						t.Outcome("ok")
					})
				}
			}
		}
	}
}

type ptfam struct {
	name  string
	gen   func(n int) (d, e []float64)
	pd    bool
	notPD func(n int) bool
}

func ptFams(maxn int) []ptfam {
	fs := []ptfam{
		{"tri21", func(n int) (d, e []float64) {
			d, e = make([]float64, n), make([]float64, imax(0, n-1))
			for i := range d {
				d[i] = 2
			}
			for i := range e {
				e[i] = -1
			}
			return
		}, true, nil},
		{"dd", func(n int) (d, e []float64) {
			d, e = make([]float64, n), make([]float64, imax(0, n-1))
			for i := range d {
				d[i] = float64(8 + i%4)
			}
			for i := range e {
				v := h3(i, 3, 80)
				if v == 0 {
					v = 1
				}
				e[i] = float64(v)
			}
			return
		}, true, nil},
		{"graded", func(n int) (d, e []float64) {
			d, e = make([]float64, n), make([]float64, imax(0, n-1))
			for i := range d {
				d[i] = math.Ldexp(4, 2*(i%9))
			}
			for i := range e {
				e[i] = math.Ldexp(1, (i%9)+((i+1)%9))
			}
			return
		}, true, nil},
		{"zero", func(n int) (d, e []float64) {
			return make([]float64, n), make([]float64, imax(0, n-1))
		}, false, func(n int) bool { return n > 0 }},
	}
	for k := 0; k < maxn; k++ {
		k := k
		// L*D*L^T with unit bidiagonal L (sub-diagonal +-1) and D = 2,3,2,... except D[k] = -1: the pivot
		// at position k is -1 although every diagonal entry of A may be positive.
		fs = append(fs, ptfam{fmt.Sprintf("ldlneg%d", k), func(n int) (d, e []float64) {
			dd := make([]float64, n)
			for i := range dd {
				dd[i] = float64(2 + i%2)
			}
			if k < n {
				dd[k] = -1
			}
			d, e = make([]float64, n), make([]float64, imax(0, n-1))
			for i := 0; i < n; i++ {
				d[i] = dd[i]
				if i > 0 {
					d[i] += dd[i-1] // l[i-1]^2 * D[i-1], l = +-1
				}
				if i < n-1 {
					l := 1.0
					if i%3 == 1 {
						l = -1
					}
					e[i] = l * dd[i]
				}
			}
			return
		}, false, func(n int) bool { return k < n }})
		if k >= 1 {
			// identity with [1 1; 1 1] at rows k-1, k: the pivot at k is exactly 0
			fs = append(fs, ptfam{fmt.Sprintf("zeropiv%d", k), func(n int) (d, e []float64) {
				d, e = make([]float64, n), make([]float64, imax(0, n-1))
				for i := range d {
					d[i] = 1
				}
				if k < n {
					e[k-1] = 1
				}
				return
			}, false, func(n int) bool { return k < n }})
		}
		fs = append(fs, ptfam{fmt.Sprintf("negdiag%d", k), func(n int) (d, e []float64) {
			d, e = make([]float64, n), make([]float64, imax(0, n-1))
			for i := range d {
				d[i] = 4
			}
			for i := range e {
				e[i] = 1
			}
			if k < n {
				d[k] = -1
			}
			return
		}, false, func(n int) bool { return k < n }})
	}
	return fs
}

func genPt(g *vlib.G) {
	N := vlib.Pick(g, 20, 28)
	fams := ptFams(N)
	for n := 0; n <= N; n++ {
		for _, f := range fams {
			if k, ok := posFam(f.name); ok && k >= n {
				continue
			}
			for _, nb := range []int{1, 2} {
				n, f, nb := n, f, nb
				g.Case(fmt.Sprintf("Dpt n=%d fam=%s nb=%d", n, f.name, nb), func(t *vlib.T) {
					defer seamOff()
					ck := &checker{t: t}
					if n >= 2 {
						t.Nontrivial()
					}
					d, e := f.gen(n)
					a := tridiagDense(e, d, e)
					df, ef := append([]float64(nil), d...), append([]float64(nil), e...)
					ok := impl.Dpttrf(n, df, ef)
					if f.pd && !ok {
						ck.failf("Dpttrf ok=false on a positive definite matrix")
					}
					if f.notPD != nil && f.notPD(n) && ok {
						ck.failf("Dpttrf ok=true on a matrix that is not positive definite")
					}
					if !ok || !f.pd {
						// Dptsv must agree
						d2, e2 := append([]float64(nil), d...), append([]float64(nil), e...)
						b := place(mul(a, xTrue(n, 1)), 1, nil)
						if ok2 := impl.Dptsv(n, 1, d2, e2, b.d, 1); ok2 != ok && n > 0 {
							ck.failf("Dptsv ok=%v but Dpttrf ok=%v", ok2, ok)
						}
						if n > 0 {
							if rc := impl.Dptcon(n, df, ef, norm1(a), poisonVec(n)); !ok && f.notPD != nil && rc != 0 && allPositive(df) == false {
								ck.failf("Dptcon = %v for a factorization with a non-positive d, want 0", rc)
							}
						}
						t.Outcome("notpd")
						return
					}
					if n > 0 {
						if anyNaN(df) || anyNaN(ef) {
							ck.failf("NaN in factorization")
							return
						}
						// A = L*D*L^T
						l := eye(n)
						dm := newM(n, n)
						for i := 0; i < n; i++ {
							dm.a[i*n+i] = df[i]
							if i+1 < n {
								l.a[(i+1)*n+i] = ef[i]
							}
							if !(df[i] > 0) {
								ck.failf("d[%d]=%v not positive", i, df[i])
							}
						}
						res := norm1(sub(mul(mul(l, dm), l.T()), a))
						ck.ratio("pttrf |LDLt-A|/(n eps |A|)", res/(float64(n)*eps*norm1(a)))
					}
					// Dpttrs: block size from the seam; results must be bitwise independent of it (columns are independent)
					var first []float64
					for _, nrhs := range []int{0, 1, 3, 5} {
						for _, pad := range []int{0, 3} {
							for _, seamNB := range []int{0, nb} {
								ck.ctx = fmt.Sprintf("Dpttrs nrhs=%d pad=%d seamnb=%d", nrhs, pad, seamNB)
								if seamNB > 0 {
									seamOn(seamNB, 0)
								} else {
									seamOff()
								}
								x := xTrue(n, nrhs)
								b := mul(a, x)
								ldb := imax(1, nrhs) + pad
								bs := place(b, ldb, nil)
								dc, ec := append([]float64(nil), df...), append([]float64(nil), ef...)
								impl.Dpttrs(n, nrhs, dc, ec, bs.d, ldb)
								if _, s1 := vlib.Same64(dc, df); !s1 {
									ck.failf("Dpttrs modified d")
								}
								if _, s2 := vlib.Same64(ec, ef); !s2 {
									ck.failf("Dpttrs modified e")
								}
								bs.checkOut(ck, "Dpttrs b")
								solveResid(ck, "Dpttrs", a, bs.get(), b, n)
								if seamNB == 0 {
									first = append([]float64(nil), bs.d...)
								} else if _, same := vlib.Same64(first, bs.d); !same {
									ck.failf("Dpttrs result depends on the block size (columns are solved independently)")
								}
								// Dptsv = Dpttrf + Dpttrs
								if seamNB == 0 {
									d2, e2 := append([]float64(nil), d...), append([]float64(nil), e...)
									bs2 := place(b, ldb, nil)
									if ok2 := impl.Dptsv(n, nrhs, d2, e2, bs2.d, ldb); !ok2 {
										ck.failf("Dptsv ok=false on a positive definite matrix")
									}
									if n > 0 && nrhs > 0 {
										if _, same := vlib.Same64(bs2.d, bs.d); !same {
											ck.failf("Dptsv differs bitwise from Dpttrf+Dpttrs")
										}
									}
								}
							}
						}
					}
					seamOff()
					ck.ctx = ""
					if n == 0 {
						if rc := impl.Dptcon(0, nil, nil, 0, nil); rc != 1 {
							ck.failf("Dptcon n=0 returned %v, want 1", rc)
						}
					} else {
						work := poisonVec(n)
						dc, ec := append([]float64(nil), df...), append([]float64(nil), ef...)
						rc := impl.Dptcon(n, dc, ec, norm1(a), work)
						if _, s1 := vlib.Same64(dc, df); !s1 {
							ck.failf("Dptcon modified d")
						}
						if inv, iok := inverse(a); iok {
							condCheck(ck, "Dptcon", rc, norm1(a), norm1(inv))
						}
					}
					t.Outcome("pd")
				})
			}
		}
	}
}

func allPositive(d []float64) bool {
	for _, v := range d {
		if !(v > 0) {
			return false
		}
	}
	return true
}

// ---------------------------------------------------------------------------
// Dlacn2

func genLacn2(g *vlib.G) {
	N := vlib.Pick(g, 12, 14)
	fams := generalFams(N, false)
	for n := 1; n <= N; n++ {
		for _, f := range fams {
			n, f := n, f
			g.Case(fmt.Sprintf("Dlacn2 n=%d fam=%s", n, f.name), func(t *vlib.T) {
				ck := &checker{t: t}
				if n >= 2 {
					t.Nontrivial()
				}
				a := f.gen(n, n)
				at := a.T()
				v, x := poisonVec(n), poisonVec(n)
				isgn := make([]int, n)
				var isave [3]int
				est, kase := 0.0, 0
				calls := 0
				for {
					est, kase = impl.Dlacn2(n, v, x, isgn, est, kase, &isave)
					calls++
					if kase == 0 {
						break
					}
					if calls > 40 {
						ck.failf("Dlacn2 did not terminate within 40 calls")
						return
					}
					if kase != 1 && kase != 2 {
						ck.failf("Dlacn2 returned kase=%d", kase)
						return
					}
					op := a
					if kase == 2 {
						op = at
					}
					y := mul(op, M{n, 1, append([]float64(nil), x[:n]...)})
					copy(x, y.a)
				}
				truth := norm1(a)
				if math.IsNaN(est) || est < 0 {
					ck.failf("estimate %v", est)
					return
				}
				if est > truth*(1+float64(n)*8*eps) {
					ck.failf("estimate %v exceeds the true 1-norm %v (documented as a lower bound)", est, truth)
				}
				if est < truth/float64(n)*(1-1e-12) {
					ck.failf("estimate %v below true/n = %v", est, truth/float64(n))
				}
				if truth > 0 {
					t.Max("max_ratio_x1000:lacn2 true/est", int64(math.Ceil(1000*truth/math.Max(est, 1e-300))))
				}
				_ = lapack.MaxColumnSum
				t.Outcome(fmt.Sprintf("calls=%d", calls))
			})
		}
	}
}
