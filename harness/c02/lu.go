package main

import (
	"fmt"
	"math"

	"gonum.org/v1/gonum/blas"
	"gonum.org/v1/gonum/internal/verif/vlib"
	"gonum.org/v1/gonum/lapack"
)

// workQuery runs a workspace query (the callback must pass lwork = -1 and the
// given work slice) and checks that only work[0] is written and that the
// reported length is a finite integer >= the documented minimum.
func workQuery(ck *checker, name string, min int, empty bool, run func(work []float64)) int {
	work := poisonVec(4)
	snap := append([]float64(nil), work...)
	run(work)
	for i := 1; i < len(work); i++ {
		if math.Float64bits(work[i]) != math.Float64bits(snap[i]) {
			ck.failf("%s query: work[%d] written", name, i)
		}
	}
	w := work[0]
	if math.IsNaN(w) || math.IsInf(w, 0) || w != math.Floor(w) || w < 1 {
		ck.failf("%s query: work[0] = %v is not a positive integer", name, w)
		return imax(1, min)
	}
	if int(w) < imax(1, min) {
		old := ck.class
		if empty {
			// known: for empty problems the quick return reports 1 although the argument check demands more
			ck.class = queryEmptyClass
			if ck.quietEmpty {
				return imax(1, min)
			}
		}
		ck.failf("%s query: work[0] = %v is below the documented minimum %d (calling with lwork = work[0] panics)", name, w, imax(1, min))
		ck.class = old
		return imax(1, min)
	}
	return int(w)
}

const queryEmptyClass = "lwork-query-below-minimum-on-empty-problem"

func intsSame(a, b []int) bool {
	if len(a) != len(b) {
		return false
	}
	for i := range a {
		if a[i] != b[i] {
			return false
		}
	}
	return true
}

// applyIpiv returns P^T*A... precisely: the rows of a interchanged as Dgetrf did (row i <-> ipiv[i], i ascending).
func applyIpiv(a M, ipiv []int) M {
	p := a.clone()
	for i, pi := range ipiv {
		if pi != i && pi >= 0 && pi < a.r {
			for j := 0; j < a.c; j++ {
				p.a[i*a.c+j], p.a[pi*a.c+j] = p.a[pi*a.c+j], p.a[i*a.c+j]
			}
		}
	}
	return p
}

// splitLU extracts the unit lower trapezoidal L (m x mn) and upper trapezoidal U (mn x n).
func splitLU(lu M) (l, u M) {
	m, n := lu.r, lu.c
	mn := imin(m, n)
	l, u = newM(m, mn), newM(mn, n)
	for i := 0; i < m; i++ {
		for j := 0; j < n; j++ {
			switch {
			case j < i && j < mn:
				l.a[i*mn+j] = lu.a[i*n+j]
			case j >= i && i < mn:
				u.a[i*n+j] = lu.a[i*n+j]
			}
		}
		if i < mn {
			l.a[i*mn+i] = 1
		}
	}
	return l, u
}

// luOracle checks the documented properties of an LU factorization; floor is an absolute error floor per entry (0 except for subnormal data).
func luOracle(ck *checker, what string, a, lu M, ipiv []int, ok bool, floor float64) {
	m, n := a.r, a.c
	mn := imin(m, n)
	if len(ipiv) != mn {
		ck.failf("%s: len(ipiv)=%d", what, len(ipiv))
		return
	}
	for i, p := range ipiv {
		if p < i || p >= m {
			ck.failf("%s: ipiv[%d]=%d out of range [%d,%d)", what, i, p, i, m)
			return
		}
	}
	if hasNaN(lu) {
		ck.failf("%s: NaN in factors", what)
		return
	}
	l, u := splitLU(lu)
	zeroPivot := false
	for j := 0; j < mn; j++ {
		if u.at(j, j) == 0 {
			zeroPivot = true
		}
	}
	if ok == zeroPivot {
		ck.failf("%s: ok=%v but exactly-zero pivot present=%v", what, ok, zeroPivot)
	}
	for i := 0; i < m; i++ {
		for j := 0; j < imin(i, mn); j++ {
			if math.Abs(l.at(i, j)) > 1 {
				ck.failf("%s: |l[%d,%d]| = %v > 1", what, i, j, math.Abs(l.at(i, j)))
				return
			}
		}
	}
	if mn == 0 {
		return
	}
	res := norm1(sub(mul(l, u), applyIpiv(a, ipiv)))
	an := norm1(a)
	den := float64(n)*eps*an + float64(m*n)*floor
	if den == 0 {
		if res != 0 {
			ck.failf("%s: zero matrix but P*L*U != 0", what)
		}
		return
	}
	ck.ratio("lu |PLU-A|/(n eps |A|)", res/den)
}

// wellLU reports whether an LU factorization is well enough conditioned for entry-wise comparison of factors.
func wellLU(lu M, scale float64) bool {
	mn := imin(lu.r, lu.c)
	for j := 0; j < mn; j++ {
		if math.Abs(lu.at(j, j)) < 1e-6*scale {
			return false
		}
	}
	return true
}

// tieFree reports whether no pivot choice of the factorization was (nearly) tied.
func tieFree(lu M) bool {
	mn := imin(lu.r, lu.c)
	for j := 0; j < mn; j++ {
		if lu.at(j, j) == 0 {
			return false
		}
		for i := j + 1; i < lu.r; i++ {
			if math.Abs(lu.at(i, j)) > 1-1e-6 {
				return false
			}
		}
	}
	return true
}

type luRun struct {
	lu   M
	ipiv []int
	ok   bool
	path string
}

// runGetrf factors a (blocked driver when blocked, else Dgetf2) in storage with the given lda.
func runGetrf(ck *checker, what string, a M, lda int, blocked bool) luRun {
	m, n := a.r, a.c
	s := place(a, lda, nil)
	ipiv := make([]int, imin(m, n))
	for i := range ipiv {
		ipiv[i] = -7
	}
	resetL3()
	var ok bool
	if blocked {
		ok = impl.Dgetrf(m, n, s.d, lda, ipiv)
	} else {
		ok = impl.Dgetf2(m, n, s.d, lda, ipiv)
	}
	r := luRun{lu: s.get(), ipiv: ipiv, ok: ok, path: pathL3()}
	s.checkOut(ck, what)
	return r
}

// compareLU is the differential oracle between two runs on the same input.
func compareLU(ck *checker, what string, a M, ref, got luRun, well bool) {
	if ref.ok != got.ok {
		ck.failf("%s: ok differs: %v vs %v", what, ref.ok, got.ok)
	}
	scale := normMax(a)
	if !well || !wellLU(ref.lu, scale) {
		return
	}
	if tieFree(ref.lu) && !intsSame(ref.ipiv, got.ipiv) {
		ck.failf("%s: pivots differ on a tie-free input: %v vs %v", what, ref.ipiv, got.ipiv)
		return
	}
	if !intsSame(ref.ipiv, got.ipiv) {
		return
	}
	if d := maxAbsDiff(ref.lu, got.lu); d > diffTol*math.Max(scale, 1) {
		ck.failf("%s: factors differ by %.3g (scale %.3g)", what, d, scale)
	}
}

func genLU(g *vlib.G) {
	N := vlib.Pick(g, 12, 14)
	nbs := vlib.Pick(g, []int{1, 2, 3, 4}, []int{1, 2, 3, 4, 5})
	fams := generalFams(N, true)
	for m := 0; m <= N; m++ {
		for n := 0; n <= N; n++ {
			for _, f := range fams {
				if j, ok := posFam(f.name); ok && j >= n {
					continue
				}
				for _, nb := range nbs {
					m, n, f, nb := m, n, f, nb
					g.Case(fmt.Sprintf("Dgetrf m=%d n=%d fam=%s nb=%d", m, n, f.name, nb), func(t *vlib.T) {
						defer seamOff()
						ck := &checker{t: t}
						a := f.gen(m, n)
						mn := imin(m, n)
						if mn >= 2 {
							t.Nontrivial()
						}
						seamOn(nb, 0)
						ref := runGetrf(ck, "Dgetf2 packed", a, imax(1, n), false)
						luOracle(ck, "Dgetf2 packed", a, ref.lu, ref.ipiv, ref.ok, 0)
						if ref.path != "unblocked" {
							ck.failf("harness: Dgetf2 used level-3 BLAS")
						}
						if f.exactSingular(m, n) && ref.ok {
							ck.failf("Dgetf2: ok=true on an exactly singular input")
						}
						path := ""
						for _, lda := range []int{imax(1, n), imax(1, n) + 3} {
							ck.ctx = fmt.Sprintf("lda=%d", lda)
							r2 := runGetrf(ck, "Dgetf2", a, lda, false)
							if lda != imax(1, n) {
								// any lda vs packed: identical arithmetic is not promised, agreement within rounding is.
								compareLU(ck, "Dgetf2 lda vs packed", a, ref, r2, f.well)
								luOracle(ck, "Dgetf2", a, r2.lu, r2.ipiv, r2.ok, 0)
							}
							rb := runGetrf(ck, "Dgetrf", a, lda, true)
							luOracle(ck, "Dgetrf", a, rb.lu, rb.ipiv, rb.ok, 0)
							compareLU(ck, "Dgetrf vs Dgetf2", a, ref, rb, f.well)
							if f.exactSingular(m, n) && rb.ok {
								ck.failf("Dgetrf: ok=true on an exactly singular input")
							}
							path = rb.path
						}
						ck.ctx = ""
						okc := "ok"
						if !ref.ok {
							okc = "singular"
						}
						t.Outcome(path + "/" + okc)
					})
				}
			}
		}
		if g.Stopped() {
			return
		}
	}
	// subnormal pivots: the |pivot| < safmin branch of Dgetf2.
	for m := 2; m <= 5; m++ {
		for n := 1; n <= 3; n++ {
			for _, blocked := range []bool{false, true} {
				m, n, blocked := m, n, blocked
				name := "Dgetf2"
				if blocked {
					name = "Dgetrf"
				}
				g.Case(fmt.Sprintf("%s subnormal m=%d n=%d", name, m, n), func(t *vlib.T) {
					defer seamOff()
					seamOn(2, 0)
					ck := &checker{t: t, class: "dgetf2-subnormal-pivot"}
					a := genDD(5)(m, n)
					s := math.Ldexp(1, -1060)
					for i := range a.a {
						a.a[i] *= s
					}
					t.Nontrivial()
					r := runGetrf(ck, name, a, n, blocked)
					luOracle(ck, name, a, r.lu, r.ipiv, r.ok, 0x1p-1074)
					t.Outcome("subnormal/" + r.path)
				})
			}
		}
	}
}

// ---------------------------------------------------------------------------
// Dgetrs, Dgesv, Dgetri, Dgecon on the factors

func solveResid(ck *checker, name string, opA, x, b M, n int) {
	if x.r == 0 || x.c == 0 {
		return
	}
	if hasNaN(x) {
		ck.failf("%s: NaN in solution", name)
		return
	}
	res := norm1(sub(mul(opA, x), b))
	den := float64(imax(1, n)) * eps * norm1(opA) * norm1(x)
	if den == 0 {
		if res != 0 {
			ck.failf("%s: zero denominator with non-zero residual", name)
		}
		return
	}
	ck.ratio(name+" |AX-B|/(n eps |A||X|)", res/den)
}

func opOf(a M, tr blas.Transpose) M {
	if tr == blas.NoTrans {
		return a
	}
	return a.T()
}

// condCheck compares a reciprocal condition estimate with the explicit value.
func condCheck(ck *checker, name string, rcond float64, anorm, ainvnorm float64) {
	if math.IsNaN(rcond) || rcond < 0 {
		ck.failf("%s: rcond = %v", name, rcond)
		return
	}
	if rcond > 1+8*eps {
		ck.failf("%s: rcond = %v > 1", name, rcond)
	}
	truth := 1 / (anorm * ainvnorm)
	if rcond < truth/condFactor || rcond > truth*condFactor {
		ck.failf("%s: rcond estimate %.6g not within a factor %g of 1/(|A||inv A|) = %.6g", name, rcond, condFactor, truth)
		return
	}
	// the estimator returns a lower bound of |inv A|, hence rcond >= truth up to rounding; record how loose it is.
	ck.t.Max("max_ratio_x1000:"+name+" est/true", int64(math.Ceil(1000*rcond/truth)))
}

func genLUSolve(g *vlib.G) {
	N := vlib.Pick(g, 12, 14)
	nbs := vlib.Pick(g, []int{1, 2, 3, 4}, []int{1, 2, 3, 4, 5})
	fams := generalFams(N, false)
	for n := 0; n <= N; n++ {
		for _, f := range fams {
			for _, nb := range nbs {
				n, f, nb := n, f, nb
				g.Case(fmt.Sprintf("LUsolve n=%d fam=%s nb=%d", n, f.name, nb), func(t *vlib.T) {
					defer seamOff()
					seamOn(nb, 0)
					ck := &checker{t: t}
					a := f.gen(n, n)
					if n >= 2 {
						t.Nontrivial()
					}
					lda := imax(1, n) + (nb % 2 * 3)
					fac := runGetrf(ck, "Dgetrf", a, lda, true)
					outcome := "ok"
					if !fac.ok {
						outcome = "singular"
					}
					facS := place(fac.lu, lda, nil)
					ainv, invOK := inverse(a)

					// Dgetrs / Dgesv
					if fac.ok {
						for _, tr := range []blas.Transpose{blas.NoTrans, blas.Trans, blas.ConjTrans} {
							for _, nrhs := range []int{0, 1, 3} {
								for _, ldb := range []int{imax(1, nrhs), imax(1, nrhs) + 3} {
									ck.ctx = fmt.Sprintf("trans=%s nrhs=%d ldb=%d", transName(tr), nrhs, ldb)
									x := xTrue(n, nrhs)
									op := opOf(a, tr)
									b := mul(op, x)
									bs := place(b, ldb, nil)
									ip := append([]int(nil), fac.ipiv...)
									impl.Dgetrs(tr, n, nrhs, facS.d, lda, ip, bs.d, ldb)
									facS.checkRO(ck, "Dgetrs a")
									if !intsSame(ip, fac.ipiv) {
										ck.failf("Dgetrs modified ipiv")
									}
									bs.checkOut(ck, "Dgetrs b")
									xh := bs.get()
									solveResid(ck, "Dgetrs", op, xh, b, n)
									if f.well && n > 0 && nrhs > 0 {
										if d := maxAbsDiff(xh, x); d > diffTol*normMax(x) {
											ck.failf("Dgetrs: forward error %.3g on a well-conditioned system", d)
										}
									}
									if tr == blas.NoTrans {
										as := place(a, lda, nil)
										bs2 := place(b, ldb, nil)
										ip2 := make([]int, n)
										ok := impl.Dgesv(n, nrhs, as.d, lda, ip2, bs2.d, ldb)
										if !ok {
											ck.failf("Dgesv: ok=false on a non-singular system")
										}
										as.checkOut(ck, "Dgesv a")
										bs2.checkOut(ck, "Dgesv b")
										solveResid(ck, "Dgesv", a, bs2.get(), b, n)
										if n > 0 && nrhs > 0 {
											// Dgesv is documented as Dgetrf followed by Dgetrs.
											if _, same := vlib.Same64(bs2.d, bs.d); !same {
												ck.failf("Dgesv result differs bitwise from Dgetrf+Dgetrs")
											}
											luOracle(ck, "Dgesv factors", a, as.get(), ip2, ok, 0)
										}
									}
								}
							}
						}
					} else {
						ck.ctx = "singular"
						x := xTrue(n, 1)
						b := mul(a, x)
						as := place(a, lda, nil)
						bs := place(b, 1, nil)
						ip := make([]int, n)
						if ok := impl.Dgesv(n, 1, as.d, lda, ip, bs.d, 1); ok {
							ck.failf("Dgesv: ok=true although Dgetrf reported a zero pivot")
						}
						as.checkOut(ck, "Dgesv a")
					}
					ck.ctx = ""

					// Dgetri: every lwork from the minimum to the optimum, and beyond.
					as := place(fac.lu, lda, nil)
					ipq := append([]int(nil), fac.ipiv...)
					query := workQuery(ck, "Dgetri", n, n == 0, func(work []float64) {
						impl.Dgetri(n, as.d, lda, ipq, work, -1)
					})
					as.checkRO(ck, "Dgetri query a")
					if !intsSame(ipq, fac.ipiv) {
						ck.failf("Dgetri query modified ipiv")
					}
					var refInv M
					paths := map[string]bool{}
					menu := lworkMenu(imax(1, n), query, imax(1, n), true)
					// run the optimum first: it is the reference of the differential check.
					menu = append([]int{query}, menu...)
					for k, lwork := range menu {
						ck.ctx = fmt.Sprintf("Dgetri lwork=%d", lwork)
						s := place(fac.lu, lda, nil)
						ip := append([]int(nil), fac.ipiv...)
						work := poisonVec(lwork)
						resetL3()
						ok := impl.Dgetri(n, s.d, lda, ip, work, lwork)
						if l3.gemm > 0 {
							paths["blocked"] = true
						} else {
							paths["unblocked"] = true
						}
						if ok != fac.ok {
							ck.failf("Dgetri ok=%v but Dgetrf ok=%v", ok, fac.ok)
						}
						if !intsSame(ip, fac.ipiv) {
							ck.failf("Dgetri modified ipiv")
						}
						if !ok {
							s.checkRO(ck, "Dgetri a (singular: no inversion may be performed)")
							continue
						}
						s.checkOut(ck, "Dgetri a")
						inv := s.get()
						if n > 0 {
							if hasNaN(inv) {
								ck.failf("NaN in inverse")
								continue
							}
							res := norm1(sub(mul(inv, a), eye(n))) // the left residual: the one Dgetri's method (X*L = inv(U)) bounds, as in LAPACK's dget03
							ck.ratio("Dgetri |inv*A-I|/(n eps |A||inv|)", res/(float64(n)*eps*norm1(a)*norm1(inv)))
						}
						if k == 0 {
							refInv = inv
						} else if f.well && wellLU(fac.lu, normMax(a)) {
							if d := maxAbsDiff(inv, refInv); d > diffTol*math.Max(normMax(refInv), 1) {
								ck.failf("inverse differs from the optimum-lwork result by %.3g", d)
							}
						}
					}
					ck.ctx = ""

					// Dgecon
					for _, nrm := range []lapack.MatrixNorm{lapack.MaxColumnSum, lapack.MaxRowSum} {
						if n == 0 {
							if rc := impl.Dgecon(nrm, 0, nil, 1, 0, nil, nil); rc != 1 {
								ck.failf("Dgecon n=0 returned %v, want 1", rc)
							}
							continue
						}
						anorm, ainvnorm := norm1(a), 0.0
						if nrm == lapack.MaxRowSum {
							anorm = normInf(a)
						}
						s := place(fac.lu, lda, nil)
						work := poisonVec(4 * n)
						iwork := make([]int, n)
						rc := impl.Dgecon(nrm, n, s.d, lda, anorm, work, iwork)
						s.checkRO(ck, "Dgecon a")
						name := "Dgecon-1"
						if nrm == lapack.MaxRowSum {
							name = "Dgecon-inf"
						}
						if !fac.ok {
							if rc != 0 {
								ck.failf("%s = %v for a factorization with an exactly zero pivot, want 0", name, rc)
							}
							continue
						}
						if !invOK {
							continue
						}
						if nrm == lapack.MaxRowSum {
							ainvnorm = normInf(ainv)
						} else {
							ainvnorm = norm1(ainv)
						}
						condCheck(ck, name, rc, anorm, ainvnorm)
					}
					var ps string
					for _, p := range []string{"blocked", "unblocked"} {
						if paths[p] {
							ps += "+" + p
						}
					}
					t.Outcome(outcome + "/getri" + ps)
				})
			}
		}
	}
}
