package main

import (
	"fmt"
	"math"

	"gonum.org/v1/gonum/blas"
	"gonum.org/v1/gonum/blas/blas64"
	bgonum "gonum.org/v1/gonum/blas/gonum"
	"gonum.org/v1/gonum/internal/verif/vhook"
	"gonum.org/v1/gonum/internal/verif/vlib"
	lgonum "gonum.org/v1/gonum/lapack/gonum"
)

var impl = lgonum.Implementation{}

const (
	// eps is the spacing of float64 at 1 (LAPACK's "ulp"); twice the unit roundoff.
	eps = 0x1p-52
	// thresh bounds every LAPACK-test style residual ratio. LAPACK's own test
	// programs accept ratios below 30 (with eps = 2^-53); genuine index/branch
	// errors give ratios of 1e10 and more. See NOTES.md "Thresholds".
	thresh = 100.0
	// diffTol bounds the relative difference between two runs of the same
	// factorization that differ only in block size / workspace / layout, for
	// inputs classified as well conditioned (see wellPosed). Forward error of
	// the factors is bounded by cond * n * eps <= 1e6 * 200 * 2.2e-16 < 1e-7.
	diffTol = 1e-7
	// condFactor is the factor within which a condition estimate must agree
	// with the explicit 1/(|A| |inv A|).
	condFactor = 10.0
)

// ---------------------------------------------------------------------------
// counting BLAS: level-3 calls are the evidence that blocked LAPACK code ran
// (the unblocked twins use level 1/2 only).

type countBLAS struct{ bgonum.Implementation }

var l3 struct{ gemm, trsm, trmm, syrk int }

func (c countBLAS) Dgemm(tA, tB blas.Transpose, m, n, k int, alpha float64, a []float64, lda int, b []float64, ldb int, beta float64, cc []float64, ldc int) {
	l3.gemm++
	c.Implementation.Dgemm(tA, tB, m, n, k, alpha, a, lda, b, ldb, beta, cc, ldc)
}
func (c countBLAS) Dtrsm(s blas.Side, ul blas.Uplo, tA blas.Transpose, d blas.Diag, m, n int, alpha float64, a []float64, lda int, b []float64, ldb int) {
	l3.trsm++
	c.Implementation.Dtrsm(s, ul, tA, d, m, n, alpha, a, lda, b, ldb)
}
func (c countBLAS) Dtrmm(s blas.Side, ul blas.Uplo, tA blas.Transpose, d blas.Diag, m, n int, alpha float64, a []float64, lda int, b []float64, ldb int) {
	l3.trmm++
	c.Implementation.Dtrmm(s, ul, tA, d, m, n, alpha, a, lda, b, ldb)
}
func (c countBLAS) Dsyrk(ul blas.Uplo, tA blas.Transpose, n, k int, alpha float64, a []float64, lda int, beta float64, cc []float64, ldc int) {
	l3.syrk++
	c.Implementation.Dsyrk(ul, tA, n, k, alpha, a, lda, beta, cc, ldc)
}

func installBLAS() { blas64.Use(countBLAS{}) }

func resetL3() { l3.gemm, l3.trsm, l3.trmm, l3.syrk = 0, 0, 0, 0 }
func nL3() int { return l3.gemm + l3.trsm + l3.trmm + l3.syrk }

// pathL3 classifies the code path of the call(s) made since resetL3.
func pathL3() string {
	if nL3() > 0 {
		return "blocked"
	}
	return "unblocked"
}

// ---------------------------------------------------------------------------
// Ilaenv seam

// seamOn makes Ilaenv answer nb (optimal block), 2 (minimum block) and nx (crossover).
func seamOn(nb, nx int) {
	vhook.IlaenvCalls = map[string]int{}
	vhook.IlaenvFunc = func(ispec int, name, opts string, n1, n2, n3, n4 int) (int, bool) {
		switch ispec {
		case 1:
			return nb, true
		case 2:
			return 2, true
		case 3:
			return nx, true
		}
		return 0, false
	}
}

// seamOff restores the stock tuning parameters.
func seamOff() {
	vhook.IlaenvFunc = nil
	vhook.IlaenvCalls = nil
}

// ---------------------------------------------------------------------------
// packed reference matrices (row major, stride = cols) and dumb linear algebra

type M struct {
	r, c int
	a    []float64
}

func newM(r, c int) M { return M{r, c, make([]float64, r*c)} }

func (m M) at(i, j int) float64     { return m.a[i*m.c+j] }
func (m M) set(i, j int, v float64) { m.a[i*m.c+j] = v }
func (m M) clone() M                { return M{m.r, m.c, append([]float64(nil), m.a...)} }

func eye(n int) M {
	m := newM(n, n)
	for i := 0; i < n; i++ {
		m.a[i*n+i] = 1
	}
	return m
}

func (m M) T() M {
	t := newM(m.c, m.r)
	for i := 0; i < m.r; i++ {
		for j := 0; j < m.c; j++ {
			t.a[j*m.r+i] = m.a[i*m.c+j]
		}
	}
	return t
}

// mul is the triple loop.
func mul(a, b M) M {
	if a.c != b.r {
		panic(fmt.Sprintf("harness: mul shape %dx%d * %dx%d", a.r, a.c, b.r, b.c))
	}
	c := newM(a.r, b.c)
	for i := 0; i < a.r; i++ {
		for l := 0; l < a.c; l++ {
			ail := a.a[i*a.c+l]
			if ail == 0 {
				continue
			}
			for j := 0; j < b.c; j++ {
				c.a[i*b.c+j] += ail * b.a[l*b.c+j]
			}
		}
	}
	return c
}

func sub(a, b M) M {
	if a.r != b.r || a.c != b.c {
		panic("harness: sub shape")
	}
	c := newM(a.r, a.c)
	for i := range a.a {
		c.a[i] = a.a[i] - b.a[i]
	}
	return c
}

func (m M) slice(r0, r1, c0, c1 int) M {
	s := newM(r1-r0, c1-c0)
	for i := r0; i < r1; i++ {
		for j := c0; j < c1; j++ {
			s.a[(i-r0)*s.c+(j-c0)] = m.a[i*m.c+j]
		}
	}
	return s
}

func norm1(m M) float64 {
	var v float64
	for j := 0; j < m.c; j++ {
		var s float64
		for i := 0; i < m.r; i++ {
			s += math.Abs(m.a[i*m.c+j])
		}
		if s > v || math.IsNaN(s) {
			v = s
		}
	}
	return v
}

func normInf(m M) float64 {
	var v float64
	for i := 0; i < m.r; i++ {
		var s float64
		for j := 0; j < m.c; j++ {
			s += math.Abs(m.a[i*m.c+j])
		}
		if s > v || math.IsNaN(s) {
			v = s
		}
	}
	return v
}

func normMax(m M) float64 {
	var v float64
	for _, x := range m.a {
		x = math.Abs(x)
		if x > v || math.IsNaN(x) {
			v = x
		}
	}
	return v
}

func normFro(m M) float64 {
	// scaled to avoid overflow
	mx := normMax(m)
	if mx == 0 || math.IsNaN(mx) || math.IsInf(mx, 0) {
		return mx
	}
	var s float64
	for _, x := range m.a {
		x /= mx
		s += x * x
	}
	return mx * math.Sqrt(s)
}

func hasNaN(m M) bool {
	for _, x := range m.a {
		if math.IsNaN(x) {
			return true
		}
	}
	return false
}

func anyNaN(s []float64) bool {
	for _, x := range s {
		if math.IsNaN(x) {
			return true
		}
	}
	return false
}

// maxAbsDiff returns max |a-b|.
func maxAbsDiff(a, b M) float64 {
	if a.r != b.r || a.c != b.c {
		return math.Inf(1)
	}
	var v float64
	for i := range a.a {
		d := math.Abs(a.a[i] - b.a[i])
		if d > v || math.IsNaN(d) {
			v = d
		}
	}
	return v
}

// inverse is Gauss-Jordan with partial pivoting in float64; ok=false if a pivot is zero.
func inverse(a M) (M, bool) {
	n := a.r
	w := a.clone()
	inv := eye(n)
	for k := 0; k < n; k++ {
		p := k
		for i := k + 1; i < n; i++ {
			if math.Abs(w.at(i, k)) > math.Abs(w.at(p, k)) {
				p = i
			}
		}
		if w.at(p, k) == 0 {
			return inv, false
		}
		if p != k {
			for j := 0; j < n; j++ {
				w.a[k*n+j], w.a[p*n+j] = w.a[p*n+j], w.a[k*n+j]
				inv.a[k*n+j], inv.a[p*n+j] = inv.a[p*n+j], inv.a[k*n+j]
			}
		}
		d := w.at(k, k)
		for j := 0; j < n; j++ {
			w.a[k*n+j] /= d
			inv.a[k*n+j] /= d
		}
		for i := 0; i < n; i++ {
			if i == k {
				continue
			}
			f := w.at(i, k)
			if f == 0 {
				continue
			}
			for j := 0; j < n; j++ {
				w.a[i*n+j] -= f * w.a[k*n+j]
				inv.a[i*n+j] -= f * inv.a[k*n+j]
			}
		}
	}
	return inv, true
}

// ---------------------------------------------------------------------------
// strided storage with poison

// slab is the storage handed to gonum: an r x c matrix with leading dimension
// ld and exactly the minimum length (r-1)*ld+c. Elements for which ref is
// false (stride padding, the other triangle, band corners) hold poison NaNs and
// must be neither read (a NaN would surface in a result) nor written.
type slab struct {
	d    []float64
	snap []float64
	ref  []bool
	r, c int
	ld   int
}

func slabLen(r, c, ld int) int {
	if r <= 0 || c < 0 {
		return 0
	}
	return (r-1)*ld + c
}

// place stores m with leading dimension ld. keep (may be nil = all) selects the referenced elements.
func place(m M, ld int, keep func(i, j int) bool) *slab {
	s := &slab{r: m.r, c: m.c, ld: ld}
	n := slabLen(m.r, m.c, ld)
	s.d = make([]float64, n)
	s.ref = make([]bool, n)
	for i := range s.d {
		s.d[i] = vlib.Poison64(i + 1)
	}
	for i := 0; i < m.r; i++ {
		for j := 0; j < m.c; j++ {
			if keep == nil || keep(i, j) {
				s.d[i*ld+j] = m.a[i*m.c+j]
				s.ref[i*ld+j] = true
			}
		}
	}
	s.snap = append([]float64(nil), s.d...)
	return s
}

// get extracts the r x c matrix (poison included where it was left).
func (s *slab) get() M {
	m := newM(s.r, s.c)
	for i := 0; i < s.r; i++ {
		for j := 0; j < s.c; j++ {
			m.a[i*s.c+j] = s.d[i*s.ld+j]
		}
	}
	return m
}

// getRef extracts the matrix with every unreferenced element replaced by zero.
func (s *slab) getRef() M {
	m := newM(s.r, s.c)
	for i := 0; i < s.r; i++ {
		for j := 0; j < s.c; j++ {
			if s.ref[i*s.ld+j] {
				m.a[i*s.c+j] = s.d[i*s.ld+j]
			}
		}
	}
	return m
}

// poisonIntact reports whether all unreferenced storage is bitwise unchanged.
func (s *slab) poisonIntact() (int, bool) {
	for i := range s.d {
		if !s.ref[i] && math.Float64bits(s.d[i]) != math.Float64bits(s.snap[i]) {
			return i, false
		}
	}
	return 0, true
}

// unchanged reports whether the whole storage is bitwise unchanged.
func (s *slab) unchanged() (int, bool) { return vlib.Same64(s.d, s.snap) }

// refHasNaN reports whether a referenced element is NaN (poison leaked into the result).
func (s *slab) refHasNaN() (int, bool) {
	for i := range s.d {
		if s.ref[i] && math.IsNaN(s.d[i]) {
			return i, true
		}
	}
	return 0, false
}

// checkOut performs the two poison checks on an output operand.
func (s *slab) checkOut(ck *checker, what string) {
	if i, ok := s.poisonIntact(); !ok {
		ck.failf("%s: unreferenced storage written at offset %d (row %d col %d, ld %d): %v -> %v", what, i, i/s.ld, i%s.ld, s.ld, vlib.B64(s.snap[i]), vlib.B64(s.d[i]))
	}
	if i, bad := s.refHasNaN(); bad {
		ck.failf("%s: NaN in result at row %d col %d (poison read from unreferenced storage?)", what, i/s.ld, i%s.ld)
	}
}

// checkRO checks a read-only operand.
func (s *slab) checkRO(ck *checker, what string) {
	if i, ok := s.unchanged(); !ok {
		ck.failf("%s: read-only operand modified at offset %d (row %d col %d): %v -> %v", what, i, i/s.ld, i%s.ld, vlib.B64(s.snap[i]), vlib.B64(s.d[i]))
	}
}

// vec is a poisoned workspace/vector of exact length.
func poisonVec(n int) []float64 {
	v := make([]float64, n)
	for i := range v {
		v[i] = vlib.Poison64(0x4000 + i)
	}
	return v
}

func keepUpper(i, j int) bool { return j >= i }
func keepLower(i, j int) bool { return j <= i }

func keepTri(uplo blas.Uplo, diag blas.Diag) func(i, j int) bool {
	return func(i, j int) bool {
		if i == j {
			return diag == blas.NonUnit
		}
		if uplo == blas.Upper {
			return j > i
		}
		return j < i
	}
}

func keepUplo(uplo blas.Uplo) func(i, j int) bool {
	if uplo == blas.Upper {
		return keepUpper
	}
	return keepLower
}

// ---------------------------------------------------------------------------
// checker: collects failures of one case with a context prefix

type checker struct {
	t     *vlib.T
	ctx   string
	class string
	// quietEmpty: this case is not the representative one (first family, smallest block size) of its shape; the
	// shape-only finding "query on an empty problem reports less than the minimum" is reported by the representative.
	quietEmpty bool
}

func (ck *checker) failf(format string, a ...any) {
	msg := fmt.Sprintf(format, a...)
	if ck.ctx != "" {
		msg = "[" + ck.ctx + "] " + msg
	}
	if ck.class != "" {
		ck.t.FailClass(ck.class, "%s", msg)
	} else {
		ck.t.Failf("%s", msg)
	}
}

// ratio records r under name (as a per-mille maximum in the evidence) and fails if it exceeds thresh.
func (ck *checker) ratio(name string, r float64) {
	ck.ratioT(name, r, thresh)
}

func (ck *checker) ratioT(name string, r, limit float64) {
	if math.IsNaN(r) || r > limit {
		ck.failf("%s ratio %.4g exceeds %.4g", name, r, limit)
		return
	}
	ck.t.Max("max_ratio_x1000:"+name, int64(math.Ceil(r*1000)))
}

// must recovers nothing: panics escape to vlib (class unexpected-panic).

// ---------------------------------------------------------------------------
// misc

func uploName(u blas.Uplo) string {
	if u == blas.Upper {
		return "U"
	}
	return "L"
}

func transName(tr blas.Transpose) string {
	switch tr {
	case blas.NoTrans:
		return "N"
	case blas.Trans:
		return "T"
	}
	return "C"
}

func sideName(s blas.Side) string {
	if s == blas.Left {
		return "L"
	}
	return "R"
}

func diagName(d blas.Diag) string {
	if d == blas.Unit {
		return "U"
	}
	return "N"
}

var uplos = []blas.Uplo{blas.Upper, blas.Lower}
var diags = []blas.Diag{blas.NonUnit, blas.Unit}
var transes = []blas.Transpose{blas.NoTrans, blas.Trans}
var sides = []blas.Side{blas.Left, blas.Right}

func imin(a, b int) int {
	if a < b {
		return a
	}
	return b
}
func imax(a, b int) int {
	if a > b {
		return a
	}
	return b
}

// ldPads are the (first, second) leading-dimension paddings of routines with two
// matrix arguments: packed, only one padded, and both padded differently.
var ldPads = [][2]int{{0, 0}, {3, 0}, {0, 2}, {3, 5}}

// uniq returns the sorted distinct values of s that satisfy v >= lo.
func uniq(lo int, s ...int) []int {
	var out []int
	for _, v := range s {
		if v < lo {
			continue
		}
		dup := false
		for _, o := range out {
			if o == v {
				dup = true
			}
		}
		if !dup {
			out = append(out, v)
		}
	}
	for i := 1; i < len(out); i++ {
		for j := i; j > 0 && out[j] < out[j-1]; j-- {
			out[j], out[j-1] = out[j-1], out[j]
		}
	}
	return out
}

// lworkMenu is {min..query} (every value) plus query+5 when full, else the
// values where lwork/unit changes (the block size derived from lwork) plus min, query, query+5.
func lworkMenu(min, query, unit int, full bool) []int {
	if query < min {
		query = min
	}
	if full {
		var s []int
		for l := min; l <= query; l++ {
			s = append(s, l)
		}
		return append(s, query+5)
	}
	s := []int{min, query, query + 5}
	if unit > 0 {
		for l := unit; l <= query; l += unit {
			s = append(s, l-1, l)
		}
	}
	var f []int
	for _, v := range s {
		if v >= min && v <= query+5 {
			f = append(f, v)
		}
	}
	return uniq(min, f...)
}

// catch runs f and returns the message of a panic escaping it ("" if none).
func catch(f func()) (msg string) {
	defer func() {
		if e := recover(); e != nil {
			msg = fmt.Sprint(e)
			if msg == "" {
				msg = "panic"
			}
		}
	}()
	f()
	return ""
}
