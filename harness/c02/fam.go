package main

import (
	"fmt"
	"math"
)

// The value alphabet of C02: deterministic matrix families. All entries are
// small integers (or small integers times powers of two), so that products
// A*X with integer X, 1/inf/max norms and the singularity structure are exact.

// h3 is a small integer in [-3,3] determined by (i,j,salt).
func h3(i, j, salt int) int {
	x := uint32(i+1)*73856093 ^ uint32(j+1)*19349663 ^ uint32(salt+1)*83492791
	x ^= x >> 13
	x *= 0x5bd1e995
	x ^= x >> 15
	return int(x%7) - 3
}

// fam is one general (rectangular) matrix family.
type fam struct {
	name string
	gen  func(m, n int) M
	// rankDef: the leading min(m,n) columns are linearly dependent by
	// construction and elimination meets an exactly zero pivot whatever the
	// order of exact operations (see NOTES.md "singular families").
	exactSingular func(m, n int) bool
	// well: factors of two runs may be compared entry-wise (well conditioned).
	well bool
}

func never(m, n int) bool { return false }

// wellQR: the Householder factorization is a continuous function of the input
// near this family, so that two runs may be compared entry-wise. Excluded are
// the +-1 Hadamard-like matrices: their columns are orthogonal, the pivot
// element alpha of later reflectors is pure rounding noise and its sign, which
// Dlarfg copies into beta, legitimately differs between summation orders.
func (f fam) wellQR() bool { return f.well && f.name != "had" }

func genDD(salt int) func(m, n int) M {
	return func(m, n int) M {
		a := newM(m, n)
		for i := 0; i < m; i++ {
			s := 0
			for j := 0; j < n; j++ {
				v := h3(i, j, salt)
				a.a[i*n+j] = float64(v)
				if v < 0 {
					v = -v
				}
				s += v
			}
			if i < n {
				sg := 1.0
				if (i+salt)%3 == 0 {
					sg = -1
				}
				a.a[i*n+i] = sg * float64(s+1)
			}
		}
		// make columns dominant too for tall matrices: add to the diagonal the column sums
		for j := 0; j < imin(m, n); j++ {
			s := 0.0
			for i := 0; i < m; i++ {
				if i != j {
					s += math.Abs(a.a[i*n+j])
				}
			}
			d := a.a[j*n+j]
			if math.Abs(d) <= s {
				a.a[j*n+j] = math.Copysign(s+1, d)
			}
		}
		return a
	}
}

func genHad(m, n int) M {
	a := newM(m, n)
	for i := 0; i < m; i++ {
		for j := 0; j < n; j++ {
			x := uint(i & j)
			p := 0
			for ; x != 0; x &= x - 1 {
				p++
			}
			v := 1.0
			if p%2 == 1 {
				v = -1
			}
			a.a[i*n+j] = v
		}
	}
	return a
}

func genGraded(m, n int) M {
	a := genDD(1)(m, n)
	for i := 0; i < m; i++ {
		e := i % 13
		if i%2 == 1 {
			e = -e
		}
		s := math.Ldexp(1, e)
		for j := 0; j < n; j++ {
			a.a[i*n+j] *= s
		}
	}
	return a
}

func genColGraded(m, n int) M {
	a := genDD(2)(m, n)
	for j := 0; j < n; j++ {
		e := j % 13
		if j%2 == 0 {
			e = -e
		}
		s := math.Ldexp(1, e)
		for i := 0; i < m; i++ {
			a.a[i*n+j] *= s
		}
	}
	return a
}

func genId(m, n int) M {
	a := newM(m, n)
	for i := 0; i < imin(m, n); i++ {
		a.a[i*n+i] = 1
	}
	return a
}

func genZero(m, n int) M { return newM(m, n) }

// genRank1 is u*v^T with u in {+-1,+-2} (so that multipliers are dyadic and the
// Schur complement is exactly zero) and v small non-zero integers.
func genRank1(m, n int) M {
	a := newM(m, n)
	for i := 0; i < m; i++ {
		u := float64([]int{1, -2, 2, -1}[(i*3+1)%4])
		for j := 0; j < n; j++ {
			v := float64(1 + (j*5)%3) // v[0] = 1: the first pivot is +-2, a power of two
			if j%2 == 1 {
				v = -v
			}
			a.a[i*n+j] = u * v
		}
	}
	return a
}

// genDupRow: diagonally dominant with row r2 overwritten by row r1.
func genDupRow(m, n int) M {
	a := genDD(3)(m, n)
	if m < 2 {
		return a
	}
	r1, r2 := (m-1)/2, m-1
	if r1 == r2 {
		r1 = 0
	}
	copy(a.a[r2*n:r2*n+n], a.a[r1*n:r1*n+n])
	return a
}

func genZeroCol(j0 int) func(m, n int) M {
	return func(m, n int) M {
		a := genDD(4)(m, n)
		if j0 < n {
			for i := 0; i < m; i++ {
				a.a[i*n+j0] = 0
			}
		}
		return a
	}
}

// genSparse is a 0/+-1 matrix with about two non-zeros per column; Householder
// vectors of such matrices have trailing zeros (the lastv logic of Dlarf/Dlarft/Dlarfb).
func genSparse(salt int) func(m, n int) M {
	return func(m, n int) M {
		a := newM(m, n)
		if m == 0 {
			return a
		}
		for j := 0; j < n; j++ {
			i1 := (j*5 + 3 + salt) % m
			i2 := (j*j + 2*j + salt*3) % m
			a.a[i1*n+j] = 1
			if i2 != i1 {
				a.a[i2*n+j] = -1
			}
			if (j+salt)%3 == 0 && j < m {
				a.a[j*n+j] += 2
			}
		}
		return a
	}
}

// genSignMix: checkerboard signs, magnitudes 1..3, dominant diagonal of alternating sign.
func genSignMix(m, n int) M {
	a := newM(m, n)
	for i := 0; i < m; i++ {
		s := 0.0
		for j := 0; j < n; j++ {
			v := float64(1 + (h3(i, j, 30)+3)%3)
			if (i+j)%2 == 1 {
				v = -v
			}
			a.a[i*n+j] = v
			s += math.Abs(v)
		}
		if i < n {
			d := s + 1
			if i%2 == 1 {
				d = -d
			}
			a.a[i*n+i] = d
		}
	}
	for j := 0; j < imin(m, n); j++ {
		s := 0.0
		for i := 0; i < m; i++ {
			if i != j {
				s += math.Abs(a.a[i*n+j])
			}
		}
		if d := a.a[j*n+j]; math.Abs(d) <= s {
			a.a[j*n+j] = math.Copysign(s+1, d)
		}
	}
	return a
}

// genCluster: columns come in clusters of three that agree up to 2^-16: column
// j is column 3*(j/3) of a diagonally dominant matrix plus a small dyadic
// perturbation (nearly dependent columns, condition about 2^16).
func genCluster(m, n int) M {
	base := genDD(6)(m, n)
	a := newM(m, n)
	for j := 0; j < n; j++ {
		g := j / 3 * 3
		for i := 0; i < m; i++ {
			a.a[i*n+j] = base.a[i*n+g]
			if j != g {
				a.a[i*n+j] += math.Ldexp(float64(h3(i, j, 31)), -16)
			}
		}
	}
	return a
}

// generalFams returns the families for general rectangular matrices; zero-column
// families are produced for every column index below maxn when allZeroCols is
// set, else for the first, a middle and the last column.
func generalFams(maxn int, allZeroCols bool) []fam {
	fs := []fam{
		{"dd", genDD(0), never, true},
		{"had", genHad, never, true},
		{"rowgraded", genGraded, never, false},
		{"colgraded", genColGraded, never, false},
		{"id", genId, never, true},
		{"zero", genZero, func(m, n int) bool { return imin(m, n) > 0 }, false},
		{"rank1", genRank1, func(m, n int) bool { return imin(m, n) > 1 }, false},
		// duprow is singular, but not "exactly" for a floating-point elimination: the multiplier of the
		// duplicate is a*(1/a), which need not be 1 (Dgetf2 scales by the reciprocal), so ok may be true.
		{"duprow", genDupRow, never, false},
		{"sparse", genSparse(0), never, false},
		{"signmix", genSignMix, never, true},
		{"cluster", genCluster, never, false},
	}
	var cols []int
	if allZeroCols {
		for j := 0; j < maxn; j++ {
			cols = append(cols, j)
		}
	} else {
		cols = uniq(0, 0, maxn/2, maxn-1)
	}
	for _, j := range cols {
		j := j
		fs = append(fs, fam{fmt.Sprintf("zerocol%d", j), genZeroCol(j), func(m, n int) bool { return j < imin(m, n) }, false})
	}
	return fs
}

// pickFams selects families by name.
func pickFams(all []fam, names ...string) []fam {
	var out []fam
	for _, n := range names {
		for _, f := range all {
			if f.name == n {
				out = append(out, f)
			}
		}
	}
	return out
}

// ---------------------------------------------------------------------------
// symmetric families

type sfam struct {
	name string
	gen  func(n int) M
	// pd: positive definite with a safe margin (Cholesky must succeed).
	pd bool
	// notPD: Cholesky must fail: a diagonal entry is <= -1 or a 2x2 principal minor is <= -8.
	notPD func(n int) bool
	well  bool
}

// genSPD is B^T*B + n*I with B small integers.
func genSPD(salt int) func(n int) M {
	return func(n int) M {
		b := newM(n, n)
		for i := 0; i < n; i++ {
			for j := 0; j < n; j++ {
				b.a[i*n+j] = float64(h3(i, j, 10+salt))
			}
		}
		a := mul(b.T(), b)
		for i := 0; i < n; i++ {
			a.a[i*n+i] += float64(n)
		}
		return a
	}
}

func genSPDGraded(n int) M {
	a := genSPD(1)(n)
	for i := 0; i < n; i++ {
		for j := 0; j < n; j++ {
			ei, ej := i%9, j%9
			if i%2 == 1 {
				ei = -ei
			}
			if j%2 == 1 {
				ej = -ej
			}
			a.a[i*n+j] = math.Ldexp(a.a[i*n+j], ei+ej)
		}
	}
	return a
}

func genTridiag21(n int) M {
	a := newM(n, n)
	for i := 0; i < n; i++ {
		a.a[i*n+i] = 2
		if i+1 < n {
			a.a[i*n+i+1] = -1
			a.a[(i+1)*n+i] = -1
		}
	}
	return a
}

// genNegDiag: SPD with the k-th diagonal entry replaced by -1.
func genNegDiag(k int) func(n int) M {
	return func(n int) M {
		a := genSPD(2)(n)
		if k < n {
			a.a[k*n+k] = -1
		}
		return a
	}
}

// genBigOff: identity plus 3 in positions (p,q),(q,p): eigenvalues 1+-3.
func genBigOff(n int) M {
	a := eye(n)
	if n >= 2 {
		p, q := (n-1)/2, n-1
		if p == q {
			p = 0
		}
		a.a[p*n+q] = 3
		a.a[q*n+p] = 3
	}
	return a
}

// genPSDRank builds B^T*B with B r x n small integers with a dyadic structure:
// exactly rank min(r,n) positive semidefinite.
func genPSDRank1(n int) M {
	v := newM(1, n)
	for j := 0; j < n; j++ {
		v.a[j] = float64([]int{2, -1, 1, -2, 4}[(j*2+1)%5])
	}
	return mul(v.T(), v)
}

// ldlFactors returns a unit upper triangular integer R with bandwidth kd and a positive integer diagonal D.
func ldlFactors(n, kd int) (r M, d []float64) {
	r = eye(n)
	d = make([]float64, n)
	for i := 0; i < n; i++ {
		d[i] = float64(2 + i%2)
		for j := i + 1; j < n && j <= i+kd; j++ {
			r.a[i*n+j] = float64(h3(i, j, 40) % 2) // -1, 0, 1
		}
	}
	return r, d
}

func rtdr(r M, d []float64) M {
	n := r.r
	dm := newM(n, n)
	for i := range d {
		dm.a[i*n+i] = d[i]
	}
	return mul(mul(r.T(), dm), r)
}

// genLDLNeg: A = R^T*D*R with unit triangular integer R and D positive except
// D[k] = -1: all leading minors up to order k are positive, the k-th pivot of
// the Cholesky factorization is -1 (the diagonal entry a_kk itself is usually positive).
func genLDLNeg(k, kd int) func(n int) M {
	return func(n int) M {
		r, d := ldlFactors(n, imin(kd, imax(0, n-1)))
		if k < n {
			d[k] = -1
		}
		return rtdr(r, d)
	}
}

// genZeroPiv: identity with the 2x2 block [1 1; 1 1] at rows k-1, k: the k-th pivot is exactly 1 - 1*1 = 0.
func genZeroPiv(k int) func(n int) M {
	return func(n int) M {
		a := eye(n)
		if k >= 1 && k < n {
			a.a[(k-1)*n+k] = 1
			a.a[k*n+k-1] = 1
		}
		return a
	}
}

func symFams(maxn int, allNeg bool) []sfam {
	fs := []sfam{
		{"spd", genSPD(0), true, nil, true},
		{"spdgraded", genSPDGraded, true, nil, false},
		{"id", func(n int) M { return eye(n) }, true, nil, true},
		{"tri21", genTridiag21, true, nil, true},
		{"zero", func(n int) M { return newM(n, n) }, false, func(n int) bool { return n > 0 }, false},
		{"psd1", genPSDRank1, false, nil, false},
		{"bigoff", genBigOff, false, func(n int) bool { return n >= 2 }, false},
	}
	var ks []int
	if allNeg {
		for k := 0; k < maxn; k++ {
			ks = append(ks, k)
		}
	} else {
		ks = uniq(0, 0, maxn/2, maxn-1)
	}
	for _, k := range ks {
		k := k
		fs = append(fs, sfam{fmt.Sprintf("negdiag%d", k), genNegDiag(k), false, func(n int) bool { return k < n }, false})
		fs = append(fs, sfam{fmt.Sprintf("ldlneg%d", k), genLDLNeg(k, 2), false, func(n int) bool { return k < n }, false})
		if k >= 1 {
			fs = append(fs, sfam{fmt.Sprintf("zeropiv%d", k), genZeroPiv(k), false, func(n int) bool { return k < n }, false})
		}
	}
	return fs
}

// posFam reports whether the family is one of the per-position families (name + index) and its index.
func posFam(name string) (int, bool) {
	for _, p := range []string{"negdiag", "ldlneg", "zeropiv", "zerocol", "zerodiag"} {
		if len(name) > len(p) && name[:len(p)] == p {
			var k int
			if _, err := fmt.Sscanf(name[len(p):], "%d", &k); err == nil {
				return k, true
			}
		}
	}
	return 0, false
}

func pickSFams(all []sfam, names ...string) []sfam {
	var out []sfam
	for _, n := range names {
		for _, f := range all {
			if f.name == n {
				out = append(out, f)
			}
		}
	}
	return out
}

// xTrue is the integer solution used to construct right-hand sides.
func xTrue(n, nrhs int) M {
	x := newM(n, nrhs)
	for i := 0; i < n; i++ {
		for j := 0; j < nrhs; j++ {
			v := h3(i, j, 77)
			if v == 0 {
				v = 2
			}
			x.a[i*nrhs+j] = float64(v)
		}
	}
	return x
}
