package main

import (
	"math/cmplx"

	"gonum.org/v1/gonum/internal/asm/c128"
	"gonum.org/v1/gonum/internal/asm/c64"
)

// Tables of the complex-valued kernels: one entry per exported function of
// internal/asm/c128 and internal/asm/c64.

type kz = kop[complex128]
type cz = kcall[complex128]

func conj64(c complex64) complex64 { return complex(real(c), -imag(c)) }

// refDotc is sum += y[i] * conj(x[i]).
func refDotc[T num](conj func(T) T) func(c *kcall[T]) {
	return func(c *kcall[T]) {
		x, y := c.v[0], c.v[1]
		var sum T
		for i, v := range x {
			sum += y[i] * conj(v)
		}
		c.res = toC(sum)
	}
}

func refDotcInc[T num](conj func(T) T) func(c *kcall[T]) {
	return func(c *kcall[T]) {
		x, y := c.v[0], c.v[1]
		ix, iy := c.idx[0], c.idx[1]
		var sum T
		for i := 0; i < c.n; i++ {
			sum += y[iy] * conj(x[ix])
			ix += c.inc[0]
			iy += c.inc[1]
		}
		c.res = toC(sum)
	}
}

// refDotConj is sum += conj(x[i]) * y[i] (the DotUnitary of the complex packages).
func refDotConj[T num](conj func(T) T) func(c *kcall[T]) {
	return func(c *kcall[T]) {
		x, y := c.v[0], c.v[1]
		var sum T
		for i, v := range x {
			sum += conj(v) * y[i]
		}
		c.res = toC(sum)
	}
}

func c128Table() []*kz {
	const eps = 0x1p-52
	return []*kz{
		{name: "c128.AxpyUnitary", nv: 2, wr: 1, alpha: 1, fill: fk(fInt, fInt),
			run: func(c *cz) { c128.AxpyUnitary(c.alpha, c.v[0], c.v[1]) }, ref: refAxpyUnitary[complex128]},
		{name: "c128.AxpyUnitaryTo", nv: 3, wr: 0, alias: []int{1, 2}, alpha: 1, fill: fk(fNone, fInt, fInt),
			run: func(c *cz) { c128.AxpyUnitaryTo(c.v[0], c.alpha, c.v[1], c.v[2]) }, ref: refAxpyUnitaryTo[complex128]},
		{name: "c128.AxpyInc", nv: 2, wr: 1, alpha: 1, fill: fk(fInt, fInt), ninc: 2, hasIx: true, incOf: io(0, 1),
			run: func(c *cz) {
				c128.AxpyInc(c.alpha, c.v[0], c.v[1], u(c.n), u(c.inc[0]), u(c.inc[1]), u(c.idx[0]), u(c.idx[1]))
			}, ref: refAxpyInc[complex128]},
		{name: "c128.AxpyIncTo", nv: 3, wr: 0, alias: []int{1, 2}, alpha: 1, fill: fk(fNone, fInt, fInt), ninc: 3, hasIx: true, incOf: io(0, 1, 2),
			run: func(c *cz) {
				c128.AxpyIncTo(c.v[0], u(c.inc[0]), u(c.idx[0]), c.alpha, c.v[1], c.v[2], u(c.n), u(c.inc[1]), u(c.inc[2]), u(c.idx[1]), u(c.idx[2]))
			}, ref: refAxpyIncTo[complex128]},
		{name: "c128.ScalUnitary", nv: 1, wr: 0, alpha: 1, fill: fk(fInt),
			run: func(c *cz) { c128.ScalUnitary(c.alpha, c.v[0]) }, ref: refScalUnitary[complex128]},
		{name: "c128.ScalUnitaryTo", nv: 2, wr: 0, alias: []int{1}, alpha: 1, fill: fk(fNone, fInt),
			run: func(c *cz) { c128.ScalUnitaryTo(c.v[0], c.alpha, c.v[1]) }, ref: refScalUnitaryTo[complex128]},
		{name: "c128.ScalInc", nv: 1, wr: 0, alpha: 1, fill: fk(fInt), ninc: 1, incOf: io(0),
			run: func(c *cz) { c128.ScalInc(c.alpha, c.v[0], u(c.n), u(c.inc[0])) }, ref: refScalInc[complex128]},
		{name: "c128.ScalIncTo", nv: 2, wr: 0, alias: []int{1}, alpha: 1, fill: fk(fNone, fInt), ninc: 2, incOf: io(0, 1),
			run: func(c *cz) { c128.ScalIncTo(c.v[0], u(c.inc[0]), c.alpha, c.v[1], u(c.n), u(c.inc[1])) }, ref: refScalIncTo[complex128]},
		{name: "c128.DscalUnitary", nv: 1, wr: 0, alpha: 2, fill: fk(fInt),
			run: func(c *cz) { c128.DscalUnitary(real(c.alpha), c.v[0]) },
			ref: func(c *cz) {
				a := real(c.alpha)
				for i, v := range c.v[0] {
					c.v[0][i] = complex(real(v)*a, imag(v)*a)
				}
			}},
		{name: "c128.DscalInc", nv: 1, wr: 0, alpha: 2, fill: fk(fInt), ninc: 1, incOf: io(0),
			run: func(c *cz) { c128.DscalInc(real(c.alpha), c.v[0], u(c.n), u(c.inc[0])) },
			ref: func(c *cz) {
				a := real(c.alpha)
				x := c.v[0]
				ix := 0
				for i := 0; i < c.n; i++ {
					x[ix] = complex(real(x[ix])*a, imag(x[ix])*a)
					ix += c.inc[0]
				}
			}},
		{name: "c128.DotcUnitary", nv: 2, wr: -1, fill: fk(fInt, fInt), red: true,
			run: func(c *cz) { c.res = c128.DotcUnitary(c.v[0], c.v[1]) }, ref: refDotc(cmplx.Conj)},
		{name: "c128.DotcInc", nv: 2, wr: -1, fill: fk(fInt, fInt), ninc: 2, hasIx: true, incOf: io(0, 1), red: true,
			run: func(c *cz) {
				c.res = c128.DotcInc(c.v[0], c.v[1], u(c.n), u(c.inc[0]), u(c.inc[1]), u(c.idx[0]), u(c.idx[1]))
			}, ref: refDotcInc(cmplx.Conj)},
		{name: "c128.DotuUnitary", nv: 2, wr: -1, fill: fk(fInt, fInt), red: true,
			run: func(c *cz) { c.res = c128.DotuUnitary(c.v[0], c.v[1]) }, ref: refDotUnitary[complex128]},
		{name: "c128.DotuInc", nv: 2, wr: -1, fill: fk(fInt, fInt), ninc: 2, hasIx: true, incOf: io(0, 1), red: true,
			run: func(c *cz) {
				c.res = c128.DotuInc(c.v[0], c.v[1], u(c.n), u(c.inc[0]), u(c.inc[1]), u(c.idx[0]), u(c.idx[1]))
			}, ref: refDotInc[complex128]},
		{name: "c128.DotUnitary", nv: 2, wr: -1, fill: fk(fInt, fInt), red: true,
			run: func(c *cz) { c.res = c128.DotUnitary(c.v[0], c.v[1]) }, ref: refDotConj(cmplx.Conj)},
		{name: "c128.Add", nv: 2, wr: 0, alias: []int{1}, fill: fk(fInt, fInt),
			run: func(c *cz) { c128.Add(c.v[0], c.v[1]) }, ref: refAdd[complex128]},
		{name: "c128.AddConst", nv: 1, wr: 0, alpha: 1, fill: fk(fInt),
			run: func(c *cz) { c128.AddConst(c.alpha, c.v[0]) }, ref: refAddConst[complex128]},
		{name: "c128.CumSum", nv: 2, wr: 0, alias: []int{1}, fill: fk(fNone, fInt), rets: true,
			run: func(c *cz) { c.ret = c128.CumSum(c.v[0], c.v[1]) }, ref: refCumSum[complex128]},
		{name: "c128.CumProd", nv: 2, wr: 0, alias: []int{1}, fill: fk(fNone, fPow2), rets: true,
			run: func(c *cz) { c.ret = c128.CumProd(c.v[0], c.v[1]) }, ref: refCumProd[complex128]},
		{name: "c128.Div", nv: 2, wr: 0, alias: []int{1}, fill: fk(fInt, fDiv),
			run: func(c *cz) { c128.Div(c.v[0], c.v[1]) }, ref: refDiv[complex128]},
		{name: "c128.DivTo", nv: 3, wr: 0, alias: []int{1, 2}, fill: fk(fNone, fInt, fDiv), rets: true,
			run: func(c *cz) { c.ret = c128.DivTo(c.v[0], c.v[1], c.v[2]) }, ref: refDivTo[complex128]},
		{name: "c128.Sum", nv: 1, wr: -1, fill: fk(fInt), red: true,
			run: func(c *cz) { c.res = c128.Sum(c.v[0]) }, ref: refSum[complex128]},
		{name: "c128.L2NormUnitary", nv: 1, wr: -1, fill: fk(fInt), red: true, sred: 2, tol: 2 * eps,
			run: func(c *cz) { c.res = complex(c128.L2NormUnitary(c.v[0]), 0) }, ref: refL2[complex128]},
		{name: "c128.L2DistanceUnitary", nv: 2, wr: -1, fill: fk(fInt, fInt), red: true, sred: 2, tol: 2 * eps,
			run: func(c *cz) { c.res = complex(c128.L2DistanceUnitary(c.v[0], c.v[1]), 0) }, ref: refL2Dist[complex128]},
	}
}

type kq = kop[complex64]
type cq = kcall[complex64]

func c64Table() []*kq {
	const eps = 0x1p-23
	w := func(v complex64) complex128 { return complex128(v) }
	r := func(v float32) complex128 { return complex(float64(v), 0) }
	return []*kq{
		{name: "c64.AxpyUnitary", nv: 2, wr: 1, alpha: 1, fill: fk(fInt, fInt),
			run: func(c *cq) { c64.AxpyUnitary(c.alpha, c.v[0], c.v[1]) }, ref: refAxpyUnitary[complex64]},
		{name: "c64.AxpyUnitaryTo", nv: 3, wr: 0, alias: []int{1, 2}, alpha: 1, fill: fk(fNone, fInt, fInt),
			run: func(c *cq) { c64.AxpyUnitaryTo(c.v[0], c.alpha, c.v[1], c.v[2]) }, ref: refAxpyUnitaryTo[complex64]},
		{name: "c64.AxpyInc", nv: 2, wr: 1, alpha: 1, fill: fk(fInt, fInt), ninc: 2, hasIx: true, incOf: io(0, 1),
			run: func(c *cq) {
				c64.AxpyInc(c.alpha, c.v[0], c.v[1], u(c.n), u(c.inc[0]), u(c.inc[1]), u(c.idx[0]), u(c.idx[1]))
			}, ref: refAxpyInc[complex64]},
		{name: "c64.AxpyIncTo", nv: 3, wr: 0, alias: []int{1, 2}, alpha: 1, fill: fk(fNone, fInt, fInt), ninc: 3, hasIx: true, incOf: io(0, 1, 2),
			run: func(c *cq) {
				c64.AxpyIncTo(c.v[0], u(c.inc[0]), u(c.idx[0]), c.alpha, c.v[1], c.v[2], u(c.n), u(c.inc[1]), u(c.inc[2]), u(c.idx[1]), u(c.idx[2]))
			}, ref: refAxpyIncTo[complex64]},
		{name: "c64.ScalUnitary", nv: 1, wr: 0, alpha: 1, fill: fk(fInt),
			run: func(c *cq) { c64.ScalUnitary(c.alpha, c.v[0]) }, ref: refScalUnitary[complex64]},
		{name: "c64.ScalUnitaryTo", nv: 2, wr: 0, alias: []int{1}, alpha: 1, fill: fk(fNone, fInt),
			run: func(c *cq) { c64.ScalUnitaryTo(c.v[0], c.alpha, c.v[1]) }, ref: refScalUnitaryTo[complex64]},
		{name: "c64.ScalInc", nv: 1, wr: 0, alpha: 1, fill: fk(fInt), ninc: 1, incOf: io(0),
			run: func(c *cq) { c64.ScalInc(c.alpha, c.v[0], u(c.n), u(c.inc[0])) }, ref: refScalInc[complex64]},
		{name: "c64.ScalIncTo", nv: 2, wr: 0, alias: []int{1}, alpha: 1, fill: fk(fNone, fInt), ninc: 2, incOf: io(0, 1),
			run: func(c *cq) { c64.ScalIncTo(c.v[0], u(c.inc[0]), c.alpha, c.v[1], u(c.n), u(c.inc[1])) }, ref: refScalIncTo[complex64]},
		{name: "c64.SscalUnitary", nv: 1, wr: 0, alpha: 2, fill: fk(fInt),
			run: func(c *cq) { c64.SscalUnitary(real(c.alpha), c.v[0]) },
			ref: func(c *cq) {
				a := real(c.alpha)
				for i, v := range c.v[0] {
					c.v[0][i] = complex(real(v)*a, imag(v)*a)
				}
			}},
		{name: "c64.SscalInc", nv: 1, wr: 0, alpha: 2, fill: fk(fInt), ninc: 1, incOf: io(0),
			run: func(c *cq) { c64.SscalInc(real(c.alpha), c.v[0], u(c.n), u(c.inc[0])) },
			ref: func(c *cq) {
				a := real(c.alpha)
				x := c.v[0]
				ix := 0
				for i := 0; i < c.n; i++ {
					x[ix] = complex(real(x[ix])*a, imag(x[ix])*a)
					ix += c.inc[0]
				}
			}},
		{name: "c64.DotcUnitary", nv: 2, wr: -1, fill: fk(fInt, fInt), red: true,
			run: func(c *cq) { c.res = w(c64.DotcUnitary(c.v[0], c.v[1])) }, ref: refDotc(conj64)},
		{name: "c64.DotcInc", nv: 2, wr: -1, fill: fk(fInt, fInt), ninc: 2, hasIx: true, incOf: io(0, 1), red: true,
			run: func(c *cq) {
				c.res = w(c64.DotcInc(c.v[0], c.v[1], u(c.n), u(c.inc[0]), u(c.inc[1]), u(c.idx[0]), u(c.idx[1])))
			}, ref: refDotcInc(conj64)},
		{name: "c64.DotuUnitary", nv: 2, wr: -1, fill: fk(fInt, fInt), red: true,
			run: func(c *cq) { c.res = w(c64.DotuUnitary(c.v[0], c.v[1])) }, ref: refDotUnitary[complex64]},
		{name: "c64.DotuInc", nv: 2, wr: -1, fill: fk(fInt, fInt), ninc: 2, hasIx: true, incOf: io(0, 1), red: true,
			run: func(c *cq) {
				c.res = w(c64.DotuInc(c.v[0], c.v[1], u(c.n), u(c.inc[0]), u(c.inc[1]), u(c.idx[0]), u(c.idx[1])))
			}, ref: refDotInc[complex64]},
		{name: "c64.DotUnitary", nv: 2, wr: -1, fill: fk(fInt, fInt), red: true,
			run: func(c *cq) { c.res = w(c64.DotUnitary(c.v[0], c.v[1])) }, ref: refDotConj(conj64)},
		{name: "c64.Add", nv: 2, wr: 0, alias: []int{1}, fill: fk(fInt, fInt),
			run: func(c *cq) { c64.Add(c.v[0], c.v[1]) }, ref: refAdd[complex64]},
		{name: "c64.AddConst", nv: 1, wr: 0, alpha: 1, fill: fk(fInt),
			run: func(c *cq) { c64.AddConst(c.alpha, c.v[0]) }, ref: refAddConst[complex64]},
		{name: "c64.CumSum", nv: 2, wr: 0, alias: []int{1}, fill: fk(fNone, fInt), rets: true,
			run: func(c *cq) { c.ret = c64.CumSum(c.v[0], c.v[1]) }, ref: refCumSum[complex64]},
		{name: "c64.CumProd", nv: 2, wr: 0, alias: []int{1}, fill: fk(fNone, fPow2), rets: true,
			run: func(c *cq) { c.ret = c64.CumProd(c.v[0], c.v[1]) }, ref: refCumProd[complex64]},
		{name: "c64.Div", nv: 2, wr: 0, alias: []int{1}, fill: fk(fInt, fDiv),
			run: func(c *cq) { c64.Div(c.v[0], c.v[1]) }, ref: refDiv[complex64]},
		{name: "c64.DivTo", nv: 3, wr: 0, alias: []int{1, 2}, fill: fk(fNone, fInt, fDiv), rets: true,
			run: func(c *cq) { c.ret = c64.DivTo(c.v[0], c.v[1], c.v[2]) }, ref: refDivTo[complex64]},
		{name: "c64.Sum", nv: 1, wr: -1, fill: fk(fInt), red: true,
			run: func(c *cq) { c.res = w(c64.Sum(c.v[0])) }, ref: refSum[complex64]},
		{name: "c64.L2NormUnitary", nv: 1, wr: -1, fill: fk(fInt), red: true, sred: 2, tol: 2 * eps,
			run: func(c *cq) { c.res = r(c64.L2NormUnitary(c.v[0])) }, ref: refL2[complex64]},
		{name: "c64.L2DistanceUnitary", nv: 2, wr: -1, fill: fk(fInt, fInt), red: true, sred: 2, tol: 2 * eps,
			run: func(c *cq) { c.res = r(c64.L2DistanceUnitary(c.v[0], c.v[1])) }, ref: refL2Dist[complex64]},
	}
}
