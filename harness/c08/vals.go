package main

import (
	"math"
	"math/big"
)

// mk builds a T from a real and an imaginary part (the latter is ignored by
// the real types).
func mk[T num](re, im float64) T {
	var z T
	switch p := any(&z).(type) {
	case *float64:
		*p = re
	case *float32:
		*p = float32(re)
	case *complex128:
		*p = complex(re, im)
	case *complex64:
		*p = complex(float32(re), float32(im))
	}
	return z
}

// toC widens a T to complex128 (exactly).
func toC[T num](v T) complex128 {
	switch x := any(v).(type) {
	case float64:
		return complex(x, 0)
	case float32:
		return complex(float64(x), 0)
	case complex128:
		return x
	case complex64:
		return complex128(x)
	}
	panic("unreachable")
}

func isCplx[T num]() bool {
	var z T
	switch any(z).(type) {
	case complex64, complex128:
		return true
	}
	return false
}

func typeName[T num]() string {
	var z T
	switch any(z).(type) {
	case float64:
		return "f64"
	case float32:
		return "f32"
	case complex128:
		return "c128"
	}
	return "c64"
}

// Fill kinds of the exact value class. Every operation built from these
// alphabets is exact in float32 and float64 in any association order for the
// lengths used, so results are compared bit for bit.
type fillKind int

const (
	fInt  fillKind = iota // integers in [-3,3] (complex: both parts)
	fDiv                  // divisors ±1, ±2, ±1/2, ±4 (complex: times 1 or i)
	fPow2                 // running product stays within 2^±8: ±1, ±2, ±1/2 (complex: times 1 or i)
	fNone                 // pure output: left as poison, must be written without being read
)

type alphabet[T num] struct {
	ints []T
	divs []T
	unit []T // magnitude-1 factors
	two  []T // magnitude-2 factors
	half []T // magnitude-1/2 factors
}

func newAlphabet[T num]() *alphabet[T] {
	a := &alphabet[T]{}
	cp := isCplx[T]()
	for re := -3; re <= 3; re++ {
		if cp {
			for im := -3; im <= 3; im++ {
				a.ints = append(a.ints, mk[T](float64(re), float64(im)))
			}
		} else {
			a.ints = append(a.ints, mk[T](float64(re), 0))
		}
	}
	for _, m := range []float64{1, 2, 0.5, 4} {
		for _, s := range []float64{1, -1} {
			a.divs = append(a.divs, mk[T](s*m, 0))
			if cp {
				a.divs = append(a.divs, mk[T](0, s*m))
			}
		}
	}
	for _, s := range []float64{1, -1} {
		a.unit = append(a.unit, mk[T](s, 0))
		a.two = append(a.two, mk[T](2*s, 0))
		a.half = append(a.half, mk[T](0.5*s, 0))
		if cp {
			a.unit = append(a.unit, mk[T](0, s))
			a.two = append(a.two, mk[T](0, 2*s))
			a.half = append(a.half, mk[T](0, 0.5*s))
		}
	}
	return a
}

// lcg is a tiny deterministic generator used for fill patterns only.
type lcg uint64

func (l *lcg) next() uint64 {
	*l = *l*6364136223846793005 + 1442695040888963407
	return uint64(*l >> 33)
}

func (l *lcg) intn(n int) int { return int(l.next() % uint64(n)) }

// fill writes the exact-class pattern of kind k into the n logical elements
// of s addressed by idx, idx+inc, ... (the other elements stay poison).
func (a *alphabet[T]) fill(s []T, k fillKind, n, inc, idx int, seed uint64) {
	r := lcg(seed*0x9e3779b97f4a7c15 + 12345)
	r.next()
	exp := 0
	for i := 0; i < n; i++ {
		var v T
		switch k {
		case fInt:
			v = a.ints[r.intn(len(a.ints))]
		case fDiv:
			v = a.divs[r.intn(len(a.divs))]
		case fPow2:
			c := r.intn(3)
			if exp >= 8 {
				c = 2
			} else if exp <= -8 {
				c = 1
			}
			switch c {
			case 0:
				v = a.unit[r.intn(len(a.unit))]
			case 1:
				v = a.two[r.intn(len(a.two))]
				exp++
			default:
				v = a.half[r.intn(len(a.half))]
				exp--
			}
		}
		s[idx+i*inc] = v
	}
}

// Special values for the float64 and float32 lane-wise classes.
func specials64() []float64 {
	return []float64{
		0, math.Copysign(0, -1), math.NaN(), math.Inf(1), math.Inf(-1),
		math.SmallestNonzeroFloat64, -0x1p-1050, 0x1p1000, -0x1p1000, 0x1p-1000,
		1, -3, math.MaxFloat64, 0x1p-1022,
		// full-mantissa values: every product and sum rounds
		0x1.921fb54442d18p+1, -0x1.5bf0a8b145769p+1, 0x1.0000000000001p0, 1.0 / 3,
	}
}

func specials32() []float32 {
	return []float32{
		0, float32(math.Copysign(0, -1)), float32(math.NaN()), float32(math.Inf(1)), float32(math.Inf(-1)),
		math.SmallestNonzeroFloat32, -0x1p-140, 0x1p100, -0x1p100, 0x1p-100,
		1, -3, math.MaxFloat32, 0x1p-126,
		0x1.921fb6p+1, -0x1.5bf0a8p+1, 0x1.000002p0, float32(1.0 / 3),
	}
}

// sameBitsC reports whether two widened results are bitwise equal.
func sameBitsC(a, b complex128) bool {
	return math.Float64bits(real(a)) == math.Float64bits(real(b)) && math.Float64bits(imag(a)) == math.Float64bits(imag(b))
}

// sameClass is sameBitsC except that any NaN equals any NaN (per part).
func sameClass(a, b complex128) bool {
	f := func(x, y float64) bool {
		if math.IsNaN(x) || math.IsNaN(y) {
			return math.IsNaN(x) && math.IsNaN(y)
		}
		return math.Float64bits(x) == math.Float64bits(y)
	}
	return f(real(a), real(b)) && f(imag(a), imag(b))
}

// ---- math/big helpers for the rounding-bound families ----

const prec = 300

func bf(x float64) *big.Float { return new(big.Float).SetPrec(prec).SetFloat64(x) }

func bzero() *big.Float { return new(big.Float).SetPrec(prec) }

func badd(a, b *big.Float) *big.Float { return new(big.Float).SetPrec(prec).Add(a, b) }
func bsub(a, b *big.Float) *big.Float { return new(big.Float).SetPrec(prec).Sub(a, b) }
func bmul(a, b *big.Float) *big.Float { return new(big.Float).SetPrec(prec).Mul(a, b) }
func babs(a *big.Float) *big.Float    { return new(big.Float).SetPrec(prec).Abs(a) }
func bsqrt(a *big.Float) *big.Float   { return new(big.Float).SetPrec(prec).Sqrt(a) }

// within reports |got-exact| <= bound, treating a non-finite got as a failure.
func within(got float64, exact, bound *big.Float) bool {
	if math.IsNaN(got) || math.IsInf(got, 0) {
		return false
	}
	d := babs(bsub(bf(got), exact))
	return d.Cmp(bound) <= 0
}

// randDyadic returns a value with a full random mantissa in (-2^e, 2^e).
func randDyadic(r *lcg, e int) float64 {
	m := int64(r.next()<<22^r.next()) & (1<<53 - 1)
	v := math.Ldexp(float64(m), e-53)
	if r.next()&1 == 1 {
		v = -v
	}
	return v
}

// randDyadic32 is randDyadic with a 24-bit mantissa (exactly representable in float32).
func randDyadic32(r *lcg, e int) float64 {
	m := int64(r.next()) & (1<<24 - 1)
	v := math.Ldexp(float64(m), e-24)
	if r.next()&1 == 1 {
		v = -v
	}
	return v
}
