package main

import (
	"bytes"
	"fmt"
	"math"
	"runtime"
	"unsafe"

	"gonum.org/v1/gonum/internal/verif/vlib"
)

// num is the set of element types of the kernels under test.
type num interface {
	~float32 | ~float64 | ~complex64 | ~complex128
}

// Operand storage
//
// Every vector operand handed to the code under test lives in a block of
// memory obtained from vlib.NewGuarded, i.e. bracketed by PROT_NONE pages.
// The block is page aligned, so the placement of the operand inside it
// controls the absolute alignment of the slice. Three kinds of placement:
//
//	pl 0..7   interior: the slice starts off=pl elements after a 64-byte
//	          aligned address, with a poisoned margin on both sides
//	plEnd     the slice ends exactly at the trailing guard page (an
//	          out-of-range read or write past the end faults), poisoned
//	          margin in front
//	plStart   the slice starts exactly after the leading guard page (an
//	          access before the start faults), poisoned margin behind
//
// The margins (marginBytes on each side) and every element of the slice the
// reference does not write are filled with NaNs carrying distinct payloads and
// are compared bit for bit with a snapshot after the call.
const (
	plEnd       = 8
	plStart     = 9
	marginBytes = 256
	interiorOff = 1024
)

func plName(pl int) string {
	switch pl {
	case plEnd:
		return "E"
	case plStart:
		return "S"
	}
	return fmt.Sprint(pl)
}

type arena struct {
	g    *vlib.Guarded
	body []byte
	snap []byte
}

var arenas [6]*arena

// getArena returns the i-th process-wide guarded block, (re)allocating it
// when it is too small. The block's contents are never relied upon: every
// evaluation re-initialises all bytes it inspects.
func getArena(i, need int) *arena {
	a := arenas[i]
	if a != nil && len(a.body) >= need {
		return a
	}
	if a != nil {
		a.g.Free()
	}
	sz := 1 << 15
	for sz < need {
		sz *= 2
	}
	g := vlib.NewGuarded(sz)
	s := g.StartF64(1)
	e := g.EndF64(1)
	n := int(uintptr(unsafe.Pointer(&e[0]))-uintptr(unsafe.Pointer(&s[0]))) + 8
	a = &arena{g: g, body: unsafe.Slice((*byte)(unsafe.Pointer(&s[0])), n)}
	arenas[i] = a
	return a
}

func sizeOf[T num]() int { var z T; return int(unsafe.Sizeof(z)) }

// laneOf is the width in bytes of the floating-point lanes of T.
func laneOf[T num]() int {
	var z T
	switch any(z).(type) {
	case float32, complex64:
		return 4
	}
	return 8
}

func bytesOf[T num](s []T) []byte {
	if len(s) == 0 {
		return nil
	}
	return unsafe.Slice((*byte)(unsafe.Pointer(&s[0])), len(s)*sizeOf[T]())
}

// poisonBytes fills b (whose length is a multiple of lane) with poison NaNs.
func poisonBytes(b []byte, lane int, salt int) {
	if lane == 8 {
		for i := 0; i+8 <= len(b); i += 8 {
			*(*uint64)(unsafe.Pointer(&b[i])) = math.Float64bits(vlib.Poison64(i/8 + salt))
		}
		return
	}
	for i := 0; i+4 <= len(b); i += 4 {
		*(*uint32)(unsafe.Pointer(&b[i])) = math.Float32bits(vlib.Poison32(i/4 + salt))
	}
}

func isPoison64(u uint64) bool { return u>>16 == 0x7ff8_0000_dead }
func isPoison32(u uint32) bool { return u>>16 == 0x7fc2 }
func isNaN64(u uint64) bool {
	return u&0x7ff0_0000_0000_0000 == 0x7ff0_0000_0000_0000 && u&0x000f_ffff_ffff_ffff != 0
}
func isNaN32(u uint32) bool { return u&0x7f80_0000 == 0x7f80_0000 && u&0x007f_ffff != 0 }

// opnd is one vector operand.
type opnd[T num] struct {
	s      []T    // the slice handed to the code under test (len == cap)
	region []byte // inspected bytes: margin, window, margin
	wlo    int    // offset of the window in region
	snap   []byte // copy of region taken by snapshot
	ar     *arena
}

// place carves a slice of L elements out of arena ai with placement pl and
// poisons the whole inspected region (the caller then fills the slice).
func place[T num](ai, L, pl int) *opnd[T] {
	es := sizeOf[T]()
	w := L * es
	a := getArena(ai, w+2*marginBytes+interiorOff+64+8*es)
	var lo, hi, wlo int
	switch pl {
	case plEnd:
		hi = len(a.body)
		wlo = hi - w
		lo = wlo - marginBytes
	case plStart:
		lo, wlo = 0, 0
		hi = w + marginBytes
	default:
		wlo = interiorOff + pl*es
		lo = wlo - marginBytes
		hi = wlo + w + marginBytes
	}
	o := &opnd[T]{region: a.body[lo:hi:hi], wlo: wlo - lo, ar: a}
	o.s = unsafe.Slice((*T)(unsafe.Add(unsafe.Pointer(&a.body[0]), wlo)), L)
	poisonBytes(o.region, laneOf[T](), 64*ai)
	return o
}

func (o *opnd[T]) snapshot() {
	o.ar.snap = append(o.ar.snap[:0], o.region...)
	o.snap = o.ar.snap
}

// orig returns the operand's contents at snapshot time.
func (o *opnd[T]) orig() []T {
	out := make([]T, len(o.s))
	copy(bytesOf(out), o.snap[o.wlo:])
	return out
}

// Comparison modes of check.
const (
	cmpBits = iota // bit for bit
	cmpNaN         // bit for bit, except that a computed NaN matches any NaN
	cmpZero        // bit for bit, except that +0 matches -0
)

// check verifies that the margins are bitwise unchanged and that the window
// equals want. In mode cmpNaN, a lane that differs in bits is accepted when
// both the value found and the value wanted are NaNs and the wanted one is
// not a poison NaN (i.e. the reference computed a NaN there): NaN payloads and
// signs are not part of any contract. Untouched (poison) lanes are always
// compared bit for bit.
func (o *opnd[T]) check(want []T, mode int) string {
	es := sizeOf[T]()
	w := len(o.s) * es
	if !bytes.Equal(o.region[:o.wlo], o.snap[:o.wlo]) {
		return fmt.Sprintf("memory before the slice was written (%s)", firstDiff(o.region[:o.wlo], o.snap[:o.wlo], o.wlo, es))
	}
	if !bytes.Equal(o.region[o.wlo+w:], o.snap[o.wlo+w:]) {
		return fmt.Sprintf("memory after the slice was written (%s)", firstDiff(o.region[o.wlo+w:], o.snap[o.wlo+w:], 0, es))
	}
	got := o.region[o.wlo : o.wlo+w]
	wb := bytesOf(want)
	if bytes.Equal(got, wb) {
		return ""
	}
	lane := laneOf[T]()
	for i := 0; i+lane <= w; i += lane {
		var same, okNaN, okZero bool
		if lane == 8 {
			g, x := *(*uint64)(unsafe.Pointer(&got[i])), *(*uint64)(unsafe.Pointer(&wb[i]))
			same = g == x
			okNaN = isNaN64(g) && isNaN64(x) && !isPoison64(x)
			okZero = (g|x)<<1 == 0
		} else {
			g, x := *(*uint32)(unsafe.Pointer(&got[i])), *(*uint32)(unsafe.Pointer(&wb[i]))
			same = g == x
			okNaN = isNaN32(g) && isNaN32(x) && !isPoison32(x)
			okZero = (g|x)<<1 == 0
		}
		if same || (mode == cmpNaN && okNaN) || (mode == cmpZero && okZero) {
			continue
		}
		e := i / es
		return fmt.Sprintf("element %d: got %v want %v (was %v)", e, o.s[e], want[e], o.orig()[e])
	}
	return ""
}

func firstDiff(a, b []byte, wlo, es int) string {
	for i := range a {
		if a[i] != b[i] {
			if wlo > 0 {
				return fmt.Sprintf("%d bytes before the start", wlo-i)
			}
			return fmt.Sprintf("%d bytes after the end", i)
		}
	}
	return "?"
}

// try runs f and returns a description of the panic (including memory faults
// raised by assembly touching a guard page), or "".
func try(f func()) (msg string) {
	defer func() {
		if e := recover(); e != nil {
			if re, ok := e.(runtime.Error); ok {
				msg = "runtime error: " + re.Error()
			} else {
				msg = fmt.Sprint(e)
			}
			if msg == "" {
				msg = "panic"
			}
		}
	}()
	f()
	return ""
}
