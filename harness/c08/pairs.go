package main

import (
	"fmt"
	"math"

	"gonum.org/v1/gonum/internal/verif/vlib"
)

// Pairs (and a few triples) of special values in the reduction kernels.
//
// spec.go places one special value at a time (plus one companion at a fixed
// distance). Bookkeeping such as "an infinity has been seen" is kept per
// lane/flag in the assembly, so defects that need two non-finite elements
// (e.g. two differences of -Inf in L2DistanceUnitary, two infinities in
// L1Norm) are only visible when both are present. Here, for lengths that cover
// every loop region (n in {2,3,5,8,9,17}: peel, unrolled body, tail), every
// ordered pair of special values is placed at every pair of positions, in
// either operand of the two-operand kernels (so that differences of both
// signs occur, including both specials at the same position of the two
// operands), and compared with the documented scalar definition:
//
//	additive kernels (Sum, Dot*, L1Norm*, L1Dist), CumSum, CumProd, max-norms:
//	    the scalar loop, bit for bit except that a NaN matches any NaN. The
//	    values are chosen so that the result does not depend on the
//	    association order: pairs containing a huge or subnormal value sit on
//	    a zero background in one operand, so at most two terms are non-zero.
//	Euclidean norms and distances: NaN if any element (difference) is NaN,
//	    else +Inf if any is infinite, else within (2n+8)*eps of the exact
//	    value (math/big), also with huge (2^1000) and tiny (2^-1000) elements.

// pairKind is the special-value class of an operation, 0 if none.
func pairKind[T num](op *kop[T]) int {
	kind := op.sred
	if op.rets && !op.lane && !op.isInc() { // CumSum, CumProd
		kind = 4
		if op.fill[1] == fPow2 {
			kind = 5
		}
	}
	if isCplx[T]() && kind != 2 {
		return 0
	}
	return kind
}

// pairSpecials returns the special values of a kind and, in parallel, whether
// each needs the zero background (its sums with ordinary values are not
// independent of the association order).
func pairSpecials[T num](kind int, sp []T) (vals []T, zeroBg []bool) {
	// sp indices: 0:+0 1:-0 2:NaN 3:+Inf 4:-Inf 5:subnormal 6:-subnormal 7:huge 8:-huge 9:tiny 10:1 11:-3 12:max 13:minnormal
	pick := func(idx []int, zb ...int) {
		for _, i := range idx {
			vals = append(vals, sp[i])
			z := false
			for _, j := range zb {
				z = z || i == j
			}
			zeroBg = append(zeroBg, z)
		}
	}
	switch kind {
	case 1:
		pick([]int{3, 4, 2, 1, 7, 8, 5}, 7, 8, 5)
	case 4: // no -0: the sign of a cumulative sum that is exactly zero is a don't-care (the assembly starts from +0)
		pick([]int{3, 4, 2, 7, 8, 5}, 7, 8, 5)
	case 2:
		pick([]int{3, 4, 2, 1, 7, 8, 9})
	case 3:
		pick([]int{3, 4, 7, 8, 12})
	case 5:
		pick([]int{3, 4, 2, 0, 1})
	}
	return vals, zeroBg
}

// judgeL2Special is the oracle of the Euclidean norms and distances for
// inputs that may contain non-finite values.
func judgeL2Special[T num](dist bool, eps float64) func(c, in *kcall[T]) string {
	return func(c, in *kcall[T]) string {
		n := in.n
		x := logical(in, 0)
		var y []T
		if dist {
			y = logical(in, 1)
		}
		anyNaN, anyInf := false, false
		ss := bzero()
		for i := 0; i < n; i++ {
			v := x[i]
			if dist {
				v -= y[i]
			}
			z := toC(v)
			a := math.Hypot(real(z), imag(z)) // +Inf if a part is infinite, else NaN if a part is NaN
			switch {
			case math.IsNaN(a):
				anyNaN = true
			case math.IsInf(a, 0):
				anyInf = true
			default:
				ss = badd(ss, badd(bmul(bf(real(z)), bf(real(z))), bmul(bf(imag(z)), bf(imag(z)))))
			}
		}
		got := real(c.res)
		switch {
		case imag(c.res) != 0:
			return fmt.Sprintf("norm %v has an imaginary part", c.res)
		case anyNaN:
			if !math.IsNaN(got) {
				return fmt.Sprintf("norm %v want NaN", got)
			}
		case anyInf:
			if !math.IsInf(got, 1) {
				return fmt.Sprintf("norm %v want +Inf", got)
			}
		default:
			exact := bsqrt(ss)
			if !within(got, exact, scaleF(exact, float64(2*n+8)*eps)) {
				return fmt.Sprintf("norm %v, exact %s", got, exact.Text('g', 25))
			}
		}
		return ""
	}
}

func genPairSpecials[T num](tab []*kop[T], sp []T) func(g *vlib.G) {
	return func(g *vlib.G) {
		ev := &evaluator[T]{ab: newAlphabet[T]()}
		zero := mk[T](0, 0)
		for _, op := range tab {
			kind := pairKind(op)
			if kind == 0 {
				continue
			}
			op, kind := op, kind
			vals, zeroBg := pairSpecials(kind, sp)
			// source operands: the operands that are read
			var srcs []int
			for k := 0; k < op.nv; k++ {
				if op.fill[k] != fNone {
					srcs = append(srcs, k)
				}
			}
			incSets := [][4]int{{}}
			if op.isInc() {
				incSets = [][4]int{{1, 1}, {2, 3}}
				if op.hasIx {
					incSets = append(incSets, [4]int{-2, 1})
				}
			}
			eps := resultEps[T](op.name)
			lens := vlib.Pick(g, []int{2, 3, 5, 8, 9, 17}, []int{2, 3, 4, 5, 7, 8, 9, 12, 16, 17, 25, 33})
			if isCplx[T]() {
				// the complex norms have no assembly: shorter sweep
				lens = vlib.Pick(g, []int{2, 3, 5, 9}, []int{2, 3, 5, 8, 9, 17})
			}
			for _, n := range lens {
				for _, inc := range incSets {
					for _, pl := range []int{n % 8, plEnd} {
						n, inc, pl := n, inc, pl
						g.Case(fmt.Sprintf("%s n=%d inc=%v pl=%s", op.name, n, inc[:op.ninc], plName(pl)), func(t *vlib.T) {
							evals := 0
							run := func(pos []int, opnd []int, val []T, zbg bool, what string) bool {
								e := &evalSpec[T]{op: op, n: n, pl: pl, plStep: 3, aliasTo: -1, alpha: mk[T](1, 0), inc: inc, seed: uint64(n), lenient: true}
								for k := 0; k < op.nv; k++ {
									if i := inc[op.incOf[k]]; op.isInc() && i < 0 {
										e.idx[k] = (n - 1) * (-i)
									}
								}
								e.special = func(k int, s []T, n, inc, idx int) {
									st := startIdx(n, inc, idx)
									if zbg && k == opnd[0] {
										for i := 0; i < n; i++ {
											s[st+i*absInt(inc)] = zero
										}
									}
									for q := range pos {
										if opnd[q] == k {
											s[st+pos[q]*absInt(inc)] = val[q]
										}
									}
								}
								if kind == 2 {
									e.judge = judgeL2Special[T](len(srcs) == 2, eps)
								}
								evals++
								if msg := ev.eval(e); msg != "" {
									report(t, op.name, msg, "%s %s: %s", op.name, what, msg)
									return false
								}
								return true
							}
							for ai, a := range vals {
								for bi, b := range vals {
									zbg := zeroBg[ai] || zeroBg[bi]
									for _, oa := range srcs {
										for _, ob := range srcs {
											if zbg && oa != ob {
												continue // huge values only within one operand (see the file comment)
											}
											for i := 0; i < n; i++ {
												for j := i; j < n; j++ {
													if i == j && oa == ob {
														continue
													}
													if kind == 3 && i == j && ai < 2 && bi < 2 {
														continue // Inf-Inf is a NaN difference: don't-care for the max-norms
													}
													what := fmt.Sprintf("specials %v at %d of operand %d and %v at %d of operand %d", a, i, oa, b, j, ob)
													if !run([]int{i, j}, []int{oa, ob}, []T{a, b}, zbg, what) {
														return
													}
												}
											}
										}
									}
								}
							}
							// a few triples of non-finite values
							if n >= 5 {
								nf := vals[:3]
								if kind == 3 {
									nf = vals[:2]
								}
								for _, pos := range [][]int{{0, n / 2, n - 1}, {1, 2, n - 2}, {n - 3, n - 2, n - 1}} {
									for _, a := range nf {
										for _, b := range nf {
											for _, c := range nf {
												for _, o := range srcs {
													o2 := srcs[len(srcs)-1]
													what := fmt.Sprintf("specials %v,%v,%v at %v of operands %d,%d,%d", a, b, c, pos, o, o2, o)
													if !run(pos, []int{o, o2, o}, []T{a, b, c}, false, what) {
														return
													}
												}
											}
										}
									}
								}
							}
							t.Count("kernel_evaluations", int64(evals))
							t.Count("special_pair_evaluations", int64(evals))
							t.Nontrivial()
							t.Outcome(fmt.Sprintf("%s n=%d", op.name, n))
						})
					}
				}
			}
		}
	}
}

// genCplxPairs runs the pair sweep for the Euclidean norms and distances of
// the complex tables; the special values go into the real or the imaginary
// part.
func genCplxPairs(g *vlib.G) {
	s64, s32 := specials64(), specials32()
	var c128sp []complex128
	var c64sp []complex64
	for i := range s64 {
		if i%2 == 0 {
			c128sp = append(c128sp, complex(s64[i], 1))
			c64sp = append(c64sp, complex(s32[i], 1))
		} else {
			c128sp = append(c128sp, complex(-2, s64[i]))
			c64sp = append(c64sp, complex(-2, s32[i]))
		}
	}
	genPairSpecials(c128Table(), c128sp)(g)
	genPairSpecials(c64Table(), c64sp)(g)
	genPairSpecials(cmplxsTable(), c128sp)(g)
}
