package main

import (
	"fmt"
	"math"
	"math/cmplx"

	"gonum.org/v1/gonum/cmplxs"
	"gonum.org/v1/gonum/internal/verif/vlib"
)

// The functions of package cmplxs that are not element-wise kernels:
// mixed-type conversions, search helpers and predicates, on tiny domains.

func cseqs(alpha []complex128, lo, hi int, f func(s []complex128)) {
	for n := lo; n <= hi; n++ {
		rad := make([]int, n)
		for i := range rad {
			rad[i] = len(alpha)
		}
		s := make([]complex128, n)
		if n == 0 {
			f(s)
			continue
		}
		vlib.Product(rad, func(idx []int) bool {
			for i, j := range idx {
				s[i] = alpha[j]
			}
			f(s)
			return true
		})
	}
}

func genCmplxsMisc(g *vlib.G) {
	cnan := complex(nan, 0)
	cinf := complex(pinf, 0)

	// ---- Abs / Real / Imag / Complex ----
	for n := 0; n <= 9; n++ {
		n := n
		g.Case(fmt.Sprintf("Abs/Real/Imag/Complex n=%d", n), func(t *vlib.T) {
			src := make([]complex128, n)
			re := make([]float64, n)
			im := make([]float64, n)
			parts := []float64{0, negz, 3, -4, 0.5, pinf, nan, 1e300, 5e-324}
			for i := range src {
				re[i], im[i] = parts[(i*2+n)%len(parts)], parts[(i*5+1)%len(parts)]
				src[i] = complex(re[i], im[i])
			}
			src0 := append([]complex128(nil), src...)
			for fn, name := range []string{"Abs", "Real", "Imag"} {
				w, ok := guarded(make([]float64, n))
				vlib.FillPoison64(w)
				var ret []float64
				switch fn {
				case 0:
					cmplxs.Abs(w, src)
					ret = w
				case 1:
					ret = cmplxs.Real(w, src)
				case 2:
					ret = cmplxs.Imag(w, src)
				}
				for i := range w {
					want := []float64{math.Hypot(re[i], im[i]), re[i], im[i]}[fn]
					if !vlib.EqVal(w[i], want, true) {
						t.Failf("cmplxs.%s: dst[%d]=%v want %v (src %v)", name, i, w[i], want, src[i])
					}
				}
				if !ok() || len(ret) != n || (n > 0 && &ret[0] != &w[0]) {
					t.Failf("cmplxs.%s wrote outside dst or did not return dst", name)
				}
				if !mustPanic(func() {
					switch fn {
					case 0:
						cmplxs.Abs(make([]float64, n+1), src)
					case 1:
						cmplxs.Real(make([]float64, n+1), src)
					case 2:
						cmplxs.Imag(make([]float64, n+1), src)
					}
				}) {
					t.Failf("cmplxs.%s with mismatched lengths did not panic", name)
				}
			}
			if i, same := vlib.SameC128(src, src0); !same {
				t.Failf("source modified at %d", i)
			}
			buf := make([]complex128, n+4)
			vlib.FillPoisonC128(buf)
			b0 := append([]complex128(nil), buf...)
			dst := buf[2 : 2+n : 2+n]
			ret := cmplxs.Complex(dst, re, im)
			if i, same := vlib.SameC128(dst, src); !same {
				t.Failf("cmplxs.Complex: dst[%d]=%v want %v", i, dst[i], src[i])
			}
			copy(b0[2:], src)
			if i, same := vlib.SameC128(buf, b0); !same || len(ret) != n {
				t.Failf("cmplxs.Complex wrote outside dst (%d) or did not return dst", i)
			}
			if !mustPanic(func() { cmplxs.Complex(make([]complex128, n), re, make([]float64, n+1)) }) ||
				!mustPanic(func() { cmplxs.Complex(make([]complex128, n+1), re, im) }) {
				t.Failf("cmplxs.Complex with mismatched lengths did not panic")
			}
			if n >= 2 {
				t.Nontrivial()
			}
			t.Outcome("convert")
		})
	}

	// ---- MaxAbsIdx / MinAbsIdx / MaxAbs / MinAbs / NearestIdx ----
	for n := 0; n <= 4; n++ {
		n := n
		g.Case(fmt.Sprintf("MaxAbsIdx/MinAbsIdx/NearestIdx all sequences n=%d", n), func(t *vlib.T) {
			qs := []complex128{0, 0.5, 0.5 + 0.5i, 1, 2i, 3, cnan, cinf}
			cnt := 0
			cseqs([]complex128{0, 1, -1, 1i, 3 + 4i, 5, cnan, cinf}, n, n, func(s []complex128) {
				if t.Failed() {
					return
				}
				cnt++
				if n == 0 {
					for i, f := range []func(){func() { cmplxs.MaxAbsIdx(s) }, func() { cmplxs.MinAbsIdx(s) }, func() { cmplxs.MaxAbs(s) }, func() { cmplxs.MinAbs(s) }, func() { cmplxs.NearestIdx(s, 1) }} {
						if !mustPanic(f) {
							t.Failf("cmplxs function %d on an empty slice did not panic", i)
						}
					}
					return
				}
				abs := make([]float64, n)
				for i, v := range s {
					abs[i] = cmplx.Abs(v)
					if cmplx.IsNaN(v) {
						abs[i] = nan
					}
				}
				for _, max := range []bool{true, false} {
					want := extremeIdx(abs, max)
					var got int
					var val complex128
					if max {
						got, val = cmplxs.MaxAbsIdx(s), cmplxs.MaxAbs(s)
					} else {
						got, val = cmplxs.MinAbsIdx(s), cmplxs.MinAbs(s)
					}
					if got < 0 || got >= n || (want >= 0 && got != want) {
						t.Failf("cmplxs abs-extreme(max=%v)(%v)=%d want %d", max, s, got, want)
						return
					}
					if !sameClass(val, s[got]) {
						t.Failf("cmplxs MaxAbs/MinAbs(%v)=%v want s[%d]", s, val, got)
					}
				}
				for _, v := range qs {
					got := cmplxs.NearestIdx(s, v)
					if got < 0 || got >= n {
						t.Failf("cmplxs.NearestIdx(%v,%v)=%d out of range", s, v, got)
						return
					}
					if cmplx.IsNaN(v) {
						continue // don't-care
					}
					want := -1
					if cmplx.IsInf(v) {
						want = extremeIdx(abs, true)
					} else {
						best := nan
						for i, x := range s {
							d := cmplx.Abs(v - x)
							if !math.IsNaN(d) && (want < 0 || d < best) {
								want, best = i, d
							}
						}
					}
					if want >= 0 && got != want {
						t.Failf("cmplxs.NearestIdx(%v,%v)=%d want %d", s, v, got, want)
						return
					}
				}
			})
			t.Count("sequences", int64(cnt))
			if n >= 2 {
				t.Nontrivial()
			}
			t.Outcome("cmplxs-extremes")
		})
	}

	// ---- Find / Count / predicates ----
	g.Case("cmplxs Find/Count/HasNaN/Equal/Same/EqualApprox/EqualFunc/EqualLengths", func(t *vlib.T) {
		isOne := func(v complex128) bool { return v == 1 }
		cseqs([]complex128{0, 1}, 0, 6, func(s []complex128) {
			var all []int
			for i, v := range s {
				if v == 1 {
					all = append(all, i)
				}
			}
			if cmplxs.Count(isOne, s) != len(all) {
				t.Failf("cmplxs.Count(%v)", s)
			}
			for k := -1; k <= len(s)+1; k++ {
				for _, pre := range []int{-1, 1, len(s) + 1} {
					var inds []int
					if pre >= 0 {
						inds = make([]int, pre)
					}
					got, err := cmplxs.Find(inds, isOne, s, k)
					want, wantErr := all, false
					if k == 0 {
						want = nil
					} else if k > 0 {
						if len(all) >= k {
							want = all[:k]
						} else {
							wantErr = true
						}
					}
					if fmt.Sprint(got) != fmt.Sprint(append([]int{}, want...)) || (err != nil) != wantErr {
						t.Failf("cmplxs.Find(cap=%d,%v,k=%d)=%v,%v want %v,error=%v", pre, s, k, got, err, want, wantErr)
						return
					}
				}
			}
		})
		var all [][]complex128
		cseqs([]complex128{0, 1, 1 + 1e-10i, cnan, complex(0, nan), cinf}, 0, 2, func(s []complex128) { all = append(all, append([]complex128(nil), s...)) })
		for _, a := range all {
			hn := false
			for _, v := range a {
				hn = hn || cmplx.IsNaN(v)
			}
			if cmplxs.HasNaN(a) != hn {
				t.Failf("cmplxs.HasNaN(%v)", a)
			}
			for _, b := range all {
				eq, same, approx := len(a) == len(b), len(a) == len(b), len(a) == len(b)
				if eq {
					for i := range a {
						x, y := a[i], b[i]
						if x != y {
							eq = false
						}
						if !(x == y || (cmplx.IsNaN(x) && cmplx.IsNaN(y))) {
							same = false
						}
						if !(x == y || cmplx.Abs(x-y) <= 1e-9) {
							approx = false
						}
					}
				}
				if cmplxs.Equal(a, b) != eq || cmplxs.Same(a, b) != same || cmplxs.EqualApprox(a, b, 1e-9) != approx ||
					cmplxs.EqualFunc(a, b, func(x, y complex128) bool { return x == y }) != eq || cmplxs.EqualLengths(a, b) != (len(a) == len(b)) {
					t.Failf("cmplxs predicates on %v, %v: Equal=%v Same=%v EqualApprox=%v want %v %v %v", a, b, cmplxs.Equal(a, b), cmplxs.Same(a, b), cmplxs.EqualApprox(a, b, 1e-9), eq, same, approx)
					return
				}
			}
		}
		if !cmplxs.EqualLengths() {
			t.Failf("cmplxs.EqualLengths() must be true")
		}
		t.Nontrivial()
		t.Outcome("cmplxs-predicates")
	})

	g.Case("cmplxs length mismatches panic without writing", func(t *vlib.T) {
		type call struct {
			name  string
			three bool
			f     func(a, b, c []complex128)
		}
		calls := []call{
			{"Add", false, func(a, b, c []complex128) { cmplxs.Add(a, b) }},
			{"AddTo", true, func(a, b, c []complex128) { cmplxs.AddTo(a, b, c) }},
			{"AddScaled", false, func(a, b, c []complex128) { cmplxs.AddScaled(a, 2, b) }},
			{"AddScaledTo", true, func(a, b, c []complex128) { cmplxs.AddScaledTo(a, b, 2, c) }},
			{"CumProd", false, func(a, b, c []complex128) { cmplxs.CumProd(a, b) }},
			{"CumSum", false, func(a, b, c []complex128) { cmplxs.CumSum(a, b) }},
			{"Div", false, func(a, b, c []complex128) { cmplxs.Div(a, b) }},
			{"DivTo", true, func(a, b, c []complex128) { cmplxs.DivTo(a, b, c) }},
			{"Mul", false, func(a, b, c []complex128) { cmplxs.Mul(a, b) }},
			{"MulConj", false, func(a, b, c []complex128) { cmplxs.MulConj(a, b) }},
			{"MulTo", true, func(a, b, c []complex128) { cmplxs.MulTo(a, b, c) }},
			{"MulConjTo", true, func(a, b, c []complex128) { cmplxs.MulConjTo(a, b, c) }},
			{"ScaleTo", false, func(a, b, c []complex128) { cmplxs.ScaleTo(a, 2, b) }},
			{"ScaleRealTo", false, func(a, b, c []complex128) { cmplxs.ScaleRealTo(a, 2, b) }},
			{"Sub", false, func(a, b, c []complex128) { cmplxs.Sub(a, b) }},
			{"SubTo", true, func(a, b, c []complex128) { cmplxs.SubTo(a, b, c) }},
			{"Dot", false, func(a, b, c []complex128) { cmplxs.Dot(a, b) }},
			{"Distance", false, func(a, b, c []complex128) { cmplxs.Distance(a, b, 2) }},
		}
		for _, cl := range calls {
			for _, lens := range [][3]int{{3, 2, 3}, {2, 3, 3}, {0, 1, 0}, {5, 5, 4}, {4, 5, 5}} {
				if !cl.three && lens[0] == lens[1] {
					continue
				}
				a, b, c := make([]complex128, lens[0]), make([]complex128, lens[1]), make([]complex128, lens[2])
				for i := range a {
					a[i] = 7
				}
				if !mustPanic(func() { cl.f(a, b, c) }) {
					t.Failf("cmplxs.%s with lengths %v did not panic", cl.name, lens)
				}
				for i := range a {
					if a[i] != 7 {
						t.Failf("cmplxs.%s with lengths %v wrote to dst before panicking", cl.name, lens)
						break
					}
				}
			}
		}
		t.Nontrivial()
		t.Outcome("cmplxs-mismatch")
	})
}

func genCmplxsSpan(g *vlib.G) {
	// ---- Span / LogSpan ----
	for n := 0; n <= vlib.Pick(g, 60, 120); n++ {
		n := n
		g.Case(fmt.Sprintf("cmplxs.Span/LogSpan n=%d", n), func(t *vlib.T) {
			if n < 2 {
				if !mustPanic(func() { cmplxs.Span(make([]complex128, n), 0, 1) }) || !mustPanic(func() { cmplxs.LogSpan(make([]complex128, n), 1, 2) }) {
					t.Failf("cmplxs.Span/LogSpan with len(dst)=%d did not panic", n)
				}
				return
			}
			ends := []complex128{0, 1, 1i, 1 + 2i, -3, 0.1 - 0.7i}
			for _, l := range ends {
				for _, u := range ends {
					buf := make([]complex128, n+4)
					vlib.FillPoisonC128(buf)
					b0 := append([]complex128(nil), buf...)
					dst := buf[2 : 2+n : 2+n]
					ret := cmplxs.Span(dst, l, u)
					scale := math.Max(cmplx.Abs(l), cmplx.Abs(u))
					for i := range dst {
						f := float64(i) / float64(n-1)
						want := l + (u-l)*complex(f, 0)
						if d := cmplx.Abs(dst[i] - want); math.IsNaN(d) || d > 16*0x1p-52*scale {
							t.Failf("cmplxs.Span(%d,%v,%v)[%d]=%v want %v", n, l, u, i, dst[i], want)
							return
						}
					}
					copy(b0[2:], dst)
					if i, same := vlib.SameC128(buf, b0); !same || len(ret) != n || &ret[0] != &dst[0] {
						t.Failf("cmplxs.Span wrote outside dst (%d) or did not return dst", i)
						return
					}
					if dst[0] != l || dst[n-1] != u {
						classed(t, "span-endpoint-inexact", fmt.Sprintf("l=%v u=%v", l, u), "cmplxs.Span(%d,%v,%v): first=%v last=%v, documented to be exactly l and u", n, l, u, dst[0], dst[n-1])
					}
				}
			}
			t.Nontrivial()
			t.Outcome("cmplxs-span")
		})
		if n < 2 {
			continue
		}
		g.Case(fmt.Sprintf("cmplxs.LogSpan n=%d", n), func(t *vlib.T) {
			for _, l := range []float64{0.5, 1, 3, 10} {
				for _, u := range []float64{1, 2, 10, 1e6} {
					dst := cmplxs.LogSpan(make([]complex128, n), complex(l, 0), complex(u, 0))
					for i := range dst {
						want := l * math.Pow(u/l, float64(i)/float64(n-1))
						if d := cmplx.Abs(dst[i] - complex(want, 0)); math.IsNaN(d) || d > 1e-12*want {
							t.Failf("cmplxs.LogSpan(%d,%v,%v)[%d]=%v want %v", n, l, u, i, dst[i], want)
							return
						}
					}
					if dst[0] != complex(l, 0) || dst[n-1] != complex(u, 0) {
						classed(t, "logspan-endpoint-inexact", fmt.Sprintf("l=%v u=%v", l, u), "cmplxs.LogSpan(%d,%v,%v): first=%v last=%v, documented to be l and u", n, l, u, dst[0], dst[n-1])
					}
				}
			}
			t.Nontrivial()
			t.Outcome("cmplxs-logspan")
		})
	}
}
