package main

import (
	"fmt"
	"math"
	"math/big"
	"math/cmplx"

	"gonum.org/v1/gonum/cmplxs/cscalar"
	"gonum.org/v1/gonum/floats/scalar"
	"gonum.org/v1/gonum/internal/cmplx64"
	"gonum.org/v1/gonum/internal/math32"
	"gonum.org/v1/gonum/internal/verif/vlib"
)

// Scalar helpers: floats/scalar, cmplxs/cscalar, internal/math32 and
// internal/cmplx64 on small exhaustive grids with oracles in exact arithmetic
// (math/big) or in float64 (for the float32 packages).

func rat(x float64) *big.Rat { return new(big.Rat).SetFloat64(x) }

// absDiffLE reports |a-b| <= tol for finite a, b in exact arithmetic; sure is
// false when |a-b| is within 1e-12 (relative) of tol without being equal to
// it: there the rounding of a-b decides and either answer is accepted.
func absDiffLE(a, b, tol float64) (within, sure bool) {
	if math.IsNaN(tol) {
		return false, true
	}
	if math.IsInf(tol, 1) {
		return true, true
	}
	if tol < 0 {
		return false, true
	}
	d := new(big.Rat).Sub(rat(a), rat(b))
	d.Abs(d)
	bound := rat(tol)
	c := d.Cmp(bound)
	lo := new(big.Rat).Mul(bound, big.NewRat(999999999999, 1000000000000))
	hi := new(big.Rat).Mul(bound, big.NewRat(1000000000001, 1000000000000))
	return c <= 0, c == 0 || d.Cmp(lo) < 0 || d.Cmp(hi) > 0
}

func oracleWithinAbs(a, b, tol float64) (within, sure bool) {
	switch {
	case a == b:
		return true, true
	case math.IsNaN(a) || math.IsNaN(b):
		return false, true
	case math.IsInf(a, 0) || math.IsInf(b, 0):
		return math.IsInf(tol, 1), true // the difference is infinite
	}
	return absDiffLE(a, b, tol)
}

// oracleWithinRel is |a-b| <= tol*max(|a|,|b|) for finite a, b whose
// difference is not in the subnormal range (a documented don't-care zone).
// sure is false when the exact ratio is within 1e-12 (relative) of tol but not
// equal to it: there the rounding of a-b decides and either answer is accepted.
func oracleWithinRel(a, b, tol float64) (within, sure bool) {
	switch {
	case a == b:
		return true, true
	case math.IsNaN(a) || math.IsNaN(b) || math.IsInf(a, 0) || math.IsInf(b, 0):
		return false, true
	}
	d := new(big.Rat).Sub(rat(a), rat(b))
	d.Abs(d)
	m := rat(math.Max(math.Abs(a), math.Abs(b)))
	bound := m.Mul(m, rat(tol))
	c := d.Cmp(bound)
	lo := new(big.Rat).Mul(bound, big.NewRat(999999999999, 1000000000000))
	hi := new(big.Rat).Mul(bound, big.NewRat(1000000000001, 1000000000000))
	sure = c == 0 || d.Cmp(lo) < 0 || d.Cmp(hi) > 0
	return c <= 0, sure
}

func ulpDistance(a, b float64) (uint64, bool) {
	if math.IsNaN(a) || math.IsNaN(b) {
		return 0, false
	}
	ma, mb := math.Float64bits(math.Abs(a)), math.Float64bits(math.Abs(b))
	if math.Signbit(a) != math.Signbit(b) {
		return ma + mb, true
	}
	if ma > mb {
		return ma - mb, true
	}
	return mb - ma, true
}

// oracleRound rounds the exact value of x to prec decimal places (half away
// from zero, or half to even) and returns the nearest float64; zero results
// are +0.
func oracleRound(x float64, prec int, even bool) float64 {
	if x == 0 {
		return 0
	}
	if math.IsNaN(x) || math.IsInf(x, 0) {
		return x
	}
	p := new(big.Rat).SetInt(new(big.Int).Exp(big.NewInt(10), big.NewInt(int64(absInt(prec))), nil))
	if prec < 0 {
		p.Inv(p)
	}
	r := new(big.Rat).Mul(rat(x), p) // x * 10^prec
	neg := r.Sign() < 0
	r.Abs(r)
	q := new(big.Int).Quo(r.Num(), r.Denom()) // floor
	frac := new(big.Rat).Sub(r, new(big.Rat).SetInt(q))
	switch c := frac.Cmp(big.NewRat(1, 2)); {
	case c > 0, c == 0 && !even, c == 0 && even && q.Bit(0) == 1:
		q.Add(q, big.NewInt(1))
	}
	res := new(big.Rat).SetInt(q)
	res.Quo(res, p)
	f, _ := res.Float64()
	if neg {
		f = -f
	}
	if f == 0 {
		return 0
	}
	return f
}

func genScalar(g *vlib.G) {
	vals := []float64{0, negz, 1, 1.5, 2, -1, 1e300, -1e300, 1e-300, 3e-300, pinf, ninf, nan}
	g.Case("scalar.EqualWithinAbs/Rel/AbsOrRel grid", func(t *vlib.T) {
		tols := []float64{0, 0.25, 0.5, 1, 2, 1e-10, 1e-300, pinf}
		n := 0
		for _, a := range vals {
			for _, b := range vals {
				for _, tol := range tols {
					n++
					wa, sureA := oracleWithinAbs(a, b, tol)
					if got := scalar.EqualWithinAbs(a, b, tol); sureA && got != wa {
						t.Failf("EqualWithinAbs(%v,%v,%v)=%v want %v", a, b, tol, got, wa)
					}
					if math.IsInf(tol, 0) {
						continue
					}
					wr, sure := oracleWithinRel(a, b, tol)
					if got := scalar.EqualWithinRel(a, b, tol); sure && got != wr {
						t.Failf("EqualWithinRel(%v,%v,%v)=%v want %v", a, b, tol, got, wr)
					}
					for _, tol2 := range []float64{0, 0.5, 2} {
						wr2, sure2 := oracleWithinRel(a, b, tol2)
						if got, want := scalar.EqualWithinAbsOrRel(a, b, tol, tol2), wa || wr2; sureA && (wa || sure2) && got != want {
							t.Failf("EqualWithinAbsOrRel(%v,%v,%v,%v)=%v want %v", a, b, tol, tol2, got, want)
						}
					}
				}
				if got, want := scalar.Same(a, b), a == b || (math.IsNaN(a) && math.IsNaN(b)); got != want {
					t.Failf("Same(%v,%v)=%v", a, b, got)
				}
			}
		}
		t.Count("points", int64(n))
		t.Nontrivial()
		t.Outcome("equalwithin")
	})
	g.Case("scalar.EqualWithinULP grid", func(t *vlib.T) {
		one := 1.0
		up1 := math.Nextafter(one, 2)
		up2 := math.Nextafter(up1, 2)
		dn1 := math.Nextafter(one, 0)
		us := []float64{0, negz, 5e-324, -5e-324, 1e-323, -1e-323, dn1, one, up1, up2, -one, -up1, math.MaxFloat64, -math.MaxFloat64, pinf, ninf, nan}
		for _, a := range us {
			for _, b := range us {
				for _, ulp := range []uint{0, 1, 2, 3, 4, 1 << 62} {
					d, ok := ulpDistance(a, b)
					want := ok && d <= uint64(ulp) || a == b
					if got := scalar.EqualWithinULP(a, b, ulp); got != want {
						t.Failf("EqualWithinULP(%v,%v,%d)=%v want %v (distance %d)", a, b, ulp, got, want, d)
					}
				}
			}
		}
		t.Nontrivial()
		t.Outcome("ulp")
	})
	g.Case("scalar.NaNWith/NaNPayload/ParseWithNA", func(t *vlib.T) {
		const mask = 1<<51 - 1
		for _, p := range []uint64{0, 1, 2, 0xdead, 1 << 50, mask, 1 << 51, 1 << 52, 1<<63 | 5, ^uint64(0)} {
			v := scalar.NaNWith(p)
			b := math.Float64bits(v)
			if !math.IsNaN(v) || b>>51 != 0x7ff8>>3 || b&mask != p&mask {
				t.Failf("NaNWith(%#x)=%#x", p, b)
			}
			if got, ok := scalar.NaNPayload(v); !ok || got != p&mask {
				t.Failf("NaNPayload(NaNWith(%#x))=%#x,%v", p, got, ok)
			}
		}
		if math.Float64bits(math.NaN()) != math.Float64bits(scalar.NaNWith(1)) {
			t.Failf("NaNWith(1) is not math.NaN()")
		}
		for _, v := range []float64{0, 1, pinf, ninf, math.Float64frombits(0x7ff0000000000001), math.Float64frombits(0x7ff4000000000000), math.Float64frombits(0xfff0000000000123)} {
			if p, ok := scalar.NaNPayload(v); ok || p != 0 {
				t.Failf("NaNPayload(%#x)=%#x,%v want 0,false", math.Float64bits(v), p, ok)
			}
		}
		if p, ok := scalar.NaNPayload(math.Float64frombits(0xfff8000000000123)); !ok || p != 0x123 {
			t.Failf("NaNPayload of a negative quiet NaN = %#x,%v", p, ok)
		}
		if v, w, err := scalar.ParseWithNA("NA", "NA"); v != 0 || w != 0 || err != nil {
			t.Failf("ParseWithNA(NA,NA)=%v,%v,%v", v, w, err)
		}
		if v, w, err := scalar.ParseWithNA("1.5", "NA"); v != 1.5 || w != 1 || err != nil {
			t.Failf("ParseWithNA(1.5,NA)=%v,%v,%v", v, w, err)
		}
		if _, w, err := scalar.ParseWithNA("x", "NA"); w != 0 || err == nil {
			t.Failf("ParseWithNA(x,NA) weight=%v err=%v", w, err)
		}
		t.Nontrivial()
		t.Outcome("nan-payload")
	})

	// ---- cscalar ----
	g.Case("cscalar grid", func(t *vlib.T) {
		cs := []complex128{0, 1, 1i, 1 + 1i, 3 + 4i, -3 - 4i, 6 + 8i, complex(0.5, 0)}
		sq := func(z complex128) *big.Rat {
			r := new(big.Rat).Mul(rat(real(z)), rat(real(z)))
			return r.Add(r, new(big.Rat).Mul(rat(imag(z)), rat(imag(z))))
		}
		for _, a := range cs {
			for _, b := range cs {
				d2 := sq(a - b) // exact: small integers and halves
				m2 := sq(a)
				if s := sq(b); s.Cmp(m2) > 0 {
					m2 = s
				}
				for _, tol := range []float64{0, 0.5, 1, 2, 3, 5, 10} {
					t2 := new(big.Rat).Mul(rat(tol), rat(tol))
					wa := a == b || d2.Cmp(t2) <= 0
					wr := a == b || d2.Cmp(new(big.Rat).Mul(t2, m2)) <= 0
					if got := cscalar.EqualWithinAbs(a, b, tol); got != wa {
						t.Failf("cscalar.EqualWithinAbs(%v,%v,%v)=%v want %v", a, b, tol, got, wa)
					}
					if got := cscalar.EqualWithinRel(a, b, tol); got != wr {
						t.Failf("cscalar.EqualWithinRel(%v,%v,%v)=%v want %v", a, b, tol, got, wr)
					}
					if got := cscalar.EqualWithinAbsOrRel(a, b, tol, tol); got != (wa || wr) {
						t.Failf("cscalar.EqualWithinAbsOrRel(%v,%v,%v)=%v want %v", a, b, tol, got, wa || wr)
					}
				}
			}
		}
		parts := []float64{0, negz, 1, 2.5, -2.5, 0.125, 3.5, nan, pinf}
		for _, re := range parts {
			for _, im := range parts {
				z := complex(re, im)
				for _, prec := range []int{-1, 0, 1, 2} {
					for _, even := range []bool{false, true} {
						var got complex128
						if even {
							got = cscalar.RoundEven(z, prec)
						} else {
							got = cscalar.Round(z, prec)
						}
						want := complex(oracleRound(re, prec, even), oracleRound(im, prec, even))
						if !sameClass(got, want) {
							t.Failf("cscalar round(even=%v)(%v,%d)=%v want %v", even, z, prec, got, want)
						}
					}
				}
				for _, re2 := range []float64{0, 1, nan} {
					for _, im2 := range []float64{0, 1, nan} {
						if math.IsInf(re, 0) || math.IsInf(im, 0) {
							continue // don't-care: cmplx.IsNaN is false for (NaN, Inf)
						}
						w := complex(re2, im2)
						zn := math.IsNaN(re) || math.IsNaN(im)
						wn := math.IsNaN(re2) || math.IsNaN(im2)
						if got, want := cscalar.Same(z, w), z == w || (zn && wn); got != want {
							t.Failf("cscalar.Same(%v,%v)=%v want %v", z, w, got, want)
						}
					}
				}
			}
		}
		if v, w, err := cscalar.ParseWithNA("NA", "NA"); v != 0 || w != 0 || err != nil {
			t.Failf("cscalar.ParseWithNA(NA,NA)=%v,%v,%v", v, w, err)
		}
		if v, w, err := cscalar.ParseWithNA("1+2i", "NA"); v != 1+2i || w != 1 || err != nil {
			t.Failf("cscalar.ParseWithNA(1+2i,NA)=%v,%v,%v", v, w, err)
		}
		if _, w, err := cscalar.ParseWithNA("x", "NA"); w != 0 || err == nil {
			t.Failf("cscalar.ParseWithNA(x,NA) weight=%v err=%v", w, err)
		}
		t.Nontrivial()
		t.Outcome("cscalar")
	})

	// ---- math32 / cmplx64 against float64 ----
	d32 := append(specials32(), 0.5, -0.5, 2, -2, 1.5, 3, 4, 1e-20, 1e20, 16777216, -16777217, 0x1p-149, -0x1p-149, 0x1.fffffep-127)
	same32 := func(a, b float32) bool {
		return math.Float32bits(a) == math.Float32bits(b) || (a != a && b != b)
	}
	ulp32 := func(x float64) float64 {
		f := float32(math.Abs(x))
		if math32.IsInf(f, 0) {
			return math.Inf(1)
		}
		return float64(math.Nextafter32(f, float32(math.Inf(1)))) - float64(f)
	}
	g.Case("math32 vs float64 math", func(t *vlib.T) {
		if math.Float32bits(math32.NaN()) != 0x7fc00000 || !math32.IsNaN(math32.NaN()) || math32.Inf(1) != float32(pinf) || math32.Inf(0) != float32(pinf) || math32.Inf(-1) != float32(ninf) {
			t.Failf("math32.NaN/Inf constants")
		}
		for _, x := range d32 {
			fx := float64(x)
			if !same32(math32.Abs(x), float32(math.Abs(fx))) {
				t.Failf("math32.Abs(%v)=%v", x, math32.Abs(x))
			}
			if math32.IsNaN(x) != math.IsNaN(fx) || math32.Signbit(x) != math.Signbit(fx) {
				t.Failf("math32.IsNaN/Signbit(%v)", x)
			}
			for _, sg := range []int{-1, 0, 1} {
				if math32.IsInf(x, sg) != math.IsInf(fx, sg) {
					t.Failf("math32.IsInf(%v,%d)", x, sg)
				}
			}
			for _, y := range d32 {
				fy := float64(y)
				if got, want := math32.Copysign(x, y), float32(math.Copysign(fx, fy)); math.Float32bits(got) != math.Float32bits(want) && !(x != x) {
					t.Failf("math32.Copysign(%v,%v)=%v want %v", x, y, got, want)
				}
				if got, want := math32.Max(x, y), float32(math.Max(fx, fy)); !same32(got, want) {
					t.Failf("math32.Max(%v,%v)=%v want %v", x, y, got, want)
				}
				if got, want := math32.Min(x, y), float32(math.Min(fx, fy)); !same32(got, want) {
					t.Failf("math32.Min(%v,%v)=%v want %v", x, y, got, want)
				}
				want := math.Hypot(fx, fy)
				got := float64(math32.Hypot(x, y))
				w32 := float32(want)
				switch {
				case math.IsNaN(want) || math.IsInf(want, 0) || want == 0:
					if !same32(float32(got), w32) {
						t.Failf("math32.Hypot(%v,%v)=%v want %v", x, y, got, want)
					}
				case math32.IsInf(w32, 0):
					// the exact value overflows float32 or rounds to +Inf: +Inf or MaxFloat32 are both within 1 ulp
					if !(math.IsInf(got, 1) || got == math.MaxFloat32) {
						t.Failf("math32.Hypot(%v,%v)=%v want overflow", x, y, got)
					}
				default:
					if math.IsNaN(got) || math.Abs(got-want) > 2*ulp32(want) {
						t.Failf("math32.Hypot(%v,%v)=%v want %v", x, y, got, want)
					}
				}
				z := complex(x, y)
				if got, want := cmplx64.Abs(z), math32.Hypot(x, y); !same32(got, want) {
					t.Failf("cmplx64.Abs(%v)=%v want Hypot=%v", z, got, want)
				}
				if got := cmplx64.Conj(z); math.Float32bits(real(got)) != math.Float32bits(x) || math.Float32bits(imag(got)) != math.Float32bits(-y) && !(y != y) {
					t.Failf("cmplx64.Conj(%v)=%v", z, got)
				}
				if got, want := cmplx64.IsInf(z), cmplx.IsInf(complex128(z)); got != want {
					t.Failf("cmplx64.IsInf(%v)=%v", z, got)
				}
				if got, want := cmplx64.IsNaN(z), cmplx.IsNaN(complex128(z)); got != want {
					t.Failf("cmplx64.IsNaN(%v)=%v", z, got)
				}
			}
		}
		if !cmplx64.IsInf(cmplx64.Inf()) || !cmplx64.IsNaN(cmplx64.NaN()) {
			t.Failf("cmplx64.Inf/NaN constants")
		}
		t.Nontrivial()
		t.Outcome("math32")
	})
	for e0 := -150; e0 <= 128; e0 += 31 {
		e0 := e0
		g.Case(fmt.Sprintf("math32.Sqrt exponents %d..%d", e0, e0+30), func(t *vlib.T) {
			n := 0
			for e := e0; e <= e0+30 && e <= 128; e++ {
				for _, m := range []float64{1, 1.0000001192092896, 1.25, 1.5, 1.75, 1.9999998807907104, 1.4142135381698608, 1.3333333730697632} {
					for _, sgn := range []float64{1, -1} {
						x := float32(sgn * math.Ldexp(m, e))
						got, want := math32.Sqrt(x), float32(math.Sqrt(float64(x)))
						n++
						if !same32(got, want) {
							t.Failf("math32.Sqrt(%v)=%v want %v", x, got, want)
						}
					}
				}
			}
			for _, x := range d32 {
				if got, want := math32.Sqrt(x), float32(math.Sqrt(float64(x))); !same32(got, want) {
					t.Failf("math32.Sqrt(%v)=%v want %v", x, got, want)
				}
			}
			t.Count("points", int64(n))
			t.Nontrivial()
			t.Outcome("sqrt32")
		})
	}
	g.Case("cmplx64.Sqrt grid", func(t *vlib.T) {
		parts := []float32{0, 1, -1, 2, -2, 0.5, -0.5, 3, -3, 4, -4, 100, -100, 1e10, -1e10, 1e-10, -1e-10, 1e30, -1e30, 1e-30}
		for _, re := range parts {
			for _, im := range parts {
				z := complex(re, im)
				got := cmplx64.Sqrt(z)
				want := cmplx.Sqrt(complex128(z))
				if err := cmplx.Abs(complex128(got) - want); math.IsNaN(err) || err > 8*0x1p-23*cmplx.Abs(want) {
					t.Failf("cmplx64.Sqrt(%v)=%v want %v", z, got, want)
				}
				// "The result r is chosen so that real(r) >= 0 and imag(r) has the same sign as imag(x)."
				if real(got) < 0 || (im > 0 && imag(got) < 0) || (im < 0 && imag(got) > 0) {
					t.Failf("cmplx64.Sqrt(%v)=%v: wrong branch", z, got)
				}
			}
		}
		t.Nontrivial()
		t.Outcome("csqrt")
	})
}

func genScalarRound(g *vlib.G) {
	g.Case("scalar.Round/RoundEven grid", func(t *vlib.T) {
		xs := []float64{0, negz, pinf, ninf, nan, 1e300, -1e300, 1234.5, 125, 135, 15, 25, 150, 250, -150, -250, 1e-300}
		for k := -40; k <= 40; k++ {
			xs = append(xs, float64(k)/8)
		}
		n := 0
		for _, x := range xs {
			for _, prec := range []int{-400, -3, -2, -1, 0, 1, 2, 3, 400} {
				if math.Abs(x) >= 1e300 && !math.IsInf(x, 0) && absInt(prec) < 400 && prec != 0 {
					continue // x*10^prec is far from exact: the implementation may be an ulp off the exact rounding (don't-care)
				}
				for _, even := range []bool{false, true} {
					n++
					var got float64
					name := "Round"
					if even {
						got, name = scalar.RoundEven(x, prec), "RoundEven"
					} else {
						got = scalar.Round(x, prec)
					}
					want := oracleRound(x, prec, even)
					if !vlib.EqVal(got, want, true) {
						if math.IsInf(x, 0) && math.IsNaN(got) {
							// documented: Round(±Inf) = ±Inf
							classed(t, "round-inf-extreme-negprec-nan", fmt.Sprintf("%s x=%v prec=%d", name, x, prec), "%s(%v,%d)=%v want %v", name, x, prec, got, want)
							continue
						}
						t.Failf("%s(%v,%d)=%s want %s", name, x, prec, vlib.B64(got), vlib.B64(want))
					}
				}
			}
		}
		t.Count("points", int64(n))
		t.Nontrivial()
		t.Outcome("round")
	})
}
