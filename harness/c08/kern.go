package main

import (
	"fmt"
	"math"
	"strings"
	"unsafe"

	"gonum.org/v1/gonum/internal/verif/vlib"
)

// kcall carries the arguments and results of one invocation, both for the
// code under test (operands in guarded storage) and for the reference
// (operands are plain heap copies with the same aliasing structure).
type kcall[T num] struct {
	n     int
	v     [4][]T
	inc   [4]int // increments (may be negative for kernels taking index offsets)
	idx   [4]int // index offsets
	alpha T
	res   complex128 // scalar result, widened exactly
	ret   []T        // returned slice, if the function returns one
}

// u converts an increment or index to the uintptr the kernels take (negative
// increments wrap, as in the BLAS callers).
func u(i int) uintptr { return uintptr(i) }

// kop describes one function under test.
type kop[T num] struct {
	name  string
	nv    int   // number of vector operands
	wr    int   // written operand, -1 if none
	alias []int // operands the written one may alias exactly (documented or used by gonum itself)
	alpha int   // 0: no scalar, 1: scalar of type T, 2: real scalar (stored in the real part of alpha)
	fill  [4]fillKind
	ninc  int     // Inc kernels: number of operands with an increment
	hasIx bool    // Inc kernels: index offsets (and therefore negative increments) are part of the signature
	incOf [4]int  // Inc kernels: operand k uses increment slot incOf[k]; len ninc
	red   bool    // returns a scalar
	rets  bool    // returns the destination slice
	lane  bool    // every output lane depends on the same lane of the inputs only (special values class applies)
	tol   float64 // >0: the scalar result is compared with relative tolerance tol*(n+4) instead of bit for bit
	sred  int     // 0: not a reduction with a special-values class; 1: additive; 2: L2 norm; 3: inf-norm (NaN excluded)
	run   func(c *kcall[T])
	ref   func(c *kcall[T])
}

func (o *kop[T]) isInc() bool { return o.ninc > 0 }

// ---------------- reference loops: the documented scalar definitions ----------------

func refAxpyUnitary[T num](c *kcall[T]) {
	x, y := c.v[0], c.v[1]
	for i, v := range x {
		y[i] += c.alpha * v
	}
}

func refAxpyUnitaryTo[T num](c *kcall[T]) {
	dst, x, y := c.v[0], c.v[1], c.v[2]
	for i, v := range x {
		dst[i] = c.alpha*v + y[i]
	}
}

func refAxpyInc[T num](c *kcall[T]) {
	x, y := c.v[0], c.v[1]
	ix, iy := c.idx[0], c.idx[1]
	for i := 0; i < c.n; i++ {
		y[iy] += c.alpha * x[ix]
		ix += c.inc[0]
		iy += c.inc[1]
	}
}

func refAxpyIncTo[T num](c *kcall[T]) {
	dst, x, y := c.v[0], c.v[1], c.v[2]
	idst, ix, iy := c.idx[0], c.idx[1], c.idx[2]
	for i := 0; i < c.n; i++ {
		dst[idst] = c.alpha*x[ix] + y[iy]
		ix += c.inc[1]
		iy += c.inc[2]
		idst += c.inc[0]
	}
}

func refScalUnitary[T num](c *kcall[T]) {
	x := c.v[0]
	for i := range x {
		x[i] *= c.alpha
	}
}

func refScalUnitaryTo[T num](c *kcall[T]) {
	dst, x := c.v[0], c.v[1]
	for i, v := range x {
		dst[i] = c.alpha * v
	}
}

func refScalInc[T num](c *kcall[T]) {
	x := c.v[0]
	ix := 0
	for i := 0; i < c.n; i++ {
		x[ix] *= c.alpha
		ix += c.inc[0]
	}
}

func refScalIncTo[T num](c *kcall[T]) {
	dst, x := c.v[0], c.v[1]
	var idst, ix int
	for i := 0; i < c.n; i++ {
		dst[idst] = c.alpha * x[ix]
		ix += c.inc[1]
		idst += c.inc[0]
	}
}

func refAdd[T num](c *kcall[T]) {
	dst, s := c.v[0], c.v[1]
	for i, v := range s {
		dst[i] += v
	}
}

func refAddConst[T num](c *kcall[T]) {
	x := c.v[0]
	for i := range x {
		x[i] += c.alpha
	}
}

func refDiv[T num](c *kcall[T]) {
	dst, s := c.v[0], c.v[1]
	for i, v := range s {
		dst[i] /= v
	}
}

func refDivTo[T num](c *kcall[T]) {
	dst, s, t := c.v[0], c.v[1], c.v[2]
	for i, v := range s {
		dst[i] = v / t[i]
	}
	c.ret = dst
}

func refCumSum[T num](c *kcall[T]) {
	dst, s := c.v[0], c.v[1]
	c.ret = dst
	if len(s) == 0 {
		return
	}
	dst[0] = s[0]
	for i, v := range s[1:] {
		dst[i+1] = dst[i] + v
	}
}

func refCumProd[T num](c *kcall[T]) {
	dst, s := c.v[0], c.v[1]
	c.ret = dst
	if len(s) == 0 {
		return
	}
	dst[0] = s[0]
	for i, v := range s[1:] {
		dst[i+1] = dst[i] * v
	}
}

func refSum[T num](c *kcall[T]) {
	var sum T
	for _, v := range c.v[0] {
		sum += v
	}
	c.res = toC(sum)
}

func refDotUnitary[T num](c *kcall[T]) { // real types, and Dotu for complex types
	x, y := c.v[0], c.v[1]
	var sum T
	for i, v := range x {
		sum += y[i] * v
	}
	c.res = toC(sum)
}

func refDotInc[T num](c *kcall[T]) {
	x, y := c.v[0], c.v[1]
	ix, iy := c.idx[0], c.idx[1]
	var sum T
	for i := 0; i < c.n; i++ {
		sum += y[iy] * x[ix]
		ix += c.inc[0]
		iy += c.inc[1]
	}
	c.res = toC(sum)
}

func refMul[T num](c *kcall[T]) {
	dst, s := c.v[0], c.v[1]
	for i, v := range s {
		dst[i] *= v
	}
}

func refMulTo[T num](c *kcall[T]) {
	dst, s, t := c.v[0], c.v[1], c.v[2]
	for i, v := range t {
		dst[i] = v * s[i]
	}
	c.ret = dst
}

func refSub[T num](c *kcall[T]) {
	dst, s := c.v[0], c.v[1]
	for i, v := range s {
		dst[i] -= v
	}
}

func refAddTo[T num](c *kcall[T]) {
	dst, s, t := c.v[0], c.v[1], c.v[2]
	for i, v := range s {
		dst[i] = v + t[i]
	}
	c.ret = dst
}

func refSubTo[T num](c *kcall[T]) {
	dst, s, t := c.v[0], c.v[1], c.v[2]
	for i, v := range s {
		dst[i] = v - t[i]
	}
	c.ret = dst
}

func refAddScaled[T num](c *kcall[T]) {
	dst, s := c.v[0], c.v[1]
	for i, v := range s {
		dst[i] = dst[i] + c.alpha*v
	}
}

func refAddScaledTo[T num](c *kcall[T]) {
	dst, y, s := c.v[0], c.v[1], c.v[2]
	for i, v := range s {
		dst[i] = y[i] + c.alpha*v
	}
	c.ret = dst
}

func refScaleTo[T num](c *kcall[T]) {
	refScalUnitaryTo(c)
	c.ret = c.v[0]
}

func refReverse[T num](c *kcall[T]) {
	s := c.v[0]
	for i, j := 0, len(s)-1; i < j; i, j = i+1, j-1 {
		s[i], s[j] = s[j], s[i]
	}
}

func refProd[T num](c *kcall[T]) {
	p := mk[T](1, 0)
	for _, v := range c.v[0] {
		p *= v
	}
	c.res = toC(p)
}

// ---------------- driver ----------------

const faultPrefix = "panic/fault: "

// classify returns the finding class of a genuine gonum defect found by this
// harness (see NOTES.md for the reproductions), or "". Only the exact symptom
// is tagged; any other deviation of the same kernel is reported unclassified.
func classify(opName, msg string) string {
	fault := strings.HasPrefix(msg, faultPrefix)
	switch opName {
	case "c64.DotcInc", "c64.DotuInc":
		if fault {
			return "c64-dotinc-tail-overread"
		}
	case "c64.AxpyUnitaryTo":
		if fault {
			return "c64-axpyunitaryto-n1-runaway"
		}
	case "f64.L1Norm", "f64.L1NormInc":
		if strings.Contains(msg, "result (NaN+0i) want (+Inf+0i)") {
			return "l1norm-asm-inf-nan"
		}
	}
	return ""
}

// classed records a symptom of a known finding class as a sub-violation of
// its own, so that it can be listed (or fixed) by class without hiding any
// unclassified failure of the same case.
func classed(t *vlib.T, class, sub, format string, a ...any) {
	t.SubViolation(" / "+sub, class, nil, format, a...)
}

func report(t *vlib.T, opName, msg, format string, a ...any) {
	t.Outcome("FAIL " + opName)
	if cl := classify(opName, msg); cl != "" {
		t.FailClass(cl, format, a...)
		return
	}
	t.Failf(format, a...)
}

// exactAlphas are the scalars of the exact value class.
func exactAlphas[T num](mode int) []T {
	if mode == 2 || !isCplx[T]() {
		return []T{mk[T](2, 0), mk[T](-1, 0), mk[T](0, 0), mk[T](0.5, 0), mk[T](1, 0)}
	}
	return []T{mk[T](2, -1), mk[T](0, 1), mk[T](0, 0), mk[T](-0.5, 0), mk[T](1, 0)}
}

// opLen is the slice length of an operand of an Inc kernel: the smallest that
// contains every addressed element, plus tail extra elements.
func opLen(n, inc, idx, tail int) int {
	if n == 0 {
		return idx + tail
	}
	if inc > 0 {
		return idx + (n-1)*inc + 1 + tail
	}
	return idx + 1 + tail
}

// evalSpec is one concrete evaluation of an operation.
type evalSpec[T num] struct {
	op      *kop[T]
	n       int
	pl      int
	plStep  int // operand k gets interior offset (pl + k*plStep) % 8
	aliasTo int // -1, or the operand the written one aliases
	alpha   T
	inc     [4]int // per increment slot
	idx     [4]int // per operand
	tail    int    // extra elements at the end of every operand (Inc kernels)
	seed    uint64
	special func(k int, s []T, n, inc, idx int) // if set, overrides the exact fill of operand k (after it)
	lenient bool
	// judge, if set, replaces the comparison with the reference loop: it
	// receives the state after the call (c) and copies of the inputs as they
	// were before it (in), and returns "" or a description of the violation.
	// Read-only operands and all margins are still compared bit for bit.
	judge func(c, in *kcall[T]) string
}

type evaluator[T num] struct {
	ab *alphabet[T]
}

// eval runs one evaluation and returns "" or a description of the violation.
func (ev *evaluator[T]) eval(e *evalSpec[T]) string {
	op := e.op
	var ops [4]*opnd[T]
	var c, r kcall[T]
	c.n, r.n = e.n, e.n
	c.alpha, r.alpha = e.alpha, e.alpha
	shared := func(k int) bool { return e.aliasTo >= 0 && k == e.aliasTo }
	for k := 0; k < op.nv; k++ {
		inc, idx := 1, 0
		L := e.n
		if op.isInc() {
			inc, idx = e.inc[op.incOf[k]], e.idx[k]
			L = opLen(e.n, inc, idx, e.tail)
		}
		c.inc[k], r.inc[k], c.idx[k], r.idx[k] = inc, inc, idx, idx
		var o *opnd[T]
		if shared(k) {
			// exact aliasing: operand k is the destination (operand 0) itself;
			// the shared storage holds operand k's alphabet.
			o = ops[0]
		} else {
			pl := e.pl
			if pl < 8 {
				pl = (pl + k*e.plStep) % 8
			}
			o = place[T](k, L, pl)
		}
		ops[k] = o
		c.v[k] = o.s
		if op.fill[k] != fNone {
			ev.ab.fill(o.s, op.fill[k], e.n, absInt(inc), startIdx(e.n, inc, idx), e.seed+uint64(k)*977)
		}
		if e.special != nil {
			e.special(k, o.s, e.n, inc, idx)
		}
	}
	for k := 0; k < op.nv; k++ {
		if shared(k) {
			r.v[k] = r.v[0]
			continue
		}
		ops[k].snapshot()
		r.v[k] = append(make([]T, 0, len(ops[k].s)), ops[k].s...)
	}
	if msg := try(func() { op.run(&c) }); msg != "" {
		return faultPrefix + msg
	}
	if e.judge != nil {
		if msg := e.judge(&c, &r); msg != "" {
			return msg
		}
		if op.wr >= 0 {
			r.v[op.wr] = append([]T(nil), c.v[op.wr]...) // only the margins of the destination are compared below
		}
	} else {
		op.ref(&r)
	}
	for k := 0; k < op.nv; k++ {
		if shared(k) {
			continue
		}
		mode := cmpBits
		if e.lenient && k == op.wr {
			mode = cmpNaN
		}
		if msg := ops[k].check(r.v[k], mode); msg != "" {
			role := "read-only operand"
			if k == op.wr {
				role = "destination"
			}
			return fmt.Sprintf("%s %d: %s", role, k, msg)
		}
	}
	if op.red && e.judge == nil {
		ok := sameBitsC(c.res, r.res)
		if e.lenient {
			ok = sameClass(c.res, r.res)
		}
		if !ok && op.tol > 0 && !e.lenient {
			got, want := real(c.res), real(r.res)
			ok = got >= 0 && imag(c.res) == 0 && math.Abs(got-want) <= op.tol*float64(e.n+4)*want
		}
		if !ok {
			return fmt.Sprintf("result %v want %v", c.res, r.res)
		}
	}
	if op.rets {
		d := c.v[op.wr]
		if len(c.ret) != len(d) || cap(c.ret) != cap(d) || (len(d) > 0 && unsafe.Pointer(&c.ret[0]) != unsafe.Pointer(&d[0])) {
			return fmt.Sprintf("returned slice is not dst (len %d cap %d, dst len %d cap %d)", len(c.ret), cap(c.ret), len(d), cap(d))
		}
	}
	return ""
}

// startIdx is the smallest addressed index of an operand (the fill walks up from it).
func startIdx(n, inc, idx int) int {
	if inc < 0 && n > 0 {
		return idx + (n-1)*inc
	}
	return idx
}

// absInt is |i|.
func absInt(i int) int {
	if i < 0 {
		return -i
	}
	return i
}

func (e *evalSpec[T]) String() string {
	return fmt.Sprintf("alias=%d alpha=%v inc=%v idx=%v tail=%d", e.aliasTo, e.alpha, e.inc[:e.op.ninc], e.idx[:e.op.nv], e.tail)
}

// aliasModes lists -1 (distinct) followed by the op's aliasing modes.
func aliasModes[T num](op *kop[T]) []int {
	return append([]int{-1}, op.alias...)
}

// longLens are the sampled large lengths.
func longLens(g *vlib.G) []int {
	return vlib.Pick(g,
		[]int{71, 96, 127, 128, 129, 255, 257, 1000, 4099},
		[]int{71, 72, 95, 96, 97, 127, 128, 129, 191, 255, 256, 257, 511, 513, 1000, 1023, 1025, 2047, 4096, 4099, 9999, 10000})
}

// genUnitary enumerates (op, n, placement) for the non-Inc operations of a
// table; inside one case it loops over aliasing modes, scalars and two fill
// patterns.
func genUnitary[T num](tab []*kop[T]) func(g *vlib.G) {
	return func(g *vlib.G) {
		ev := &evaluator[T]{ab: newAlphabet[T]()}
		alphaCache := map[int][]T{0: {mk[T](1, 0)}, 1: exactAlphas[T](1), 2: exactAlphas[T](2)}
		for _, op := range tab {
			if op.isInc() {
				continue
			}
			op := op
			lens := vlib.Ints(0, vlib.Pick(g, 70, 130))
			nShort := len(lens)
			for _, n := range longLens(g) {
				if n > lens[nShort-1] {
					lens = append(lens, n)
				}
			}
			for li, n := range lens {
				pls := []int{0, 1, 2, 3, 4, 5, 6, 7, plEnd, plStart}
				if li >= nShort {
					pls = []int{n % 8, plEnd}
				}
				for _, pl := range pls {
					n, pl := n, pl
					g.Case(fmt.Sprintf("%s n=%d pl=%s", op.name, n, plName(pl)), func(t *vlib.T) {
						steps := []int{3}
						if g.Thorough() && pl < 8 && li < nShort {
							steps = []int{0, 1, 2, 3, 4, 5, 6, 7}
						}
						evals := 0
						for _, st := range steps {
							for _, am := range aliasModes(op) {
								for ai, alpha := range alphaCache[op.alpha] {
									for seed := uint64(0); seed < 2; seed++ {
										if li >= nShort && (seed > 0 || ai > 1) {
											continue
										}
										e := &evalSpec[T]{op: op, n: n, pl: pl, plStep: st, aliasTo: am, alpha: alpha, seed: seed*31 + uint64(n)}
										evals++
										if msg := ev.eval(e); msg != "" {
											report(t, op.name, msg, "%s [%s step=%d seed=%d]: %s", op.name, e, st, seed, msg)
											return
										}
									}
								}
							}
						}
						t.Count("kernel_evaluations", int64(evals))
						if n >= 2 {
							t.Nontrivial()
						}
						t.Outcome(fmt.Sprintf("%s n%%8=%d", op.name, n%8))
					})
				}
			}
		}
	}
}

// incSets returns the increments enumerated for an Inc kernel.
func incSet(g *vlib.G, hasIx bool) []int {
	if hasIx {
		return []int{1, 2, 3, 4, 5, -1, -2, -3}
	}
	return []int{1, 2, 3, 4, 5}
}

// genInc enumerates (op, n, increments, placement) for the Inc kernels; inside
// one case it loops over index offsets, aliasing modes, trailing slack and
// scalars.
func genInc[T num](tab []*kop[T]) func(g *vlib.G) {
	return func(g *vlib.G) {
		ev := &evaluator[T]{ab: newAlphabet[T]()}
		na := vlib.Pick(g, 3, 5)
		alphaCache := map[int][]T{0: {mk[T](1, 0)}, 1: exactAlphas[T](1)[:na], 2: exactAlphas[T](2)[:na]}
		for _, op := range tab {
			if !op.isInc() {
				continue
			}
			op := op
			incs := incSet(g, op.hasIx)
			if op.ninc == 3 && !g.Thorough() {
				incs = []int{1, 2, 3, 5, -1, -2} // the three-increment kernels get the full set in the thorough tier
			}
			rad := make([]int, op.ninc)
			for i := range rad {
				rad[i] = len(incs)
			}
			lens := append(vlib.Ints(0, 70), vlib.Pick(g, []int{129, 1000}, []int{127, 129, 1000, 4099})...)
			for _, n := range lens {
				vlib.Product(rad, func(ii []int) bool {
					var inc [4]int
					for s := range ii {
						inc[s] = incs[ii[s]]
					}
					if n > 70 && !(absInt(inc[0]) <= 2 || inc[0] == 5) {
						return true
					}
					for _, pl := range []int{n % 8, plEnd, plStart} {
						n, pl, inc := n, pl, inc
						g.Case(fmt.Sprintf("%s n=%d inc=%v pl=%s", op.name, n, inc[:op.ninc], plName(pl)), func(t *vlib.T) {
							evals := 0
							offs := [][4]int{{0, 0, 0, 0}}
							if op.hasIx {
								offs = append(offs, [4]int{1, 0, 2, 0}, [4]int{0, 3, 1, 0})
								if g.Thorough() {
									offs = append(offs, [4]int{4, 4, 4, 0}, [4]int{2, 1, 0, 0}, [4]int{3, 5, 7, 0})
								}
							}
							for _, off := range offs {
								for _, am := range aliasModes(op) {
									if am >= 0 && (inc[op.incOf[am]] != inc[op.incOf[op.wr]] || off[am] != off[op.wr]) {
										continue // exact aliasing needs the same stride and offset
									}
									for _, tail := range []int{0, 2} {
										if am >= 0 && tail > 0 {
											continue
										}
										for ai, alpha := range alphaCache[op.alpha] {
											if n > 70 && ai > 0 {
												continue
											}
											e := &evalSpec[T]{op: op, n: n, pl: pl, plStep: 3, aliasTo: am, alpha: alpha, inc: inc, tail: tail, seed: uint64(n) + 7}
											for k := 0; k < op.nv; k++ {
												e.idx[k] = off[k]
												if i := inc[op.incOf[k]]; i < 0 && n > 0 {
													e.idx[k] = off[k] + (n-1)*(-i)
												}
											}
											evals++
											if msg := ev.eval(e); msg != "" {
												report(t, op.name, msg, "%s [%s]: %s", op.name, e, msg)
												return
											}
										}
									}
								}
							}
							t.Count("kernel_evaluations", int64(evals))
							if n >= 2 {
								t.Nontrivial()
							}
							neg := 0
							for s := 0; s < op.ninc; s++ {
								if inc[s] < 0 {
									neg++
								}
							}
							t.Outcome(fmt.Sprintf("%s n%%4=%d neg=%d", op.name, n%4, neg))
						})
					}
					return true
				})
			}
		}
	}
}
