// Harness C08: slice primitives equal their scalar definitions in every
// build configuration. See NOTES.md for what is covered and how.
package main

import "gonum.org/v1/gonum/internal/verif/vlib"

func main() {
	vlib.Main("C08",
		vlib.Group{Name: "f64-unitary", Gen: genUnitary(f64Table())},
		vlib.Group{Name: "f32-unitary", Gen: genUnitary(f32Table())},
		vlib.Group{Name: "c128-unitary", Gen: genUnitary(c128Table())},
		vlib.Group{Name: "c64-unitary", Gen: genUnitary(c64Table())},
		vlib.Group{Name: "f64-inc", Gen: genInc(f64Table())},
		vlib.Group{Name: "f32-inc", Gen: genInc(f32Table())},
		vlib.Group{Name: "c128-inc", Gen: genInc(c128Table())},
		vlib.Group{Name: "c64-inc", Gen: genInc(c64Table())},
		vlib.Group{Name: "floats-elem", Gen: genUnitary(floatsTable())},
		vlib.Group{Name: "cmplxs-elem", Gen: genUnitary(cmplxsTable())},
		vlib.Group{Name: "floats-bounds", Gen: genBounds(floatsTable())},
		vlib.Group{Name: "cmplxs-bounds", Gen: genBounds(cmplxsTable())},
		vlib.Group{Name: "floats-special-lane", Gen: genLaneSpecials(floatsTable(), specials64())},
		vlib.Group{Name: "floats-special-red", Gen: genReductionSpecials(floatsTable(), specials64())},
		vlib.Group{Name: "floats-order", Gen: genFloatsOrder},
		vlib.Group{Name: "floats-span", Gen: genFloatsSpan},
		vlib.Group{Name: "floats-within", Gen: genFloatsWithin},
		vlib.Group{Name: "floats-logsumexp", Gen: genFloatsLogSumExp},
		vlib.Group{Name: "cmplxs-misc", Gen: genCmplxsMisc},
		vlib.Group{Name: "cmplxs-span", Gen: genCmplxsSpan},
		vlib.Group{Name: "scalar", Gen: genScalar},
		vlib.Group{Name: "scalar-round", Gen: genScalarRound},
		vlib.Group{Name: "spatial", Gen: genSpatial},
		vlib.Group{Name: "spatial-triangles", Gen: genSpatialTriangles},
		vlib.Group{Name: "f64-ge", Gen: genGe(geF64())},
		vlib.Group{Name: "f32-ge", Gen: genGe(geF32())},
		vlib.Group{Name: "blas64-ge", Gen: genGe(geBlas64())},
		vlib.Group{Name: "blas32-ge", Gen: genGe(geBlas32())},
		vlib.Group{Name: "f64-bounds", Gen: genBounds(f64Table())},
		vlib.Group{Name: "f32-bounds", Gen: genBounds(f32Table())},
		vlib.Group{Name: "c128-bounds", Gen: genBounds(c128Table())},
		vlib.Group{Name: "c64-bounds", Gen: genBounds(c64Table())},
		vlib.Group{Name: "dlassq", Gen: genDlassq},
		vlib.Group{Name: "f64-special-lane", Gen: genLaneSpecials(f64Table(), specials64())},
		vlib.Group{Name: "f32-special-lane", Gen: genLaneSpecials(f32Table(), specials32())},
		vlib.Group{Name: "f64-special-red", Gen: genReductionSpecials(f64Table(), specials64())},
		vlib.Group{Name: "f32-special-red", Gen: genReductionSpecials(f32Table(), specials32())},
	)
}
