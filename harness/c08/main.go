// Harness C08: slice primitives equal their scalar definitions.
package main

import (
	"fmt"

	"gonum.org/v1/gonum/internal/asm/f64"
	"gonum.org/v1/gonum/internal/verif/vlib"
)

func main() {
	vlib.Main("C08", vlib.Group{Name: "f64-axpy-unitary", Gen: genAxpyUnitary})
}

// carve returns a slice of length n at offset off inside a poisoned backing array.
func carve(n, off int) (backing, s []float64) {
	backing = make([]float64, n+off+9)
	vlib.FillPoison64(backing)
	return backing, backing[off : off+n : off+n]
}

func genAxpyUnitary(g *vlib.G) {
	maxN := vlib.Pick(g, 40, 70)
	for n := 0; n <= maxN; n++ {
		for off := 0; off < 8; off++ {
			for _, alpha := range []float64{0, 1, -1, 2, 0.5} {
				n, off, alpha := n, off, alpha
				g.Case(fmt.Sprintf("n=%d off=%d alpha=%v", n, off, alpha), func(t *vlib.T) {
					bx, x := carve(n, off)
					by, y := carve(n, (off+3)%8)
					want := make([]float64, n)
					for i := range x {
						x[i] = float64(i%7 - 3)
						y[i] = float64(i%5 - 2)
						want[i] = alpha*x[i] + y[i]
					}
					bx0 := append([]float64(nil), bx...)
					by0 := append([]float64(nil), by...)
					f64.AxpyUnitary(alpha, x, y)
					if i, ok := vlib.Same64(y, want); !ok {
						t.Failf("y[%d]=%v want %v", i, y[i], want[i])
					}
					if i, ok := vlib.Same64(bx, bx0); !ok {
						t.Failf("x backing modified at %d", i)
					}
					copy(by0[(off+3)%8:], want)
					if i, ok := vlib.Same64(by, by0); !ok {
						t.Failf("y backing modified outside window at %d", i)
					}
					if n >= 2 {
						t.Nontrivial()
					}
					t.Outcome(fmt.Sprintf("n%%8=%d", n%8))
				})
			}
		}
	}
}
