package main

import (
	"math"

	"gonum.org/v1/gonum/cmplxs"
	"gonum.org/v1/gonum/floats"
)

// Tables of the element-wise and reduction functions of the public packages
// floats and cmplxs (the search/ordering helpers and predicates are checked
// exhaustively on tiny domains in search.go).

func floatsTable() []*k64 {
	const eps = 0x1p-52
	inf := math.Inf(1)
	r := func(v float64) complex128 { return complex(v, 0) }
	return []*k64{
		{name: "floats.Add", nv: 2, wr: 0, alias: []int{1}, fill: fk(fInt, fInt), lane: true,
			run: func(c *c64k) { floats.Add(c.v[0], c.v[1]) }, ref: refAdd[float64]},
		{name: "floats.AddTo", nv: 3, wr: 0, alias: []int{1, 2}, fill: fk(fNone, fInt, fInt), rets: true, lane: true,
			run: func(c *c64k) { c.ret = floats.AddTo(c.v[0], c.v[1], c.v[2]) }, ref: refAddTo[float64]},
		{name: "floats.AddConst", nv: 1, wr: 0, alpha: 1, fill: fk(fInt), lane: true,
			run: func(c *c64k) { floats.AddConst(c.alpha, c.v[0]) }, ref: refAddConst[float64]},
		{name: "floats.AddScaled", nv: 2, wr: 0, alias: []int{1}, alpha: 1, fill: fk(fInt, fInt), lane: true,
			run: func(c *c64k) { floats.AddScaled(c.v[0], c.alpha, c.v[1]) }, ref: refAddScaled[float64]},
		{name: "floats.AddScaledTo", nv: 3, wr: 0, alias: []int{1, 2}, alpha: 1, fill: fk(fNone, fInt, fInt), rets: true, lane: true,
			run: func(c *c64k) { c.ret = floats.AddScaledTo(c.v[0], c.v[1], c.alpha, c.v[2]) }, ref: refAddScaledTo[float64]},
		{name: "floats.CumProd", nv: 2, wr: 0, alias: []int{1}, fill: fk(fNone, fPow2), rets: true,
			run: func(c *c64k) { c.ret = floats.CumProd(c.v[0], c.v[1]) }, ref: refCumProd[float64]},
		{name: "floats.CumSum", nv: 2, wr: 0, alias: []int{1}, fill: fk(fNone, fInt), rets: true,
			run: func(c *c64k) { c.ret = floats.CumSum(c.v[0], c.v[1]) }, ref: refCumSum[float64]},
		{name: "floats.Div", nv: 2, wr: 0, alias: []int{1}, fill: fk(fInt, fDiv), lane: true,
			run: func(c *c64k) { floats.Div(c.v[0], c.v[1]) }, ref: refDiv[float64]},
		{name: "floats.DivTo", nv: 3, wr: 0, alias: []int{1, 2}, fill: fk(fNone, fInt, fDiv), rets: true, lane: true,
			run: func(c *c64k) { c.ret = floats.DivTo(c.v[0], c.v[1], c.v[2]) }, ref: refDivTo[float64]},
		{name: "floats.Mul", nv: 2, wr: 0, alias: []int{1}, fill: fk(fInt, fInt), lane: true,
			run: func(c *c64k) { floats.Mul(c.v[0], c.v[1]) }, ref: refMul[float64]},
		{name: "floats.MulTo", nv: 3, wr: 0, alias: []int{1, 2}, fill: fk(fNone, fInt, fInt), rets: true, lane: true,
			run: func(c *c64k) { c.ret = floats.MulTo(c.v[0], c.v[1], c.v[2]) }, ref: refMulTo[float64]},
		{name: "floats.Scale", nv: 1, wr: 0, alpha: 1, fill: fk(fInt), lane: true,
			run: func(c *c64k) { floats.Scale(c.alpha, c.v[0]) }, ref: refScalUnitary[float64]},
		{name: "floats.ScaleTo", nv: 2, wr: 0, alias: []int{1}, alpha: 1, fill: fk(fNone, fInt), rets: true, lane: true,
			run: func(c *c64k) { c.ret = floats.ScaleTo(c.v[0], c.alpha, c.v[1]) }, ref: refScaleTo[float64]},
		{name: "floats.Sub", nv: 2, wr: 0, alias: []int{1}, fill: fk(fInt, fInt), lane: true,
			run: func(c *c64k) { floats.Sub(c.v[0], c.v[1]) }, ref: refSub[float64]},
		{name: "floats.SubTo", nv: 3, wr: 0, alias: []int{1, 2}, fill: fk(fNone, fInt, fInt), rets: true, lane: true,
			run: func(c *c64k) { c.ret = floats.SubTo(c.v[0], c.v[1], c.v[2]) }, ref: refSubTo[float64]},
		{name: "floats.Reverse", nv: 1, wr: 0, fill: fk(fInt),
			run: func(c *c64k) { floats.Reverse(c.v[0]) }, ref: refReverse[float64]},
		{name: "floats.Dot", nv: 2, wr: -1, fill: fk(fInt, fInt), red: true, sred: 1,
			run: func(c *c64k) { c.res = r(floats.Dot(c.v[0], c.v[1])) }, ref: refDotUnitary[float64]},
		{name: "floats.Sum", nv: 1, wr: -1, fill: fk(fInt), red: true, sred: 1,
			run: func(c *c64k) { c.res = r(floats.Sum(c.v[0])) }, ref: refSum[float64]},
		{name: "floats.SumCompensated", nv: 1, wr: -1, fill: fk(fInt), red: true,
			run: func(c *c64k) { c.res = r(floats.SumCompensated(c.v[0])) }, ref: refSum[float64]},
		{name: "floats.Prod", nv: 1, wr: -1, fill: fk(fPow2), red: true,
			run: func(c *c64k) { c.res = r(floats.Prod(c.v[0])) }, ref: refProd[float64]},
		{name: "floats.Norm1", nv: 1, wr: -1, fill: fk(fInt), red: true, sred: 1,
			run: func(c *c64k) { c.res = r(floats.Norm(c.v[0], 1)) },
			ref: func(c *c64k) {
				var s float64
				for _, v := range c.v[0] {
					s += math.Abs(v)
				}
				c.res = r(s)
			}},
		{name: "floats.Norm2", nv: 1, wr: -1, fill: fk(fInt), red: true, sred: 2, tol: eps,
			run: func(c *c64k) { c.res = r(floats.Norm(c.v[0], 2)) }, ref: refL2[float64]},
		{name: "floats.NormInf", nv: 1, wr: -1, fill: fk(fInt), red: true, sred: 3,
			run: func(c *c64k) { c.res = r(floats.Norm(c.v[0], inf)) },
			ref: func(c *c64k) {
				var s float64
				for _, v := range c.v[0] {
					if a := math.Abs(v); a > s {
						s = a
					}
				}
				c.res = r(s)
			}},
		{name: "floats.Norm3", nv: 1, wr: -1, fill: fk(fInt), red: true, tol: 4 * eps,
			run: func(c *c64k) { c.res = r(floats.Norm(c.v[0], 3)) },
			ref: func(c *c64k) {
				var s float64 // exact: small integers
				for _, v := range c.v[0] {
					s += math.Abs(v) * math.Abs(v) * math.Abs(v)
				}
				c.res = r(math.Cbrt(s))
			}},
		{name: "floats.Distance1", nv: 2, wr: -1, fill: fk(fInt, fInt), red: true, sred: 1,
			run: func(c *c64k) { c.res = r(floats.Distance(c.v[0], c.v[1], 1)) },
			ref: func(c *c64k) {
				var s float64
				for i, v := range c.v[0] {
					s += math.Abs(c.v[1][i] - v)
				}
				c.res = r(s)
			}},
		{name: "floats.Distance2", nv: 2, wr: -1, fill: fk(fInt, fInt), red: true, sred: 2, tol: eps,
			run: func(c *c64k) { c.res = r(floats.Distance(c.v[0], c.v[1], 2)) }, ref: refL2Dist[float64]},
		{name: "floats.DistanceInf", nv: 2, wr: -1, fill: fk(fInt, fInt), red: true, sred: 3,
			run: func(c *c64k) { c.res = r(floats.Distance(c.v[0], c.v[1], inf)) },
			ref: func(c *c64k) {
				var s float64
				for i, v := range c.v[0] {
					if a := math.Abs(c.v[1][i] - v); a > s {
						s = a
					}
				}
				c.res = r(s)
			}},
		{name: "floats.Distance3", nv: 2, wr: -1, fill: fk(fInt, fInt), red: true, tol: 4 * eps,
			run: func(c *c64k) { c.res = r(floats.Distance(c.v[0], c.v[1], 3)) },
			ref: func(c *c64k) {
				var s float64
				for i, v := range c.v[0] {
					a := math.Abs(c.v[1][i] - v)
					s += a * a * a
				}
				c.res = r(math.Cbrt(s))
			}},
	}
}

func cmplxsTable() []*kz {
	const eps = 0x1p-52
	inf := math.Inf(1)
	r := func(v float64) complex128 { return complex(v, 0) }
	abs := func(z complex128) float64 { return math.Hypot(real(z), imag(z)) }
	return []*kz{
		{name: "cmplxs.Add", nv: 2, wr: 0, alias: []int{1}, fill: fk(fInt, fInt),
			run: func(c *cz) { cmplxs.Add(c.v[0], c.v[1]) }, ref: refAdd[complex128]},
		{name: "cmplxs.AddTo", nv: 3, wr: 0, alias: []int{1, 2}, fill: fk(fNone, fInt, fInt), rets: true,
			run: func(c *cz) { c.ret = cmplxs.AddTo(c.v[0], c.v[1], c.v[2]) }, ref: refAddTo[complex128]},
		{name: "cmplxs.AddConst", nv: 1, wr: 0, alpha: 1, fill: fk(fInt),
			run: func(c *cz) { cmplxs.AddConst(c.alpha, c.v[0]) }, ref: refAddConst[complex128]},
		{name: "cmplxs.AddScaled", nv: 2, wr: 0, alias: []int{1}, alpha: 1, fill: fk(fInt, fInt),
			run: func(c *cz) { cmplxs.AddScaled(c.v[0], c.alpha, c.v[1]) }, ref: refAddScaled[complex128]},
		{name: "cmplxs.AddScaledTo", nv: 3, wr: 0, alias: []int{1, 2}, alpha: 1, fill: fk(fNone, fInt, fInt), rets: true,
			run: func(c *cz) { c.ret = cmplxs.AddScaledTo(c.v[0], c.v[1], c.alpha, c.v[2]) }, ref: refAddScaledTo[complex128]},
		{name: "cmplxs.CumProd", nv: 2, wr: 0, alias: []int{1}, fill: fk(fNone, fPow2), rets: true,
			run: func(c *cz) { c.ret = cmplxs.CumProd(c.v[0], c.v[1]) }, ref: refCumProd[complex128]},
		{name: "cmplxs.CumSum", nv: 2, wr: 0, alias: []int{1}, fill: fk(fNone, fInt), rets: true,
			run: func(c *cz) { c.ret = cmplxs.CumSum(c.v[0], c.v[1]) }, ref: refCumSum[complex128]},
		{name: "cmplxs.Div", nv: 2, wr: 0, alias: []int{1}, fill: fk(fInt, fDiv),
			run: func(c *cz) { cmplxs.Div(c.v[0], c.v[1]) }, ref: refDiv[complex128]},
		{name: "cmplxs.DivTo", nv: 3, wr: 0, alias: []int{1, 2}, fill: fk(fNone, fInt, fDiv), rets: true,
			run: func(c *cz) { c.ret = cmplxs.DivTo(c.v[0], c.v[1], c.v[2]) }, ref: refDivTo[complex128]},
		{name: "cmplxs.Mul", nv: 2, wr: 0, alias: []int{1}, fill: fk(fInt, fInt),
			run: func(c *cz) { cmplxs.Mul(c.v[0], c.v[1]) }, ref: refMul[complex128]},
		{name: "cmplxs.MulTo", nv: 3, wr: 0, alias: []int{1, 2}, fill: fk(fNone, fInt, fInt), rets: true,
			run: func(c *cz) { c.ret = cmplxs.MulTo(c.v[0], c.v[1], c.v[2]) }, ref: refMulTo[complex128]},
		{name: "cmplxs.MulConj", nv: 2, wr: 0, alias: []int{1}, fill: fk(fInt, fInt),
			run: func(c *cz) { cmplxs.MulConj(c.v[0], c.v[1]) },
			ref: func(c *cz) {
				for i, v := range c.v[1] {
					c.v[0][i] *= complex(real(v), -imag(v))
				}
			}},
		{name: "cmplxs.MulConjTo", nv: 3, wr: 0, alias: []int{1, 2}, fill: fk(fNone, fInt, fInt), rets: true,
			run: func(c *cz) { c.ret = cmplxs.MulConjTo(c.v[0], c.v[1], c.v[2]) },
			ref: func(c *cz) {
				for i, v := range c.v[2] {
					c.v[0][i] = complex(real(v), -imag(v)) * c.v[1][i]
				}
				c.ret = c.v[0]
			}},
		{name: "cmplxs.Scale", nv: 1, wr: 0, alpha: 1, fill: fk(fInt),
			run: func(c *cz) { cmplxs.Scale(c.alpha, c.v[0]) }, ref: refScalUnitary[complex128]},
		{name: "cmplxs.ScaleTo", nv: 2, wr: 0, alias: []int{1}, alpha: 1, fill: fk(fNone, fInt), rets: true,
			run: func(c *cz) { c.ret = cmplxs.ScaleTo(c.v[0], c.alpha, c.v[1]) }, ref: refScaleTo[complex128]},
		{name: "cmplxs.ScaleReal", nv: 1, wr: 0, alpha: 2, fill: fk(fInt),
			run: func(c *cz) { cmplxs.ScaleReal(real(c.alpha), c.v[0]) },
			ref: func(c *cz) {
				f := real(c.alpha)
				for i, z := range c.v[0] {
					c.v[0][i] = complex(f*real(z), f*imag(z))
				}
			}},
		{name: "cmplxs.ScaleRealTo", nv: 2, wr: 0, alias: []int{1}, alpha: 2, fill: fk(fNone, fInt), rets: true,
			run: func(c *cz) { c.ret = cmplxs.ScaleRealTo(c.v[0], real(c.alpha), c.v[1]) },
			ref: func(c *cz) {
				f := real(c.alpha)
				for i, z := range c.v[1] {
					c.v[0][i] = complex(f*real(z), f*imag(z))
				}
				c.ret = c.v[0]
			}},
		{name: "cmplxs.Sub", nv: 2, wr: 0, alias: []int{1}, fill: fk(fInt, fInt),
			run: func(c *cz) { cmplxs.Sub(c.v[0], c.v[1]) }, ref: refSub[complex128]},
		{name: "cmplxs.SubTo", nv: 3, wr: 0, alias: []int{1, 2}, fill: fk(fNone, fInt, fInt), rets: true,
			run: func(c *cz) { c.ret = cmplxs.SubTo(c.v[0], c.v[1], c.v[2]) }, ref: refSubTo[complex128]},
		{name: "cmplxs.Reverse", nv: 1, wr: 0, fill: fk(fInt),
			run: func(c *cz) { cmplxs.Reverse(c.v[0]) }, ref: refReverse[complex128]},
		{name: "cmplxs.Dot", nv: 2, wr: -1, fill: fk(fInt, fInt), red: true,
			run: func(c *cz) { c.res = cmplxs.Dot(c.v[0], c.v[1]) },
			ref: func(c *cz) {
				var s complex128
				for i, v := range c.v[0] {
					s += complex(real(v), -imag(v)) * c.v[1][i]
				}
				c.res = s
			}},
		{name: "cmplxs.Sum", nv: 1, wr: -1, fill: fk(fInt), red: true,
			run: func(c *cz) { c.res = cmplxs.Sum(c.v[0]) }, ref: refSum[complex128]},
		{name: "cmplxs.Prod", nv: 1, wr: -1, fill: fk(fPow2), red: true,
			run: func(c *cz) { c.res = cmplxs.Prod(c.v[0]) }, ref: refProd[complex128]},
		{name: "cmplxs.Norm2", nv: 1, wr: -1, fill: fk(fInt), red: true, sred: 2, tol: 2 * eps,
			run: func(c *cz) { c.res = r(cmplxs.Norm(c.v[0], 2)) }, ref: refL2[complex128]},
		{name: "cmplxs.Distance2", nv: 2, wr: -1, fill: fk(fInt, fInt), red: true, sred: 2, tol: 2 * eps,
			run: func(c *cz) { c.res = r(cmplxs.Distance(c.v[0], c.v[1], 2)) }, ref: refL2Dist[complex128]},
		// the 1-norms and max-norms of complex vectors sum/compare moduli, which
		// are not exact even for integer parts: tolerance 2*eps*(n+4) relative
		{name: "cmplxs.Norm1", nv: 1, wr: -1, fill: fk(fInt), red: true, tol: 2 * eps,
			run: func(c *cz) { c.res = r(cmplxs.Norm(c.v[0], 1)) },
			ref: func(c *cz) {
				var s float64
				for _, v := range c.v[0] {
					s += abs(v)
				}
				c.res = r(s)
			}},
		{name: "cmplxs.NormInf", nv: 1, wr: -1, fill: fk(fInt), red: true, tol: 2 * eps,
			run: func(c *cz) { c.res = r(cmplxs.Norm(c.v[0], inf)) },
			ref: func(c *cz) {
				var s float64
				for _, v := range c.v[0] {
					s = math.Max(s, abs(v))
				}
				c.res = r(s)
			}},
		{name: "cmplxs.Distance1", nv: 2, wr: -1, fill: fk(fInt, fInt), red: true, tol: 2 * eps,
			run: func(c *cz) { c.res = r(cmplxs.Distance(c.v[0], c.v[1], 1)) },
			ref: func(c *cz) {
				var s float64
				for i, v := range c.v[0] {
					s += abs(c.v[1][i] - v)
				}
				c.res = r(s)
			}},
		{name: "cmplxs.DistanceInf", nv: 2, wr: -1, fill: fk(fInt, fInt), red: true, tol: 2 * eps,
			run: func(c *cz) { c.res = r(cmplxs.Distance(c.v[0], c.v[1], inf)) },
			ref: func(c *cz) {
				var s float64
				for i, v := range c.v[0] {
					s = math.Max(s, abs(c.v[1][i]-v))
				}
				c.res = r(s)
			}},
		{name: "cmplxs.Norm3", nv: 1, wr: -1, fill: fk(fInt), red: true, tol: 8 * eps,
			run: func(c *cz) { c.res = r(cmplxs.Norm(c.v[0], 3)) },
			ref: func(c *cz) {
				var s float64
				for _, v := range c.v[0] {
					a := abs(v)
					s += a * a * a
				}
				c.res = r(math.Cbrt(s))
			}},
	}
}
