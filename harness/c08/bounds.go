package main

import (
	"fmt"
	"math"
	"math/big"

	"gonum.org/v1/gonum/internal/verif/vlib"
	lapackgonum "gonum.org/v1/gonum/lapack/gonum"
)

// Rounding-bound families: operands are full-mantissa pseudo-random dyadic
// values (or huge/tiny scaled ones for the Euclidean norms), the exact result
// is computed with math/big (300 bits) and the result of the code under test
// must satisfy
//
//	sums, dot products, 1-norms:  |r - exact| <= (k+2)*eps*sum|terms|   (k = number of terms)
//	cumulative sums:              the same bound for every prefix
//	cumulative products:          |r_i - exact_i| <= 4*(i+2)*eps*|exact_i|
//	Euclidean norms/distances:    |r - exact| <= (2n+8)*eps*exact, for every scaling whose
//	                              result is representable (no overflow to Inf, no underflow to 0)
//	max-norm distance:            bit for bit (a maximum of individually rounded values has no rounding of its own)
//
// with eps = 2^-52 (float64 results) or 2^-23 (float32 results), i.e. twice
// the unit roundoff: a factor >= 2 above the worst case of any summation
// order; the defects hunted (dropped or doubled element, wrong lane, wrong
// scale constant, overflow) are orders of magnitude larger.

type bkind int

const (
	bSum bkind = iota + 1
	bL1
	bL1Dist
	bDot   // sum y*x
	bDotc  // sum y*conj(x)
	bL2    // sqrt(sum |x|^2)
	bL2D   // sqrt(sum |x-y|^2)
	bLinfD // max |t-s|
	bCumSum
	bCumProd
	bSumComp // compensated sum: 4*eps*|exact| + 8*n*eps^2*sum|x|
	bProd    // product of all elements, relative 4*(n+2)*eps
)

var boundKinds = map[string]bkind{
	"Sum": bSum, "L1Norm": bL1, "L1NormInc": bL1, "L1Dist": bL1Dist,
	"DotUnitary": bDot, "DotInc": bDot, "DdotUnitary": bDot, "DdotInc": bDot,
	"DotuUnitary": bDot, "DotuInc": bDot, "DotcUnitary": bDotc, "DotcInc": bDotc,
	"L2NormUnitary": bL2, "L2NormInc": bL2, "L2DistanceUnitary": bL2D, "LinfDist": bLinfD,
	"CumSum": bCumSum, "CumProd": bCumProd,
	// names used by the floats and cmplxs tables
	"Dot": bDot, "Norm1": bL1, "Norm2": bL2, "Distance1": bL1Dist, "Distance2": bL2D, "DistanceInf": bLinfD,
	"SumCompensated": bSumComp, "Prod": bProd,
}

func shortName(s string) string {
	for i := range s {
		if s[i] == '.' {
			return s[i+1:]
		}
	}
	return s
}

// cbig is an exact complex number.
type cbig struct{ re, im *big.Float }

func cb[T num](v T) cbig { z := toC(v); return cbig{bf(real(z)), bf(imag(z))} }
func (a cbig) mul(b cbig) cbig {
	return cbig{bsub(bmul(a.re, b.re), bmul(a.im, b.im)), badd(bmul(a.re, b.im), bmul(a.im, b.re))}
}
func (a cbig) sub(b cbig) cbig   { return cbig{bsub(a.re, b.re), bsub(a.im, b.im)} }
func (a cbig) conj() cbig        { return cbig{a.re, new(big.Float).SetPrec(prec).Neg(a.im)} }
func (a cbig) abs2() *big.Float  { return badd(bmul(a.re, a.re), bmul(a.im, a.im)) }
func (a cbig) abs() *big.Float   { return bsqrt(a.abs2()) }
func (a cbig) norm1() *big.Float { return badd(babs(a.re), babs(a.im)) }

func scaleF(x *big.Float, f float64) *big.Float { return bmul(x, bf(f)) }

// logical returns the n logical elements of operand k.
func logical[T num](c *kcall[T], k int) []T {
	out := make([]T, c.n)
	inc, idx := c.inc[k], c.idx[k]
	for i := range out {
		out[i] = c.v[k][idx+i*inc]
	}
	return out
}

// judgeBound returns the judge of a bound kind. in holds the inputs as they
// were before the call, c the state after the call.
func judgeBound[T num](kind bkind, eps float64, dotConjDoc bool) func(c, in *kcall[T]) string {
	return func(c, in *kcall[T]) string {
		n := in.n
		switch kind {
		case bSum, bL1, bL1Dist, bDot, bDotc:
			sumRe, sumIm, absRe, absIm := bzero(), bzero(), bzero(), bzero()
			terms := 0
			x := logical(in, 0)
			var y []T
			if kind == bL1Dist || kind == bDot || kind == bDotc {
				y = logical(in, 1)
			}
			for i := 0; i < n; i++ {
				var re, im []*big.Float
				xv := cb(x[i])
				switch kind {
				case bSum:
					re, im = []*big.Float{xv.re}, []*big.Float{xv.im}
				case bL1:
					re = []*big.Float{babs(xv.re)}
				case bL1Dist:
					re = []*big.Float{babs(bsub(cb(y[i]).re, xv.re))}
				case bDot, bDotc:
					yv := cb(y[i])
					if kind == bDotc {
						xv = xv.conj()
					}
					re = []*big.Float{bmul(yv.re, xv.re), new(big.Float).SetPrec(prec).Neg(bmul(yv.im, xv.im))}
					im = []*big.Float{bmul(yv.re, xv.im), bmul(yv.im, xv.re)}
				}
				for _, t := range re {
					sumRe = badd(sumRe, t)
					absRe = badd(absRe, babs(t))
				}
				for _, t := range im {
					sumIm = badd(sumIm, t)
					absIm = badd(absIm, babs(t))
				}
				terms += len(re)
			}
			f := float64(terms+2) * eps
			if !within(real(c.res), sumRe, scaleF(absRe, f)) {
				return fmt.Sprintf("real part %v, exact %s, allowed error %s", real(c.res), sumRe.Text('g', 25), scaleF(absRe, f).Text('g', 5))
			}
			if !within(imag(c.res), sumIm, scaleF(absIm, f)) {
				return fmt.Sprintf("imaginary part %v, exact %s, allowed error %s", imag(c.res), sumIm.Text('g', 25), scaleF(absIm, f).Text('g', 5))
			}
		case bL2, bL2D:
			ss := bzero()
			x := logical(in, 0)
			for i := 0; i < n; i++ {
				v := cb(x[i])
				if kind == bL2D {
					v = v.sub(cb(in.v[1][i]))
				}
				ss = badd(ss, v.abs2())
			}
			exact := bsqrt(ss)
			if imag(c.res) != 0 || !within(real(c.res), exact, scaleF(exact, float64(2*n+8)*eps)) {
				return fmt.Sprintf("norm %v, exact %s (relative bound %g)", c.res, exact.Text('g', 25), float64(2*n+8)*eps)
			}
		case bLinfD:
			var want float64
			for i := 0; i < n; i++ {
				d := math.Abs(real(toC(in.v[1][i])) - real(toC(in.v[0][i])))
				if d > want {
					want = d
				}
			}
			if real(c.res) != want {
				return fmt.Sprintf("max-norm distance %v want %v", real(c.res), want)
			}
		case bSumComp:
			sum, abs := bzero(), bzero()
			for _, v := range in.v[0] {
				sum = badd(sum, cb(v).re)
				abs = badd(abs, babs(cb(v).re))
			}
			bound := badd(scaleF(babs(sum), 4*eps), scaleF(abs, 8*float64(n)*eps*eps))
			if !within(real(c.res), sum, bound) {
				return fmt.Sprintf("compensated sum %v, exact %s, allowed error %s", real(c.res), sum.Text('g', 25), bound.Text('g', 5))
			}
		case bProd:
			p := cbig{bf(1), bf(0)}
			for _, v := range in.v[0] {
				p = p.mul(cb(v))
			}
			got := cbig{bf(real(c.res)), bf(imag(c.res))}
			if math.IsNaN(real(c.res)) || math.IsNaN(imag(c.res)) || got.sub(p).abs().Cmp(scaleF(p.abs(), 4*float64(n+2)*eps)) > 0 {
				return fmt.Sprintf("product %v, exact (%s, %s)", c.res, p.re.Text('g', 25), p.im.Text('g', 25))
			}
		case bCumSum:
			sRe, sIm, aRe, aIm := bzero(), bzero(), bzero(), bzero()
			for i := 0; i < n; i++ {
				v := cb(in.v[1][i])
				sRe, sIm = badd(sRe, v.re), badd(sIm, v.im)
				aRe, aIm = badd(aRe, babs(v.re)), badd(aIm, babs(v.im))
				got := toC(c.v[0][i])
				f := float64(i+2) * eps
				if !within(real(got), sRe, scaleF(aRe, f)) || !within(imag(got), sIm, scaleF(aIm, f)) {
					return fmt.Sprintf("prefix sum %d is %v, exact (%s, %s)", i, got, sRe.Text('g', 25), sIm.Text('g', 25))
				}
			}
		case bCumProd:
			p := cbig{bf(1), bf(0)}
			for i := 0; i < n; i++ {
				p = p.mul(cb(in.v[1][i]))
				got := cb(c.v[0][i])
				if math.IsNaN(real(toC(c.v[0][i]))) || math.IsNaN(imag(toC(c.v[0][i]))) {
					return fmt.Sprintf("prefix product %d is NaN", i)
				}
				if got.sub(p).abs().Cmp(scaleF(p.abs(), 4*float64(i+2)*eps)) > 0 {
					return fmt.Sprintf("prefix product %d is %v, exact (%s, %s)", i, toC(c.v[0][i]), p.re.Text('g', 25), p.im.Text('g', 25))
				}
			}
		}
		return ""
	}
}

// resultEps is the eps of an operation's result type.
func resultEps[T num](opName string) float64 {
	var z T
	switch any(z).(type) {
	case float64, complex128:
		return 0x1p-52
	}
	if opName == "f32.DdotUnitary" || opName == "f32.DdotInc" {
		return 0x1p-52
	}
	return 0x1p-23
}

// genBounds drives the rounding-bound families of one table.
func genBounds[T num](tab []*kop[T]) func(g *vlib.G) {
	return func(g *vlib.G) {
		ev := &evaluator[T]{ab: newAlphabet[T]()}
		var z T
		single := false
		switch any(z).(type) {
		case float32, complex64:
			single = true
		}
		cp := isCplx[T]()
		// magnitude variants: exponent of the values. The huge/tiny ones apply to the norms only.
		type variant struct {
			name   string
			lo, hi int // binary exponent range of the magnitudes
			normOK bool
			zeros  bool
		}
		big1, small1 := 1000, -1000
		if single {
			big1, small1 = 100, -100
		}
		variants := []variant{
			{"unit", -1, 2, false, false},
			{"mixed", -20, 20, false, true},
			{"huge", big1, big1 + 3, true, false},
			{"tiny", small1, small1 + 3, true, false},
			{"hugetiny", small1, big1 + 3, true, true},
		}
		for _, op := range tab {
			kind, ok := boundKinds[shortName(op.name)]
			if !ok {
				continue
			}
			if cp && (kind == bL1 || kind == bL1Dist || kind == bLinfD) {
				continue // complex 1- and max-norms sum moduli; covered by the tolerance class only
			}
			if cp && (shortName(op.name) == "DotUnitary" || shortName(op.name) == "Dot") {
				kind = bDotc // the complex DotUnitary conjugates x
			}
			op, kind := op, kind
			eps := resultEps[T](op.name)
			incSets := [][4]int{{}}
			if op.isInc() {
				incSets = [][4]int{{1, 1}, {2, 3}, {5, 1}}
				if op.hasIx {
					incSets = append(incSets, [4]int{-1, 2}, [4]int{3, -2})
				}
			}
			lens := append(vlib.Ints(0, 70), vlib.Pick(g, []int{257, 1000}, []int{129, 257, 1000, 4099, 10000})...)
			for _, n := range lens {
				for _, inc := range incSets {
					for vi, va := range variants {
						isNorm := kind == bL2 || kind == bL2D
						if va.normOK && !isNorm && va.name != "hugetiny" {
							continue
						}
						if va.name == "hugetiny" && !isNorm {
							continue
						}
						if (kind == bCumProd || kind == bProd) && va.name != "unit" {
							continue
						}
						if n > 70 && (vi > 1 || kind == bCumProd || kind == bProd) {
							continue
						}
						n, inc, va, vi := n, inc, va, vi
						g.Case(fmt.Sprintf("%s n=%d inc=%v %s", op.name, n, inc[:op.ninc], va.name), func(t *vlib.T) {
							for rep := 0; rep < 2; rep++ {
								pl := []int{n % 8, plEnd}[rep]
								e := &evalSpec[T]{op: op, n: n, pl: pl, plStep: 3, aliasTo: -1, alpha: mk[T](1, 0), inc: inc, seed: uint64(n)}
								for k := 0; k < op.nv; k++ {
									if i := inc[op.incOf[k]]; op.isInc() && i < 0 && n > 0 {
										e.idx[k] = (n - 1) * (-i)
									}
								}
								e.special = func(k int, s []T, n, inc, idx int) {
									if op.fill[k] == fNone {
										return
									}
									r := lcg(uint64(n)*1000003 + uint64(k)*7919 + uint64(vi)*104729 + uint64(rep)*13 + 1)
									st := startIdx(n, inc, idx)
									for i := 0; i < n; i++ {
										draw := func() float64 {
											ex := va.lo + r.intn(va.hi-va.lo+1)
											if va.name == "hugetiny" && r.intn(2) == 0 {
												ex = va.hi - r.intn(4) // half of the values at the top of the range
											}
											if kind == bCumProd || kind == bProd {
												ex = r.intn(2) // magnitudes in [1/2, 2)
											}
											var v float64
											if single {
												v = randDyadic32(&r, ex)
												if math.Abs(v) < math.Ldexp(1, ex-1) { // keep it normal and of the intended magnitude
													v = math.Copysign(math.Ldexp(1, ex-1)+math.Abs(v), v)
												}
											} else {
												v = randDyadic(&r, ex)
												if math.Abs(v) < math.Ldexp(1, ex-1) {
													v = math.Copysign(math.Ldexp(1, ex-1)+math.Abs(v), v)
												}
											}
											if va.zeros && r.intn(5) == 0 {
												v = 0
											}
											return v
										}
										re := draw()
										im := 0.0
										if cp {
											im = draw()
										}
										s[st+i*absInt(inc)] = mk[T](re, im)
									}
								}
								e.judge = judgeBound[T](kind, eps, false)
								if msg := ev.eval(e); msg != "" {
									report(t, op.name, msg, "%s %s values, pl=%s: %s", op.name, va.name, plName(pl), msg)
									return
								}
							}
							t.Count("kernel_evaluations", 2)
							if n >= 2 {
								t.Nontrivial()
							}
							t.Outcome(fmt.Sprintf("%s %s n%%4=%d", op.name, va.name, n%4))
						})
					}
				}
			}
		}
	}
}

// genDlassq checks lapack/gonum.Dlassq (the scaled sum of squares behind
// Dnrm2-style norms in LAPACK) against the same Euclidean-norm bound.
func genDlassq(g *vlib.G) {
	var impl lapackgonum.Implementation
	for n := 0; n <= 40; n++ {
		for _, incx := range []int{1, 2, 3} {
			for vi, ex := range [][2]int{{-1, 2}, {1000, 1003}, {-1000, -997}, {-1000, 1003}} {
				n, incx, vi, ex := n, incx, vi, ex
				g.Case(fmt.Sprintf("Dlassq n=%d incx=%d exp=%v", n, incx, ex), func(t *vlib.T) {
					r := lcg(uint64(n*977 + incx*31 + vi))
					x := make([]float64, 1+(max(n, 1)-1)*incx)
					vlib.FillPoison64(x)
					ss := bzero()
					for i := 0; i < n; i++ {
						e := ex[0] + r.intn(ex[1]-ex[0]+1)
						if vi == 3 && r.intn(2) == 0 {
							e = ex[1] - r.intn(3)
						}
						v := randDyadic(&r, e)
						if math.Abs(v) < math.Ldexp(1, e-1) {
							v = math.Copysign(math.Ldexp(1, e-1)+math.Abs(v), v)
						}
						if r.intn(6) == 0 {
							v = 0
						}
						x[i*incx] = v
						ss = badd(ss, bmul(bf(v), bf(v)))
					}
					x0 := append([]float64(nil), x...)
					scl, smsq := impl.Dlassq(n, x, incx, 0, 1)
					if i, ok := vlib.Same64(x, x0); !ok {
						t.Failf("Dlassq modified x[%d]", i)
					}
					got := scl * math.Sqrt(smsq)
					exact := bsqrt(ss)
					if !within(got, exact, scaleF(exact, float64(2*n+8)*0x1p-52)) {
						t.Failf("Dlassq scl*sqrt(smsq)=%v (scl=%v smsq=%v), exact %s", got, scl, smsq, exact.Text('g', 25))
					}
					if n >= 2 {
						t.Nontrivial()
					}
					t.Outcome(fmt.Sprintf("Dlassq variant=%d", vi))
				})
			}
		}
	}
}
