package main

import (
	"fmt"
	"math"
	"math/big"
	"sort"

	"gonum.org/v1/gonum/floats"
	"gonum.org/v1/gonum/internal/verif/vlib"
)

// Search and ordering helpers and predicates of package floats, checked
// exhaustively on tiny domains against brute-force oracles written from the
// documentation. Don't-care zones are listed in NOTES.md and marked below.

var (
	nan  = math.NaN()
	pinf = math.Inf(1)
	ninf = math.Inf(-1)
	negz = math.Copysign(0, -1)
)

func fstr(s []float64) string { return fmt.Sprint(s) }

// seqs calls f with every sequence over alpha of length lo..hi (the slice is reused).
func seqs(alpha []float64, lo, hi int, f func(s []float64)) {
	for n := lo; n <= hi; n++ {
		rad := make([]int, n)
		for i := range rad {
			rad[i] = len(alpha)
		}
		s := make([]float64, n)
		if n == 0 {
			f(s)
			continue
		}
		vlib.Product(rad, func(idx []int) bool {
			for i, j := range idx {
				s[i] = alpha[j]
			}
			f(s)
			return true
		})
	}
}

// mustPanic runs f and reports whether it panicked.
func mustPanic(f func()) (p bool) {
	defer func() {
		if recover() != nil {
			p = true
		}
	}()
	f()
	return false
}

// guarded copies s into a fresh array with poisoned margins and returns the
// window and a checker that the margins are bitwise unchanged.
func guarded(s []float64) (w []float64, ok func() bool) {
	const m = 4
	b := make([]float64, len(s)+2*m)
	vlib.FillPoison64(b)
	w = b[m : m+len(s) : m+len(s)]
	copy(w, s)
	b0 := append([]float64(nil), b...)
	return w, func() bool {
		_, o1 := vlib.Same64(b[:m], b0[:m])
		_, o2 := vlib.Same64(b[m+len(s):], b0[m+len(s):])
		return o1 && o2
	}
}

func hasNaN(s []float64) bool {
	for _, v := range s {
		if math.IsNaN(v) {
			return true
		}
	}
	return false
}

// extremeIdx is the documented MaxIdx/MinIdx: first index of the largest
// (smallest) value; NaNs are skipped; -1 when every element is NaN.
func extremeIdx(s []float64, max bool) int {
	best := -1
	for i, v := range s {
		if math.IsNaN(v) {
			continue
		}
		if best < 0 || (max && v > s[best]) || (!max && v < s[best]) {
			best = i
		}
	}
	return best
}

// nearestSet returns the set of indices of s nearest to v (ties included,
// with a relative slack that makes indices tie whose distances differ only
// by rounding); nil means "any index" (v is NaN or no distance is defined).
func nearestSet(s []float64, v float64) map[int]bool {
	if math.IsNaN(v) {
		return nil
	}
	set := map[int]bool{}
	if math.IsInf(v, 0) {
		b := extremeIdx(s, v > 0)
		if b < 0 {
			return nil
		}
		for i, x := range s {
			if x == s[b] {
				set[i] = true
			}
		}
		return set
	}
	dmin := math.NaN()
	for _, x := range s {
		d := math.Abs(v - x)
		if !math.IsNaN(d) && (math.IsNaN(dmin) || d < dmin) {
			dmin = d
		}
	}
	if math.IsNaN(dmin) {
		return nil
	}
	for i, x := range s {
		d := math.Abs(v - x)
		if d == dmin || d <= dmin*(1+1e-9)+1e-300 {
			set[i] = true
		}
	}
	return set
}

// nearestSet0 is nearestSet without slack: the indices whose distance from v
// is exactly the minimum (for v = +-Inf: the indices of the largest/smallest
// value); nil if v is NaN or no distance is defined.
func nearestSet0(s []float64, v float64) map[int]bool {
	if math.IsNaN(v) {
		return nil
	}
	set := map[int]bool{}
	if math.IsInf(v, 0) {
		b := extremeIdx(s, v > 0)
		if b < 0 {
			return nil
		}
		for i, x := range s {
			if x == s[b] {
				set[i] = true
			}
		}
		return set
	}
	dmin := math.NaN()
	for _, x := range s {
		d := math.Abs(v - x)
		if !math.IsNaN(d) && (math.IsNaN(dmin) || d < dmin) {
			dmin = d
		}
	}
	if math.IsNaN(dmin) {
		return nil
	}
	for i, x := range s {
		if math.Abs(v-x) == dmin {
			set[i] = true
		}
	}
	return set
}

func genFloatsOrder(g *vlib.G) {
	// ---- Argsort / ArgsortStable ----
	for fn := 0; fn < 2; fn++ {
		name := []string{"Argsort", "ArgsortStable"}[fn]
		sorter := []func([]float64, []int){floats.Argsort, floats.ArgsortStable}[fn]
		checkSort := func(t *vlib.T, s []float64) bool {
			w, ok := guarded(s)
			inds := make([]int, len(s)+2)
			inds[0], inds[len(s)+1] = -77, -78
			sorter(w, inds[1:len(s)+1:len(s)+1])
			iw := inds[1 : len(s)+1]
			if !ok() || inds[0] != -77 || inds[len(s)+1] != -78 {
				t.Failf("%s(%s) wrote outside its arguments", name, fstr(s))
				return false
			}
			seen := make([]bool, len(s))
			for i, j := range iw {
				if j < 0 || j >= len(s) || seen[j] {
					t.Failf("%s(%s): inds=%v is not a permutation", name, fstr(s), iw)
					return false
				}
				seen[j] = true
				if math.Float64bits(w[i]) != math.Float64bits(s[j]) {
					t.Failf("%s(%s): dst[%d]=%v but orig[inds[%d]=%d]=%v", name, fstr(s), i, w[i], i, j, s[j])
					return false
				}
			}
			if hasNaN(s) {
				return true // don't-care: "<" is not an order in the presence of NaN; only the permutation is checked
			}
			for i := 0; i+1 < len(w); i++ {
				if w[i] > w[i+1] {
					t.Failf("%s(%s): result %v not sorted", name, fstr(s), w)
					return false
				}
				if fn == 1 && w[i] == w[i+1] && iw[i] > iw[i+1] {
					t.Failf("ArgsortStable(%s): equal elements reordered, inds=%v", fstr(s), iw)
					return false
				}
			}
			return true
		}
		for n := 0; n <= 6; n++ {
			n := n
			g.Case(fmt.Sprintf("%s all sequences n=%d", name, n), func(t *vlib.T) {
				cnt := 0
				alpha := []float64{0, negz, 1, 2, nan}
				if n <= 5 {
					alpha = []float64{ninf, 0, negz, 1, 2, pinf, nan}
				}
				seqs(alpha, n, n, func(s []float64) {
					if !t.Failed() {
						checkSort(t, s)
						cnt++
					}
				})
				t.Count("sequences", int64(cnt))
				if n >= 2 {
					t.Nontrivial()
				}
				t.Outcome(name + " exhaustive")
			})
		}
		for n := 7; n <= vlib.Pick(g, 40, 70); n++ {
			n := n
			g.Case(fmt.Sprintf("%s patterns n=%d", name, n), func(t *vlib.T) {
				r := lcg(uint64(n))
				for rep := 0; rep < 40 && !t.Failed(); rep++ {
					s := make([]float64, n)
					for i := range s {
						s[i] = float64(r.intn(1 + rep%5*2))
						if rep%7 == 3 && r.intn(4) == 0 {
							s[i] = negz
						}
					}
					if rep%10 == 9 {
						sort.Float64s(s)
						if rep%20 == 19 {
							for i, j := 0, n-1; i < j; i, j = i+1, j-1 {
								s[i], s[j] = s[j], s[i]
							}
						}
					}
					checkSort(t, s)
				}
				t.Count("sequences", 40)
				t.Nontrivial()
				t.Outcome(name + " patterns")
			})
		}
		g.Case(name+" length mismatch panics", func(t *vlib.T) {
			if !mustPanic(func() { sorter(make([]float64, 3), make([]int, 2)) }) {
				t.Failf("%s with len(dst) != len(inds) did not panic", name)
			}
		})
	}

	// ---- MaxIdx / MinIdx / Max / Min ----
	for n := 0; n <= 5; n++ {
		n := n
		g.Case(fmt.Sprintf("MaxIdx/MinIdx/Max/Min all sequences n=%d", n), func(t *vlib.T) {
			cnt := 0
			seqs([]float64{ninf, -1, negz, 0, 1, pinf, nan}, n, n, func(s []float64) {
				if t.Failed() {
					return
				}
				cnt++
				if n == 0 {
					for i, f := range []func(){func() { floats.MaxIdx(s) }, func() { floats.MinIdx(s) }, func() { floats.Max(s) }, func() { floats.Min(s) }} {
						if !mustPanic(f) {
							t.Failf("function %d on an empty slice did not panic", i)
						}
					}
					return
				}
				w, ok := guarded(s)
				for _, max := range []bool{true, false} {
					var got int
					var val float64
					if max {
						got, val = floats.MaxIdx(w), floats.Max(w)
					} else {
						got, val = floats.MinIdx(w), floats.Min(w)
					}
					want := extremeIdx(s, max)
					if got < 0 || got >= n || (want >= 0 && got != want) {
						t.Failf("max=%v idx(%s)=%d want %d", max, fstr(s), got, want)
					}
					// all-NaN: any index is accepted (not documented), the value must then be NaN
					if want >= 0 && !(val == s[want]) || want < 0 && !math.IsNaN(val) {
						t.Failf("max=%v value(%s)=%v", max, fstr(s), val)
					}
				}
				if _, same := vlib.Same64(w, s); !same || !ok() {
					t.Failf("MaxIdx/MinIdx modified %s", fstr(s))
				}
			})
			t.Count("sequences", int64(cnt))
			if n >= 2 {
				t.Nontrivial()
			}
			t.Outcome("extremes")
		})
	}

	// ---- MaxIdx / MinIdx / Max / Min with pairs of special values at all pairs of positions ----
	for _, n := range []int{8, 9, 17} {
		n := n
		g.Case(fmt.Sprintf("MaxIdx/MinIdx special pairs n=%d", n), func(t *vlib.T) {
			sv := []float64{pinf, ninf, nan, negz, 0x1p1000, -0x1p1000}
			cnt := 0
			for _, a := range sv {
				for _, b := range sv {
					for i := 0; i < n; i++ {
						for j := i + 1; j < n; j++ {
							s := make([]float64, n)
							for k := range s {
								s[k] = float64((k*5+n)%7 - 3)
							}
							s[i], s[j] = a, b
							cnt++
							for _, max := range []bool{true, false} {
								var got int
								var val float64
								if max {
									got, val = floats.MaxIdx(s), floats.Max(s)
								} else {
									got, val = floats.MinIdx(s), floats.Min(s)
								}
								if want := extremeIdx(s, max); got != want || !(val == s[want]) {
									t.Failf("max=%v idx(%s)=%d value %v want index %d", max, fstr(s), got, val, want)
									return
								}
							}
						}
					}
				}
			}
			t.Count("sequences", int64(cnt))
			t.Nontrivial()
			t.Outcome("extremes-pairs")
		})
	}

	// ---- NearestIdx ----
	vs := []float64{ninf, -2, -1, -0.25, 0, 0.25, 0.5, 0.75, 1, 3, pinf, nan}
	for n := 0; n <= 4; n++ {
		n := n
		g.Case(fmt.Sprintf("NearestIdx all sequences n=%d", n), func(t *vlib.T) {
			cnt := 0
			seqs([]float64{ninf, -1, 0, 0.5, 1, pinf, nan}, n, n, func(s []float64) {
				for _, v := range vs {
					if t.Failed() {
						return
					}
					cnt++
					if n == 0 {
						if !mustPanic(func() { floats.NearestIdx(s, v) }) {
							t.Failf("NearestIdx on an empty slice did not panic")
						}
						continue
					}
					got := floats.NearestIdx(s, v)
					set := nearestSet(s, v)
					if got < 0 || got >= n {
						t.Failf("NearestIdx(%s,%v)=%d out of range", fstr(s), v, got)
						continue
					}
					if set == nil {
						continue // don't-care: v is NaN or every distance is NaN
					}
					lowest := n
					for i := range set {
						if i < lowest {
							lowest = i
						}
					}
					if got != lowest { // "If several such elements exist, the lowest index is returned."
						t.Failf("NearestIdx(%s,%v)=%d want %d (lowest index among the nearest)", fstr(s), v, got, lowest)
					}
				}
			})
			t.Count("sequences", int64(cnt))
			if n >= 2 {
				t.Nontrivial()
			}
			t.Outcome("nearest")
		})
	}

	// ---- NearestIdxForSpan == NearestIdx(Span(...)) on the full cross product of a special-value alphabet ----
	//
	// Documented: "NearestIdxForSpan(n, l, u, v) is equivalent to Nearest(Span(make([]float64, n),l,u),v)", and
	// NearestIdx returns the lowest index among several nearest elements. The oracle is the definitional
	// argmin on the actual Span output. Accepted deviations (don't-care zones, see NOTES.md):
	//   - v is NaN (no distance is defined);
	//   - the returned element is a different value whose distance from v equals the minimum up to 1e-9
	//     relative: the query sits (within rounding) half-way between two grid points, which the source
	//     declares unspecified, or the two distances round to the same float64;
	//   - v is finite and both distances are infinite (span values of opposite infinite sign).
	//   - l finite (or NaN), u infinite, v == u: the implementation returns the last index of the run of u,
	//     which the package's own tests pin.
	// Every other tie among EQUAL span values (degenerate span l == u, runs of +-Inf) must resolve to the
	// lowest index.
	spanAlpha := []float64{ninf, pinf, nan, -3, -1, 0, 0.5, 1, 3, 1e300, -1e300}
	for n := 1; n <= vlib.Pick(g, 9, 17); n++ {
		n := n
		g.Case(fmt.Sprintf("NearestIdxForSpan n=%d", n), func(t *vlib.T) {
			if n == 1 {
				for _, l := range spanAlpha {
					for _, u := range spanAlpha {
						for _, v := range spanAlpha {
							if !mustPanic(func() { floats.NearestIdxForSpan(1, l, u, v) }) || !mustPanic(func() { floats.NearestIdxForSpan(0, l, u, v) }) {
								t.Failf("NearestIdxForSpan(n<2,%v,%v,%v) did not panic", l, u, v)
								return
							}
						}
					}
				}
				t.Outcome("nearest-span-panics")
				return
			}
			ties, cnt, degenerate, infRun := 0, 0, 0, 0
			for _, l := range spanAlpha {
				for _, u := range spanAlpha {
					span := floats.Span(make([]float64, n), l, u)
					// queries: the alphabet, every grid point, every exact midpoint and its two neighbours,
					// points below and above the span, a fine grid across it
					vv := append([]float64{}, spanAlpha...)
					for i, x := range span {
						vv = append(vv, x)
						if i+1 < n {
							if m := (x + span[i+1]) / 2; !math.IsNaN(m) && !math.IsInf(m, 0) {
								vv = append(vv, m, math.Nextafter(m, pinf), math.Nextafter(m, ninf))
							}
						}
					}
					if !math.IsNaN(l+u) && !math.IsInf(l+u, 0) && !math.IsInf(u-l, 0) {
						for k := -2; k <= 4*n+2; k++ {
							vv = append(vv, l+(u-l)*float64(k)/float64(4*n))
						}
					}
					if l == u {
						degenerate++
					}
					for _, v := range vv {
						cnt++
						got := floats.NearestIdxForSpan(n, l, u, v)
						if got < 0 || got >= n {
							t.Failf("NearestIdxForSpan(%d,%v,%v,%v)=%d out of range", n, l, u, v, got)
							return
						}
						set := nearestSet0(span, v)
						if set == nil {
							continue // v is NaN or no distance is defined
						}
						if len(set) > 1 {
							ties++
						}
						want := n
						for i := range set {
							if i < want {
								want = i
							}
						}
						if got == want {
							continue
						}
						dg, dw := math.Abs(v-span[got]), math.Abs(v-span[want])
						switch {
						case span[got] == span[want]:
							if math.IsInf(u, 0) && !math.IsInf(l, 0) && v == u {
								// Span is l, u, u, ..., u with u infinite and the query is u: the
								// implementation returns n-1, not the lowest index 1, and the package's own
								// TestNearestIdxForSpan (cases 22 and 24) pins n-1: don't-care zone.
								infRun++
								continue
							}
							t.Failf("NearestIdxForSpan(%d,%v,%v,%v)=%d want %d: lowest index among the equal nearest elements of Span %v", n, l, u, v, got, want, span)
							return
						case !math.IsInf(v, 0) && math.IsInf(dg, 0) && math.IsInf(dw, 0):
							// finite query, infinite distances to infinities of both signs: don't-care
						case !math.IsInf(dg, 0) && !math.IsNaN(dg) && math.Abs(dg-dw) <= 1e-9*math.Max(dg, dw):
							// (near) half-way between two distinct grid points: don't-care
						default:
							t.Failf("NearestIdxForSpan(%d,%v,%v,%v)=%d (distance %v), but NearestIdx(Span %v)=%d (distance %v)", n, l, u, v, got, dg, span, want, dw)
							return
						}
					}
				}
			}
			t.Count("span_queries", int64(cnt))
			t.Count("span_queries_with_ties", int64(ties))
			t.Count("span_degenerate_bounds", int64(degenerate))
			t.Count("span_infinite_run_dontcare", int64(infRun))
			t.Nontrivial()
			t.Outcome("nearest-span")
		})
	}

	// ---- Find with NaN / Inf elements in every position ----
	for n := 0; n <= 5; n++ {
		n := n
		g.Case(fmt.Sprintf("Find special values n=%d", n), func(t *vlib.T) {
			preds := []func(float64) bool{math.IsNaN, func(v float64) bool { return math.IsInf(v, 0) }, func(v float64) bool { return v == 0 }}
			seqs([]float64{negz, 1, nan, pinf, ninf}, n, n, func(s []float64) {
				for pi, f := range preds {
					var all []int
					for i, v := range s {
						if f(v) {
							all = append(all, i)
						}
					}
					for k := -1; k <= n+1; k++ {
						got, err := floats.Find(nil, f, s, k)
						want, wantErr := all, false
						if k == 0 {
							want = nil
						} else if k > 0 {
							if len(all) >= k {
								want = all[:k]
							} else {
								wantErr = true
							}
						}
						if fmt.Sprint(got) != fmt.Sprint(append([]int{}, want...)) || (err != nil) != wantErr {
							t.Failf("Find(predicate %d, %s, k=%d) = %v, %v; want %v, error=%v", pi, fstr(s), k, got, err, want, wantErr)
							return
						}
					}
				}
			})
			if n >= 2 {
				t.Nontrivial()
			}
			t.Outcome("find-special")
		})
	}

	// ---- Find ----
	for n := 0; n <= 7; n++ {
		n := n
		g.Case(fmt.Sprintf("Find all 0/1 sequences n=%d", n), func(t *vlib.T) {
			isOne := func(v float64) bool { return v == 1 }
			seqs([]float64{0, 1}, n, n, func(s []float64) {
				var all []int
				for i, v := range s {
					if v == 1 {
						all = append(all, i)
					}
				}
				for k := -2; k <= n+1; k++ {
					for _, pre := range []int{-1, 0, 2, n + 2} { // nil inds, or inds with this capacity
						var inds []int
						if pre >= 0 {
							inds = make([]int, pre)
							for i := range inds {
								inds[i] = -5
							}
						}
						got, err := floats.Find(inds, isOne, s, k)
						want := all
						wantErr := false
						if k == 0 {
							want = nil
						} else if k > 0 {
							if len(all) >= k {
								want = all[:k]
							} else {
								wantErr = true
							}
						}
						if fmt.Sprint(got) != fmt.Sprint(append([]int{}, want...)) || (err != nil) != wantErr {
							t.Failf("Find(cap=%d, %s, k=%d) = %v, %v; want %v, error=%v", pre, fstr(s), k, got, err, want, wantErr)
							return
						}
						if pre >= len(got) && len(got) > 0 && &got[0] != &inds[:1][0] {
							t.Failf("Find(cap=%d, %s, k=%d) did not append to inds[:0]", pre, fstr(s), k)
							return
						}
					}
				}
			})
			if n >= 2 {
				t.Nontrivial()
			}
			t.Outcome("find")
		})
	}

	// ---- predicates ----
	g.Case("Equal/Same/HasNaN/EqualFunc/EqualLengths/Count/EqualApprox on all pairs", func(t *vlib.T) {
		al := []float64{0, negz, 1, 1 + 1e-10, pinf, nan}
		var all [][]float64
		seqs(al, 0, 3, func(s []float64) { all = append(all, append([]float64(nil), s...)) })
		pairs := 0
		for _, a := range all {
			if floats.HasNaN(a) != hasNaN(a) {
				t.Failf("HasNaN(%s)", fstr(a))
			}
			cnt := 0
			for _, v := range a {
				if v == 1 {
					cnt++
				}
			}
			if floats.Count(func(v float64) bool { return v == 1 }, a) != cnt {
				t.Failf("Count(%s)", fstr(a))
			}
			for _, b := range all {
				if len(a) > 2 && len(b) > 2 && len(a) != len(b) {
					continue
				}
				pairs++
				eq, same, approx := len(a) == len(b), len(a) == len(b), len(a) == len(b)
				if eq {
					for i := range a {
						x, y := a[i], b[i]
						if !(x == y) {
							eq = false
						}
						if !(x == y || (math.IsNaN(x) && math.IsNaN(y))) {
							same = false
						}
						// EqualApprox with tol=1e-9: |x-y| <= tol, or |x-y| <= tol*max(|x|,|y|), or x == y
						if !(x == y || math.Abs(x-y) <= 1e-9) {
							approx = false
						}
					}
				}
				if floats.Equal(a, b) != eq || floats.Same(a, b) != same || floats.EqualApprox(a, b, 1e-9) != approx ||
					floats.EqualFunc(a, b, func(x, y float64) bool { return x == y }) != eq ||
					floats.EqualLengths(a, b) != (len(a) == len(b)) || floats.EqualLengths(a, b, a) != (len(a) == len(b)) {
					t.Failf("predicates on %s, %s: Equal=%v Same=%v EqualApprox=%v want %v %v %v", fstr(a), fstr(b),
						floats.Equal(a, b), floats.Same(a, b), floats.EqualApprox(a, b, 1e-9), eq, same, approx)
					return
				}
			}
		}
		if !floats.EqualLengths() || !floats.EqualLengths(nil) {
			t.Failf("EqualLengths() of nothing / one slice must be true")
		}
		t.Count("pairs", int64(pairs))
		t.Nontrivial()
		t.Outcome("predicates")
	})

	// ---- length-mismatch panics of the element-wise API (argument validation precedes any write) ----
	g.Case("length mismatches panic without writing", func(t *vlib.T) {
		type call struct {
			name string
			f    func(a, b, c []float64)
		}
		calls := []call{
			{"Add", func(a, b, c []float64) { floats.Add(a, b) }},
			{"AddTo", func(a, b, c []float64) { floats.AddTo(a, b, c) }},
			{"AddScaled", func(a, b, c []float64) { floats.AddScaled(a, 2, b) }},
			{"AddScaledTo", func(a, b, c []float64) { floats.AddScaledTo(a, b, 2, c) }},
			{"CumProd", func(a, b, c []float64) { floats.CumProd(a, b) }},
			{"CumSum", func(a, b, c []float64) { floats.CumSum(a, b) }},
			{"Div", func(a, b, c []float64) { floats.Div(a, b) }},
			{"DivTo", func(a, b, c []float64) { floats.DivTo(a, b, c) }},
			{"Mul", func(a, b, c []float64) { floats.Mul(a, b) }},
			{"MulTo", func(a, b, c []float64) { floats.MulTo(a, b, c) }},
			{"ScaleTo", func(a, b, c []float64) { floats.ScaleTo(a, 2, b) }},
			{"Sub", func(a, b, c []float64) { floats.Sub(a, b) }},
			{"SubTo", func(a, b, c []float64) { floats.SubTo(a, b, c) }},
			{"Dot", func(a, b, c []float64) { floats.Dot(a, b) }},
			{"Distance", func(a, b, c []float64) { floats.Distance(a, b, 2) }},
		}
		for _, cl := range calls {
			for _, lens := range [][3]int{{3, 2, 3}, {2, 3, 3}, {0, 1, 0}, {5, 5, 4}, {4, 5, 5}} {
				three := cl.name[len(cl.name)-2:] == "To" && cl.name != "ScaleTo"
				if !three && lens[0] == lens[1] {
					continue
				}
				a, b, c := make([]float64, lens[0]), make([]float64, lens[1]), make([]float64, lens[2])
				for i := range a {
					a[i] = 7
				}
				if !mustPanic(func() { cl.f(a, b, c) }) {
					t.Failf("floats.%s with lengths %v did not panic", cl.name, lens)
				}
				for i := range a {
					if a[i] != 7 {
						t.Failf("floats.%s with lengths %v wrote to dst before panicking", cl.name, lens)
						break
					}
				}
			}
		}
		t.Nontrivial()
		t.Outcome("mismatch")
	})
}

func genFloatsSpan(g *vlib.G) {
	// ---- Span ----
	ends := []float64{-1, 0, 0.5, 1, 3, 10, 1e300, -1e300, 1e-300, 0.1}
	for n := 0; n <= vlib.Pick(g, 70, 200); n++ {
		n := n
		g.Case(fmt.Sprintf("Span n=%d", n), func(t *vlib.T) {
			if n < 2 {
				if !mustPanic(func() { floats.Span(make([]float64, n), 0, 1) }) {
					t.Failf("Span with len(dst)=%d did not panic", n)
				}
				return
			}
			for _, l := range ends {
				for _, u := range ends {
					w, ok := guarded(make([]float64, n))
					vlib.FillPoison64(w)
					ret := floats.Span(w, l, u)
					if !ok() || len(ret) != n || &ret[0] != &w[0] {
						t.Failf("Span(%d,%v,%v) wrote outside dst or did not return dst", n, l, u)
						return
					}
					// every point within rounding of l + i*(u-l)/(n-1), and monotone
					scale := math.Max(math.Abs(l), math.Abs(u))
					for i := 0; i < n; i++ {
						exact := new(big.Rat).SetFloat64(u)
						exact.Sub(exact, new(big.Rat).SetFloat64(l))
						exact.Mul(exact, big.NewRat(int64(i), int64(n-1)))
						exact.Add(exact, new(big.Rat).SetFloat64(l))
						ef, _ := exact.Float64()
						if math.Abs(w[i]-ef) > 8*0x1p-52*scale {
							t.Failf("Span(%d,%v,%v)[%d]=%v want %v", n, l, u, i, w[i], ef)
							return
						}
						if i > 0 && ((l <= u && w[i] < w[i-1]) || (l >= u && w[i] > w[i-1])) {
							t.Failf("Span(%d,%v,%v) not monotone at %d: %v, %v", n, l, u, i, w[i-1], w[i])
							return
						}
					}
					// "The first element of the destination is l, the final element of the destination is u."
					if w[0] != l || w[n-1] != u {
						classed(t, "span-endpoint-inexact", fmt.Sprintf("l=%v u=%v", l, u), "Span(%d,%v,%v): first=%v last=%v, documented to be exactly l and u", n, l, u, w[0], w[n-1])
					}
				}
			}
			// non-finite bounds: the endpoints keep their class
			for _, l := range []float64{nan, pinf, ninf, 1} {
				for _, u := range []float64{nan, pinf, ninf, 2} {
					if l == 1 && u == 2 {
						continue
					}
					w := floats.Span(make([]float64, n), l, u)
					if !vlib.EqVal(w[0], l, true) || !vlib.EqVal(w[n-1], u, true) {
						t.Failf("Span(%d,%v,%v): first=%v last=%v", n, l, u, w[0], w[n-1])
					}
				}
			}
			t.Nontrivial()
			t.Outcome("span")
		})
	}

	// ---- LogSpan ----
	lends := []float64{0.5, 1, 2, 3, 10, 1e-10, 1e10}
	for n := 0; n <= vlib.Pick(g, 40, 100); n++ {
		n := n
		g.Case(fmt.Sprintf("LogSpan n=%d", n), func(t *vlib.T) {
			if n < 2 {
				if !mustPanic(func() { floats.LogSpan(make([]float64, n), 1, 2) }) {
					t.Failf("LogSpan with len(dst)=%d did not panic", n)
				}
				return
			}
			for _, l := range lends {
				for _, u := range lends {
					w, ok := guarded(make([]float64, n))
					ret := floats.LogSpan(w, l, u)
					if !ok() || len(ret) != n || &ret[0] != &w[0] {
						t.Failf("LogSpan(%d,%v,%v) wrote outside dst or did not return dst", n, l, u)
						return
					}
					for i := 0; i < n; i++ {
						want := l * math.Pow(u/l, float64(i)/float64(n-1))
						if math.Abs(w[i]-want) > 1e-12*want {
							t.Failf("LogSpan(%d,%v,%v)[%d]=%v want %v", n, l, u, i, w[i], want)
							return
						}
						if i > 0 && ((l < u && w[i] <= w[i-1]) || (l > u && w[i] >= w[i-1])) {
							t.Failf("LogSpan(%d,%v,%v) not strictly monotone at %d", n, l, u, i)
							return
						}
					}
					// "The first element of the resulting dst will be l and the final element of dst will be u."
					if w[0] != l || w[n-1] != u {
						classed(t, "logspan-endpoint-inexact", fmt.Sprintf("l=%v u=%v", l, u), "LogSpan(%d,%v,%v): first=%v last=%v, documented to be l and u", n, l, u, w[0], w[n-1])
					}
				}
			}
			t.Nontrivial()
			t.Outcome("logspan")
		})
	}
}

func genFloatsWithin(g *vlib.G) {
	// ---- Within ----
	for n := 0; n <= 4; n++ {
		n := n
		g.Case(fmt.Sprintf("Within all sequences n=%d", n), func(t *vlib.T) {
			qs := []float64{ninf, -2, -1, -0.5, 0, 0.5, 1, 1.5, 2, 3, pinf, nan}
			cnt, sorted, unsorted, dontcare := 0, 0, 0, 0
			seqs([]float64{ninf, -1, 0, 1, 2, pinf, nan}, n, n, func(s []float64) {
				// Whether a slice containing NaN is "sorted" is not defined by the
				// documentation (NaN is unordered; the implementation happens to use
				// sort.Float64sAreSorted, which puts NaNs first): don't-care zone.
				// With n >= 2 such a call may panic or return any index in [-1, n-2].
				isSorted := true
				for i := 0; i+1 < n; i++ {
					if s[i+1] < s[i] {
						isSorted = false
					}
				}
				nanIn := hasNaN(s)
				for _, v := range qs {
					cnt++
					var got int
					p := mustPanic(func() { got = floats.Within(s, v) })
					if n >= 2 && nanIn {
						dontcare++
						if !p && (got < -1 || got > n-2) {
							t.Failf("Within(%s,%v)=%d out of range", fstr(s), v, got)
							return
						}
						continue
					}
					if n < 2 || !isSorted {
						unsorted++
						if !p {
							t.Failf("Within(%s,%v) did not panic (short or unsorted input)", fstr(s), v)
							return
						}
						continue
					}
					sorted++
					if p {
						t.Failf("Within(%s,%v) panicked on sorted input", fstr(s), v)
						return
					}
					want := -1 // "the first index i where s[i] <= v < s[i+1]"
					for i := 0; i+1 < n; i++ {
						if s[i] <= v && v < s[i+1] {
							want = i
							break
						}
					}
					if got != want {
						t.Failf("Within(%s,%v)=%d want %d", fstr(s), v, got, want)
						return
					}
				}
			})
			t.Count("within_sorted", int64(sorted))
			t.Count("within_panics_expected", int64(unsorted))
			t.Count("within_nan_dontcare", int64(dontcare))
			if n >= 2 {
				t.Nontrivial()
			}
			t.Outcome("within")
		})
	}
}

func genFloatsLogSumExp(g *vlib.G) {
	// pairs of infinities at all pairs of positions: a +Inf element gives +Inf, a -Inf element contributes nothing
	for _, n := range []int{2, 3, 5, 8, 9, 17} {
		n := n
		g.Case(fmt.Sprintf("LogSumExp infinite pairs n=%d", n), func(t *vlib.T) {
			for _, a := range []float64{pinf, ninf} {
				for _, b := range []float64{pinf, ninf} {
					for i := 0; i < n; i++ {
						for j := i + 1; j < n; j++ {
							s := make([]float64, n)
							naive := 0.0
							for k := range s {
								s[k] = float64((k*5+n)%9-4) / 2
							}
							s[i], s[j] = a, b
							for _, v := range s {
								naive += math.Exp(v) // exp(-Inf) = 0, exp(+Inf) = +Inf
							}
							want := math.Log(naive) // log(0) = -Inf for n == 2 with two -Inf
							got := floats.LogSumExp(s)
							if !(got == want) && !(math.Abs(got-want) <= 1e-12*math.Max(1, math.Abs(want))) {
								t.Failf("LogSumExp(%s)=%v want %v", fstr(s), got, want)
								return
							}
						}
					}
				}
			}
			t.Nontrivial()
			t.Outcome("logsumexp-pairs")
		})
	}
	// ---- LogSumExp ----
	for n := 0; n <= vlib.Pick(g, 40, 70); n++ {
		n := n
		g.Case(fmt.Sprintf("LogSumExp n=%d", n), func(t *vlib.T) {
			if n == 0 {
				if !mustPanic(func() { floats.LogSumExp(nil) }) {
					t.Failf("LogSumExp of an empty slice did not panic")
				}
				return
			}
			r := lcg(uint64(n) + 99)
			for rep := 0; rep < 6; rep++ {
				s := make([]float64, n)
				naive := 0.0
				for i := range s {
					s[i] = float64(r.intn(321)-160) / 8 // dyadic values in [-20, 20]
					naive += math.Exp(s[i])
				}
				want := math.Log(naive)                                // the definition, safe from overflow in this range
				for _, shift := range []float64{0, 1000, -1000, 700} { // log-sum-exp(x+c) = log-sum-exp(x)+c; x+c is exact
					w, ok := guarded(s)
					for i := range w {
						w[i] += shift
					}
					w0 := append([]float64(nil), w...)
					got := floats.LogSumExp(w)
					if math.Abs(got-(want+shift)) > 1e-12*math.Max(1, math.Abs(want+shift)) {
						t.Failf("LogSumExp(%s + %v)=%v want %v", fstr(s), shift, got, want+shift)
						return
					}
					if _, same := vlib.Same64(w, w0); !same || !ok() {
						t.Failf("LogSumExp modified its argument")
					}
				}
				// infinities: +Inf present -> +Inf; all -Inf -> -Inf; a -Inf element contributes nothing
				s2 := append([]float64(nil), s...)
				s2[r.intn(n)] = pinf
				if got := floats.LogSumExp(s2); got != pinf {
					t.Failf("LogSumExp with a +Inf element = %v", got)
				}
				for i := range s2 {
					s2[i] = ninf
				}
				if got := floats.LogSumExp(s2); got != ninf {
					t.Failf("LogSumExp of all -Inf = %v", got)
				}
				if n >= 2 {
					s3 := append([]float64(nil), s...)
					j := r.intn(n)
					s3[j] = ninf
					naive3 := 0.0
					for _, v := range s3 {
						naive3 += math.Exp(v)
					}
					if got, w3 := floats.LogSumExp(s3), math.Log(naive3); math.Abs(got-w3) > 1e-9*math.Max(1, math.Abs(w3)) {
						t.Failf("LogSumExp with a -Inf element = %v want %v", got, w3)
					}
				}
			}
			t.Nontrivial()
			t.Outcome("logsumexp")
		})
	}
}
