package main

import (
	"fmt"

	"gonum.org/v1/gonum/internal/verif/vlib"
)

// Special-value classes of the real-valued kernels.
//
// Lane-wise kernels (every output element depends on the same element of
// the inputs only): all operands and the scalar are drawn from the special
// alphabet {+-0, NaN, +-Inf, subnormals, huge, tiny, max, min-normal, 1, -3}
// rotated so that every lane position sees every special. IEEE 754 fixes the
// result of each scalar operation completely except for NaN payloads, so the
// comparison is bit for bit except that a computed NaN matches any NaN.
//
// Reductions: one or two specials from an order-independent alphabet are
// placed at every position in turn on a background of small integers or
// zeros; whatever the association order the result is the same class (NaN,
// +-Inf, or the exact value), compared with the scalar loop.

func genLaneSpecials[T num](tab []*kop[T], sp []T) func(g *vlib.G) {
	return func(g *vlib.G) {
		ev := &evaluator[T]{ab: newAlphabet[T]()}
		L := len(sp)
		alphas := []T{sp[10], sp[2], sp[3], sp[0], sp[1], sp[7], sp[5], sp[11], sp[4], sp[14], sp[17]}
		for _, op := range tab {
			if !op.lane {
				continue
			}
			op := op
			var incSets [][4]int
			ns := vlib.Ints(0, 70)
			if op.isInc() {
				ns = vlib.Ints(0, vlib.Pick(g, 12, 30))
				switch op.ninc {
				case 1:
					incSets = [][4]int{{1}, {2}, {3}}
				case 2:
					incSets = [][4]int{{1, 1}, {2, 1}, {1, 3}, {2, 2}}
					if op.hasIx {
						incSets = append(incSets, [4]int{-1, 2}, [4]int{3, -2})
					}
				default:
					incSets = [][4]int{{1, 1, 1}, {2, 1, 3}, {1, 2, 2}, {3, 3, 1}, {-1, 2, 1}, {2, -2, -1}}
				}
			} else {
				incSets = [][4]int{{}}
			}
			for _, n := range ns {
				for _, inc := range incSets {
					for _, pl := range []int{n % 8, plEnd} {
						n, inc, pl := n, inc, pl
						g.Case(fmt.Sprintf("%s n=%d inc=%v pl=%s", op.name, n, inc[:op.ninc], plName(pl)), func(t *vlib.T) {
							evals := 0
							as := alphas
							if op.alpha == 0 {
								as = alphas[:1]
							}
							for ai, alpha := range as {
								for shift := 0; shift < L; shift++ {
									e := &evalSpec[T]{op: op, n: n, pl: pl, plStep: 3, aliasTo: -1, alpha: alpha, inc: inc, seed: 1, lenient: true}
									for k := 0; k < op.nv; k++ {
										if i := inc[op.incOf[k]]; op.isInc() && i < 0 && n > 0 {
											e.idx[k] = (n - 1) * (-i)
										}
									}
									e.special = func(k int, s []T, n, inc, idx int) {
										if op.fill[k] == fNone {
											return
										}
										st := startIdx(n, inc, idx)
										for i := 0; i < n; i++ {
											s[st+i*absInt(inc)] = sp[(i+shift+5*k+ai)%L]
										}
									}
									evals++
									if msg := ev.eval(e); msg != "" {
										report(t, op.name, msg, "%s special values [alpha=%v shift=%d inc=%v]: %s", op.name, alpha, shift, inc[:op.ninc], msg)
										return
									}
								}
							}
							t.Count("kernel_evaluations", int64(evals))
							if n >= 1 {
								t.Nontrivial()
							}
							t.Outcome(fmt.Sprintf("%s n%%4=%d", op.name, n%4))
						})
					}
				}
			}
		}
	}
}

// redSpecials returns the order-independent special alphabet of a reduction kind.
func redSpecials[T num](kind int, sp []T) []T {
	// sp indices: 0:+0 1:-0 2:NaN 3:+Inf 4:-Inf 5:subnormal 6:-subnormal 7:huge 8:-huge 9:tiny 10:1 11:-3 12:max 13:minnormal
	switch kind {
	case 1:
		return []T{sp[2], sp[3], sp[4], sp[7], sp[8]}
	case 2:
		return []T{sp[2], sp[3], sp[4]}
	case 3:
		return []T{sp[3], sp[4], sp[7], sp[8]}
	case 4: // cumulative sum
		return []T{sp[2], sp[3], sp[4]}
	case 5: // cumulative product
		return []T{sp[2], sp[3], sp[4], sp[0], sp[1]}
	}
	return nil
}

func genReductionSpecials[T num](tab []*kop[T], sp []T) func(g *vlib.G) {
	return func(g *vlib.G) {
		ev := &evaluator[T]{ab: newAlphabet[T]()}
		zero := mk[T](0, 0)
		for _, op := range tab {
			kind := op.sred
			if op.rets && !op.lane && !op.isInc() { // CumSum, CumProd
				kind = 4
				if op.fill[1] == fPow2 {
					kind = 5
				}
			}
			if kind == 0 || isCplx[T]() && kind != 2 {
				continue
			}
			op, kind := op, kind
			rs := redSpecials(kind, sp)
			incSets := [][4]int{{}}
			if op.isInc() {
				incSets = [][4]int{{1, 1}, {2, 3}, {3, 1}}
				if op.hasIx {
					incSets = append(incSets, [4]int{-2, 1}, [4]int{1, -1})
				}
			}
			for n := 1; n <= vlib.Pick(g, 40, 70); n++ {
				for _, inc := range incSets {
					for _, pl := range []int{n % 8, plEnd} {
						n, inc, pl := n, inc, pl
						g.Case(fmt.Sprintf("%s n=%d inc=%v pl=%s", op.name, n, inc[:op.ninc], plName(pl)), func(t *vlib.T) {
							evals := 0
							for bg := 0; bg < 2; bg++ { // background: small integers, zeros
								if bg == 1 && kind >= 4 {
									continue
								}
								for si, s1 := range rs {
									for second := 0; second < 2; second++ {
										for j := 0; j < n; j++ {
											if second == 1 && (n < 2 || j%3 != 0) {
												continue
											}
											// a second special is order-independent only among NaN and the
											// infinities for sums (huge and -huge cancel differently in
											// different association orders)
											nsec := len(rs)
											if kind == 1 || kind == 4 {
												nsec = 3
											}
											if second == 1 && si >= nsec {
												continue
											}
											e := &evalSpec[T]{op: op, n: n, pl: pl, plStep: 3, aliasTo: -1, alpha: mk[T](1, 0), inc: inc, seed: uint64(n), lenient: true}
											for k := 0; k < op.nv; k++ {
												if i := inc[op.incOf[k]]; op.isInc() && i < 0 {
													e.idx[k] = (n - 1) * (-i)
												}
											}
											src := 0
											if op.wr == 0 {
												src = 1 // CumSum/CumProd read operand 1
											}
											e.special = func(k int, s []T, n, inc, idx int) {
												st := startIdx(n, inc, idx)
												if bg == 1 {
													for i := 0; i < n; i++ {
														s[st+i*absInt(inc)] = zero
													}
												}
												if k != src {
													return
												}
												s[st+j*absInt(inc)] = s1
												if second == 1 {
													s[st+((j+n/2+1)%n)*absInt(inc)] = rs[(si+1)%nsec]
												}
											}
											evals++
											if msg := ev.eval(e); msg != "" {
												report(t, op.name, msg, "%s special %v at %d (second=%d, background %d): %s", op.name, s1, j, second, bg, msg)
												return
											}
										}
									}
								}
							}
							t.Count("kernel_evaluations", int64(evals))
							t.Nontrivial()
							t.Outcome(fmt.Sprintf("%s n%%4=%d", op.name, n%4))
						})
					}
				}
			}
		}
	}
}
