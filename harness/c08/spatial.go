package main

import (
	"fmt"
	"math"
	"math/cmplx"

	"gonum.org/v1/gonum/internal/verif/vlib"
	"gonum.org/v1/gonum/mat"
	"gonum.org/v1/gonum/spatial/r2"
	"gonum.org/v1/gonum/spatial/r3"
)

// Fixed-size helpers of spatial/r2 and spatial/r3. Components are small
// integers (or halves), so sums and products are exact and compared with
// ==; square roots, divisions and trigonometry get a stated tolerance. The
// r3.Mat methods run against a triple-loop reference in both the unsafe
// (default, noasm) and the safe build.

var grid1 = []float64{-2, -1, 0, 1, 3}

func vecs3() []r3.Vec {
	var out []r3.Vec
	for _, x := range grid1 {
		for _, y := range grid1 {
			for _, z := range grid1 {
				out = append(out, r3.Vec{X: x, Y: y, Z: z})
			}
		}
	}
	return out
}

func vecs2() []r2.Vec {
	var out []r2.Vec
	for _, x := range grid1 {
		for _, y := range grid1 {
			out = append(out, r2.Vec{X: x, Y: y})
		}
	}
	return out
}

func near(a, b, tol float64) bool { return a == b || math.Abs(a-b) <= tol }

// m33 is the reference 3x3 matrix.
type m33 [3][3]float64

func (a m33) mul(b m33) (c m33) {
	for i := 0; i < 3; i++ {
		for j := 0; j < 3; j++ {
			for k := 0; k < 3; k++ {
				c[i][j] += a[i][k] * b[k][j]
			}
		}
	}
	return c
}

func (a m33) tr() (c m33) {
	for i := 0; i < 3; i++ {
		for j := 0; j < 3; j++ {
			c[i][j] = a[j][i]
		}
	}
	return c
}

func (a m33) det() float64 {
	// Leibniz expansion over the six permutations
	return a[0][0]*a[1][1]*a[2][2] + a[0][1]*a[1][2]*a[2][0] + a[0][2]*a[1][0]*a[2][1] -
		a[0][2]*a[1][1]*a[2][0] - a[0][1]*a[1][0]*a[2][2] - a[0][0]*a[1][2]*a[2][1]
}

func (a m33) flat() []float64 {
	out := make([]float64, 0, 9)
	for i := 0; i < 3; i++ {
		out = append(out, a[i][:]...)
	}
	return out
}

func readMat(m mat.Matrix) (c m33) {
	for i := 0; i < 3; i++ {
		for j := 0; j < 3; j++ {
			c[i][j] = m.At(i, j)
		}
	}
	return c
}

func intMat(seed uint64) (a m33) {
	r := lcg(seed*2654435761 + 17)
	for i := 0; i < 3; i++ {
		for j := 0; j < 3; j++ {
			a[i][j] = float64(r.intn(7) - 3)
		}
	}
	return a
}

func genSpatial(g *vlib.G) {
	v3, v2 := vecs3(), vecs2()

	g.Case("r3 vector algebra on the integer grid", func(t *vlib.T) {
		n := 0
		for _, p := range v3 {
			n2 := p.X*p.X + p.Y*p.Y + p.Z*p.Z
			if r3.Norm2(p) != n2 || !near(r3.Norm(p), math.Sqrt(n2), 2*0x1p-52*math.Sqrt(n2)) {
				t.Failf("r3.Norm2/Norm(%v)=%v,%v", p, r3.Norm2(p), r3.Norm(p))
			}
			un := r3.Unit(p)
			if n2 == 0 {
				if !math.IsNaN(un.X) || !math.IsNaN(un.Y) || !math.IsNaN(un.Z) {
					t.Failf("r3.Unit(0)=%v", un)
				}
			} else if l := math.Sqrt(n2); !near(un.X, p.X/l, 4*0x1p-52) || !near(un.Y, p.Y/l, 4*0x1p-52) || !near(un.Z, p.Z/l, 4*0x1p-52) {
				t.Failf("r3.Unit(%v)=%v", p, un)
			}
			for _, f := range []float64{0, 1, -2, 0.5} {
				if s := r3.Scale(f, p); s != (r3.Vec{X: f * p.X, Y: f * p.Y, Z: f * p.Z}) {
					t.Failf("r3.Scale(%v,%v)=%v", f, p, s)
				}
			}
			for _, q := range v3 {
				n++
				if s := r3.Add(p, q); s != (r3.Vec{X: p.X + q.X, Y: p.Y + q.Y, Z: p.Z + q.Z}) {
					t.Failf("r3.Add(%v,%v)=%v", p, q, s)
				}
				if s := r3.Sub(p, q); s != (r3.Vec{X: p.X - q.X, Y: p.Y - q.Y, Z: p.Z - q.Z}) {
					t.Failf("r3.Sub(%v,%v)=%v", p, q, s)
				}
				d := p.X*q.X + p.Y*q.Y + p.Z*q.Z
				if r3.Dot(p, q) != d {
					t.Failf("r3.Dot(%v,%v)=%v", p, q, r3.Dot(p, q))
				}
				c := r3.Cross(p, q)
				// definition: orthogonal to both, |c|^2 = |p|^2|q|^2 - (p.q)^2, right-handed
				q2 := q.X*q.X + q.Y*q.Y + q.Z*q.Z
				if r3.Dot(c, p) != 0 || r3.Dot(c, q) != 0 || r3.Norm2(c) != n2*q2-d*d ||
					c != (r3.Vec{X: p.Y*q.Z - p.Z*q.Y, Y: p.Z*q.X - p.X*q.Z, Z: p.X*q.Y - p.Y*q.X}) {
					t.Failf("r3.Cross(%v,%v)=%v", p, q, c)
				}
				if n2 != 0 && q2 != 0 {
					if got, want := r3.Cos(p, q), d/math.Sqrt(n2*q2); !near(got, want, 8*0x1p-52) {
						t.Failf("r3.Cos(%v,%v)=%v want %v", p, q, got, want)
					}
				}
			}
		}
		if r3.Cross(r3.Vec{X: 1}, r3.Vec{Y: 1}) != (r3.Vec{Z: 1}) {
			t.Failf("r3.Cross is not right-handed")
		}
		for _, s := range []float64{1e200, 1e-200, 1e300} { // Norm must neither overflow nor underflow
			if got, want := r3.Norm(r3.Vec{X: s, Y: -s, Z: s}), s*math.Sqrt(3); !near(got, want, 4*0x1p-52*want) {
				t.Failf("r3.Norm at scale %v = %v want %v", s, got, want)
			}
			if got, want := r2.Norm(r2.Vec{X: s, Y: -s}), s*math.Sqrt2; !near(got, want, 4*0x1p-52*want) {
				t.Failf("r2.Norm at scale %v = %v want %v", s, got, want)
			}
		}
		t.Count("pairs", int64(n))
		t.Nontrivial()
		t.Outcome("r3-vec")
	})

	g.Case("r2 vector algebra on the integer grid", func(t *vlib.T) {
		for _, p := range v2 {
			n2 := p.X*p.X + p.Y*p.Y
			if r2.Norm2(p) != n2 || !near(r2.Norm(p), math.Sqrt(n2), 2*0x1p-52*math.Sqrt(n2)) {
				t.Failf("r2.Norm2/Norm(%v)", p)
			}
			un := r2.Unit(p)
			if n2 == 0 {
				if !math.IsNaN(un.X) || !math.IsNaN(un.Y) {
					t.Failf("r2.Unit(0)=%v", un)
				}
			} else if l := math.Sqrt(n2); !near(un.X, p.X/l, 4*0x1p-52) || !near(un.Y, p.Y/l, 4*0x1p-52) {
				t.Failf("r2.Unit(%v)=%v", p, un)
			}
			for _, f := range []float64{0, 1, -2, 0.5} {
				if s := r2.Scale(f, p); s != (r2.Vec{X: f * p.X, Y: f * p.Y}) {
					t.Failf("r2.Scale(%v,%v)=%v", f, p, s)
				}
			}
			for _, q := range v2 {
				if r2.Add(p, q) != (r2.Vec{X: p.X + q.X, Y: p.Y + q.Y}) || r2.Sub(p, q) != (r2.Vec{X: p.X - q.X, Y: p.Y - q.Y}) {
					t.Failf("r2.Add/Sub(%v,%v)", p, q)
				}
				d := p.X*q.X + p.Y*q.Y
				if r2.Dot(p, q) != d || r2.Cross(p, q) != p.X*q.Y-p.Y*q.X {
					t.Failf("r2.Dot/Cross(%v,%v)", p, q)
				}
				q2 := q.X*q.X + q.Y*q.Y
				if n2 != 0 && q2 != 0 {
					if got, want := r2.Cos(p, q), d/math.Sqrt(n2*q2); !near(got, want, 8*0x1p-52) {
						t.Failf("r2.Cos(%v,%v)=%v want %v", p, q, got, want)
					}
				}
				// rotation of p about q by alpha = multiplication by e^{i alpha} in the complex plane
				for _, alpha := range []float64{0, math.Pi / 2, math.Pi, -math.Pi / 2, 1, -2.5, 7} {
					z := (complex(p.X, p.Y)-complex(q.X, q.Y))*cmplx.Exp(complex(0, alpha)) + complex(q.X, q.Y)
					tol := 8 * 0x1p-52 * (1 + math.Hypot(p.X-q.X, p.Y-q.Y) + math.Hypot(q.X, q.Y))
					for k, got := range []r2.Vec{r2.Rotate(p, alpha, q), r2.NewRotation(alpha, q).Rotate(p)} {
						if alpha == 0 && got != p {
							t.Failf("r2 rotation %d by 0 of %v about %v = %v", k, p, q, got)
						}
						if !near(got.X, real(z), tol) || !near(got.Y, imag(z), tol) {
							t.Failf("r2 rotation %d of %v by %v about %v = %v want %v", k, p, alpha, q, got, z)
						}
					}
				}
			}
		}
		t.Nontrivial()
		t.Outcome("r2-vec")
	})

	// Rotations by tiny angles and by angles next to multiples of pi/2 (identity and quarter-turn shortcuts),
	// with far-apart points. Oracle: the definition q + R(alpha)(p-q) with math.Sincos in float64; every
	// product and sum of the definition rounds once, so the bound is a few ulps of |p-q|+|q| (a shortcut taken
	// for a non-zero angle is off by |alpha mod 2pi|*|p-q|).
	rotAngles := func() []float64 {
		var out []float64
		for k := -4; k <= 8; k++ {
			base := float64(k) * math.Pi / 2
			for _, d := range []float64{0, 1e-300, 1e-17, 1e-12, 1e-9, 3e-9, 1e-8, 1e-7, 1e-6, 1e-3} {
				out = append(out, base+d, base-d)
			}
		}
		return append(out, 0.3, -1.1, 2*math.Pi, -2*math.Pi, 100*math.Pi, 1e6)
	}()
	g.Case("r2 rotations by tiny angles and near multiples of pi/2", func(t *vlib.T) {
		pts := []r2.Vec{{X: 1, Y: 0}, {X: 3, Y: 4}, {X: -2, Y: 0.5}, {X: 1e6, Y: -3e5}, {X: -7e5, Y: 2e6}, {X: 1e150, Y: 1e150}, {X: 0, Y: 0}}
		n := 0
		for _, q := range pts {
			for _, p := range pts {
				o := r2.Vec{X: p.X - q.X, Y: p.Y - q.Y}
				tol := 8 * 0x1p-52 * (math.Hypot(o.X, o.Y) + math.Hypot(q.X, q.Y))
				for _, alpha := range rotAngles {
					n++
					sin, cos := math.Sincos(alpha)
					want := r2.Vec{X: (o.X*cos - o.Y*sin) + q.X, Y: (o.X*sin + o.Y*cos) + q.Y}
					for k, got := range []r2.Vec{r2.Rotate(p, alpha, q), r2.NewRotation(alpha, q).Rotate(p)} {
						if !near(got.X, want.X, tol) || !near(got.Y, want.Y, tol) {
							t.Failf("r2 rotation %d of %v by %v about %v = %v want %v (error %g, %g; bound %g)", k, p, alpha, q, got, want, got.X-want.X, got.Y-want.Y, tol)
							return
						}
					}
				}
			}
		}
		t.Count("rotations", int64(n))
		t.Nontrivial()
		t.Outcome("r2-rot-angles")
	})
	g.Case("r3 rotations by tiny angles and near multiples of pi/2", func(t *vlib.T) {
		pts := []r3.Vec{{X: 1, Y: 0, Z: 0}, {X: 3, Y: 4, Z: -1}, {X: 1e6, Y: -3e5, Z: 2e5}, {X: 0, Y: 0, Z: 7}, {X: 1e150, Y: -1e150, Z: 1e149}}
		axes := []r3.Vec{{X: 1}, {Y: 1}, {Z: 1}, {Z: -2}, {X: 1, Y: 1}, {X: 1, Y: -2, Z: 3}, {X: 1e-3, Y: 0, Z: 1e3}}
		n := 0
		for _, axis := range axes {
			k := r3.Scale(1/math.Sqrt(r3.Norm2(axis)), axis)
			for _, p := range pts {
				tol := 64 * 0x1p-52 * math.Sqrt(p.X*p.X+p.Y*p.Y+p.Z*p.Z)
				for _, alpha := range rotAngles {
					n++
					s, c := math.Sincos(alpha)
					kxp := r3.Vec{X: k.Y*p.Z - k.Z*p.Y, Y: k.Z*p.X - k.X*p.Z, Z: k.X*p.Y - k.Y*p.X}
					kp := k.X*p.X + k.Y*p.Y + k.Z*p.Z
					want := r3.Vec{
						X: p.X*c + kxp.X*s + k.X*kp*(1-c),
						Y: p.Y*c + kxp.Y*s + k.Y*kp*(1-c),
						Z: p.Z*c + kxp.Z*s + k.Z*kp*(1-c),
					}
					rot := r3.NewRotation(alpha, axis)
					for w, got := range []r3.Vec{r3.Rotate(p, alpha, axis), rot.Rotate(p), rot.Mat().MulVec(p)} {
						if !near(got.X, want.X, tol) || !near(got.Y, want.Y, tol) || !near(got.Z, want.Z, tol) {
							t.Failf("r3 rotation %d of %v by %v about %v = %v want %v (bound %g)", w, p, alpha, axis, got, want, tol)
							return
						}
					}
				}
			}
		}
		t.Count("rotations", int64(n))
		t.Nontrivial()
		t.Outcome("r3-rot-angles")
	})

	g.Case("r3 rotations against Rodrigues' formula", func(t *vlib.T) {
		n := 0
		for ai, axis := range v3 {
			if r3.Norm2(axis) == 0 || ai%3 != 0 {
				continue // a zero axis has no direction (don't-care)
			}
			k := r3.Scale(1/math.Sqrt(r3.Norm2(axis)), axis)
			for pi, p := range v3 {
				if pi%4 != 0 {
					continue
				}
				for _, alpha := range []float64{0, math.Pi / 2, math.Pi, 1, -2.5} {
					n++
					s, c := math.Sincos(alpha)
					kxp := r3.Vec{X: k.Y*p.Z - k.Z*p.Y, Y: k.Z*p.X - k.X*p.Z, Z: k.X*p.Y - k.Y*p.X}
					kp := k.X*p.X + k.Y*p.Y + k.Z*p.Z
					want := r3.Vec{
						X: p.X*c + kxp.X*s + k.X*kp*(1-c),
						Y: p.Y*c + kxp.Y*s + k.Y*kp*(1-c),
						Z: p.Z*c + kxp.Z*s + k.Z*kp*(1-c),
					}
					tol := 32 * 0x1p-52 * (1 + math.Sqrt(r3.Norm2(p)))
					rot := r3.NewRotation(alpha, axis)
					m := rot.Mat()
					for w, got := range []r3.Vec{r3.Rotate(p, alpha, axis), rot.Rotate(p), m.MulVec(p)} {
						if alpha == 0 && got != p {
							t.Failf("r3 rotation %d by 0 of %v = %v", w, p, got)
						}
						if !near(got.X, want.X, tol) || !near(got.Y, want.Y, tol) || !near(got.Z, want.Z, tol) {
							t.Failf("r3 rotation %d of %v by %v about %v = %v want %v", w, p, alpha, axis, got, want)
						}
					}
					if d := m.Det(); !near(d, 1, 64*0x1p-52) {
						t.Failf("r3 rotation matrix about %v by %v has determinant %v", axis, alpha, d)
					}
				}
			}
		}
		t.Count("rotations", int64(n))
		t.Nontrivial()
		t.Outcome("r3-rot")
	})

	for seed := uint64(0); seed < uint64(vlib.Pick(g, 60, 400)); seed++ {
		seed := seed
		g.Case(fmt.Sprintf("r3.Mat methods seed=%d", seed), func(t *vlib.T) {
			A, B := intMat(seed), intMat(seed+1000)
			newM := func(a m33) *r3.Mat { return r3.NewMat(a.flat()) }
			eq := func(what string, m mat.Matrix, want m33) {
				if got := readMat(m); got != want {
					t.Failf("%s = %v want %v (A=%v B=%v)", what, got, want, A, B)
				}
			}
			eq("NewMat", newM(A), A)
			eq("NewMat(nil)", r3.NewMat(nil), m33{})
			eq("zero value", &r3.Mat{}, m33{})
			eq("Eye", r3.Eye(), m33{{1, 0, 0}, {0, 1, 0}, {0, 0, 1}})
			if r, c := newM(A).Dims(); r != 3 || c != 3 {
				t.Failf("Dims=%d,%d", r, c)
			}
			if !mustPanic(func() { r3.NewMat(make([]float64, 8)) }) || !mustPanic(func() { r3.NewMat([]float64{}) }) {
				t.Failf("NewMat with a slice of the wrong length did not panic")
			}
			// NewMat shares the slice; Set/At/RawMatrix are views of the same storage
			data := A.flat()
			m := r3.NewMat(data)
			m.Set(1, 2, 42)
			if data[5] != 42 || m.At(1, 2) != 42 {
				t.Failf("NewMat does not share its argument: data[5]=%v At(1,2)=%v", data[5], m.At(1, 2))
			}
			raw := m.RawMatrix()
			if raw.Rows != 3 || raw.Cols != 3 || raw.Stride != 3 || len(raw.Data) != 9 {
				t.Failf("RawMatrix=%+v", raw)
			}
			raw.Data[7] = -9
			if m.At(2, 1) != -9 || data[7] != -9 {
				t.Failf("RawMatrix is not a view")
			}
			var z r3.Mat
			z.Set(2, 0, 5)
			if z.At(2, 0) != 5 || z.At(0, 0) != 0 {
				t.Failf("Set on the zero value")
			}
			for _, ij := range [][2]int{{-1, 0}, {3, 0}, {0, -1}, {0, 3}} {
				mm := newM(A)
				if !mustPanic(func() { mm.At(ij[0], ij[1]) }) || !mustPanic(func() { mm.Set(ij[0], ij[1], 1) }) {
					t.Failf("At/Set(%d,%d) did not panic", ij[0], ij[1])
				}
				if readMat(mm) != A {
					t.Failf("Set(%d,%d) modified the matrix before panicking", ij[0], ij[1])
				}
			}
			eq("T", newM(A).T(), A.tr())
			dA, dB := mat.NewDense(3, 3, A.flat()), mat.NewDense(3, 3, B.flat())
			// Scale, Add, Sub, CloneFrom, Mul with every kind of argument and with the receiver as argument
			for _, f := range []float64{0, 1, -2, 0.5} {
				var want m33
				for i := 0; i < 3; i++ {
					for j := 0; j < 3; j++ {
						want[i][j] = f * A[i][j]
					}
				}
				var r1, r2 r3.Mat
				r1.Scale(f, newM(A))
				r2.Scale(f, dA)
				self := newM(A)
				self.Scale(f, self)
				eq("Scale(Mat)", &r1, want)
				eq("Scale(Dense)", &r2, want)
				eq("Scale(self)", self, want)
				var rt r3.Mat
				rt.Scale(f, newM(A.tr()).T())
				eq("Scale(T)", &rt, want)
			}
			var sum, diff m33
			for i := 0; i < 3; i++ {
				for j := 0; j < 3; j++ {
					sum[i][j], diff[i][j] = A[i][j]+B[i][j], A[i][j]-B[i][j]
				}
			}
			for k := 0; k < 4; k++ {
				var r r3.Mat
				ma, mb := newM(A), newM(B)
				args := [][2]mat.Matrix{{ma, mb}, {dA, dB}, {ma, dB}, {newM(A.tr()).T(), mb}}[k]
				r.Add(args[0], args[1])
				eq(fmt.Sprintf("Add variant %d", k), &r, sum)
				var s r3.Mat
				s.Sub(args[0], args[1])
				eq(fmt.Sprintf("Sub variant %d", k), &s, diff)
				var p r3.Mat
				p.Mul(args[0], args[1])
				eq(fmt.Sprintf("Mul variant %d", k), &p, A.mul(B))
			}
			self := newM(A)
			self.Add(self, newM(B))
			eq("Add(self,B)", self, sum)
			self = newM(B)
			self.Sub(newM(A), self)
			eq("Sub(A,self)", self, diff)
			self = newM(A)
			self.Mul(self, newM(B))
			eq("Mul(self,B)", self, A.mul(B))
			self = newM(B)
			self.Mul(newM(A), self)
			eq("Mul(A,self)", self, A.mul(B))
			self = newM(A)
			self.Mul(self, self)
			eq("Mul(self,self)", self, A.mul(A))
			var cl r3.Mat
			cl.CloneFrom(dA)
			eq("CloneFrom(Dense)", &cl, A)
			cl.CloneFrom(newM(B))
			eq("CloneFrom(Mat)", &cl, B)
			for _, bad := range []mat.Matrix{mat.NewDense(2, 3, nil), mat.NewDense(3, 4, nil)} {
				var r r3.Mat
				if !mustPanic(func() { r.Scale(1, bad) }) || !mustPanic(func() { r.Add(bad, dA) }) || !mustPanic(func() { r.Sub(dA, bad) }) || !mustPanic(func() { r.CloneFrom(bad) }) {
					t.Failf("a %v argument did not panic", fmt.Sprint(bad.Dims()))
				}
			}
			// general inner dimension
			for _, k := range []int{1, 2, 4, 5} {
				r := lcg(seed*7 + uint64(k))
				a, b := mat.NewDense(3, k, nil), mat.NewDense(k, 3, nil)
				var want m33
				for i := 0; i < 3; i++ {
					for l := 0; l < k; l++ {
						a.Set(i, l, float64(r.intn(7)-3))
					}
				}
				for l := 0; l < k; l++ {
					for j := 0; j < 3; j++ {
						b.Set(l, j, float64(r.intn(7)-3))
					}
				}
				for i := 0; i < 3; i++ {
					for j := 0; j < 3; j++ {
						for l := 0; l < k; l++ {
							want[i][j] += a.At(i, l) * b.At(l, j)
						}
					}
				}
				var p r3.Mat
				p.Mul(a, b)
				eq(fmt.Sprintf("Mul inner=%d on the zero value", k), &p, want)
				q := newM(A)
				q.Mul(a, b)
				eq(fmt.Sprintf("Mul inner=%d", k), q, want)
				if !mustPanic(func() { q.Mul(a, a) }) || !mustPanic(func() { q.Mul(b, a) }) {
					t.Failf("Mul with mismatched shapes did not panic")
				}
			}
			// vectors
			for vi, v := range v3 {
				if (vi+int(seed))%9 != 0 {
					continue
				}
				want := r3.Vec{
					X: A[0][0]*v.X + A[0][1]*v.Y + A[0][2]*v.Z,
					Y: A[1][0]*v.X + A[1][1]*v.Y + A[1][2]*v.Z,
					Z: A[2][0]*v.X + A[2][1]*v.Y + A[2][2]*v.Z,
				}
				if got := newM(A).MulVec(v); got != want {
					t.Failf("MulVec(%v)=%v want %v", v, got, want)
				}
				if got := newM(A.tr()).MulVecTrans(v); got != want {
					t.Failf("MulVecTrans(%v)=%v want %v", v, got, want)
				}
				if (&r3.Mat{}).MulVec(v) != (r3.Vec{}) || (&r3.Mat{}).MulVecTrans(v) != (r3.Vec{}) {
					t.Failf("MulVec on the zero value")
				}
				w := v3[(vi*7+3)%len(v3)]
				var sk r3.Mat
				sk.Skew(v)
				if got, want := sk.MulVec(w), r3.Cross(v, w); got != want {
					t.Failf("Skew(%v)*%v=%v want the cross product %v", v, w, got, want)
				}
				eq("deprecated Skew", r3.Skew(v), readMat(&sk))
				for _, alpha := range []float64{1, -2, 0.5} {
					var o r3.Mat
					o.Outer(alpha, v, w)
					vv, ww := [3]float64{v.X, v.Y, v.Z}, [3]float64{w.X, w.Y, w.Z}
					var want m33
					for i := 0; i < 3; i++ {
						for j := 0; j < 3; j++ {
							want[i][j] = alpha * vv[i] * ww[j]
						}
					}
					eq("Outer", &o, want)
				}
			}
			for i := 0; i < 3; i++ {
				if got := newM(A).VecRow(i); got != (r3.Vec{X: A[i][0], Y: A[i][1], Z: A[i][2]}) {
					t.Failf("VecRow(%d)=%v", i, got)
				}
				if got := newM(A).VecCol(i); got != (r3.Vec{X: A[0][i], Y: A[1][i], Z: A[2][i]}) {
					t.Failf("VecCol(%d)=%v", i, got)
				}
			}
			if !mustPanic(func() { newM(A).VecRow(3) }) || !mustPanic(func() { newM(A).VecCol(3) }) {
				t.Failf("VecRow/VecCol(3) did not panic")
			}
			if (&r3.Mat{}).VecRow(1) != (r3.Vec{}) || (&r3.Mat{}).VecCol(2) != (r3.Vec{}) {
				t.Failf("VecRow/VecCol on the zero value")
			}
			if got := newM(A).Det(); got != A.det() {
				t.Failf("Det(%v)=%v want %v", A, got, A.det())
			}
			if got := newM(A.mul(B)).Det(); got != A.det()*B.det() {
				t.Failf("Det(AB)=%v want %v", got, A.det()*B.det())
			}
			// finite differences of polynomial fields of degree <= 2 with dyadic steps are exact
			p0 := v3[int(seed)%len(v3)]
			step := r3.Vec{X: 0.5, Y: 1, Z: 0.25}
			quad := func(v r3.Vec) float64 { // v'Av + b.v
				return A[0][0]*v.X*v.X + A[1][1]*v.Y*v.Y + A[2][2]*v.Z*v.Z + A[0][1]*v.X*v.Y + A[0][2]*v.X*v.Z + A[1][2]*v.Y*v.Z + B[0][0]*v.X + B[0][1]*v.Y + B[0][2]*v.Z
			}
			grad := r3.Vec{
				X: 2*A[0][0]*p0.X + A[0][1]*p0.Y + A[0][2]*p0.Z + B[0][0],
				Y: 2*A[1][1]*p0.Y + A[0][1]*p0.X + A[1][2]*p0.Z + B[0][1],
				Z: 2*A[2][2]*p0.Z + A[0][2]*p0.X + A[1][2]*p0.Y + B[0][2],
			}
			if got := r3.Gradient(p0, step, quad); got != grad {
				t.Failf("Gradient=%v want %v", got, grad)
			}
			var h r3.Mat
			h.Hessian(p0, step, quad)
			eq("Hessian", &h, m33{{2 * A[0][0], A[0][1], A[0][2]}, {A[0][1], 2 * A[1][1], A[1][2]}, {A[0][2], A[1][2], 2 * A[2][2]}})
			lin := func(v r3.Vec) r3.Vec { return r3.Add(newM(A).MulVec(v), r3.Vec{X: 1, Y: -2, Z: 3}) }
			var j r3.Mat
			j.Jacobian(p0, step, lin)
			eq("Jacobian", &j, A)
			if got, want := r3.Divergence(p0, step, lin), A[0][0]+A[1][1]+A[2][2]; got != want {
				t.Failf("Divergence=%v want %v", got, want)
			}
			t.Nontrivial()
			t.Outcome("r3-mat")
		})
	}

	// Independence of results from operands after the call (post-call histories). For every r3.Mat method that
	// stores a matrix result in the receiver, every receiver state {zero value, NewMat(nil), NewMat(data),
	// previously used as a destination, previously used as a source} and every kind of matrix operand
	// {*r3.Mat with data, zero-value *r3.Mat, *mat.Dense, transposed view of a Dense, transposed view of a Mat}:
	// (1) the result equals the definition, (2) the operands are unchanged, (3) writing to every operand
	// afterwards does not change the result, (4) writing to the result afterwards does not change any operand,
	// (5) two results computed from the same operands do not share storage. (T and RawMatrix are documented
	// views and are checked to BE views; NewMat(data) is checked to share data in both builds.)
	type matOp struct {
		name string
		nsrc int
		do   func(recv *r3.Mat, src []mat.Matrix)
		want func(src []m33) m33
	}
	ew := func(f func(a, b float64) float64) func(src []m33) m33 {
		return func(src []m33) (c m33) {
			for i := 0; i < 3; i++ {
				for j := 0; j < 3; j++ {
					c[i][j] = f(src[0][i][j], src[len(src)-1][i][j])
				}
			}
			return c
		}
	}
	vx, vy := r3.Vec{X: 1, Y: -2, Z: 3}, r3.Vec{X: -1, Y: 0, Z: 2}
	matOps := []matOp{
		{"CloneFrom", 1, func(r *r3.Mat, s []mat.Matrix) { r.CloneFrom(s[0]) }, func(s []m33) m33 { return s[0] }},
		{"Scale", 1, func(r *r3.Mat, s []mat.Matrix) { r.Scale(2, s[0]) }, ew(func(a, _ float64) float64 { return 2 * a })},
		{"Add", 2, func(r *r3.Mat, s []mat.Matrix) { r.Add(s[0], s[1]) }, ew(func(a, b float64) float64 { return a + b })},
		{"Sub", 2, func(r *r3.Mat, s []mat.Matrix) { r.Sub(s[0], s[1]) }, ew(func(a, b float64) float64 { return a - b })},
		{"Mul", 2, func(r *r3.Mat, s []mat.Matrix) { r.Mul(s[0], s[1]) }, func(s []m33) m33 { return s[0].mul(s[1]) }},
		{"Outer", 0, func(r *r3.Mat, s []mat.Matrix) { r.Outer(2, vx, vy) }, func([]m33) m33 {
			return m33{{-2, 0, 4}, {4, 0, -8}, {-6, 0, 12}}
		}},
		{"Skew", 0, func(r *r3.Mat, s []mat.Matrix) { r.Skew(vx) }, func([]m33) m33 { return m33{{0, -3, -2}, {3, 0, -1}, {2, 1, 0}} }},
		{"Jacobian", 0, func(r *r3.Mat, s []mat.Matrix) {
			r.Jacobian(vy, r3.Vec{X: 0.5, Y: 1, Z: 0.25}, func(v r3.Vec) r3.Vec { return r3.Vec{X: 2*v.X - v.Z, Y: v.Y + 3*v.Z, Z: v.X} })
		}, func([]m33) m33 { return m33{{2, 0, -1}, {0, 1, 3}, {1, 0, 0}} }},
		{"Hessian", 0, func(r *r3.Mat, s []mat.Matrix) {
			r.Hessian(vy, r3.Vec{X: 0.5, Y: 1, Z: 0.25}, func(v r3.Vec) float64 { return v.X*v.X - 2*v.X*v.Y + 3*v.Z*v.Z + v.Y*v.Z })
		}, func([]m33) m33 { return m33{{2, -2, 0}, {-2, 0, 1}, {0, 1, 6}} }},
	}
	// a source: the matrix handed to the method, its value, and a function that overwrites its storage
	type source struct {
		m      mat.Matrix
		val    m33
		mutate func() m33 // writes new values into the underlying storage, returns the new value seen through m
	}
	srcKinds := []string{"Mat", "zero Mat", "Dense", "Dense.T", "Mat.T"}
	newSource := func(kind int, a m33) source {
		bump := func(set func(i, j int, v float64), view func() mat.Matrix) func() m33 {
			return func() m33 {
				for i := 0; i < 3; i++ {
					for j := 0; j < 3; j++ {
						set(i, j, float64(100+10*i+j))
					}
				}
				return readMat(view())
			}
		}
		switch kind {
		case 0:
			m := r3.NewMat(a.flat())
			return source{m, a, bump(m.Set, func() mat.Matrix { return m })}
		case 1:
			m := new(r3.Mat)
			return source{m, m33{}, bump(m.Set, func() mat.Matrix { return m })}
		case 2:
			d := mat.NewDense(3, 3, a.flat())
			return source{d, a, bump(d.Set, func() mat.Matrix { return d })}
		case 3:
			d := mat.NewDense(3, 3, a.tr().flat())
			return source{d.T(), a, bump(d.Set, func() mat.Matrix { return d.T() })}
		default:
			m := r3.NewMat(a.tr().flat())
			return source{m.T(), a, bump(m.Set, func() mat.Matrix { return m.T() })}
		}
	}
	recvKinds := []string{"zero value", "NewMat(nil)", "NewMat(data)", "used as destination", "used as source"}
	newRecv := func(kind int, seed uint64) *r3.Mat {
		switch kind {
		case 0:
			return new(r3.Mat)
		case 1:
			return r3.NewMat(nil)
		case 2:
			return r3.NewMat(intMat(seed + 77).flat())
		case 3:
			m := new(r3.Mat)
			m.Mul(r3.NewMat(intMat(seed+5).flat()), r3.NewMat(intMat(seed+6).flat()))
			m.CloneFrom(mat.NewDense(3, 3, intMat(seed+7).flat()))
			return m
		default:
			m := r3.NewMat(intMat(seed + 8).flat())
			var other r3.Mat
			other.CloneFrom(m)
			other.Add(m, m)
			return m
		}
	}
	for oi, op := range matOps {
		op := op
		g.Case(fmt.Sprintf("r3.Mat.%s independence of result and operands", op.name), func(t *vlib.T) {
			n := 0
			nk := len(srcKinds)
			if op.nsrc == 0 {
				nk = 1
			}
			for rk := range recvKinds {
				for k0 := 0; k0 < nk; k0++ {
					for k1 := 0; k1 < nk; k1++ {
						if op.nsrc < 2 && k1 > 0 {
							continue
						}
						n++
						seed := uint64(oi*1000 + rk*100 + k0*10 + k1)
						ctx := fmt.Sprintf("receiver %q", recvKinds[rk])
						var srcs []source
						if op.nsrc >= 1 {
							srcs = append(srcs, newSource(k0, intMat(seed)))
							ctx += fmt.Sprintf(", operand %q", srcKinds[k0])
						}
						if op.nsrc == 2 {
							srcs = append(srcs, newSource(k1, intMat(seed+500)))
							ctx += fmt.Sprintf(" and %q", srcKinds[k1])
						}
						ms := make([]mat.Matrix, len(srcs))
						vals := make([]m33, len(srcs))
						for i, s := range srcs {
							ms[i], vals[i] = s.m, s.val
						}
						want := op.want(vals)
						recv, recv2 := newRecv(rk, seed), newRecv(rk, seed)
						op.do(recv, ms)
						op.do(recv2, ms)
						if got := readMat(recv); got != want {
							t.Failf("%s, %s: result %v want %v", op.name, ctx, got, want)
							return
						}
						for i, s := range srcs {
							if got := readMat(s.m); got != s.val {
								t.Failf("%s, %s: operand %d changed by the call: %v, was %v", op.name, ctx, i, got, s.val)
								return
							}
						}
						// (3) writes to the operands after the call
						for i := range srcs {
							vals[i] = srcs[i].mutate()
							if got := readMat(recv); got != want {
								t.Failf("%s, %s: a write to operand %d after the call changed the result: %v want %v (result shares storage with the operand)", op.name, ctx, i, got, want)
								return
							}
						}
						// (4) writes to the result after the call
						for i := 0; i < 3; i++ {
							for j := 0; j < 3; j++ {
								recv.Set(i, j, -7)
							}
						}
						for i, s := range srcs {
							if got := readMat(s.m); got != vals[i] {
								t.Failf("%s, %s: a write to the result after the call changed operand %d: %v want %v", op.name, ctx, i, got, vals[i])
								return
							}
						}
						// (5) a second result computed from the same operands is independent of the first
						if got := readMat(recv2); got != want {
							t.Failf("%s, %s: a write to one result changed another result of the same call: %v want %v", op.name, ctx, got, want)
							return
						}
					}
				}
			}
			t.Count("independence_histories", int64(n))
			t.Nontrivial()
			t.Outcome("r3-mat-independence")
		})
	}
	g.Case("r3 matrix constructors return fresh storage; documented views are views", func(t *vlib.T) {
		id := m33{{1, 0, 0}, {0, 1, 0}, {0, 0, 1}}
		e1, e2 := r3.Eye(), r3.Eye()
		e1.Set(0, 1, 9)
		e1.Scale(3, e1)
		if readMat(e2) != id || readMat(r3.Eye()) != id {
			t.Failf("Eye() results share storage: %v", readMat(e2))
		}
		v := r3.Vec{X: 1, Y: 2, Z: 3}
		s1, s2 := r3.Skew(v), r3.Skew(v)
		want := readMat(s2)
		s1.Set(0, 0, 5)
		if readMat(s2) != want || readMat(r3.Skew(v)) != want {
			t.Failf("Skew(v) results share storage")
		}
		rot := r3.NewRotation(1, r3.Vec{X: 1, Y: 1})
		m1, m2 := rot.Mat(), rot.Mat()
		wantR := readMat(m2)
		m1.Scale(0, m1)
		if readMat(m2) != wantR || readMat(rot.Mat()) != wantR {
			t.Failf("Rotation.Mat() results share storage")
		}
		z1, z2 := r3.NewMat(nil), r3.NewMat(nil)
		z1.Set(2, 2, 4)
		if readMat(z2) != (m33{}) {
			t.Failf("NewMat(nil) results share storage")
		}
		// T: "Changes in the receiver will be reflected in the returned matrix."
		a := intMat(3)
		m := r3.NewMat(a.flat())
		tv := m.T()
		m.Set(0, 2, 42)
		if tv.At(2, 0) != 42 {
			t.Failf("T() is not a view of the receiver")
		}
		// zero-value receiver: T of a matrix without storage, then a write to the receiver
		var z r3.Mat
		tz := z.T()
		z.Set(1, 0, 6)
		if tz.At(0, 1) != 6 {
			t.Failf("T() of a zero-value Mat is not a view of the receiver")
		}
		// a zero-value matrix used as its own operand
		bm := intMat(11)
		var zs r3.Mat
		zs.Add(&zs, r3.NewMat(bm.flat()))
		if readMat(&zs) != bm {
			t.Failf("zero-value m.Add(m, B) = %v want %v", readMat(&zs), bm)
		}
		var zc, zm r3.Mat
		zc.CloneFrom(&zc)
		zm.Mul(&zm, &zm)
		zm.Scale(3, &zm)
		if readMat(&zc) != (m33{}) || readMat(&zm) != (m33{}) {
			t.Failf("zero-value matrix as its own operand: %v %v", readMat(&zc), readMat(&zm))
		}
		// chains of clones stay independent: c2 <- c1 <- src, then write to each in turn
		src := r3.NewMat(bm.flat())
		var c1, c2 r3.Mat
		c1.CloneFrom(src)
		c2.CloneFrom(&c1)
		c1.Set(0, 0, 50)
		src.Set(1, 1, 60)
		if readMat(&c2) != bm {
			t.Failf("clone of a clone changed by writes to its ancestors: %v want %v", readMat(&c2), bm)
		}
		c2.Set(2, 2, 70)
		if c1.At(2, 2) != bm[2][2] || src.At(2, 2) != bm[2][2] || src.At(0, 0) != bm[0][0] {
			t.Failf("write to a clone of a clone visible in its ancestors")
		}
		// Box.Vertices returns a fresh slice
		b3 := r3.Box{Min: r3.Vec{X: 0, Y: 0, Z: 0}, Max: r3.Vec{X: 1, Y: 2, Z: 3}}
		w1 := b3.Vertices()
		w1[0] = r3.Vec{X: 9}
		if b3.Vertices()[0] != b3.Min || b3.Min != (r3.Vec{}) {
			t.Failf("r3.Box.Vertices shares storage between calls")
		}
		b2 := r2.Box{Min: r2.Vec{X: 0, Y: 0}, Max: r2.Vec{X: 1, Y: 2}}
		u1 := b2.Vertices()
		u1[0] = r2.Vec{X: 9}
		if b2.Vertices()[0] != b2.Min {
			t.Failf("r2.Box.Vertices shares storage between calls")
		}
		t.Nontrivial()
		t.Outcome("r3-fresh-storage")
	})

	g.Case("r2/r3 boxes on the integer grid", func(t *vlib.T) {
		c1 := []float64{-1, 0, 2}
		var b3 []r3.Box
		for _, x0 := range c1 {
			for _, x1 := range c1 {
				for _, y1 := range []float64{0, 2} {
					for _, z1 := range []float64{-1, 3} {
						b3 = append(b3, r3.Box{Min: r3.Vec{X: x0, Y: 0, Z: 0}, Max: r3.Vec{X: x1, Y: y1, Z: z1}})
					}
				}
			}
		}
		for _, a := range b3 {
			empty := a.Min.X >= a.Max.X || a.Min.Y >= a.Max.Y || a.Min.Z >= a.Max.Z
			if a.Empty() != empty || a.Size() != r3.Sub(a.Max, a.Min) || a.Center() != r3.Scale(0.5, r3.Add(a.Min, a.Max)) {
				t.Failf("r3.Box %v: Empty/Size/Center", a)
			}
			nb := r3.NewBox(a.Min.X, a.Min.Y, a.Min.Z, a.Max.X, a.Max.Y, a.Max.Z)
			cn := a.Canon()
			wantC := r3.Box{
				Min: r3.Vec{X: math.Min(a.Min.X, a.Max.X), Y: math.Min(a.Min.Y, a.Max.Y), Z: math.Min(a.Min.Z, a.Max.Z)},
				Max: r3.Vec{X: math.Max(a.Min.X, a.Max.X), Y: math.Max(a.Min.Y, a.Max.Y), Z: math.Max(a.Min.Z, a.Max.Z)},
			}
			if nb != wantC || cn != wantC {
				t.Failf("r3.NewBox/Canon of %v = %v, %v want %v", a, nb, cn, wantC)
			}
			vs := a.Vertices()
			wantV := []r3.Vec{
				a.Min, {X: a.Max.X, Y: a.Min.Y, Z: a.Min.Z}, {X: a.Max.X, Y: a.Max.Y, Z: a.Min.Z}, {X: a.Min.X, Y: a.Max.Y, Z: a.Min.Z},
				{X: a.Min.X, Y: a.Min.Y, Z: a.Max.Z}, {X: a.Max.X, Y: a.Min.Y, Z: a.Max.Z}, a.Max, {X: a.Min.X, Y: a.Max.Y, Z: a.Max.Z},
			}
			if fmt.Sprint(vs) != fmt.Sprint(wantV) {
				t.Failf("r3.Box.Vertices(%v)=%v", a, vs)
			}
			for _, v := range v3 {
				in := a.Min.X <= v.X && v.X <= a.Max.X && a.Min.Y <= v.Y && v.Y <= a.Max.Y && a.Min.Z <= v.Z && v.Z <= a.Max.Z
				if !empty && a.Contains(v) != in {
					t.Failf("r3.Box %v Contains(%v)=%v", a, v, a.Contains(v))
				}
				if empty && a.Contains(v) && !(v == a.Min && v == a.Max) {
					t.Failf("empty r3.Box %v Contains(%v)", a, v)
				}
			}
			tr := r3.Vec{X: 1, Y: -2, Z: 0.5}
			if a.Add(tr) != (r3.Box{Min: r3.Add(a.Min, tr), Max: r3.Add(a.Max, tr)}) {
				t.Failf("r3.Box.Add")
			}
			if !empty {
				for _, sc := range []r3.Vec{{X: 1, Y: 1, Z: 1}, {X: 2, Y: 0.5, Z: 3}, {X: -1, Y: 2, Z: 0}} {
					s := a.Scale(sc)
					f := r3.Vec{X: math.Max(sc.X, 0), Y: math.Max(sc.Y, 0), Z: math.Max(sc.Z, 0)}
					sz := a.Size()
					if s.Center() != a.Center() || s.Size() != (r3.Vec{X: f.X * sz.X, Y: f.Y * sz.Y, Z: f.Z * sz.Z}) {
						t.Failf("r3.Box %v Scale(%v)=%v", a, sc, s)
					}
				}
			}
			for _, b := range b3 {
				u := a.Union(b)
				switch {
				case !empty && !b.Empty():
					want := r3.Box{
						Min: r3.Vec{X: math.Min(a.Min.X, b.Min.X), Y: math.Min(a.Min.Y, b.Min.Y), Z: math.Min(a.Min.Z, b.Min.Z)},
						Max: r3.Vec{X: math.Max(a.Max.X, b.Max.X), Y: math.Max(a.Max.Y, b.Max.Y), Z: math.Max(a.Max.Z, b.Max.Z)},
					}
					if u != want {
						t.Failf("r3 Union(%v,%v)=%v", a, b, u)
					}
				case !empty && u != a, !b.Empty() && empty && u != b:
					// an empty box contributes nothing (degenerate boxes are a don't-care zone beyond this)
					t.Failf("r3 Union(%v,%v)=%v with an empty operand", a, b, u)
				}
			}
		}
		var b2 []r2.Box
		for _, x0 := range c1 {
			for _, x1 := range c1 {
				for _, y0 := range []float64{0, 1} {
					for _, y1 := range []float64{0, 2} {
						b2 = append(b2, r2.Box{Min: r2.Vec{X: x0, Y: y0}, Max: r2.Vec{X: x1, Y: y1}})
					}
				}
			}
		}
		for _, a := range b2 {
			empty := a.Min.X >= a.Max.X || a.Min.Y >= a.Max.Y
			if a.Empty() != empty || a.Size() != r2.Sub(a.Max, a.Min) || a.Center() != r2.Scale(0.5, r2.Add(a.Min, a.Max)) {
				t.Failf("r2.Box %v: Empty/Size/Center", a)
			}
			wantC := r2.Box{
				Min: r2.Vec{X: math.Min(a.Min.X, a.Max.X), Y: math.Min(a.Min.Y, a.Max.Y)},
				Max: r2.Vec{X: math.Max(a.Min.X, a.Max.X), Y: math.Max(a.Min.Y, a.Max.Y)},
			}
			if nb := r2.NewBox(a.Min.X, a.Min.Y, a.Max.X, a.Max.Y); nb != wantC || a.Canon() != wantC {
				t.Failf("r2.NewBox/Canon of %v", a)
			}
			if vs := a.Vertices(); fmt.Sprint(vs) != fmt.Sprint([]r2.Vec{a.Min, {X: a.Max.X, Y: a.Min.Y}, a.Max, {X: a.Min.X, Y: a.Max.Y}}) {
				t.Failf("r2.Box.Vertices(%v)=%v", a, vs)
			}
			for _, v := range v2 {
				in := a.Min.X <= v.X && v.X <= a.Max.X && a.Min.Y <= v.Y && v.Y <= a.Max.Y
				if !empty && a.Contains(v) != in || empty && a.Contains(v) && !(v == a.Min && v == a.Max) {
					t.Failf("r2.Box %v Contains(%v)=%v", a, v, a.Contains(v))
				}
			}
			tr := r2.Vec{X: 1, Y: -0.5}
			if a.Add(tr) != (r2.Box{Min: r2.Add(a.Min, tr), Max: r2.Add(a.Max, tr)}) {
				t.Failf("r2.Box.Add")
			}
			if !empty {
				for _, sc := range []r2.Vec{{X: 1, Y: 1}, {X: 2, Y: 0.5}, {X: -1, Y: 3}} {
					s := a.Scale(sc)
					sz := a.Size()
					if s.Center() != a.Center() || s.Size() != (r2.Vec{X: math.Max(sc.X, 0) * sz.X, Y: math.Max(sc.Y, 0) * sz.Y}) {
						t.Failf("r2.Box %v Scale(%v)=%v", a, sc, s)
					}
				}
			}
			for _, b := range b2 {
				u := a.Union(b)
				switch {
				case !empty && !b.Empty():
					want := r2.Box{
						Min: r2.Vec{X: math.Min(a.Min.X, b.Min.X), Y: math.Min(a.Min.Y, b.Min.Y)},
						Max: r2.Vec{X: math.Max(a.Max.X, b.Max.X), Y: math.Max(a.Max.Y, b.Max.Y)},
					}
					if u != want {
						t.Failf("r2 Union(%v,%v)=%v", a, b, u)
					}
				case !empty && u != a, !b.Empty() && empty && u != b:
					t.Failf("r2 Union(%v,%v)=%v with an empty operand", a, b, u)
				}
			}
		}
		t.Nontrivial()
		t.Outcome("boxes")
	})
}

func genSpatialTriangles(g *vlib.G) {
	g.Case("r2/r3 triangles on the integer grid", func(t *vlib.T) {
		pts2 := []r2.Vec{{X: 0, Y: 0}, {X: 1, Y: 0}, {X: 0, Y: 2}, {X: 3, Y: 3}, {X: -2, Y: 1}, {X: 2, Y: 2}, {X: 4, Y: 0}}
		n := 0
		for _, a := range pts2 {
			for _, b := range pts2 {
				for _, c := range pts2 {
					n++
					tri := r2.Triangle{a, b, c}
					cen := tri.Centroid()
					if !near(cen.X, (a.X+b.X+c.X)/3, 4*0x1p-52*8) || !near(cen.Y, (a.Y+b.Y+c.Y)/3, 4*0x1p-52*8) {
						t.Failf("r2 Centroid(%v)=%v", tri, cen)
					}
					twice := math.Abs((b.X-a.X)*(c.Y-a.Y) - (b.Y-a.Y)*(c.X-a.X)) // shoelace, exact
					L2 := math.Max(math.Max(r2.Norm2(r2.Sub(b, a)), r2.Norm2(r2.Sub(c, b))), r2.Norm2(r2.Sub(a, c)))
					area := tri.Area()
					if math.IsNaN(area) && twice == 0 && L2 > 0 {
						classed(t, "triangle-area-collinear-nan", fmt.Sprint("r2 ", tri), "r2 Area(%v)=NaN want 0 (collinear vertices)", tri)
					} else if math.IsNaN(area) || math.Abs(area-twice/2) > 1e-12*twice+1e-7*L2 {
						t.Failf("r2 Area(%v)=%v want %v", tri, area, twice/2)
					}
					checkDegenerate(t, "r2", fmt.Sprint(tri), twice, L2, tri.IsDegenerate)
				}
			}
		}
		pts3 := []r3.Vec{{X: 0, Y: 0, Z: 0}, {X: 1, Y: 0, Z: 0}, {X: 0, Y: 2, Z: 0}, {X: 0, Y: 0, Z: 3}, {X: 2, Y: 2, Z: 2}, {X: -1, Y: 1, Z: 0}, {X: 4, Y: 4, Z: 4}}
		for _, a := range pts3 {
			for _, b := range pts3 {
				for _, c := range pts3 {
					n++
					tri := r3.Triangle{a, b, c}
					cen := tri.Centroid()
					if !near(cen.X, (a.X+b.X+c.X)/3, 4*0x1p-52*8) || !near(cen.Y, (a.Y+b.Y+c.Y)/3, 4*0x1p-52*8) || !near(cen.Z, (a.Z+b.Z+c.Z)/3, 4*0x1p-52*8) {
						t.Failf("r3 Centroid(%v)=%v", tri, cen)
					}
					ab, ac := r3.Sub(b, a), r3.Sub(c, a)
					cr := r3.Vec{X: ab.Y*ac.Z - ab.Z*ac.Y, Y: ab.Z*ac.X - ab.X*ac.Z, Z: ab.X*ac.Y - ab.Y*ac.X} // exact
					if got := tri.Normal(); got != cr {
						t.Failf("r3 Normal(%v)=%v want %v", tri, got, cr)
					}
					twice := math.Sqrt(r3.Norm2(cr))
					L2 := math.Max(math.Max(r3.Norm2(ab), r3.Norm2(r3.Sub(c, b))), r3.Norm2(ac))
					area := tri.Area()
					if math.IsNaN(area) && twice == 0 && L2 > 0 {
						classed(t, "triangle-area-collinear-nan", fmt.Sprint("r3 ", tri), "r3 Area(%v)=NaN want 0 (collinear vertices)", tri)
					} else if math.IsNaN(area) || math.Abs(area-twice/2) > 1e-12*twice+1e-7*L2 {
						t.Failf("r3 Area(%v)=%v want %v", tri, area, twice/2)
					}
					checkDegenerate(t, "r3", fmt.Sprint(tri), twice, L2, tri.IsDegenerate)
				}
			}
		}
		t.Count("triangles", int64(n))
		t.Nontrivial()
		t.Outcome("triangles")
	})
}

// checkDegenerate checks IsDegenerate(tol) ("all of triangle's vertices are
// within tol distance of its longest side") for tolerances well on either
// side of the true height over the longest side.
func checkDegenerate(t *vlib.T, pkg, tri string, twiceArea, longest2 float64, f func(tol float64) bool) {
	if longest2 == 0 {
		// three coincident vertices: every vertex is at distance 0 of the (zero-length) longest side
		if !f(1e-9) {
			classed(t, "triangle-isdegenerate-coincident", pkg+" "+tri, "%s IsDegenerate(1e-9) of %s (three coincident vertices) = false", pkg, tri)
		}
		return
	}
	h := twiceArea / math.Sqrt(longest2)
	if h == 0 {
		if !f(1e-9) {
			t.Failf("%s IsDegenerate(1e-9) of collinear %s = false", pkg, tri)
		}
		return
	}
	if f(h/2) || !f(2*h) {
		t.Failf("%s IsDegenerate of %s (height %v): tol=h/2 -> %v, tol=2h -> %v", pkg, tri, h, f(h/2), f(2*h))
	}
}
