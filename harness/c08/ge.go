package main

import (
	"fmt"

	"gonum.org/v1/gonum/blas"
	blasgonum "gonum.org/v1/gonum/blas/gonum"
	"gonum.org/v1/gonum/internal/asm/f32"
	"gonum.org/v1/gonum/internal/asm/f64"
	"gonum.org/v1/gonum/internal/verif/vlib"
)

// Ger, GemvN and GemvT of internal/asm/f64 and internal/asm/f32.
//
// Contract checked (the one blas/gonum relies on, see Dger/Dgemv): m, n >= 1,
// alpha != 0, lda >= n, increments of either sign, len(a) >= lda*(m-1)+n,
// vectors at least as long as (len-1)*|inc|+1 and possibly longer. The
// reference is the textbook double loop. Everything that is not an addressed
// element of the output (row padding of A, skipped vector slots, trailing
// slack, margins) must be bitwise unchanged, and inputs must be unchanged.
// Results are exact small integers; +0 and -0 are identified because the sign
// of an exact zero depends on the association order, which no contract fixes.

type geKernels[T num] struct {
	name  string
	maxQ  int  // largest m, n in the quick tier
	maxT  int  // largest m, n in the thorough tier
	noNeg bool // the Ger of this set does not accept negative increments in this build

	ger   func(m, n uintptr, alpha T, x []T, incX uintptr, y []T, incY uintptr, a []T, lda uintptr)
	gemvN func(m, n uintptr, alpha T, a []T, lda uintptr, x []T, incX uintptr, beta T, y []T, incY uintptr)
	gemvT func(m, n uintptr, alpha T, a []T, lda uintptr, x []T, incX uintptr, beta T, y []T, incY uintptr)
}

// asmBuild reports whether the assembly kernels are compiled in.
func asmBuild() bool { return vlib.Env("VERIF_CONFIG", "default") == "default" }

// The amd64 assembly Ger kernels do not support negative increments (stated at
// their only call site, Dger/Sger, which handles negative increments itself);
// the pure-Go kernels do. Negative increments are therefore enumerated for the
// kernel in the noasm and safe builds only, and for the public Dger/Sger
// (geBlas64, geBlas32) in every build.
func geF64() *geKernels[float64] {
	return &geKernels[float64]{name: "f64", maxQ: 13, maxT: 19, noNeg: asmBuild(), ger: f64.Ger, gemvN: f64.GemvN, gemvT: f64.GemvT}
}

func geF32() *geKernels[float32] {
	return &geKernels[float32]{name: "f32", maxQ: 13, maxT: 19, noNeg: asmBuild(), ger: f32.Ger, gemvN: f32.GemvN, gemvT: f32.GemvT}
}

// geBlas64 and geBlas32 drive the same enumeration through the public BLAS
// entry points Dger/Dgemv and Sger/Sgemv.
func geBlas64() *geKernels[float64] {
	var impl blasgonum.Implementation
	return &geKernels[float64]{name: "blas64", maxQ: 9, maxT: 13,
		ger: func(m, n uintptr, alpha float64, x []float64, incX uintptr, y []float64, incY uintptr, a []float64, lda uintptr) {
			impl.Dger(int(m), int(n), alpha, x, int(incX), y, int(incY), a, int(lda))
		},
		gemvN: func(m, n uintptr, alpha float64, a []float64, lda uintptr, x []float64, incX uintptr, beta float64, y []float64, incY uintptr) {
			impl.Dgemv(blas.NoTrans, int(m), int(n), alpha, a, int(lda), x, int(incX), beta, y, int(incY))
		},
		gemvT: func(m, n uintptr, alpha float64, a []float64, lda uintptr, x []float64, incX uintptr, beta float64, y []float64, incY uintptr) {
			impl.Dgemv(blas.Trans, int(m), int(n), alpha, a, int(lda), x, int(incX), beta, y, int(incY))
		}}
}

func geBlas32() *geKernels[float32] {
	var impl blasgonum.Implementation
	return &geKernels[float32]{name: "blas32", maxQ: 9, maxT: 13,
		ger: func(m, n uintptr, alpha float32, x []float32, incX uintptr, y []float32, incY uintptr, a []float32, lda uintptr) {
			impl.Sger(int(m), int(n), alpha, x, int(incX), y, int(incY), a, int(lda))
		},
		gemvN: func(m, n uintptr, alpha float32, a []float32, lda uintptr, x []float32, incX uintptr, beta float32, y []float32, incY uintptr) {
			impl.Sgemv(blas.NoTrans, int(m), int(n), alpha, a, int(lda), x, int(incX), beta, y, int(incY))
		},
		gemvT: func(m, n uintptr, alpha float32, a []float32, lda uintptr, x []float32, incX uintptr, beta float32, y []float32, incY uintptr) {
			impl.Sgemv(blas.Trans, int(m), int(n), alpha, a, int(lda), x, int(incX), beta, y, int(incY))
		}}
}

// Finding class of the defect found by this harness in GemvT (see NOTES.md; fixed in /repo by a9a03e5).
const gemvTClass = "gemvT-beta0-clears-whole-y"

func vecLen(n, inc, tail int) int { return (n-1)*absInt(inc) + 1 + tail }

func vecStart(n, inc int) int {
	if inc < 0 {
		return -(n - 1) * inc
	}
	return 0
}

func genGe[T num](k *geKernels[T]) func(g *vlib.G) {
	return func(g *vlib.G) {
		ab := newAlphabet[T]()
		maxMN := vlib.Pick(g, k.maxQ, k.maxT)
		incs := []int{1, 2, 3, -1, -2}
		for fn := 0; fn < 3; fn++ {
			fname := k.name + "." + []string{"Ger", "GemvN", "GemvT"}[fn]
			for m := 1; m <= maxMN; m++ {
				for n := 1; n <= maxMN; n++ {
					for _, pad := range []int{0, 1, 5} {
						for _, incX := range incs {
							for _, incY := range incs {
								if fn == 0 && k.noNeg && (incX < 0 || incY < 0) {
									continue
								}
								for _, pl := range []int{(m + n) % 8, plEnd, plStart} {
									fn, m, n, pad, incX, incY, pl := fn, m, n, pad, incX, incY, pl
									g.Case(fmt.Sprintf("%s m=%d n=%d lda=n+%d incX=%d incY=%d pl=%s", fname, m, n, pad, incX, incY, plName(pl)), func(t *vlib.T) {
										evals := 0
										betas := []float64{0, 1, -1}
										if fn == 0 {
											betas = []float64{1}
										}
										for _, alpha := range []float64{1, -2} {
											for _, beta := range betas {
												for _, tail := range []int{0, 2} {
													evals++
													msg := geEval(k, ab, fn, m, n, n+pad, incX, incY, pl, mk[T](alpha, 0), mk[T](beta, 0), tail)
													if msg == "" {
														continue
													}
													t.Outcome("FAIL " + fname)
													full := fmt.Sprintf("%s [alpha=%v beta=%v tail=%d]: %s", fname, alpha, beta, tail, msg)
													if fn == 2 && beta == 0 && incY == 1 && tail > 0 && len(msg) > 4 && msg[:2] == "y:" {
														// known finding: keep evaluating the rest of the case
														classed(t, gemvTClass, fmt.Sprintf("alpha=%v tail=%d", alpha, tail), "%s", full)
														continue
													}
													t.Failf("%s", full)
													return
												}
											}
										}
										t.Count("kernel_evaluations", int64(evals))
										t.Nontrivial()
										neg := 0
										if incX < 0 {
											neg++
										}
										if incY < 0 {
											neg += 2
										}
										t.Outcome(fmt.Sprintf("%s m%%4=%d n%%4=%d unit=%v neg=%d", fname, m%4, n%4, incX == 1 && incY == 1, neg))
									})
								}
							}
						}
					}
				}
			}
		}
	}
}

func geEval[T num](k *geKernels[T], ab *alphabet[T], fn, m, n, lda, incX, incY, pl int, alpha, beta T, tail int) string {
	// vector lengths: Ger: x has m, y has n; GemvN: x has n, y has m; GemvT: x has m, y has n.
	nx, ny := m, n
	if fn == 1 {
		nx, ny = n, m
	}
	pla, plx, ply := pl, pl, pl
	if pl < 8 {
		plx, ply = (pl+3)%8, (pl+6)%8
	}
	a := place[T](0, lda*(m-1)+n+tail, pla)
	x := place[T](1, vecLen(nx, incX, tail), plx)
	y := place[T](2, vecLen(ny, incY, tail), ply)
	for i := 0; i < m; i++ {
		ab.fill(a.s[i*lda:], fInt, n, 1, 0, uint64(i*131+m*7+n))
	}
	ab.fill(x.s, fInt, nx, absInt(incX), 0, uint64(m*31+n))
	if fn == 0 || beta != mk[T](0, 0) {
		// with beta == 0 the output vector need not be set on entry: it
		// stays poison and must be overwritten without being read
		ab.fill(y.s, fInt, ny, absInt(incY), 0, uint64(m+n*17+5))
	}
	a.snapshot()
	x.snapshot()
	y.snapshot()
	ra, rx, ry := a.orig(), x.orig(), y.orig()
	kx, ky := vecStart(nx, incX), vecStart(ny, incY)
	zero := mk[T](0, 0)
	msg := try(func() {
		switch fn {
		case 0:
			k.ger(u(m), u(n), alpha, x.s, u(incX), y.s, u(incY), a.s, u(lda))
		case 1:
			k.gemvN(u(m), u(n), alpha, a.s, u(lda), x.s, u(incX), beta, y.s, u(incY))
		case 2:
			k.gemvT(u(m), u(n), alpha, a.s, u(lda), x.s, u(incX), beta, y.s, u(incY))
		}
	})
	if msg != "" {
		return faultPrefix + msg
	}
	switch fn {
	case 0: // A += alpha * x * yT
		for i := 0; i < m; i++ {
			for j := 0; j < n; j++ {
				ra[i*lda+j] += alpha * rx[kx+i*incX] * ry[ky+j*incY]
			}
		}
	case 1: // y = alpha*A*x + beta*y
		for i := 0; i < m; i++ {
			var s T
			for j := 0; j < n; j++ {
				s += ra[i*lda+j] * rx[kx+j*incX]
			}
			v := alpha * s
			if beta != zero {
				v += beta * ry[ky+i*incY]
			}
			ry[ky+i*incY] = v
		}
	case 2: // y = alpha*AT*x + beta*y
		for j := 0; j < n; j++ {
			var s T
			for i := 0; i < m; i++ {
				s += ra[i*lda+j] * rx[kx+i*incX]
			}
			v := alpha * s
			if beta != zero {
				v += beta * ry[ky+j*incY]
			}
			ry[ky+j*incY] = v
		}
	}
	ma, my := cmpBits, cmpZero
	if fn == 0 {
		ma, my = cmpZero, cmpBits
	}
	if msg := a.check(ra, ma); msg != "" {
		return "a: " + msg
	}
	if msg := x.check(rx, cmpBits); msg != "" {
		return "x: " + msg
	}
	if msg := y.check(ry, my); msg != "" {
		return "y: " + msg
	}
	return ""
}
