package main

import (
	"math"

	"gonum.org/v1/gonum/internal/asm/f32"
	"gonum.org/v1/gonum/internal/asm/f64"
)

// Tables of the real-valued kernels: one entry per exported function of
// internal/asm/f64 and internal/asm/f32 (Ger/GemvN/GemvT have their own
// driver in ge.go).

type k64 = kop[float64]
type c64k = kcall[float64]

func fk(a ...fillKind) (r [4]fillKind) { copy(r[:], a); return r }
func io(a ...int) (r [4]int)           { copy(r[:], a); return r }

// refL2 is the definition of the Euclidean norm evaluated in float64 on the
// widened elements; exact-class inputs are small integers so the sum of
// squares is exact and the only rounding is the final square root.
func refL2[T num](c *kcall[T]) {
	var ss float64
	for _, v := range c.v[0] {
		z := toC(v)
		ss += real(z)*real(z) + imag(z)*imag(z)
	}
	c.res = complex(math.Sqrt(ss), 0)
}

func refL2Inc[T num](c *kcall[T]) {
	var ss float64
	for i := 0; i < c.n; i++ {
		z := toC(c.v[0][i*c.inc[0]])
		ss += real(z)*real(z) + imag(z)*imag(z)
	}
	c.res = complex(math.Sqrt(ss), 0)
}

func refL2Dist[T num](c *kcall[T]) {
	var ss float64
	for i, v := range c.v[0] {
		z := toC(v - c.v[1][i])
		ss += real(z)*real(z) + imag(z)*imag(z)
	}
	c.res = complex(math.Sqrt(ss), 0)
}

func f64Table() []*k64 {
	const eps = 0x1p-52
	return []*k64{
		{name: "f64.AxpyUnitary", nv: 2, wr: 1, alpha: 1, fill: fk(fInt, fInt), lane: true,
			run: func(c *c64k) { f64.AxpyUnitary(c.alpha, c.v[0], c.v[1]) }, ref: refAxpyUnitary[float64]},
		{name: "f64.AxpyUnitaryTo", nv: 3, wr: 0, alias: []int{1, 2}, alpha: 1, fill: fk(fNone, fInt, fInt), lane: true,
			run: func(c *c64k) { f64.AxpyUnitaryTo(c.v[0], c.alpha, c.v[1], c.v[2]) }, ref: refAxpyUnitaryTo[float64]},
		{name: "f64.AxpyInc", nv: 2, wr: 1, alpha: 1, fill: fk(fInt, fInt), ninc: 2, hasIx: true, incOf: io(0, 1), lane: true,
			run: func(c *c64k) {
				f64.AxpyInc(c.alpha, c.v[0], c.v[1], u(c.n), u(c.inc[0]), u(c.inc[1]), u(c.idx[0]), u(c.idx[1]))
			}, ref: refAxpyInc[float64]},
		{name: "f64.AxpyIncTo", nv: 3, wr: 0, alias: []int{1, 2}, alpha: 1, fill: fk(fNone, fInt, fInt), ninc: 3, hasIx: true, incOf: io(0, 1, 2), lane: true,
			run: func(c *c64k) {
				f64.AxpyIncTo(c.v[0], u(c.inc[0]), u(c.idx[0]), c.alpha, c.v[1], c.v[2], u(c.n), u(c.inc[1]), u(c.inc[2]), u(c.idx[1]), u(c.idx[2]))
			}, ref: refAxpyIncTo[float64]},
		{name: "f64.ScalUnitary", nv: 1, wr: 0, alpha: 1, fill: fk(fInt), lane: true,
			run: func(c *c64k) { f64.ScalUnitary(c.alpha, c.v[0]) }, ref: refScalUnitary[float64]},
		{name: "f64.ScalUnitaryTo", nv: 2, wr: 0, alias: []int{1}, alpha: 1, fill: fk(fNone, fInt), lane: true,
			run: func(c *c64k) { f64.ScalUnitaryTo(c.v[0], c.alpha, c.v[1]) }, ref: refScalUnitaryTo[float64]},
		{name: "f64.ScalInc", nv: 1, wr: 0, alpha: 1, fill: fk(fInt), ninc: 1, incOf: io(0), lane: true,
			run: func(c *c64k) { f64.ScalInc(c.alpha, c.v[0], u(c.n), u(c.inc[0])) }, ref: refScalInc[float64]},
		{name: "f64.ScalIncTo", nv: 2, wr: 0, alias: []int{1}, alpha: 1, fill: fk(fNone, fInt), ninc: 2, incOf: io(0, 1), lane: true,
			run: func(c *c64k) { f64.ScalIncTo(c.v[0], u(c.inc[0]), c.alpha, c.v[1], u(c.n), u(c.inc[1])) }, ref: refScalIncTo[float64]},
		{name: "f64.Add", nv: 2, wr: 0, alias: []int{1}, fill: fk(fInt, fInt), lane: true,
			run: func(c *c64k) { f64.Add(c.v[0], c.v[1]) }, ref: refAdd[float64]},
		{name: "f64.AddConst", nv: 1, wr: 0, alpha: 1, fill: fk(fInt), lane: true,
			run: func(c *c64k) { f64.AddConst(c.alpha, c.v[0]) }, ref: refAddConst[float64]},
		{name: "f64.CumSum", nv: 2, wr: 0, alias: []int{1}, fill: fk(fNone, fInt), rets: true,
			run: func(c *c64k) { c.ret = f64.CumSum(c.v[0], c.v[1]) }, ref: refCumSum[float64]},
		{name: "f64.CumProd", nv: 2, wr: 0, alias: []int{1}, fill: fk(fNone, fPow2), rets: true,
			run: func(c *c64k) { c.ret = f64.CumProd(c.v[0], c.v[1]) }, ref: refCumProd[float64]},
		{name: "f64.Div", nv: 2, wr: 0, alias: []int{1}, fill: fk(fInt, fDiv), lane: true,
			run: func(c *c64k) { f64.Div(c.v[0], c.v[1]) }, ref: refDiv[float64]},
		{name: "f64.DivTo", nv: 3, wr: 0, alias: []int{1, 2}, fill: fk(fNone, fInt, fDiv), rets: true, lane: true,
			run: func(c *c64k) { c.ret = f64.DivTo(c.v[0], c.v[1], c.v[2]) }, ref: refDivTo[float64]},
		{name: "f64.DotUnitary", nv: 2, wr: -1, fill: fk(fInt, fInt), red: true, sred: 1,
			run: func(c *c64k) { c.res = complex(f64.DotUnitary(c.v[0], c.v[1]), 0) }, ref: refDotUnitary[float64]},
		{name: "f64.DotInc", nv: 2, wr: -1, fill: fk(fInt, fInt), ninc: 2, hasIx: true, incOf: io(0, 1), red: true, sred: 1,
			run: func(c *c64k) {
				c.res = complex(f64.DotInc(c.v[0], c.v[1], u(c.n), u(c.inc[0]), u(c.inc[1]), u(c.idx[0]), u(c.idx[1])), 0)
			}, ref: refDotInc[float64]},
		{name: "f64.Sum", nv: 1, wr: -1, fill: fk(fInt), red: true, sred: 1,
			run: func(c *c64k) { c.res = complex(f64.Sum(c.v[0]), 0) }, ref: refSum[float64]},
		{name: "f64.L1Norm", nv: 1, wr: -1, fill: fk(fInt), red: true, sred: 1,
			run: func(c *c64k) { c.res = complex(f64.L1Norm(c.v[0]), 0) },
			ref: func(c *c64k) {
				var sum float64
				for _, v := range c.v[0] {
					sum += math.Abs(v)
				}
				c.res = complex(sum, 0)
			}},
		{name: "f64.L1NormInc", nv: 1, wr: -1, fill: fk(fInt), ninc: 1, incOf: io(0), red: true, sred: 1,
			run: func(c *c64k) { c.res = complex(f64.L1NormInc(c.v[0], c.n, c.inc[0]), 0) },
			ref: func(c *c64k) {
				var sum float64
				for i := 0; i < c.n*c.inc[0]; i += c.inc[0] {
					sum += math.Abs(c.v[0][i])
				}
				c.res = complex(sum, 0)
			}},
		{name: "f64.L1Dist", nv: 2, wr: -1, fill: fk(fInt, fInt), red: true, sred: 1,
			run: func(c *c64k) { c.res = complex(f64.L1Dist(c.v[0], c.v[1]), 0) },
			ref: func(c *c64k) {
				var norm float64
				for i, v := range c.v[0] {
					norm += math.Abs(c.v[1][i] - v)
				}
				c.res = complex(norm, 0)
			}},
		{name: "f64.LinfDist", nv: 2, wr: -1, fill: fk(fInt, fInt), red: true, sred: 3,
			run: func(c *c64k) { c.res = complex(f64.LinfDist(c.v[0], c.v[1]), 0) },
			ref: func(c *c64k) {
				s, t := c.v[0], c.v[1]
				var norm float64
				if len(s) == 0 {
					c.res = 0
					return
				}
				norm = math.Abs(t[0] - s[0])
				for i, v := range s[1:] {
					absDiff := math.Abs(t[i+1] - v)
					if absDiff > norm || math.IsNaN(norm) {
						norm = absDiff
					}
				}
				c.res = complex(norm, 0)
			}},
		{name: "f64.L2NormUnitary", nv: 1, wr: -1, fill: fk(fInt), red: true, sred: 2, tol: eps,
			run: func(c *c64k) { c.res = complex(f64.L2NormUnitary(c.v[0]), 0) }, ref: refL2[float64]},
		{name: "f64.L2NormInc", nv: 1, wr: -1, fill: fk(fInt), ninc: 1, incOf: io(0), red: true, sred: 2, tol: eps,
			run: func(c *c64k) { c.res = complex(f64.L2NormInc(c.v[0], u(c.n), u(c.inc[0])), 0) }, ref: refL2Inc[float64]},
		{name: "f64.L2DistanceUnitary", nv: 2, wr: -1, fill: fk(fInt, fInt), red: true, sred: 2, tol: eps,
			run: func(c *c64k) { c.res = complex(f64.L2DistanceUnitary(c.v[0], c.v[1]), 0) }, ref: refL2Dist[float64]},
	}
}

type k32 = kop[float32]
type c32k = kcall[float32]

func f32Table() []*k32 {
	const eps = 0x1p-23
	r := func(v float32) complex128 { return complex(float64(v), 0) }
	return []*k32{
		{name: "f32.AxpyUnitary", nv: 2, wr: 1, alpha: 1, fill: fk(fInt, fInt), lane: true,
			run: func(c *c32k) { f32.AxpyUnitary(c.alpha, c.v[0], c.v[1]) }, ref: refAxpyUnitary[float32]},
		{name: "f32.AxpyUnitaryTo", nv: 3, wr: 0, alias: []int{1, 2}, alpha: 1, fill: fk(fNone, fInt, fInt), lane: true,
			run: func(c *c32k) { f32.AxpyUnitaryTo(c.v[0], c.alpha, c.v[1], c.v[2]) }, ref: refAxpyUnitaryTo[float32]},
		{name: "f32.AxpyInc", nv: 2, wr: 1, alpha: 1, fill: fk(fInt, fInt), ninc: 2, hasIx: true, incOf: io(0, 1), lane: true,
			run: func(c *c32k) {
				f32.AxpyInc(c.alpha, c.v[0], c.v[1], u(c.n), u(c.inc[0]), u(c.inc[1]), u(c.idx[0]), u(c.idx[1]))
			}, ref: refAxpyInc[float32]},
		{name: "f32.AxpyIncTo", nv: 3, wr: 0, alias: []int{1, 2}, alpha: 1, fill: fk(fNone, fInt, fInt), ninc: 3, hasIx: true, incOf: io(0, 1, 2), lane: true,
			run: func(c *c32k) {
				f32.AxpyIncTo(c.v[0], u(c.inc[0]), u(c.idx[0]), c.alpha, c.v[1], c.v[2], u(c.n), u(c.inc[1]), u(c.inc[2]), u(c.idx[1]), u(c.idx[2]))
			}, ref: refAxpyIncTo[float32]},
		{name: "f32.ScalUnitary", nv: 1, wr: 0, alpha: 1, fill: fk(fInt), lane: true,
			run: func(c *c32k) { f32.ScalUnitary(c.alpha, c.v[0]) }, ref: refScalUnitary[float32]},
		{name: "f32.ScalUnitaryTo", nv: 2, wr: 0, alias: []int{1}, alpha: 1, fill: fk(fNone, fInt), lane: true,
			run: func(c *c32k) { f32.ScalUnitaryTo(c.v[0], c.alpha, c.v[1]) }, ref: refScalUnitaryTo[float32]},
		{name: "f32.ScalInc", nv: 1, wr: 0, alpha: 1, fill: fk(fInt), ninc: 1, incOf: io(0), lane: true,
			run: func(c *c32k) { f32.ScalInc(c.alpha, c.v[0], u(c.n), u(c.inc[0])) }, ref: refScalInc[float32]},
		{name: "f32.ScalIncTo", nv: 2, wr: 0, alias: []int{1}, alpha: 1, fill: fk(fNone, fInt), ninc: 2, incOf: io(0, 1), lane: true,
			run: func(c *c32k) { f32.ScalIncTo(c.v[0], u(c.inc[0]), c.alpha, c.v[1], u(c.n), u(c.inc[1])) }, ref: refScalIncTo[float32]},
		{name: "f32.DotUnitary", nv: 2, wr: -1, fill: fk(fInt, fInt), red: true, sred: 1,
			run: func(c *c32k) { c.res = r(f32.DotUnitary(c.v[0], c.v[1])) }, ref: refDotUnitary[float32]},
		{name: "f32.DotInc", nv: 2, wr: -1, fill: fk(fInt, fInt), ninc: 2, hasIx: true, incOf: io(0, 1), red: true, sred: 1,
			run: func(c *c32k) {
				c.res = r(f32.DotInc(c.v[0], c.v[1], u(c.n), u(c.inc[0]), u(c.inc[1]), u(c.idx[0]), u(c.idx[1])))
			}, ref: refDotInc[float32]},
		{name: "f32.DdotUnitary", nv: 2, wr: -1, fill: fk(fInt, fInt), red: true, sred: 1,
			run: func(c *c32k) { c.res = complex(f32.DdotUnitary(c.v[0], c.v[1]), 0) },
			ref: func(c *c32k) {
				var sum float64
				for i, v := range c.v[0] {
					sum += float64(c.v[1][i]) * float64(v)
				}
				c.res = complex(sum, 0)
			}},
		{name: "f32.DdotInc", nv: 2, wr: -1, fill: fk(fInt, fInt), ninc: 2, hasIx: true, incOf: io(0, 1), red: true, sred: 1,
			run: func(c *c32k) {
				c.res = complex(f32.DdotInc(c.v[0], c.v[1], u(c.n), u(c.inc[0]), u(c.inc[1]), u(c.idx[0]), u(c.idx[1])), 0)
			},
			ref: func(c *c32k) {
				var sum float64
				ix, iy := c.idx[0], c.idx[1]
				for i := 0; i < c.n; i++ {
					sum += float64(c.v[1][iy]) * float64(c.v[0][ix])
					ix += c.inc[0]
					iy += c.inc[1]
				}
				c.res = complex(sum, 0)
			}},
		{name: "f32.Sum", nv: 1, wr: -1, fill: fk(fInt), red: true, sred: 1,
			run: func(c *c32k) { c.res = r(f32.Sum(c.v[0])) }, ref: refSum[float32]},
		{name: "f32.L2NormUnitary", nv: 1, wr: -1, fill: fk(fInt), red: true, sred: 2, tol: eps,
			run: func(c *c32k) { c.res = r(f32.L2NormUnitary(c.v[0])) }, ref: refL2[float32]},
		{name: "f32.L2NormInc", nv: 1, wr: -1, fill: fk(fInt), ninc: 1, incOf: io(0), red: true, sred: 2, tol: eps,
			run: func(c *c32k) { c.res = r(f32.L2NormInc(c.v[0], u(c.n), u(c.inc[0]))) }, ref: refL2Inc[float32]},
		{name: "f32.L2DistanceUnitary", nv: 2, wr: -1, fill: fk(fInt, fInt), red: true, sred: 2, tol: eps,
			run: func(c *c32k) { c.res = r(f32.L2DistanceUnitary(c.v[0], c.v[1])) }, ref: refL2Dist[float32]},
	}
}
