package main

// Zero() on every built-in representation, and zero-size operands.

import (
	"fmt"
	"math"

	"gonum.org/v1/gonum/blas/blas64"
	"gonum.org/v1/gonum/internal/verif/vlib"
	"gonum.org/v1/gonum/mat"
)

type zeroer interface{ Zero() }

func genZero(g *vlib.G) {
	ks := kindsWhere(kinds(g, false), func(m mat.Matrix) bool { _, ok := m.(zeroer); return ok })
	n := dimMax(g) + 1
	for _, ka := range ks {
		ka := ka
		g.Case("Zero a="+ka.name, func(t *vlib.T) {
			var v verdict
			for r := 1; r <= n; r++ {
				for c := 1; c <= n; c++ {
					a := ka.make(r, c, 1, famNonzero)
					if a == nil {
						continue
					}
					tag := fmt.Sprintf("%s %s.Zero()", ka.name, fmtShape(r, c))
					v.calls++
					square := r == c
					fail := func(format string, args ...any) {
						if _, isBand := a.m.(*mat.BandDense); isBand && !square {
							failClass(t, "banddense-zero-non-square", format, args...)
						} else {
							t.Failf(format, args...)
						}
					}
					if p, pv := mustPanic(func() { a.m.(zeroer).Zero() }); p {
						fail("%s: unexpected panic %s", tag, panicString(pv))
						continue
					}
					if gr, gc := a.m.Dims(); gr != r || gc != c {
						t.Failf("%s: Dims changed to %d×%d", tag, gr, gc)
						continue
					}
					bad := false
					for i := 0; i < r && !bad; i++ {
						for j := 0; j < c && !bad; j++ {
							if x := a.m.At(i, j); x != 0 || math.Signbit(x) {
								fail("%s: element (%d,%d) = %v after Zero", tag, i, j, x)
								bad = true
							}
						}
					}
					// storage that does not hold an element (padding, other triangle, surroundings of a view) must be untouched
					for bi, b := range a.bufs {
						for k, x := range b {
							if isPoison(a.snap[bi][k]) && math.Float64bits(x) != math.Float64bits(a.snap[bi][k]) {
								fail("%s: unreferenced storage cell %d was written (%s)", tag, k, vlib.B64(x))
								bad = true
								break
							}
						}
					}
					if !bad {
						v.add("ok")
					}
				}
			}
			v.finish(t, "Zero")
		})
	}
}

// genEmpty: the documented behaviour for zero-size arguments (the zero value of every built-in type).
func genEmpty(g *vlib.G) {
	empties := []struct {
		name string
		m    func() mat.Matrix
	}{
		{"Dense", func() mat.Matrix { return &mat.Dense{} }},
		{"VecDense", func() mat.Matrix { return &mat.VecDense{} }},
		{"SymDense", func() mat.Matrix { return &mat.SymDense{} }},
		{"TriDense", func() mat.Matrix { return &mat.TriDense{} }},
		{"BandDense", func() mat.Matrix { return &mat.BandDense{} }},
		{"SymBandDense", func() mat.Matrix { return &mat.SymBandDense{} }},
		{"TriBandDense", func() mat.Matrix { return &mat.TriBandDense{} }},
		{"DiagDense", func() mat.Matrix { return &mat.DiagDense{} }},
		{"Tridiag", func() mat.Matrix { return &mat.Tridiag{} }},
		{"T(Dense)", func() mat.Matrix { return (&mat.Dense{}).T() }},
		{"basic0x0", func() mat.Matrix { return &basic{} }},
		{"basic0x3", func() mat.Matrix { return &basic{r: 0, c: 3} }},
		{"basic3x0", func() mat.Matrix { return &basic{r: 3, c: 0} }},
	}
	type fn struct {
		name string
		want mat.Error
		call func(a mat.Matrix)
	}
	fns := []fn{
		{"Sum", mat.ErrZeroLength, func(a mat.Matrix) { mat.Sum(a) }},
		{"Max", mat.ErrZeroLength, func(a mat.Matrix) { mat.Max(a) }},
		{"Min", mat.ErrZeroLength, func(a mat.Matrix) { mat.Min(a) }},
		{"Norm1", mat.ErrZeroLength, func(a mat.Matrix) { mat.Norm(a, 1) }},
		{"Norm2", mat.ErrZeroLength, func(a mat.Matrix) { mat.Norm(a, 2) }},
		{"Trace", mat.ErrZeroLength, func(a mat.Matrix) { mat.Trace(a) }},
		{"Cond", mat.ErrZeroLength, func(a mat.Matrix) { mat.Cond(a, 1) }},
		{"Det", mat.ErrZeroLength, func(a mat.Matrix) { mat.Det(a) }},
	}
	for _, e := range empties {
		e := e
		for _, f := range fns {
			f := f
			g.Case(fmt.Sprintf("%s(empty %s)", f.name, e.name), func(t *vlib.T) {
				a := e.m()
				r, c := a.Dims()
				t.Count("calls", 1)
				t.Nontrivial()
				p, pv := mustPanic(func() { f.call(a) })
				switch {
				case !p:
					t.Failf("%s of a %d×%d %s returned; the documentation promises a panic with ErrZeroLength", f.name, r, c, e.name)
				case pv == any(f.want):
					t.Outcome(f.name + " ErrZeroLength")
				case (f.name == "Det" || f.name == "Trace") && r != c && pv == any(mat.ErrSquare):
					t.Outcome(f.name + " ErrSquare") // both conditions are documented; either is fine for a 0×3 argument
				default:
					t.Failf("%s of a %d×%d %s panics with %s, documented: ErrZeroLength", f.name, r, c, e.name, panicString(pv))
				}
			})
		}
		// Dot and Inner
		if v, ok := e.m().(mat.Vector); ok {
			g.Case(fmt.Sprintf("Dot(empty %s)", e.name), func(t *vlib.T) {
				t.Count("calls", 1)
				t.Nontrivial()
				if p, pv := mustPanic(func() { mat.Dot(v, v) }); !p || pv != any(mat.ErrZeroLength) {
					t.Failf("Dot of empty vectors: panicked=%v %v, documented: ErrZeroLength", p, pv)
				}
				t.Outcome("Dot ErrZeroLength")
			})
		}
		// receivers: an operation whose result would have zero size must panic (ErrZeroLength) and not resize.
		g.Case(fmt.Sprintf("Dense ops(empty %s)", e.name), func(t *vlib.T) {
			a := e.m()
			r, c := a.Dims()
			t.Nontrivial()
			for name, call := range map[string]func(m *mat.Dense){
				"Add":       func(m *mat.Dense) { m.Add(a, a) },
				"Scale":     func(m *mat.Dense) { m.Scale(2, a) },
				"Apply":     func(m *mat.Dense) { m.Apply(applyFn, a) },
				"Kronecker": func(m *mat.Dense) { m.Kronecker(a, a) },
			} {
				t.Count("calls", 1)
				var m mat.Dense
				p, pv := mustPanic(func() { call(&m) })
				if !p {
					t.Failf("%s with %d×%d %s operands returned (result %v)", name, r, c, e.name, mat.Formatted(&m))
				} else if _, ok := pv.(mat.Error); !ok {
					t.Failf("%s with %d×%d %s operands: panic %s is not a mat.Error", name, r, c, e.name, panicString(pv))
				}
			}
			t.Outcome("Dense ops panic with mat.Error")
		})
	}
}

// genRawLong: a VecDense set with SetRawVector whose Data is longer than (N-1)*Inc+1, as BLAS vectors allow.
// Kept out of the general zoo on purpose: the unit-increment fast paths hand the raw slices to assembly kernels
// that loop over len(x), so with an exactly allocated receiver the unchanged tree writes past the end of the
// receiver's array (heap corruption). Here every receiver has a poisoned tail inside the same allocation that
// absorbs (and reveals) such writes.
func genRawLong(g *vlib.G) {
	type op struct {
		name string
		do   func(v *mat.VecDense, a, b *mat.VecDense)
		want func(a, b []float64) []float64
	}
	ops := []op{
		{"ScaleVec", func(v, a, b *mat.VecDense) { v.ScaleVec(2, a) }, func(a, b []float64) []float64 { return zipV(a, a, func(x, _ float64) float64 { return 2 * x }) }},
		{"AddVec", func(v, a, b *mat.VecDense) { v.AddVec(a, b) }, func(a, b []float64) []float64 { return zipV(a, b, func(x, y float64) float64 { return x + y }) }},
		{"SubVec", func(v, a, b *mat.VecDense) { v.SubVec(a, b) }, func(a, b []float64) []float64 { return zipV(a, b, func(x, y float64) float64 { return x - y }) }},
		{"MulElemVec", func(v, a, b *mat.VecDense) { v.MulElemVec(a, b) }, func(a, b []float64) []float64 { return zipV(a, b, func(x, y float64) float64 { return x * y }) }},
		{"DivElemVec", func(v, a, b *mat.VecDense) { v.DivElemVec(a, b) }, func(a, b []float64) []float64 { return zipV(a, b, func(x, y float64) float64 { return x / y }) }},
		{"AddScaledVec", func(v, a, b *mat.VecDense) { v.AddScaledVec(a, 2, b) }, func(a, b []float64) []float64 { return zipV(a, b, func(x, y float64) float64 { return x + 2*y }) }},
		{"CopyVec", func(v, a, b *mat.VecDense) { v.CopyVec(a) }, func(a, b []float64) []float64 { return a }},
		{"MulVec(Tᵀ·)", func(v, a, b *mat.VecDense) { v.MulVec(a.T(), b) }, func(a, b []float64) []float64 { return []float64{dotV(a, b)} }},
		{"Dot", func(v, a, b *mat.VecDense) { v.SetVec(0, mat.Dot(a, b)) }, func(a, b []float64) []float64 { return []float64{dotV(a, b)} }},
		{"Sum", func(v, a, b *mat.VecDense) { v.SetVec(0, mat.Sum(a)) }, func(a, b []float64) []float64 { return []float64{sumM(matrix{a})} }},
		{"Norm1", func(v, a, b *mat.VecDense) { v.SetVec(0, mat.Norm(a, 1)) }, func(a, b []float64) []float64 { return []float64{norm1M(transposeM(matrix{a}))} }},
	}
	mk := func(long bool, n, seed int) (*mat.VecDense, []float64) {
		vals := make([]float64, n)
		for i := range vals {
			vals[i] = value(famNonzero, i, 0, seed)
		}
		if !long {
			return mat.NewVecDense(n, append([]float64(nil), vals...)), vals
		}
		data := poisoned(n + 3)
		copy(data, vals)
		var v mat.VecDense
		v.SetRawVector(blas64.Vector{N: n, Inc: 1, Data: data})
		return &v, vals
	}
	for _, o := range ops {
		o := o
		for _, which := range []string{"a", "b", "both"} {
			which := which
			g.Case(fmt.Sprintf("%s long=%s", o.name, which), func(t *vlib.T) {
				t.Nontrivial()
				bad := 0
				for n := 1; n <= vecLenMax(g); n++ {
					a, av := mk(which != "b", n, 1)
					b, bv := mk(which != "a", n, 2)
					want := o.want(av, bv)
					// receiver: exactly len(want) elements, followed by a poisoned tail in the same allocation
					back := rpoisoned(len(want) + 8)
					for i := range want {
						back[i] = 0
					}
					v := mat.NewVecDense(len(want), back[:len(want)])
					tag := fmt.Sprintf("%s n=%d (operand %s set with SetRawVector, len(Data) = N+3)", o.name, n, which)
					t.Count("calls", 1)
					if p, pv := mustPanic(func() { o.do(v, a, b) }); p {
						failClass(t, "vecdense-unit-fastpath-uses-raw-data-length", "%s: panic %s", tag, panicString(pv))
						bad++
						continue
					}
					for i, w := range want {
						if !eqVal(back[i], w) {
							failClass(t, "vecdense-unit-fastpath-uses-raw-data-length", "%s: element %d = %s want %v", tag, i, vlib.B64(back[i]), w)
							bad++
							break
						}
					}
					for k := len(want); k < len(back); k++ {
						if math.Float64bits(back[k]) != math.Float64bits(rpoison(k)) {
							failClass(t, "vecdense-unit-fastpath-uses-raw-data-length", "%s: wrote %s past the end of the receiver (cell %d of a length-%d vector): out-of-bounds write", tag, vlib.B64(back[k]), k, len(want))
							bad++
							break
						}
					}
				}
				t.Outcome(fmt.Sprintf("%s bad=%v", o.name, bad > 0))
			})
		}
	}
}
