package main

// Factorizations used as matrices: At, Dims and T of LU, QR, LQ, Cholesky,
// BandCholesky, PivotedCholesky and EigenSym must reproduce the factorized
// matrix (to rounding; exactly on the exactly factorizable families, which are
// also members of the zoo and take part in every other group).

import (
	"fmt"
	"math"

	"gonum.org/v1/gonum/internal/verif/vlib"
	"gonum.org/v1/gonum/mat"
)

func genFactorAt(g *vlib.G) {
	n := dimMax(g) + 1
	type fac struct {
		name  string
		shape string // "square", "tall", "wide", "spd", "spdband"
		make  func(a matrix) mat.Matrix
	}
	facs := []fac{
		{"LU", "square", func(a matrix) mat.Matrix { var f mat.LU; f.Factorize(denseOfM(a)); return &f }},
		{"QR", "tall", func(a matrix) mat.Matrix { var f mat.QR; f.Factorize(denseOfM(a)); return &f }},
		{"LQ", "wide", func(a matrix) mat.Matrix { var f mat.LQ; f.Factorize(denseOfM(a)); return &f }},
		{"Cholesky", "spd", func(a matrix) mat.Matrix {
			var f mat.Cholesky
			s, _ := symOf(a, false)
			if !f.Factorize(s) {
				return nil
			}
			return &f
		}},
		{"PivotedCholesky", "spd", func(a matrix) mat.Matrix {
			var f mat.PivotedCholesky
			s, _ := symOf(a, false)
			f.Factorize(s, -1)
			return &f
		}},
		{"BandCholesky", "spdband", func(a matrix) mat.Matrix {
			var f mat.BandCholesky
			if !f.Factorize(buildSymBand(k1)(a).m.(mat.SymBanded)) {
				return nil
			}
			return &f
		}},
		{"BandCholesky(padded stride)", "spdband", func(a matrix) mat.Matrix {
			var f mat.BandCholesky
			if !f.Factorize(buildSymBandX(k1, 2, false)(a).m.(mat.SymBanded)) {
				return nil
			}
			return &f
		}},
		{"BandCholesky(user RawSymBand)", "spdband", func(a matrix) mat.Matrix {
			var f mat.BandCholesky
			if !f.Factorize(buildSymBandX(k1, 2, true)(a).m.(mat.SymBanded)) {
				return nil
			}
			return &f
		}},
		{"EigenSym", "spd", func(a matrix) mat.Matrix {
			var f mat.EigenSym
			s, _ := symOf(a, false)
			if !f.Factorize(s, true) {
				return nil
			}
			return &f
		}},
	}
	for _, f := range facs {
		f := f
		for _, fam := range []family{famMixed, famDomDiag} {
			fam := fam
			g.Case(fmt.Sprintf("At %s %v", f.name, fam), func(t *vlib.T) {
				var v verdict
				for r := 1; r <= n; r++ {
					for c := 1; c <= n; c++ {
						for seed := 1; seed <= 3; seed++ {
							var a matrix
							switch f.shape {
							case "square":
								if r != c {
									continue
								}
								a = conform(stFull(r, c), fam, seed)
							case "tall":
								if r < c {
									continue
								}
								a = conform(stFull(r, c), fam, seed)
							case "wide":
								if r > c {
									continue
								}
								a = conform(stFull(r, c), fam, seed)
							case "spd", "spdband":
								if r != c {
									continue
								}
								kf := kFull
								if f.shape == "spdband" {
									kf = k1
								}
								a = genCholesky(kf)(r, r, seed, fam)
								if fam == famDomDiag { // a non-integer positive definite member
									for i := range a {
										a[i][i] += 0.375
									}
								}
							}
							var m mat.Matrix
							if p, pv := mustPanic(func() { m = f.make(a) }); p {
								t.Failf("%s.Factorize(%v): unexpected panic %s", f.name, a, panicString(pv))
								continue
							}
							if m == nil {
								t.Failf("%s.Factorize(%v) failed", f.name, a)
								continue
							}
							v.calls++
							tag := fmt.Sprintf("%s of %v", f.name, a)
							if gr, gc := m.Dims(); gr != r || gc != c {
								t.Failf("%s: Dims %d×%d want %d×%d", tag, gr, gc, r, c)
								continue
							}
							tol := 1e-13 * float64(r+c) * math.Max(1, maxAbsM(a))
							mt := m.T()
							if tr, tc := mt.Dims(); tr != c || tc != r {
								t.Failf("%s: T().Dims %d×%d want %d×%d", tag, tr, tc, c, r)
								continue
							}
							for i := 0; i < r; i++ {
								for j := 0; j < c; j++ {
									var got, gotT float64
									if p, pv := mustPanic(func() { got, gotT = m.At(i, j), mt.At(j, i) }); p {
										t.Failf("%s: At(%d,%d) panics: %s", tag, i, j, panicString(pv))
										continue
									}
									if !(math.Abs(got-a[i][j]) <= tol) {
										t.Failf("%s: At(%d,%d) = %v want %v", tag, i, j, got, a[i][j])
									}
									if !(math.Abs(gotT-a[i][j]) <= tol) {
										t.Failf("%s: T().At(%d,%d) = %v want %v", tag, j, i, gotT, a[i][j])
									}
								}
							}
							v.add("ok")
						}
					}
				}
				v.finish(t, "At/"+f.name)
			})
		}
	}
}
