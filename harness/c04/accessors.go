package main

// Accessor consistency of every representation: Dims, At, T, the structure
// queries (Bandwidth, Triangle, TriBand, SymBand, SymmetricDim, Len/AtVec,
// Diag), the typed transposes (TTri, TBand, TTriBand), DiagView and the
// DoNonZero family must all describe the same matrix as the independently
// known value — in particular for band storage with padded strides.

import (
	"fmt"
	"math"

	"gonum.org/v1/gonum/internal/verif/vlib"
	"gonum.org/v1/gonum/mat"
)

type diagViewer interface{ DiagView() mat.Diagonal }

func genAccessors(g *vlib.G) {
	n := dimMax(g) + 1
	for _, k := range kinds(g, false) {
		k := k
		g.Case("accessors a="+k.name, func(t *vlib.T) {
			var v verdict
			for r := 1; r <= n; r++ {
				for c := 1; c <= n; c++ {
					o := k.make(r, c, 1, famNonzero)
					if o == nil {
						continue
					}
					v.calls++
					tag := fmt.Sprintf("%s %s", k.name, fmtShape(r, c))
					if p, pv := mustPanic(func() { accessorChecks(t, tag, o, r, c) }); p {
						t.Failf("%s: unexpected panic %s", tag, panicString(pv))
					}
					checkOperands(t, tag, []*operand{o})
					v.add("ok")
				}
			}
			v.finish(t, "accessors")
		})
	}
}

func sameAt(t *vlib.T, tag, what string, m mat.Matrix, want matrix) {
	r, c := dimsOf(want)
	if gr, gc := m.Dims(); gr != r || gc != c {
		t.Failf("%s: %s has Dims %d×%d want %d×%d", tag, what, gr, gc, r, c)
		return
	}
	for i := 0; i < r; i++ {
		for j := 0; j < c; j++ {
			if got := m.At(i, j); math.Float64bits(got) != math.Float64bits(want[i][j]) {
				t.Failf("%s: %s.At(%d,%d) = %s want %v", tag, what, i, j, vlib.B64(got), want[i][j])
				return
			}
		}
	}
}

func accessorChecks(t *vlib.T, tag string, o *operand, r, c int) {
	m, val := o.m, o.val
	vt := transposeM(val)
	sameAt(t, tag, "a", m, val)
	sameAt(t, tag, "a.T()", m.T(), vt)
	sameAt(t, tag, "a.T().T()", m.T().T(), val)
	for _, idx := range [][2]int{{r, 0}, {0, c}, {-1, 0}, {0, -1}} {
		if p, _ := mustPanic(func() { m.At(idx[0], idx[1]) }); !p {
			t.Failf("%s: At(%d,%d) outside the %d×%d matrix did not panic", tag, idx[0], idx[1], r, c)
		}
	}
	if x, ok := m.(mat.Vector); ok {
		l := max(r, c)
		if x.Len() != l {
			t.Failf("%s: Len() = %d want %d", tag, x.Len(), l)
		}
		for i := 0; i < l; i++ {
			want := val[0][0]
			if c == 1 {
				want = val[i][0]
			} else {
				want = val[0][i]
			}
			if got := x.AtVec(i); got != want {
				t.Failf("%s: AtVec(%d) = %v want %v", tag, i, got, want)
			}
		}
	}
	if x, ok := m.(mat.Symmetric); ok && x.SymmetricDim() != r {
		t.Failf("%s: SymmetricDim() = %d want %d", tag, x.SymmetricDim(), r)
	}
	if x, ok := m.(mat.Banded); ok {
		kl, ku := x.Bandwidth()
		for i := 0; i < r; i++ {
			for j := 0; j < c; j++ {
				if val[i][j] != 0 && (i-j > kl || j-i > ku) {
					t.Failf("%s: Bandwidth() = %d,%d but element (%d,%d) = %v is outside it", tag, kl, ku, i, j, val[i][j])
				}
			}
		}
		sameAt(t, tag, "a.TBand()", x.TBand(), vt)
		tkl, tku := x.TBand().Bandwidth()
		if tkl != ku || tku != kl {
			t.Failf("%s: TBand().Bandwidth() = %d,%d want %d,%d", tag, tkl, tku, ku, kl)
		}
	}
	if x, ok := m.(mat.SymBanded); ok {
		if sn, sk := x.SymBand(); sn != r || sk < 0 {
			t.Failf("%s: SymBand() = %d,%d", tag, sn, sk)
		} else if kl, ku := x.Bandwidth(); kl != sk || ku != sk {
			t.Failf("%s: SymBand() k=%d but Bandwidth() = %d,%d", tag, sk, kl, ku)
		}
	}
	if x, ok := m.(mat.Triangular); ok {
		tn, kind := x.Triangle()
		if tn != r {
			t.Failf("%s: Triangle() n = %d want %d", tag, tn, r)
		}
		for i := 0; i < r; i++ {
			for j := 0; j < c; j++ {
				if val[i][j] != 0 && ((kind == mat.Upper && i > j) || (kind == mat.Lower && i < j)) {
					t.Failf("%s: Triangle() kind upper=%v but element (%d,%d) = %v", tag, bool(kind), i, j, val[i][j])
				}
			}
		}
		sameAt(t, tag, "a.TTri()", x.TTri(), vt)
		if _, tk := x.TTri().Triangle(); tk == kind {
			t.Failf("%s: TTri() reports the same TriKind as a", tag)
		}
	}
	if x, ok := m.(mat.TriBanded); ok {
		tn, tk, kind := x.TriBand()
		_, k2 := x.Triangle()
		kl, ku := x.Bandwidth()
		if tn != r || kind != k2 || (kind == mat.Upper && (kl != 0 || ku != tk)) || (kind == mat.Lower && (ku != 0 || kl != tk)) {
			t.Failf("%s: TriBand() = %d,%d,upper=%v inconsistent with Triangle() upper=%v and Bandwidth() %d,%d", tag, tn, tk, bool(kind), bool(k2), kl, ku)
		}
		sameAt(t, tag, "a.TTriBand()", x.TTriBand(), vt)
	}
	if x, ok := m.(mat.Diagonal); ok && x.Diag() != r {
		t.Failf("%s: Diag() = %d want %d", tag, x.Diag(), r)
	}
	if x, ok := m.(diagViewer); ok {
		d := x.DiagView()
		l := min(r, c)
		if d.Diag() != l {
			t.Failf("%s: DiagView().Diag() = %d want %d", tag, d.Diag(), l)
		} else {
			for i := 0; i < l; i++ {
				if got := d.At(i, i); math.Float64bits(got) != math.Float64bits(val[i][i]) {
					t.Failf("%s: DiagView().At(%d,%d) = %s want %v", tag, i, i, vlib.B64(got), val[i][i])
				}
			}
		}
	}
	// DoNonZero family: exactly the non-zero elements, each once, with their values.
	visit := func(what string, do func(fn func(i, j int, x float64)), in func(i, j int) bool) {
		seen := map[[2]int]bool{}
		do(func(i, j int, x float64) {
			if i < 0 || i >= r || j < 0 || j >= c || !in(i, j) {
				t.Failf("%s: %s visited (%d,%d) outside its range", tag, what, i, j)
				return
			}
			if seen[[2]int{i, j}] {
				t.Failf("%s: %s visited (%d,%d) twice", tag, what, i, j)
			}
			seen[[2]int{i, j}] = true
			if x == 0 || math.Float64bits(x) != math.Float64bits(val[i][j]) {
				t.Failf("%s: %s reported (%d,%d) = %s, the element is %v", tag, what, i, j, vlib.B64(x), val[i][j])
			}
		})
		for i := 0; i < r; i++ {
			for j := 0; j < c; j++ {
				if in(i, j) && val[i][j] != 0 && !seen[[2]int{i, j}] {
					t.Failf("%s: %s did not visit the non-zero element (%d,%d) = %v", tag, what, i, j, val[i][j])
				}
			}
		}
	}
	if x, ok := m.(mat.NonZeroDoer); ok {
		visit("DoNonZero", x.DoNonZero, func(i, j int) bool { return true })
	}
	if x, ok := m.(mat.RowNonZeroDoer); ok {
		for i0 := 0; i0 < r; i0++ {
			i0 := i0
			visit(fmt.Sprintf("DoRowNonZero(%d)", i0), func(fn func(i, j int, x float64)) { x.DoRowNonZero(i0, fn) }, func(i, j int) bool { return i == i0 })
		}
	}
	if x, ok := m.(mat.ColNonZeroDoer); ok {
		for j0 := 0; j0 < c; j0++ {
			j0 := j0
			visit(fmt.Sprintf("DoColNonZero(%d)", j0), func(fn func(i, j int, x float64)) { x.DoColNonZero(j0, fn) }, func(i, j int) bool { return j == j0 })
		}
	}
}
