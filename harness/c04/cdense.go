package main

// The complex API: CDense.Conj, CDense.Copy, CEqual, CEqualApprox over the
// representations of a complex matrix.

import (
	"fmt"
	"math"
	"math/cmplx"

	"gonum.org/v1/gonum/blas/cblas128"
	"gonum.org/v1/gonum/internal/verif/vlib"
	"gonum.org/v1/gonum/mat"
)

type cmatrix = [][]complex128

func cval(i, j, seed int) complex128 {
	h := hash(i, j, seed)
	return complex(float64(h%7-3), float64((h>>4)%7-3))
}

func newCM(r, c, seed int) cmatrix {
	m := make(cmatrix, r)
	for i := range m {
		m[i] = make([]complex128, c)
		for j := range m[i] {
			m[i][j] = cval(i, j, seed)
		}
	}
	return m
}

func ctrans(m cmatrix, conj bool) cmatrix {
	r, c := len(m), len(m[0])
	t := make(cmatrix, c)
	for j := range t {
		t[j] = make([]complex128, r)
		for i := 0; i < r; i++ {
			t[j][i] = m[i][j]
			if conj {
				t[j][i] = cmplx.Conj(m[i][j])
			}
		}
	}
	return t
}

type basicC struct {
	r, c int
	d    []complex128
}

func (b *basicC) Dims() (int, int)       { return b.r, b.c }
func (b *basicC) At(i, j int) complex128 { return b.d[i*b.c+j] }
func (b *basicC) H() mat.CMatrix         { return mat.ConjTranspose{CMatrix: b} }
func (b *basicC) T() mat.CMatrix         { return mat.CTranspose{CMatrix: b} }

type rawC struct{ d *mat.CDense }

func (w rawC) Dims() (int, int)             { return w.d.Dims() }
func (w rawC) At(i, j int) complex128       { return w.d.At(i, j) }
func (w rawC) H() mat.CMatrix               { return mat.ConjTranspose{CMatrix: w} }
func (w rawC) T() mat.CMatrix               { return mat.CTranspose{CMatrix: w} }
func (w rawC) RawCMatrix() cblas128.General { return w.d.RawCMatrix() }

type coperand struct {
	m    mat.CMatrix
	val  cmatrix
	back []complex128
	snap []complex128
}

func (o *coperand) unchanged() string {
	if k, ok := vlib.SameC128(o.back, o.snap); !ok {
		return fmt.Sprintf("operand backing cell %d changed", k)
	}
	return ""
}

func cpoisoned(n int) []complex128 {
	s := make([]complex128, n)
	vlib.FillPoisonC128(s)
	return s
}

func cdenseOf(M cmatrix, view bool) (*mat.CDense, []complex128) {
	r, c := len(M), len(M[0])
	var d *mat.CDense
	var back []complex128
	if view {
		back = cpoisoned((r + 2) * (c + 3))
		d = mat.NewCDense(r+2, c+3, back).Slice(1, 1+r, 2, 2+c).(*mat.CDense)
	} else {
		back = cpoisoned(r * c)
		d = mat.NewCDense(r, c, back)
	}
	for i := 0; i < r; i++ {
		for j := 0; j < c; j++ {
			d.Set(i, j, M[i][j])
		}
	}
	return d, back
}

type ckind struct {
	name  string
	build func(M cmatrix) *coperand
}

func cbase(name string, view bool, wrap func(d *mat.CDense) mat.CMatrix) ckind {
	return ckind{name, func(M cmatrix) *coperand {
		d, back := cdenseOf(M, view)
		return &coperand{m: wrap(d), val: M, back: back, snap: append([]complex128(nil), back...)}
	}}
}

func cwrapped(name string, base ckind, conj bool, wrap func(m mat.CMatrix) mat.CMatrix) ckind {
	return ckind{name, func(M cmatrix) *coperand {
		o := base.build(ctrans(M, conj))
		o.m = wrap(o.m)
		o.val = M
		return o
	}}
}

func czoo() []ckind {
	id := func(d *mat.CDense) mat.CMatrix { return d }
	dense := cbase("CDense", false, id)
	view := cbase("CDenseView", true, id)
	raw := cbase("rawC", true, func(d *mat.CDense) mat.CMatrix { return rawC{d} })
	bas := ckind{"basicC", func(M cmatrix) *coperand {
		r, c := len(M), len(M[0])
		d := make([]complex128, 0, r*c)
		for i := range M {
			d = append(d, M[i]...)
		}
		return &coperand{m: &basicC{r, c, d}, val: M, back: d, snap: append([]complex128(nil), d...)}
	}}
	wT := func(m mat.CMatrix) mat.CMatrix { return m.T() }
	wH := func(m mat.CMatrix) mat.CMatrix { return m.H() }
	ks := []ckind{dense, view, raw, bas,
		cwrapped("T(CDense)", dense, false, wT), cwrapped("H(CDense)", dense, true, wH),
		cwrapped("T(CDenseView)", view, false, wT), cwrapped("H(CDenseView)", view, true, wH),
		cwrapped("T(rawC)", raw, false, wT), cwrapped("H(rawC)", raw, true, wH),
		cwrapped("T(basicC)", bas, false, wT), cwrapped("H(basicC)", bas, true, wH),
	}
	// double wrappers: H(T(X)) holds conj(M) stored untransposed; T(H(X)) likewise.
	ht := ckind{"H(T(CDense))", func(M cmatrix) *coperand {
		o := dense.build(ctrans(ctrans(M, false), true))
		o.m = o.m.T().H()
		o.val = M
		return o
	}}
	th := ckind{"T(H(CDenseView))", func(M cmatrix) *coperand {
		o := view.build(ctrans(ctrans(M, true), false))
		o.m = o.m.H().T()
		o.val = M
		return o
	}}
	return append(ks, ht, th)
}

func ceq(a, b complex128) bool { return eqVal(real(a), real(b)) && eqVal(imag(a), imag(b)) }

func genCDense(g *vlib.G) {
	ks := czoo()
	n := dimMax(g)
	for _, ka := range ks {
		ka := ka
		for _, state := range recvStates {
			state := state
			g.Case(fmt.Sprintf("Conj a=%s recv=%s", ka.name, state), func(t *vlib.T) {
				var v verdict
				for r := 1; r <= n; r++ {
					for c := 1; c <= n; c++ {
						a := ka.build(newCM(r, c, 1))
						var m *mat.CDense
						var back []complex128
						off, ld := 0, c
						switch state {
						case "zero":
							m = &mat.CDense{}
						case "dirty":
							back = cpoisoned(r*c + 3)
							m = mat.NewCDense(1, r*c+3, back)
							m.Reset()
						case "sized":
							back = cpoisoned(r * c)
							m = mat.NewCDense(r, c, back)
						case "view":
							ld = c + 4
							back = cpoisoned((r + 2) * ld)
							m = mat.NewCDense(r+2, ld, back).Slice(1, 1+r, 3, 3+c).(*mat.CDense)
							off = ld + 3
						case "wrong":
							back = cpoisoned((r + 1) * c)
							m = mat.NewCDense(r+1, c, back)
						}
						tag := fmt.Sprintf("Conj(%s %s)", ka.name, fmtShape(r, c))
						v.calls++
						p, pv := mustPanic(func() { m.Conj(a.m) })
						if state == "wrong" {
							if !p {
								failClass(t, "wrong-shaped-receiver-accepted", "%s: wrong-shaped receiver accepted", tag)
							} else {
								v.add("panic:" + panicString(pv))
							}
							continue
						}
						if p {
							t.Failf("%s: unexpected panic %s", tag, panicString(pv))
							continue
						}
						if gr, gc := m.Dims(); gr != r || gc != c {
							t.Failf("%s: result %d×%d", tag, gr, gc)
							continue
						}
						for i := 0; i < r; i++ {
							for j := 0; j < c; j++ {
								if got, want := m.At(i, j), cmplx.Conj(a.val[i][j]); !ceq(got, want) {
									t.Failf("%s: element (%d,%d) = %v want %v", tag, i, j, got, want)
								}
							}
						}
						raw := m.RawCMatrix()
						reused := len(back) > off && &raw.Data[0] == &back[off]
						if (state == "sized" || state == "view") && !reused {
							t.Failf("%s: the non-empty receiver was detached from its backing storage", tag)
						}
						for k, x := range back {
							if reused && k >= off && (k-off)/ld < r && (k-off)%ld < c {
								continue
							}
							if math.Float64bits(real(x)) != math.Float64bits(vlib.Poison64(2*k)) || math.Float64bits(imag(x)) != math.Float64bits(vlib.Poison64(2*k+1)) {
								t.Failf("%s: cell %d outside the receiver window was written", tag, k)
								break
							}
						}
						if msg := a.unchanged(); msg != "" {
							t.Failf("%s: %s", tag, msg)
						}
						v.add("ok")
					}
				}
				v.finish(t, "Conj/"+state)
			})
		}
		g.Case(fmt.Sprintf("CCopy a=%s", ka.name), func(t *vlib.T) {
			var v verdict
			for r := 1; r <= n; r++ {
				for c := 1; c <= n; c++ {
					for rs := 0; rs < (n+1)*(n+1); rs++ { // every receiver shape against every source shape
						mr, mc := 1+rs/(n+1), 1+rs%(n+1)
						a := ka.build(newCM(r, c, 1))
						ld := mc + 2
						back := cpoisoned((mr + 1) * ld)
						m := mat.NewCDense(mr+1, ld, back).Slice(1, 1+mr, 1, 1+mc).(*mat.CDense)
						tag := fmt.Sprintf("CDense(%s).Copy(%s %s)", fmtShape(mr, mc), ka.name, fmtShape(r, c))
						v.calls++
						var gr, gc int
						if p, pv := mustPanic(func() { gr, gc = m.Copy(a.m) }); p {
							t.Failf("%s: unexpected panic %s", tag, panicString(pv))
							continue
						}
						wr, wc := min(r, mr), min(c, mc)
						if gr != wr || gc != wc {
							t.Failf("%s: returned %d,%d want %d,%d", tag, gr, gc, wr, wc)
						}
						off := ld + 1
						for k, x := range back {
							i, j := (k-off)/ld, (k-off)%ld
							if k >= off && i < wr && j < wc {
								if !ceq(x, a.val[i][j]) {
									t.Failf("%s: element (%d,%d) = %v want %v", tag, i, j, x, a.val[i][j])
								}
								continue
							}
							if math.Float64bits(real(x)) != math.Float64bits(vlib.Poison64(2*k)) || math.Float64bits(imag(x)) != math.Float64bits(vlib.Poison64(2*k+1)) {
								t.Failf("%s: cell %d outside the copied block was written", tag, k)
								break
							}
						}
						if msg := a.unchanged(); msg != "" {
							t.Failf("%s: %s", tag, msg)
						}
						v.add("ok")
					}
				}
			}
			v.finish(t, "CCopy")
		})
		for _, kb := range ks {
			kb := kb
			g.Case(fmt.Sprintf("CEqual a=%s b=%s", ka.name, kb.name), func(t *vlib.T) {
				var v verdict
				for r := 1; r <= n; r++ {
					for c := 1; c <= n; c++ {
						M := newCM(r, c, 1)
						a, b := ka.build(M), kb.build(M)
						v.calls++
						if !mat.CEqual(a.m, b.m) || !mat.CEqualApprox(a.m, b.m, 1e-12) {
							t.Failf("CEqual(%s, %s) %s = false for equal matrices", ka.name, kb.name, fmtShape(r, c))
						}
						for _, p := range [][2]int{{0, 0}, {r - 1, c - 1}, {r / 2, c - 1}} {
							for _, delta := range []complex128{0.25i, 8} {
								M2 := newCM(r, c, 1)
								M2[p[0]][p[1]] += delta
								b2 := kb.build(M2)
								v.calls++
								if mat.CEqual(a.m, b2.m) || mat.CEqual(b2.m, a.m) {
									t.Failf("CEqual(%s, %s) %s = true although element %v differs by %v", ka.name, kb.name, fmtShape(r, c), p, delta)
								}
								if got, want := mat.CEqualApprox(a.m, b2.m, 0.3), cmplx.Abs(delta) < 0.3; got != want {
									t.Failf("CEqualApprox(%s, %s, 0.3) %s = %v want %v (element %v differs by %v)", ka.name, kb.name, fmtShape(r, c), got, want, p, delta)
								}
							}
						}
						v.add("ok")
					}
				}
				v.finish(t, "CEqual")
			})
		}
	}
}
