// Harness C04: mat results depend only on operand values, not on their
// representation. See NOTES.md.
package main

import "gonum.org/v1/gonum/internal/verif/vlib"

func main() {
	setPoolPolicy()
	groups := []vlib.Group{}
	for _, op := range binOps {
		groups = append(groups, vlib.Group{Name: "dense-" + op.name, Gen: genDenseBinary(op)})
	}
	groups = append(groups,
		vlib.Group{Name: "dense-unary", Gen: genDenseUnary},
		vlib.Group{Name: "dense-copy", Gen: genDenseCopy},
		vlib.Group{Name: "dense-product", Gen: genDenseProduct},
		vlib.Group{Name: "dense-rank", Gen: genDenseRank},
		vlib.Group{Name: "dense-exp", Gen: genDenseExp},
		vlib.Group{Name: "dense-inverse", Gen: genDenseInverse},
		vlib.Group{Name: "dense-solve", Gen: genDenseSolve},
		vlib.Group{Name: "scalar-fns", Gen: genScalarFns},
		vlib.Group{Name: "cond", Gen: genCond},
		vlib.Group{Name: "row-col", Gen: genRowCol},
		vlib.Group{Name: "equal", Gen: genEqual},
		vlib.Group{Name: "dot-inner", Gen: genDotInner},
		vlib.Group{Name: "vec-binary", Gen: genVecBinary},
		vlib.Group{Name: "vec-unary", Gen: genVecUnary},
		vlib.Group{Name: "vec-mulvec", Gen: genMulVec},
		vlib.Group{Name: "vec-solvevec", Gen: genSolveVec},
		vlib.Group{Name: "sym", Gen: genSymOps},
		vlib.Group{Name: "tri", Gen: genTriOps},
		vlib.Group{Name: "mulvecto", Gen: genMulVecTo},
		vlib.Group{Name: "solveto", Gen: genSolveTo},
		vlib.Group{Name: "diagfrom", Gen: genDiagFrom},
		vlib.Group{Name: "cdense", Gen: genCDense},
		vlib.Group{Name: "factor-at", Gen: genFactorAt},
		vlib.Group{Name: "zero", Gen: genZero},
		vlib.Group{Name: "empty", Gen: genEmpty},
		vlib.Group{Name: "large", Gen: genLarge},
		vlib.Group{Name: "rawlong", Gen: genRawLong},
		vlib.Group{Name: "same-object", Gen: genSame},
		vlib.Group{Name: "inplace-to", Gen: genInPlace},
		vlib.Group{Name: "history", Gen: genHistory},
		vlib.Group{Name: "accessors", Gen: genAccessors},
		vlib.Group{Name: "views", Gen: genViews},
	)
	vlib.Main("C04", groups...)
}
