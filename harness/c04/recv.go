package main

// Receiver states.  Every receiver is created over poisoned storage so that a
// cell the operation forgets to write shows up as poison in the result and a
// cell written outside the receiver's window shows up in the bitwise check of
// the surrounding storage.

import (
	"fmt"
	"math"

	"gonum.org/v1/gonum/blas"
	"gonum.org/v1/gonum/internal/verif/vlib"
	"gonum.org/v1/gonum/mat"
)

// Receiver state names. "wrong" is a non-empty receiver of the wrong shape: the call must panic.
var recvStates = []string{"zero", "dirty", "sized", "view", "wrong"}

// Receivers use their own poison payload range so that a poison value copied from an operand's
// padding into the receiver's surroundings cannot coincide with what was there.
func rpoison(k int) float64 { return vlib.Poison64(0x4000 + k) }

func rpoisoned(n int) []float64 {
	s := make([]float64, n)
	for i := range s {
		s[i] = rpoison(i)
	}
	return s
}

func eqVal(a, b float64) bool {
	if isPoison(a) || isPoison(b) {
		return false
	}
	return vlib.EqVal(a, b, false)
}

// ---- Dense ------------------------------------------------------------------

type denseRecv struct {
	state string
	m     *mat.Dense
	back  []float64 // complete backing array ("dirty", "sized", "view")
	r, c  int       // intended result shape
	off   int       // offset of the window in back ("view")
	ld    int       // stride of the window in back
	// detachOK: the operation is documented to give the receiver new storage (CloneFrom). For every other
	// operation a non-empty receiver must be written THROUGH: the result has to be in the caller's backing
	// array (the parent of a view, the slice handed to NewDense), not only readable through the receiver.
	detachOK bool
}

// newDenseRecv returns a receiver in the given state for an r×c result.
// variant selects among the wrong shapes.
func newDenseRecv(state string, r, c, variant int) *denseRecv {
	d := &denseRecv{state: state, r: r, c: c}
	switch state {
	case "zero":
		d.m = &mat.Dense{}
	case "dirty": // emptied matrix whose backing array still holds garbage
		d.back = rpoisoned(r*c + 5)
		d.m = mat.NewDense(1, r*c+5, d.back)
		d.m.Reset()
		d.ld = c
	case "sized":
		d.back = rpoisoned(r * c)
		d.m = mat.NewDense(r, c, d.back)
		d.ld = c
	case "view":
		d.ld = c + 4
		d.back = rpoisoned((r + 2) * d.ld)
		d.m = mat.NewDense(r+2, d.ld, d.back).Slice(1, 1+r, 3, 3+c).(*mat.Dense)
		d.off = d.ld + 3
	case "wrong":
		wr, wc := r+1, c
		switch variant % 3 {
		case 1:
			wr, wc = r, c+1
		case 2:
			if r != c {
				wr, wc = c, r
			} else {
				wr, wc = r+1, c+1
			}
		}
		d.back = rpoisoned(wr * wc)
		d.m = mat.NewDense(wr, wc, d.back)
	}
	return d
}

// check compares the receiver with want and verifies the storage around it.
func (d *denseRecv) check(want matrix, tol func(i, j int) float64) string {
	r, c := d.m.Dims()
	if r != d.r || c != d.c {
		return fmt.Sprintf("result is %d×%d, want %d×%d", r, c, d.r, d.c)
	}
	raw := d.m.RawMatrix()
	if (d.state == "sized" || d.state == "view") && !d.detachOK {
		if len(raw.Data) == 0 || &raw.Data[0] != &d.back[d.off] || (raw.Stride != d.ld && r > 1) {
			return "the non-empty receiver was detached from its backing storage: the result is not written through to the caller's array"
		}
	}
	for i := 0; i < r; i++ {
		for j := 0; j < c; j++ {
			got := raw.Data[i*raw.Stride+j]
			if (d.state == "sized" || d.state == "view") && !d.detachOK {
				got = d.back[d.off+i*d.ld+j] // judge the caller's storage itself
			}
			if at := d.m.At(i, j); math.Float64bits(at) != math.Float64bits(got) {
				return fmt.Sprintf("At(%d,%d)=%v differs from raw data %v", i, j, at, got)
			}
			if msg := cmpElem(got, want[i][j], tol, i, j); msg != "" {
				return msg
			}
		}
	}
	return d.outside()
}

func cmpElem(got, want float64, tol func(i, j int) float64, i, j int) string {
	if tol == nil {
		if !eqVal(got, want) {
			return fmt.Sprintf("element (%d,%d) = %s, want %v", i, j, vlib.B64(got), want)
		}
		return ""
	}
	if isPoison(got) || math.IsNaN(got) != math.IsNaN(want) || math.Abs(got-want) > tol(i, j) {
		return fmt.Sprintf("element (%d,%d) = %s, want %v ± %.3g", i, j, vlib.B64(got), want, tol(i, j))
	}
	return ""
}

// outside verifies that storage outside the r×c window is still the initial poison.
func (d *denseRecv) outside() string {
	if d.state == "zero" {
		return ""
	}
	raw := d.m.RawMatrix()
	// The result either lives in the receiver's window of the old backing array or in fresh storage
	// (CloneFrom); in the latter case the whole old array must be untouched.
	reused := d.state != "wrong" && len(raw.Data) > 0 && len(d.back) > d.off && &raw.Data[0] == &d.back[d.off]
	for k, v := range d.back {
		if reused && k >= d.off {
			i, j := (k-d.off)/d.ld, (k-d.off)%d.ld
			if i < d.r && j < d.c {
				continue
			}
		}
		if math.Float64bits(v) != math.Float64bits(rpoison(k)) {
			return fmt.Sprintf("cell %d of the receiver's backing array outside the result window was written (%s)", k, vlib.B64(v))
		}
	}
	return ""
}

// ---- VecDense ---------------------------------------------------------------

type vecRecv struct {
	state    string
	v        *mat.VecDense
	back     []float64
	n        int
	off      int
	inc      int
	detachOK bool // CloneFromVec only
}

func newVecRecv(state string, n, variant int) *vecRecv {
	d := &vecRecv{state: state, n: n, inc: 1}
	switch state {
	case "zero":
		d.v = &mat.VecDense{}
	case "dirty":
		d.back = rpoisoned(n + 3)
		d.v = mat.NewVecDense(n+3, d.back)
		d.v.Reset()
	case "sized":
		d.back = rpoisoned(n)
		d.v = mat.NewVecDense(n, d.back)
	case "view": // column 1 of a poisoned (n+1)×3 matrix restricted to n rows: inc 3
		d.back = rpoisoned((n + 1) * 3)
		d.v = mat.NewDense(n+1, 3, d.back).Slice(0, n, 0, 3).(*mat.Dense).ColView(1).(*mat.VecDense)
		d.off, d.inc = 1, 3
	case "wrong":
		wn := n + 1
		if variant%2 == 1 && n > 1 {
			wn = n - 1
		}
		d.back = rpoisoned(wn)
		d.v = mat.NewVecDense(wn, d.back)
	}
	return d
}

func (d *vecRecv) check(want []float64, tol func(i, j int) float64) string {
	if d.v.Len() != d.n {
		return fmt.Sprintf("result has length %d, want %d", d.v.Len(), d.n)
	}
	if r, c := d.v.Dims(); r != d.n || c != 1 {
		return fmt.Sprintf("result is %d×%d, want %d×1", r, c, d.n)
	}
	raw := d.v.RawVector()
	through := (d.state == "view" || d.state == "sized") && !d.detachOK
	if through {
		if raw.Inc != d.inc {
			return fmt.Sprintf("receiver increment changed from %d to %d", d.inc, raw.Inc)
		}
		if len(raw.Data) == 0 || &raw.Data[0] != &d.back[d.off] {
			return "the non-empty receiver was detached from its backing storage: the result is not written through to the caller's array"
		}
	}
	for i := 0; i < d.n; i++ {
		got := raw.Data[i*raw.Inc]
		if through {
			got = d.back[d.off+i*d.inc]
		}
		if at := d.v.AtVec(i); math.Float64bits(at) != math.Float64bits(got) {
			return fmt.Sprintf("AtVec(%d)=%v differs from raw data %v", i, at, got)
		}
		if msg := cmpElem(got, want[i], tol, i, 0); msg != "" {
			return msg
		}
	}
	return d.outside()
}

func (d *vecRecv) outside() string {
	if d.state == "zero" {
		return ""
	}
	raw := d.v.RawVector()
	reused := len(raw.Data) > 0 && len(d.back) > 0 && (&raw.Data[0] == &d.back[d.off])
	for k, v := range d.back {
		if d.state != "wrong" && reused && k >= d.off && (k-d.off)%d.inc == 0 && (k-d.off)/d.inc < d.n {
			continue
		}
		if math.Float64bits(v) != math.Float64bits(rpoison(k)) {
			return fmt.Sprintf("cell %d outside the receiver vector was written (%s)", k, vlib.B64(v))
		}
	}
	return ""
}

// ---- SymDense ---------------------------------------------------------------

type symRecv struct {
	state string
	s     *mat.SymDense
	back  []float64
	n     int
	off   int
	ld    int
}

func newSymRecv(state string, n, variant int) *symRecv {
	d := &symRecv{state: state, n: n, ld: n}
	switch state {
	case "zero":
		d.s = &mat.SymDense{}
	case "dirty":
		d.back = rpoisoned((n + 1) * (n + 1))
		d.s = mat.NewSymDense(n+1, d.back)
		d.s.Reset()
	case "sized":
		d.back = rpoisoned(n * n)
		d.s = mat.NewSymDense(n, d.back)
	case "view":
		d.ld = n + 3
		d.back = rpoisoned(d.ld * d.ld)
		d.s = mat.NewSymDense(d.ld, d.back).SliceSym(2, 2+n).(*mat.SymDense)
		d.off = 2*d.ld + 2
	case "wrong":
		wn := n + 1
		if variant%2 == 1 && n > 1 {
			wn = n - 1
		}
		d.back = rpoisoned(wn * wn)
		d.s = mat.NewSymDense(wn, d.back)
	}
	return d
}

func (d *symRecv) check(want matrix, tol func(i, j int) float64) string {
	if n := d.s.SymmetricDim(); n != d.n {
		return fmt.Sprintf("result is %d×%d, want %d×%d", n, n, d.n, d.n)
	}
	raw := d.s.RawSymmetric()
	if raw.Uplo != blas.Upper {
		return "result is not stored in the upper triangle"
	}
	if d.state == "sized" || d.state == "view" {
		if len(raw.Data) == 0 || &raw.Data[0] != &d.back[d.off] || (raw.Stride != d.ld && d.n > 1) {
			return "the non-empty receiver was detached from its backing storage: the result is not written through to the caller's array"
		}
	}
	for i := 0; i < d.n; i++ {
		for j := 0; j < d.n; j++ {
			got := d.s.At(i, j)
			if j >= i {
				if rv := raw.Data[i*raw.Stride+j]; math.Float64bits(rv) != math.Float64bits(got) {
					return fmt.Sprintf("At(%d,%d)=%v differs from raw data %v", i, j, got, rv)
				}
			}
			if msg := cmpElem(got, want[i][j], tol, i, j); msg != "" {
				return msg
			}
		}
	}
	return d.outside(func(i, j int) bool { return j >= i })
}

// outside checks every cell of the old backing except the stored part of the n×n window.
func (d *symRecv) outside(stored func(i, j int) bool) string {
	return outsideSquare(d.state, d.back, d.s.RawSymmetric().Data, d.n, d.off, d.ld, stored)
}

func outsideSquare(state string, back, data []float64, n, off, ld int, stored func(i, j int) bool) string {
	if state == "zero" {
		return ""
	}
	reused := len(data) > 0 && len(back) > 0 && &data[0] == &back[off]
	for k, v := range back {
		if state != "wrong" && reused && k >= off {
			i, j := (k-off)/ld, (k-off)%ld
			// an emptied receiver adopts the whole n×n block of its old array: the unreferenced
			// triangle of that block is the receiver's own and may be initialised.
			if i < n && j < n && (stored(i, j) || state == "dirty") {
				continue
			}
		}
		if math.Float64bits(v) != math.Float64bits(rpoison(k)) {
			return fmt.Sprintf("cell %d outside the stored part of the receiver was written (%s)", k, vlib.B64(v))
		}
	}
	return ""
}

// ---- TriDense ---------------------------------------------------------------

type triRecv struct {
	state string
	t     *mat.TriDense
	back  []float64
	n     int
	upper bool
	off   int
	ld    int
}

func newTriRecv(state string, n int, upper bool, variant int) *triRecv {
	d := &triRecv{state: state, n: n, ld: n, upper: upper}
	kind := mat.TriKind(upper)
	switch state {
	case "zero":
		d.t = &mat.TriDense{}
	case "dirty":
		d.back = rpoisoned((n + 1) * (n + 1))
		d.t = mat.NewTriDense(n+1, !kind, d.back)
		d.t.Reset()
	case "sized":
		d.back = rpoisoned(n * n)
		d.t = mat.NewTriDense(n, kind, d.back)
	case "view":
		d.ld = n + 3
		d.back = rpoisoned(d.ld * d.ld)
		d.t = mat.NewTriDense(d.ld, kind, d.back).SliceTri(2, 2+n).(*mat.TriDense)
		d.off = 2*d.ld + 2
	case "wrong":
		switch variant % 3 {
		case 0:
			d.back = rpoisoned((n + 1) * (n + 1))
			d.t = mat.NewTriDense(n+1, kind, d.back)
		case 1: // right size, wrong triangle
			d.back = rpoisoned(n * n)
			d.t = mat.NewTriDense(n, !kind, d.back)
		case 2:
			wn := max(1, n-1)
			if wn == n {
				wn = n + 2
			}
			d.back = rpoisoned(wn * wn)
			d.t = mat.NewTriDense(wn, kind, d.back)
		}
	}
	return d
}

func (d *triRecv) check(want matrix, tol func(i, j int) float64) string {
	n, kind := d.t.Triangle()
	if n != d.n {
		return fmt.Sprintf("result is %d×%d, want %d×%d", n, n, d.n, d.n)
	}
	if bool(kind) != d.upper {
		return fmt.Sprintf("result triangle upper=%v, want upper=%v", bool(kind), d.upper)
	}
	raw := d.t.RawTriangular()
	if d.state == "sized" || d.state == "view" {
		if len(raw.Data) == 0 || &raw.Data[0] != &d.back[d.off] || (raw.Stride != d.ld && d.n > 1) {
			return "the non-empty receiver was detached from its backing storage: the result is not written through to the caller's array"
		}
	}
	in := func(i, j int) bool { return (d.upper && j >= i) || (!d.upper && j <= i) }
	for i := 0; i < d.n; i++ {
		for j := 0; j < d.n; j++ {
			got := d.t.At(i, j)
			if in(i, j) {
				if rv := raw.Data[i*raw.Stride+j]; math.Float64bits(rv) != math.Float64bits(got) {
					return fmt.Sprintf("At(%d,%d)=%v differs from raw data %v", i, j, got, rv)
				}
			}
			if msg := cmpElem(got, want[i][j], tol, i, j); msg != "" {
				return msg
			}
		}
	}
	return outsideSquare(d.state, d.back, raw.Data, d.n, d.off, d.ld, in)
}

// mustPanic runs f and reports how it ended.
func mustPanic(f func()) (panicked bool, val any) {
	defer func() {
		if e := recover(); e != nil {
			panicked, val = true, e
		}
	}()
	f()
	return false, nil
}

func panicString(v any) string {
	switch e := v.(type) {
	case mat.Error:
		return "mat.Error(" + e.Error() + ")"
	case error:
		return fmt.Sprintf("%T(%s)", v, e.Error())
	default:
		return fmt.Sprintf("%T(%v)", v, v)
	}
}

var _ = mat.Upper
