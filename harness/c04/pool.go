package main

// The pool seam: mat/pool.go is rebuilt with sync.Pool replaced by the twin in
// vsync. Under PoolDirty every workspace that is handed back is filled with
// poison and is the next one to be handed out, so a workspace requested with
// clear=false that is read before it is written puts poison into the result;
// under PoolFresh every workspace is newly allocated (zeroed). The results of
// all groups must be the same under both policies because the oracles are
// absolute.

import (
	"os"

	"gonum.org/v1/gonum/internal/verif/vlib"
	"gonum.org/v1/gonum/internal/verif/vsync"
	"gonum.org/v1/gonum/mat"
)

func scrub(x any) {
	fill := func(d []float64) {
		d = d[:cap(d)]
		for i := range d {
			d[i] = vlib.Poison64(0x7000 + i)
		}
	}
	switch w := x.(type) {
	case *mat.Dense:
		fill(w.RawMatrix().Data)
	case *mat.SymDense:
		fill(w.RawSymmetric().Data)
	case *mat.TriDense:
		fill(w.RawTriangular().Data)
	case *mat.VecDense:
		fill(w.RawVector().Data)
	case *mat.CDense:
		d := w.RawCMatrix().Data
		d = d[:cap(d)]
		for i := range d {
			d[i] = complex(vlib.Poison64(0x7000+i), vlib.Poison64(0x7100+i))
		}
	case *[]float64:
		fill(*w)
	case *[]int:
		d := (*w)[:cap(*w)]
		for i := range d {
			d[i] = -7777777
		}
	case *[]complex128:
		d := (*w)[:cap(*w)]
		for i := range d {
			d[i] = complex(vlib.Poison64(0x7000+i), vlib.Poison64(0x7100+i))
		}
	}
}

// setPoolPolicy selects the policy from C04_POOL (set per configuration in check.json): dirty (default), fresh, real.
func setPoolPolicy() {
	switch os.Getenv("C04_POOL") {
	case "fresh":
		vsync.Policy = vsync.PoolFresh
	case "real":
		vsync.Policy = vsync.PoolReal
	default:
		vsync.Policy = vsync.PoolDirty
		vsync.Scrub = scrub
	}
}
