package main

// Operations whose receiver is a *Dense.

import (
	"fmt"
	"math"
	"math/big"

	"gonum.org/v1/gonum/internal/verif/vlib"
	"gonum.org/v1/gonum/mat"
)

// ---- binary operations ----------------------------------------------------------

type binOp struct {
	name   string
	shapes func(g *vlib.G) [][4]int // ar, ac, br, bc
	famB   family
	want   func(a, b matrix) matrix
	do     func(m *mat.Dense, a, b mat.Matrix)
}

func shapesSame(g *vlib.G) [][4]int {
	var s [][4]int
	for r := 1; r <= dimMax(g); r++ {
		for c := 1; c <= dimMax(g); c++ {
			s = append(s, [4]int{r, c, r, c})
		}
	}
	return s
}

func shapesMul(g *vlib.G) [][4]int {
	var s [][4]int
	n := dimMax(g)
	for r := 1; r <= n; r++ {
		for k := 1; k <= n; k++ {
			for c := 1; c <= n; c++ {
				s = append(s, [4]int{r, k, k, c})
			}
		}
	}
	return s
}

func shapesStack(g *vlib.G) [][4]int {
	var s [][4]int
	n := dimMax(g)
	for ar := 1; ar <= n; ar++ {
		for br := 1; br <= n; br++ {
			for c := 1; c <= n; c++ {
				s = append(s, [4]int{ar, c, br, c})
			}
		}
	}
	return s
}

func shapesAugment(g *vlib.G) [][4]int {
	var s [][4]int
	for _, x := range shapesStack(g) {
		s = append(s, [4]int{x[1], x[0], x[3], x[2]})
	}
	return s
}

func shapesKron(g *vlib.G) [][4]int {
	var s [][4]int
	n := vlib.Pick(g, 3, 4)
	for ar := 1; ar <= n; ar++ {
		for ac := 1; ac <= n; ac++ {
			for br := 1; br <= n; br++ {
				for bc := 1; bc <= n; bc++ {
					s = append(s, [4]int{ar, ac, br, bc})
				}
			}
		}
	}
	return s
}

func stackM(a, b matrix) matrix {
	ar, c := dimsOf(a)
	br, _ := dimsOf(b)
	m := newMatrix(ar+br, c)
	for i := 0; i < ar; i++ {
		copy(m[i], a[i])
	}
	for i := 0; i < br; i++ {
		copy(m[ar+i], b[i])
	}
	return m
}

func kronM(a, b matrix) matrix {
	ar, ac := dimsOf(a)
	br, bc := dimsOf(b)
	m := newMatrix(ar*br, ac*bc)
	for i := 0; i < ar; i++ {
		for j := 0; j < ac; j++ {
			for k := 0; k < br; k++ {
				for l := 0; l < bc; l++ {
					m[i*br+k][j*bc+l] = a[i][j] * b[k][l]
				}
			}
		}
	}
	return m
}

var binOps = []binOp{
	{"Add", shapesSame, famMixed, func(a, b matrix) matrix { return zipM(a, b, func(x, y float64) float64 { return x + y }) },
		func(m *mat.Dense, a, b mat.Matrix) { m.Add(a, b) }},
	{"Sub", shapesSame, famMixed, func(a, b matrix) matrix { return zipM(a, b, func(x, y float64) float64 { return x - y }) },
		func(m *mat.Dense, a, b mat.Matrix) { m.Sub(a, b) }},
	{"MulElem", shapesSame, famMixed, func(a, b matrix) matrix { return zipM(a, b, func(x, y float64) float64 { return x * y }) },
		func(m *mat.Dense, a, b mat.Matrix) { m.MulElem(a, b) }},
	{"DivElem", shapesSame, famNonzero, func(a, b matrix) matrix { return zipM(a, b, func(x, y float64) float64 { return x / y }) },
		func(m *mat.Dense, a, b mat.Matrix) { m.DivElem(a, b) }},
	{"Mul", shapesMul, famMixed, mulM, func(m *mat.Dense, a, b mat.Matrix) { m.Mul(a, b) }},
	{"Stack", shapesStack, famMixed, stackM, func(m *mat.Dense, a, b mat.Matrix) { m.Stack(a, b) }},
	{"Augment", shapesAugment, famMixed, func(a, b matrix) matrix { return transposeM(stackM(transposeM(a), transposeM(b))) },
		func(m *mat.Dense, a, b mat.Matrix) { m.Augment(a, b) }},
	{"Kronecker", shapesKron, famMixed, kronM, func(m *mat.Dense, a, b mat.Matrix) { m.Kronecker(a, b) }},
	{"Product2", shapesMul, famMixed, mulM, func(m *mat.Dense, a, b mat.Matrix) { m.Product(a, b) }},
}

func genDenseBinary(op binOp) func(g *vlib.G) {
	return func(g *vlib.G) {
		ks := kinds(g, op.name == "Product2")
		shapes := op.shapes(g)
		tuples([][]*kind{ks, ks}, func(sel []*kind) {
			ka, kb := sel[0], sel[1]
			for _, state := range recvStates {
				state := state
				g.Case(fmt.Sprintf("%s a=%s b=%s recv=%s", op.name, ka.name, kb.name, state), func(t *vlib.T) {
					var v verdict
					for si, sh := range shapes {
						a := ka.make(sh[0], sh[1], 1, famMixed)
						if a == nil {
							continue
						}
						b := kb.make(sh[2], sh[3], 2, op.famB)
						if b == nil {
							continue
						}
						want := op.want(a.val, b.val)
						r, c := dimsOf(want)
						rc := newDenseRecv(state, r, c, si)
						tag := fmt.Sprintf("%s(%s %s, %s %s)", op.name, ka.name, fmtShape(sh[0], sh[1]), kb.name, fmtShape(sh[2], sh[3]))
						judge(t, &v, tag, state, []*operand{a, b}, func() { op.do(rc.m, a.m, b.m) }, func() string { return rc.check(want, nil) })
					}
					v.finish(t, op.name+"/"+state)
				})
			}
		})
	}
}

// ---- unary operations with an exact oracle ----------------------------------------

type unOp struct {
	name     string
	square   bool
	variants int
	fam      family
	want     func(a matrix, variant int) matrix
	do       func(m *mat.Dense, a mat.Matrix, variant int)
}

var scaleFactors = []float64{2, -0.5, 0}

func applyFn(i, j int, v float64) float64 { return 2*v + float64(10*i+j) }

func powM(a matrix, n int) matrix {
	p := identityM(len(a))
	for k := 0; k < n; k++ {
		p = mulM(p, a)
	}
	return p
}

var unOps = []unOp{
	{"Scale", false, len(scaleFactors), famMixed,
		func(a matrix, k int) matrix {
			return mapM(a, func(i, j int, x float64) float64 { return scaleFactors[k] * x })
		},
		func(m *mat.Dense, a mat.Matrix, k int) { m.Scale(scaleFactors[k], a) }},
	{"Apply", false, 1, famMixed,
		func(a matrix, k int) matrix { return mapM(a, applyFn) },
		func(m *mat.Dense, a mat.Matrix, k int) { m.Apply(applyFn, a) }},
	{"Pow", true, 6, famMixed,
		func(a matrix, k int) matrix { return powM(a, k) },
		func(m *mat.Dense, a mat.Matrix, k int) { m.Pow(a, k) }},
	{"Product1", false, 1, famMixed,
		func(a matrix, k int) matrix { return a },
		func(m *mat.Dense, a mat.Matrix, k int) { m.Product(a) }},
	{"CloneFrom", false, 1, famMixed,
		func(a matrix, k int) matrix { return a },
		func(m *mat.Dense, a mat.Matrix, k int) { m.CloneFrom(a) }},
}

func genDenseUnary(g *vlib.G) {
	ks := kinds(g, false)
	n := dimMax(g)
	for _, op := range unOps {
		op := op
		for _, ka := range ks {
			ka := ka
			for _, state := range recvStates {
				state := state
				g.Case(fmt.Sprintf("%s a=%s recv=%s", op.name, ka.name, state), func(t *vlib.T) {
					var v verdict
					for r := 1; r <= n; r++ {
						for c := 1; c <= n; c++ {
							if op.square && r != c {
								continue
							}
							for k := 0; k < op.variants; k++ {
								a := ka.make(r, c, 1+k, op.fam)
								if a == nil {
									continue
								}
								want := op.want(a.val, k)
								// CloneFrom places no restriction on the receiver: a differently shaped
								// receiver must work (and its old storage must stay intact).
								jstate := state
								if op.name == "CloneFrom" && state == "wrong" {
									jstate = "sized"
								}
								rc := newDenseRecv(state, r, c, r+c+k)
								rc.detachOK = op.name == "CloneFrom" // documented: overwrites the receiver's previous value, never shadows
								tag := fmt.Sprintf("%s(%s %s, variant %d)", op.name, ka.name, fmtShape(r, c), k)
								judge(t, &v, tag, jstate, []*operand{a}, func() { op.do(rc.m, a.m, k) }, func() string { return rc.check(want, nil) })
							}
						}
					}
					v.finish(t, op.name+"/"+state)
				})
			}
		}
	}
}

// ---- Copy ---------------------------------------------------------------------------

// Copy does not resize: it copies the common top-left block and returns its size.
func genDenseCopy(g *vlib.G) {
	ks := kinds(g, false)
	n := dimMax(g)
	for _, ka := range ks {
		ka := ka
		for _, state := range []string{"zero", "sized", "view"} {
			state := state
			g.Case(fmt.Sprintf("Copy a=%s recv=%s", ka.name, state), func(t *vlib.T) {
				var v verdict
				for r := 1; r <= n; r++ {
					for c := 1; c <= n; c++ {
						// every receiver shape against every source shape: all nine relations
						// (fewer / equal / more rows) × (fewer / equal / more columns), not a sample of them.
						for rs := 0; rs < (n+1)*(n+1); rs++ {
							mr, mc := 1+rs/(n+1), 1+rs%(n+1)
							a := ka.make(r, c, 1, famMixed)
							if a == nil {
								continue
							}
							tag := fmt.Sprintf("Copy(%s %s) into %s %s", ka.name, fmtShape(r, c), state, fmtShape(mr, mc))
							v.calls++
							if state == "zero" {
								var m mat.Dense
								var gr, gc int
								if p, pv := mustPanic(func() { gr, gc = m.Copy(a.m) }); p {
									t.Failf("%s: unexpected panic %s", tag, panicString(pv))
								} else if gr != 0 || gc != 0 || !m.IsEmpty() {
									t.Failf("%s: returned %d,%d and receiver empty=%v; want 0,0 and an empty receiver", tag, gr, gc, m.IsEmpty())
								}
								continue
							}
							rc := newDenseRecv(state, mr, mc, 0)
							var gr, gc int
							if p, pv := mustPanic(func() { gr, gc = rc.m.Copy(a.m) }); p {
								t.Failf("%s: unexpected panic %s", tag, panicString(pv))
								continue
							}
							wr, wc := min(r, mr), min(c, mc)
							if gr != wr || gc != wc {
								t.Failf("%s: returned %d,%d want %d,%d", tag, gr, gc, wr, wc)
							}
							// the copied block must hold a's values, every other cell (inside and outside the window) its poison.
							raw := rc.m.RawMatrix()
							if raw.Rows != mr || raw.Cols != mc {
								t.Failf("%s: receiver shape changed to %d×%d", tag, raw.Rows, raw.Cols)
								continue
							}
							for i := 0; i < wr; i++ {
								for j := 0; j < wc; j++ {
									if got := raw.Data[i*raw.Stride+j]; !eqVal(got, a.val[i][j]) {
										t.Failf("%s: element (%d,%d) = %s want %v", tag, i, j, vlib.B64(got), a.val[i][j])
									}
								}
							}
							rc.r, rc.c = wr, wc
							if msg := rc.outside(); msg != "" {
								t.Failf("%s: %s", tag, msg)
							}
							checkOperands(t, tag, []*operand{a})
							v.add("ok")
						}
					}
				}
				v.finish(t, "Copy/"+state)
			})
		}
	}
}

// ---- Product with 3 and 4 factors -------------------------------------------------------

func genDenseProduct(g *vlib.G) {
	ks := kinds(g, true)
	n := vlib.Pick(g, 3, 4)
	states := []string{"zero", "view", "wrong"}
	if g.Thorough() {
		states = recvStates
	}
	tuples([][]*kind{ks, ks, ks}, func(sel []*kind) {
		for _, state := range states {
			state := state
			g.Case(fmt.Sprintf("Product3 %s recv=%s", names(sel), state), func(t *vlib.T) {
				var v verdict
				vlib.Product([]int{n, n, n, n}, func(d []int) bool {
					ops := make([]*operand, 3)
					ms := make([]mat.Matrix, 3)
					for i := range ops {
						if ops[i] = sel[i].make(d[i]+1, d[i+1]+1, 1+i, famMixed); ops[i] == nil {
							return true
						}
						ms[i] = ops[i].m
					}
					want := mulM(mulM(ops[0].val, ops[1].val), ops[2].val)
					rc := newDenseRecv(state, d[0]+1, d[3]+1, d[0]+d[3])
					tag := fmt.Sprintf("Product(%s dims %v)", names(sel), d)
					judge(t, &v, tag, state, ops, func() { rc.m.Product(ms...) }, func() string { return rc.check(want, nil) })
					return true
				})
				v.finish(t, "Product3/"+state)
			})
		}
	})
	// zero factors: documented by the code as legal only for an empty receiver, which stays empty.
	g.Case("Product0", func(t *vlib.T) {
		t.Nontrivial()
		t.Count("calls", 4)
		var e mat.Dense
		if p, pv := mustPanic(func() { e.Product() }); p || !e.IsEmpty() {
			t.Failf("Product() on an empty receiver: panicked=%v (%v), empty=%v", p, pv, e.IsEmpty())
		}
		d := newDenseRecv("dirty", 2, 2, 0)
		if p, pv := mustPanic(func() { d.m.Product() }); p || !d.m.IsEmpty() {
			t.Failf("Product() on an emptied receiver: panicked=%v (%v), empty=%v", p, pv, d.m.IsEmpty())
		}
		for _, state := range []string{"sized", "view"} {
			rc := newDenseRecv(state, 2, 3, 0)
			if p, _ := mustPanic(func() { rc.m.Product() }); !p {
				t.Failf("Product() with no factors on a non-empty %s receiver did not panic", state)
			}
			rc.state = "wrong" // nothing may have been written
			if msg := rc.outside(); msg != "" {
				t.Failf("Product() on a %s receiver: %s", state, msg)
			}
		}
		t.Outcome("Product0")
	})
	// four factors: a fixed interesting chain of representations, every dimension chain 1..n.
	chains := [][]string{
		{"T(Dense)", "Sym", "TriU", "Vec"},
		{"T(Vec)", "Band(1,2)", "T(TriBandU(1))", "DenseView"},
		{"basic", "Diag", "T(Tridiag)", "T(DenseView)"},
		{"VecInc", "TVec(VecInc)", "TriL", "SymBand(1)"},
	}
	for _, ch := range chains {
		sel := make([]*kind, len(ch))
		for i, nm := range ch {
			sel[i] = zooByName[nm]
		}
		for _, state := range recvStates {
			state := state
			g.Case(fmt.Sprintf("Product4 %s recv=%s", names(sel), state), func(t *vlib.T) {
				var v verdict
				vlib.Product([]int{n, n, n, n, n}, func(d []int) bool {
					ops := make([]*operand, 4)
					ms := make([]mat.Matrix, 4)
					for i := range ops {
						if ops[i] = sel[i].make(d[i]+1, d[i+1]+1, 1+i, famMixed); ops[i] == nil {
							return true
						}
						ms[i] = ops[i].m
					}
					want := mulM(mulM(mulM(ops[0].val, ops[1].val), ops[2].val), ops[3].val)
					rc := newDenseRecv(state, d[0]+1, d[4]+1, d[0]+d[4])
					tag := fmt.Sprintf("Product(%s dims %v)", names(sel), d)
					judge(t, &v, tag, state, ops, func() { rc.m.Product(ms...) }, func() string { return rc.check(want, nil) })
					return true
				})
				v.finish(t, "Product4/"+state)
			})
		}
	}
}

// ---- RankOne, Outer -------------------------------------------------------------------------

func isVector(m mat.Matrix) bool { _, ok := m.(mat.Vector); return ok }

func outerM(alpha float64, x, y []float64) matrix {
	m := newMatrix(len(x), len(y))
	for i := range x {
		for j := range y {
			m[i][j] = alpha * x[i] * y[j]
		}
	}
	return m
}

// makeVec builds a vector operand of length n in kind k (which may be a column or a row representation).
func makeVec(k *kind, n, seed int, fam family) *operand {
	if o := k.make(n, 1, seed, fam); o != nil {
		return o
	}
	if n == 1 {
		return nil // 1×1 was tried above
	}
	return k.make(1, n, seed, fam)
}

func genDenseRank(g *vlib.G) {
	all := kinds(g, false)
	vks := kindsWhere(all, isVector)
	n := dimMax(g)
	alphas := []float64{1, -2}
	tuples([][]*kind{vks, vks}, func(sel []*kind) {
		kx, ky := sel[0], sel[1]
		for _, state := range recvStates {
			state := state
			g.Case(fmt.Sprintf("Outer x=%s y=%s recv=%s", kx.name, ky.name, state), func(t *vlib.T) {
				var v verdict
				for r := 1; r <= n; r++ {
					for c := 1; c <= n; c++ {
						x, y := makeVec(kx, r, 1, famMixed), makeVec(ky, c, 2, famMixed)
						if x == nil || y == nil {
							continue
						}
						alpha := alphas[(r+c)%2]
						want := outerM(alpha, vecVal(x), vecVal(y))
						rc := newDenseRecv(state, r, c, r+c)
						tag := fmt.Sprintf("Outer(%v, %s[%d], %s[%d])", alpha, kx.name, r, ky.name, c)
						judge(t, &v, tag, state, []*operand{x, y}, func() { rc.m.Outer(alpha, x.m.(mat.Vector), y.m.(mat.Vector)) }, func() string { return rc.check(want, nil) })
					}
				}
				v.finish(t, "Outer/"+state)
			})
		}
	})
	// RankOne: every matrix kind with the core vector kinds, and every vector pair with the core matrix kinds.
	coreV := kindsWhere(kinds(g, true), isVector)
	coreM := kinds(g, true)
	seen := map[string]bool{}
	emit := func(ka, kx, ky *kind) {
		key := ka.name + "|" + kx.name + "|" + ky.name
		if seen[key] {
			return
		}
		seen[key] = true
		for _, state := range recvStates {
			state := state
			g.Case(fmt.Sprintf("RankOne a=%s x=%s y=%s recv=%s", ka.name, kx.name, ky.name, state), func(t *vlib.T) {
				var v verdict
				for r := 1; r <= n; r++ {
					for c := 1; c <= n; c++ {
						a := ka.make(r, c, 3, famMixed)
						x, y := makeVec(kx, r, 1, famMixed), makeVec(ky, c, 2, famMixed)
						if a == nil || x == nil || y == nil {
							continue
						}
						alpha := alphas[(r+c)%2]
						want := zipM(a.val, outerM(alpha, vecVal(x), vecVal(y)), func(p, q float64) float64 { return p + q })
						rc := newDenseRecv(state, r, c, r+c)
						tag := fmt.Sprintf("RankOne(%s %s, %v, %s, %s)", ka.name, fmtShape(r, c), alpha, kx.name, ky.name)
						judge(t, &v, tag, state, []*operand{a, x, y}, func() { rc.m.RankOne(a.m, alpha, x.m.(mat.Vector), y.m.(mat.Vector)) }, func() string { return rc.check(want, nil) })
					}
				}
				v.finish(t, "RankOne/"+state)
			})
		}
	}
	tuples([][]*kind{all, coreV, coreV}, func(s []*kind) { emit(s[0], s[1], s[2]) })
	tuples([][]*kind{coreM, vks, vks}, func(s []*kind) { emit(s[0], s[1], s[2]) })
}

// ---- inexact operations: Exp, Inverse, Solve ---------------------------------------------------

// expRef is the Taylor series of e^A evaluated with 300-bit floats.
func expRef(a matrix) matrix {
	n := len(a)
	const prec = 300
	bf := func(x float64) *big.Float { return new(big.Float).SetPrec(prec).SetFloat64(x) }
	A := make([][]*big.Float, n)
	term := make([][]*big.Float, n)
	sum := make([][]*big.Float, n)
	for i := 0; i < n; i++ {
		A[i], term[i], sum[i] = make([]*big.Float, n), make([]*big.Float, n), make([]*big.Float, n)
		for j := 0; j < n; j++ {
			A[i][j] = bf(a[i][j])
			v := 0.0
			if i == j {
				v = 1
			}
			term[i][j], sum[i][j] = bf(v), bf(v)
		}
	}
	for k := 1; k <= 120; k++ {
		next := make([][]*big.Float, n)
		for i := 0; i < n; i++ {
			next[i] = make([]*big.Float, n)
			for j := 0; j < n; j++ {
				s := bf(0)
				for l := 0; l < n; l++ {
					s.Add(s, new(big.Float).SetPrec(prec).Mul(term[i][l], A[l][j]))
				}
				next[i][j] = s.Quo(s, bf(float64(k)))
			}
		}
		term = next
		for i := 0; i < n; i++ {
			for j := 0; j < n; j++ {
				sum[i][j].Add(sum[i][j], term[i][j])
			}
		}
	}
	m := newMatrix(n, n)
	for i := 0; i < n; i++ {
		for j := 0; j < n; j++ {
			m[i][j], _ = sum[i][j].Float64()
		}
	}
	return m
}

func genDenseExp(g *vlib.G) {
	ks := kinds(g, false)
	n := dimMax(g)
	for _, ka := range ks {
		ka := ka
		for _, state := range recvStates {
			state := state
			g.Case(fmt.Sprintf("Exp a=%s recv=%s", ka.name, state), func(t *vlib.T) {
				var v verdict
				for r := 1; r <= n; r++ {
					for fi, fam := range []family{famTiny, famMixed} {
						a := ka.make(r, r, 1, fam)
						if a == nil {
							continue
						}
						// differential reference: the same value as a packed *Dense.
						var ref mat.Dense
						ref.Exp(denseOfM(a.val))
						want := mOfDense(&ref)
						scale := maxAbsM(want)
						def := expRef(a.val)
						for i := range def {
							for j := range def[i] {
								if math.Abs(def[i][j]-want[i][j]) > 1e-9*math.Max(1, maxAbsM(def)) {
									t.Failf("Exp(Dense %dx%d %v): element (%d,%d) = %v, series value %v", r, r, fam, i, j, want[i][j], def[i][j])
								}
							}
						}
						rc := newDenseRecv(state, r, r, r+fi)
						tag := fmt.Sprintf("Exp(%s %s %v)", ka.name, fmtShape(r, r), fam)
						judge(t, &v, tag, state, []*operand{a}, func() { rc.m.Exp(a.m) }, func() string { return rc.check(want, uniformTol(1e-13*math.Max(1, scale))) })
					}
				}
				v.finish(t, "Exp/"+state)
			})
		}
	}
}

func genDenseInverse(g *vlib.G) {
	ks := kinds(g, false)
	n := dimMax(g)
	for _, ka := range ks {
		ka := ka
		for _, state := range recvStates {
			state := state
			g.Case(fmt.Sprintf("Inverse a=%s recv=%s", ka.name, state), func(t *vlib.T) {
				var v verdict
				for r := 1; r <= n; r++ {
					for fi, fam := range []family{famDomDiag, famTriUnit} {
						a := ka.make(r, r, 1, fam)
						if a == nil {
							continue
						}
						var ref mat.Dense
						refErr := ref.Inverse(denseOfM(a.val))
						if refErr != nil {
							continue // singular or ill-conditioned member (possible for structured famTriUnit): not part of the family
						}
						want := mOfDense(&ref)
						// definitional: A·X = I
						ax := mulM(a.val, want)
						for i := range ax {
							for j := range ax[i] {
								e := 0.0
								if i == j {
									e = 1
								}
								if math.Abs(ax[i][j]-e) > 1e-11*maxAbsM(a.val)*maxAbsM(want)*float64(r) {
									t.Failf("Inverse(Dense %v): (A·X)[%d,%d] = %v", a.val, i, j, ax[i][j])
								}
							}
						}
						rc := newDenseRecv(state, r, r, r+fi)
						var err error
						tag := fmt.Sprintf("Inverse(%s %s %v)", ka.name, fmtShape(r, r), fam)
						judge(t, &v, tag, state, []*operand{a}, func() { err = rc.m.Inverse(a.m) }, func() string {
							if err != nil {
								return fmt.Sprintf("returned error %v, the packed Dense representation of the same matrix returns nil", err)
							}
							return rc.check(want, uniformTol(1e-13*math.Max(1, maxAbsM(want))))
						})
					}
				}
				v.finish(t, "Inverse/"+state)
			})
		}
	}
}

func genDenseSolve(g *vlib.G) {
	all := kinds(g, false)
	coreK := kinds(g, true)
	n := dimMax(g)
	seen := map[string]bool{}
	emit := func(ka, kb *kind) {
		if seen[ka.name+"|"+kb.name] {
			return
		}
		seen[ka.name+"|"+kb.name] = true
		for _, state := range recvStates {
			state := state
			g.Case(fmt.Sprintf("Solve a=%s b=%s recv=%s", ka.name, kb.name, state), func(t *vlib.T) {
				var v verdict
				for ar := 1; ar <= n; ar++ {
					for ac := 1; ac <= n; ac++ {
						for nrhs := 1; nrhs <= n; nrhs += 1 + nrhs/2 { // 1,2,4 (,… )
							fams := []family{famDomDiag}
							if ar == ac {
								fams = append(fams, famTriUnit)
							}
							for fi, fam := range fams {
								a := ka.make(ar, ac, 1, fam)
								b := kb.make(ar, nrhs, 2, famMixed)
								if a == nil || b == nil {
									continue
								}
								var ref mat.Dense
								refErr := ref.Solve(denseOfM(a.val), denseOfM(b.val))
								if refErr != nil {
									continue // rank deficient member: contents undefined
								}
								want := mOfDense(&ref)
								if ar <= ac { // consistent system: A·X = B
									ax := mulM(a.val, want)
									bound := 1e-11 * float64(ac) * (maxAbsM(a.val)*maxAbsM(want) + maxAbsM(b.val))
									for i := range ax {
										for j := range ax[i] {
											if math.Abs(ax[i][j]-b.val[i][j]) > bound {
												t.Failf("Solve(Dense %v, %v): residual (%d,%d) = %v", a.val, b.val, i, j, ax[i][j]-b.val[i][j])
											}
										}
									}
								} else { // least squares: Aᵀ(A·X − B) = 0
									res := zipM(mulM(a.val, want), b.val, func(p, q float64) float64 { return p - q })
									atr := mulM(transposeM(a.val), res)
									bound := 1e-10 * float64(ar) * maxAbsM(a.val) * (maxAbsM(a.val)*maxAbsM(want) + maxAbsM(b.val))
									if mx := maxAbsM(atr); mx > bound {
										t.Failf("Solve(Dense %v, %v): normal equations residual %v > %v", a.val, b.val, mx, bound)
									}
								}
								rc := newDenseRecv(state, ac, nrhs, ar+ac+fi)
								var err error
								tag := fmt.Sprintf("Solve(%s %s %v, %s %s)", ka.name, fmtShape(ar, ac), fam, kb.name, fmtShape(ar, nrhs))
								judge(t, &v, tag, state, []*operand{a, b}, func() { err = rc.m.Solve(a.m, b.m) }, func() string {
									if err != nil {
										return fmt.Sprintf("returned error %v, the packed Dense representation of the same system returns nil", err)
									}
									return rc.check(want, uniformTol(1e-12*math.Max(1, maxAbsM(want))))
								})
							}
						}
					}
				}
				v.finish(t, "Solve/"+state)
			})
		}
	}
	tuples([][]*kind{all, coreK}, func(s []*kind) { emit(s[0], s[1]) })
	tuples([][]*kind{coreK, all}, func(s []*kind) { emit(s[0], s[1]) })
}
