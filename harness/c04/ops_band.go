package main

// Methods of the banded, tridiagonal, triangular and diagonal types that take a
// destination: MulVecTo, SolveTo, SolveVecTo, DiagFrom.

import (
	"fmt"
	"math"

	"gonum.org/v1/gonum/internal/verif/vlib"
	"gonum.org/v1/gonum/mat"
)

type mulVecToer interface {
	MulVecTo(dst *mat.VecDense, trans bool, x mat.Vector)
}

type solveVecToer interface {
	SolveVecTo(dst *mat.VecDense, trans bool, b mat.Vector) error
}

func hasMulVecTo(m mat.Matrix) bool   { _, ok := m.(mulVecToer); return ok }
func hasSolveTo(m mat.Matrix) bool    { _, ok := m.(mat.SolveToer); return ok }
func hasSolveVecTo(m mat.Matrix) bool { _, ok := m.(solveVecToer); return ok }

func maybeT(a matrix, trans bool) matrix {
	if trans {
		return transposeM(a)
	}
	return a
}

func isTriM(a matrix) (upper, lower bool) {
	upper, lower = true, true
	for i := range a {
		for j := range a[i] {
			if a[i][j] != 0 {
				if i > j {
					upper = false
				}
				if i < j {
					lower = false
				}
			}
		}
	}
	return
}

// triSolveM solves T·X = B by substitution (exact on the ±1, ±2 diagonal family).
func triSolveM(tm, b matrix) matrix {
	n := len(tm)
	_, nrhs := dimsOf(b)
	x := newMatrix(n, nrhs)
	upper, _ := isTriM(tm)
	for c := 0; c < nrhs; c++ {
		if upper {
			for i := n - 1; i >= 0; i-- {
				s := b[i][c]
				for j := i + 1; j < n; j++ {
					s -= tm[i][j] * x[j][c]
				}
				x[i][c] = s / tm[i][i]
			}
		} else {
			for i := 0; i < n; i++ {
				s := b[i][c]
				for j := 0; j < i; j++ {
					s -= tm[i][j] * x[j][c]
				}
				x[i][c] = s / tm[i][i]
			}
		}
	}
	return x
}

func genMulVecTo(g *vlib.G) {
	all := kinds(g, false)
	mks := kindsWhere(all, hasMulVecTo)
	vks := kindsWhere(all, isVector)
	n := dimMax(g)
	tuples([][]*kind{mks, vks}, func(sel []*kind) {
		ka, kx := sel[0], sel[1]
		for _, state := range recvStates {
			state := state
			g.Case(fmt.Sprintf("MulVecTo a=%s x=%s dst=%s", ka.name, kx.name, state), func(t *vlib.T) {
				var v verdict
				for r := 1; r <= n; r++ {
					for c := 1; c <= n; c++ {
						for _, trans := range []bool{false, true} {
							a := ka.make(r, c, 1, famMixed)
							if a == nil {
								continue
							}
							op := maybeT(a.val, trans)
							or, oc := dimsOf(op)
							x := makeVec(kx, oc, 2, famMixed)
							if x == nil {
								continue
							}
							xv := newMatrix(oc, 1)
							for i, e := range vecVal(x) {
								xv[i][0] = e
							}
							want := colOf(mulM(op, xv))
							rc := newVecRecv(state, or, r+c)
							tag := fmt.Sprintf("%s %s.MulVecTo(dst, %v, %s)", ka.name, fmtShape(r, c), trans, kx.name)
							judge(t, &v, tag, state, []*operand{a, x}, func() { a.m.(mulVecToer).MulVecTo(rc.v, trans, x.m.(mat.Vector)) }, func() string { return rc.check(want, nil) })
						}
					}
				}
				v.finish(t, "MulVecTo/"+state)
			})
		}
	})
}

func genSolveTo(g *vlib.G) {
	all := kinds(g, false)
	sks := kindsWhere(all, hasSolveTo)
	svks := kindsWhere(all, hasSolveVecTo)
	vks := kindsWhere(all, isVector)
	n := dimMax(g)
	tuples([][]*kind{sks, all}, func(sel []*kind) {
		ka, kb := sel[0], sel[1]
		for _, state := range recvStates {
			state := state
			g.Case(fmt.Sprintf("SolveTo a=%s b=%s dst=%s", ka.name, kb.name, state), func(t *vlib.T) {
				var v verdict
				for l := 1; l <= n; l++ {
					for nrhs := 1; nrhs <= n; nrhs++ {
						for _, trans := range []bool{false, true} {
							for fi, fam := range []family{famTriUnit, famDomDiag} {
								a, b := ka.make(l, l, 1, fam), kb.make(l, nrhs, 2, famMixed)
								if a == nil || b == nil {
									continue
								}
								op := maybeT(a.val, trans)
								up, lo := isTriM(op)
								exact := (up || lo) && fam == famTriUnit
								if !(up || lo) && fam == famTriUnit {
									continue // general tridiagonal systems only from the diagonally dominant family
								}
								var want matrix
								if up || lo {
									want = triSolveM(op, b.val)
								} else {
									var ref mat.Dense
									if err := ref.Solve(denseOfM(op), denseOfM(b.val)); err != nil {
										continue
									}
									want = mOfDense(&ref)
								}
								rc := newDenseRecv(state, l, nrhs, l+nrhs+fi)
								var err error
								tag := fmt.Sprintf("%s(n=%d %v).SolveTo(dst, %v, %s %s)", ka.name, l, fam, trans, kb.name, fmtShape(l, nrhs))
								judge(t, &v, tag, state, []*operand{a, b}, func() { err = a.m.(mat.SolveToer).SolveTo(rc.m, trans, b.m) }, func() string {
									if err != nil {
										return "error " + err.Error()
									}
									if exact {
										return rc.check(want, nil)
									}
									// definition: op(A)·X = B
									got := mOfDense(rc.m)
									res := zipM(mulM(op, got), b.val, func(p, q float64) float64 { return p - q })
									if mx := maxAbsM(res); !(mx <= 1e-12*float64(l)*(maxAbsM(op)*maxAbsM(got)+maxAbsM(b.val))) {
										return fmt.Sprintf("residual %v (X = %v)", mx, got)
									}
									return rc.check(want, uniformTol(1e-12*math.Max(1, maxAbsM(want))))
								})
							}
						}
					}
				}
				v.finish(t, "SolveTo/"+state)
			})
		}
	})
	tuples([][]*kind{svks, vks}, func(sel []*kind) {
		ka, kb := sel[0], sel[1]
		for _, state := range recvStates {
			state := state
			g.Case(fmt.Sprintf("SolveVecTo a=%s b=%s dst=%s", ka.name, kb.name, state), func(t *vlib.T) {
				var v verdict
				for l := 1; l <= n; l++ {
					for _, trans := range []bool{false, true} {
						for fi, fam := range []family{famTriUnit, famDomDiag} {
							a, b := ka.make(l, l, 1, fam), kb.make(l, 1, 2, famMixed)
							if a == nil || b == nil {
								continue
							}
							op := maybeT(a.val, trans)
							up, lo := isTriM(op)
							exact := (up || lo) && fam == famTriUnit
							if !(up || lo) && fam == famTriUnit {
								continue
							}
							var want matrix
							if up || lo {
								want = triSolveM(op, b.val)
							} else {
								var ref mat.Dense
								if err := ref.Solve(denseOfM(op), denseOfM(b.val)); err != nil {
									continue
								}
								want = mOfDense(&ref)
							}
							rc := newVecRecv(state, l, l+fi)
							var err error
							tag := fmt.Sprintf("%s(n=%d %v).SolveVecTo(dst, %v, %s)", ka.name, l, fam, trans, kb.name)
							judge(t, &v, tag, state, []*operand{a, b}, func() { err = a.m.(solveVecToer).SolveVecTo(rc.v, trans, b.m.(mat.Vector)) }, func() string {
								if err != nil {
									return "error " + err.Error()
								}
								if exact {
									return rc.check(colOf(want), nil)
								}
								return rc.check(colOf(want), uniformTol(1e-12*math.Max(1, maxAbsM(want))))
							})
						}
					}
				}
				v.finish(t, "SolveVecTo/"+state)
			})
		}
	})
}

// DiagFrom copies the diagonal of any matrix into a DiagDense.
func genDiagFrom(g *vlib.G) {
	all := kinds(g, false)
	n := dimMax(g)
	for _, ka := range all {
		ka := ka
		for _, state := range []string{"zero", "dirty", "sized", "view", "wrong"} {
			state := state
			g.Case(fmt.Sprintf("DiagFrom a=%s recv=%s", ka.name, state), func(t *vlib.T) {
				var v verdict
				for r := 1; r <= n; r++ {
					for c := 1; c <= n; c++ {
						a := ka.make(r, c, 1, famNonzero)
						if a == nil {
							continue
						}
						l := min(r, c)
						var d *mat.DiagDense
						var back []float64
						off, inc := 0, 1
						switch state {
						case "zero":
							d = &mat.DiagDense{}
						case "dirty": // emptied after holding a larger diagonal: the old array (garbage) may be re-used
							back = rpoisoned(l + 2)
							d = mat.NewDiagDense(l+2, back)
							d.Reset()
						case "sized":
							back = rpoisoned(l)
							d = mat.NewDiagDense(l, back)
						case "view": // the diagonal of an l×l window of a poisoned matrix: increment l+3
							back = rpoisoned((l + 1) * (l + 2))
							d = mat.NewDense(l+1, l+2, back).Slice(0, l, 1, 1+l).(*mat.Dense).DiagView().(*mat.DiagDense)
							off, inc = 1, l+3
						case "wrong":
							back = rpoisoned(l + 1)
							d = mat.NewDiagDense(l+1, back)
						}
						tag := fmt.Sprintf("DiagFrom(%s %s) recv=%s", ka.name, fmtShape(r, c), state)
						judge(t, &v, tag, state, []*operand{a}, func() { d.DiagFrom(a.m) }, func() string {
							if d.Diag() != l {
								return fmt.Sprintf("result has size %d want %d", d.Diag(), l)
							}
							for i := 0; i < l; i++ {
								if got := d.At(i, i); !eqVal(got, a.val[i][i]) {
									return fmt.Sprintf("diagonal element %d = %s want %v", i, vlib.B64(got), a.val[i][i])
								}
								// a non-empty receiver must be written through to the caller's storage
								if state == "sized" || state == "view" {
									if got := back[off+i*inc]; !eqVal(got, a.val[i][i]) {
										return fmt.Sprintf("the receiver was detached: backing cell of diagonal element %d = %s want %v", i, vlib.B64(got), a.val[i][i])
									}
								}
							}
							for k, x := range back {
								if k >= off && (k-off)%inc == 0 && (k-off)/inc < l {
									continue
								}
								if math.Float64bits(x) != math.Float64bits(rpoison(k)) {
									return fmt.Sprintf("cell %d outside the receiver's diagonal was written (%s)", k, vlib.B64(x))
								}
							}
							return ""
						})
					}
				}
				v.finish(t, "DiagFrom/"+state)
			})
		}
	}
}
