package main

// The representation zoo: structure classes, value families and every concrete
// way of holding a mathematical matrix M that the mat package (or a user of
// its interfaces) offers.  Nothing in this file calls a mat arithmetic method:
// operands are materialised through constructors, Set* methods and views only,
// so that the mathematical value `val` is known independently of the code
// under test.

import (
	"fmt"
	"math"

	"gonum.org/v1/gonum/blas"
	"gonum.org/v1/gonum/blas/blas64"
	"gonum.org/v1/gonum/internal/verif/vlib"
	"gonum.org/v1/gonum/lapack/lapack64"
	"gonum.org/v1/gonum/mat"
)

type matrix = [][]float64

func newMatrix(r, c int) matrix {
	m := make(matrix, r)
	d := make([]float64, r*c)
	for i := range m {
		m[i] = d[i*c : (i+1)*c : (i+1)*c]
	}
	return m
}

func dimsOf(m matrix) (int, int) {
	if len(m) == 0 {
		return 0, 0
	}
	return len(m), len(m[0])
}

func transposeM(m matrix) matrix {
	r, c := dimsOf(m)
	t := newMatrix(c, r)
	for i := 0; i < r; i++ {
		for j := 0; j < c; j++ {
			t[j][i] = m[i][j]
		}
	}
	return t
}

// structure is a set of r×c matrices: zero outside mask and, if sym, symmetric.
type structure struct {
	r, c int
	mask [][]bool
	sym  bool
}

func newStructure(r, c int, in func(i, j int) bool, sym bool) *structure {
	s := &structure{r: r, c: c, sym: sym, mask: make([][]bool, r)}
	for i := range s.mask {
		s.mask[i] = make([]bool, c)
		for j := range s.mask[i] {
			s.mask[i][j] = in(i, j)
		}
	}
	return s
}

func (s *structure) transposed() *structure {
	return newStructure(s.c, s.r, func(i, j int) bool { return s.mask[j][i] }, s.sym)
}

// meet is the structure of the matrices that belong to both s and o.
func (s *structure) meet(o *structure) *structure {
	if s.r != o.r || s.c != o.c {
		return nil
	}
	sym := s.sym || o.sym
	return newStructure(s.r, s.c, func(i, j int) bool {
		ok := s.mask[i][j] && o.mask[i][j]
		if sym {
			ok = ok && s.mask[j][i] && o.mask[j][i]
		}
		return ok
	}, sym)
}

func (s *structure) nnz() int {
	n := 0
	for i := range s.mask {
		for j := range s.mask[i] {
			if s.mask[i][j] {
				n++
			}
		}
	}
	return n
}

// family selects the value alphabet.
type family int

const (
	famMixed   family = iota // -3..3, zeros included
	famPos                   // 1..3
	famNeg                   // -3..-1
	famNonzero               // ±1, ±2, ±4 (denominators)
	famDomDiag               // mixed off-diagonal, diagonal ±(8+i): well conditioned
	famTriUnit               // mixed off-diagonal, diagonal ±1, ±2: exact triangular solves
	famTiny                  // entries in {0, ±1/8, ±1/4}: small norm for Exp
)

var famNames = map[family]string{famMixed: "mixed", famPos: "pos", famNeg: "neg", famNonzero: "nz", famDomDiag: "domdiag", famTriUnit: "triunit", famTiny: "tiny"}

func (f family) String() string { return famNames[f] }

func hash(i, j, seed int) int {
	h := uint32(i*73+j*179+seed*283) + uint32(i*j*31)
	h ^= h >> 3
	h *= 2654435761
	h ^= h >> 15
	return int(h>>8) & 0xffff
}

// value is the (i,j) entry of the unstructured generator of a family.
func value(fam family, i, j, seed int) float64 {
	h := hash(i, j, seed)
	switch fam {
	case famPos:
		return float64(h%3 + 1)
	case famNeg:
		return -float64(h%3 + 1)
	case famNonzero:
		v := float64(int(1) << uint(h%3))
		if h&8 != 0 {
			v = -v
		}
		return v
	case famDomDiag:
		if i == j {
			v := float64(8 + i)
			if h&1 != 0 {
				v = -v
			}
			return v
		}
		return float64(h%5 - 2)
	case famTriUnit:
		if i == j {
			v := float64(1 + h&1)
			if h&2 != 0 {
				v = -v
			}
			return v
		}
		return float64(h%5 - 2)
	case famTiny:
		return float64(h%5-2) / 8
	default:
		return float64(h%7 - 3)
	}
}

// conform generates the member of s determined by (fam, seed).
func conform(s *structure, fam family, seed int) matrix {
	m := newMatrix(s.r, s.c)
	for i := 0; i < s.r; i++ {
		for j := 0; j < s.c; j++ {
			if !s.mask[i][j] {
				continue
			}
			if s.sym && i > j {
				m[i][j] = value(fam, j, i, seed)
			} else {
				m[i][j] = value(fam, i, j, seed)
			}
		}
	}
	return m
}

// operand is one concrete representation of val.
type operand struct {
	kind string
	m    mat.Matrix
	val  matrix
	bufs [][]float64 // every slice backing m, including padding and unreferenced storage
	snap [][]float64
}

func (o *operand) seal() *operand {
	o.snap = make([][]float64, len(o.bufs))
	for i, b := range o.bufs {
		o.snap[i] = append([]float64(nil), b...)
	}
	return o
}

// unchanged verifies that the call left every backing cell of the operand bit-identical.
func (o *operand) unchanged() string {
	for i, b := range o.bufs {
		if k, ok := vlib.Same64(b, o.snap[i]); !ok {
			return fmt.Sprintf("operand %s: backing slice %d cell %d changed from %s to %s", o.kind, i, k, vlib.B64(o.snap[i][k]), vlib.B64(b[k]))
		}
	}
	return ""
}

func isPoison(x float64) bool {
	return math.Float64bits(x)&0xffff_ffff_ffff_0000 == 0x7ff8_0000_dead_0000
}

func poisoned(n int) []float64 {
	s := make([]float64, n)
	vlib.FillPoison64(s)
	return s
}

// kind is one way of representing a matrix.
type kind struct {
	name  string
	shape func(r, c int) *structure // nil when no r×c matrix can be held
	build func(M matrix) *operand   // M must be a member of shape(r,c)
	// gen, when set, replaces conform: the kind can only hold particular
	// values (factorizations); fam is honoured as far as possible.
	gen  func(r, c, seed int, fam family) matrix
	tier int  // 0 quick and thorough, 1 thorough only
	core bool // member of the reduced list used where the full product is too large
}

func (k *kind) generate(r, c, seed int, fam family) matrix {
	s := k.shape(r, c)
	if s == nil {
		return nil
	}
	if k.gen != nil {
		return k.gen(r, c, seed, fam)
	}
	return conform(s, fam, seed)
}

// make returns the kind's own r×c operand for (fam, seed) or nil.
func (k *kind) make(r, c, seed int, fam family) *operand {
	M := k.generate(r, c, seed, fam)
	if M == nil {
		return nil
	}
	return k.build(M)
}

// ---- user types -----------------------------------------------------------

// basic exposes only Dims/At/T: forces the generic paths.
type basic struct {
	r, c int
	d    []float64
}

func (b *basic) Dims() (int, int) { return b.r, b.c }
func (b *basic) At(i, j int) float64 {
	if uint(i) >= uint(b.r) || uint(j) >= uint(b.c) {
		panic(mat.ErrIndexOutOfRange)
	}
	return b.d[i*b.c+j]
}
func (b *basic) T() mat.Matrix { return mat.Transpose{Matrix: b} }

// basicVec is a user column vector without Raw access.
type basicVec struct{ basic }

func (b *basicVec) AtVec(i int) float64 { return b.At(i, 0) }
func (b *basicVec) Len() int            { return b.r }
func (b *basicVec) T() mat.Matrix       { return mat.Transpose{Matrix: b} }

// basicSym is a user symmetric matrix without Raw access.
type basicSym struct{ basic }

func (b *basicSym) SymmetricDim() int { return b.r }
func (b *basicSym) T() mat.Matrix     { return b }

// basicTri is a user triangular matrix without Raw access.
type basicTri struct {
	basic
	upper bool
}

func (b *basicTri) Triangle() (int, mat.TriKind) { return b.r, mat.TriKind(b.upper) }
func (b *basicTri) TTri() mat.Triangular         { return mat.TransposeTri{Triangular: b} }
func (b *basicTri) T() mat.Matrix                { return mat.Transpose{Matrix: b} }

// rawGen is a user type that offers RawMatrix: mat lifts it to *Dense.
type rawGen struct{ d *mat.Dense }

func (w rawGen) Dims() (int, int)          { return w.d.Dims() }
func (w rawGen) At(i, j int) float64       { return w.d.At(i, j) }
func (w rawGen) T() mat.Matrix             { return mat.Transpose{Matrix: w} }
func (w rawGen) RawMatrix() blas64.General { return w.d.RawMatrix() }

// rawSym offers RawSymmetric (upper storage).
type rawSym struct{ s *mat.SymDense }

func (w rawSym) Dims() (int, int)               { return w.s.Dims() }
func (w rawSym) At(i, j int) float64            { return w.s.At(i, j) }
func (w rawSym) T() mat.Matrix                  { return w }
func (w rawSym) SymmetricDim() int              { return w.s.SymmetricDim() }
func (w rawSym) RawSymmetric() blas64.Symmetric { return w.s.RawSymmetric() }

// rawTri offers RawTriangular (non-unit).
type rawTri struct{ t *mat.TriDense }

func (w rawTri) Dims() (int, int)                 { return w.t.Dims() }
func (w rawTri) At(i, j int) float64              { return w.t.At(i, j) }
func (w rawTri) T() mat.Matrix                    { return mat.Transpose{Matrix: w} }
func (w rawTri) Triangle() (int, mat.TriKind)     { return w.t.Triangle() }
func (w rawTri) TTri() mat.Triangular             { return mat.TransposeTri{Triangular: w} }
func (w rawTri) RawTriangular() blas64.Triangular { return w.t.RawTriangular() }

// rawVec offers RawVector.
type rawVec struct{ v *mat.VecDense }

func (w rawVec) Dims() (int, int)         { return w.v.Dims() }
func (w rawVec) At(i, j int) float64      { return w.v.At(i, j) }
func (w rawVec) T() mat.Matrix            { return mat.Transpose{Matrix: w} }
func (w rawVec) AtVec(i int) float64      { return w.v.AtVec(i) }
func (w rawVec) Len() int                 { return w.v.Len() }
func (w rawVec) RawVector() blas64.Vector { return w.v.RawVector() }

// rawBand offers RawBand.
type rawBand struct{ b *mat.BandDense }

func (w rawBand) Dims() (int, int)      { return w.b.Dims() }
func (w rawBand) At(i, j int) float64   { return w.b.At(i, j) }
func (w rawBand) T() mat.Matrix         { return mat.Transpose{Matrix: w} }
func (w rawBand) Bandwidth() (int, int) { return w.b.Bandwidth() }
func (w rawBand) TBand() mat.Banded     { return mat.TransposeBand{Banded: w} }
func (w rawBand) RawBand() blas64.Band  { return w.b.RawBand() }

// rawSymBand offers RawSymBand (upper storage).
type rawSymBand struct{ s *mat.SymBandDense }

func (w rawSymBand) Dims() (int, int)                 { return w.s.Dims() }
func (w rawSymBand) At(i, j int) float64              { return w.s.At(i, j) }
func (w rawSymBand) T() mat.Matrix                    { return w }
func (w rawSymBand) SymmetricDim() int                { return w.s.SymmetricDim() }
func (w rawSymBand) Bandwidth() (int, int)            { return w.s.Bandwidth() }
func (w rawSymBand) TBand() mat.Banded                { return w }
func (w rawSymBand) SymBand() (int, int)              { return w.s.SymBand() }
func (w rawSymBand) RawSymBand() blas64.SymmetricBand { return w.s.RawSymBand() }

// rawTriBand offers RawTriBand (non-unit).
type rawTriBand struct{ t *mat.TriBandDense }

func (w rawTriBand) Dims() (int, int)                  { return w.t.Dims() }
func (w rawTriBand) At(i, j int) float64               { return w.t.At(i, j) }
func (w rawTriBand) T() mat.Matrix                     { return mat.Transpose{Matrix: w} }
func (w rawTriBand) Triangle() (int, mat.TriKind)      { return w.t.Triangle() }
func (w rawTriBand) TTri() mat.Triangular              { return mat.TransposeTri{Triangular: w} }
func (w rawTriBand) Bandwidth() (int, int)             { return w.t.Bandwidth() }
func (w rawTriBand) TBand() mat.Banded                 { return mat.TransposeBand{Banded: w} }
func (w rawTriBand) TriBand() (int, int, mat.TriKind)  { return w.t.TriBand() }
func (w rawTriBand) TTriBand() mat.TriBanded           { return mat.TransposeTriBand{TriBanded: w} }
func (w rawTriBand) RawTriBand() blas64.TriangularBand { return w.t.RawTriBand() }

// rawTridiag offers RawTridiagonal.
type rawTridiag struct{ a *mat.Tridiag }

func (w rawTridiag) Dims() (int, int)                     { return w.a.Dims() }
func (w rawTridiag) At(i, j int) float64                  { return w.a.At(i, j) }
func (w rawTridiag) T() mat.Matrix                        { return mat.Transpose{Matrix: w} }
func (w rawTridiag) Bandwidth() (int, int)                { return w.a.Bandwidth() }
func (w rawTridiag) TBand() mat.Banded                    { return mat.TransposeBand{Banded: w} }
func (w rawTridiag) RawTridiagonal() lapack64.Tridiagonal { return w.a.RawTridiagonal() }

// ---- structures -----------------------------------------------------------

func stFull(r, c int) *structure {
	return newStructure(r, c, func(i, j int) bool { return true }, false)
}
func stSquare(f func(n int) *structure) func(r, c int) *structure {
	return func(r, c int) *structure {
		if r != c {
			return nil
		}
		return f(r)
	}
}
func stSym(n int) *structure {
	return newStructure(n, n, func(i, j int) bool { return true }, true)
}
func stUpper(n int) *structure {
	return newStructure(n, n, func(i, j int) bool { return i <= j }, false)
}
func stLower(n int) *structure {
	return newStructure(n, n, func(i, j int) bool { return i >= j }, false)
}
func stBand(r, c, kl, ku int) *structure {
	return newStructure(r, c, func(i, j int) bool { return j-i <= ku && i-j <= kl }, false)
}
func stSymBand(n, k int) *structure {
	return newStructure(n, n, func(i, j int) bool { return j-i <= k && i-j <= k }, true)
}
func stDiag(n int) *structure { return stBand(n, n, 0, 0) }
func stCol(r, c int) *structure {
	if c != 1 {
		return nil
	}
	return stFull(r, 1)
}

// ---- builders -------------------------------------------------------------

func buildDense(M matrix) *operand {
	r, c := dimsOf(M)
	d := make([]float64, r*c)
	for i := 0; i < r; i++ {
		copy(d[i*c:], M[i])
	}
	return (&operand{kind: "dense", m: mat.NewDense(r, c, d), val: M, bufs: [][]float64{d}}).seal()
}

// denseViewOf returns an r×c view at offset (1,2) of a poisoned (r+2)×(c+3) matrix.
func denseViewOf(M matrix) (*mat.Dense, []float64) {
	r, c := dimsOf(M)
	back := poisoned((r + 2) * (c + 3))
	v := mat.NewDense(r+2, c+3, back).Slice(1, 1+r, 2, 2+c).(*mat.Dense)
	for i := 0; i < r; i++ {
		for j := 0; j < c; j++ {
			v.Set(i, j, M[i][j])
		}
	}
	return v, back
}

func buildDenseView(M matrix) *operand {
	v, back := denseViewOf(M)
	return (&operand{kind: "denseView", m: v, val: M, bufs: [][]float64{back}}).seal()
}

func flat(M matrix) []float64 {
	r, c := dimsOf(M)
	d := make([]float64, 0, r*c)
	for i := 0; i < r; i++ {
		d = append(d, M[i]...)
	}
	return d
}

func buildBasic(M matrix) *operand {
	r, c := dimsOf(M)
	d := flat(M)
	return (&operand{kind: "basic", m: &basic{r, c, d}, val: M, bufs: [][]float64{d}}).seal()
}

func buildRawGen(M matrix) *operand {
	v, back := denseViewOf(M)
	return (&operand{kind: "rawGen", m: rawGen{v}, val: M, bufs: [][]float64{back}}).seal()
}

func symOf(M matrix, view bool) (*mat.SymDense, []float64) {
	n := len(M)
	var s *mat.SymDense
	var back []float64
	if view {
		back = poisoned((n + 2) * (n + 2))
		s = mat.NewSymDense(n+2, back).SliceSym(1, 1+n).(*mat.SymDense)
	} else {
		back = poisoned(n * n)
		s = mat.NewSymDense(n, back)
	}
	for i := 0; i < n; i++ {
		for j := i; j < n; j++ {
			s.SetSym(i, j, M[i][j])
		}
	}
	return s, back
}

func buildSym(view bool) func(M matrix) *operand {
	return func(M matrix) *operand {
		s, back := symOf(M, view)
		return (&operand{m: s, val: M, bufs: [][]float64{back}}).seal()
	}
}

func buildRawSym(M matrix) *operand {
	s, back := symOf(M, true)
	return (&operand{m: rawSym{s}, val: M, bufs: [][]float64{back}}).seal()
}

func buildBasicSym(M matrix) *operand {
	n := len(M)
	d := flat(M)
	return (&operand{m: &basicSym{basic{n, n, d}}, val: M, bufs: [][]float64{d}}).seal()
}

func triOf(M matrix, upper, view bool) (*mat.TriDense, []float64) {
	n := len(M)
	var t *mat.TriDense
	var back []float64
	if view {
		back = poisoned((n + 2) * (n + 2))
		t = mat.NewTriDense(n+2, mat.TriKind(upper), back).SliceTri(1, 1+n).(*mat.TriDense)
	} else {
		back = poisoned(n * n)
		t = mat.NewTriDense(n, mat.TriKind(upper), back)
	}
	for i := 0; i < n; i++ {
		for j := 0; j < n; j++ {
			if (upper && i <= j) || (!upper && i >= j) {
				t.SetTri(i, j, M[i][j])
			}
		}
	}
	return t, back
}

func buildTri(upper, view bool) func(M matrix) *operand {
	return func(M matrix) *operand {
		t, back := triOf(M, upper, view)
		return (&operand{m: t, val: M, bufs: [][]float64{back}}).seal()
	}
}

func buildRawTri(upper bool) func(M matrix) *operand {
	return func(M matrix) *operand {
		t, back := triOf(M, upper, true)
		return (&operand{m: rawTri{t}, val: M, bufs: [][]float64{back}}).seal()
	}
}

func buildBasicTri(upper bool) func(M matrix) *operand {
	return func(M matrix) *operand {
		n := len(M)
		d := flat(M)
		return (&operand{m: &basicTri{basic{n, n, d}, upper}, val: M, bufs: [][]float64{d}}).seal()
	}
}

// bandSpec gives the bandwidths a band kind uses for an r×c matrix.
type bandSpec func(r, c int) (kl, ku int)

func bandOf(M matrix, kl, ku int, extraStride int) (*mat.BandDense, []float64) {
	r, c := dimsOf(M)
	rows := min(r, c+kl)
	stride := kl + ku + 1 + extraStride
	back := poisoned(rows * stride)
	var b *mat.BandDense
	if extraStride == 0 {
		b = mat.NewBandDense(r, c, kl, ku, back)
	} else {
		b = &mat.BandDense{}
		b.SetRawBand(blas64.Band{Rows: r, Cols: c, KL: kl, KU: ku, Stride: stride, Data: back})
	}
	for i := 0; i < r; i++ {
		for j := max(0, i-kl); j < min(c, i+ku+1); j++ {
			b.SetBand(i, j, M[i][j])
		}
	}
	return b, back
}

func buildBand(spec bandSpec, extraStride int, raw bool) func(M matrix) *operand {
	return func(M matrix) *operand {
		r, c := dimsOf(M)
		kl, ku := spec(r, c)
		b, back := bandOf(M, kl, ku, extraStride)
		var m mat.Matrix = b
		if raw {
			m = rawBand{b}
		}
		return (&operand{m: m, val: M, bufs: [][]float64{back}}).seal()
	}
}

func buildSymBand(kf func(n int) int) func(M matrix) *operand { return buildSymBandX(kf, 0, false) }

// buildSymBandX: extra > 0 gives band storage with Stride = k+1+extra (SetRawSymBand, a window of a wider band
// buffer); raw wraps the matrix in a user type that only exposes RawSymBand.
func buildSymBandX(kf func(n int) int, extra int, raw bool) func(M matrix) *operand {
	return func(M matrix) *operand {
		n := len(M)
		k := kf(n)
		back := poisoned(n * (k + 1 + extra))
		var s *mat.SymBandDense
		if extra == 0 {
			s = mat.NewSymBandDense(n, k, back)
		} else {
			s = &mat.SymBandDense{}
			s.SetRawSymBand(blas64.SymmetricBand{N: n, K: k, Stride: k + 1 + extra, Uplo: blas.Upper, Data: back})
		}
		for i := 0; i < n; i++ {
			for j := i; j < min(n, i+k+1); j++ {
				s.SetSymBand(i, j, M[i][j])
			}
		}
		var m mat.Matrix = s
		if raw {
			m = rawSymBand{s}
		}
		return (&operand{m: m, val: M, bufs: [][]float64{back}}).seal()
	}
}

func buildTriBand(upper bool, kf func(n int) int) func(M matrix) *operand {
	return buildTriBandX(upper, kf, 0, false)
}

// buildTriBandX: extra > 0 gives Stride = k+1+extra through SetRawTriBand; raw wraps in a user RawTriBand type.
func buildTriBandX(upper bool, kf func(n int) int, extra int, raw bool) func(M matrix) *operand {
	return func(M matrix) *operand {
		n := len(M)
		k := kf(n)
		back := poisoned(n * (k + 1 + extra))
		var t *mat.TriBandDense
		if extra == 0 {
			t = mat.NewTriBandDense(n, k, mat.TriKind(upper), back)
		} else {
			uplo := blas.Lower
			if upper {
				uplo = blas.Upper
			}
			t = &mat.TriBandDense{}
			t.SetRawTriBand(blas64.TriangularBand{N: n, K: k, Stride: k + 1 + extra, Uplo: uplo, Diag: blas.NonUnit, Data: back})
		}
		for i := 0; i < n; i++ {
			for j := 0; j < n; j++ {
				if (upper && j >= i && j-i <= k) || (!upper && i >= j && i-j <= k) {
					t.SetTriBand(i, j, M[i][j])
				}
			}
		}
		var m mat.Matrix = t
		if raw {
			m = rawTriBand{t}
		}
		return (&operand{m: m, val: M, bufs: [][]float64{back}}).seal()
	}
}

func buildDiag(inc bool) func(M matrix) *operand {
	return func(M matrix) *operand {
		n := len(M)
		if !inc {
			d := make([]float64, n)
			for i := range d {
				d[i] = M[i][i]
			}
			return (&operand{m: mat.NewDiagDense(n, d), val: M, bufs: [][]float64{d}}).seal()
		}
		// The diagonal of a window of a poisoned matrix: increment stride+1.
		back := poisoned((n + 1) * (n + 2))
		dv := mat.NewDense(n+1, n+2, back).Slice(0, n, 1, 1+n).(*mat.Dense).DiagView().(*mat.DiagDense)
		for i := 0; i < n; i++ {
			dv.SetDiag(i, M[i][i])
		}
		return (&operand{m: dv, val: M, bufs: [][]float64{back}}).seal()
	}
}

func buildTridiag(M matrix) *operand {
	n := len(M)
	d := make([]float64, n)
	var dl, du []float64
	if n > 1 {
		dl, du = make([]float64, n-1), make([]float64, n-1)
	}
	for i := 0; i < n; i++ {
		d[i] = M[i][i]
		if i+1 < n {
			du[i] = M[i][i+1]
			dl[i] = M[i+1][i]
		}
	}
	return (&operand{m: mat.NewTridiag(n, dl, d, du), val: M, bufs: [][]float64{dl, d, du}}).seal()
}

func buildRawTridiag(M matrix) *operand {
	o := buildTridiag(M)
	o.m = rawTridiag{o.m.(*mat.Tridiag)}
	return o.seal()
}

func buildVec(how string) func(M matrix) *operand {
	return func(M matrix) *operand {
		n := len(M)
		var v *mat.VecDense
		var back []float64
		switch how {
		case "vec", "rawVec":
			back = make([]float64, n)
			v = mat.NewVecDense(n, back)
		case "vecInc": // column 1 of a poisoned n×3 matrix: inc 3
			back = poisoned(n * 3)
			v = mat.NewDense(n, 3, back).ColView(1).(*mat.VecDense)
		case "vecRow": // row 1 of a window of a poisoned 3×(n+2) matrix: inc 1 inside a larger array
			back = poisoned(3 * (n + 2))
			v = mat.NewDense(3, n+2, back).Slice(0, 3, 1, 1+n).(*mat.Dense).RowView(1).(*mat.VecDense)
		case "vecRawLong": // SetRawVector with more data than (N-1)*Inc+1, as BLAS vectors allow
			back = poisoned(n + 3)
			v = &mat.VecDense{}
			v.SetRawVector(blas64.Vector{N: n, Inc: 1, Data: back})
		}
		for i := 0; i < n; i++ {
			v.SetVec(i, M[i][0])
		}
		var m mat.Matrix = v
		if how == "rawVec" {
			m = rawVec{v}
		}
		return (&operand{m: m, val: M, bufs: [][]float64{back}}).seal()
	}
}

func buildBasicVec(M matrix) *operand {
	n := len(M)
	d := flat(M)
	return (&operand{m: &basicVec{basic{n, 1, d}}, val: M, bufs: [][]float64{d}}).seal()
}

// ---- factorizations as matrices --------------------------------------------

// genCholesky returns UᵀU for an integer upper (band) U with diagonal in {1,2}:
// the factorization and Cholesky.At are then exact.
func genCholesky(kf func(n int) int) func(r, c, seed int, fam family) matrix {
	return func(n, _ int, seed int, fam family) matrix {
		k := kf(n)
		u := newMatrix(n, n)
		for i := 0; i < n; i++ {
			for j := i; j < min(n, i+k+1); j++ {
				if i == j {
					u[i][j] = float64(1 + hash(i, j, seed)&1)
				} else {
					u[i][j] = float64(hash(i, j, seed)%3 - 1)
				}
			}
		}
		a := newMatrix(n, n)
		for i := 0; i < n; i++ {
			for j := 0; j < n; j++ {
				for l := 0; l < n; l++ {
					a[i][j] += u[l][i] * u[l][j]
				}
			}
		}
		return a
	}
}

func buildCholesky(M matrix) *operand {
	s, back := symOf(M, false)
	var ch mat.Cholesky
	if !ch.Factorize(s) {
		panic("c04: Cholesky family is not positive definite")
	}
	return (&operand{m: &ch, val: M, bufs: [][]float64{back}}).seal()
}

func buildBandCholesky(kf func(n int) int) func(M matrix) *operand {
	return func(M matrix) *operand {
		sb := buildSymBand(kf)(M)
		var ch mat.BandCholesky
		if !ch.Factorize(sb.m.(mat.SymBanded)) {
			panic("c04: BandCholesky family is not positive definite")
		}
		return (&operand{m: &ch, val: M, bufs: sb.bufs}).seal()
	}
}

// genLU returns P·L·U with L unit lower, |l| = 0 or 1/2, U integer upper with
// non-zero diagonal: partial pivoting is unambiguous and every operation exact.
func genLU(n, _ int, seed int, fam family) matrix {
	l, u := newMatrix(n, n), newMatrix(n, n)
	for i := 0; i < n; i++ {
		for j := 0; j < n; j++ {
			h := hash(i, j, seed+11)
			switch {
			case i == j:
				l[i][j] = 1
				u[i][j] = float64(2 * (1 + h&1))
				if h&2 != 0 {
					u[i][j] = -u[i][j]
				}
			case i > j:
				l[i][j] = float64(h%3-1) / 2
			default:
				u[i][j] = float64(2 * (h%5 - 2))
			}
		}
	}
	a := newMatrix(n, n)
	for i := 0; i < n; i++ {
		pi := (i + seed) % n // row rotation
		for j := 0; j < n; j++ {
			for k := 0; k < n; k++ {
				a[pi][j] += l[i][k] * u[k][j]
			}
		}
	}
	return a
}

func buildLU(M matrix) *operand {
	d := buildDense(M)
	var lu mat.LU
	lu.Factorize(d.m)
	return (&operand{m: &lu, val: M, bufs: d.bufs}).seal()
}

// ---- wrappers ---------------------------------------------------------------

// wrapped derives a kind holding M by representing Mᵀ in base and wrapping it
// in an implicit transpose.
func wrapped(name string, base *kind, wrap func(m mat.Matrix) mat.Matrix) *kind {
	k := &kind{name: name, tier: base.tier}
	k.shape = func(r, c int) *structure {
		s := base.shape(c, r)
		if s == nil {
			return nil
		}
		return s.transposed()
	}
	if base.gen != nil {
		k.gen = func(r, c, seed int, fam family) matrix { return transposeM(base.gen(c, r, seed, fam)) }
	}
	k.build = func(M matrix) *operand {
		o := base.build(transposeM(M))
		o.m = wrap(o.m)
		o.val = M
		return o
	}
	return k
}

// rewrapped derives a kind holding M itself under a double transpose.
func rewrapped(name string, base *kind) *kind {
	k := *base
	k.name = name
	k.build = func(M matrix) *operand {
		o := base.build(M)
		o.m = mat.Transpose{Matrix: mat.Transpose{Matrix: o.m}}
		return o
	}
	return &k
}

func wT(m mat.Matrix) mat.Matrix         { return m.T() }
func wTranspose(m mat.Matrix) mat.Matrix { return mat.Transpose{Matrix: m} }
func wTTri(m mat.Matrix) mat.Matrix      { return m.(mat.Triangular).TTri() }
func wTBand(m mat.Matrix) mat.Matrix     { return m.(mat.Banded).TBand() }
func wTransposeBand(m mat.Matrix) mat.Matrix {
	return mat.TransposeBand{Banded: m.(mat.Banded)}
}
func wTTriBand(m mat.Matrix) mat.Matrix { return m.(mat.TriBanded).TTriBand() }
func wTVec(m mat.Matrix) mat.Matrix     { return mat.TransposeVec{Vector: m.(mat.Vector)} }

// ---- the zoo ----------------------------------------------------------------

func k1(n int) int    { return min(1, n-1) }
func k2(n int) int    { return min(2, n-1) }
func kFull(n int) int { return n - 1 }
func k0(n int) int    { return 0 }

var (
	specBand00   bandSpec = func(r, c int) (int, int) { return 0, 0 }
	specBand10   bandSpec = func(r, c int) (int, int) { return min(1, r-1), 0 }
	specBand02   bandSpec = func(r, c int) (int, int) { return 0, min(2, c-1) }
	specBand12   bandSpec = func(r, c int) (int, int) { return min(1, r-1), min(2, c-1) }
	specBandFull bandSpec = func(r, c int) (int, int) { return r - 1, c - 1 }
)

func bandShape(spec bandSpec) func(r, c int) *structure {
	return func(r, c int) *structure {
		kl, ku := spec(r, c)
		return stBand(r, c, kl, ku)
	}
}

func symBandShape(kf func(n int) int) func(r, c int) *structure {
	return stSquare(func(n int) *structure { return stSymBand(n, kf(n)) })
}

func triBandShape(upper bool, kf func(n int) int) func(r, c int) *structure {
	return stSquare(func(n int) *structure {
		if upper {
			return stBand(n, n, 0, kf(n))
		}
		return stBand(n, n, kf(n), 0)
	})
}

var zoo []*kind
var zooByName = map[string]*kind{}

func addKind(k *kind) *kind {
	if _, dup := zooByName[k.name]; dup {
		panic("c04: duplicate kind " + k.name)
	}
	b := k.build
	name := k.name
	k.build = func(M matrix) *operand {
		o := b(M)
		o.kind = name
		return o
	}
	zoo = append(zoo, k)
	zooByName[k.name] = k
	return k
}

func init() {
	core := func(k *kind) *kind { k.core = true; return k }
	slow := func(k *kind) *kind { k.tier = 1; return k }

	// general shapes
	dense := core(addKind(&kind{name: "Dense", shape: stFull, build: buildDense}))
	denseView := core(addKind(&kind{name: "DenseView", shape: stFull, build: buildDenseView}))
	bas := core(addKind(&kind{name: "basic", shape: stFull, build: buildBasic}))
	rawg := addKind(&kind{name: "rawGen", shape: stFull, build: buildRawGen})
	core(addKind(wrapped("T(Dense)", dense, wT)))
	core(addKind(wrapped("T(DenseView)", denseView, wT)))
	addKind(wrapped("T(basic)", bas, wT))
	addKind(wrapped("T(rawGen)", rawg, wT))
	addKind(rewrapped("TT(Dense)", dense))

	band00 := addKind(&kind{name: "Band(0,0)", shape: bandShape(specBand00), build: buildBand(specBand00, 0, false)})
	band10 := addKind(&kind{name: "Band(1,0)", shape: bandShape(specBand10), build: buildBand(specBand10, 0, false)})
	slow(addKind(&kind{name: "Band(0,2)", shape: bandShape(specBand02), build: buildBand(specBand02, 0, false)}))
	band12 := core(addKind(&kind{name: "Band(1,2)", shape: bandShape(specBand12), build: buildBand(specBand12, 0, false)}))
	bandFull := addKind(&kind{name: "Band(full)", shape: bandShape(specBandFull), build: buildBand(specBandFull, 0, false)})
	addKind(&kind{name: "BandStride(1,2)", shape: bandShape(specBand12), build: buildBand(specBand12, 2, false)})
	rawBand12 := addKind(&kind{name: "rawBand(1,2)", shape: bandShape(specBand12), build: buildBand(specBand12, 0, true)})
	addKind(wrapped("T(rawBand(1,2))", rawBand12, wT))
	core(addKind(wrapped("T(Band(1,2))", band12, wT)))
	addKind(wrapped("TBand(Band(1,2))", band12, wTBand))
	addKind(wrapped("TBand(Band(1,0))", band10, wTBand))
	slow(addKind(wrapped("T(Band(full))", bandFull, wT)))
	slow(addKind(wrapped("TBand(Band(0,0))", band00, wTBand)))

	// symmetric
	sym := core(addKind(&kind{name: "Sym", shape: stSquare(stSym), build: buildSym(false)}))
	addKind(&kind{name: "SymView", shape: stSquare(stSym), build: buildSym(true)})
	addKind(&kind{name: "rawSym", shape: stSquare(stSym), build: buildRawSym})
	addKind(&kind{name: "basicSym", shape: stSquare(stSym), build: buildBasicSym})
	addKind(wrapped("Transpose{Sym}", sym, wTranspose))

	// triangular
	triU := core(addKind(&kind{name: "TriU", shape: stSquare(stUpper), build: buildTri(true, false)}))
	triL := core(addKind(&kind{name: "TriL", shape: stSquare(stLower), build: buildTri(false, false)}))
	triUV := addKind(&kind{name: "TriUView", shape: stSquare(stUpper), build: buildTri(true, true)})
	addKind(&kind{name: "TriLView", shape: stSquare(stLower), build: buildTri(false, true)})
	rawTriU := addKind(&kind{name: "rawTriU", shape: stSquare(stUpper), build: buildRawTri(true)})
	addKind(wrapped("T(rawTriU)", rawTriU, wT))
	slow(addKind(&kind{name: "rawTriL", shape: stSquare(stLower), build: buildRawTri(false)}))
	addKind(&kind{name: "basicTriL", shape: stSquare(stLower), build: buildBasicTri(false)})
	core(addKind(wrapped("T(TriU)", triU, wT)))
	addKind(wrapped("T(TriL)", triL, wT))
	addKind(wrapped("TTri(TriU)", triU, wTTri))
	addKind(wrapped("TTri(TriL)", triL, wTTri))
	slow(addKind(wrapped("T(TriUView)", triUV, wT)))

	// symmetric band
	addKind(&kind{name: "SymBand(0)", shape: symBandShape(k0), build: buildSymBand(k0)})
	sb1 := core(addKind(&kind{name: "SymBand(1)", shape: symBandShape(k1), build: buildSymBand(k1)}))
	addKind(&kind{name: "SymBand(full)", shape: symBandShape(kFull), build: buildSymBand(kFull)})
	addKind(wrapped("Transpose{SymBand(1)}", sb1, wTranspose))
	// band storage with Stride > K+1 (a window of a wider band buffer) and user types exposing only the Raw method
	addKind(&kind{name: "SymBandStride(1)", shape: symBandShape(k1), build: buildSymBandX(k1, 2, false)})
	addKind(&kind{name: "SymBandStride(full)", shape: symBandShape(kFull), build: buildSymBandX(kFull, 1, false)})
	addKind(&kind{name: "rawSymBand(1)", shape: symBandShape(k1), build: buildSymBandX(k1, 2, true)})
	slow(addKind(wrapped("TransposeBand{SymBand(1)}", sb1, wTransposeBand)))

	// triangular band
	tbU1 := core(addKind(&kind{name: "TriBandU(1)", shape: triBandShape(true, k1), build: buildTriBand(true, k1)}))
	tbL1 := core(addKind(&kind{name: "TriBandL(1)", shape: triBandShape(false, k1), build: buildTriBand(false, k1)}))
	tbUF := addKind(&kind{name: "TriBandU(full)", shape: triBandShape(true, kFull), build: buildTriBand(true, kFull)})
	tbL2 := addKind(&kind{name: "TriBandL(2)", shape: triBandShape(false, k2), build: buildTriBand(false, k2)})
	slow(addKind(&kind{name: "TriBandU(0)", shape: triBandShape(true, k0), build: buildTriBand(true, k0)}))
	core(addKind(wrapped("T(TriBandU(1))", tbU1, wT)))
	tbUS := addKind(&kind{name: "TriBandUStride(1)", shape: triBandShape(true, k1), build: buildTriBandX(true, k1, 2, false)})
	tbLS := addKind(&kind{name: "TriBandLStride(1)", shape: triBandShape(false, k1), build: buildTriBandX(false, k1, 2, false)})
	addKind(&kind{name: "TriBandLStride(2)", shape: triBandShape(false, k2), build: buildTriBandX(false, k2, 1, false)})
	slow(addKind(&kind{name: "TriBandUStride(full)", shape: triBandShape(true, kFull), build: buildTriBandX(true, kFull, 3, false)}))
	addKind(wrapped("T(TriBandLStride(1))", tbLS, wT))
	addKind(wrapped("TTriBand(TriBandUStride(1))", tbUS, wTTriBand))
	rawTBL := addKind(&kind{name: "rawTriBandL(1)", shape: triBandShape(false, k1), build: buildTriBandX(false, k1, 2, true)})
	rawTBU := addKind(&kind{name: "rawTriBandU(2)", shape: triBandShape(true, k2), build: buildTriBandX(true, k2, 1, true)})
	addKind(wrapped("T(rawTriBandL(1))", rawTBL, wT))
	slow(addKind(wrapped("TTriBand(rawTriBandU(2))", rawTBU, wTTriBand)))
	addKind(wrapped("T(TriBandL(1))", tbL1, wT))
	addKind(wrapped("TTri(TriBandU(1))", tbU1, wTTri))
	addKind(wrapped("TBand(TriBandL(1))", tbL1, wTBand))
	addKind(wrapped("TTriBand(TriBandU(1))", tbU1, wTTriBand))
	addKind(wrapped("TTriBand(TriBandL(2))", tbL2, wTTriBand))
	slow(addKind(wrapped("TTriBand(TriBandU(full))", tbUF, wTTriBand)))
	slow(addKind(wrapped("TTri(TriBandL(2))", tbL2, wTTri)))

	// diagonal
	diag := core(addKind(&kind{name: "Diag", shape: stSquare(stDiag), build: buildDiag(false)}))
	diagInc := addKind(&kind{name: "DiagInc", shape: stSquare(stDiag), build: buildDiag(true)})
	addKind(wrapped("TTri(Diag)", diag, wTTri))
	addKind(wrapped("TBand(DiagInc)", diagInc, wTBand))
	addKind(wrapped("TTriBand(Diag)", diag, wTTriBand))
	slow(addKind(wrapped("Transpose{Diag}", diag, wTranspose)))

	// tridiagonal
	tridiag := core(addKind(&kind{name: "Tridiag", shape: stSquare(func(n int) *structure { return stBand(n, n, min(1, n-1), min(1, n-1)) }), build: buildTridiag}))
	core(addKind(wrapped("T(Tridiag)", tridiag, wT)))
	addKind(wrapped("TBand(Tridiag)", tridiag, wTBand))
	rawTd := addKind(&kind{name: "rawTridiag", shape: tridiag.shape, build: buildRawTridiag})
	addKind(wrapped("T(rawTridiag)", rawTd, wT))

	// factorizations
	addKind(&kind{name: "Cholesky", shape: stSquare(stSym), gen: genCholesky(kFull), build: buildCholesky})
	addKind(&kind{name: "BandCholesky(1)", shape: symBandShape(k1), gen: genCholesky(k1), build: buildBandCholesky(k1)})
	lu := addKind(&kind{name: "LU", shape: stSquare(func(n int) *structure { return stFull(n, n) }), gen: genLU, build: buildLU})
	slow(addKind(wrapped("T(LU)", lu, wT)))

	// vectors
	vec := core(addKind(&kind{name: "Vec", shape: stCol, build: buildVec("vec")}))
	vecInc := core(addKind(&kind{name: "VecInc", shape: stCol, build: buildVec("vecInc")}))
	addKind(&kind{name: "VecRow", shape: stCol, build: buildVec("vecRow")})
	bvec := addKind(&kind{name: "basicVec", shape: stCol, build: buildBasicVec})
	addKind(&kind{name: "rawVec", shape: stCol, build: buildVec("rawVec")})
	core(addKind(wrapped("T(Vec)", vec, wT)))
	addKind(wrapped("T(VecInc)", vecInc, wT))
	addKind(wrapped("TVec(Vec)", vec, wTVec))
	core(addKind(wrapped("TVec(VecInc)", vecInc, wTVec)))
	addKind(wrapped("TVec(basicVec)", bvec, wTVec))
	slow(addKind(rewrapped("TT(Vec)", vec)))
	slow(addKind(wrapped("Transpose{TVec(Vec)}", wrapped("tmp", vec, wTVec), wTranspose)))
}

// kinds returns the kinds enabled in the tier, optionally only the core ones.
func kinds(g *vlib.G, coreOnly bool) []*kind {
	var ks []*kind
	for _, k := range zoo {
		if k.tier > 0 && !g.Thorough() {
			continue
		}
		if coreOnly && !k.core {
			continue
		}
		ks = append(ks, k)
	}
	return ks
}

// kindsWhere filters by a predicate on a probe operand (which interfaces the representation implements).
func kindsWhere(ks []*kind, pred func(m mat.Matrix) bool) []*kind {
	var out []*kind
	for _, k := range ks {
		var probe *operand
		for n := 1; n <= 3 && probe == nil; n++ {
			if probe = k.make(n, n, 0, famDomDiag); probe == nil {
				if probe = k.make(n, 1, 0, famDomDiag); probe == nil {
					probe = k.make(1, n, 0, famDomDiag)
				}
			}
		}
		if probe != nil && pred(probe.m) {
			out = append(out, k)
		}
	}
	return out
}

var _ = blas.Upper
