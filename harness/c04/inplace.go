package main

// In-place use of the "To" methods of the banded, tridiagonal and triangular
// types: dst is the very object that is also passed as the vector / right-hand
// side (directly or under TVec() / T()). The implementations special-case this
// (a private copy of x, `dst == bU`), and that special case must not depend on
// how dst is represented: compact, strided column view, row view inside a larger
// matrix, slice of a longer vector, packed Dense or a window with stride > cols.
// (Aliasing of the receivers of Dense/VecDense/SymDense/TriDense methods is C05;
// the To methods of the band types are not covered there.)

import (
	"fmt"
	"math"

	"gonum.org/v1/gonum/internal/verif/vlib"
	"gonum.org/v1/gonum/mat"
)

// vecObj is a VecDense holding given values in one of several storage layouts over poison.
type vecObj struct {
	v    *mat.VecDense
	back []float64
	at   []int // backing index of element i
}

var vecLayouts = []string{"compact", "colview-inc3", "rowview", "slice-of-longer", "slice-of-colview"}

func newVecObj(layout string, vals []float64) *vecObj {
	n := len(vals)
	o := &vecObj{at: make([]int, n)}
	switch layout {
	case "compact":
		o.back = rpoisoned(n)
		o.v = mat.NewVecDense(n, o.back)
		for i := range o.at {
			o.at[i] = i
		}
	case "colview-inc3":
		o.back = rpoisoned(n * 3)
		o.v = mat.NewDense(n, 3, o.back).ColView(1).(*mat.VecDense)
		for i := range o.at {
			o.at[i] = 3*i + 1
		}
	case "rowview":
		o.back = rpoisoned(3 * (n + 2))
		o.v = mat.NewDense(3, n+2, o.back).Slice(0, 3, 1, 1+n).(*mat.Dense).RowView(1).(*mat.VecDense)
		for i := range o.at {
			o.at[i] = (n + 2) + 1 + i
		}
	case "slice-of-longer":
		o.back = rpoisoned(n + 3)
		o.v = mat.NewVecDense(n+3, o.back).SliceVec(1, 1+n).(*mat.VecDense)
		for i := range o.at {
			o.at[i] = 1 + i
		}
	case "slice-of-colview":
		o.back = rpoisoned((n + 2) * 2)
		o.v = mat.NewDense(n+2, 2, o.back).ColView(0).(*mat.VecDense).SliceVec(1, 1+n).(*mat.VecDense)
		for i := range o.at {
			o.at[i] = 2 * (1 + i)
		}
	}
	for i, x := range vals {
		o.v.SetVec(i, x)
	}
	return o
}

// check compares the elements with want and every other backing cell with its poison.
func (o *vecObj) check(want []float64, tol float64) string {
	if o.v.Len() != len(want) {
		return fmt.Sprintf("length changed to %d", o.v.Len())
	}
	own := map[int]bool{}
	for i, k := range o.at {
		own[k] = true
		got := o.back[k]
		if at := o.v.AtVec(i); math.Float64bits(at) != math.Float64bits(got) {
			return fmt.Sprintf("AtVec(%d)=%v differs from the backing cell %v (the vector was re-headered)", i, at, got)
		}
		if tol == 0 {
			if !eqVal(got, want[i]) {
				return fmt.Sprintf("element %d = %s, want %v", i, vlib.B64(got), want[i])
			}
		} else if isPoison(got) || !(math.Abs(got-want[i]) <= tol) {
			return fmt.Sprintf("element %d = %s, want %v ± %.3g", i, vlib.B64(got), want[i], tol)
		}
	}
	for k, x := range o.back {
		if !own[k] && math.Float64bits(x) != math.Float64bits(rpoison(k)) {
			return fmt.Sprintf("cell %d outside the vector's elements was written (%s)", k, vlib.B64(x))
		}
	}
	return ""
}

// denseObj is a Dense holding given values packed or as a window of a poisoned larger matrix.
type denseObj struct {
	m    *mat.Dense
	back []float64
	off  int
	ld   int
}

var denseLayouts = []string{"packed", "window"}

func newDenseObj(layout string, M matrix) *denseObj {
	r, c := dimsOf(M)
	o := &denseObj{}
	if layout == "packed" {
		o.back, o.ld = rpoisoned(r*c), c
		o.m = mat.NewDense(r, c, o.back)
	} else {
		o.ld = c + 4
		o.back = rpoisoned((r + 2) * o.ld)
		o.m = mat.NewDense(r+2, o.ld, o.back).Slice(1, 1+r, 3, 3+c).(*mat.Dense)
		o.off = o.ld + 3
	}
	for i := 0; i < r; i++ {
		for j := 0; j < c; j++ {
			o.m.Set(i, j, M[i][j])
		}
	}
	return o
}

func (o *denseObj) check(want matrix, tol tolFn) string {
	r, c := dimsOf(want)
	d := &denseRecv{state: "view", m: o.m, back: o.back, r: r, c: c, off: o.off, ld: o.ld}
	return d.check(want, tol)
}

func genInPlace(g *vlib.G) {
	all := kinds(g, false)
	n := dimMax(g)

	// ---- MulVecTo(dst, trans, x) with x the same object as dst ----------------------------------
	for _, ka := range kindsWhere(all, hasMulVecTo) {
		ka := ka
		for _, layout := range vecLayouts {
			layout := layout
			g.Case(fmt.Sprintf("MulVecTo in place a=%s dst=%s", ka.name, layout), func(t *vlib.T) {
				var v verdict
				for l := 1; l <= n+1; l++ {
					a := ka.make(l, l, 1, famMixed)
					if a == nil {
						continue
					}
					for _, trans := range []bool{false, true} {
						for _, how := range []string{"dst", "TVec(dst)"} {
							x0 := make([]float64, l)
							for i := range x0 {
								x0[i] = value(famNonzero, i, 0, 2)
							}
							xm := newMatrix(l, 1)
							for i := range x0 {
								xm[i][0] = x0[i]
							}
							want := colOf(mulM(maybeT(a.val, trans), xm))
							o := newVecObj(layout, x0)
							var x mat.Vector = o.v
							if how == "TVec(dst)" {
								x = o.v.TVec()
							}
							tag := fmt.Sprintf("%s(n=%d).MulVecTo(dst, %v, %s) dst=%s", ka.name, l, trans, how, layout)
							v.calls++
							if p, pv := mustPanic(func() { a.m.(mulVecToer).MulVecTo(o.v, trans, x) }); p {
								t.Failf("%s: unexpected panic %s", tag, panicString(pv))
								continue
							}
							if msg := o.check(want, 0); msg != "" {
								t.Failf("%s: %s", tag, msg)
							} else {
								v.add("ok")
							}
							checkOperands(t, tag, []*operand{a})
						}
					}
				}
				v.finish(t, "MulVecTo in place/"+layout)
			})
		}
	}

	// ---- SolveVecTo(dst, trans, b) with b the same object as dst ----------------------------------
	for _, ka := range kindsWhere(all, hasSolveVecTo) {
		ka := ka
		for _, layout := range vecLayouts {
			layout := layout
			g.Case(fmt.Sprintf("SolveVecTo in place a=%s dst=%s", ka.name, layout), func(t *vlib.T) {
				var v verdict
				for l := 1; l <= n+1; l++ {
					for _, fam := range []family{famTriUnit, famDomDiag} {
						a := ka.make(l, l, 1, fam)
						if a == nil {
							continue
						}
						for _, trans := range []bool{false, true} {
							op := maybeT(a.val, trans)
							up, lo := isTriM(op)
							if !(up || lo) && fam == famTriUnit {
								continue
							}
							bm := newMatrix(l, 1)
							for i := range bm {
								bm[i][0] = value(famMixed, i, 0, 2)
							}
							o := newVecObj(layout, colOf(bm))
							tag := fmt.Sprintf("%s(n=%d %v).SolveVecTo(dst, %v, dst) dst=%s", ka.name, l, fam, trans, layout)
							v.calls++
							var err error
							if p, pv := mustPanic(func() { err = a.m.(solveVecToer).SolveVecTo(o.v, trans, o.v) }); p {
								t.Failf("%s: unexpected panic %s", tag, panicString(pv))
								continue
							}
							if err != nil {
								t.Failf("%s: error %v", tag, err)
								continue
							}
							var msg string
							if (up || lo) && fam == famTriUnit {
								msg = o.check(colOf(triSolveM(op, bm)), 0)
							} else {
								got := newMatrix(l, 1)
								for i := range got {
									got[i][0] = o.v.AtVec(i)
								}
								if msg = o.check(colOf(got), 0); msg == "" {
									msg = solveResidual(op, bm, got)
								}
							}
							if msg != "" {
								t.Failf("%s: %s", tag, msg)
							} else {
								v.add("ok")
							}
							checkOperands(t, tag, []*operand{a})
						}
					}
				}
				v.finish(t, "SolveVecTo in place/"+layout)
			})
		}
	}

	// ---- SolveTo(dst, trans, b) with b = dst or dst.T() --------------------------------------------
	for _, ka := range kindsWhere(all, hasSolveTo) {
		ka := ka
		for _, layout := range denseLayouts {
			layout := layout
			g.Case(fmt.Sprintf("SolveTo in place a=%s dst=%s", ka.name, layout), func(t *vlib.T) {
				var v verdict
				for l := 1; l <= n; l++ {
					for nrhs := 1; nrhs <= n; nrhs++ {
						for _, fam := range []family{famTriUnit, famDomDiag} {
							a := ka.make(l, l, 1, fam)
							if a == nil {
								continue
							}
							for _, trans := range []bool{false, true} {
								op := maybeT(a.val, trans)
								up, lo := isTriM(op)
								if !(up || lo) && fam == famTriUnit {
									continue
								}
								for _, how := range []string{"dst", "dst.T()"} {
									if how == "dst.T()" && nrhs != l {
										continue
									}
									D := conform(stFull(l, nrhs), famMixed, 2) // initial contents of dst
									B := D
									if how == "dst.T()" {
										B = transposeM(D)
									}
									o := newDenseObj(layout, D)
									var b mat.Matrix = o.m
									if how == "dst.T()" {
										b = o.m.T()
									}
									tag := fmt.Sprintf("%s(n=%d %v).SolveTo(dst, %v, %s) dst=%s %s", ka.name, l, fam, trans, how, layout, fmtShape(l, nrhs))
									v.calls++
									var err error
									if p, pv := mustPanic(func() { err = a.m.(mat.SolveToer).SolveTo(o.m, trans, b) }); p {
										t.Failf("%s: unexpected panic %s", tag, panicString(pv))
										continue
									}
									if err != nil {
										t.Failf("%s: error %v", tag, err)
										continue
									}
									var msg string
									if (up || lo) && fam == famTriUnit {
										msg = o.check(triSolveM(op, B), nil)
									} else {
										got := mOfDense(o.m)
										if msg = o.check(got, nil); msg == "" {
											msg = solveResidual(op, B, got)
										}
									}
									if msg != "" {
										t.Failf("%s: %s", tag, msg)
									} else {
										v.add("ok")
									}
									checkOperands(t, tag, []*operand{a})
								}
							}
						}
					}
				}
				v.finish(t, "SolveTo in place/"+layout)
			})
		}
	}

	// ---- DiagDense.DiagFrom(d) with the receiver itself (and its wrappers) as the source -------------
	for _, name := range []string{"Diag", "DiagInc"} {
		k := zooByName[name]
		g.Case("DiagFrom in place a="+name, func(t *vlib.T) {
			var v verdict
			for l := 1; l <= n+1; l++ {
				for _, how := range []string{"d", "d.T()", "d.TTri()", "d.TBand()"} {
					o := k.make(l, l, 1, famNonzero)
					d := o.m.(*mat.DiagDense)
					var src mat.Matrix = d
					switch how {
					case "d.T()":
						src = d.T()
					case "d.TTri()":
						src = d.TTri()
					case "d.TBand()":
						src = d.TBand()
					}
					tag := fmt.Sprintf("%s(n=%d).DiagFrom(%s)", name, l, how)
					v.calls++
					if p, pv := mustPanic(func() { d.DiagFrom(src) }); p {
						t.Failf("%s: unexpected panic %s", tag, panicString(pv))
						continue
					}
					for i := 0; i < l; i++ {
						if got := d.At(i, i); !eqVal(got, o.val[i][i]) {
							t.Failf("%s: diagonal element %d = %s want %v", tag, i, vlib.B64(got), o.val[i][i])
						}
					}
					if msg := o.unchanged(); msg != "" { // the values are the same, so the whole backing must be bit-identical
						t.Failf("%s: %s", tag, msg)
					}
					v.add("ok")
				}
			}
			v.finish(t, "DiagFrom in place")
		})
	}
}
