package main

// Receivers that are VIEWS into caller-owned storage with spare capacity behind
// them (RowView, prefix SliceVec, Slice of a larger Dense, SliceSym) combined
// with sources smaller / equal / LARGER than the view, for the clone-, copy- and
// grow-like entry points. Whatever the operation does with the receiver header,
// the parent's cells outside the view must stay bitwise unchanged, and a result
// that had to grow must not alias the parent any more.

import (
	"fmt"
	"math"

	"gonum.org/v1/gonum/internal/verif/vlib"
	"gonum.org/v1/gonum/mat"
)

var viewVecLayouts = []string{"compact", "colview-inc3", "rowview", "slice-of-longer", "slice-of-colview", "prefix-of-longer", "rowview-first"}

func newViewVec(layout string, vals []float64) *vecObj {
	n := len(vals)
	switch layout {
	case "prefix-of-longer":
		o := &vecObj{at: make([]int, n), back: rpoisoned(n + 4)}
		o.v = mat.NewVecDense(n+4, o.back).SliceVec(0, n).(*mat.VecDense)
		for i := range o.at {
			o.at[i] = i
			o.v.SetVec(i, vals[i])
		}
		return o
	case "rowview-first": // row 0 of a 3×n matrix: the capacity runs over the following rows
		o := &vecObj{at: make([]int, n), back: rpoisoned(3 * n)}
		o.v = mat.NewDense(3, n, o.back).RowView(0).(*mat.VecDense)
		for i := range o.at {
			o.at[i] = i
			o.v.SetVec(i, vals[i])
		}
		return o
	}
	return newVecObj(layout, vals)
}

// outsideIntact verifies every backing cell that is not one of the view's own elements.
func (o *vecObj) outsideIntact() string {
	own := map[int]bool{}
	for _, k := range o.at {
		own[k] = true
	}
	for k, x := range o.back {
		if !own[k] && math.Float64bits(x) != math.Float64bits(rpoison(k)) {
			return fmt.Sprintf("parent cell %d outside the view was written (%s)", k, vlib.B64(x))
		}
	}
	return ""
}

func sameBits(a, b []float64) (int, bool) { return vlib.Same64(a, b) }

func genViews(g *vlib.G) {
	all := kinds(g, false)
	vks := kindsWhere(all, isVector)
	n := dimMax(g)

	// ---- VecDense.CloneFromVec and CopyVec into views --------------------------------------------
	for _, layout := range viewVecLayouts {
		layout := layout
		for _, ks := range vks {
			ks := ks
			g.Case(fmt.Sprintf("CloneFromVec/CopyVec recv=%s src=%s", layout, ks.name), func(t *vlib.T) {
				var v verdict
				for l := 1; l <= n; l++ {
					for sl := 1; sl <= l+5; sl++ {
						src := makeVec(ks, sl, 1, famNonzero)
						if src == nil {
							continue
						}
						want := vecVal(src)
						own := make([]float64, l)
						for i := range own {
							own[i] = float64(50 + i)
						}
						// CloneFromVec
						o := newViewVec(layout, own)
						tag := fmt.Sprintf("(%s view of length %d).CloneFromVec(%s of length %d)", layout, l, ks.name, sl)
						v.calls++
						if p, pv := mustPanic(func() { o.v.CloneFromVec(src.m.(mat.Vector)) }); p {
							t.Failf("%s: unexpected panic %s", tag, panicString(pv))
						} else {
							ok := o.v.Len() == sl
							for i := 0; ok && i < sl; i++ {
								ok = eqVal(o.v.AtVec(i), want[i])
							}
							if !ok {
								t.Failf("%s: result %v want %v", tag, mat.Formatted(o.v.T()), want)
							}
							if msg := o.outsideIntact(); msg != "" {
								t.Failf("%s: %s", tag, msg)
							}
							snap := append([]float64(nil), o.back...)
							for i := 0; i < o.v.Len(); i++ {
								o.v.SetVec(i, float64(100+i))
							}
							if msg := o.outsideIntact(); msg != "" {
								t.Failf("%s: the clone still aliases the parent beyond the view: %s", tag, msg)
							}
							if k, same := sameBits(o.back, snap); sl > l && !same {
								t.Failf("%s: the clone had to grow but still aliases the parent (cell %d changed when the clone was written)", tag, k)
							}
							if msg := src.unchanged(); msg != "" {
								t.Failf("%s: %s", tag, msg)
							}
						}
						// CopyVec: never resizes
						o = newViewVec(layout, own)
						tag = fmt.Sprintf("(%s view of length %d).CopyVec(%s of length %d)", layout, l, ks.name, sl)
						v.calls++
						var got int
						if p, pv := mustPanic(func() { got = o.v.CopyVec(src.m.(mat.Vector)) }); p {
							t.Failf("%s: unexpected panic %s", tag, panicString(pv))
							continue
						}
						w := min(l, sl)
						exp := append([]float64(nil), own...)
						copy(exp, want[:w])
						if got != w {
							t.Failf("%s: returned %d want %d", tag, got, w)
						}
						if msg := o.check(exp, 0); msg != "" {
							t.Failf("%s: %s", tag, msg)
						}
						v.add("ok")
					}
				}
				v.finish(t, "view clone/copy vec")
			})
		}
	}

	// ---- Dense.CloneFrom into a window of a larger matrix; Dense.Grow of such a window ----------------
	core := kinds(g, true)
	for _, layout := range []string{"packed", "window", "topleft"} {
		layout := layout
		mk := func(M matrix) *denseObj {
			if layout != "topleft" {
				return newDenseObj(layout, M)
			}
			r, c := dimsOf(M)
			o := &denseObj{ld: c + 2, back: rpoisoned((r + 2) * (c + 2))}
			o.m = mat.NewDense(r+2, c+2, o.back).Slice(0, r, 0, c).(*mat.Dense)
			for i := 0; i < r; i++ {
				for j := 0; j < c; j++ {
					o.m.Set(i, j, M[i][j])
				}
			}
			return o
		}
		inWindow := func(o *denseObj, r, c, k int) bool {
			i, j := (k-o.off)/o.ld, (k-o.off)%o.ld
			return k >= o.off && i < r && j < c
		}
		outside := func(o *denseObj, r, c int) string {
			for k, x := range o.back {
				if !inWindow(o, r, c, k) && math.Float64bits(x) != math.Float64bits(rpoison(k)) {
					return fmt.Sprintf("parent cell %d outside the window was written (%s)", k, vlib.B64(x))
				}
			}
			return ""
		}
		for _, ks := range core {
			ks := ks
			g.Case(fmt.Sprintf("Dense.CloneFrom recv=%s src=%s", layout, ks.name), func(t *vlib.T) {
				var v verdict
				for r := 1; r <= n; r++ {
					for c := 1; c <= n; c++ {
						for sr := max(1, r-1); sr <= r+2; sr++ {
							for sc := max(1, c-1); sc <= c+2; sc++ {
								src := ks.make(sr, sc, 1, famNonzero)
								if src == nil {
									continue
								}
								o := mk(conform(stFull(r, c), famPos, 3))
								tag := fmt.Sprintf("(%s %s).CloneFrom(%s %s)", layout, fmtShape(r, c), ks.name, fmtShape(sr, sc))
								v.calls++
								if p, pv := mustPanic(func() { o.m.CloneFrom(src.m) }); p {
									t.Failf("%s: unexpected panic %s", tag, panicString(pv))
									continue
								}
								if msg := (&denseRecv{state: "zero", m: o.m, r: sr, c: sc}).check(src.val, nil); msg != "" {
									t.Failf("%s: %s", tag, msg)
								}
								if msg := outside(o, r, c); msg != "" {
									t.Failf("%s: %s", tag, msg)
								}
								snap := append([]float64(nil), o.back...)
								for i := 0; i < sr; i++ {
									for j := 0; j < sc; j++ {
										o.m.Set(i, j, 100)
									}
								}
								if k, same := sameBits(o.back, snap); !same {
									t.Failf("%s: the clone aliases the old storage of the receiver (cell %d changed when the clone was written); CloneFrom documents that it does not shadow", tag, k)
								}
								if msg := src.unchanged(); msg != "" {
									t.Failf("%s: %s", tag, msg)
								}
								v.add("ok")
							}
						}
					}
				}
				v.finish(t, "view CloneFrom")
			})
		}
		g.Case("Dense.Grow recv="+layout, func(t *vlib.T) {
			var v verdict
			for r := 1; r <= n; r++ {
				for c := 1; c <= n; c++ {
					for dr := 0; dr <= 3; dr++ {
						for dc := 0; dc <= 3; dc++ {
							M := conform(stFull(r, c), famPos, 3)
							o := mk(M)
							snap := append([]float64(nil), o.back...)
							capR, capC := o.m.Caps()
							tag := fmt.Sprintf("(%s %s caps %s).Grow(%d,%d)", layout, fmtShape(r, c), fmtShape(capR, capC), dr, dc)
							v.calls++
							var gm mat.Matrix
							if p, pv := mustPanic(func() { gm = o.m.Grow(dr, dc) }); p {
								t.Failf("%s: unexpected panic %s", tag, panicString(pv))
								continue
							}
							if gr, gc := gm.Dims(); gr != r+dr || gc != c+dc {
								t.Failf("%s: result is %d×%d want %d×%d", tag, gr, gc, r+dr, c+dc)
								continue
							}
							if rr, rcc := o.m.Dims(); rr != r || rcc != c {
								t.Failf("%s: the receiver itself changed to %d×%d", tag, rr, rcc)
							}
							for i := 0; i < r; i++ {
								for j := 0; j < c; j++ {
									if got := gm.At(i, j); !eqVal(got, M[i][j]) {
										t.Failf("%s: element (%d,%d) = %s want %v", tag, i, j, vlib.B64(got), M[i][j])
									}
								}
							}
							if k, same := sameBits(o.back, snap); !same {
								t.Failf("%s: Grow wrote cell %d of the receiver's storage", tag, k)
							}
							within := r+dr <= capR && c+dc <= capC
							if !within && (dr > 0 || dc > 0) { // documented: a new allocation — must be independent, new cells outside the old capacity zero
								gd := gm.(*mat.Dense)
								for i := 0; i < r+dr; i++ {
									for j := 0; j < c+dc; j++ {
										if (i >= capR || j >= capC) && gd.At(i, j) != 0 {
											t.Failf("%s: new element (%d,%d) = %v, want 0", tag, i, j, gd.At(i, j))
										}
										gd.Set(i, j, 100)
									}
								}
								if k, same := sameBits(o.back, snap); !same {
									t.Failf("%s: the grown matrix needed a new allocation but aliases the receiver's storage (cell %d)", tag, k)
								}
								v.add("allocated")
							} else {
								v.add("in-capacity")
							}
						}
					}
				}
			}
			v.finish(t, "view Grow")
		})
	}

	// ---- SymDense.GrowSym of a SliceSym window, CDense.Grow of a Slice window -------------------------------
	g.Case("SymDense.GrowSym", func(t *vlib.T) {
		var v verdict
		for _, view := range []bool{false, true} {
			for l := 1; l <= n; l++ {
				for d := 0; d <= 3; d++ {
					M := conform(stSym(l), famPos, 3)
					s, back := symOf(M, view)
					snap := append([]float64(nil), back...)
					capN, _ := s.Caps()
					tag := fmt.Sprintf("(SymDense view=%v n=%d cap %d).GrowSym(%d)", view, l, capN, d)
					v.calls++
					var gs mat.Symmetric
					if p, pv := mustPanic(func() { gs = s.GrowSym(d) }); p {
						t.Failf("%s: unexpected panic %s", tag, panicString(pv))
						continue
					}
					if gs.SymmetricDim() != l+d || s.SymmetricDim() != l {
						t.Failf("%s: result size %d (want %d), receiver size %d", tag, gs.SymmetricDim(), l+d, s.SymmetricDim())
						continue
					}
					for i := 0; i < l; i++ {
						for j := 0; j < l; j++ {
							if got := gs.At(i, j); !eqVal(got, M[i][j]) {
								t.Failf("%s: element (%d,%d) = %s want %v", tag, i, j, vlib.B64(got), M[i][j])
							}
						}
					}
					if k, same := sameBits(back, snap); !same {
						t.Failf("%s: GrowSym wrote cell %d of the receiver's storage", tag, k)
					}
					if l+d > capN {
						gd := gs.(*mat.SymDense)
						for i := 0; i < l+d; i++ {
							for j := i; j < l+d; j++ {
								if (i >= capN || j >= capN) && gd.At(i, j) != 0 {
									t.Failf("%s: new element (%d,%d) = %v want 0", tag, i, j, gd.At(i, j))
								}
								gd.SetSym(i, j, 100)
							}
						}
						if k, same := sameBits(back, snap); !same {
							t.Failf("%s: the grown matrix needed a new allocation but aliases the receiver's storage (cell %d)", tag, k)
						}
					}
					v.add("ok")
				}
			}
		}
		v.finish(t, "GrowSym")
	})
	g.Case("CDense.Grow", func(t *vlib.T) {
		var v verdict
		for _, view := range []bool{false, true} {
			for r := 1; r <= n; r++ {
				for c := 1; c <= n; c++ {
					for dr := 0; dr <= 3; dr++ {
						for dc := 0; dc <= 3; dc++ {
							M := newCM(r, c, 1)
							m, back := cdenseOf(M, view)
							snap := append([]complex128(nil), back...)
							capR, capC := m.Caps()
							tag := fmt.Sprintf("(CDense view=%v %s caps %s).Grow(%d,%d)", view, fmtShape(r, c), fmtShape(capR, capC), dr, dc)
							v.calls++
							var gm mat.CMatrix
							if p, pv := mustPanic(func() { gm = m.Grow(dr, dc) }); p {
								t.Failf("%s: unexpected panic %s", tag, panicString(pv))
								continue
							}
							if gr, gc := gm.Dims(); gr != r+dr || gc != c+dc {
								t.Failf("%s: result is %d×%d", tag, gr, gc)
								continue
							}
							for i := 0; i < r; i++ {
								for j := 0; j < c; j++ {
									if !ceq(gm.At(i, j), M[i][j]) {
										t.Failf("%s: element (%d,%d) = %v want %v", tag, i, j, gm.At(i, j), M[i][j])
									}
								}
							}
							if k, same := vlib.SameC128(back, snap); !same {
								t.Failf("%s: Grow wrote cell %d of the receiver's storage", tag, k)
							}
							if (r+dr > capR || c+dc > capC) && (dr > 0 || dc > 0) {
								gd := gm.(*mat.CDense)
								for i := 0; i < r+dr; i++ {
									for j := 0; j < c+dc; j++ {
										if (i >= capR || j >= capC) && gd.At(i, j) != 0 {
											t.Failf("%s: new element (%d,%d) = %v want 0", tag, i, j, gd.At(i, j))
										}
										gd.Set(i, j, 100)
									}
								}
								if k, same := vlib.SameC128(back, snap); !same {
									t.Failf("%s: the grown matrix needed a new allocation but aliases the receiver's storage (cell %d)", tag, k)
								}
							}
							v.add("ok")
						}
					}
				}
			}
		}
		v.finish(t, "CDense.Grow")
	})
}
