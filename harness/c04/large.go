package main

// Larger shapes: the dispatch must not depend on the size either. Blocked and
// parallel BLAS paths start at 64; values stay small integers, so the oracle is
// still exact. Shapes come from a fixed list plus a fixed pseudo-random draw.

import (
	"fmt"

	"gonum.org/v1/gonum/internal/verif/vlib"
	"gonum.org/v1/gonum/mat"
)

func largeShapes(g *vlib.G) [][3]int {
	s := [][3]int{{65, 7, 33}, {9, 130, 5}}
	if g.Thorough() {
		s = append(s, [3]int{64, 64, 64}, [3]int{1, 200, 1}, [3]int{129, 1, 70})
		l := vlib.LCG(4)
		for i := 0; i < 4; i++ {
			s = append(s, [3]int{1 + int(l.Next()%200), 1 + int(l.Next()%200), 1 + int(l.Next()%200)})
		}
	}
	return s
}

func genLarge(g *vlib.G) {
	ks := kinds(g, true)
	shapes := largeShapes(g)
	states := []string{"zero", "view"}
	tuples([][]*kind{ks, ks}, func(sel []*kind) {
		ka, kb := sel[0], sel[1]
		for _, state := range states {
			state := state
			g.Case(fmt.Sprintf("large Mul a=%s b=%s recv=%s", ka.name, kb.name, state), func(t *vlib.T) {
				var v verdict
				for si, sh := range shapes {
					for _, d := range [][3]int{{sh[0], sh[1], sh[2]}, {sh[0], sh[0], sh[2]}, {sh[0], sh[1], sh[1]}, {sh[1], sh[1], sh[1]}, {sh[0], sh[1], 1}, {1, sh[1], sh[2]}} {
						a, b := ka.make(d[0], d[1], 1, famMixed), kb.make(d[1], d[2], 2, famMixed)
						if a == nil || b == nil {
							continue
						}
						want := mulM(a.val, b.val)
						rc := newDenseRecv(state, d[0], d[2], si)
						tag := fmt.Sprintf("Mul(%s %s, %s %s)", ka.name, fmtShape(d[0], d[1]), kb.name, fmtShape(d[1], d[2]))
						judge(t, &v, tag, state, []*operand{a, b}, func() { rc.m.Mul(a.m, b.m) }, func() string { return rc.check(want, nil) })
						break // one admissible variant of the shape per pair
					}
				}
				v.finish(t, "large Mul/"+state)
			})
		}
		g.Case(fmt.Sprintf("large Add a=%s b=%s", ka.name, kb.name), func(t *vlib.T) {
			var v verdict
			for si, sh := range shapes {
				for _, d := range [][2]int{{sh[0], sh[1]}, {sh[0], sh[0]}, {sh[1], 1}, {1, sh[1]}} {
					a, b := ka.make(d[0], d[1], 1, famMixed), kb.make(d[0], d[1], 2, famMixed)
					if a == nil || b == nil {
						continue
					}
					want := zipM(a.val, b.val, func(x, y float64) float64 { return x + y })
					rc := newDenseRecv("view", d[0], d[1], si)
					tag := fmt.Sprintf("Add(%s, %s) %s", ka.name, kb.name, fmtShape(d[0], d[1]))
					judge(t, &v, tag, "view", []*operand{a, b}, func() { rc.m.Add(a.m, b.m) }, func() string { return rc.check(want, nil) })
					break
				}
			}
			v.finish(t, "large Add")
		})
	})
	vks := kindsWhere(ks, isVector)
	tuples([][]*kind{kinds(g, false), vks}, func(sel []*kind) {
		ka, kb := sel[0], sel[1]
		g.Case(fmt.Sprintf("large MulVec a=%s b=%s", ka.name, kb.name), func(t *vlib.T) {
			var v verdict
			for si, sh := range shapes {
				for _, d := range [][2]int{{sh[0], sh[1]}, {sh[1], sh[1]}, {sh[1], 1}, {1, sh[1]}} {
					a, b := ka.make(d[0], d[1], 1, famMixed), kb.make(d[1], 1, 2, famMixed)
					if a == nil || b == nil {
						continue
					}
					want := colOf(mulM(a.val, b.val))
					rc := newVecRecv([]string{"zero", "view"}[si%2], d[0], si)
					tag := fmt.Sprintf("MulVec(%s %s, %s)", ka.name, fmtShape(d[0], d[1]), kb.name)
					judge(t, &v, tag, rc.state, []*operand{a, b}, func() { rc.v.MulVec(a.m, b.m.(mat.Vector)) }, func() string { return rc.check(want, nil) })
					break
				}
			}
			v.finish(t, "large MulVec")
		})
	})
	for _, ka := range kinds(g, false) {
		ka := ka
		g.Case(fmt.Sprintf("large reductions a=%s", ka.name), func(t *vlib.T) {
			var v verdict
			for _, sh := range shapes {
				for _, d := range [][2]int{{sh[0], sh[1]}, {sh[1], sh[1]}, {sh[1], 1}, {1, sh[1]}} {
					a := ka.make(d[0], d[1], 1, famMixed)
					if a == nil {
						continue
					}
					tag := fmt.Sprintf("(%s %s)", ka.name, fmtShape(d[0], d[1]))
					v.calls += 4
					if p, pv := mustPanic(func() {
						if got, want := mat.Sum(a.m), sumM(a.val); !eqVal(got, want) {
							t.Failf("Sum%s = %v want %v", tag, got, want)
						}
						if got, want := mat.Max(a.m), extremeM(a.val, 1); !eqVal(got, want) {
							t.Failf("Max%s = %v want %v", tag, got, want)
						}
						if got, want := mat.Norm(a.m, 1), norm1M(a.val); !eqVal(got, want) {
							t.Failf("Norm1%s = %v want %v", tag, got, want)
						}
						var s mat.Dense
						s.Scale(-2, a.m)
						if msg := (&denseRecv{state: "zero", m: &s, r: d[0], c: d[1]}).check(mapM(a.val, func(i, j int, x float64) float64 { return -2 * x }), nil); msg != "" {
							t.Failf("Scale%s: %s", tag, msg)
						}
					}); p {
						t.Failf("reductions%s: unexpected panic %s", tag, panicString(pv))
					}
					checkOperands(t, tag, []*operand{a})
					v.add("ok")
					break
				}
			}
			v.finish(t, "large reductions")
		})
	}
}
