package main

// Case drivers shared by the operation tables.

import (
	"fmt"
	"math"
	"strings"

	"gonum.org/v1/gonum/internal/verif/vlib"
	"gonum.org/v1/gonum/internal/verif/vsync"
	"gonum.org/v1/gonum/mat"
)

type tolFn func(i, j int) float64

// failClass reports a triaged finding under its class name (matched by /verif/known_findings.jsonl).
func failClass(t *vlib.T, class, format string, a ...any) {
	t.FailClass(class, format, a...)
}

func dimMax(g *vlib.G) int { return vlib.Pick(g, 4, 6) }

// verdict accumulates the outcome class of a case.
type verdict struct {
	calls, panics int
	classes       map[string]bool
}

func (v *verdict) add(s string) {
	if v.classes == nil {
		v.classes = map[string]bool{}
	}
	v.classes[s] = true
}

var lastPool struct{ reuses, news int }

func (v *verdict) finish(t *vlib.T, prefix string) {
	t.Count("calls", int64(v.calls))
	// pool traffic of this case (vacuity guard for the pool seam)
	t.Count("pool_workspaces_reused_after_scrub", int64(vsync.PoolStats.Reuses-lastPool.reuses))
	t.Count("pool_workspaces_new", int64(vsync.PoolStats.News-lastPool.news))
	lastPool.reuses, lastPool.news = vsync.PoolStats.Reuses, vsync.PoolStats.News
	if v.calls > 0 {
		t.Nontrivial()
	}
	t.Outcome(prefix + " " + strings.Join(vlib.SortedKeys(v.classes), ","))
}

func checkOperands(t *vlib.T, tag string, ops []*operand) {
	for _, o := range ops {
		if o == nil {
			continue
		}
		if msg := o.unchanged(); msg != "" {
			t.Failf("%s: %s", tag, msg)
		}
	}
}

// judge evaluates one call on a receiver: `do` performs it, `check` compares the receiver
// (only called when the call returned normally).
func judge(t *vlib.T, v *verdict, tag, state string, ops []*operand, do func(), check func() string) {
	v.calls++
	panicked, pv := mustPanic(do)
	if state == "wrong" {
		if !panicked {
			failClass(t, "wrong-shaped-receiver-accepted", "%s: a non-empty receiver of the wrong shape was accepted without panic", tag)
		} else {
			v.panics++
			v.add("panic:" + panicString(pv))
		}
		checkOperands(t, tag, ops)
		return
	}
	if panicked {
		t.Failf("%s: unexpected panic %s", tag, panicString(pv))
		return
	}
	if msg := check(); msg != "" {
		t.Failf("%s: %s", tag, msg)
	} else {
		v.add("ok")
	}
	checkOperands(t, tag, ops)
}

func names(ks []*kind) string {
	s := make([]string, len(ks))
	for i, k := range ks {
		s[i] = k.name
	}
	return strings.Join(s, " × ")
}

// tuples calls f for every element of the product of the lists.
func tuples(lists [][]*kind, f func(sel []*kind)) {
	radices := make([]int, len(lists))
	for i, l := range lists {
		if len(l) == 0 {
			return
		}
		radices[i] = len(l)
	}
	vlib.Product(radices, func(idx []int) bool {
		sel := make([]*kind, len(idx))
		for i, j := range idx {
			sel[i] = lists[i][j]
		}
		f(sel)
		return true
	})
}

// ---- reference arithmetic on values ------------------------------------------

func mulM(a, b matrix) matrix {
	ar, ac := dimsOf(a)
	_, bc := dimsOf(b)
	m := newMatrix(ar, bc)
	for i := 0; i < ar; i++ {
		for j := 0; j < bc; j++ {
			var s float64
			for k := 0; k < ac; k++ {
				s += a[i][k] * b[k][j]
			}
			m[i][j] = s
		}
	}
	return m
}

func zipM(a, b matrix, f func(x, y float64) float64) matrix {
	r, c := dimsOf(a)
	m := newMatrix(r, c)
	for i := 0; i < r; i++ {
		for j := 0; j < c; j++ {
			m[i][j] = f(a[i][j], b[i][j])
		}
	}
	return m
}

func mapM(a matrix, f func(i, j int, x float64) float64) matrix {
	r, c := dimsOf(a)
	m := newMatrix(r, c)
	for i := 0; i < r; i++ {
		for j := 0; j < c; j++ {
			m[i][j] = f(i, j, a[i][j])
		}
	}
	return m
}

func identityM(n int) matrix {
	m := newMatrix(n, n)
	for i := range m {
		m[i][i] = 1
	}
	return m
}

func maxAbsM(a matrix) float64 {
	var mx float64
	for _, row := range a {
		for _, v := range row {
			if math.Abs(v) > mx {
				mx = math.Abs(v)
			}
		}
	}
	return mx
}

func denseOfM(a matrix) *mat.Dense {
	r, c := dimsOf(a)
	return mat.NewDense(r, c, flat(a))
}

func mOfDense(d mat.Matrix) matrix {
	r, c := d.Dims()
	m := newMatrix(r, c)
	for i := 0; i < r; i++ {
		for j := 0; j < c; j++ {
			m[i][j] = d.At(i, j)
		}
	}
	return m
}

func colOf(a matrix) []float64 {
	v := make([]float64, len(a))
	for i := range a {
		v[i] = a[i][0]
	}
	return v
}

// vecVal returns the n values of a vector operand (n×1 or 1×n).
func vecVal(o *operand) []float64 {
	r, c := dimsOf(o.val)
	if c == 1 {
		return colOf(o.val)
	}
	_ = r
	return append([]float64(nil), o.val[0]...)
}

func uniformTol(x float64) tolFn { return func(i, j int) float64 { return x } }

func fmtShape(dims ...int) string {
	s := make([]string, len(dims))
	for i, d := range dims {
		s[i] = fmt.Sprint(d)
	}
	return strings.Join(s, "x")
}
