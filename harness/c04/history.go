package main

// Receivers with a history. CloneFrom*, ReuseAs* and Reset decide how much of
// the receiver's old storage to re-use; the value they produce must depend only
// on the source (or be all zero for ReuseAs*), never on what the receiver held
// before, and the parts of the result must be independent of each other and of
// the source. Histories: zero value; currently holding a larger / smaller /
// equal-sized matrix; emptied with Reset after each of those.

import (
	"fmt"
	"strings"

	"gonum.org/v1/gonum/internal/verif/vlib"
	"gonum.org/v1/gonum/mat"
)

var histories = []string{"zero", "holds-larger", "holds-smaller", "holds-equal", "reset-larger", "reset-smaller", "reset-equal"}

// subject describes one concrete mat type for the history checks. Sizes are a single number n:
// n×n for the square types, n×(n+1) for Dense, length n for VecDense.
type subject struct {
	name     string
	zero     func() mat.Matrix
	hold     func(n, seed int) mat.Matrix // a self-owned value of size n with non-zero entries everywhere it can store one
	reset    func(m mat.Matrix)
	isEmpty  func(m mat.Matrix) bool
	wantDims func(n int) (int, int)
	stored   func(m mat.Matrix) [][2]int // positions with their own storage cell (one per symmetric pair)
	set      func(m mat.Matrix, i, j int, v float64)
	reuseAs  func(m mat.Matrix, n int) // nil if the type has no ReuseAs*
}

func squareDims(n int) (int, int) { return n, n }

func fillStored(s *subject, m mat.Matrix, seed int) mat.Matrix {
	for _, p := range s.stored(m) {
		s.set(m, p[0], p[1], value(famNonzero, p[0], p[1], seed))
	}
	return m
}

func allPositions(m mat.Matrix, keep func(i, j int) bool) [][2]int {
	r, c := m.Dims()
	var ps [][2]int
	for i := 0; i < r; i++ {
		for j := 0; j < c; j++ {
			if keep(i, j) {
				ps = append(ps, [2]int{i, j})
			}
		}
	}
	return ps
}

func subjects() []*subject {
	var ss []*subject
	add := func(s *subject) *subject { ss = append(ss, s); return s }
	d := add(&subject{name: "Dense", zero: func() mat.Matrix { return &mat.Dense{} },
		reset: func(m mat.Matrix) { m.(*mat.Dense).Reset() }, isEmpty: func(m mat.Matrix) bool { return m.(*mat.Dense).IsEmpty() },
		wantDims: func(n int) (int, int) { return n, n + 1 },
		stored:   func(m mat.Matrix) [][2]int { return allPositions(m, func(i, j int) bool { return true }) },
		set:      func(m mat.Matrix, i, j int, v float64) { m.(*mat.Dense).Set(i, j, v) },
		reuseAs:  func(m mat.Matrix, n int) { m.(*mat.Dense).ReuseAs(n, n+1) }})
	d.hold = func(n, seed int) mat.Matrix { return fillStored(d, mat.NewDense(n, n+1, nil), seed) }
	v := add(&subject{name: "VecDense", zero: func() mat.Matrix { return &mat.VecDense{} },
		reset: func(m mat.Matrix) { m.(*mat.VecDense).Reset() }, isEmpty: func(m mat.Matrix) bool { return m.(*mat.VecDense).IsEmpty() },
		wantDims: func(n int) (int, int) { return n, 1 },
		stored:   func(m mat.Matrix) [][2]int { return allPositions(m, func(i, j int) bool { return true }) },
		set:      func(m mat.Matrix, i, j int, x float64) { m.(*mat.VecDense).SetVec(i, x) },
		reuseAs:  func(m mat.Matrix, n int) { m.(*mat.VecDense).ReuseAsVec(n) }})
	v.hold = func(n, seed int) mat.Matrix { return fillStored(v, mat.NewVecDense(n, nil), seed) }
	s := add(&subject{name: "SymDense", zero: func() mat.Matrix { return &mat.SymDense{} },
		reset: func(m mat.Matrix) { m.(*mat.SymDense).Reset() }, isEmpty: func(m mat.Matrix) bool { return m.(*mat.SymDense).IsEmpty() },
		wantDims: squareDims,
		stored:   func(m mat.Matrix) [][2]int { return allPositions(m, func(i, j int) bool { return i <= j }) },
		set:      func(m mat.Matrix, i, j int, x float64) { m.(*mat.SymDense).SetSym(i, j, x) },
		reuseAs:  func(m mat.Matrix, n int) { m.(*mat.SymDense).ReuseAsSym(n) }})
	s.hold = func(n, seed int) mat.Matrix { return fillStored(s, mat.NewSymDense(n, nil), seed) }
	for _, upper := range []bool{true, false} {
		upper := upper
		in := func(i, j int) bool { return (upper && i <= j) || (!upper && i >= j) }
		tr := add(&subject{name: fmt.Sprintf("TriDense(upper=%v)", upper), zero: func() mat.Matrix { return &mat.TriDense{} },
			reset: func(m mat.Matrix) { m.(*mat.TriDense).Reset() }, isEmpty: func(m mat.Matrix) bool { return m.(*mat.TriDense).IsEmpty() },
			wantDims: squareDims,
			stored:   func(m mat.Matrix) [][2]int { return allPositions(m, in) },
			set:      func(m mat.Matrix, i, j int, x float64) { m.(*mat.TriDense).SetTri(i, j, x) },
			reuseAs:  func(m mat.Matrix, n int) { m.(*mat.TriDense).ReuseAsTri(n, mat.TriKind(upper)) }})
		// the previous contents have the OTHER orientation
		tr.hold = func(n, seed int) mat.Matrix {
			t := mat.NewTriDense(n, mat.TriKind(!upper), nil)
			for _, p := range allPositions(t, func(i, j int) bool { return !in(i, j) || i == j }) {
				t.SetTri(p[0], p[1], value(famNonzero, p[0], p[1], seed))
			}
			return t
		}
		k := 1
		inb := func(i, j int) bool { return in(i, j) && i-j <= k && j-i <= k }
		tb := add(&subject{name: fmt.Sprintf("TriBandDense(upper=%v)", upper), zero: func() mat.Matrix { return &mat.TriBandDense{} },
			reset: func(m mat.Matrix) { m.(*mat.TriBandDense).Reset() }, isEmpty: func(m mat.Matrix) bool { return m.(*mat.TriBandDense).IsEmpty() },
			wantDims: squareDims,
			stored:   func(m mat.Matrix) [][2]int { return allPositions(m, inb) },
			set:      func(m mat.Matrix, i, j int, x float64) { m.(*mat.TriBandDense).SetTriBand(i, j, x) },
			reuseAs:  func(m mat.Matrix, n int) { m.(*mat.TriBandDense).ReuseAsTriBand(n, min(k, n-1), mat.TriKind(upper)) }})
		tb.hold = func(n, seed int) mat.Matrix { // previous contents: other orientation, wider band
			kk := min(2, n-1)
			t := mat.NewTriBandDense(n, kk, mat.TriKind(!upper), nil)
			for _, p := range allPositions(t, func(i, j int) bool { return (!in(i, j) || i == j) && i-j <= kk && j-i <= kk }) {
				t.SetTriBand(p[0], p[1], value(famNonzero, p[0], p[1], seed))
			}
			return t
		}
	}
	b := add(&subject{name: "BandDense", zero: func() mat.Matrix { return &mat.BandDense{} },
		reset: func(m mat.Matrix) { m.(*mat.BandDense).Reset() }, isEmpty: func(m mat.Matrix) bool { return m.(*mat.BandDense).IsEmpty() },
		wantDims: squareDims})
	b.hold = func(n, seed int) mat.Matrix { return zooByName["Band(1,2)"].make(n, n, seed, famNonzero).m }
	sb := add(&subject{name: "SymBandDense", zero: func() mat.Matrix { return &mat.SymBandDense{} },
		reset: func(m mat.Matrix) { m.(*mat.SymBandDense).Reset() }, isEmpty: func(m mat.Matrix) bool { return m.(*mat.SymBandDense).IsEmpty() },
		wantDims: squareDims})
	sb.hold = func(n, seed int) mat.Matrix { return zooByName["SymBand(1)"].make(n, n, seed, famNonzero).m }
	dg := add(&subject{name: "DiagDense", zero: func() mat.Matrix { return &mat.DiagDense{} },
		reset: func(m mat.Matrix) { m.(*mat.DiagDense).Reset() }, isEmpty: func(m mat.Matrix) bool { return m.(*mat.DiagDense).IsEmpty() },
		wantDims: squareDims})
	dg.hold = func(n, seed int) mat.Matrix { return zooByName["Diag"].make(n, n, seed, famNonzero).m }
	td := add(&subject{name: "Tridiag", zero: func() mat.Matrix { return &mat.Tridiag{} },
		reset: func(m mat.Matrix) { m.(*mat.Tridiag).Reset() }, isEmpty: func(m mat.Matrix) bool { return m.(*mat.Tridiag).IsEmpty() },
		wantDims: squareDims,
		stored: func(m mat.Matrix) [][2]int {
			return allPositions(m, func(i, j int) bool { return i-j <= 1 && j-i <= 1 })
		},
		set: func(m mat.Matrix, i, j int, x float64) { m.(*mat.Tridiag).SetBand(i, j, x) }})
	td.hold = func(n, seed int) mat.Matrix { return fillStored(td, mat.NewTridiag(n, nil, nil, nil), seed) }
	return ss
}

// withHistory returns a receiver of subject s with the given history relative to the target size n.
func withHistory(s *subject, hist string, n int) mat.Matrix {
	size := n
	switch {
	case hist == "zero":
		return s.zero()
	case strings.HasSuffix(hist, "larger"):
		size = n + 2
	case strings.HasSuffix(hist, "smaller"):
		size = max(1, n-1)
	}
	m := s.hold(size, 7)
	if strings.HasPrefix(hist, "reset") {
		s.reset(m)
	}
	return m
}

// independent overwrites every stored element of m with a distinct value and reads all of them back:
// two elements sharing one cell (internal aliasing) or a cell shared with src shows up.
func independent(s *subject, m mat.Matrix, src *operand) string {
	ps := s.stored(m)
	for k, p := range ps {
		s.set(m, p[0], p[1], float64(100+k))
	}
	for k, p := range ps {
		if got := m.At(p[0], p[1]); got != float64(100+k) {
			return fmt.Sprintf("after writing distinct values to all elements, element (%d,%d) reads %v instead of %v: elements share storage", p[0], p[1], got, float64(100+k))
		}
	}
	if src != nil {
		if msg := src.unchanged(); msg != "" {
			return "writing to the clone changed the source: " + msg
		}
	}
	return ""
}

func genHistory(g *vlib.G) {
	subs := subjects()
	n := dimMax(g)
	byName := map[string]*subject{}
	for _, s := range subs {
		byName[s.name] = s
	}

	// ---- Reset ------------------------------------------------------------------------------
	for _, s := range subs {
		s := s
		g.Case("Reset "+s.name, func(t *vlib.T) {
			t.Nontrivial()
			for l := 1; l <= n+2; l++ {
				m := s.hold(l, 3)
				t.Count("calls", 1)
				if p, pv := mustPanic(func() { s.reset(m) }); p {
					t.Failf("Reset of a %s of size %d: unexpected panic %s", s.name, l, panicString(pv))
					continue
				}
				if r, c := m.Dims(); !s.isEmpty(m) || r != 0 || c != 0 {
					t.Failf("after Reset a %s of size %d has IsEmpty=%v Dims=%d×%d", s.name, l, s.isEmpty(m), r, c)
				}
				// Reset twice is harmless
				if p, pv := mustPanic(func() { s.reset(m) }); p || !s.isEmpty(m) {
					t.Failf("second Reset of a %s: panicked=%v (%v)", s.name, p, pv)
				}
			}
			t.Outcome("Reset")
		})
	}

	// ---- ReuseAs* ----------------------------------------------------------------------------
	for _, s := range subs {
		s := s
		if s.reuseAs == nil {
			continue
		}
		for _, hist := range histories {
			hist := hist
			g.Case(fmt.Sprintf("ReuseAs %s history=%s", s.name, hist), func(t *vlib.T) {
				t.Nontrivial()
				for l := 1; l <= n+1; l++ {
					m := withHistory(s, hist, l)
					tag := fmt.Sprintf("%s ReuseAs(size %d) history=%s", s.name, l, hist)
					t.Count("calls", 1)
					p, pv := mustPanic(func() { s.reuseAs(m, l) })
					if strings.HasPrefix(hist, "holds") {
						if !p || pv != any(mat.ErrReuseNonEmpty) {
							t.Failf("%s: a non-empty receiver must panic with ErrReuseNonEmpty; panicked=%v %v", tag, p, pv)
						}
						continue
					}
					if p {
						t.Failf("%s: unexpected panic %s", tag, panicString(pv))
						continue
					}
					wr, wc := s.wantDims(l)
					if r, c := m.Dims(); r != wr || c != wc {
						t.Failf("%s: Dims %d×%d want %d×%d", tag, r, c, wr, wc)
						continue
					}
					for i := 0; i < wr; i++ {
						for j := 0; j < wc; j++ {
							if x := m.At(i, j); x != 0 {
								t.Failf("%s: element (%d,%d) = %v; the documentation promises zeroed data", tag, i, j, x)
							}
						}
					}
					if msg := independent(s, m, nil); msg != "" {
						t.Failf("%s: %s", tag, msg)
					}
				}
				t.Outcome("ReuseAs " + hist)
			})
		}
	}
	// CDense.ReuseAs / Reset
	for _, hist := range histories {
		hist := hist
		g.Case("ReuseAs CDense history="+hist, func(t *vlib.T) {
			t.Nontrivial()
			for l := 1; l <= n+1; l++ {
				var m *mat.CDense
				size := l
				switch {
				case hist == "zero":
					m = &mat.CDense{}
				case strings.HasSuffix(hist, "larger"):
					size = l + 2
				case strings.HasSuffix(hist, "smaller"):
					size = max(1, l-1)
				}
				if m == nil {
					m = mat.NewCDense(size, size+1, nil)
					for i := 0; i < size; i++ {
						for j := 0; j <= size; j++ {
							m.Set(i, j, complex(float64(1+i), float64(1+j)))
						}
					}
					if strings.HasPrefix(hist, "reset") {
						m.Reset()
						if r, c := m.Dims(); !m.IsEmpty() || r != 0 || c != 0 {
							t.Failf("CDense after Reset: IsEmpty=%v Dims=%d×%d", m.IsEmpty(), r, c)
						}
					}
				}
				t.Count("calls", 1)
				p, pv := mustPanic(func() { m.ReuseAs(l, l+1) })
				if strings.HasPrefix(hist, "holds") {
					if !p || pv != any(mat.ErrReuseNonEmpty) {
						t.Failf("CDense.ReuseAs on a non-empty receiver: panicked=%v %v, want ErrReuseNonEmpty", p, pv)
					}
					continue
				}
				if p {
					t.Failf("CDense.ReuseAs(%d,%d) history=%s: unexpected panic %s", l, l+1, hist, panicString(pv))
					continue
				}
				if r, c := m.Dims(); r != l || c != l+1 {
					t.Failf("CDense.ReuseAs(%d,%d) history=%s: Dims %d×%d", l, l+1, hist, r, c)
					continue
				}
				for i := 0; i < l; i++ {
					for j := 0; j <= l; j++ {
						if m.At(i, j) != 0 {
							t.Failf("CDense.ReuseAs(%d,%d) history=%s: element (%d,%d) = %v, want zeroed data", l, l+1, hist, i, j, m.At(i, j))
						}
						m.Set(i, j, complex(float64(100+i*(l+1)+j), -1))
					}
				}
				for i := 0; i < l; i++ {
					for j := 0; j <= l; j++ {
						if m.At(i, j) != complex(float64(100+i*(l+1)+j), -1) {
							t.Failf("CDense.ReuseAs history=%s: elements share storage at (%d,%d)", hist, i, j)
						}
					}
				}
			}
			t.Outcome("ReuseAs CDense " + hist)
		})
	}

	// ---- CloneFrom, CloneFromVec, CloneFromTridiag ---------------------------------------------------
	all := kinds(g, false)
	cloneCase := func(what string, s *subject, srcs []*kind, shape func(l int) (int, int), clone func(m mat.Matrix, src *operand)) {
		for _, ks := range srcs {
			ks := ks
			for _, hist := range histories {
				hist := hist
				g.Case(fmt.Sprintf("%s src=%s history=%s", what, ks.name, hist), func(t *vlib.T) {
					var v verdict
					for l := 1; l <= n+1; l++ {
						for seed := 1; seed <= 2; seed++ {
							r, c := shape(l)
							src := ks.make(r, c, seed, famNonzero)
							if src == nil {
								continue
							}
							m := withHistory(s, hist, l)
							tag := fmt.Sprintf("%s(%s %s) history=%s", what, ks.name, fmtShape(r, c), hist)
							v.calls++
							if p, pv := mustPanic(func() { clone(m, src) }); p {
								t.Failf("%s: unexpected panic %s", tag, panicString(pv))
								continue
							}
							if gr, gc := m.Dims(); gr != r || gc != c {
								t.Failf("%s: Dims %d×%d want %d×%d", tag, gr, gc, r, c)
								continue
							}
							bad := false
							for i := 0; i < r && !bad; i++ {
								for j := 0; j < c && !bad; j++ {
									if got := m.At(i, j); !eqVal(got, src.val[i][j]) {
										t.Failf("%s: element (%d,%d) = %s want %v (source %v)", tag, i, j, vlib.B64(got), src.val[i][j], src.val)
										bad = true
									}
								}
							}
							if msg := src.unchanged(); msg != "" {
								t.Failf("%s: %s", tag, msg)
							}
							if msg := independent(s, m, src); msg != "" && !bad {
								t.Failf("%s: %s", tag, msg)
							}
							v.add("ok")
						}
					}
					v.finish(t, what+"/"+hist)
				})
			}
		}
	}
	cloneCase("Dense.CloneFrom", byName["Dense"], all, func(l int) (int, int) { return l, l + 1 }, func(m mat.Matrix, src *operand) { m.(*mat.Dense).CloneFrom(src.m) })
	cloneCase("Dense.CloneFrom(square)", byName["Dense"], all, squareDims, func(m mat.Matrix, src *operand) { m.(*mat.Dense).CloneFrom(src.m) })
	cloneCase("VecDense.CloneFromVec", byName["VecDense"], kindsWhere(all, isVector), func(l int) (int, int) { return l, 1 }, func(m mat.Matrix, src *operand) { m.(*mat.VecDense).CloneFromVec(src.m.(mat.Vector)) })
	cloneCase("Tridiag.CloneFromTridiag", byName["Tridiag"], []*kind{zooByName["Tridiag"]}, squareDims, func(m mat.Matrix, src *operand) { m.(*mat.Tridiag).CloneFromTridiag(src.m.(*mat.Tridiag)) })
}
