package main

// Operations whose receiver is a *SymDense or a *TriDense.

import (
	"fmt"
	"math"

	"gonum.org/v1/gonum/internal/verif/vlib"
	"gonum.org/v1/gonum/mat"
)

func isSymmetric(m mat.Matrix) bool  { _, ok := m.(mat.Symmetric); return ok }
func isTriangular(m mat.Matrix) bool { _, ok := m.(mat.Triangular); return ok }

func symLenMax(g *vlib.G) int { return vlib.Pick(g, 4, 6) }

func genSymOps(g *vlib.G) {
	all := kinds(g, false)
	sks := kindsWhere(all, isSymmetric)
	vks := kindsWhere(all, isVector)
	coreS := kindsWhere(kinds(g, true), isSymmetric)
	coreV := kindsWhere(kinds(g, true), isVector)
	n := symLenMax(g)

	symCase := func(key, outcome string, states []string, body func(t *vlib.T, v *verdict, state string)) {
		for _, state := range states {
			state := state
			g.Case(key+" recv="+state, func(t *vlib.T) {
				var v verdict
				body(t, &v, state)
				v.finish(t, outcome+"/"+state)
			})
		}
	}

	tuples([][]*kind{sks, sks}, func(sel []*kind) {
		ka, kb := sel[0], sel[1]
		symCase(fmt.Sprintf("AddSym a=%s b=%s", ka.name, kb.name), "AddSym", recvStates, func(t *vlib.T, v *verdict, state string) {
			for l := 1; l <= n; l++ {
				a, b := ka.make(l, l, 1, famMixed), kb.make(l, l, 2, famMixed)
				if a == nil || b == nil {
					continue
				}
				want := zipM(a.val, b.val, func(x, y float64) float64 { return x + y })
				rc := newSymRecv(state, l, l)
				tag := fmt.Sprintf("AddSym(%s, %s) n=%d", ka.name, kb.name, l)
				judge(t, v, tag, state, []*operand{a, b}, func() { rc.s.AddSym(a.m.(mat.Symmetric), b.m.(mat.Symmetric)) }, func() string { return rc.check(want, nil) })
			}
		})
	})

	for _, ka := range sks {
		ka := ka
		symCase(fmt.Sprintf("ScaleSym a=%s", ka.name), "ScaleSym", recvStates, func(t *vlib.T, v *verdict, state string) {
			for l := 1; l <= n; l++ {
				for k, f := range scaleFactors {
					a := ka.make(l, l, 1, famMixed)
					if a == nil {
						continue
					}
					want := mapM(a.val, func(i, j int, x float64) float64 { return f * x })
					rc := newSymRecv(state, l, l+k)
					tag := fmt.Sprintf("ScaleSym(%v, %s) n=%d", f, ka.name, l)
					judge(t, v, tag, state, []*operand{a}, func() { rc.s.ScaleSym(f, a.m.(mat.Symmetric)) }, func() string { return rc.check(want, nil) })
				}
			}
		})
		symCase(fmt.Sprintf("SubsetSym a=%s", ka.name), "SubsetSym", recvStates, func(t *vlib.T, v *verdict, state string) {
			for l := 1; l <= n; l++ {
				a := ka.make(l, l, 1, famMixed)
				if a == nil {
					continue
				}
				sets := [][]int{{l - 1}, {0, l - 1}, {l - 1, 0, l / 2}, {l / 2, l / 2}}
				full := make([]int, l)
				for i := range full {
					full[i] = l - 1 - i
				}
				sets = append(sets, full)
				for si, set := range sets {
					want := newMatrix(len(set), len(set))
					for i := range set {
						for j := range set {
							want[i][j] = a.val[set[i]][set[j]]
						}
					}
					rc := newSymRecv(state, len(set), l+si)
					tag := fmt.Sprintf("SubsetSym(%s n=%d, %v)", ka.name, l, set)
					judge(t, v, tag, state, []*operand{a}, func() { rc.s.SubsetSym(a.m.(mat.Symmetric), set) }, func() string { return rc.check(want, nil) })
				}
			}
		})
		// CopySym does not resize.
		symCase(fmt.Sprintf("CopySym a=%s", ka.name), "CopySym", []string{"sized", "view"}, func(t *vlib.T, v *verdict, state string) {
			for l := 1; l <= n; l++ {
				for ml := 1; ml <= n+1; ml++ { // every receiver size against every source size
					a := ka.make(l, l, 1, famMixed)
					if a == nil {
						continue
					}
					rc := newSymRecv(state, ml, 0)
					tag := fmt.Sprintf("CopySym(%s n=%d) into %s n=%d", ka.name, l, state, ml)
					v.calls++
					var got int
					if p, pv := mustPanic(func() { got = rc.s.CopySym(a.m.(mat.Symmetric)) }); p {
						t.Failf("%s: unexpected panic %s", tag, panicString(pv))
						continue
					}
					w := min(l, ml)
					if got != w {
						t.Failf("%s: returned %d want %d", tag, got, w)
					}
					raw := rc.s.RawSymmetric()
					if raw.N != ml {
						t.Failf("%s: receiver size changed to %d", tag, raw.N)
						continue
					}
					for i := 0; i < w; i++ {
						for j := i; j < w; j++ {
							if x := raw.Data[i*raw.Stride+j]; !eqVal(x, a.val[i][j]) {
								t.Failf("%s: element (%d,%d) = %s want %v", tag, i, j, vlib.B64(x), a.val[i][j])
							}
						}
					}
					rc.n = w
					if msg := rc.outside(func(i, j int) bool { return j >= i }); msg != "" {
						t.Failf("%s: %s", tag, msg)
					}
					checkOperands(t, tag, []*operand{a})
					v.add("ok")
				}
			}
		})
		// PowPSD on the positive definite family UᵀU (U with the bandwidth of the kind).
		symCase(fmt.Sprintf("PowPSD a=%s", ka.name), "PowPSD", recvStates, func(t *vlib.T, v *verdict, state string) {
			for l := 1; l <= n; l++ {
				st := ka.shape(l, l)
				if st == nil {
					continue
				}
				bw := 0
				for i := 0; i < l; i++ {
					for j := i; j < l; j++ {
						if st.mask[i][j] {
							bw = max(bw, j-i)
						}
					}
				}
				M := genCholesky(func(int) int { return bw })(l, l, 1, famMixed)
				a := ka.build(M)
				for pi, pw := range []float64{2, 0.5} {
					rc := newSymRecv(state, l, l+pi)
					var err error
					tag := fmt.Sprintf("PowPSD(%s n=%d, %v)", ka.name, l, pw)
					judge(t, v, tag, state, []*operand{a}, func() { err = rc.s.PowPSD(a.m.(mat.Symmetric), pw) }, func() string {
						if err != nil {
							return "error " + err.Error()
						}
						got := mOfDense(rc.s)
						var want, have matrix
						if pw == 2 {
							want, have = mulM(M, M), got
						} else {
							want, have = M, mulM(got, got)
						}
						bound := 1e-9 * math.Max(1, maxAbsM(want)) * float64(l)
						for i := range want {
							for j := range want[i] {
								if isPoison(have[i][j]) || math.Abs(have[i][j]-want[i][j]) > bound {
									return fmt.Sprintf("definition violated at (%d,%d): %v vs %v", i, j, have[i][j], want[i][j])
								}
							}
						}
						return rc.outside(func(i, j int) bool { return j >= i })
					})
				}
			}
		})
	}

	// SymRankOne, RankTwo
	seen := map[string]bool{}
	rank := func(ka, kx, ky *kind) {
		key := ka.name + "|" + kx.name + "|" + ky.name
		if seen[key] {
			return
		}
		seen[key] = true
		if kx == ky {
			symCase(fmt.Sprintf("SymRankOne a=%s x=%s", ka.name, kx.name), "SymRankOne", recvStates, func(t *vlib.T, v *verdict, state string) {
				for l := 1; l <= n; l++ {
					a, x := ka.make(l, l, 1, famMixed), makeVec(kx, l, 2, famMixed)
					if a == nil || x == nil {
						continue
					}
					alpha := []float64{2, -1}[l%2]
					want := zipM(a.val, outerM(alpha, vecVal(x), vecVal(x)), func(p, q float64) float64 { return p + q })
					rc := newSymRecv(state, l, l)
					tag := fmt.Sprintf("SymRankOne(%s n=%d, %v, %s)", ka.name, l, alpha, kx.name)
					judge(t, v, tag, state, []*operand{a, x}, func() { rc.s.SymRankOne(a.m.(mat.Symmetric), alpha, x.m.(mat.Vector)) }, func() string { return rc.check(want, nil) })
				}
			})
		}
		symCase(fmt.Sprintf("RankTwo a=%s x=%s y=%s", ka.name, kx.name, ky.name), "RankTwo", recvStates, func(t *vlib.T, v *verdict, state string) {
			for l := 1; l <= n; l++ {
				a, x, y := ka.make(l, l, 1, famMixed), makeVec(kx, l, 2, famMixed), makeVec(ky, l, 3, famMixed)
				if a == nil || x == nil || y == nil {
					continue
				}
				alpha := []float64{2, -1}[l%2]
				xy, yx := outerM(alpha, vecVal(x), vecVal(y)), outerM(alpha, vecVal(y), vecVal(x))
				want := newMatrix(l, l)
				for i := range want {
					for j := range want[i] {
						want[i][j] = a.val[i][j] + xy[i][j] + yx[i][j]
					}
				}
				rc := newSymRecv(state, l, l)
				tag := fmt.Sprintf("RankTwo(%s n=%d, %v, %s, %s)", ka.name, l, alpha, kx.name, ky.name)
				if state == "zero" || state == "dirty" {
					// candidate finding: every other SymDense method resizes an empty receiver.
					v.calls++
					if p, pv := mustPanic(func() { rc.s.RankTwo(a.m.(mat.Symmetric), alpha, x.m.(mat.Vector), y.m.(mat.Vector)) }); p {
						failClass(t, "symdense-ranktwo-size-taken-from-receiver", "%s: empty receiver: panic %s (every other SymDense method adopts the result size)", tag, panicString(pv))
					} else if msg := rc.check(want, nil); msg != "" {
						t.Failf("%s: %s", tag, msg)
					} else {
						v.add("ok")
					}
					continue
				}
				judge(t, v, tag, state, []*operand{a, x, y}, func() { rc.s.RankTwo(a.m.(mat.Symmetric), alpha, x.m.(mat.Vector), y.m.(mat.Vector)) }, func() string { return rc.check(want, nil) })
				if state == "sized" {
					// a of another size than the receiver and the vectors must be rejected (same root cause as above).
					if a2 := ka.make(l+1, l+1, 1, famMixed); a2 != nil {
						v.calls++
						rc2 := newSymRecv("sized", l, l)
						if p, _ := mustPanic(func() { rc2.s.RankTwo(a2.m.(mat.Symmetric), alpha, x.m.(mat.Vector), y.m.(mat.Vector)) }); !p {
							failClass(t, "symdense-ranktwo-size-taken-from-receiver", "%s: a is %d×%d but receiver and vectors have size %d: accepted without panic", tag, l+1, l+1, l)
						}
					}
				}
			}
		})
	}
	tuples([][]*kind{sks, coreV, coreV}, func(s []*kind) { rank(s[0], s[1], s[2]) })
	tuples([][]*kind{coreS, vks, vks}, func(s []*kind) { rank(s[0], s[1], s[2]) })

	// SymRankK, SymOuterK: x is any n×k matrix.
	tuples([][]*kind{coreS, all}, func(sel []*kind) {
		ka, kx := sel[0], sel[1]
		symCase(fmt.Sprintf("SymRankK a=%s x=%s", ka.name, kx.name), "SymRankK", recvStates, func(t *vlib.T, v *verdict, state string) {
			for l := 1; l <= n; l++ {
				for k := 1; k <= n; k++ {
					a, x := ka.make(l, l, 1, famMixed), kx.make(l, k, 2, famMixed)
					if a == nil || x == nil {
						continue
					}
					alpha := []float64{2, -1}[(l+k)%2]
					xxt := mulM(x.val, transposeM(x.val))
					want := zipM(a.val, xxt, func(p, q float64) float64 { return p + alpha*q })
					rc := newSymRecv(state, l, l+k)
					tag := fmt.Sprintf("SymRankK(%s n=%d, %v, %s %s)", ka.name, l, alpha, kx.name, fmtShape(l, k))
					judge(t, v, tag, state, []*operand{a, x}, func() { rc.s.SymRankK(a.m.(mat.Symmetric), alpha, x.m) }, func() string { return rc.check(want, nil) })
				}
			}
		})
	})
	for _, kx := range all {
		kx := kx
		symCase(fmt.Sprintf("SymOuterK x=%s", kx.name), "SymOuterK", recvStates, func(t *vlib.T, v *verdict, state string) {
			for l := 1; l <= n; l++ {
				for k := 1; k <= n; k++ {
					x := kx.make(l, k, 2, famMixed)
					if x == nil {
						continue
					}
					alpha := []float64{2, -1}[(l+k)%2]
					want := mapM(mulM(x.val, transposeM(x.val)), func(i, j int, p float64) float64 { return alpha * p })
					rc := newSymRecv(state, l, l+k)
					tag := fmt.Sprintf("SymOuterK(%v, %s %s)", alpha, kx.name, fmtShape(l, k))
					judge(t, v, tag, state, []*operand{x}, func() { rc.s.SymOuterK(alpha, x.m) }, func() string { return rc.check(want, nil) })
				}
			}
		})
	}
}

// triOf reports the orientation of a triangular operand.
func triUpper(o *operand) bool {
	_, k := o.m.(mat.Triangular).Triangle()
	return bool(k)
}

func genTriOps(g *vlib.G) {
	all := kinds(g, false)
	tks := kindsWhere(all, isTriangular)
	n := symLenMax(g)

	triCase := func(key, outcome string, states []string, body func(t *vlib.T, v *verdict, state string)) {
		for _, state := range states {
			state := state
			g.Case(key+" recv="+state, func(t *vlib.T) {
				var v verdict
				body(t, &v, state)
				v.finish(t, outcome+"/"+state)
			})
		}
	}

	for _, ka := range tks {
		ka := ka
		triCase(fmt.Sprintf("ScaleTri a=%s", ka.name), "ScaleTri", recvStates, func(t *vlib.T, v *verdict, state string) {
			for l := 1; l <= n; l++ {
				for k, f := range scaleFactors {
					a := ka.make(l, l, 1, famMixed)
					if a == nil {
						continue
					}
					want := mapM(a.val, func(i, j int, x float64) float64 { return f * x })
					rc := newTriRecv(state, l, triUpper(a), l+k)
					tag := fmt.Sprintf("ScaleTri(%v, %s) n=%d", f, ka.name, l)
					judge(t, v, tag, state, []*operand{a}, func() { rc.t.ScaleTri(f, a.m.(mat.Triangular)) }, func() string { return rc.check(want, nil) })
				}
			}
		})
		triCase(fmt.Sprintf("InverseTri a=%s", ka.name), "InverseTri", recvStates, func(t *vlib.T, v *verdict, state string) {
			for l := 1; l <= n; l++ {
				for fi, fam := range []family{famTriUnit, famDomDiag} {
					a := ka.make(l, l, 1, fam)
					if a == nil {
						continue
					}
					rc := newTriRecv(state, l, triUpper(a), l+fi)
					var err error
					tag := fmt.Sprintf("InverseTri(%s n=%d %v)", ka.name, l, fam)
					judge(t, v, tag, state, []*operand{a}, func() { err = rc.t.InverseTri(a.m.(mat.Triangular)) }, func() string {
						if err != nil {
							return "error " + err.Error()
						}
						// definition: A·X = I (exactly for the ±1, ±2 diagonal family)
						got := mOfDense(rc.t)
						ax := mulM(a.val, got)
						tol := 0.0
						if fam != famTriUnit {
							tol = 1e-13 * float64(l)
						}
						for i := range ax {
							for j := range ax[i] {
								e := 0.0
								if i == j {
									e = 1
								}
								if isPoison(got[i][j]) || math.Abs(ax[i][j]-e) > tol {
									return fmt.Sprintf("(A·X)[%d,%d] = %v (X = %v)", i, j, ax[i][j], got)
								}
							}
						}
						return rc.check(got, nil) // shape, triangle, At==raw, storage outside the triangle untouched
					})
				}
			}
		})
	}

	tuples([][]*kind{tks, tks}, func(sel []*kind) {
		ka, kb := sel[0], sel[1]
		triCase(fmt.Sprintf("MulTri a=%s b=%s", ka.name, kb.name), "MulTri", recvStates, func(t *vlib.T, v *verdict, state string) {
			for l := 1; l <= n; l++ {
				a, b := ka.make(l, l, 1, famMixed), kb.make(l, l, 2, famMixed)
				if a == nil || b == nil {
					continue
				}
				tag := fmt.Sprintf("MulTri(%s, %s) n=%d", ka.name, kb.name, l)
				if triUpper(a) != triUpper(b) {
					// documented: both must have the same TriKind
					v.calls++
					var tr mat.TriDense
					if p, pv := mustPanic(func() { tr.MulTri(a.m.(mat.Triangular), b.m.(mat.Triangular)) }); !p {
						t.Failf("%s: operands of different TriKind accepted", tag)
					} else if pv != any(mat.ErrTriangle) {
						t.Failf("%s: panic %s, want ErrTriangle", tag, panicString(pv))
					} else {
						v.add("ErrTriangle")
					}
					continue
				}
				want := mulM(a.val, b.val)
				rc := newTriRecv(state, l, triUpper(a), l)
				judge(t, v, tag, state, []*operand{a, b}, func() { rc.t.MulTri(a.m.(mat.Triangular), b.m.(mat.Triangular)) }, func() string { return rc.check(want, nil) })
			}
		})
	})

	// TriDense.Copy(a Matrix): copies the part of a that lies in the receiver's triangle; no resize.
	for _, ka := range all {
		ka := ka
		for _, upper := range []bool{true, false} {
			upper := upper
			triCase(fmt.Sprintf("TriCopy a=%s upper=%v", ka.name, upper), "TriCopy", []string{"sized", "view"}, func(t *vlib.T, v *verdict, state string) {
				for r := 1; r <= n; r++ {
					for c := 1; c <= n; c++ {
						for ml := 1; ml <= n+1; ml++ { // every receiver size against every source shape
							a := ka.make(r, c, 1, famNonzero)
							if a == nil {
								continue
							}
							rc := newTriRecv(state, ml, upper, 0)
							tag := fmt.Sprintf("TriDense(%d upper=%v %s).Copy(%s %s)", ml, upper, state, ka.name, fmtShape(r, c))
							v.calls++
							var gr, gc int
							wr, wc := min(r, ml), min(c, ml)
							// fail reports under the class of the triaged defect when the copied block has fewer
							// columns than rows (TriDense.Copy bounds its inner loops by the row index only).
							fail := func(format string, args ...any) {
								if wc < wr {
									failClass(t, "tridense-copy-source-with-fewer-columns-than-rows", format+" (block to copy is %d×%d)", append(args, wr, wc)...)
								} else {
									t.Failf(format, args...)
								}
							}
							if p, pv := mustPanic(func() { gr, gc = rc.t.Copy(a.m) }); p {
								fail("%s: unexpected panic %s", tag, panicString(pv))
								continue
							}
							if gr != wr || gc != wc {
								t.Failf("%s: returned %d,%d want %d,%d", tag, gr, gc, wr, wc)
							}
							raw := rc.t.RawTriangular()
							stale := false
							for i := 0; i < wr; i++ {
								for j := 0; j < wc; j++ {
									if (upper && j < i) || (!upper && j > i) {
										continue
									}
									if x := raw.Data[i*raw.Stride+j]; !eqVal(x, a.val[i][j]) {
										if isPoison(x) && a.val[i][j] == 0 {
											stale = true
											continue
										}
										fail("%s: element (%d,%d) = %s want %v", tag, i, j, vlib.B64(x), a.val[i][j])
									}
								}
							}
							if stale {
								failClass(t, "tridense-copy-leaves-stale-elements", "%s: elements of the receiver's triangle inside the copied block keep their old value where a is structurally zero (a Dense holding the same matrix is copied completely)", tag)
							}
							if msg := outsideSquare(state, rc.back, raw.Data, ml, rc.off, rc.ld, func(i, j int) bool {
								return i < wr && j < wc && ((upper && j >= i) || (!upper && j <= i))
							}); msg != "" {
								fail("%s: %s", tag, msg)
							}
							checkOperands(t, tag, []*operand{a})
							v.add("ok")
						}
					}
				}
			})
		}
	}
}
