package main

// One object in several argument positions. The other groups build the operand
// of every position separately, so shortcuts keyed on the identity of two
// arguments (Solve's `a == b` ⇒ X = I, the `m == aU` workspaces, Equal on the
// same backing data …) never see the same object twice. Here one representation
// o of a matrix M is passed as o, o.T() (and TVec() for vectors) in every
// combination of positions; the receiver is always a different object (receiver
// aliasing is C05). The oracle is the element-wise definition on M and Mᵀ — never
// the same call on copies, which would take the same shortcut.

import (
	"fmt"
	"math"

	"gonum.org/v1/gonum/internal/verif/vlib"
	"gonum.org/v1/gonum/mat"
)

// view is one way of passing the object.
type view struct {
	tag string
	m   mat.Matrix
	val matrix
}

func (w view) dims() (int, int) { return dimsOf(w.val) }

// matViews returns o and o.T().
func matViews(o *operand) []view {
	return []view{{"a", o.m, o.val}, {"a.T()", o.m.T(), transposeM(o.val)}}
}

// vecViews returns the ways of passing a vector object where a mat.Vector is required.
func vecViews(o *operand) []view {
	v, ok := o.m.(mat.Vector)
	if !ok {
		return nil
	}
	return []view{{"v", o.m, o.val}, {"TVec(v)", mat.TransposeVec{Vector: v}, transposeM(o.val)}}
}

func vvals(w view) []float64 {
	r, c := w.dims()
	if c == 1 {
		return colOf(w.val)
	}
	_ = r
	return append([]float64(nil), w.val[0]...)
}

type sameBin struct {
	name  string
	fam   family
	legal func(ar, ac, br, bc int) bool
	want  func(a, b matrix) matrix
	do    func(m *mat.Dense, a, b mat.Matrix)
}

func sameShape(ar, ac, br, bc int) bool { return ar == br && ac == bc }

var sameBins = []sameBin{
	{"Add", famMixed, sameShape, binOps[0].want, binOps[0].do},
	{"Sub", famMixed, sameShape, binOps[1].want, binOps[1].do},
	{"MulElem", famMixed, sameShape, binOps[2].want, binOps[2].do},
	{"DivElem", famNonzero, sameShape, binOps[3].want, binOps[3].do},
	{"Mul", famMixed, func(ar, ac, br, bc int) bool { return ac == br }, mulM, func(m *mat.Dense, a, b mat.Matrix) { m.Mul(a, b) }},
	{"Product2", famMixed, func(ar, ac, br, bc int) bool { return ac == br }, mulM, func(m *mat.Dense, a, b mat.Matrix) { m.Product(a, b) }},
	{"Stack", famMixed, func(ar, ac, br, bc int) bool { return ac == bc }, stackM, func(m *mat.Dense, a, b mat.Matrix) { m.Stack(a, b) }},
	{"Augment", famMixed, func(ar, ac, br, bc int) bool { return ar == br }, binOps[6].want, func(m *mat.Dense, a, b mat.Matrix) { m.Augment(a, b) }},
	{"Kronecker", famMixed, func(ar, ac, br, bc int) bool { return ar*br <= 16 && ac*bc <= 16 }, kronM, func(m *mat.Dense, a, b mat.Matrix) { m.Kronecker(a, b) }},
}

func genSame(g *vlib.G) {
	all := kinds(g, false)
	n := dimMax(g)

	// ---- Dense binary operations -------------------------------------------------
	for _, op := range sameBins {
		op := op
		for _, k := range all {
			k := k
			for _, state := range recvStates {
				state := state
				g.Case(fmt.Sprintf("%s same a=%s recv=%s", op.name, k.name, state), func(t *vlib.T) {
					var v verdict
					for r := 1; r <= n; r++ {
						for c := 1; c <= n; c++ {
							o := k.make(r, c, 1, op.fam)
							if o == nil {
								continue
							}
							vs := matViews(o)
							for i, va := range vs {
								for j, vb := range vs {
									ar, ac := va.dims()
									br, bc := vb.dims()
									if !op.legal(ar, ac, br, bc) {
										continue
									}
									want := op.want(va.val, vb.val)
									wr, wc := dimsOf(want)
									rc := newDenseRecv(state, wr, wc, r+c+i+j)
									tag := fmt.Sprintf("%s(%s, %s) with a = %s %s", op.name, va.tag, vb.tag, k.name, fmtShape(r, c))
									judge(t, &v, tag, state, []*operand{o}, func() { op.do(rc.m, va.m, vb.m) }, func() string { return rc.check(want, nil) })
								}
							}
						}
					}
					v.finish(t, op.name+" same/"+state)
				})
			}
		}
	}

	// ---- Product with three factors, Solve, SolveVec, SolveTo, Equal, SymRankK -------------
	for _, k := range all {
		k := k
		for _, state := range recvStates {
			state := state
			g.Case(fmt.Sprintf("Product3 same a=%s recv=%s", k.name, state), func(t *vlib.T) {
				var v verdict
				for r := 1; r <= n; r++ {
					for c := 1; c <= n; c++ {
						o := k.make(r, c, 1, famMixed)
						if o == nil {
							continue
						}
						vs := matViews(o)
						for x := 0; x < 8; x++ {
							f := []view{vs[x&1], vs[x>>1&1], vs[x>>2&1]}
							_, c0 := f[0].dims()
							r1, c1 := f[1].dims()
							r2, _ := f[2].dims()
							if c0 != r1 || c1 != r2 {
								continue
							}
							want := mulM(mulM(f[0].val, f[1].val), f[2].val)
							wr, wc := dimsOf(want)
							rc := newDenseRecv(state, wr, wc, x)
							tag := fmt.Sprintf("Product(%s, %s, %s) with a = %s %s", f[0].tag, f[1].tag, f[2].tag, k.name, fmtShape(r, c))
							judge(t, &v, tag, state, []*operand{o}, func() { rc.m.Product(f[0].m, f[1].m, f[2].m) }, func() string { return rc.check(want, nil) })
						}
					}
				}
				v.finish(t, "Product3 same/"+state)
			})
			g.Case(fmt.Sprintf("Solve same a=%s recv=%s", k.name, state), func(t *vlib.T) {
				var v verdict
				for r := 1; r <= n; r++ {
					for c := 1; c <= n; c++ {
						o := k.make(r, c, 1, famDomDiag)
						if o == nil {
							continue
						}
						vs := matViews(o)
						for i, va := range vs {
							for j, vb := range vs {
								ar, ac := va.dims()
								br, bc := vb.dims()
								if ar != br {
									continue
								}
								rc := newDenseRecv(state, ac, bc, i+j)
								var err error
								tag := fmt.Sprintf("Solve(%s, %s) with a = %s %s", va.tag, vb.tag, k.name, fmtShape(r, c))
								judge(t, &v, tag, state, []*operand{o}, func() { err = rc.m.Solve(va.m, vb.m) }, func() string {
									if err != nil {
										if _, ok := err.(mat.Condition); ok && ar != ac {
											return "" // rank deficient rectangular member: contents undefined
										}
										return "error " + err.Error()
									}
									if msg := rc.check(mOfDense(rc.m), nil); msg != "" { // shape, poison, window
										return msg
									}
									return solveResidual(va.val, vb.val, mOfDense(rc.m))
								})
							}
						}
					}
				}
				v.finish(t, "Solve same/"+state)
			})
		}
		if probe := k.make(2, 2, 0, famDomDiag); probe != nil && hasSolveTo(probe.m) {
			for _, state := range recvStates {
				state := state
				g.Case(fmt.Sprintf("SolveTo same a=%s dst=%s", k.name, state), func(t *vlib.T) {
					var v verdict
					for l := 1; l <= n; l++ {
						o := k.make(l, l, 1, famDomDiag)
						if o == nil {
							continue
						}
						for _, trans := range []bool{false, true} {
							for j, vb := range matViews(o) {
								op := maybeT(o.val, trans)
								rc := newDenseRecv(state, l, l, l+j)
								var err error
								tag := fmt.Sprintf("a.SolveTo(dst, %v, %s) with a = %s n=%d", trans, vb.tag, k.name, l)
								judge(t, &v, tag, state, []*operand{o}, func() { err = o.m.(mat.SolveToer).SolveTo(rc.m, trans, vb.m) }, func() string {
									if err != nil {
										return "error " + err.Error()
									}
									if msg := rc.check(mOfDense(rc.m), nil); msg != "" {
										return msg
									}
									return solveResidual(op, vb.val, mOfDense(rc.m))
								})
							}
						}
					}
					v.finish(t, "SolveTo same/"+state)
				})
			}
		}
		g.Case(fmt.Sprintf("Equal same a=%s", k.name), func(t *vlib.T) {
			var v verdict
			for r := 1; r <= n; r++ {
				for c := 1; c <= n; c++ {
					o := k.make(r, c, 1, famMixed)
					if o == nil {
						continue
					}
					vs := matViews(o)
					for _, va := range vs {
						for _, vb := range vs {
							ar, ac := va.dims()
							br, bc := vb.dims()
							want := ar == br && ac == bc
							if want {
								for i := range va.val {
									for j := range va.val[i] {
										if va.val[i][j] != vb.val[i][j] {
											want = false
										}
									}
								}
							}
							v.calls++
							tag := fmt.Sprintf("(%s, %s) with a = %s %s", va.tag, vb.tag, k.name, fmtShape(r, c))
							if p, pv := mustPanic(func() {
								if got := mat.Equal(va.m, vb.m); got != want {
									t.Failf("Equal%s = %v want %v (a = %v)", tag, got, want, o.val)
								}
								// entries are integers: any two different entries differ by at least 1
								if got := mat.EqualApprox(va.m, vb.m, 1e-3); got != want {
									t.Failf("EqualApprox%s = %v want %v (a = %v)", tag, got, want, o.val)
								}
							}); p {
								t.Failf("Equal%s: unexpected panic %s", tag, panicString(pv))
							}
							v.add(fmt.Sprint(want))
						}
					}
					checkOperands(t, "Equal same "+k.name, []*operand{o})
				}
			}
			v.finish(t, "Equal same")
		})
		if probe := k.make(2, 2, 0, famMixed); probe != nil && isSymmetric(probe.m) {
			for _, state := range recvStates {
				state := state
				g.Case(fmt.Sprintf("Sym same a=%s recv=%s", k.name, state), func(t *vlib.T) {
					var v verdict
					for l := 1; l <= n; l++ {
						o := k.make(l, l, 1, famMixed)
						if o == nil {
							continue
						}
						s := o.m.(mat.Symmetric)
						want := zipM(o.val, o.val, func(x, y float64) float64 { return x + y })
						rc := newSymRecv(state, l, l)
						judge(t, &v, fmt.Sprintf("AddSym(a, a) with a = %s n=%d", k.name, l), state, []*operand{o}, func() { rc.s.AddSym(s, s) }, func() string { return rc.check(want, nil) })
						for j, vx := range matViews(o) {
							// s = a + 2·x·xᵀ with x the same object as a (or its transpose)
							want := zipM(o.val, mulM(vx.val, transposeM(vx.val)), func(p, q float64) float64 { return p + 2*q })
							rc := newSymRecv(state, l, l+j)
							judge(t, &v, fmt.Sprintf("SymRankK(a, 2, %s) with a = %s n=%d", vx.tag, k.name, l), state, []*operand{o}, func() { rc.s.SymRankK(s, 2, vx.m) }, func() string { return rc.check(want, nil) })
						}
					}
					v.finish(t, "Sym same/"+state)
				})
			}
		}
		if probe := k.make(2, 2, 0, famMixed); probe != nil && isTriangular(probe.m) {
			for _, state := range recvStates {
				state := state
				g.Case(fmt.Sprintf("MulTri same a=%s recv=%s", k.name, state), func(t *vlib.T) {
					var v verdict
					for l := 1; l <= n; l++ {
						o := k.make(l, l, 1, famMixed)
						if o == nil {
							continue
						}
						tr := o.m.(mat.Triangular)
						want := mulM(o.val, o.val)
						rc := newTriRecv(state, l, triUpper(o), l)
						judge(t, &v, fmt.Sprintf("MulTri(a, a) with a = %s n=%d", k.name, l), state, []*operand{o}, func() { rc.t.MulTri(tr, tr) }, func() string { return rc.check(want, nil) })
						// a and TTri(a) have different kinds: documented panic, except for 1×1 ... which still reports two kinds.
						v.calls++
						var td mat.TriDense
						if p, pv := mustPanic(func() { td.MulTri(tr, tr.TTri()) }); !p || pv != any(mat.ErrTriangle) {
							if _, isDiag := o.m.(mat.Diagonal); !isDiag {
								t.Failf("MulTri(a, a.TTri()) with a = %s n=%d: panicked=%v %v, want ErrTriangle", k.name, l, p, pv)
							}
						}
					}
					v.finish(t, "MulTri same/"+state)
				})
			}
		}
	}

	// ---- vectors: one vector object in two positions ----------------------------------------------
	vks := kindsWhere(all, func(m mat.Matrix) bool { r, c := m.Dims(); return isVector(m) && c == 1 && r >= 1 })
	coreM := kinds(g, true)
	ln := vecLenMax(g)
	for _, k := range vks {
		k := k
		g.Case(fmt.Sprintf("Dot/Inner same v=%s", k.name), func(t *vlib.T) {
			var v verdict
			for l := 1; l <= ln; l++ {
				o := k.make(l, 1, 1, famMixed)
				if o == nil {
					continue
				}
				vs := vecViews(o)
				for _, vx := range vs {
					for _, vy := range vs {
						x, y := vvals(vx), vvals(vy)
						tag := fmt.Sprintf("(%s, %s) with v = %s n=%d", vx.tag, vy.tag, k.name, l)
						v.calls++
						var got float64
						if p, pv := mustPanic(func() { got = mat.Dot(vx.m.(mat.Vector), vy.m.(mat.Vector)) }); p {
							t.Failf("Dot%s: unexpected panic %s", tag, panicString(pv))
						} else if want := dotV(x, y); !eqVal(got, want) {
							t.Failf("Dot%s = %v want %v", tag, got, want)
						}
						for _, km := range coreM {
							a := km.make(l, l, 3, famMixed)
							if a == nil {
								continue
							}
							var want float64
							for i := range x {
								for j := range y {
									want += x[i] * a.val[i][j] * y[j]
								}
							}
							v.calls++
							if p, pv := mustPanic(func() { got = mat.Inner(vx.m.(mat.Vector), a.m, vy.m.(mat.Vector)) }); p {
								t.Failf("Inner(%s, %s, %s) v = %s n=%d: unexpected panic %s", vx.tag, km.name, vy.tag, k.name, l, panicString(pv))
							} else if !eqVal(got, want) {
								t.Failf("Inner(%s, %s, %s) v = %s n=%d = %v want %v", vx.tag, km.name, vy.tag, k.name, l, got, want)
							}
						}
						v.add("ok")
					}
				}
				checkOperands(t, "Dot same "+k.name, []*operand{o})
			}
			v.finish(t, "Dot/Inner same")
		})
		for _, state := range recvStates {
			state := state
			g.Case(fmt.Sprintf("Outer/RankOne same v=%s recv=%s", k.name, state), func(t *vlib.T) {
				var v verdict
				for l := 1; l <= n; l++ {
					o := k.make(l, 1, 1, famMixed)
					if o == nil {
						continue
					}
					vs := vecViews(o)
					for i, vx := range vs {
						for j, vy := range vs {
							x, y := vx.m.(mat.Vector), vy.m.(mat.Vector)
							want := outerM(-2, vvals(vx), vvals(vy))
							rc := newDenseRecv(state, l, l, i+j)
							tag := fmt.Sprintf("Outer(-2, %s, %s) with v = %s n=%d", vx.tag, vy.tag, k.name, l)
							judge(t, &v, tag, state, []*operand{o}, func() { rc.m.Outer(-2, x, y) }, func() string { return rc.check(want, nil) })
							for _, km := range coreM {
								a := km.make(l, l, 3, famMixed)
								if a == nil {
									continue
								}
								want := zipM(a.val, outerM(-2, vvals(vx), vvals(vy)), func(p, q float64) float64 { return p + q })
								rc := newDenseRecv(state, l, l, i+j)
								tag := fmt.Sprintf("RankOne(%s, -2, %s, %s) with v = %s n=%d", km.name, vx.tag, vy.tag, k.name, l)
								judge(t, &v, tag, state, []*operand{o, a}, func() { rc.m.RankOne(a.m, -2, x, y) }, func() string { return rc.check(want, nil) })
							}
						}
					}
					// the vector as the matrix operand as well: a = v (n×1), x = v, y a 1-vector
					one := zooByName["Vec"].make(1, 1, 2, famNonzero)
					want := zipM(o.val, outerM(1, colOf(o.val), colOf(one.val)), func(p, q float64) float64 { return p + q })
					rc := newDenseRecv(state, l, 1, l)
					judge(t, &v, fmt.Sprintf("RankOne(v, 1, v, w) with v = %s n=%d", k.name, l), state, []*operand{o, one},
						func() { rc.m.RankOne(o.m, 1, o.m.(mat.Vector), one.m.(mat.Vector)) }, func() string { return rc.check(want, nil) })
				}
				v.finish(t, "Outer/RankOne same/"+state)
			})
			g.Case(fmt.Sprintf("Vec ops same v=%s recv=%s", k.name, state), func(t *vlib.T) {
				var v verdict
				for l := 1; l <= ln; l++ {
					for _, op := range vecBinOps {
						fam := famMixed
						if op.name == "DivElemVec" {
							fam = famNonzero
						}
						o := k.make(l, 1, 1, fam)
						if o == nil {
							continue
						}
						vs := vecViews(o)
						for i, vx := range vs {
							for j, vy := range vs {
								for kk := 0; kk < op.variants; kk++ {
									want := op.want(vvals(vx), vvals(vy), kk)
									rc := newVecRecv(state, l, i+j+kk)
									tag := fmt.Sprintf("%s(%s, %s) variant %d with v = %s n=%d", op.name, vx.tag, vy.tag, kk, k.name, l)
									judge(t, &v, tag, state, []*operand{o}, func() { op.do(rc.v, vx.m.(mat.Vector), vy.m.(mat.Vector), kk) }, func() string { return rc.check(want, nil) })
								}
							}
						}
					}
					// MulVec(vᵀ, v) = v·v, SolveVec(v, v) = 1, RankTwo(a, α, v, v)
					o := k.make(l, 1, 1, famNonzero)
					if o == nil {
						continue
					}
					vec := o.m.(mat.Vector)
					for i, am := range []mat.Matrix{o.m.T(), mat.TransposeVec{Vector: vec}} {
						rc := newVecRecv(state, 1, i)
						want := []float64{dotV(colOf(o.val), colOf(o.val))}
						judge(t, &v, fmt.Sprintf("MulVec(%s of v, v) with v = %s n=%d", []string{"T()", "TVec()"}[i], k.name, l), state, []*operand{o}, func() { rc.v.MulVec(am, vec) }, func() string { return rc.check(want, nil) })
					}
					rc := newVecRecv(state, 1, 0)
					var err error
					judge(t, &v, fmt.Sprintf("SolveVec(v, v) with v = %s n=%d", k.name, l), state, []*operand{o}, func() { err = rc.v.SolveVec(o.m, vec) }, func() string {
						if err != nil {
							return "error " + err.Error()
						}
						return rc.check([]float64{1}, uniformTol(1e-13))
					})
					for _, ks := range kindsWhere(coreM, isSymmetric) {
						a := ks.make(l, l, 3, famMixed)
						if a == nil {
							continue
						}
						x := colOf(o.val)
						want := zipM(a.val, outerM(2, x, x), func(p, q float64) float64 { return p + 2*q })
						rs := newSymRecv(state, l, 0)
						judge(t, &v, fmt.Sprintf("RankTwo(%s, 2, v, v) with v = %s n=%d", ks.name, k.name, l), state, []*operand{o, a},
							func() { rs.s.RankTwo(a.m.(mat.Symmetric), 2, vec, vec) }, func() string { return rs.check(want, nil) })
					}
				}
				v.finish(t, "Vec ops same/"+state)
			})
		}
	}
}

// solveResidual judges X as a solution of A·X = B by the definition: the residual for consistent
// systems (rows ≤ cols), the normal equations for least squares (rows > cols). The families are well
// conditioned, so a small residual pins X down.
func solveResidual(a, b, x matrix) string {
	ar, ac := dimsOf(a)
	res := zipM(mulM(a, x), b, func(p, q float64) float64 { return p - q })
	scale := maxAbsM(a)*maxAbsM(x) + maxAbsM(b)
	if ar <= ac {
		if mx := maxAbsM(res); !(mx <= 1e-11*float64(ac)*scale) {
			return fmt.Sprintf("A·X − B has an element of magnitude %v (X = %v)", mx, x)
		}
		return ""
	}
	if mx := maxAbsM(mulM(transposeM(a), res)); !(mx <= 1e-10*float64(ar)*maxAbsM(a)*scale) {
		return fmt.Sprintf("Aᵀ(A·X − B) has an element of magnitude %v (X = %v)", mx, x)
	}
	return ""
}

var _ = math.Abs
