package main

// Operations whose receiver is a *VecDense.

import (
	"fmt"
	"math"

	"gonum.org/v1/gonum/internal/verif/vlib"
	"gonum.org/v1/gonum/mat"
)

type vecBinOp struct {
	name     string
	variants int
	famB     family
	want     func(a, b []float64, k int) []float64
	do       func(v *mat.VecDense, a, b mat.Vector, k int)
}

func zipV(a, b []float64, f func(x, y float64) float64) []float64 {
	out := make([]float64, len(a))
	for i := range a {
		out[i] = f(a[i], b[i])
	}
	return out
}

var addScaledAlphas = []float64{2, 0, 1, -1, -0.5}

var vecBinOps = []vecBinOp{
	{"AddVec", 1, famMixed, func(a, b []float64, k int) []float64 {
		return zipV(a, b, func(x, y float64) float64 { return x + y })
	}, func(v *mat.VecDense, a, b mat.Vector, k int) { v.AddVec(a, b) }},
	{"SubVec", 1, famMixed, func(a, b []float64, k int) []float64 {
		return zipV(a, b, func(x, y float64) float64 { return x - y })
	}, func(v *mat.VecDense, a, b mat.Vector, k int) { v.SubVec(a, b) }},
	{"MulElemVec", 1, famMixed, func(a, b []float64, k int) []float64 {
		return zipV(a, b, func(x, y float64) float64 { return x * y })
	}, func(v *mat.VecDense, a, b mat.Vector, k int) { v.MulElemVec(a, b) }},
	{"DivElemVec", 1, famNonzero, func(a, b []float64, k int) []float64 {
		return zipV(a, b, func(x, y float64) float64 { return x / y })
	}, func(v *mat.VecDense, a, b mat.Vector, k int) { v.DivElemVec(a, b) }},
	{"AddScaledVec", len(addScaledAlphas), famMixed, func(a, b []float64, k int) []float64 {
		return zipV(a, b, func(x, y float64) float64 { return x + addScaledAlphas[k]*y })
	}, func(v *mat.VecDense, a, b mat.Vector, k int) { v.AddScaledVec(a, addScaledAlphas[k], b) }},
}

func vecLenMax(g *vlib.G) int { return vlib.Pick(g, 6, 9) }

func genVecBinary(g *vlib.G) {
	vks := kindsWhere(kinds(g, false), isVector)
	n := vecLenMax(g)
	for _, op := range vecBinOps {
		op := op
		tuples([][]*kind{vks, vks}, func(sel []*kind) {
			ka, kb := sel[0], sel[1]
			for _, state := range recvStates {
				state := state
				g.Case(fmt.Sprintf("%s a=%s b=%s recv=%s", op.name, ka.name, kb.name, state), func(t *vlib.T) {
					var v verdict
					for l := 1; l <= n; l++ {
						for k := 0; k < op.variants; k++ {
							a, b := makeVec(ka, l, 1, famMixed), makeVec(kb, l, 2, op.famB)
							if a == nil || b == nil {
								continue
							}
							want := op.want(vecVal(a), vecVal(b), k)
							rc := newVecRecv(state, l, l+k)
							tag := fmt.Sprintf("%s(%s, %s) n=%d variant %d", op.name, ka.name, kb.name, l, k)
							do := func() { op.do(rc.v, a.m.(mat.Vector), b.m.(mat.Vector), k) }
							judge(t, &v, tag, state, []*operand{a, b}, do, func() string { return rc.check(want, nil) })
						}
					}
					v.finish(t, op.name+"/"+state)
				})
			}
		})
	}
}

func genVecUnary(g *vlib.G) {
	vks := kindsWhere(kinds(g, false), isVector)
	n := vecLenMax(g)
	for _, ka := range vks {
		ka := ka
		for _, state := range recvStates {
			state := state
			g.Case(fmt.Sprintf("ScaleVec a=%s recv=%s", ka.name, state), func(t *vlib.T) {
				var v verdict
				for l := 1; l <= n; l++ {
					for k, alpha := range scaleFactors {
						a := makeVec(ka, l, 1, famMixed)
						if a == nil {
							continue
						}
						want := zipV(vecVal(a), vecVal(a), func(x, _ float64) float64 { return alpha * x })
						rc := newVecRecv(state, l, l+k)
						tag := fmt.Sprintf("ScaleVec(%v, %s) n=%d", alpha, ka.name, l)
						judge(t, &v, tag, state, []*operand{a}, func() { rc.v.ScaleVec(alpha, a.m.(mat.Vector)) }, func() string { return rc.check(want, nil) })
					}
				}
				v.finish(t, "ScaleVec/"+state)
			})
			g.Case(fmt.Sprintf("CloneFromVec a=%s recv=%s", ka.name, state), func(t *vlib.T) {
				var v verdict
				for l := 1; l <= n; l++ {
					a := makeVec(ka, l, 1, famMixed)
					if a == nil {
						continue
					}
					rc := newVecRecv(state, l, l)
					if state == "wrong" {
						rc.state = "sized" // any receiver is legal; re-use of its first l cells is fine
					}
					tag := fmt.Sprintf("CloneFromVec(%s) n=%d", ka.name, l)
					// CloneFromVec places no restriction on the receiver.
					judge(t, &v, tag, "zero", []*operand{a}, func() { rc.v.CloneFromVec(a.m.(mat.Vector)) }, func() string {
						if rc.v.Len() != l {
							return fmt.Sprintf("length %d want %d", rc.v.Len(), l)
						}
						for i, w := range vecVal(a) {
							if got := rc.v.AtVec(i); !eqVal(got, w) {
								return fmt.Sprintf("element %d = %s want %v", i, vlib.B64(got), w)
							}
						}
						if msg := rc.outside(); msg != "" {
							failClass(t, "clonefromvec-writes-between-elements-of-strided-receiver", "%s: %s", tag, msg)
						}
						return ""
					})
				}
				v.finish(t, "CloneFromVec/"+state)
			})
		}
		// CopyVec does not resize.
		for _, state := range []string{"sized", "view"} {
			state := state
			g.Case(fmt.Sprintf("CopyVec a=%s recv=%s", ka.name, state), func(t *vlib.T) {
				var v verdict
				for l := 1; l <= n; l++ {
					for ml := 1; ml <= n+2; ml++ { // every receiver length against every source length
						a := makeVec(ka, l, 1, famMixed)
						if a == nil {
							continue
						}
						rc := newVecRecv(state, ml, 0)
						tag := fmt.Sprintf("CopyVec(%s n=%d) into %s n=%d", ka.name, l, state, ml)
						v.calls++
						var got int
						if p, pv := mustPanic(func() { got = rc.v.CopyVec(a.m.(mat.Vector)) }); p {
							t.Failf("%s: unexpected panic %s", tag, panicString(pv))
							continue
						}
						w := min(l, ml)
						if got != w {
							t.Failf("%s: returned %d want %d", tag, got, w)
						}
						if rc.v.Len() != ml {
							t.Failf("%s: receiver length changed to %d", tag, rc.v.Len())
							continue
						}
						for i := 0; i < w; i++ {
							if x := rc.v.AtVec(i); !eqVal(x, vecVal(a)[i]) {
								t.Failf("%s: element %d = %s want %v", tag, i, vlib.B64(x), vecVal(a)[i])
							}
						}
						rc.n = w
						if msg := rc.outside(); msg != "" {
							t.Failf("%s: %s", tag, msg)
						}
						checkOperands(t, tag, []*operand{a})
						v.add("ok")
					}
				}
				v.finish(t, "CopyVec/"+state)
			})
		}
	}
}

// MulVec: every matrix kind with every column-vector kind.
func genMulVec(g *vlib.G) {
	all := kinds(g, false)
	vks := kindsWhere(all, isVector)
	n := dimMax(g)
	tuples([][]*kind{all, vks}, func(sel []*kind) {
		ka, kb := sel[0], sel[1]
		for _, state := range recvStates {
			state := state
			g.Case(fmt.Sprintf("MulVec a=%s b=%s recv=%s", ka.name, kb.name, state), func(t *vlib.T) {
				var v verdict
				for r := 1; r <= n; r++ {
					for c := 1; c <= n; c++ {
						a, b := ka.make(r, c, 1, famMixed), kb.make(c, 1, 2, famMixed)
						if a == nil || b == nil {
							continue
						}
						want := colOf(mulM(a.val, b.val))
						rc := newVecRecv(state, r, r+c)
						tag := fmt.Sprintf("MulVec(%s %s, %s)", ka.name, fmtShape(r, c), kb.name)
						judge(t, &v, tag, state, []*operand{a, b}, func() { rc.v.MulVec(a.m, b.m.(mat.Vector)) }, func() string { return rc.check(want, nil) })
					}
				}
				v.finish(t, "MulVec/"+state)
			})
		}
	})
}

// SolveVec: differential against the packed representation plus the residual definition.
func genSolveVec(g *vlib.G) {
	all := kinds(g, false)
	vks := kindsWhere(kinds(g, true), isVector)
	n := dimMax(g)
	tuples([][]*kind{all, vks}, func(sel []*kind) {
		ka, kb := sel[0], sel[1]
		for _, state := range recvStates {
			state := state
			g.Case(fmt.Sprintf("SolveVec a=%s b=%s recv=%s", ka.name, kb.name, state), func(t *vlib.T) {
				var v verdict
				for r := 1; r <= n; r++ {
					for c := 1; c <= n; c++ {
						fams := []family{famDomDiag}
						if r == c {
							fams = append(fams, famTriUnit)
						}
						for fi, fam := range fams {
							a, b := ka.make(r, c, 1, fam), kb.make(r, 1, 2, famMixed)
							if a == nil || b == nil {
								continue
							}
							var ref mat.VecDense
							if err := ref.SolveVec(denseOfM(a.val), mat.NewVecDense(r, colOf(b.val))); err != nil {
								continue
							}
							want := colOf(mOfDense(&ref))
							if r <= c {
								ax := mulM(a.val, mOfDense(&ref))
								bound := 1e-11 * float64(c) * (maxAbsM(a.val)*maxAbsM(mOfDense(&ref)) + maxAbsM(b.val))
								for i := range ax {
									if math.Abs(ax[i][0]-b.val[i][0]) > bound {
										t.Failf("SolveVec(Dense %v, %v): residual %d = %v", a.val, b.val, i, ax[i][0]-b.val[i][0])
									}
								}
							}
							rc := newVecRecv(state, c, r+c+fi)
							var err error
							tag := fmt.Sprintf("SolveVec(%s %s %v, %s)", ka.name, fmtShape(r, c), fam, kb.name)
							judge(t, &v, tag, state, []*operand{a, b}, func() { err = rc.v.SolveVec(a.m, b.m.(mat.Vector)) }, func() string {
								if err != nil {
									return fmt.Sprintf("returned error %v, the packed representation of the same system returns nil", err)
								}
								mx := 1.0
								for _, w := range want {
									mx = math.Max(mx, math.Abs(w))
								}
								return rc.check(want, uniformTol(1e-12*mx))
							})
						}
					}
				}
				v.finish(t, "SolveVec/"+state)
			})
		}
	})
}
