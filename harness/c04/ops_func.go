package main

// Package-level functions of mat: reductions, comparisons, extraction.

import (
	"fmt"
	"math"

	"gonum.org/v1/gonum/internal/verif/vlib"
	"gonum.org/v1/gonum/mat"
)

// scalarFn is a function of one matrix returning a number.
type scalarFn struct {
	name   string
	fams   []family
	square bool // defined for square matrices only; a non-square argument must panic with ErrSquare
	eval   func(a mat.Matrix) float64
	want   func(a matrix) float64
	relTol float64 // 0: exact
}

func sumM(a matrix) float64 {
	var s float64
	for _, row := range a {
		for _, v := range row {
			s += v
		}
	}
	return s
}

func extremeM(a matrix, sign float64) float64 {
	best := math.Inf(-1)
	for _, row := range a {
		for _, v := range row {
			if sign*v > best {
				best = sign * v
			}
		}
	}
	return sign * best
}

func norm1M(a matrix) float64 {
	r, c := dimsOf(a)
	var mx float64
	for j := 0; j < c; j++ {
		var s float64
		for i := 0; i < r; i++ {
			s += math.Abs(a[i][j])
		}
		mx = math.Max(mx, s)
	}
	return mx
}

func normFroM(a matrix) float64 {
	var s float64
	for _, row := range a {
		for _, v := range row {
			s += v * v
		}
	}
	return math.Sqrt(s)
}

func traceM(a matrix) float64 {
	var s float64
	for i := range a {
		s += a[i][i]
	}
	return s
}

// detM is the Leibniz/cofactor determinant (exact on the integer alphabets for n ≤ 6).
func detM(a matrix) float64 {
	n := len(a)
	if n == 1 {
		return a[0][0]
	}
	var d float64
	for j := 0; j < n; j++ {
		if a[0][j] == 0 {
			continue
		}
		minor := newMatrix(n-1, n-1)
		for i := 1; i < n; i++ {
			cj := 0
			for k := 0; k < n; k++ {
				if k == j {
					continue
				}
				minor[i-1][cj] = a[i][k]
				cj++
			}
		}
		term := a[0][j] * detM(minor)
		if j%2 == 1 {
			term = -term
		}
		d += term
	}
	return d
}

var scalarFns = []scalarFn{
	{"Sum", []family{famMixed, famPos, famNeg}, false, mat.Sum, sumM, 0},
	{"Max", []family{famMixed, famPos, famNeg}, false, mat.Max, func(a matrix) float64 { return extremeM(a, 1) }, 0},
	{"Min", []family{famMixed, famPos, famNeg}, false, mat.Min, func(a matrix) float64 { return extremeM(a, -1) }, 0},
	{"Norm1", []family{famMixed, famPos}, false, func(a mat.Matrix) float64 { return mat.Norm(a, 1) }, norm1M, 0},
	{"NormInf", []family{famMixed, famNeg}, false, func(a mat.Matrix) float64 { return mat.Norm(a, math.Inf(1)) }, func(a matrix) float64 { return norm1M(transposeM(a)) }, 0},
	{"Norm2", []family{famMixed, famPos}, false, func(a mat.Matrix) float64 { return mat.Norm(a, 2) }, normFroM, 64 * 0x1p-52},
	{"Trace", []family{famMixed, famNeg}, true, mat.Trace, traceM, 0},
	{"Det", []family{famMixed, famDomDiag, famTriUnit}, true, mat.Det, detM, 1e-11},
	{"LogDet", []family{famDomDiag, famTriUnit}, true, func(a mat.Matrix) float64 { l, s := mat.LogDet(a); return s * math.Exp(l) }, detM, 1e-11},
}

func genScalarFns(g *vlib.G) {
	ks := kinds(g, false)
	n := dimMax(g)
	for _, fn := range scalarFns {
		fn := fn
		for _, ka := range ks {
			ka := ka
			g.Case(fmt.Sprintf("%s a=%s", fn.name, ka.name), func(t *vlib.T) {
				var v verdict
				for r := 1; r <= n; r++ {
					for c := 1; c <= n; c++ {
						for _, fam := range fn.fams {
							for seed := 1; seed <= 2; seed++ {
								a := ka.make(r, c, seed, fam)
								if a == nil {
									continue
								}
								tag := fmt.Sprintf("%s(%s %s %v seed %d)", fn.name, ka.name, fmtShape(r, c), fam, seed)
								v.calls++
								var got float64
								p, pv := mustPanic(func() { got = fn.eval(a.m) })
								if fn.square && r != c {
									if !p {
										t.Failf("%s: returned %v for a non-square matrix, the documentation promises a panic with ErrSquare", tag, got)
									} else if pv != any(mat.ErrSquare) {
										t.Failf("%s: panic %s, want ErrSquare", tag, panicString(pv))
									} else {
										v.add("ErrSquare")
									}
									continue
								}
								if p {
									t.Failf("%s: unexpected panic %s", tag, panicString(pv))
									continue
								}
								want := fn.want(a.val)
								ok := eqVal(got, want)
								if fn.relTol > 0 {
									scale := math.Max(1, math.Abs(want))
									if fn.name == "Det" || fn.name == "LogDet" {
										scale = math.Max(scale, math.Pow(maxAbsM(a.val), float64(r)))
									}
									ok = !isPoison(got) && math.Abs(got-want) <= fn.relTol*scale
								}
								if !ok {
									t.Failf("%s = %s, want %v (value %v)", tag, vlib.B64(got), want, a.val)
								} else {
									v.add("ok")
								}
								checkOperands(t, tag, []*operand{a})
							}
						}
					}
				}
				v.finish(t, fn.name)
			})
		}
	}
}

// Cond has no independent definition available (1- and ∞-norm condition numbers are LAPACK
// estimates): the oracle is the value for the packed *Dense holding the same matrix.
func genCond(g *vlib.G) {
	ks := kinds(g, false)
	n := dimMax(g)
	for _, ka := range ks {
		ka := ka
		g.Case(fmt.Sprintf("Cond a=%s", ka.name), func(t *vlib.T) {
			var v verdict
			for r := 1; r <= n; r++ {
				for c := 1; c <= n; c++ {
					for _, fam := range []family{famDomDiag, famMixed} {
						a := ka.make(r, c, 1, fam)
						if a == nil {
							continue
						}
						for _, norm := range []float64{1, 2, math.Inf(1)} {
							tag := fmt.Sprintf("Cond(%s %s %v, %v)", ka.name, fmtShape(r, c), fam, norm)
							want := mat.Cond(denseOfM(a.val), norm)
							v.calls++
							var got float64
							if p, pv := mustPanic(func() { got = mat.Cond(a.m, norm) }); p {
								t.Failf("%s: unexpected panic %s", tag, panicString(pv))
								continue
							}
							ok := got == want || (math.IsNaN(got) && math.IsNaN(want))
							if !ok && !math.IsInf(want, 0) && !math.IsInf(got, 0) && want < 1e12 {
								ok = math.Abs(got-want) <= 1e-9*want
							}
							if !ok && want >= 1e12 && got >= 1e11 {
								ok = true // numerically singular: any huge value
							}
							if !ok {
								t.Failf("%s = %v, the packed Dense representation gives %v (value %v)", tag, got, want, a.val)
							} else {
								v.add("ok")
							}
						}
						checkOperands(t, "Cond "+ka.name, []*operand{a})
					}
				}
			}
			v.finish(t, "Cond")
		})
	}
}

// Row and Col.
func genRowCol(g *vlib.G) {
	ks := kinds(g, false)
	n := dimMax(g)
	for _, ka := range ks {
		ka := ka
		for _, which := range []string{"Row", "Col"} {
			which := which
			g.Case(fmt.Sprintf("%s a=%s", which, ka.name), func(t *vlib.T) {
				var v verdict
				for r := 1; r <= n; r++ {
					for c := 1; c <= n; c++ {
						a := ka.make(r, c, 1, famMixed)
						if a == nil {
							continue
						}
						cnt, l := r, c
						if which == "Col" {
							cnt, l = c, r
						}
						for idx := 0; idx < cnt; idx++ {
							for _, withDst := range []bool{false, true} {
								tag := fmt.Sprintf("%s(dst=%v, %d, %s %s)", which, withDst, idx, ka.name, fmtShape(r, c))
								var dst, back []float64
								if withDst {
									back = rpoisoned(l + 4)
									dst = back[2 : 2+l : 2+l]
								}
								v.calls++
								var got []float64
								if p, pv := mustPanic(func() {
									if which == "Row" {
										got = mat.Row(dst, idx, a.m)
									} else {
										got = mat.Col(dst, idx, a.m)
									}
								}); p {
									t.Failf("%s: unexpected panic %s", tag, panicString(pv))
									continue
								}
								if len(got) != l {
									t.Failf("%s: result has length %d, want %d", tag, len(got), l)
									continue
								}
								if withDst && &got[0] != &dst[0] {
									t.Failf("%s: result is not the destination slice", tag)
								}
								for k := 0; k < l; k++ {
									var want float64
									if which == "Col" {
										want = a.val[k][idx]
									} else {
										want = a.val[idx][k]
									}
									if !eqVal(got[k], want) {
										t.Failf("%s: element %d = %s, want %v", tag, k, vlib.B64(got[k]), want)
									}
								}
								for k, x := range back {
									if (k < 2 || k >= 2+l) && math.Float64bits(x) != math.Float64bits(rpoison(k)) {
										t.Failf("%s: wrote outside dst at %d", tag, k-2)
									}
								}
								v.add("ok")
							}
						}
						checkOperands(t, which+" "+ka.name, []*operand{a})
					}
				}
				v.finish(t, which)
			})
		}
	}
}

// Equal and EqualApprox: the same matrix in two representations is equal; one perturbed
// element makes it unequal; the tolerance of EqualApprox is honoured.
func genEqual(g *vlib.G) {
	ks := kinds(g, false)
	n := dimMax(g)
	tuples([][]*kind{ks, ks}, func(sel []*kind) {
		ka, kb := sel[0], sel[1]
		if ka.gen != nil || kb.gen != nil {
			if ka != kb {
				return // factorizations hold their own values only
			}
		}
		g.Case(fmt.Sprintf("Equal a=%s b=%s", ka.name, kb.name), func(t *vlib.T) {
			var v verdict
			for r := 1; r <= n; r++ {
				for c := 1; c <= n; c++ {
					sa, sb := ka.shape(r, c), kb.shape(r, c)
					if sa == nil || sb == nil {
						continue
					}
					var M matrix
					var st *structure
					if ka.gen != nil {
						M, st = ka.generate(r, c, 1, famMixed), stDiag(r)
					} else {
						st = sa.meet(sb)
						M = conform(st, famNonzero, 1)
					}
					a, b := ka.build(M), kb.build(M)
					tag := fmt.Sprintf("(%s, %s) %s", ka.name, kb.name, fmtShape(r, c))
					expect := func(what string, got, want bool) {
						v.calls++
						if got != want {
							t.Failf("%s%s = %v, want %v (a=%v b=%v)", what, tag, got, want, a.val, b.val)
						} else {
							v.add(fmt.Sprint(want))
						}
					}
					if p, pv := mustPanic(func() {
						expect("Equal", mat.Equal(a.m, b.m), true)
						expect("EqualApprox(1e-9)", mat.EqualApprox(a.m, b.m, 1e-9), true)
					}); p {
						t.Failf("Equal%s: unexpected panic %s", tag, panicString(pv))
						continue
					}
					checkOperands(t, "Equal"+tag, []*operand{a, b})
					// perturb one structurally free position of b at a time (with its mirror if symmetric).
					if ka.gen != nil {
						continue
					}
					pos := [][2]int{}
					for i := 0; i < r; i++ {
						for j := 0; j < c; j++ {
							if st.mask[i][j] && !(st.sym && i > j) {
								pos = append(pos, [2]int{i, j})
							}
						}
					}
					for pi, p := range pos {
						if !g.Thorough() && pi != 0 && pi != len(pos)-1 && pi != len(pos)/2 {
							continue
						}
						for _, delta := range []float64{0.25, 8} {
							M2 := newMatrix(r, c)
							for i := range M {
								copy(M2[i], M[i])
							}
							M2[p[0]][p[1]] += delta
							if st.sym {
								M2[p[1]][p[0]] = M2[p[0]][p[1]]
							}
							b2 := kb.build(M2)
							ptag := fmt.Sprintf("%s with b(%d,%d)+=%v", tag, p[0], p[1], delta)
							if pn, pv := mustPanic(func() {
								saved := tag
								tag = ptag
								expect("Equal", mat.Equal(a.m, b2.m), false)
								expect("Equal(b,a)", mat.Equal(b2.m, a.m), false)
								// |x| ≤ 4 on the mask: 0.25 is within the absolute tolerance 0.3, 8 is outside the absolute and the relative one.
								expect("EqualApprox(0.3)", mat.EqualApprox(a.m, b2.m, 0.3), delta < 0.3)
								expect("EqualApprox(0.01)", mat.EqualApprox(b2.m, a.m, 0.01), false)
								tag = saved
							}); pn {
								t.Failf("Equal%s: unexpected panic %s", ptag, panicString(pv))
							}
						}
					}
				}
			}
			// different shapes are never equal
			if a, b := ka.make(2, 1, 1, famMixed), kb.make(1, 2, 1, famMixed); a != nil && b != nil {
				v.calls++
				if mat.Equal(a.m, b.m) || mat.EqualApprox(a.m, b.m, 10) {
					t.Failf("Equal(%s 2x1, %s 1x2) = true", ka.name, kb.name)
				}
			}
			v.finish(t, "Equal")
		})
	})
}

func dotV(x, y []float64) float64 {
	var s float64
	for i := range x {
		s += x[i] * y[i]
	}
	return s
}

// Dot and Inner.
func genDotInner(g *vlib.G) {
	all := kinds(g, false)
	vks := kindsWhere(all, isVector)
	n := dimMax(g)
	tuples([][]*kind{vks, vks}, func(sel []*kind) {
		kx, ky := sel[0], sel[1]
		g.Case(fmt.Sprintf("Dot x=%s y=%s", kx.name, ky.name), func(t *vlib.T) {
			var v verdict
			for l := 1; l <= n+2; l++ {
				x, y := makeVec(kx, l, 1, famMixed), makeVec(ky, l, 2, famMixed)
				if x == nil || y == nil {
					continue
				}
				v.calls++
				var got float64
				tag := fmt.Sprintf("Dot(%s, %s) n=%d", kx.name, ky.name, l)
				if p, pv := mustPanic(func() { got = mat.Dot(x.m.(mat.Vector), y.m.(mat.Vector)) }); p {
					xr, _ := x.m.Dims()
					yr, _ := y.m.Dims()
					if l > 1 && (xr == 1 || yr == 1) {
						// a Vector whose Dims are 1×n (TransposeVec): Dot's generic loop reads At(i, 0)
						failClass(t, "dot-indexes-row-vector-as-column", "%s: panic %s (Dot takes Vectors and checks Len, but its generic loop reads At(i,0) instead of AtVec(i))", tag, panicString(pv))
					} else {
						t.Failf("%s: unexpected panic %s", tag, panicString(pv))
					}
					continue
				}
				if want := dotV(vecVal(x), vecVal(y)); !eqVal(got, want) {
					t.Failf("%s = %s, want %v", tag, vlib.B64(got), want)
				} else {
					v.add("ok")
				}
				checkOperands(t, tag, []*operand{x, y})
			}
			v.finish(t, "Dot")
		})
	})
	coreV := kindsWhere(kinds(g, true), isVector)
	coreM := kinds(g, true)
	seen := map[string]bool{}
	emit := func(kx, ka, ky *kind) {
		key := kx.name + "|" + ka.name + "|" + ky.name
		if seen[key] {
			return
		}
		seen[key] = true
		g.Case(fmt.Sprintf("Inner x=%s a=%s y=%s", kx.name, ka.name, ky.name), func(t *vlib.T) {
			var v verdict
			for r := 1; r <= n; r++ {
				for c := 1; c <= n; c++ {
					for seed := 1; seed <= 2; seed++ {
						a := ka.make(r, c, 2+seed, famMixed)
						x, y := makeVec(kx, r, seed, famMixed), makeVec(ky, c, 5+seed, famMixed)
						if a == nil || x == nil || y == nil {
							continue
						}
						v.calls++
						var got float64
						tag := fmt.Sprintf("Inner(%s, %s %s, %s) seed %d", kx.name, ka.name, fmtShape(r, c), ky.name, seed)
						if p, pv := mustPanic(func() { got = mat.Inner(x.m.(mat.Vector), a.m, y.m.(mat.Vector)) }); p {
							t.Failf("%s: unexpected panic %s", tag, panicString(pv))
							continue
						}
						var want float64
						xv, yv := vecVal(x), vecVal(y)
						for i := range xv {
							for j := range yv {
								want += xv[i] * a.val[i][j] * yv[j]
							}
						}
						if !eqVal(got, want) {
							t.Failf("%s = %s, want %v", tag, vlib.B64(got), want)
						} else {
							v.add("ok")
						}
						checkOperands(t, tag, []*operand{x, a, y})
					}
				}
			}
			v.finish(t, "Inner")
		})
	}
	tuples([][]*kind{coreV, all, coreV}, func(s []*kind) { emit(s[0], s[1], s[2]) })
	tuples([][]*kind{vks, coreM, vks}, func(s []*kind) { emit(s[0], s[1], s[2]) })
}
