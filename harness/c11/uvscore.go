package main

import (
	"fmt"
	"math"
	"reflect"
)

// kinks returns the arguments at which LogProb is not differentiable in x or
// in a parameter: the ends of the support and, for the two piecewise laws, the mode.
func (c *uvCtx) kinks() []float64 {
	var k []float64
	if isFinite(c.lo) {
		k = append(k, c.lo)
	}
	if isFinite(c.hi) {
		k = append(k, c.hi)
	}
	switch c.sp.name {
	case "Laplace":
		k = append(k, c.p[0])
	case "Triangle":
		k = append(k, c.p[2])
	}
	return k
}

// paramMovesKink reports whether perturbing parameter j moves a point where
// LogProb is not differentiable (then the step must stay below the distance to it).
func (c *uvCtx) paramMovesKink(j int) bool {
	switch c.sp.name {
	case "Laplace":
		return j == 0
	case "Triangle", "Uniform":
		return true
	}
	return false
}

func distTo(x float64, ks []float64) float64 {
	d := math.Inf(1)
	for _, k := range ks {
		d = math.Min(d, math.Abs(x-k))
	}
	return d
}

// richardson returns the O(h^4) central-difference derivative of f at 0.
func richardson(f func(float64) float64, h float64) float64 {
	d1 := (f(h) - f(-h)) / (2 * h)
	d2 := (f(h/2) - f(-h/2)) / h
	return (4*d2 - d1) / 3
}

// score checks Score = dLogProb/dtheta and ScoreInput = dLogProb/dx by central
// differences of the type's own LogProb.
func (c *uvCtx) score() {
	s, hasS := c.d.(hasScore)
	si, hasSI := c.d.(hasScoreInput)
	if !hasS && !hasSI {
		return
	}
	r := c.r
	if c.sp.scoreScale == nil {
		r.fail("harness", "", "type %s has Score but the harness has no parameter scale for it", c.sp.name)
		return
	}
	if len(c.qx) == 0 {
		return
	}
	ks := c.kinks()
	// the whole argument grid inside the support, except the very far tail points where
	// LogProb is so large that its differences carry no digits
	var xs []float64
	for _, q := range c.allx {
		if q.tag == "vfar " || q.tag == "out " || q.x < c.lo || q.x > c.hi {
			continue
		}
		xs = append(xs, q.x)
	}
	xs = set(xs, ks)
	span := c.qx[len(c.qx)-1] - c.qx[0]
	np := len(c.p)
	for _, x := range xs {
		x := x
		dist := distTo(x, ks)
		arg := "x=" + g(x)
		if hasS {
			var an []float64
			if pv := catch(func() { an = s.Score(nil, x) }); pv != nil {
				r.fail("Score-panic", arg, "Score panics: %v", pv)
				continue
			}
			if len(an) != np {
				r.fail("Score-length", arg, "len(Score)=%d want %d", len(an), np)
				continue
			}
			// dst semantics: in-place result equals the allocated one.
			dst := make([]float64, np)
			s.Score(dst, x)
			for j := range dst {
				if !(dst[j] == an[j] || math.IsNaN(dst[j]) && math.IsNaN(an[j])) {
					r.fail("Score-dst", arg, "Score(dst)[%d]=%v Score(nil)[%d]=%v", j, dst[j], j, an[j])
				}
			}
			for j := 0; j < np; j++ {
				j := j
				if math.IsNaN(an[j]) {
					if dist == 0 || c.sp.name == "Triangle" && (c.p[2] == c.p[0] || c.p[2] == c.p[1]) {
						c.t.Count("score_nan_at_kink_accepted", 1)
						continue
					}
					r.fail("Score-NaN", fmt.Sprintf("%s j=%d", arg, j), "Score[%s]=NaN away from every kink", c.sp.pnames[j])
					continue
				}
				if dist == 0 {
					continue // one-sided derivative at a kink: not judged
				}
				sc := c.sp.scoreScale(c.p, j)
				h := 1e-4 * sc
				// differences of x - theta lose eps*max(|x|,|theta|): skip when that dominates
				if mx := math.Max(math.Abs(x), math.Abs(c.p[j])); mx*0x1p-52 > 1e-9*math.Min(h, math.Max(dist, 1e-300)) && c.paramMovesKink(j) {
					c.t.Count("score_points_roundoff_dominated", 1)
					continue
				}
				if c.paramMovesKink(j) {
					if dist < 1e-7*sc {
						c.t.Count("score_points_too_close_to_a_kink", 1)
						continue
					}
					h = math.Min(h, 0.02*dist)
				}
				if c.sp.name == "Triangle" {
					// keep a <= c <= b under the perturbation
					if j == 0 || j == 2 {
						if d := math.Abs(c.p[2] - c.p[0]); d < 1e-7*sc {
							c.t.Count("score_points_too_close_to_a_kink", 1)
							continue
						} else {
							h = math.Min(h, 0.02*d)
						}
					}
					if j == 1 || j == 2 {
						if d := math.Abs(c.p[1] - c.p[2]); d < 1e-7*sc {
							c.t.Count("score_points_too_close_to_a_kink", 1)
							continue
						} else {
							h = math.Min(h, 0.02*d)
						}
					}
				}
				f := func(e float64) float64 {
					q := append([]float64(nil), c.p...)
					q[j] += e
					c.evals++
					return c.sp.mk(q, nil).(hasLogProb).LogProb(x)
				}
				num := richardson(f, h)
				if !closeRA(an[j], num, tolScoreRel, tolScoreAbs/sc) {
					r.fail("Score=dLogProb/dtheta", fmt.Sprintf("%s j=%d", arg, j), "Score[%s]=%v central difference=%v (h=%g)", c.sp.pnames[j], an[j], num, h)
				}
				c.t.Count("score_components_checked", 1)
			}
		}
		if hasSI {
			var an float64
			if pv := catch(func() { an = si.ScoreInput(x) }); pv != nil {
				r.fail("ScoreInput-panic", arg, "ScoreInput panics: %v", pv)
				continue
			}
			if math.IsNaN(an) {
				if dist == 0 {
					c.t.Count("score_nan_at_kink_accepted", 1)
				} else {
					r.fail("ScoreInput-NaN", arg, "ScoreInput=NaN away from every kink")
				}
				continue
			}
			if dist == 0 {
				continue
			}
			if dist < 1e-7*span {
				c.t.Count("score_points_too_close_to_a_kink", 1)
				continue
			}
			h := math.Min(1e-4*span, 0.02*dist)
			if math.Abs(x)*0x1p-52 > 1e-9*h {
				c.t.Count("score_points_roundoff_dominated", 1)
				continue
			}
			f := func(e float64) float64 { c.evals++; return c.d.(hasLogProb).LogProb(x + e) }
			num := richardson(f, h)
			if !closeRA(an, num, tolScoreRel, tolScoreAbs/span) {
				r.fail("ScoreInput=dLogProb/dx", arg, "ScoreInput=%v central difference=%v (h=%g)", an, num, h)
			}
			c.t.Count("score_components_checked", 1)
		}
	}
}

// ----------------------------------------------------------------------------
// Fit and ConjugateUpdate.

func (c *uvCtx) newPtr() reflect.Value {
	pv := reflect.New(reflect.TypeOf(c.d))
	return pv
}

// readParams reads the fields named like the spec's parameters from a struct pointer.
func (c *uvCtx) readParams(pv reflect.Value) ([]float64, bool) {
	out := make([]float64, len(c.sp.pnames))
	for i, n := range c.sp.pnames {
		f := pv.Elem().FieldByName(n)
		if !f.IsValid() || f.Kind() != reflect.Float64 {
			return nil, false
		}
		out[i] = f.Float()
	}
	return out, true
}

func (c *uvCtx) setParams(pv reflect.Value, p []float64) {
	for i, n := range c.sp.pnames {
		pv.Elem().FieldByName(n).SetFloat(p[i])
	}
}

func (c *uvCtx) loglik(p []float64, x, w []float64) float64 {
	d := c.sp.mk(p, nil).(hasLogProb)
	s := 0.0
	for i, v := range x {
		wi := 1.0
		if w != nil {
			wi = w[i]
		}
		s += wi * d.LogProb(v)
	}
	return s
}

func (c *uvCtx) fit() {
	pt := reflect.PointerTo(reflect.TypeOf(c.d))
	if _, ok := pt.MethodByName("Fit"); !ok {
		return
	}
	r := c.r
	q, ok := c.d.(hasQuantile)
	if !ok {
		r.fail("harness", "", "type %s has Fit but no Quantile to build exact samples", c.sp.name)
		return
	}
	n := fitN
	xs := make([]float64, n)
	for i := range xs {
		xs[i] = q.Quantile((float64(i) + 0.5) / float64(n))
	}
	ones := make([]float64, n)
	w3 := make([]float64, n)
	wr := make([]float64, n)
	wz := make([]float64, n) // zero weights: two of three samples do not count
	wd := make([]float64, n) // one dominant weight
	wt := make([]float64, n) // tiny weights
	for i := range ones {
		ones[i] = 1
		w3[i] = 1 + float64(i%3)
		wr[i] = 0.25 + float64((i*7)%n)/float64(n) // strongly non-uniform: shifts the weighted median
		if i%3 == 1 {
			wz[i] = 1 + float64(i%5)
		}
		wd[i] = 1
		wt[i] = 1e-8 * (1 + float64(i%4))
	}
	wd[n/4] = 1e6
	perm := make([]int, n)
	for i := range perm {
		perm[i] = (i*37 + 11) % n // 37 is coprime to 400
	}
	doFit := func(x, w []float64) ([]float64, any) {
		pv := c.newPtr()
		var args []reflect.Value
		args = append(args, reflect.ValueOf(append([]float64(nil), x...)))
		if w == nil {
			args = append(args, reflect.ValueOf([]float64(nil)))
		} else {
			args = append(args, reflect.ValueOf(append([]float64(nil), w...)))
		}
		var pan any
		func() {
			defer func() { pan = recover() }()
			pv.MethodByName("Fit").Call(args)
		}()
		if pan != nil {
			return nil, pan
		}
		p, ok := c.readParams(pv)
		if !ok {
			return nil, "cannot read parameters"
		}
		return p, nil
	}
	type ds struct {
		name string
		x, w []float64
	}
	px := make([]float64, n)
	pw3 := make([]float64, n)
	pwr := make([]float64, n)
	pwz := make([]float64, n)
	pwd := make([]float64, n)
	pwt := make([]float64, n)
	for i, j := range perm {
		px[i], pw3[i], pwr[i], pwz[i], pwd[i], pwt[i] = xs[j], w3[j], wr[j], wz[j], wd[j], wt[j]
	}
	sets := []ds{
		{"sorted,nil", xs, nil}, {"sorted,ones", xs, ones}, {"sorted,w123", xs, w3}, {"sorted,wramp", xs, wr},
		{"shuffled,nil", px, nil}, {"shuffled,w123", px, pw3}, {"shuffled,wramp", px, pwr},
		{"sorted,wzero", xs, wz}, {"shuffled,wzero", px, pwz}, {"sorted,wdominant", xs, wd}, {"shuffled,wdominant", px, pwd},
		{"sorted,wtiny", xs, wt}, {"shuffled,wtiny", px, pwt},
	}
	fits := map[string][]float64{}
	scale := xs[n-1] - xs[0]
	for _, s := range sets {
		p, pan := doFit(s.x, s.w)
		if pan != nil {
			r.fail("Fit-panic", s.name, "Fit panics: %v", pan)
			continue
		}
		fits[s.name] = p
		// maximum likelihood: not beaten by the generating parameters nor by any neighbour.
		ll := c.loglik(p, s.x, s.w)
		if math.IsNaN(ll) {
			r.fail("Fit-MLE", s.name, "log-likelihood of the fitted parameters %v is NaN", p)
			continue
		}
		sumw := float64(n)
		if s.w != nil {
			sumw = 0
			for _, v := range s.w {
				sumw += v
			}
		}
		tol := tolFitLL * (math.Abs(ll) + sumw)
		if l0 := c.loglik(c.p, s.x, s.w); l0 > ll+tol {
			r.cls(fitClass(c.sp.name, s.name), "Fit-MLE", s.name, "fitted %v has log-likelihood %v < %v at the generating parameters %v", p, ll, l0, c.p)
			continue
		}
		for j := range p {
			for _, rel := range []float64{1e-2, 1e-4, -1e-2, -1e-4} {
				qn := append([]float64(nil), p...)
				qn[j] += rel * scale
				if c.sp.name != "Normal" && c.sp.name != "Laplace" || j == 1 {
					if qn[j] <= 0 {
						continue
					}
				}
				if l1 := c.loglik(qn, s.x, s.w); l1 > ll+tol {
					r.cls(fitClass(c.sp.name, s.name), "Fit-MLE", s.name, "fitted %v has log-likelihood %v < %v at neighbour %v", p, ll, l1, qn)
					break
				}
			}
		}
		c.t.Count("fits_checked", 1)
	}
	same := func(a, b string) {
		pa, pb := fits[a], fits[b]
		if pa == nil || pb == nil {
			return
		}
		for j := range pa {
			if !closeRA(pa[j], pb[j], tolFitParam, tolFitParam*scale) {
				r.cls(fitClass(c.sp.name, b), "Fit-invariance", a+" vs "+b, "Fit gives %v for (%s) but %v for (%s)", pa, a, pb, b)
				return
			}
		}
	}
	same("sorted,nil", "sorted,ones")
	same("sorted,nil", "shuffled,nil")
	same("sorted,w123", "shuffled,w123")
	same("sorted,wramp", "shuffled,wramp")
	same("sorted,wzero", "shuffled,wzero")
	same("sorted,wdominant", "shuffled,wdominant")
	same("sorted,wtiny", "shuffled,wtiny")

	// ConjugateUpdate: posterior from (prior = Fit(A) with strength sum(wA)) and the
	// sufficient statistics of B equals Fit(A u B); strengths add up.
	if _, ok := pt.MethodByName("ConjugateUpdate"); !ok {
		return
	}
	m := 150
	bx := make([]float64, m)
	bw := make([]float64, m)
	for i := range bx {
		bx[i] = xs[0] + 1.5*(q.Quantile((float64(i)+0.5)/float64(m))-xs[0]) + 0.25*scale
		bw[i] = 1 + float64(i%2)
	}
	for _, aw := range []struct {
		name string
		w    []float64
	}{{"A:nil", nil}, {"A:w123", w3}} {
		pa, pan := doFit(xs, aw.w)
		if pan != nil {
			continue
		}
		nA := float64(n)
		wa := aw.w
		if wa == nil {
			wa = ones
		} else {
			nA = 0
			for _, v := range wa {
				nA += v
			}
		}
		pv := c.newPtr()
		c.setParams(pv, pa)
		nss := int(pv.MethodByName("NumSuffStat").Call(nil)[0].Int())
		ss := make([]float64, nss)
		nB := pv.MethodByName("SuffStat").Call([]reflect.Value{reflect.ValueOf(ss), reflect.ValueOf(bx), reflect.ValueOf(bw)})[0].Float()
		sumB := 0.0
		for _, v := range bw {
			sumB += v
		}
		if !closeRA(nB, sumB, 1e-14, 0) {
			r.fail("SuffStat-nSamples", aw.name, "SuffStat returns %v samples; sum of weights %v", nB, sumB)
		}
		prior := make([]float64, nss)
		for i := range prior {
			prior[i] = nA
		}
		var pan2 any
		func() {
			defer func() { pan2 = recover() }()
			pv.MethodByName("ConjugateUpdate").Call([]reflect.Value{reflect.ValueOf(ss), reflect.ValueOf(nB), reflect.ValueOf(prior)})
		}()
		if pan2 != nil {
			r.fail("ConjugateUpdate-panic", aw.name, "ConjugateUpdate panics: %v", pan2)
			continue
		}
		post, _ := c.readParams(pv)
		pooled, pan3 := doFit(append(append([]float64(nil), xs...), bx...), append(append([]float64(nil), wa...), bw...))
		if pan3 != nil {
			continue
		}
		for j := range post {
			if !closeRA(post[j], pooled[j], 1e-10, 1e-10*scale) {
				r.fail("ConjugateUpdate=pooled-Fit", aw.name, "posterior %v; Fit on the pooled sample %v", post, pooled)
				break
			}
		}
		for i, v := range prior {
			if !closeRA(v, nA+sumB, 1e-14, 0) {
				r.fail("ConjugateUpdate-strength", aw.name, "priorStrength[%d]=%v want %v", i, v, nA+sumB)
			}
		}
		c.t.Count("conjugate_updates_checked", 1)
	}
}

func fitClass(dist, set string) string {
	if dist == "Laplace" && len(set) >= 8 && set[:8] == "shuffled" {
		return "laplace-fit-unsorted-weights"
	}
	return ""
}
