package main

import (
	"fmt"
	"reflect"

	"gonum.org/v1/gonum/internal/verif/vlib"
	"gonum.org/v1/gonum/mat"
	"gonum.org/v1/gonum/stat/distmv"
	"gonum.org/v1/gonum/stat/distuv"
	"gonum.org/v1/gonum/stat/samplemv"
	"gonum.org/v1/gonum/stat/sampleuv"
)

// Rejected calls (group histories): a call that is rejected with a documented panic (wrong
// length, negative weight, index outside the object) is part of the history alphabet of every
// stateful object. The caller recovers and keeps using the object; ALL observables must then be
// those of a model that ignored the call: receiver, caller-owned argument slices, destinations
// and the random source are untouched. The Categorical/Weighted alphabets are in histories.go;
// this file covers the remaining stateful objects.

func genRejected(gen *vlib.G) {
	gen.Case("rejected calls: distmv.Normal.SetMean histories", checkSetMeanHistories)
	gen.Case("rejected calls: distuv Fit ConjugateUpdate SuffStat Score", checkRejectedUV)
	gen.Case("rejected calls: samplers with wrong batch sizes", checkRejectedSamplers)
}

func checkSetMeanHistories(t *vlib.T) {
	r := &rep{t: t}
	t.Nontrivial()
	nh, nrej := 0, 0
	for _, c := range mvCases() {
		n := c.sigma.n
		if n < 2 || n > 3 {
			continue
		}
		type op struct {
			mu     []float64
			reject bool
		}
		muA := addv(c.mu, 1.5)
		muB := make([]float64, n)
		ops := []op{{muA, false}, {muB, false}, {make([]float64, n-1), true}, {append(addv(c.mu, 9), 9), true}, {nil, true}}
		x := mvPoints(c)[3]
		radices := []int{}
		for depth := 1; depth <= 3; depth++ {
			radices = append(radices, len(ops))
			vlib.Product(radices, func(ix []int) bool {
				d, _ := distmv.NewNormal(c.mu, c.sigma.sym(), newScript(16, 3, 9, 14, 0, 7))
				model := append([]float64(nil), c.mu...)
				arg := c.name
				for _, k := range ix {
					o := ops[k]
					arg += fmt.Sprintf(" SetMean(len %d)", len(o.mu))
					arg0 := append([]float64(nil), o.mu...)
					pan := catch(func() { d.SetMean(o.mu) })
					if o.reject {
						nrej++
						if pan == nil {
							r.fail("SetMean with a wrong length must panic", arg, "no panic")
							return false
						}
					} else {
						if pan != nil {
							r.fail("SetMean history", arg, "panics: %v", pan)
							return false
						}
						copy(model, o.mu)
					}
					if !bitsEq(o.mu, arg0) {
						r.fail("SetMean must not write to its argument", arg, "%v became %v", arg0, o.mu)
					}
				}
				nh++
				fresh, _ := distmv.NewNormal(model, c.sigma.sym(), newScript(16, 3, 9, 14, 0, 7))
				if got := d.Mean(nil); !bitsEq(got, model) {
					r.fail("SetMean history: Mean", arg, "%v, the accepted calls give %v", got, model)
					return true
				}
				if got, want := d.LogProb(x), fresh.LogProb(x); got != want {
					r.fail("SetMean history: LogProb", arg, "%v, a fresh Normal with that mean gives %v", got, want)
				}
				if got, want := d.Rand(nil), fresh.Rand(nil); !bitsEq(got, want) {
					r.fail("SetMean history: Rand", arg, "%v, a fresh Normal with that mean gives %v", got, want)
				}
				return true
			})
		}
	}
	// samplemv.ProposalNormal moves the mean of one shared Normal
	{
		sigma := mat.NewSymDense(2, []float64{0.5, 0.1, 0.1, 0.25})
		x, y := []float64{0.2, -0.1}, []float64{1, 0.5}
		fresh, _ := samplemv.NewProposalNormal(sigma, newScript(16, 3, 9, 14, 0))
		want := fresh.ConditionalLogProb(x, y)
		wantR := fresh.ConditionalRand(nil, y)
		for i, bad := range []func(p *samplemv.ProposalNormal){
			func(p *samplemv.ProposalNormal) { p.ConditionalRand(make([]float64, 1), y) },
			func(p *samplemv.ProposalNormal) { p.ConditionalRand(make([]float64, 3), []float64{5, 5, 5}) },
			func(p *samplemv.ProposalNormal) { p.ConditionalRand(nil, []float64{5}) },
			func(p *samplemv.ProposalNormal) { p.ConditionalLogProb(x, []float64{5, 5, 5}) },
			func(p *samplemv.ProposalNormal) { p.ConditionalLogProb([]float64{5}, y) },
		} {
			src := newScript(16, 3, 9, 14, 0)
			p, _ := samplemv.NewProposalNormal(sigma, src)
			p.ConditionalLogProb(x, y)
			arg := fmt.Sprintf("bad call %d", i)
			nrej++
			if catch(func() { bad(p) }) == nil {
				r.fail("ProposalNormal: call with wrong lengths must panic", arg, "no panic")
				continue
			}
			if src.n != 0 {
				r.fail("rejected call must not consume the random source", "ProposalNormal "+arg, "%d draws", src.n)
			}
			if got := p.ConditionalLogProb(x, y); got != want {
				r.fail("ProposalNormal after a rejected call: ConditionalLogProb", arg, "%v want %v", got, want)
			}
			if got := p.ConditionalRand(nil, y); !bitsEq(got, wantR) {
				r.fail("ProposalNormal after a rejected call: ConditionalRand", arg, "%v want %v", got, wantR)
			}
		}
	}
	t.Count("histories", int64(nh))
	t.Count("rejected_calls_in_histories", int64(nrej))
	t.Outcome("SetMean")
}

// checkRejectedUV: every distuv type with Fit / ConjugateUpdate / SuffStat / Score; the call
// with mismatched lengths panics and leaves receiver and slices as they were.
func checkRejectedUV(t *vlib.T) {
	r := &rep{t: t}
	t.Nontrivial()
	nrej := 0
	for _, sp := range uvSpecs() {
		grid := sp.grid(false)
		p := grid[len(grid)/2]
		d := sp.mk(p, nil)
		pv := reflect.New(reflect.TypeOf(d))
		pv.Elem().Set(reflect.ValueOf(d))
		if _, isCat := d.(distuv.Categorical); isCat {
			continue // slice-backed: histories.go
		}
		snapshot := reflect.ValueOf(d).Interface()
		same := func(what string) {
			if !reflect.DeepEqual(pv.Elem().Interface(), snapshot) {
				r.fail("rejected call must leave the receiver unchanged", sp.name+" "+what, "%+v became %+v", snapshot, pv.Elem().Interface())
				pv.Elem().Set(reflect.ValueOf(d))
			}
		}
		reject := func(what string, slices [][]float64, f func()) {
			before := make([][]float64, len(slices))
			for i, s := range slices {
				before[i] = append([]float64(nil), s...)
			}
			nrej++
			if catch(f) == nil {
				r.fail("call with mismatched lengths must panic", sp.name+" "+what, "no panic")
			}
			same(what)
			for i, s := range slices {
				if !bitsEq(s, before[i]) {
					r.fail("rejected call must leave caller-owned slices unchanged", sp.name+" "+what, "slice %d: %v became %v", i, before[i], s)
				}
			}
		}
		xs := []float64{0.3, 0.6, 0.8}
		if q, ok := d.(hasQuantile); ok {
			xs = []float64{q.Quantile(0.2), q.Quantile(0.5), q.Quantile(0.9)}
		}
		if f, ok := pv.Interface().(interface {
			Fit(samples, weights []float64)
		}); ok {
			w2 := []float64{1, 2}
			w4 := []float64{1, 2, 3, 4}
			reject("Fit(3 samples, 2 weights)", [][]float64{xs, w2}, func() { f.Fit(xs, w2) })
			reject("Fit(3 samples, 4 weights)", [][]float64{xs, w4}, func() { f.Fit(xs, w4) })
		}
		if cu, ok := pv.Interface().(interface {
			ConjugateUpdate(suffStat []float64, nSamples float64, priorStrength []float64)
			NumSuffStat() int
			SuffStat(suffStat, samples, weights []float64) float64
		}); ok {
			k := cu.NumSuffStat()
			good := make([]float64, k)
			cu.SuffStat(good, xs, nil)
			same("SuffStat")
			prior := make([]float64, k)
			for i := range prior {
				prior[i] = 2.5
			}
			short, long := make([]float64, k-1), append(append([]float64(nil), good...), 1)
			for i := range short {
				short[i] = good[i]
			}
			pshort, plong := make([]float64, k-1), append(append([]float64(nil), prior...), 1)
			for i := range pshort {
				pshort[i] = 2.5
			}
			reject("ConjugateUpdate(short suffStat)", [][]float64{short, prior}, func() { cu.ConjugateUpdate(short, 3, prior) })
			reject("ConjugateUpdate(long suffStat)", [][]float64{long, prior}, func() { cu.ConjugateUpdate(long, 3, prior) })
			reject("ConjugateUpdate(short priorStrength)", [][]float64{good, pshort}, func() { cu.ConjugateUpdate(good, 3, pshort) })
			reject("ConjugateUpdate(long priorStrength)", [][]float64{good, plong}, func() { cu.ConjugateUpdate(good, 3, plong) })
			dst := make([]float64, k+1)
			vlib.FillPoison64(dst)
			reject("SuffStat(long dst)", [][]float64{dst, xs}, func() { cu.SuffStat(dst, xs, nil) })
			dst2 := make([]float64, k)
			vlib.FillPoison64(dst2)
			w2 := []float64{1, 2}
			reject("SuffStat(3 samples, 2 weights)", [][]float64{dst2, xs, w2}, func() { cu.SuffStat(dst2, xs, w2) })
		}
		if s, ok := pv.Interface().(hasScore); ok {
			k := len(sp.pnames)
			long, short := make([]float64, k+1), make([]float64, k-1)
			vlib.FillPoison64(long)
			vlib.FillPoison64(short)
			reject("Score(long deriv)", [][]float64{long}, func() { s.Score(long, xs[1]) })
			reject("Score(short deriv)", [][]float64{short}, func() { s.Score(short, xs[1]) })
		}
	}
	t.Count("rejected_calls_in_histories", int64(nrej))
	t.Outcome("distuv rejected")
}

func denseFlat(m *mat.Dense) []float64 {
	r, c := m.Dims()
	out := make([]float64, 0, r*c)
	for i := 0; i < r; i++ {
		out = append(out, m.RawRowView(i)...)
	}
	return out
}

func checkRejectedSamplers(t *vlib.T) {
	r := &rep{t: t}
	t.Nontrivial()
	nrej := 0
	target2, _ := distmv.NewNormal([]float64{0.5, -0.25}, mat.NewSymDense(2, []float64{1, 0.3, 0.3, 0.5}), nil)
	wide2 := mat.NewSymDense(2, []float64{4, 0, 0, 4})
	script := func() *gridSrc { return newScript(64, 3, 40, 14, 60, 7, 22, 51, 9, 33, 18, 2, 47) }
	// mv: each entry runs the sampler on (batch, weights) with the given source
	type mvS struct {
		name            string
		goodR, goodC    int
		badR, badC, bwN int // rejected call: batch badR x badC and bwN weights
		run             func(b *mat.Dense, w []float64, src *gridSrc)
	}
	mvs := []mvS{
		{"samplemv.MetropolisHastingser (3 columns, Initial of length 2)", 3, 2, 3, 3, 0, func(b *mat.Dense, w []float64, src *gridSrc) {
			samplemv.MetropolisHastingser{Initial: []float64{0.1, 0.2}, Target: target2, Proposal: &arProposalMV{steps: mhSteps}, Src: src, BurnIn: 2, Rate: 2}.Sample(b)
		}},
		{"samplemv.MetropolisHastingser (1 column)", 3, 2, 2, 1, 0, func(b *mat.Dense, w []float64, src *gridSrc) {
			samplemv.MetropolisHastingser{Initial: []float64{0.1, 0.2}, Target: target2, Proposal: &arProposalMV{steps: mhSteps}, Src: src}.Sample(b)
		}},
		{"samplemv.SampleUniformWeighted (fewer weights)", 3, 2, 3, 2, 2, func(b *mat.Dense, w []float64, src *gridSrc) {
			samplemv.SampleUniformWeighted{Sampler: samplemv.LatinHypercube{Q: distmv.NewUnitUniform(2, nil), Src: src}}.SampleWeighted(b, w)
		}},
		{"samplemv.SampleUniformWeighted (more weights)", 3, 2, 3, 2, 4, func(b *mat.Dense, w []float64, src *gridSrc) {
			samplemv.SampleUniformWeighted{Sampler: samplemv.IID{Dist: distmv.NewUnitUniform(2, src)}}.SampleWeighted(b, w)
		}},
		{"samplemv.Importance (fewer weights)", 3, 2, 3, 2, 2, func(b *mat.Dense, w []float64, src *gridSrc) {
			prop, _ := distmv.NewNormal([]float64{0, 0}, wide2, src)
			samplemv.Importance{Target: target2, Proposal: prop}.SampleWeighted(b, w)
		}},
		{"samplemv.Importance (more weights)", 3, 2, 3, 2, 5, func(b *mat.Dense, w []float64, src *gridSrc) {
			prop, _ := distmv.NewNormal([]float64{0, 0}, wide2, src)
			samplemv.Importance{Target: target2, Proposal: prop}.SampleWeighted(b, w)
		}},
	}
	for _, s := range mvs {
		wn := 0
		if s.bwN > 0 {
			wn = s.goodR
		}
		ref := mat.NewDense(s.goodR, s.goodC, nil)
		refW := make([]float64, wn)
		s.run(ref, refW, script())
		src := script()
		bad := mat.NewDense(s.badR, s.badC, nil)
		for i := 0; i < s.badR; i++ {
			for j := 0; j < s.badC; j++ {
				bad.Set(i, j, 0.75+float64(i+j))
			}
		}
		badBefore := denseFlat(bad)
		badW := make([]float64, s.bwN)
		for i := range badW {
			badW[i] = 0.5
		}
		badWBefore := append([]float64(nil), badW...)
		nrej++
		if catch(func() { s.run(bad, badW, src) }) == nil {
			r.fail("sampler must reject a batch of the wrong size", s.name, "no panic")
			continue
		}
		if !bitsEq(denseFlat(bad), badBefore) || !bitsEq(badW, badWBefore) {
			r.fail("rejected Sample must not write to batch or weights", s.name, "batch %v weights %v", denseFlat(bad), badW)
		}
		if src.n != 0 {
			r.fail("rejected call must not consume the random source", s.name, "%d draws", src.n)
			src = script()
		}
		got := mat.NewDense(s.goodR, s.goodC, nil)
		gotW := make([]float64, wn)
		s.run(got, gotW, src)
		if !bitsEq(denseFlat(got), denseFlat(ref)) || !bitsEq(gotW, refW) {
			r.fail("Sample after a rejected call = Sample of a fresh sampler", s.name, "%v %v want %v %v", denseFlat(got), gotW, denseFlat(ref), refW)
		}
	}
	// Rejection keeps Err/Proposed, documented as describing "the most recent call to Sample": after
	// a rejected call (C < 1) they are either unchanged or those of a call that proposed nothing
	// (the implementation resets them first); batch and source must be untouched.
	{
		prop, _ := distmv.NewNormal([]float64{0, 0}, wide2, nil)
		src := script()
		rej := &samplemv.Rejection{C: 9.6, Target: target2, Proposal: prop, Src: src}
		b := mat.NewDense(2, 2, nil)
		prop2, _ := distmv.NewNormal([]float64{0, 0}, wide2, src)
		rej.Proposal = prop2
		rej.Sample(b)
		err0, n0, d0 := rej.Err(), rej.Proposed(), src.n
		before := denseFlat(b)
		rej.C = 0.5
		nrej++
		if catch(func() { rej.Sample(b) }) == nil {
			r.fail("Rejection with C < 1 must panic", "samplemv", "no panic")
		}
		if rej.Err() != nil || (rej.Proposed() != n0 && rej.Proposed() != 0) || src.n != d0 || !bitsEq(denseFlat(b), before) {
			r.fail("rejected Sample must leave batch/source unchanged and Err/Proposed consistent", "samplemv.Rejection", "Err %v -> %v, Proposed %d -> %d, draws %d -> %d", err0, rej.Err(), n0, rej.Proposed(), d0, src.n)
		}
		usrc := script()
		urej := &sampleuv.Rejection{C: 20, Target: distuv.Normal{Mu: 0.5, Sigma: 1}, Proposal: distuv.Normal{Mu: 0, Sigma: 2, Src: usrc}, Src: usrc}
		ub := make([]float64, 3)
		urej.Sample(ub)
		uerr, un, ud := urej.Err(), urej.Proposed(), usrc.n
		ubefore := append([]float64(nil), ub...)
		urej.C = 0.5
		nrej++
		if catch(func() { urej.Sample(ub) }) == nil {
			r.fail("Rejection with C < 1 must panic", "sampleuv", "no panic")
		}
		if urej.Err() != nil || (urej.Proposed() != un && urej.Proposed() != 0) || usrc.n != ud || !bitsEq(ub, ubefore) {
			r.fail("rejected Sample must leave batch/source unchanged and Err/Proposed consistent", "sampleuv.Rejection", "Err %v -> %v, Proposed %d -> %d, draws %d -> %d", uerr, urej.Err(), un, urej.Proposed(), ud, usrc.n)
		}
	}
	// uv weighted samplers
	type uvS struct {
		name string
		run  func(b, w []float64, src *gridSrc)
	}
	for _, s := range []uvS{
		{"sampleuv.SampleUniformWeighted", func(b, w []float64, src *gridSrc) {
			sampleuv.SampleUniformWeighted{Sampler: sampleuv.LatinHypercube{Q: distuv.Uniform{Min: 0, Max: 1}, Src: src}}.SampleWeighted(b, w)
		}},
		{"sampleuv.Importance", func(b, w []float64, src *gridSrc) {
			sampleuv.Importance{Target: distuv.Normal{Mu: 0.5, Sigma: 1}, Proposal: distuv.Normal{Mu: 0, Sigma: 2, Src: src}}.SampleWeighted(b, w)
		}},
	} {
		ref, refW := make([]float64, 3), make([]float64, 3)
		s.run(ref, refW, script())
		for _, wn := range []int{2, 4} {
			src := script()
			b, w := []float64{0.75, 1.75, 2.75}, make([]float64, wn)
			for i := range w {
				w[i] = 0.5
			}
			b0, w0 := append([]float64(nil), b...), append([]float64(nil), w...)
			arg := fmt.Sprintf("%s 3 samples %d weights", s.name, wn)
			nrej++
			if catch(func() { s.run(b, w, src) }) == nil {
				r.fail("sampler must reject weights of the wrong length", arg, "no panic")
				continue
			}
			if !bitsEq(b, b0) || !bitsEq(w, w0) || src.n != 0 {
				r.fail("rejected SampleWeighted must not write or draw", arg, "batch %v weights %v draws %d", b, w, src.n)
				continue
			}
			got, gotW := make([]float64, 3), make([]float64, 3)
			s.run(got, gotW, src)
			if !bitsEq(got, ref) || !bitsEq(gotW, refW) {
				r.fail("Sample after a rejected call = Sample of a fresh sampler", arg, "%v %v want %v %v", got, gotW, ref, refW)
			}
		}
	}
	t.Count("rejected_calls_in_histories", int64(nrej))
	t.Outcome("samplers rejected")
}
