package main

import (
	"fmt"
	"math"
	"math/rand/v2"

	"gonum.org/v1/gonum/internal/verif/vlib"
)

const (
	drawCap       = 100000 // cap on Uint64 answers consumed by one Rand call (reported when hit)
	ksRejection   = 0.05
	ksInvFactor   = 2.0 // inversion samplers: KS <= ksInvFactor/K
	alphabetKSMax = 1.0 // rand-alphabet self-check: KS of each primitive <= alphabetKSMax/K
)

// genAlphabet is the self-check of the enumerated environment: the push-forward
// of every alphabet through Float64, ExpFloat64 and NormFloat64 is within 1/K of
// U(0,1), Exp(1), N(0,1) in Kolmogorov distance.
func genAlphabet(gen *vlib.G) {
	for _, K := range []int{24, 32, 64, 128, 4096} {
		K := K
		gen.Case(fmt.Sprintf("K=%d", K), func(t *vlib.T) {
			a := getAlphabet(K)
			u := make([]float64, K)
			e := make([]float64, K)
			n := make([]float64, K)
			w := make([]float64, K)
			slow := 0
			for k := 0; k < K; k++ {
				// through the real dispatch: the environment must recognise who asks
				s := &gridSrc{a: a, idx: []int{k}, limit: 100}
				u[k] = rand.New(s).Float64()
				s = &gridSrc{a: a, idx: []int{k}, limit: 100}
				e[k] = rand.New(s).ExpFloat64()
				if s.n > 1 {
					slow++
				}
				s = &gridSrc{a: a, idx: []int{k}, limit: 100}
				n[k] = rand.New(s).NormFloat64()
				if s.n > 1 {
					slow++
				}
				w[k] = 1 / float64(K)
				if math.Abs(u[k]-(float64(k)+0.5)/float64(K)) > 0x1p-52 {
					t.Failf("answer %d: Float64=%v is not the stratum midpoint", k, u[k])
				}
				for _, m := range []int{2, 3, 4, 5, 6, 7, 8} {
					if K%m != 0 {
						continue
					}
					s = &gridSrc{a: a, idx: []int{k}, limit: 100}
					got := rand.New(s).IntN(m)
					want := k * m / K
					if m&(m-1) == 0 {
						want = k % m
					}
					if got != want || s.n != 1 {
						t.Failf("answer %d: IntN(%d)=%d (draws %d), want %d", k, m, got, s.n, want)
					}
				}
			}
			du, _ := ksPoints(u, w, func(x float64) float64 { return x }, false)
			de, _ := ksPoints(e, w, expCDF, false)
			dn, _ := ksPoints(n, w, normCDF, false)
			lim := alphabetKSMax / float64(K)
			if !(du <= lim && de <= lim && dn <= lim) {
				t.Failf("alphabet K=%d: KS uniform=%g exponential=%g normal=%g, limit %g", K, du, de, dn, lim)
			}
			t.Nontrivial()
			t.Outcome(fmt.Sprintf("K=%d slowpath_answers=%d", K, slow))
			t.Detail(map[string]any{"ks_uniform_xK": du * float64(K), "ks_exp_xK": de * float64(K), "ks_normal_xK": dn * float64(K)})
			devNote("alpha", "K=%d ksU*K=%.3f ksE*K=%.3f ksN*K=%.3f slow=%d", K, du*float64(K), de*float64(K), dn*float64(K), slow)
		})
	}
}

func genUVRand(gen *vlib.G) {
	const kRej = 64
	for _, sp := range uvSpecs() {
		sp := sp
		if sp.sampler == "" {
			continue
		}
		for _, p := range sp.grid(gen.Thorough()) {
			p := p
			if !gen.Thorough() && !quickLocScale(sp, p) {
				continue
			}
			gen.Case(pkey(sp, p), func(t *vlib.T) { checkUVRand(t, sp, p, kRej) })
		}
	}
}

// quickLocScale prunes the uv-rand grid of the quick tier: Rand of the two location-scale
// families with a large shape grid is run on three of the nine (location, scale) pairs
// (the map is affine), and the two-parameter laws built from two Gamma variates on a cross.
func quickLocScale(sp uvSpec, p []float64) bool {
	var loc, scale float64
	switch sp.name {
	case "StudentsT":
		loc, scale = p[0], p[1]
	case "AlphaStable":
		loc, scale = p[3], p[2]
	case "Beta", "F":
		// two independent Gamma samplers: a cross through the product grid (every value of
		// one parameter against two values of the other) visits every sampler branch
		piv := func(v float64) bool { return v == 0.5 || v == 2.5 }
		return piv(p[0]) || piv(p[1])
	default:
		return true
	}
	return loc == 0 && scale == 1 || loc == -3 && scale == 1e-2 || loc == 2 && scale == 1e2
}

func checkUVRand(t *vlib.T, sp uvSpec, p []float64, kRej int) {
	r := &rep{t: t}
	K, depth, limit := 4096, 1, ksInvFactor/4096
	if sp.sampler == "rej" {
		K, depth, limit = kRej, 3, ksRejection
		if sp.name == "AlphaStable" {
			K, depth = 128, 2
		}
	}
	a := getAlphabet(K)
	lo, hi := sp.lo(p), sp.hi(p)
	var vals, wts []float64
	bad := 0
	var maxDraws int
	var cur float64
	body := func(src *gridSrc) (ok bool) {
		d := sp.mk(p, rand.Source(src))
		ok = true
		func() {
			defer func() {
				if e := recover(); e != nil {
					ok = false
					if _, capped := e.(capExceeded); capped {
						if bad < 3 {
							r.fail("Rand-terminates", fmt.Sprint(src.idx), "Rand consumed more than %d answers on the path %v", drawCap, src.idx)
						}
					} else if bad < 3 {
						r.fail("Rand-panic", fmt.Sprint(src.idx), "Rand panics on the path %v: %v", src.idx, e)
					}
					bad++
				}
			}()
			cur = d.(hasRand).Rand()
		}()
		if !ok {
			return false
		}
		if sp.name == "AlphaStable" && isFinite(cur) {
			// location-scale family: the same answers with C = 1, Mu = 0 give the standardised
			// variate x0, and x = C*x0 + Mu (+ (2/pi) Beta C log C when Alpha = 1).
			ref := &gridSrc{a: src.a, idx: src.idx, cont: splitmix{pathSeed(src.idx)}, limit: drawCap, kinds: src.kinds}
			x0 := sp.mk([]float64{p[0], p[1], 1, 0}, rand.Source(ref)).(hasRand).Rand()
			want := p[2]*x0 + p[3]
			if p[0] == 1 {
				want += 2 / math.Pi * p[1] * p[2] * math.Log(p[2])
			}
			if !closeRA(cur, want, 1e-12, 1e-12*(math.Abs(p[3])+p[2])) && bad < 3 {
				bad++
				r.fail("Rand-location-scale", fmt.Sprint(src.idx), "Rand=%v but C*x0+Mu (+log term) = %v with x0=%v from the same answers", cur, want, x0)
				return false
			}
		}
		inSupp := cur >= lo && cur <= hi && isFinite(cur)
		if sp.points != nil && cur != math.Floor(cur) {
			inSupp = false
		}
		if !inSupp {
			if bad < 3 {
				r.fail("Rand-in-support", fmt.Sprint(src.idx[:min(src.n, len(src.idx))]), "Rand=%v on the path %v is not a finite point of the support [%v,%v]", cur, src.idx, lo, hi)
			}
			bad++
			return false
		}
		return true
	}
	visit := func(w float64, draws int) {
		if draws > maxDraws {
			maxDraws = draws
		}
		if w < 0 {
			return
		}
		vals = append(vals, cur)
		wts = append(wts, w)
	}
	paths := enumeratePaths(a, depth, drawCap, body, visit)
	t.Count("rand_paths", paths)
	t.Max("rand_draws_per_path", int64(maxDraws))
	t.Nontrivial()
	tot := 0.0
	for _, w := range wts {
		tot += w
	}
	var cdf func(float64) float64
	d0 := sp.mk(p, nil)
	if c, ok := d0.(hasCDF); ok {
		cdf = c.CDF
	} else if sp.refCDF != nil {
		cdf = sp.refCDF(p)
	}
	ksv, at := math.NaN(), math.NaN()
	if bad == 0 && math.Abs(tot-1) > 1e-9 {
		r.fail("harness", "", "path weights sum to %v", tot)
	}
	if cdf != nil && bad == 0 {
		ksv, at = ksPoints(vals, wts, cdf, sp.points != nil)
		if !(ksv <= limit) {
			r.fail("Rand-pushforward-KS", "", "Kolmogorov distance %g at x=%v between the push-forward of the %d^%d answer grid and the CDF exceeds %g", ksv, at, K, depth, limit)
		}
	} else if cdf == nil && bad == 0 {
		// AlphaStable without a closed-form CDF: for Beta = 0 the law is symmetric about Mu,
		// so the push-forward and its mirror image are within twice the discretisation bound.
		t.Count("rand_points_without_cdf", 1)
		if sp.name == "AlphaStable" && p[1] == 0 {
			mir := make([]float64, len(vals))
			for i, v := range vals {
				mir[i] = 2*p[3] - v
			}
			emp := func(x float64) float64 {
				s := 0.0
				for i, v := range mir {
					if v <= x {
						s += wts[i]
					}
				}
				return s
			}
			if len(vals) <= 1<<14 {
				d, at2 := ksPoints(vals, wts, emp, false)
				// both empirical laws have atoms of weight K^-depth: allow one atom on top of the bound
				if !(d <= 2*limit) {
					r.fail("Rand-symmetric-for-Beta=0", "", "push-forward and its mirror image about Mu differ by %g at %v", d, at2)
				}
				ksv, at = d/2, at2
			}
		}
	}
	t.Outcome(fmt.Sprintf("%s %s K=%d depth=%d paths~%s draws<=%s ks/limit~%s", sp.name, sp.sampler, K, depth, bucket(float64(paths)), bucket(float64(maxDraws)), ratioBucket(ksv/limit)))
	devNote("rand", "%s\t%s\tK=%d\tdepth=%d\tpaths=%d\tdraws=%d\tks=%.4g\tlimit=%.4g\tratio=%.3f", pkey(sp, p), sp.sampler, K, depth, paths, maxDraws, ksv, limit, ksv/limit)
	t.Detail(map[string]any{"K": K, "depth": depth, "paths": paths, "max_draws": maxDraws, "ks": ksv, "ks_at": at, "limit": limit})
}

func bucket(v float64) string {
	if v <= 0 {
		return "0"
	}
	return fmt.Sprintf("1e%d", int(math.Ceil(math.Log10(v))))
}

func ratioBucket(v float64) string {
	switch {
	case math.IsNaN(v):
		return "n/a"
	case v <= 0.1:
		return "<=0.1"
	case v <= 0.25:
		return "<=0.25"
	case v <= 0.5:
		return "<=0.5"
	case v <= 1:
		return "<=1"
	}
	return ">1"
}
