package main

import (
	"fmt"
	"math"
	"math/rand/v2"
	"sort"

	"gonum.org/v1/gonum/internal/verif/vlib"
	"gonum.org/v1/gonum/mat"
	"gonum.org/v1/gonum/stat/distmat"
	"gonum.org/v1/gonum/stat/distmv"
	"gonum.org/v1/gonum/stat/distuv"
	"gonum.org/v1/gonum/stat/samplemv"
	"gonum.org/v1/gonum/stat/sampleuv"
)

type constSrc uint64

func (c constSrc) Uint64() uint64 { return uint64(c) }

// newScript returns an environment that answers draw i with the idx[i]-th
// answer of the asking primitive's alphabet and continues with a fixed stream.
func newScript(K int, idx ...int) *gridSrc {
	return &gridSrc{a: getAlphabet(K), idx: idx, cont: splitmix{pathSeed(idx)}, limit: drawCap}
}

// odometer calls f with every index vector in [0,K)^n.
func odometer(K, n int, f func(idx []int)) {
	idx := make([]int, n)
	for {
		f(idx)
		p := n - 1
		for p >= 0 {
			idx[p]++
			if idx[p] < K {
				break
			}
			idx[p] = 0
			p--
		}
		if p < 0 {
			return
		}
	}
}

func genSamplers(gen *vlib.G) {
	// ---- distmat ----------------------------------------------------------
	for _, nu := range []float64{0.5, 1, 2.5, 5, 50} {
		nu := nu
		for _, v := range []float64{1e-2, 1, 1e2} {
			v := v
			gen.Case(fmt.Sprintf("Wishart d=1 nu=%g v=%g", nu, v), func(t *vlib.T) { checkWishart1(t, nu, v) })
		}
	}
	for _, nu := range []float64{1.01, 1.5, 2, 3, 5.5, 50} {
		nu := nu
		gen.Case(fmt.Sprintf("Wishart d=2 nu=%g", nu), func(t *vlib.T) { checkWishart2(t, nu) })
	}
	for n := 0; n <= 4; n++ {
		n := n
		gen.Case(fmt.Sprintf("UniformPermutation n=%d", n), func(t *vlib.T) { checkPermutation(t, n) })
	}
	for d := 1; d <= 3; d++ {
		d := d
		gen.Case(fmt.Sprintf("UnitVector d=%d", d), func(t *vlib.T) { checkUnitVector(t, d) })
	}
	// ---- sampleuv -----------------------------------------------------------
	for _, n := range []int{1, 2, 3, 4, 6} {
		n := n
		gen.Case(fmt.Sprintf("sampleuv.LatinHypercube n=%d", n), func(t *vlib.T) { checkLHSuv(t, n) })
	}
	gen.Case("sampleuv.Rejection", checkRejectionUV)
	gen.Case("sampleuv.Importance+IIDer", checkImportanceUV)
	for _, burn := range []int{0, 1, 2, 3, 5, 7} {
		for _, rate := range []int{0, 1, 2, 3, 5} {
			burn, rate := burn, rate
			gen.Case(fmt.Sprintf("sampleuv.MetropolisHastings burn=%d rate=%d", burn, rate), func(t *vlib.T) { checkMHuv(t, burn, rate) })
			gen.Case(fmt.Sprintf("samplemv.MetropolisHastingser burn=%d rate=%d", burn, rate), func(t *vlib.T) { checkMHmv(t, burn, rate) })
		}
	}
	for i, w := range [][]float64{{1}, {1, 1}, {1, 2, 3}, {0, 1, 0, 3}, {0.5, 0, 0, 0, 2, 1.5}, {0, 0}, {3, 1, 1, 1, 1, 1, 1, 1}} {
		w := w
		gen.Case(fmt.Sprintf("sampleuv.Weighted set=%d", i), func(t *vlib.T) { checkWeighted(t, w) })
	}
	for n := 1; n <= 10; n++ {
		for k := 1; k <= 4 && k <= n; k++ {
			n, k := n, k
			gen.Case(fmt.Sprintf("sampleuv.WithoutReplacement k=%d n=%d", k, n), func(t *vlib.T) { checkWithoutReplacement(t, k, n) })
		}
	}
	// ---- samplemv -----------------------------------------------------------
	for _, sh := range [][2]int{{1, 1}, {2, 2}, {3, 2}, {4, 3}, {6, 1}} {
		sh := sh
		gen.Case(fmt.Sprintf("samplemv.LatinHypercube n=%d d=%d", sh[0], sh[1]), func(t *vlib.T) { checkLHSmv(t, sh[0], sh[1]) })
	}
	for _, sh := range [][2]int{{1, 1}, {4, 1}, {8, 2}, {9, 2}, {27, 3}, {30, 3}, {7, 4}} {
		sh := sh
		gen.Case(fmt.Sprintf("samplemv.Halton n=%d d=%d", sh[0], sh[1]), func(t *vlib.T) { checkHalton(t, sh[0], sh[1]) })
	}
	gen.Case("samplemv.Rejection+Importance+IID", checkRejImpMV)
}

// ---------------------------------------------------------------------------
// Wishart.

func checkWishart1(t *vlib.T, nu, v float64) {
	r := &rep{t: t}
	t.Nontrivial()
	V := mat.NewSymDense(1, []float64{v})
	w, ok := distmat.NewWishart(V, nu, nil)
	if !ok {
		r.fail("NewWishart", "", "rejected")
		return
	}
	// a 1x1 Wishart(v, nu) is Gamma(shape nu/2, rate 1/(2v))
	lg, _ := math.Lgamma(nu / 2)
	for _, x := range []float64{1e-3 * v, 0.3 * v * nu, v * nu, 4 * v * nu, 40 * v * nu} {
		want := (nu/2-1)*math.Log(x) - x/(2*v) - nu/2*math.Log(2*v) - lg
		got := w.LogProbSym(mat.NewSymDense(1, []float64{x}))
		if math.Abs(got-want) > 1e-11*(1+math.Abs(want)) {
			r.fail("Wishart(1x1).LogProbSym=Gamma density", g(x), "%v want %v", got, want)
		}
		if p := w.ProbSym(mat.NewSymDense(1, []float64{x})); relErr(p, math.Exp(got)) > 1e-14 {
			r.fail("Wishart.ProbSym=exp(LogProbSym)", g(x), "%v", p)
		}
	}
	if !math.IsInf(w.LogProbSym(mat.NewSymDense(1, []float64{-1})), -1) {
		r.fail("Wishart.LogProbSym-not-PD", "", "want -Inf")
	}
	var m mat.SymDense
	w.MeanSymTo(&m)
	if !closeRA(m.At(0, 0), nu*v, 1e-15, 0) {
		r.fail("Wishart.MeanSymTo", "", "%v want %v", m.At(0, 0), nu*v)
	}
	// Rand: X/v ~ chi-squared(nu)
	K := 32
	a := getAlphabet(K)
	var vals, wts []float64
	var cur float64
	bad := 0
	paths := enumeratePaths(a, 3, drawCap, func(src *gridSrc) bool {
		ww, _ := distmat.NewWishart(V, nu, src)
		var x mat.SymDense
		if pv := catch(func() { ww.RandSymTo(&x) }); pv != nil {
			if bad == 0 {
				r.fail("Wishart.RandSymTo-panic", fmt.Sprint(src.idx), "%v", pv)
			}
			bad++
			return false
		}
		cur = x.At(0, 0) / v
		if !(cur > 0) || !isFinite(cur) {
			if bad == 0 {
				r.fail("Wishart.Rand-positive", fmt.Sprint(src.idx), "X=%v", x.At(0, 0))
			}
			bad++
			return false
		}
		return true
	}, func(wt float64, draws int) {
		if wt > 0 {
			vals = append(vals, cur)
			wts = append(wts, wt)
		}
		t.Max("rand_draws_per_path", int64(draws))
	})
	t.Count("rand_paths", paths)
	if bad == 0 {
		ks, at := ksPoints(vals, wts, func(x float64) float64 {
			if x <= 0 {
				return 0
			}
			return distuv.Gamma{Alpha: nu / 2, Beta: 0.5}.CDF(x)
		}, false)
		if !(ks <= ksMV) {
			r.fail("Wishart(1x1).Rand KS", "", "KS=%g at %v against chi-squared(%g)", ks, at, nu)
		}
		devNote("rand", "Wishart1 nu=%g\tks=%.4g ratio=%.3f", nu, ks, ks/ksMV)
	}
	t.Outcome("Wishart d=1")
}

func checkWishart2(t *vlib.T, nu float64) {
	r := &rep{t: t}
	t.Nontrivial()
	vm := smatFrom(2, []float64{2, 0.6}, []float64{0.6, 0.5})
	w, ok := distmat.NewWishart(vm.sym(), nu, nil)
	if !ok {
		r.fail("NewWishart", "", "rejected")
		return
	}
	lg1, _ := math.Lgamma(nu / 2)
	lg2, _ := math.Lgamma(nu/2 - 0.5)
	lmv := 0.5*math.Log(math.Pi) + lg1 + lg2
	vinv := vm.inv()
	def := func(x smat) float64 {
		tr := 0.0
		for i := 0; i < 2; i++ {
			for j := 0; j < 2; j++ {
				tr += vinv.a[i][j] * x.a[j][i]
			}
		}
		return (nu-3)/2*math.Log(x.det()) - tr/2 - nu*math.Ln2 - nu/2*math.Log(vm.det()) - lmv
	}
	for _, x := range []smat{
		smatFrom(2, []float64{1, 0}, []float64{0, 1}),
		smatFrom(2, []float64{4, 1.2}, []float64{1.2, 1}),
		smatFrom(2, []float64{0.1, -0.05}, []float64{-0.05, 30}),
		smatFrom(2, []float64{2 * nu, 0.6 * nu}, []float64{0.6 * nu, 0.5 * nu}),
	} {
		want := def(x)
		got := w.LogProbSym(x.sym())
		if math.Abs(got-want) > 1e-10*(1+math.Abs(want)) {
			r.fail("Wishart(2x2).LogProbSym=definition", fmt.Sprint(x.a), "%v want %v", got, want)
		}
		var ch mat.Cholesky
		ch.Factorize(x.sym())
		if v := w.LogProbSymChol(&ch); math.Abs(v-got) > 1e-12*(1+math.Abs(got)) {
			r.fail("Wishart.LogProbSymChol=LogProbSym", fmt.Sprint(x.a), "%v vs %v", v, got)
		}
	}
	if !math.IsInf(w.LogProbSym(smatFrom(2, []float64{1, 2}, []float64{2, 1}).sym()), -1) {
		r.fail("Wishart.LogProbSym-not-PD", "", "want -Inf for an indefinite matrix")
	}
	var m mat.SymDense
	w.MeanSymTo(&m)
	for i := 0; i < 2; i++ {
		for j := 0; j < 2; j++ {
			if !closeRA(m.At(i, j), nu*vm.a[i][j], 1e-14, 0) {
				r.fail("Wishart.MeanSymTo", fmt.Sprintf("%d,%d", i, j), "%v want %v", m.At(i, j), nu*vm.a[i][j])
			}
		}
	}
	if catch(func() { distmat.NewWishart(vm.sym(), 1, nil) }) == nil {
		r.fail("NewWishart-domain", "", "nu = dim-1 must panic")
	}
	// Rand: X is positive definite; X_ii / V_ii ~ chi-squared(nu) for both i (Bartlett
	// degrees of freedom); RandCholTo and RandSymTo agree on the same answers.
	K := 32
	a := getAlphabet(K)
	var v0, v1, wts []float64
	var c0, c1 float64
	bad := 0
	paths := enumeratePaths(a, 3, drawCap, func(src *gridSrc) bool {
		ww, _ := distmat.NewWishart(vm.sym(), nu, src)
		var x mat.SymDense
		if pv := catch(func() { ww.RandSymTo(&x) }); pv != nil {
			if bad == 0 {
				r.fail("Wishart.RandSymTo-panic", fmt.Sprint(src.idx), "%v", pv)
			}
			bad++
			return false
		}
		det := x.At(0, 0)*x.At(1, 1) - x.At(0, 1)*x.At(1, 0)
		if !(x.At(0, 0) > 0 && x.At(1, 1) > 0 && det >= -1e-10*x.At(0, 0)*x.At(1, 1)) {
			if bad == 0 {
				r.fail("Wishart.Rand-PD", fmt.Sprint(src.idx), "X=%v", x.RawSymmetric().Data)
			}
			bad++
			return false
		}
		c0, c1 = x.At(0, 0)/vm.a[0][0], x.At(1, 1)/vm.a[1][1]
		return true
	}, func(wt float64, draws int) {
		if wt > 0 {
			v0 = append(v0, c0)
			v1 = append(v1, c1)
			wts = append(wts, wt)
		}
		t.Max("rand_draws_per_path", int64(draws))
	})
	t.Count("rand_paths", paths)
	if bad == 0 {
		chi := func(x float64) float64 {
			if x <= 0 {
				return 0
			}
			return distuv.Gamma{Alpha: nu / 2, Beta: 0.5}.CDF(x)
		}
		for i, v := range [][]float64{v0, v1} {
			ks, at := ksPoints(v, wts, chi, false)
			if !(ks <= ksMV) {
				r.fail("Wishart(2x2).Rand: X_ii/V_ii ~ chi2(nu)", fmt.Sprint(i), "KS=%g at %v", ks, at)
			}
			devNote("rand", "Wishart2 nu=%g i=%d\tks=%.4g ratio=%.3f", nu, i, ks, ks/ksMV)
		}
	}
	// same answers: Cholesky variant reproduces the symmetric variant
	for _, idx := range [][]int{{3, 7, 11}, {0, 15, 8}} {
		w1, _ := distmat.NewWishart(vm.sym(), nu, newScript(K, idx...))
		w2, _ := distmat.NewWishart(vm.sym(), nu, newScript(K, idx...))
		var xs, xc mat.SymDense
		var ch mat.Cholesky
		w1.RandSymTo(&xs)
		w2.RandCholTo(&ch)
		ch.ToSym(&xc)
		if !mat.EqualApprox(&xs, &xc, 1e-13) {
			r.fail("Wishart.RandCholTo=RandSymTo", fmt.Sprint(idx), "differ")
		}
	}
	t.Outcome("Wishart d=2")
}

// ---------------------------------------------------------------------------
// UniformPermutation: with 24 integer answers per draw every permutation of
// n <= 4 elements arises exactly 24^(n-1)/n! times.

func checkPermutation(t *vlib.T, n int) {
	r := &rep{t: t}
	t.Nontrivial()
	K := 24
	if n == 0 {
		p := distmat.NewUniformPermutation(newScript(K))
		p.PermTo(&mat.Dense{})
		if catch(func() { p.PermTo(mat.NewDense(2, 3, nil)) }) == nil {
			r.fail("PermTo-nonsquare", "", "no panic")
		}
		t.Outcome("n=0")
		return
	}
	counts := map[string]int{}
	depth := n - 1
	total := 0
	run := func(idx []int) {
		src := newScript(K, idx...)
		p := distmat.NewUniformPermutation(src)
		dst := mat.NewDense(n, n, nil)
		p.PermTo(dst)
		if src.n != depth {
			r.fail("PermTo-draws", fmt.Sprint(idx), "consumed %d answers, expected %d", src.n, depth)
		}
		key := ""
		for i := 0; i < n; i++ {
			ones, col := 0, -1
			for j := 0; j < n; j++ {
				switch dst.At(i, j) {
				case 1:
					ones++
					col = j
				case 0:
				default:
					r.fail("PermTo-entries", fmt.Sprint(idx), "entry %v", dst.At(i, j))
				}
			}
			if ones != 1 {
				r.fail("PermTo-row", fmt.Sprint(idx), "row %d has %d ones", i, ones)
			}
			key += fmt.Sprint(col)
		}
		for j := 0; j < n; j++ {
			s := 0.0
			for i := 0; i < n; i++ {
				s += dst.At(i, j)
			}
			if s != 1 {
				r.fail("PermTo-column", fmt.Sprint(idx), "column %d sums to %v", j, s)
			}
		}
		counts[key]++
		total++
	}
	if depth == 0 {
		run(nil)
	} else {
		odometer(K, depth, run)
	}
	fact := 1
	for i := 2; i <= n; i++ {
		fact *= i
	}
	if len(counts) != fact {
		r.fail("PermTo-all-permutations", "", "%d distinct permutations, want %d", len(counts), fact)
	}
	for k, c := range counts {
		if c*fact != total {
			r.fail("PermTo-uniform", k, "permutation %s arises on %d of %d answer sequences, want %d", k, c, total, total/fact)
		}
	}
	// reused generator: the index vector persists between calls; after a first call with fixed
	// answers the second call must still give every permutation equally often
	if depth > 0 {
		second := map[string]int{}
		tot2 := 0
		first := make([]int, depth)
		for i := range first {
			first[i] = (7*i + 5) % K
		}
		odometer(K, depth, func(idx []int) {
			src := newScript(K, append(append([]int(nil), first...), idx...)...)
			p := distmat.NewUniformPermutation(src)
			p.PermTo(mat.NewDense(n, n, nil))
			dst := mat.NewDense(n, n, nil)
			p.PermTo(dst)
			key := ""
			for i := 0; i < n; i++ {
				ones := 0
				for j := 0; j < n; j++ {
					if dst.At(i, j) == 1 {
						ones++
						key += fmt.Sprint(j)
					} else if dst.At(i, j) != 0 {
						ones = 99
					}
				}
				if ones != 1 {
					r.fail("PermTo reused generator", fmt.Sprint(idx), "row %d of the second matrix is not a unit row", i)
				}
			}
			second[key]++
			tot2++
		})
		for k, c := range second {
			if c*fact != tot2 || len(second) != fact {
				r.fail("PermTo reused generator: uniform", k, "%d of %d (%d distinct)", c, tot2, len(second))
				break
			}
		}
		total += tot2
	}
	t.Count("rand_paths", int64(total))
	t.Outcome(fmt.Sprintf("n=%d perms=%d", n, len(counts)))
}

func checkUnitVector(t *vlib.T, d int) {
	r := &rep{t: t}
	t.Nontrivial()
	K := 16
	var ang, wts []float64
	n := 0
	odometer(K, d, func(idx []int) {
		src := newScript(K, idx...)
		u := distmat.NewUnitVector(src)
		v := mat.NewVecDense(d, nil)
		u.UnitVecTo(v)
		if math.Abs(mat.Norm(v, 2)-1) > 1e-14 {
			r.fail("UnitVecTo-norm", fmt.Sprint(idx), "norm %v", mat.Norm(v, 2))
		}
		if d == 2 {
			ang = append(ang, (math.Atan2(v.AtVec(1), v.AtVec(0))+math.Pi)/(2*math.Pi))
			wts = append(wts, 1/float64(K*K))
		}
		n++
	})
	if d == 2 {
		ks, at := ksPoints(ang, wts, func(x float64) float64 { return math.Min(1, math.Max(0, x)) }, false)
		if !(ks <= ksMV) {
			r.fail("UnitVecTo: angle uniform", "", "KS=%g at %v", ks, at)
		}
		devNote("rand", "UnitVector d=2\tks=%.4g ratio=%.3f", ks, ks/ksMV)
	}
	if catch(func() { distmat.NewUnitVector(newScript(K)).UnitVecTo(&mat.VecDense{}) }) == nil {
		r.fail("UnitVecTo-empty", "", "no panic for a zero-length vector")
	}
	t.Count("rand_paths", int64(n))
	t.Outcome(fmt.Sprintf("d=%d", d))
}

// ---------------------------------------------------------------------------
// Latin hypercube (uv and mv): one point per stratum whatever the answers.

func strataOK(u []float64) bool {
	n := len(u)
	s := append([]float64(nil), u...)
	sort.Float64s(s)
	for i, v := range s {
		if !(v >= float64(i)/float64(n) && v < float64(i+1)/float64(n)+1e-15) {
			return false
		}
	}
	return true
}

func checkLHSuv(t *vlib.T, n int) {
	r := &rep{t: t}
	t.Nontrivial()
	K := 24
	q := distuv.Uniform{Min: -3, Max: 2}
	paths := 0
	place := map[string]int{}
	try := func(idx []int) {
		src := newScript(K, idx...)
		batch := make([]float64, n)
		for i := range batch {
			batch[i] = math.NaN()
		}
		sampleuv.LatinHypercube{Q: q, Src: src}.Sample(batch)
		u := make([]float64, n)
		key := ""
		for i, v := range batch {
			u[i] = q.CDF(v)
			key += fmt.Sprint(int(u[i]*float64(n))) + ","
		}
		if !strataOK(u) {
			r.fail("LatinHypercube: one sample per stratum", fmt.Sprint(idx), "CDF values %v", u)
		}
		place[key]++
		paths++
	}
	// all answers of the permutation draws (n-1 integer draws), fixed uniform answers
	nperm := n - 1
	if nperm > 3 {
		nperm = 3
	}
	odometer(K, max(nperm, 1), func(idx []int) {
		full := append(append([]int(nil), idx...), 5, 17, 0, 23, 11, 2, 9, 14, 20)
		try(full[:min(len(full), 2*n+2)])
	})
	if n <= 4 && n >= 2 {
		fact := 1
		for i := 2; i <= n; i++ {
			fact *= i
		}
		for k, c := range place {
			if c*fact != paths {
				r.fail("LatinHypercube: stratum assignment uniform", k, "%d of %d", c, paths)
			}
		}
	}
	// all answers of the within-stratum draws for one permutation (K=8)
	if n <= 3 {
		odometer(8, n, func(idx []int) {
			src := &gridSrc{a: getAlphabet(8), idx: append(make([]int, n-1), idx...), limit: drawCap}
			batch := make([]float64, n)
			sampleuv.LatinHypercube{Q: q, Src: src}.Sample(batch)
			u := make([]float64, n)
			for i, v := range batch {
				u[i] = q.CDF(v)
			}
			if !strataOK(u) {
				r.fail("LatinHypercube: one sample per stratum", fmt.Sprint(idx), "CDF values %v", u)
			}
			paths++
		})
	}
	t.Count("rand_paths", int64(paths))
	t.Outcome(fmt.Sprintf("n=%d", n))
}

func checkLHSmv(t *vlib.T, n, d int) {
	r := &rep{t: t}
	t.Nontrivial()
	K := 24
	q := distmv.NewUnitUniform(d, nil)
	paths := 0
	odometer(K, 2, func(idx []int) {
		full := append(append([]int(nil), idx...), 7, 19, 3, 22, 12, 1, 16, 9, 5, 20, 14)
		src := newScript(K, full...)
		batch := mat.NewDense(n, d, nil)
		samplemv.LatinHypercube{Q: q, Src: src}.Sample(batch)
		for j := 0; j < d; j++ {
			u := mat.Col(nil, j, batch)
			if !strataOK(u) {
				r.fail("samplemv.LatinHypercube: one sample per stratum", fmt.Sprintf("%v dim %d", idx, j), "values %v", u)
			}
		}
		paths++
	})
	t.Count("rand_paths", int64(paths))
	t.Outcome(fmt.Sprintf("n=%d d=%d", n, d))
}

// ---------------------------------------------------------------------------
// Rejection sampling (uv): the accepted sample is the proposal value whose
// acceptance draw is below target/(C proposal); push-forward follows the target.

func checkRejectionUV(t *vlib.T) {
	r := &rep{t: t}
	t.Nontrivial()
	K := 32
	a := getAlphabet(K)
	target := distuv.Beta{Alpha: 2, Beta: 2}
	var vals, wts []float64
	var cur float64
	bad := 0
	paths := enumeratePaths(a, 2, drawCap, func(src *gridSrc) bool {
		prop := distuv.Uniform{Min: 0, Max: 1, Src: src}
		rej := &sampleuv.Rejection{C: 1.5, Target: target, Proposal: prop, Src: src}
		batch := []float64{math.NaN()}
		rej.Sample(batch)
		cur = batch[0]
		// reference: replay the same answers through the definition
		ref := &gridSrc{a: a, idx: src.idx, cont: splitmix{pathSeed(src.idx)}, limit: drawCap, kinds: src.kinds}
		rr := rand.New(ref)
		nprop := 0
		var want float64
		for {
			nprop++
			v := rr.Float64()
			acc := target.Prob(v) / (1.5 * 1)
			if acc > rr.Float64() {
				want = v
				break
			}
		}
		if rej.Err() != nil || cur != want || rej.Proposed() != nprop {
			if bad < 2 {
				r.fail("Rejection=definition", fmt.Sprint(src.idx), "sample %v proposed %d err %v; definition gives %v after %d proposals", cur, rej.Proposed(), rej.Err(), want, nprop)
			}
			bad++
			return false
		}
		return true
	}, func(wt float64, draws int) {
		if wt > 0 {
			vals = append(vals, cur)
			wts = append(wts, wt)
		}
	})
	t.Count("rand_paths", paths)
	if bad == 0 {
		ks, at := ksPoints(vals, wts, target.CDF, false)
		if !(ks <= ksMV) {
			r.fail("Rejection push-forward KS", "", "KS=%g at %v", ks, at)
		}
		devNote("rand", "Rejection uv\tks=%.4g ratio=%.3f", ks, ks/ksMV)
	}
	// constant too small: failure must be reported and the batch invalidated
	rej := &sampleuv.Rejection{C: 1.2, Target: target, Proposal: distuv.Uniform{Min: 0, Max: 1, Src: newScript(K, 16, 0)}, Src: newScript(K, 0)}
	batch := []float64{1, 2, 3}
	rej.Sample(batch)
	if rej.Err() != sampleuv.ErrRejection || !math.IsNaN(batch[0]) || !math.IsNaN(batch[2]) {
		r.fail("Rejection-failure", "", "err=%v batch=%v", rej.Err(), batch)
	}
	if catch(func() { (&sampleuv.Rejection{C: 0.5, Target: target, Proposal: distuv.UnitUniform}).Sample(batch) }) == nil {
		r.fail("Rejection-C<1", "", "no panic")
	}
	t.Outcome("rejection")
}

func checkImportanceUV(t *vlib.T) {
	r := &rep{t: t}
	t.Nontrivial()
	K := 128
	a := getAlphabet(K)
	target := distuv.Normal{Mu: 0.5, Sigma: 0.8}
	// proposal answers its k-th draw with the k-th stratum: an enumerated batch
	seq := &seqAlphabetSrc{a: a}
	prop := distuv.Laplace{Mu: 0, Scale: 1.5, Src: seq}
	batch := make([]float64, K)
	w := make([]float64, K)
	sampleuv.Importance{Target: target, Proposal: prop}.SampleWeighted(batch, w)
	sum := 0.0
	for i, x := range batch {
		want := math.Exp(target.LogProb(x) - prop.LogProb(x))
		if !closeRA(w[i], want, 1e-14, 0) {
			r.fail("Importance-weight", fmt.Sprint(i), "w=%v want p/q=%v", w[i], want)
		}
		sum += w[i]
	}
	// sum of weights / K estimates 1; self-normalised push-forward follows the target
	if math.Abs(sum/float64(K)-1) > 0.05 {
		r.fail("Importance: mean weight", "", "%v", sum/float64(K))
	}
	for i := range w {
		w[i] /= sum
	}
	ks, at := ksPoints(batch, w, target.CDF, false)
	if !(ks <= ksMV) {
		r.fail("Importance push-forward KS", "", "KS=%g at %v", ks, at)
	}
	devNote("rand", "Importance uv\tks=%.4g ratio=%.3f", ks, ks/ksMV)
	if catch(func() { sampleuv.Importance{Target: target, Proposal: prop}.SampleWeighted(batch, w[:3]) }) == nil {
		r.fail("Importance-length", "", "no panic")
	}
	// IIDer and SampleUniformWeighted
	seq2 := &seqAlphabetSrc{a: a}
	b2 := make([]float64, K)
	w2 := make([]float64, K)
	sampleuv.SampleUniformWeighted{Sampler: sampleuv.IIDer{Dist: distuv.Exponential{Rate: 2, Src: seq2}}}.SampleWeighted(b2, w2)
	for i := range w2 {
		w2[i] = 1 / float64(K)
	}
	ks, at = ksPoints(b2, w2, distuv.Exponential{Rate: 2}.CDF, false)
	if !(ks <= 2/float64(K)) {
		r.fail("IIDer push-forward KS", "", "KS=%g at %v", ks, at)
	}
	t.Outcome("importance")
}

// seqAlphabetSrc answers the n-th draw with the n-th answer of the asking primitive's alphabet (cyclically).
type seqAlphabetSrc struct {
	a *alphabet
	n int
}

func (s *seqAlphabetSrc) Uint64() uint64 {
	k := s.n % s.a.K
	s.n++
	return s.a.u[callerKind()][k]
}

// ---------------------------------------------------------------------------
// Metropolis-Hastings: the batch is the documented subsequence of the chain that
// the definition produces from the same proposals and the same acceptance draws.

type arProposal struct {
	steps []float64
	k     int
}

func (p *arProposal) ConditionalRand(y float64) float64 {
	v := 0.9*y + p.steps[p.k%len(p.steps)]
	p.k++
	return v
}

func (p *arProposal) ConditionalLogProb(x, y float64) float64 {
	return distuv.Normal{Mu: 0.9 * y, Sigma: 1}.LogProb(x)
}

var mhSteps = []float64{0.7, -1.3, 0.2, 2.1, -0.4, -2.5, 1.1, 0.05, -0.9, 1.6, -0.1, 0.8, -1.9}

func checkMHuv(t *vlib.T, burn, rate int) {
	r := &rep{t: t}
	t.Nontrivial()
	K := 16
	target := distuv.Laplace{Mu: 0.3, Scale: 1}
	nacc, nrej := 0, 0
	for _, n := range []int{1, 2, 3, 4} {
		for seed := 0; seed < 6; seed++ {
			steps := (burn + 1 + (n-1)*max(rate, 1)) + 4
			idx := make([]int, steps)
			for i := range idx {
				idx[i] = (seed*7 + i*5 + i*i) % K
			}
			arg := fmt.Sprintf("n=%d seed=%d", n, seed)
			batch := make([]float64, n)
			for i := range batch {
				batch[i] = math.NaN() // content the sampler must not depend on
			}
			mh := sampleuv.MetropolisHastings{Initial: 0.1, Target: target, Proposal: &arProposal{steps: mhSteps}, Src: newScript(K, idx...), BurnIn: burn, Rate: rate}
			if pv := catch(func() { mh.Sample(batch) }); pv != nil {
				r.cls(mhClass(burn), "MetropolisHastings-panic", arg, "%v", pv)
				continue
			}
			// definition
			ref := rand.New(newScript(K, idx...))
			prop := &arProposal{steps: mhSteps}
			cur := 0.1
			rt := max(rate, 1)
			total := burn + 1 + (n-1)*rt
			var want []float64
			for s := 1; s <= total; s++ {
				nx := prop.ConditionalRand(cur)
				acc := math.Exp(target.LogProb(nx) + prop.ConditionalLogProb(cur, nx) - prop.ConditionalLogProb(nx, cur) - target.LogProb(cur))
				if acc > ref.Float64() {
					cur = nx
					nacc++
				} else {
					nrej++
				}
				if s > burn && (s-burn-1)%rt == 0 {
					want = append(want, cur)
				}
			}
			for i := range want {
				if !(batch[i] == want[i]) {
					r.cls(mhClass(burn), "MetropolisHastings=definition", arg, "batch=%v; the chain defined by the same proposals and acceptance draws gives %v", batch, want)
					break
				}
			}
			if mh.Initial != 0.1 {
				r.fail("MetropolisHastings-Initial", arg, "Initial changed to %v", mh.Initial)
			}
		}
	}
	t.Count("mh_steps_accepted", int64(nacc))
	t.Count("mh_steps_rejected", int64(nrej))
	t.Outcome(fmt.Sprintf("burn%s0 rate%s1", cmpS(burn, 0), cmpS(max(rate, 1), 1)))
}

func cmpS(a, b int) string {
	if a > b {
		return ">"
	}
	return "="
}

func mhClass(burn int) string {
	if burn > 0 {
		return "mh-uv-burnin-slice"
	}
	return ""
}

type arProposalMV struct {
	steps []float64
	k     int
}

func (p *arProposalMV) ConditionalRand(x, y []float64) []float64 {
	if x == nil {
		x = make([]float64, len(y))
	}
	for i := range y {
		x[i] = 0.9*y[i] + p.steps[p.k%len(p.steps)]
		p.k++
	}
	return x
}

func (p *arProposalMV) ConditionalLogProb(x, y []float64) float64 {
	s := 0.0
	for i := range x {
		s += distuv.Normal{Mu: 0.9 * y[i], Sigma: 1}.LogProb(x[i])
	}
	return s
}

func checkMHmv(t *vlib.T, burn, rate int) {
	r := &rep{t: t}
	t.Nontrivial()
	K := 16
	target, _ := distmv.NewNormal([]float64{0.3, -0.2}, mat.NewSymDense(2, []float64{1, 0.4, 0.4, 2}), nil)
	nacc, nrej := 0, 0
	for _, n := range []int{1, 2, 3, 4} {
		for seed := 0; seed < 4; seed++ {
			steps := (burn + 1 + (n-1)*max(rate, 1)) + 4
			idx := make([]int, steps)
			for i := range idx {
				idx[i] = (seed*7 + i*5 + i*i) % K
			}
			arg := fmt.Sprintf("n=%d seed=%d", n, seed)
			batch := mat.NewDense(n, 2, nil)
			for i := 0; i < n; i++ {
				batch.SetRow(i, []float64{math.NaN(), math.NaN()})
			}
			init := []float64{0.1, 0.2}
			mh := samplemv.MetropolisHastingser{Initial: init, Target: target, Proposal: &arProposalMV{steps: mhSteps}, Src: newScript(K, idx...), BurnIn: burn, Rate: rate}
			if pv := catch(func() { mh.Sample(batch) }); pv != nil {
				r.fail("MetropolisHastingser-panic", arg, "%v", pv)
				continue
			}
			ref := rand.New(newScript(K, idx...))
			prop := &arProposalMV{steps: mhSteps}
			cur := []float64{0.1, 0.2}
			rt := max(rate, 1)
			total := burn + 1 + (n-1)*rt
			row := 0
			okAll := true
			for s := 1; s <= total; s++ {
				nx := prop.ConditionalRand(nil, cur)
				acc := math.Exp(target.LogProb(nx) + prop.ConditionalLogProb(cur, nx) - prop.ConditionalLogProb(nx, cur) - target.LogProb(cur))
				if acc > ref.Float64() {
					cur = nx
					nacc++
				} else {
					nrej++
				}
				if s > burn && (s-burn-1)%rt == 0 {
					if batch.At(row, 0) != cur[0] || batch.At(row, 1) != cur[1] {
						okAll = false
					}
					row++
				}
			}
			if !okAll {
				r.fail("MetropolisHastingser=definition", arg, "batch=%v differs from the chain defined by the same proposals and acceptance draws", batch.RawMatrix().Data)
			}
			if init[0] != 0.1 || init[1] != 0.2 {
				r.fail("MetropolisHastingser-Initial", arg, "Initial changed to %v", init)
			}
		}
	}
	// ProposalNormal: symmetric, log-density of N(y, sigma) at x
	sig := mat.NewSymDense(2, []float64{0.5, 0.1, 0.1, 0.25})
	pn, ok := samplemv.NewProposalNormal(sig, newScript(K, 3, 9))
	if !ok {
		r.fail("NewProposalNormal", "", "rejected")
	} else {
		x, y := []float64{0.2, -0.1}, []float64{1, 0.5}
		sm := smatFrom(2, []float64{0.5, 0.1}, []float64{0.1, 0.25})
		if got, want := pn.ConditionalLogProb(x, y), normalLogPDF(x, y, sm); math.Abs(got-want) > 1e-12*(1+math.Abs(want)) {
			r.fail("ProposalNormal.ConditionalLogProb", "", "%v want %v", got, want)
		}
		if a, b := pn.ConditionalLogProb(x, y), pn.ConditionalLogProb(y, x); math.Abs(a-b) > 1e-13 {
			r.fail("ProposalNormal-symmetric", "", "%v vs %v", a, b)
		}
		v := pn.ConditionalRand(nil, y)
		a16 := getAlphabet(K)
		z0, _ := normOf(a16.u[kindNorm][3])
		z1, _ := normOf(a16.u[kindNorm][9])
		m2 := sm.inv().quad(subv(v, y))
		if !closeRA(m2, z0*z0+z1*z1, 1e-12, 0) {
			r.fail("ProposalNormal.ConditionalRand", "", "Mahalanobis^2 %v want %v", m2, z0*z0+z1*z1)
		}
	}
	t.Count("mh_steps_accepted", int64(nacc))
	t.Count("mh_steps_rejected", int64(nrej))
	t.Outcome(fmt.Sprintf("burn%s0 rate%s1", cmpS(burn, 0), cmpS(max(rate, 1), 1)))
}

// ---------------------------------------------------------------------------
// Weighted sampling without replacement.

func checkWeighted(t *vlib.T, w []float64) {
	r := &rep{t: t}
	t.Nontrivial()
	K := 32
	n := len(w)
	tot := 0.0
	npos := 0
	for _, v := range w {
		tot += v
		if v > 0 {
			npos++
		}
	}
	depth := min(npos, 3)
	first := make([]float64, n)
	second := map[int][]float64{}
	paths := 0
	body := func(idx []int) {
		src := newScript(K, idx...)
		s := sampleuv.NewWeighted(w, src)
		seen := map[int]bool{}
		var order []int
		for k := 0; k < npos; k++ {
			i, ok := s.Take()
			if !ok || i < 0 || i >= n {
				r.fail("Weighted.Take", fmt.Sprint(idx), "take %d returned (%d,%v) with %d positive weights left", k, i, ok, npos-k)
				return
			}
			if seen[i] {
				r.fail("Weighted: every index at most once", fmt.Sprint(idx), "index %d taken twice (order %v)", i, order)
				return
			}
			if w[i] == 0 {
				r.fail("Weighted: zero weight never taken", fmt.Sprint(idx), "index %d has weight 0", i)
				return
			}
			seen[i] = true
			order = append(order, i)
		}
		if i, ok := s.Take(); ok || i != -1 {
			r.fail("Weighted: exhausted", fmt.Sprint(idx), "Take returned (%d,%v) after all positive weights were taken", i, ok)
		}
		if s.Len() != n {
			r.fail("Weighted.Len", "", "%d", s.Len())
		}
		if len(order) > 0 {
			first[order[0]] += math.Pow(float64(K), -float64(depth))
		}
		if len(order) > 1 && depth >= 2 {
			if second[order[0]] == nil {
				second[order[0]] = make([]float64, n)
			}
			second[order[0]][order[1]]++
		}
		paths++
	}
	if depth == 0 {
		body(nil)
	} else {
		odometer(K, depth, body)
	}
	if npos > 0 {
		for i := range w {
			p := first[i]
			if math.Abs(p-w[i]/tot) > 1.0/float64(K)+1e-12 {
				r.fail("Weighted: first take proportional to weight", fmt.Sprint(i), "frequency %v weight share %v", p, w[i]/tot)
			}
		}
		// weights conserved: the second take is proportional to the remaining weights
		for i, cnt := range second {
			s := 0.0
			for _, c := range cnt {
				s += c
			}
			for j, c := range cnt {
				want := 0.0
				if j != i {
					want = w[j] / (tot - w[i])
				}
				if math.Abs(c/s-want) > 2.0/float64(K)+1e-12 {
					r.fail("Weighted: second take proportional to remaining weight", fmt.Sprintf("first=%d second=%d", i, j), "frequency %v share %v", c/s, want)
				}
			}
		}
	}
	// Reweight / ReweightAll
	if n >= 2 && npos > 0 {
		cnt := make([]float64, n)
		w2 := append([]float64(nil), w...)
		w2[0] = 5
		tot2 := 0.0
		for _, v := range w2 {
			tot2 += v
		}
		for k := 0; k < K; k++ {
			s := sampleuv.NewWeighted(w, newScript(K, k))
			s.Reweight(0, 5)
			i, _ := s.Take()
			cnt[i]++
			s2 := sampleuv.NewWeighted(w, newScript(K, k))
			s2.ReweightAll(w2)
			if j, _ := s2.Take(); j != i {
				r.fail("Weighted: Reweight = ReweightAll", fmt.Sprint(k), "%d vs %d", i, j)
			}
		}
		for i := range cnt {
			if math.Abs(cnt[i]/float64(K)-w2[i]/tot2) > 1.0/float64(K)+1e-12 {
				r.fail("Weighted: Reweight changes the law", fmt.Sprint(i), "frequency %v share %v", cnt[i]/float64(K), w2[i]/tot2)
			}
		}
		if catch(func() { sampleuv.NewWeighted(w, nil).ReweightAll(w[:n-1]) }) == nil {
			r.fail("Weighted.ReweightAll-length", "", "no panic")
		}
	}
	t.Count("rand_paths", int64(paths))
	t.Outcome(fmt.Sprintf("n=%d positive=%d", n, npos))
}

func checkWithoutReplacement(t *vlib.T, k, n int) {
	r := &rep{t: t}
	t.Nontrivial()
	K := 24
	perm := n < k*k
	depth := k
	if perm {
		depth = n - 1
	}
	enumDepth := min(depth, 3)
	counts := map[string]int{}
	paths := 0
	exact := true
	body := func(idx []int) {
		src := newScript(K, idx...)
		out := make([]int, k)
		for i := range out {
			out[i] = -7
		}
		sampleuv.WithoutReplacement(out, n, src)
		seen := map[int]bool{}
		for _, v := range out {
			if v < 0 || v >= n || seen[v] {
				r.fail("WithoutReplacement: unique indices in [0,n)", fmt.Sprint(idx), "%v", out)
				return
			}
			seen[v] = true
		}
		if src.n > enumDepth {
			exact = false // continuation answers took part
		}
		counts[fmt.Sprint(out)]++
		paths++
	}
	if enumDepth == 0 {
		body(nil)
	} else {
		odometer(K, enumDepth, body)
	}
	// exact uniformity over ordered k-subsets when every draw was enumerated and K is a multiple of every modulus
	okMod := true
	for m := 2; m <= n; m++ {
		if K%m != 0 && (perm || m > n-k) {
			okMod = false
		}
	}
	if exact && okMod {
		nord := 1
		for i := 0; i < k; i++ {
			nord *= n - i
		}
		if len(counts) != nord {
			r.fail("WithoutReplacement: all ordered subsets", "", "%d distinct results, want %d", len(counts), nord)
		}
		for key, c := range counts {
			if c*nord != paths {
				r.fail("WithoutReplacement: uniform", key, "%d of %d answer sequences, want %d", c, paths, paths/nord)
			}
		}
		t.Count("uniformity_checked_exactly", 1)
	}
	if n == k {
		if catch(func() { sampleuv.WithoutReplacement(make([]int, n+1), n, newScript(K)) }) == nil {
			r.fail("WithoutReplacement-domain", "", "len(idxs) > n must panic")
		}
	}
	t.Count("rand_paths", int64(paths))
	t.Outcome(fmt.Sprintf("perm=%v exact=%v", perm, exact && okMod))
}

// ---------------------------------------------------------------------------
// Halton.

func radicalInverse(i, b int) float64 {
	f := 1.0 / float64(b)
	v := 0.0
	for i > 0 {
		v += float64(i%b) * f
		i /= b
		f /= float64(b)
	}
	return v
}

var smallPrimes = []int{2, 3, 5, 7}

func checkHalton(t *vlib.T, n, d int) {
	r := &rep{t: t}
	t.Nontrivial()
	q := distmv.NewUnitUniform(d, nil)
	// identity permutations (the answer 2^64-1 makes every Fisher-Yates swap a no-op): plain radical inverse
	batch := mat.NewDense(n, d, nil)
	samplemv.Halton{Kind: samplemv.Owen, Q: q, Src: constSrc(math.MaxUint64)}.Sample(batch)
	for i := 0; i < n; i++ {
		for j := 0; j < d; j++ {
			want := radicalInverse(i, smallPrimes[j])
			if math.Abs(batch.At(i, j)-want) > 1e-15 {
				r.fail("Halton = radical inverse", fmt.Sprintf("i=%d j=%d", i, j), "%v want %v", batch.At(i, j), want)
			}
		}
	}
	// scrambled: replay the permutations drawn from the same answers
	K := 24
	for seed := 0; seed < 4; seed++ {
		idx := make([]int, 40)
		for i := range idx {
			idx[i] = (seed*11 + i*7 + i*i*3) % K
		}
		b2 := mat.NewDense(n, d, nil)
		samplemv.Halton{Kind: samplemv.Owen, Q: q, Src: newScript(K, idx...)}.Sample(b2)
		ref := rand.New(newScript(K, idx...))
		for j := 0; j < d; j++ {
			b := smallPrimes[j]
			want := make([]float64, n)
			div := 1
			f := 1 / float64(b)
			for 1-f < 1 {
				p := ref.Perm(b)
				for i := 0; i < n; i++ {
					want[i] += float64(p[(i/div)%b]) * f
				}
				if div < 1<<40 {
					div *= b
				}
				f /= float64(b)
			}
			col := mat.Col(nil, j, b2)
			for i := range want {
				if math.Abs(col[i]-want[i]) > 1e-14 {
					r.fail("Halton(Owen) = permuted digits", fmt.Sprintf("seed=%d i=%d j=%d", seed, i, j), "%v want %v", col[i], want[i])
					break
				}
			}
			// net property: b^m consecutive points have one point per interval of length b^-m
			m, bm := 0, 1
			for bm*b <= n {
				bm *= b
				m++
			}
			if m > 0 {
				seen := make([]bool, bm)
				for i := 0; i < bm; i++ {
					c := int(col[i] * float64(bm))
					if c < 0 || c >= bm || seen[c] {
						r.fail("Halton: one point per b-adic interval", fmt.Sprintf("seed=%d j=%d", seed, j), "column %v", col[:bm])
						break
					}
					seen[c] = true
				}
			}
			for _, v := range col {
				if !(v >= 0 && v < 1) {
					r.fail("Halton in [0,1)", fmt.Sprintf("seed=%d j=%d", seed, j), "%v", v)
				}
			}
		}
	}
	// the batch content before the call must not matter
	b3 := mat.NewDense(n, d, nil)
	for i := 0; i < n; i++ {
		for j := 0; j < d; j++ {
			b3.Set(i, j, 0.125)
		}
	}
	if pv := catch(func() { samplemv.Halton{Kind: samplemv.Owen, Q: q, Src: constSrc(math.MaxUint64)}.Sample(b3) }); pv != nil {
		r.cls("halton-batch-not-cleared", "Halton: previous batch content ignored", "", "panics on a batch that was not zero: %v", pv)
	} else if !mat.Equal(b3, batch) {
		r.cls("halton-batch-not-cleared", "Halton: previous batch content ignored", "", "a batch pre-filled with 0.125 gives %v instead of %v", b3.RawRowView(0), batch.RawRowView(0))
	}
	if catch(func() { samplemv.Halton{Kind: 0, Q: q}.Sample(mat.NewDense(2, 1, nil)) }) == nil {
		r.fail("Halton-kind", "", "unknown kind must panic")
	}
	t.Outcome(fmt.Sprintf("n=%d d=%d", n, d))
}

func checkRejImpMV(t *vlib.T) {
	r := &rep{t: t}
	t.Nontrivial()
	K := 16
	a := getAlphabet(K)
	sig := mat.NewSymDense(2, []float64{1, 0.3, 0.3, 0.5})
	target, _ := distmv.NewNormal([]float64{0.2, -0.1}, sig, nil)
	wide := mat.NewSymDense(2, []float64{4, 0, 0, 4})
	// Importance: weights = p/q at the proposal's samples
	seq := &seqAlphabetSrc{a: a}
	prop, _ := distmv.NewNormal([]float64{0, 0}, wide, seq)
	batch := mat.NewDense(8, 2, nil)
	w := make([]float64, 8)
	samplemv.Importance{Target: target, Proposal: prop}.SampleWeighted(batch, w)
	for i := range w {
		x := batch.RawRowView(i)
		want := math.Exp(target.LogProb(x) - prop.LogProb(x))
		if !closeRA(w[i], want, 1e-13, 0) {
			r.fail("samplemv.Importance-weight", fmt.Sprint(i), "%v want %v", w[i], want)
		}
	}
	if catch(func() { samplemv.Importance{Target: target, Proposal: prop}.SampleWeighted(batch, w[:2]) }) == nil {
		r.fail("samplemv.Importance-length", "", "no panic")
	}
	// Rejection: replay of the definition on enumerated answers (2 normals + 1 uniform per proposal)
	c := 8.0 * 1.2
	nb := 0
	paths := 0
	odometer(K, 3, func(idx []int) {
		full := append(append([]int(nil), idx...), 4, 11, 2, 9, 14, 0, 7, 12, 5, 3, 10, 15, 1, 6, 8, 13, 4, 4, 4, 9, 9, 9)
		src := newScript(K, full...)
		pp, _ := distmv.NewNormal([]float64{0, 0}, wide, src)
		rej := &samplemv.Rejection{C: c, Target: target, Proposal: pp, Src: src}
		b := mat.NewDense(1, 2, nil)
		rej.Sample(b)
		ref := newScript(K, full...)
		pr, _ := distmv.NewNormal([]float64{0, 0}, wide, ref)
		rr := rand.New(ref)
		var want []float64
		np := 0
		for {
			np++
			v := pr.Rand(nil)
			acc := math.Exp(target.LogProb(v)-pr.LogProb(v)) / c
			if acc > 1 {
				want = nil
				break
			}
			if acc > rr.Float64() {
				want = v
				break
			}
		}
		if want == nil {
			if rej.Err() == nil {
				r.fail("samplemv.Rejection-failure", fmt.Sprint(idx), "acceptance ratio above 1 not reported")
			}
		} else if rej.Err() != nil || b.At(0, 0) != want[0] || b.At(0, 1) != want[1] || rej.Proposed() != np {
			if nb < 2 {
				r.fail("samplemv.Rejection=definition", fmt.Sprint(idx), "got %v proposed %d err %v; want %v after %d", b.RawRowView(0), rej.Proposed(), rej.Err(), want, np)
			}
			nb++
		}
		paths++
	})
	t.Count("rand_paths", int64(paths))
	// failure: all NaN
	// a narrow proposal against a wide target with C = 1: the ratio exceeds 1 in the tail
	odd := newScript(K, 15, 15, 0)
	pp2, _ := distmv.NewNormal([]float64{0, 0}, sig, odd)
	wideT, _ := distmv.NewNormal([]float64{0, 0}, wide, nil)
	rej := &samplemv.Rejection{C: 1, Target: wideT, Proposal: pp2, Src: odd}
	b := mat.NewDense(2, 2, []float64{1, 2, 3, 4})
	rej.Sample(b)
	if rej.Err() == nil || !math.IsNaN(b.At(0, 0)) || !math.IsNaN(b.At(1, 1)) {
		r.fail("samplemv.Rejection-failure", "", "err=%v batch=%v", rej.Err(), b.RawMatrix().Data)
	}
	// IID + SampleUniformWeighted
	seq2 := &seqAlphabetSrc{a: a}
	un := distmv.NewUnitUniform(2, seq2)
	bb := mat.NewDense(4, 2, nil)
	ww := make([]float64, 4)
	samplemv.SampleUniformWeighted{Sampler: samplemv.IID{Dist: un}}.SampleWeighted(bb, ww)
	for i := 0; i < 4; i++ {
		for j := 0; j < 2; j++ {
			if want := (float64(2*i+j) + 0.5) / float64(K); math.Abs(bb.At(i, j)-want) > 1e-15 {
				r.fail("samplemv.IID", fmt.Sprintf("%d,%d", i, j), "%v want %v", bb.At(i, j), want)
			}
		}
		if ww[i] != 1 {
			r.fail("SampleUniformWeighted", "", "weight %v", ww[i])
		}
	}
	t.Outcome("mv samplers")
}
