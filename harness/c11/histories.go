package main

import (
	"fmt"
	"math"

	"gonum.org/v1/gonum/internal/verif/vlib"
	"gonum.org/v1/gonum/stat/distuv"
	"gonum.org/v1/gonum/stat/sampleuv"
)

// Group histories: distuv.Categorical and sampleuv.Weighted keep a heap of partial weight
// sums that Reweight/ReweightAll/Take update incrementally. Every history of operations up to
// the stated length over a small weight alphabet is run against a plain weight vector; after
// every step the observable law (Prob, CDF, Mean, Entropy, Len and the first draw over all K
// answers of the environment) must be that of the model.

var histWeights = []float64{0, 1, 2.5}

type histOp struct {
	kind string // "rw" Reweight(i,w), "all" ReweightAll(preset), "take"
	i    int
	w    float64
	all  []float64
	// reject: the call has a documented panic (negative weight, wrong length) or an index outside
	// the object; the caller recovers and goes on using the object, which must be unchanged.
	reject bool
}

func (o histOp) String() string {
	rj := ""
	if o.reject {
		rj = "!"
	}
	switch o.kind {
	case "rw":
		return fmt.Sprintf("Reweight%s(%d,%g)", rj, o.i, o.w)
	case "all":
		return fmt.Sprintf("ReweightAll%s(%v)", rj, o.all)
	}
	return "Take"
}

// rejectedOps are the calls that must panic and leave the object as it was. negative: the
// object documents a panic for a negative weight (Categorical; Weighted does not).
func rejectedOps(n int, negative bool) []histOp {
	ops := []histOp{
		{kind: "rw", i: n, w: 1, reject: true},
		{kind: "rw", i: -1, w: 1, reject: true},
		{kind: "all", all: make([]float64, n+1), reject: true},
		{kind: "all", all: make([]float64, n-1), reject: true},
	}
	ops[2].all[n] = 4
	if negative {
		for i := 0; i < n; i++ {
			ops = append(ops, histOp{kind: "rw", i: i, w: -1.5, reject: true})
		}
		neg := make([]float64, n) // acceptable entries first, the negative one last
		for i := range neg {
			neg[i] = 7
		}
		neg[n-1] = -1
		ops = append(ops, histOp{kind: "all", all: neg, reject: true})
	}
	return ops
}

func histOps(n int, take bool) []histOp {
	ops := validOps(n, take)
	return append(ops, rejectedOps(n, !take)...)
}

func validOps(n int, take bool) []histOp {
	var ops []histOp
	for i := 0; i < n; i++ {
		for _, w := range histWeights {
			ops = append(ops, histOp{kind: "rw", i: i, w: w})
		}
	}
	a := make([]float64, n)
	b := make([]float64, n)
	for i := range a {
		a[i] = float64(i + 1)
		b[i] = 0
	}
	b[n-1] = 3
	ops = append(ops, histOp{kind: "all", all: a}, histOp{kind: "all", all: b})
	if take {
		ops = append(ops, histOp{kind: "take"})
	}
	return ops
}

func genHistories(gen *vlib.G) {
	genRejected(gen)
	genSamplerHistories(gen)
	for _, n := range []int{1, 2, 3, 4, 5} {
		n := n
		depth := 3
		if n >= 4 && !gen.Thorough() {
			depth = 2
		}
		for _, init := range [][]float64{{1, 1, 1, 1, 1}, {0.25, 0, 2, 0, 5}} {
			init := append([]float64(nil), init[:n]...)
			if init[0] == 0.25 && n == 1 {
				continue
			}
			gen.Case(fmt.Sprintf("Categorical n=%d init=%v depth=%d", n, init, depth), func(t *vlib.T) { checkCategoricalHistories(t, init, depth) })
			gen.Case(fmt.Sprintf("Weighted n=%d init=%v depth=%d", n, init, depth), func(t *vlib.T) { checkWeightedHistories(t, init, depth) })
		}
	}
}

func sum(w []float64) float64 {
	s := 0.0
	for _, v := range w {
		s += v
	}
	return s
}

// forHistories calls f with every operation sequence of length 1..depth.
func forHistories(ops []histOp, depth int, f func(h []histOp)) {
	radices := make([]int, 0, depth)
	for d := 1; d <= depth; d++ {
		radices = append(radices, len(ops))
		vlib.Product(radices, func(ix []int) bool {
			h := make([]histOp, len(ix))
			for i, k := range ix {
				h[i] = ops[k]
			}
			f(h)
			return true
		})
	}
}

func checkCategoricalHistories(t *vlib.T, init []float64, depth int) {
	r := &rep{t: t}
	t.Nontrivial()
	n := len(init)
	const K = 64
	ops := histOps(n, false)
	nh, nf, nrej := 0, 0, 0
	forHistories(ops, depth, func(h []histOp) {
		if nf > 5 {
			return
		}
		model := append([]float64(nil), init...)
		c := distuv.NewCategorical(init, nil)
		for step, op := range h {
			next := append([]float64(nil), model...)
			if op.reject {
				// the model ignores the call
			} else if op.kind == "rw" {
				next[op.i] = op.w
			} else {
				copy(next, op.all)
			}
			arg := fmt.Sprint(h[:step+1])
			var pan any
			func() {
				defer func() { pan = recover() }()
				if op.kind == "rw" {
					c.Reweight(op.i, op.w)
				} else {
					c.ReweightAll(op.all)
				}
			}()
			if op.reject {
				if pan == nil {
					nf++
					r.fail("Categorical: call must be rejected", arg, "no panic")
					return
				}
				nrej++
				continue
			}
			if sum(next) == 0 {
				// documented: at least one weight must stay positive
				if pan == nil {
					nf++
					r.fail("Categorical: all-zero weights must panic", arg, "no panic")
				}
				return // the object is in an unspecified state
			}
			if pan != nil {
				nf++
				r.fail("Categorical history", arg, "panics: %v", pan)
				return
			}
			model = next
		}
		nh++
		arg := fmt.Sprint(h)
		tot := sum(model)
		cum, mean, ent := 0.0, 0.0, 0.0
		for i, w := range model {
			p := w / tot
			cum += p
			mean += float64(i) * p
			if p > 0 {
				ent -= p * math.Log(p)
			}
			if got := c.Prob(float64(i)); !closeRA(got, p, 1e-13, 1e-15) {
				nf++
				r.fail("Categorical history: Prob", arg, "Prob(%d)=%v, weights %v give %v", i, got, model, p)
				return
			}
			if got := c.CDF(float64(i)); !closeRA(got, cum, 1e-13, 1e-15) {
				nf++
				r.fail("Categorical history: CDF", arg, "CDF(%d)=%v, weights %v give %v", i, got, model, cum)
				return
			}
		}
		if !closeRA(c.Mean(), mean, 1e-13, 1e-15) || !closeRA(c.Entropy(), ent, 1e-13, 1e-14) || c.Len() != n {
			nf++
			r.fail("Categorical history: Mean/Entropy/Len", arg, "Mean=%v (want %v) Entropy=%v (want %v) Len=%d", c.Mean(), mean, c.Entropy(), ent, c.Len())
			return
		}
		// Rand over all K uniform answers: index i is drawn on K*w_i/W of them (+-1 at each boundary)
		cnt := make([]float64, n)
		replay := func(c distuv.Categorical) distuv.Categorical {
			for _, op := range h {
				op := op
				catch(func() {
					if op.kind == "rw" {
						c.Reweight(op.i, op.w)
					} else {
						c.ReweightAll(op.all)
					}
				})
			}
			return c
		}
		cs := replay(distuv.NewCategorical(init, nil))
		for k := 0; k < K; k++ {
			// the source is part of the value: replay the history on an object with this answer
			ck := replay(distuv.NewCategorical(init, newScript(K, k)))
			var v float64
			if pv := catch(func() { v = ck.Rand() }); pv != nil {
				nf++
				r.fail("Categorical history: Rand", arg, "Rand panics with weights %v: %v", model, pv)
				return
			}
			if v != math.Floor(v) || v < 0 || int(v) >= n || model[int(v)] == 0 {
				nf++
				r.fail("Categorical history: Rand in support", arg, "Rand=%v with weights %v", v, model)
				return
			}
			cnt[int(v)]++
		}
		for i := range cnt {
			if math.Abs(cnt[i]/K-model[i]/tot) > 1.0/K+1e-12 {
				nf++
				r.fail("Categorical history: Rand follows the weights", arg, "index %d drawn on %v of %d answers, weight share %v", i, cnt[i], K, model[i]/tot)
				return
			}
		}
		// the reweighted object and a freshly constructed one describe the same law bit for bit
		// up to the rounding of the incrementally updated total
		fresh := distuv.NewCategorical(model, nil)
		for i := range model {
			if !closeRA(cs.Prob(float64(i)), fresh.Prob(float64(i)), 1e-13, 1e-15) {
				nf++
				r.fail("Categorical history: reweighted = fresh", arg, "Prob(%d): %v vs %v", i, cs.Prob(float64(i)), fresh.Prob(float64(i)))
				return
			}
		}
	})
	// documented panics
	if catch(func() { distuv.NewCategorical([]float64{1, -1}, nil) }) == nil {
		r.fail("NewCategorical-negative", "", "no panic")
	}
	if catch(func() { distuv.NewCategorical(init, nil).Reweight(0, -1) }) == nil {
		r.fail("Categorical.Reweight-negative", "", "no panic")
	}
	if catch(func() { distuv.NewCategorical(init, nil).ReweightAll(make([]float64, n+1)) }) == nil {
		r.fail("Categorical.ReweightAll-length", "", "no panic")
	}
	t.Count("histories", int64(nh))
	t.Count("rejected_calls_in_histories", int64(nrej))
	t.Max("history_depth", int64(depth))
	t.Outcome(fmt.Sprintf("Categorical n=%d", n))
}

// probeSrc answers the uniform draws of a history from a script and, once final is set, with the probe answer.
type probeSrc struct {
	a      *alphabet
	script []int
	n      int
	probe  int
	final  bool
	used   bool
	cont   splitmix
}

func (p *probeSrc) Uint64() uint64 {
	if p.final {
		if !p.used {
			p.used = true
			return p.a.u[kindUnif][p.probe]
		}
		return p.cont.next()
	}
	k := p.script[p.n%len(p.script)]
	p.n++
	return p.a.u[kindUnif][k]
}

func checkWeightedHistories(t *vlib.T, init []float64, depth int) {
	r := &rep{t: t}
	t.Nontrivial()
	n := len(init)
	const K = 32
	ops := histOps(n, true)
	nh, nf, nrej := 0, 0, 0
	forHistories(ops, depth, func(h []histOp) {
		if nf > 5 {
			return
		}
		// the Take operations inside the history answer with a fixed script; the model follows the indices returned
		script := []int{5, 29, 14, 0, 31, 9}
		build := func(lastAnswer int) (sampleuv.Weighted, []float64, bool) {
			model := append([]float64(nil), init...)
			// the takes of the history are answered from the script, the probe after it with lastAnswer
			src := &probeSrc{a: getAlphabet(K), script: script, probe: lastAnswer}
			s := sampleuv.NewWeighted(init, src)
			for step, op := range h {
				arg := fmt.Sprint(h[:step+1])
				if op.reject {
					op := op
					if catch(func() {
						if op.kind == "rw" {
							s.Reweight(op.i, op.w)
						} else {
							s.ReweightAll(op.all)
						}
					}) == nil {
						nf++
						r.fail("Weighted: call must be rejected", arg, "no panic")
						return s, nil, false
					}
					if lastAnswer == 0 {
						nrej++
					}
					continue
				}
				switch op.kind {
				case "rw":
					s.Reweight(op.i, op.w)
					model[op.i] = op.w
				case "all":
					s.ReweightAll(op.all)
					copy(model, op.all)
				case "take":
					i, ok := s.Take()
					if sum(model) == 0 {
						if ok || i != -1 {
							nf++
							r.fail("Weighted history: Take on exhausted weights", arg, "returned (%d,%v)", i, ok)
							return s, nil, false
						}
						continue
					}
					if !ok || i < 0 || i >= n || model[i] == 0 {
						nf++
						r.fail("Weighted history: Take", arg, "returned (%d,%v) with remaining weights %v", i, ok, model)
						return s, nil, false
					}
					model[i] = 0
				}
			}
			src.final = true
			return s, model, true
		}
		_, model, ok := build(0)
		if !ok {
			return
		}
		nh++
		arg := fmt.Sprint(h)
		tot := sum(model)
		cnt := make([]float64, n)
		for k := 0; k < K; k++ {
			s, _, ok := build(k)
			if !ok {
				return
			}
			i, got := s.Take()
			if tot == 0 {
				if got || i != -1 {
					nf++
					r.fail("Weighted history: exhausted", arg, "Take returned (%d,%v) with weights %v", i, got, model)
					return
				}
				continue
			}
			if !got || i < 0 || i >= n || model[i] == 0 {
				nf++
				r.fail("Weighted history: next Take in the support", arg, "Take returned (%d,%v) with weights %v", i, got, model)
				return
			}
			cnt[i]++
			// the weight is conserved: after this take only the others remain
			if j, ok2 := s.Take(); ok2 && (j == i || model[j] == 0) {
				nf++
				r.fail("Weighted history: every index at most once", arg, "second Take returned %d after %d (weights %v)", j, i, model)
				return
			}
		}
		if tot > 0 {
			for i := range cnt {
				if math.Abs(cnt[i]/K-model[i]/tot) > 1.0/K+1e-12 {
					nf++
					r.fail("Weighted history: next Take follows the weights", arg, "index %d on %v of %d answers, weight share %v (weights %v)", i, cnt[i], K, model[i]/tot, model)
					return
				}
			}
		}
	})
	t.Count("histories", int64(nh))
	t.Count("rejected_calls_in_histories", int64(nrej))
	t.Max("history_depth", int64(depth))
	t.Outcome(fmt.Sprintf("Weighted n=%d", n))
}
