package main

import (
	"fmt"
	"math"

	"gonum.org/v1/gonum/internal/verif/vlib"
	"gonum.org/v1/gonum/mat"
	"gonum.org/v1/gonum/spatial/r1"
	"gonum.org/v1/gonum/stat/distmv"
)

// Group index-order: the ORDER of index-list arguments. Every API that takes a list of coordinate
// indices (with or without a parallel slice of values) is called with EVERY permutation of every
// index subset, the parallel slice permuted consistently. The conditional law does not depend on
// the order in which the observations are listed; the marginal's coordinates follow the order of
// the list. The oracle is definitional and computed once from the ascending order with the
// harness's own linear algebra (Schur complement; density ratio joint/marginal).

func perms(s []int) [][]int {
	if len(s) <= 1 {
		return [][]int{append([]int(nil), s...)}
	}
	var out [][]int
	for i := range s {
		rest := make([]int, 0, len(s)-1)
		rest = append(rest, s[:i]...)
		rest = append(rest, s[i+1:]...)
		for _, p := range perms(rest) {
			out = append(out, append([]int{s[i]}, p...))
		}
	}
	return out
}

func pickF(v []float64, idx []int) []float64 {
	o := make([]float64, len(idx))
	for i, k := range idx {
		o[i] = v[k]
	}
	return o
}

// schur returns the conditional location, scale matrix and degrees of freedom of the coordinates
// un given x[ob] = val (nu = +Inf: normal law), and the size of the terms that were added up.
func schur(c mvCase, nu float64, ob, un []int, val []float64) (mean []float64, scale smat, newNu float64, meanMag []float64) {
	inv := c.sigma.sub(ob).inv()
	k := len(ob)
	dv := make([]float64, k)
	for i, o := range ob {
		dv[i] = val[i] - c.mu[o]
	}
	w := make([]float64, k)
	beta := 0.0
	for i := 0; i < k; i++ {
		for j := 0; j < k; j++ {
			w[i] += inv.a[i][j] * dv[j]
		}
		beta += dv[i] * w[i]
	}
	mean = make([]float64, len(un))
	meanMag = make([]float64, len(un))
	scale.n = len(un)
	for i, u := range un {
		mean[i] = c.mu[u]
		meanMag[i] = math.Abs(c.mu[u])
		for j, o := range ob {
			mean[i] += c.sigma.a[u][o] * w[j]
			meanMag[i] += math.Abs(c.sigma.a[u][o] * w[j])
		}
		for j, v := range un {
			s := c.sigma.a[u][v]
			for p, o := range ob {
				for q, o2 := range ob {
					s -= c.sigma.a[u][o] * inv.a[p][q] * c.sigma.a[o2][v]
				}
			}
			scale.a[i][j] = s
		}
	}
	newNu = nu
	if !math.IsInf(nu, 1) {
		f := (nu + beta) / (nu + float64(k))
		for i := range un {
			for j := range un {
				scale.a[i][j] *= f
			}
		}
		newNu = nu + float64(k)
	}
	return
}

// mvLaw is distmv.Normal or distmv.StudentsT behind one face.
type mvLaw struct {
	name      string
	nu        float64 // +Inf for Normal
	logProb   func(x []float64) float64
	condition func(ob []int, val []float64) (cond *mvLaw, ok bool)
	marginal  func(vars []int) (m *mvLaw, ok bool)
	single    func(i int) (logProb func(float64) float64)
	mean      func() []float64
	cov       func() []float64
	getNu     func() float64
}

func wrapNormal(d *distmv.Normal) *mvLaw {
	return &mvLaw{name: "Normal", nu: math.Inf(1), logProb: d.LogProb,
		condition: func(ob []int, val []float64) (*mvLaw, bool) {
			c, ok := d.ConditionNormal(ob, val, nil)
			if !ok || c == nil {
				return nil, false
			}
			return wrapNormal(c), true
		},
		marginal: func(vars []int) (*mvLaw, bool) {
			c, ok := d.MarginalNormal(vars, nil)
			if !ok || c == nil {
				return nil, false
			}
			return wrapNormal(c), true
		},
		single: func(i int) func(float64) float64 { return d.MarginalNormalSingle(i, nil).LogProb },
		mean:   func() []float64 { return d.Mean(nil) },
		cov:    func() []float64 { var s mat.SymDense; d.CovarianceMatrix(&s); return symFlat(&s) },
		getNu:  func() float64 { return math.Inf(1) },
	}
}

func wrapStudent(d *distmv.StudentsT) *mvLaw {
	return &mvLaw{name: "StudentsT", nu: d.Nu(), logProb: d.LogProb,
		condition: func(ob []int, val []float64) (*mvLaw, bool) {
			c, ok := d.ConditionStudentsT(ob, val, nil)
			if !ok || c == nil {
				return nil, false
			}
			return wrapStudent(c), true
		},
		marginal: func(vars []int) (*mvLaw, bool) {
			c, ok := d.MarginalStudentsT(vars, nil)
			if !ok || c == nil {
				return nil, false
			}
			return wrapStudent(c), true
		},
		single: func(i int) func(float64) float64 { return d.MarginalStudentsTSingle(i, nil).LogProb },
		mean:   func() []float64 { return d.Mean(nil) },
		cov:    func() []float64 { var s mat.SymDense; d.CovarianceMatrix(&s); return symFlat(&s) },
		getNu:  d.Nu,
	}
}

func lawLogPDF(x, mu []float64, s smat, nu float64) float64 {
	if math.IsInf(nu, 1) {
		return normalLogPDF(x, mu, s)
	}
	return studentLogPDF(x, mu, s, nu)
}

func genIndexOrder(gen *vlib.G) {
	nus := []float64{math.Inf(1), 3}
	if gen.Thorough() {
		nus = append(nus, 1.5, 30)
	}
	for _, c := range mvCases() {
		if c.sigma.n < 2 {
			continue
		}
		for _, nu := range nus {
			c, nu := c, nu
			gen.Case(fmt.Sprintf("%s nu=%g", c.name, nu), func(t *vlib.T) { checkIndexOrder(t, c, nu) })
		}
	}
	gen.Case("coordinate relabelling Dirichlet Uniform", checkRelabel)
}

func checkIndexOrder(t *vlib.T, c mvCase, nu float64) {
	r := &rep{t: t}
	t.Nontrivial()
	n := c.sigma.n
	var d *mvLaw
	if math.IsInf(nu, 1) {
		dd, ok := distmv.NewNormal(c.mu, c.sigma.sym(), nil)
		if !ok {
			r.fail("NewNormal", "", "rejected")
			return
		}
		d = wrapNormal(dd)
	} else {
		dd, ok := distmv.NewStudentsT(c.mu, c.sigma.sym(), nu, nil)
		if !ok {
			r.fail("NewStudentsT", "", "rejected")
			return
		}
		d = wrapStudent(dd)
	}
	cond := c.sigma.condEst()
	allPts := mvPoints(c)
	pts := [][]float64{allPts[3], allPts[4], allPts[2]}
	sd := func(i int) float64 { return math.Sqrt(c.sigma.a[i][i]) }

	// checkCond compares a conditional returned by the code (coordinates unOrder, in that order)
	// with the definition.
	checkCond := func(what, arg string, cd *mvLaw, ob, unOrder []int, x []float64) {
		obAsc := append([]int(nil), ob...)
		sortInts(obAsc)
		wantMean, wantScale, wantNu, mag := schur(c, nu, obAsc, unOrder, pickF(x, obAsc))
		gotMean := cd.mean()
		if len(gotMean) != len(unOrder) {
			r.fail(what+": dimension", arg, "dimension %d want %d", len(gotMean), len(unOrder))
			return
		}
		for i := range unOrder {
			if math.Abs(gotMean[i]-wantMean[i]) > 1e-10*cond*mag[i]+1e-300 {
				r.fail(what+": mean = mu_u + S_uo S_oo^-1 (v - mu_o)", arg, "mean[%d]=%v want %v (whole mean %v want %v)", i, gotMean[i], wantMean[i], gotMean, wantMean)
				break
			}
		}
		if !math.IsInf(nu, 1) && cd.getNu() != wantNu {
			r.fail(what+": nu", arg, "nu=%v want %v", cd.getNu(), wantNu)
		}
		covF := 1.0
		if !math.IsInf(nu, 1) {
			covF = wantNu / (wantNu - 2)
		}
		if covF > 0 && isFinite(covF) {
			gotCov := cd.cov()
			m := len(unOrder)
		cov:
			for i := 0; i < m; i++ {
				for j := 0; j < m; j++ {
					want := wantScale.a[i][j] * covF
					tol := 1e-10 * cond * math.Sqrt(math.Abs(wantScale.a[i][i]*wantScale.a[j][j])) * covF
					if math.Abs(gotCov[i*m+j]-want) > tol {
						r.fail(what+": covariance = Schur complement", arg, "cov[%d][%d]=%v want %v", i, j, gotCov[i*m+j], want)
						break cov
					}
				}
			}
		}
		// density ratio
		full := append(append([]int(nil), obAsc...), unOrder...)
		want := lawLogPDF(pickF(x, full), pickF(c.mu, full), c.sigma.sub(full), nu) - lawLogPDF(pickF(x, obAsc), pickF(c.mu, obAsc), c.sigma.sub(obAsc), nu)
		if got := cd.logProb(pickF(x, unOrder)); math.Abs(got-want) > 1e-8*(1+math.Abs(want))*cond {
			r.fail(what+": p(xu|xo)=p(x)/p(xo)", arg, "%v want %v", got, want)
		}
		t.Count("conditionals_checked", 1)
	}

	for _, sub := range subsets(n) {
		for _, vars := range perms(sub) {
			// marginal: coordinates in the order of vars
			m, ok := d.marginal(vars)
			if !ok {
				r.fail("Marginal", fmt.Sprint(vars), "failed")
				continue
			}
			if got, want := m.mean(), pickF(c.mu, vars); !bitsEq(got, want) {
				r.fail("Marginal: mean follows the order of vars", fmt.Sprint(vars), "%v want %v", got, want)
			}
			if math.IsInf(nu, 1) {
				got := m.cov()
				s := c.sigma.sub(vars)
				for i := range vars {
					for j := range vars {
						if got[i*len(vars)+j] != s.a[i][j] {
							r.fail("Marginal: covariance follows the order of vars", fmt.Sprint(vars), "cov[%d][%d]=%v want %v", i, j, got[i*len(vars)+j], s.a[i][j])
						}
					}
				}
			}
			for _, x := range pts {
				want := lawLogPDF(pickF(x, sub), pickF(c.mu, sub), c.sigma.sub(sub), nu) // ascending order: the same number
				if got := m.logProb(pickF(x, vars)); math.Abs(got-want) > tolMVLogProb*(1+math.Abs(want))*cond {
					r.fail("Marginal.LogProb (vars in any order)", fmt.Sprintf("vars=%v x=%v", vars, x), "%v want %v", got, want)
				}
			}
			t.Count("marginals_checked", 1)
			if len(sub) == n {
				// conditioning inside the relabelled law m: observed positions come out unordered
				for _, ob := range subsets(n) {
					if len(ob) == n {
						continue
					}
					pos := make([]int, len(ob)) // position of original coordinate ob[i] in vars
					for i, o := range ob {
						for p, v := range vars {
							if v == o {
								pos[i] = p
							}
						}
					}
					var unOrder []int // original labels of the unobserved positions, ascending position
					for _, v := range vars {
						keep := true
						for _, o := range ob {
							if o == v {
								keep = false
							}
						}
						if keep {
							unOrder = append(unOrder, v)
						}
					}
					x := pts[(len(ob)+ob[0])%2]
					arg := fmt.Sprintf("relabelled by %v, observed positions %v (coordinates %v) values %v", vars, pos, ob, pickF(x, ob))
					cd, ok := m.condition(pos, pickF(x, ob))
					if !ok {
						r.fail("Condition after Marginal", arg, "failed")
						continue
					}
					checkCond("Condition after Marginal", arg, cd, ob, unOrder, x)
				}
				continue
			}
			// conditional on x[vars] listed in the order of vars
			un := complement(sub, n)
			for _, x := range pts[:2] {
				arg := fmt.Sprintf("observed=%v values=%v", vars, pickF(x, vars))
				cd, ok := d.condition(vars, pickF(x, vars))
				if !ok {
					r.fail("Condition", arg, "failed")
					continue
				}
				checkCond("Condition", arg, cd, vars, un, x)
			}
		}
	}
	for i := 0; i < n; i++ {
		lp := d.single(i)
		for _, x := range pts {
			want := lawLogPDF([]float64{x[i]}, []float64{c.mu[i]}, c.sigma.sub([]int{i}), nu)
			if got := lp(x[i]); math.Abs(got-want) > tolMVLogProb*(1+math.Abs(want)) {
				r.fail("Marginal*Single.LogProb", fmt.Sprintf("i=%d x=%v", i, x[i]), "%v want %v", got, want)
			}
		}
	}
	_ = sd
	// documented panics and unusable index lists: never a usable law
	x := pts[0]
	mustPanic := func(what string, f func()) {
		if catch(f) == nil {
			r.fail("index list must be rejected", what, "no panic")
		}
	}
	mustPanic("Condition observed={-1}", func() { d.condition([]int{-1}, x[:1]) })
	mustPanic(fmt.Sprintf("Condition observed={0,%d}", n), func() { d.condition([]int{0, n}, x[:2]) })
	mustPanic(fmt.Sprintf("Condition observed={%d,0}", n), func() { d.condition([]int{n, 0}, x[:2]) })
	mustPanic("Condition observed={}", func() { d.condition([]int{}, []float64{}) })
	mustPanic("Condition len(values) != len(observed)", func() { d.condition([]int{0}, x[:2]) })
	mustPanic("Condition on all coordinates", func() {
		all := make([]int, n)
		for i := range all {
			all[n-1-i] = i
		}
		if _, ok := d.condition(all, pickF(x, all)); !ok {
			panic("not ok")
		}
	})
	mustPanic(fmt.Sprintf("Marginal vars={%d}", n), func() { d.marginal([]int{n}) })
	mustPanic("Marginal vars={1,-1}", func() { d.marginal([]int{1, -1}) })
	mustPanic(fmt.Sprintf("Marginal*Single(%d)", n), func() { d.single(n) })
	mustPanic("Marginal*Single(-1)", func() { d.single(-1) })
	// a repeated index: panic or ok == false, never a law
	for _, dup := range [][]int{{1, 1}, {0, 1, 0}} {
		if len(dup) > n {
			continue
		}
		dup := dup
		var ok bool
		if catch(func() { _, ok = d.marginal(dup) }) == nil && ok {
			r.fail("repeated index must not give a usable law", fmt.Sprintf("Marginal vars=%v", dup), "ok = true")
		}
		if len(dup) < n {
			if catch(func() { _, ok = d.condition(dup, pickF(x, dup)) }) == nil && ok {
				r.fail("repeated index must not give a usable law", fmt.Sprintf("Condition observed=%v", dup), "ok = true")
			}
		}
	}
	t.Outcome(fmt.Sprintf("%s n=%d", d.name, n))
}

func sortInts(s []int) {
	for i := 1; i < len(s); i++ {
		for j := i; j > 0 && s[j] < s[j-1]; j-- {
			s[j], s[j-1] = s[j-1], s[j]
		}
	}
}

// checkRelabel: the laws without index-list methods under a relabelling of the coordinates.
func checkRelabel(t *vlib.T) {
	r := &rep{t: t}
	t.Nontrivial()
	alpha := []float64{2.5, 1, 0.5, 7}
	xs := [][]float64{{0.2, 0.3, 0.1, 0.4}, {0.01, 0.9, 0.04, 0.05}}
	bounds := []r1.Interval{{Min: -3, Max: 2}, {Min: 2, Max: 102}, {Min: 0, Max: 1e-2}, {Min: -1, Max: 1}}
	qs := [][]float64{{-1, 50, 5e-3, 0.5}, {-9, 500, 1e-3, -0.25}, {1.5, 2, 0.02, 0.999}}
	dd := distmv.NewDirichlet(alpha, nil)
	d2 := distmv.NewDirichlet([]float64{1, 1, 3, 0.7}, nil)
	u := distmv.NewUniform(bounds, nil)
	n := 0
	for _, p := range perms([]int{0, 1, 2, 3}) {
		arg := fmt.Sprint(p)
		dp := distmv.NewDirichlet(pickF(alpha, p), nil)
		for _, x := range xs {
			if got, want := dp.LogProb(pickF(x, p)), dd.LogProb(x); math.Abs(got-want) > 1e-12*(1+math.Abs(want)) {
				r.fail("Dirichlet.LogProb under relabelling", arg, "%v want %v", got, want)
			}
		}
		if got, want := dp.Mean(nil), pickF(dd.Mean(nil), p); !closeSlice(got, want, 1e-15) {
			r.fail("Dirichlet.Mean under relabelling", arg, "%v want %v", got, want)
		}
		var s, sp mat.SymDense
		dd.CovarianceMatrix(&s)
		dp.CovarianceMatrix(&sp)
		for i := range p {
			for j := range p {
				if math.Abs(sp.At(i, j)-s.At(p[i], p[j])) > 1e-15 {
					r.fail("Dirichlet.CovarianceMatrix under relabelling", arg, "[%d][%d] %v want %v", i, j, sp.At(i, j), s.At(p[i], p[j]))
				}
			}
		}
		d2p := distmv.NewDirichlet(pickF([]float64{1, 1, 3, 0.7}, p), nil)
		if got, want := (distmv.KullbackLeibler{}).DistDirichlet(dp, d2p), (distmv.KullbackLeibler{}).DistDirichlet(dd, d2); math.Abs(got-want) > 1e-12*(1+math.Abs(want)) {
			r.fail("KullbackLeibler.DistDirichlet under relabelling", arg, "%v want %v", got, want)
		}
		bp := make([]r1.Interval, 4)
		for i, k := range p {
			bp[i] = bounds[k]
		}
		up := distmv.NewUniform(bp, nil)
		for _, q := range qs {
			if got, want := up.CDF(nil, pickF(q, p)), pickF(u.CDF(nil, q), p); !bitsEq(got, want) {
				r.fail("Uniform.CDF under relabelling", arg, "%v want %v", got, want)
			}
			if got, want := up.LogProb(pickF(q, p)), u.LogProb(q); math.Abs(got-want) > 1e-13*(1+math.Abs(want)) && !(math.IsInf(got, -1) && math.IsInf(want, -1)) {
				r.fail("Uniform.LogProb under relabelling", arg, "%v want %v", got, want)
			}
		}
		pp := []float64{0, 0.3, 1, 0.75}
		if got, want := up.Quantile(nil, pickF(pp, p)), pickF(u.Quantile(nil, pp), p); !bitsEq(got, want) {
			r.fail("Uniform.Quantile under relabelling", arg, "%v want %v", got, want)
		}
		if got, want := up.Mean(nil), pickF(u.Mean(nil), p); !bitsEq(got, want) {
			r.fail("Uniform.Mean under relabelling", arg, "%v want %v", got, want)
		}
		n++
	}
	t.Count("relabellings_checked", int64(n))
	t.Outcome("relabel")
}

func closeSlice(a, b []float64, tol float64) bool {
	if len(a) != len(b) {
		return false
	}
	for i := range a {
		if !(math.Abs(a[i]-b[i]) <= tol*(1+math.Abs(b[i]))) {
			return false
		}
	}
	return true
}
