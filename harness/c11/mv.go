package main

import (
	"fmt"
	"math"
	"math/rand/v2"

	"gonum.org/v1/gonum/internal/verif/vlib"
	"gonum.org/v1/gonum/mat"
	"gonum.org/v1/gonum/spatial/r1"
	"gonum.org/v1/gonum/stat/distmv"
	"gonum.org/v1/gonum/stat/distuv"
)

// Tolerances of the mv group.
const (
	tolMVLogProb = 1e-10 // |LogProb - definition| <= tol * (1 + |LogProb|) * cond
	tolMVMass    = 1e-8
	tolMVScore   = 1e-6
	tolMVStat    = 1e-8 // divergences against quadrature
	ksMV         = 0.05
)

// ---- small dense linear algebra of the harness (dimension <= 4, Gauss-Jordan with pivoting) ----

const smax = 4

type smat struct {
	n int
	a [smax][smax]float64
}

func smatFrom(n int, rows ...[]float64) smat {
	var m smat
	m.n = n
	for i := 0; i < n; i++ {
		for j := 0; j < n; j++ {
			m.a[i][j] = rows[i][j]
		}
	}
	return m
}

func (m smat) sym() *mat.SymDense {
	s := mat.NewSymDense(m.n, nil)
	for i := 0; i < m.n; i++ {
		for j := i; j < m.n; j++ {
			s.SetSym(i, j, m.a[i][j])
		}
	}
	return s
}

// gaussJordan returns the determinant and the inverse.
func (m smat) gaussJordan() (det float64, inv smat) {
	n := m.n
	a := m.a
	inv.n = n
	for i := 0; i < n; i++ {
		inv.a[i][i] = 1
	}
	det = 1
	for c := 0; c < n; c++ {
		p := c
		for r := c + 1; r < n; r++ {
			if math.Abs(a[r][c]) > math.Abs(a[p][c]) {
				p = r
			}
		}
		if p != c {
			a[p], a[c] = a[c], a[p]
			inv.a[p], inv.a[c] = inv.a[c], inv.a[p]
			det = -det
		}
		piv := a[c][c]
		det *= piv
		for j := 0; j < n; j++ {
			a[c][j] /= piv
			inv.a[c][j] /= piv
		}
		for r := 0; r < n; r++ {
			if r == c {
				continue
			}
			f := a[r][c]
			for j := 0; j < n; j++ {
				a[r][j] -= f * a[c][j]
				inv.a[r][j] -= f * inv.a[c][j]
			}
		}
	}
	return det, inv
}

func (m smat) det() float64 { d, _ := m.gaussJordan(); return d }
func (m smat) inv() smat    { _, i := m.gaussJordan(); return i }

func (m smat) quad(v []float64) float64 {
	s := 0.0
	for i := 0; i < m.n; i++ {
		for j := 0; j < m.n; j++ {
			s += v[i] * m.a[i][j] * v[j]
		}
	}
	return s
}

func (m smat) sub(idx []int) smat {
	var r smat
	r.n = len(idx)
	for i, a := range idx {
		for j, b := range idx {
			r.a[i][j] = m.a[a][b]
		}
	}
	return r
}

// chol returns the lower Cholesky factor.
func (m smat) chol() smat {
	var l smat
	l.n = m.n
	for i := 0; i < m.n; i++ {
		for j := 0; j <= i; j++ {
			s := m.a[i][j]
			for k := 0; k < j; k++ {
				s -= l.a[i][k] * l.a[j][k]
			}
			if i == j {
				l.a[i][i] = math.Sqrt(s)
			} else {
				l.a[i][j] = s / l.a[j][j]
			}
		}
	}
	return l
}

func (m smat) condEst() float64 {
	mx, mi := 0.0, math.Inf(1)
	for i := 0; i < m.n; i++ {
		mx = math.Max(mx, m.a[i][i])
		mi = math.Min(mi, m.a[i][i])
	}
	inv := m.inv()
	imx := 0.0
	for i := 0; i < m.n; i++ {
		imx = math.Max(imx, math.Abs(inv.a[i][i]))
	}
	return math.Max(mx*imx, 1)
}

type mvCase struct {
	name  string
	mu    []float64
	sigma smat
}

func mvCases() []mvCase {
	return []mvCase{
		{"d1 unit", []float64{0}, smatFrom(1, []float64{1})},
		{"d1 small", []float64{-3}, smatFrom(1, []float64{1e-4})},
		{"d1 large", []float64{2}, smatFrom(1, []float64{1e4})},
		{"d2 iso", []float64{0, 0}, smatFrom(2, []float64{1, 0}, []float64{0, 1})},
		{"d2 rho=.5", []float64{-3, 2}, smatFrom(2, []float64{1, 0.5}, []float64{0.5, 1})},
		{"d2 rho=-.9 scaled", []float64{2, 0}, smatFrom(2, []float64{4, -0.9 * 2 * 0.1}, []float64{-0.9 * 2 * 0.1, 0.01})},
		{"d3 diag", []float64{0, -3, 2}, smatFrom(3, []float64{1, 0, 0}, []float64{0, 1e-2, 0}, []float64{0, 0, 25})},
		{"d3 full", []float64{1, 0, -1}, smatFrom(3, []float64{4, 1, 0.5}, []float64{1, 3, 0.2}, []float64{0.5, 0.2, 2})},
		{"d3 rho=-.45 scaled", []float64{-3, 0, 2}, smatFrom(3, []float64{1e-2, -0.45e-1, -0.45}, []float64{-0.45e-1, 1, -4.5}, []float64{-0.45, -4.5, 100})},
		{"d4 diag", []float64{0, 1, -1, 2}, smatFrom(4, []float64{1, 0, 0, 0}, []float64{0, 4, 0, 0}, []float64{0, 0, 0.25, 0}, []float64{0, 0, 0, 9})},
		{"d4 ar1 rho=.6", []float64{1, 0, -1, 0.5}, smatFrom(4, []float64{1, 0.6, 0.36, 0.216}, []float64{0.6, 1, 0.6, 0.36}, []float64{0.36, 0.6, 1, 0.6}, []float64{0.216, 0.36, 0.6, 1})},
		{"d4 full scaled", []float64{-3, 0, 2, 0}, smatFrom(4, []float64{4, 1, -0.5, 0.02}, []float64{1, 3, 0.2, -0.03}, []float64{-0.5, 0.2, 2, 0.01}, []float64{0.02, -0.03, 0.01, 0.05})},
	}
}

// mvPoints returns evaluation points mu + L z for a small set of z.
func mvPoints(c mvCase) [][]float64 {
	l := c.sigma.chol()
	n := c.sigma.n
	zs := [][]float64{{0, 0, 0, 0}, {1, 0, 0, 0}, {0, -1.5, 0, 0.5}, {0.3, 0.7, -2, 1.1}, {-3, 3, 1, -2}, {6, -6, 6, -6}, {0.01, 0.02, -0.03, 0.04}}
	var out [][]float64
	for _, z := range zs {
		x := make([]float64, n)
		for i := 0; i < n; i++ {
			x[i] = c.mu[i]
			for k := 0; k <= i; k++ {
				x[i] += l.a[i][k] * z[k]
			}
		}
		out = append(out, x)
	}
	return out
}

// subsets returns every non-empty subset of {0..n-1} in increasing order of the bit mask.
func subsets(n int) [][]int {
	var out [][]int
	for m := 1; m < 1<<n; m++ {
		var s []int
		for i := 0; i < n; i++ {
			if m>>i&1 == 1 {
				s = append(s, i)
			}
		}
		out = append(out, s)
	}
	return out
}

func complement(s []int, n int) []int {
	in := make([]bool, n)
	for _, v := range s {
		in[v] = true
	}
	var o []int
	for i := 0; i < n; i++ {
		if !in[i] {
			o = append(o, i)
		}
	}
	return o
}

func subv(a, b []float64) []float64 {
	o := make([]float64, len(a))
	for i := range a {
		o[i] = a[i] - b[i]
	}
	return o
}

const log2Pi = 1.8378770664093454835606594728112352797227949472755668

func normalLogPDF(x, mu []float64, s smat) float64 {
	n := float64(s.n)
	return -0.5 * (n*log2Pi + math.Log(s.det()) + s.inv().quad(subv(x, mu)))
}

func studentLogPDF(x, mu []float64, s smat, nu float64) float64 {
	n := float64(s.n)
	l1, _ := math.Lgamma((nu + n) / 2)
	l2, _ := math.Lgamma(nu / 2)
	return l1 - l2 - n/2*math.Log(nu*math.Pi) - 0.5*math.Log(s.det()) - (nu+n)/2*math.Log1p(s.inv().quad(subv(x, mu))/nu)
}

func genMV(gen *vlib.G) {
	for _, c := range mvCases() {
		c := c
		gen.Case("Normal "+c.name, func(t *vlib.T) { checkMVNormal(t, c) })
		for _, nu := range []float64{0.5, 1, 2, 2.5, 5, 50} {
			nu := nu
			gen.Case(fmt.Sprintf("StudentsT %s nu=%g", c.name, nu), func(t *vlib.T) { checkMVStudent(t, c, nu) })
		}
	}
	gen.Case("Normal statdist", func(t *vlib.T) { checkMVNormalStat(t) })
	gen.Case("Normal statdist dims 1-4 closed forms", func(t *vlib.T) { checkMVNormalStatHD(t) })
	for i, b := range [][]r1.Interval{{{Min: 0, Max: 1}}, {{Min: -3, Max: 2}, {Min: 2, Max: 102}}, {{Min: 0, Max: 1e-2}, {Min: -1, Max: 1}, {Min: 5, Max: 5.5}}} {
		b := b
		gen.Case(fmt.Sprintf("Uniform set=%d dim=%d", i, len(b)), func(t *vlib.T) { checkMVUniform(t, b) })
	}
	gen.Case("Uniform statdist", func(t *vlib.T) { checkMVUniformStat(t) })
	for _, al := range [][]float64{{1, 1}, {0.3, 2.5}, {5, 0.99}, {50, 50}, {1, 1, 1}, {2.5, 1, 5}, {1.01, 2, 2.5}, {0.5, 0.3, 2}, {5, 5, 5, 5}} {
		al := al
		gen.Case(fmt.Sprintf("Dirichlet alpha=%v", al), func(t *vlib.T) { checkDirichlet(t, al) })
	}
}

// mvRandPaths enumerates all K^depth answer sequences for a vector sampler.
func mvRandPaths(K, depth int, run func(src *gridSrc) []float64, each func(x []float64, w float64, src *gridSrc)) (paths int64, maxDraws int, panicked any) {
	a := getAlphabet(K)
	var cur []float64
	paths = enumeratePaths(a, depth, drawCap, func(src *gridSrc) (ok bool) {
		ok = true
		func() {
			defer func() {
				if e := recover(); e != nil {
					ok = false
					if panicked == nil {
						panicked = e
					}
				}
			}()
			cur = run(src)
		}()
		if ok {
			each(cur, 0, src)
		}
		return ok
	}, func(w float64, draws int) {
		if draws > maxDraws {
			maxDraws = draws
		}
	})
	return
}

func checkMVNormal(t *vlib.T, c mvCase) {
	r := &rep{t: t}
	t.Nontrivial()
	n := c.sigma.n
	d, ok := distmv.NewNormal(c.mu, c.sigma.sym(), nil)
	if !ok {
		r.fail("NewNormal", "", "positive definite covariance rejected")
		return
	}
	cond := c.sigma.condEst()
	pts := mvPoints(c)
	for _, x := range pts {
		arg := fmt.Sprint(x)
		want := normalLogPDF(x, c.mu, c.sigma)
		got := d.LogProb(x)
		if math.Abs(got-want) > tolMVLogProb*(1+math.Abs(want))*cond {
			r.fail("Normal.LogProb=definition", arg, "LogProb=%v definition=%v", got, want)
		}
		if p := d.Prob(x); relErr(p, math.Exp(got)) > 1e-14 {
			r.fail("Normal.Prob=exp(LogProb)", arg, "Prob=%v exp(LogProb)=%v", p, math.Exp(got))
		}
		var ch mat.Cholesky
		ch.Factorize(c.sigma.sym())
		if v := distmv.NormalLogProb(x, c.mu, &ch); math.Abs(v-got) > 1e-12*(1+math.Abs(got)) {
			r.fail("NormalLogProb=Normal.LogProb", arg, "%v vs %v", v, got)
		}
		if n == 1 {
			u := distuv.Normal{Mu: c.mu[0], Sigma: math.Sqrt(c.sigma.a[0][0])}
			if math.Abs(u.LogProb(x[0])-got) > 1e-11*(1+math.Abs(got)) {
				r.fail("distmv.Normal(dim 1)=distuv.Normal", arg, "%v vs %v", got, u.LogProb(x[0]))
			}
		}
		// ScoreInput = gradient of LogProb
		sc := d.ScoreInput(nil, x)
		for j := 0; j < n; j++ {
			j := j
			h := 1e-3 * math.Sqrt(c.sigma.a[j][j])
			num := richardson(func(e float64) float64 {
				y := append([]float64(nil), x...)
				y[j] += e
				return d.LogProb(y)
			}, h)
			if !closeRA(sc[j], num, tolMVScore*cond, tolMVScore*cond/math.Sqrt(c.sigma.a[j][j])) {
				r.fail("Normal.ScoreInput=grad LogProb", fmt.Sprintf("%s j=%d", arg, j), "ScoreInput=%v central difference=%v", sc[j], num)
			}
		}
	}
	// Entropy, Mean, Covariance
	wantH := 0.5 * (float64(n)*(log2Pi+1) + math.Log(c.sigma.det()))
	if got := d.Entropy(); math.Abs(got-wantH) > 1e-11*(1+math.Abs(wantH))*cond {
		r.fail("Normal.Entropy", "", "Entropy=%v want %v", got, wantH)
	}
	for i, v := range d.Mean(nil) {
		if v != c.mu[i] {
			r.fail("Normal.Mean", "", "Mean[%d]=%v want %v", i, v, c.mu[i])
		}
	}
	var cov mat.SymDense
	d.CovarianceMatrix(&cov)
	for i := 0; i < n; i++ {
		for j := 0; j < n; j++ {
			if cov.At(i, j) != c.sigma.a[i][j] {
				r.fail("Normal.CovarianceMatrix", "", "cov[%d,%d]=%v want %v", i, j, cov.At(i, j), c.sigma.a[i][j])
			}
		}
	}
	// total mass by tensor quadrature in whitened coordinates (dim <= 2)
	if n <= 2 {
		l := c.sigma.chol()
		detL := 1.0
		for i := 0; i < n; i++ {
			detL *= l.a[i][i]
		}
		f := func(z []float64) float64 {
			x := make([]float64, n)
			for i := 0; i < n; i++ {
				x[i] = c.mu[i]
				for k := 0; k <= i; k++ {
					x[i] += l.a[i][k] * z[k]
				}
			}
			return d.Prob(x) * detL
		}
		var mass float64
		if n == 1 {
			mass = glComposite(func(z float64) float64 { return f([]float64{z}) }, -10, 10, 16)
		} else {
			mass = glComposite(func(z0 float64) float64 {
				return glComposite(func(z1 float64) float64 { return f([]float64{z0, z1}) }, -10, 10, 12)
			}, -10, 10, 12)
		}
		if math.Abs(mass-1) > tolMVMass {
			r.fail("Normal integral(Prob)=1", "", "mass=%v", mass)
		}
	}
	// marginals and conditionals for every index subset: p(xu | xo) = p(x) / p(xo)
	for i := 0; i < n; i++ {
		m1 := d.MarginalNormalSingle(i, nil)
		for _, x := range pts[:4] {
			want := normalLogPDF([]float64{x[i]}, []float64{c.mu[i]}, c.sigma.sub([]int{i}))
			if got := m1.LogProb(x[i]); math.Abs(got-want) > tolMVLogProb*(1+math.Abs(want)) {
				r.fail("MarginalNormalSingle.LogProb", fmt.Sprintf("i=%d x=%v", i, x), "%v want %v", got, want)
			}
		}
	}
	for _, ob := range subsets(n) {
		pick := func(v []float64, idx []int) []float64 {
			o := make([]float64, len(idx))
			for i, k := range idx {
				o[i] = v[k]
			}
			return o
		}
		orders := [][]int{ob}
		if len(ob) >= 2 { // the order of vars is the order of the marginal's coordinates
			rev := make([]int, len(ob))
			for i, v := range ob {
				rev[len(ob)-1-i] = v
			}
			orders = append(orders, rev)
		}
		for _, vars := range orders {
			mo, ok1 := d.MarginalNormal(vars, nil)
			if !ok1 {
				r.fail("MarginalNormal", fmt.Sprint(vars), "failed")
				continue
			}
			for _, x := range pts[:4] {
				want := normalLogPDF(pick(x, vars), pick(c.mu, vars), c.sigma.sub(vars))
				if got := mo.LogProb(pick(x, vars)); math.Abs(got-want) > tolMVLogProb*(1+math.Abs(want))*cond {
					r.fail("MarginalNormal.LogProb", fmt.Sprintf("vars=%v x=%v", vars, x), "%v want %v", got, want)
				}
			}
			t.Count("marginals_checked", 1)
		}
		if len(ob) == n {
			continue
		}
		un := complement(ob, n)
		for _, x := range pts[:4] {
			arg := fmt.Sprintf("observed=%v x=%v", ob, x)
			wantM := normalLogPDF(pick(x, ob), pick(c.mu, ob), c.sigma.sub(ob))
			cd, ok2 := d.ConditionNormal(ob, pick(x, ob), nil)
			if !ok2 {
				r.fail("ConditionNormal", arg, "failed")
				continue
			}
			want := normalLogPDF(x, c.mu, c.sigma) - wantM
			if got := cd.LogProb(pick(x, un)); math.Abs(got-want) > 1e-8*(1+math.Abs(want))*cond {
				r.fail("ConditionNormal: p(xu|xo)=p(x)/p(xo)", arg, "%v want %v", got, want)
			}
		}
		t.Count("conditionals_checked", 1)
	}
	// Quantile: whitening Quantile(p) with the harness Cholesky factor gives the normal quantiles of p.
	for _, p := range [][]float64{{0.5, 0.5, 0.5, 0.5}, {0.1, 0.9, 0.25, 0.6}, {1e-6, 1 - 1e-6, 0.75, 1e-3}, {1e-12, 0.5, 1 - 1e-12, 0.99}} {
		q := d.Quantile(nil, p[:n])
		l := c.sigma.chol()
		z := make([]float64, n)
		for i := 0; i < n; i++ {
			s := q[i] - c.mu[i]
			for k := 0; k < i; k++ {
				s -= l.a[i][k] * z[k]
			}
			z[i] = s / l.a[i][i]
			if got := normCDF(z[i]); math.Abs(got-p[i]) > 1e-9*cond*math.Min(p[i], 1-p[i])+1e-12 {
				r.fail("Normal.Quantile", fmt.Sprint(p[:n]), "whitened coordinate %d has Phi=%v want %v", i, got, p[i])
			}
		}
	}
	// Rand: every path has (x-mu)' Sigma^-1 (x-mu) = |z|^2 with z the normal answers of the
	// environment, whatever square root of Sigma the sampler uses; first marginal follows its law.
	K := 32
	if n >= 3 {
		K = 16
	}
	inv := c.sigma.inv()
	samplers := map[string]func(src rand.Source) []float64{
		"Normal.Rand": func(src rand.Source) []float64 {
			dd, _ := distmv.NewNormal(c.mu, c.sigma.sym(), src)
			return dd.Rand(nil)
		},
		"NormalRand": func(src rand.Source) []float64 {
			var ch mat.Cholesky
			ch.Factorize(c.sigma.sym())
			return distmv.NormalRand(nil, c.mu, &ch, src)
		},
		"NormalRandCov(Cholesky)": func(src rand.Source) []float64 {
			var ch mat.Cholesky
			ch.Factorize(c.sigma.sym())
			return distmv.NormalRandCov(nil, c.mu, &ch, src)
		},
		"NormalRandCov(PivotedCholesky)": func(src rand.Source) []float64 {
			var ch mat.PivotedCholesky
			ch.Factorize(c.sigma.sym(), -1)
			return distmv.NormalRandCov(nil, c.mu, &ch, src)
		},
		"NormalRandCov(EigenSym)": func(src rand.Source) []float64 {
			var es mat.EigenSym
			es.Factorize(c.sigma.sym(), true)
			return distmv.NormalRandCov(nil, c.mu, &es, src)
		},
		"NormalRandCov(SymDense)": func(src rand.Source) []float64 {
			return distmv.NormalRandCov(nil, c.mu, c.sigma.sym(), src)
		},
		"NewNormalChol.Rand": func(src rand.Source) []float64 {
			var ch mat.Cholesky
			ch.Factorize(c.sigma.sym())
			return distmv.NewNormalChol(c.mu, &ch, src).Rand(nil)
		},
	}
	for _, name := range vlib.SortedKeys(samplers) {
		run := samplers[name]
		var v0, w []float64
		nbad := 0
		a := getAlphabet(K)
		paths, _, pan := mvRandPaths(K, n, func(src *gridSrc) []float64 { return run(src) }, func(x []float64, _ float64, src *gridSrc) {
			z2 := 0.0
			for i := 0; i < n; i++ {
				z, _ := normOf(a.u[kindNorm][src.idx[i]])
				z2 += z * z
			}
			m2 := inv.quad(subv(x, c.mu))
			if !closeRA(m2, z2, 1e-9*cond, 1e-12*cond) && nbad < 2 {
				nbad++
				r.fail(name+": Mahalanobis^2=|z|^2", fmt.Sprint(src.idx), "x=%v has (x-mu)'S^-1(x-mu)=%v but the normal answers have |z|^2=%v", x, m2, z2)
			}
			v0 = append(v0, x[0])
			w = append(w, math.Pow(float64(K), -float64(n)))
		})
		if pan != nil {
			r.fail(name+"-panic", "", "%v", pan)
			continue
		}
		t.Count("rand_paths", paths)
		s0 := math.Sqrt(c.sigma.a[0][0])
		ks, at := ksPoints(v0, w, func(x float64) float64 { return normCDF((x - c.mu[0]) / s0) }, false)
		if !(ks <= ksMV) {
			r.fail(name+": first marginal KS", "", "KS=%g at %v", ks, at)
		}
		devNote("rand", "mv Normal %s %s\tks=%.4g ratio=%.3f", c.name, name, ks, ks/ksMV)
	}
	// NewNormalChol must describe the same law as NewNormal.
	{
		var ch mat.Cholesky
		ch.Factorize(c.sigma.sym())
		dc := distmv.NewNormalChol(c.mu, &ch, nil)
		if got, want := dc.LogProb(pts[3]), d.LogProb(pts[3]); math.Abs(got-want) > 1e-12*(1+math.Abs(want)) {
			r.fail("NewNormalChol.LogProb", "", "%v want %v", got, want)
		}
		var cv mat.SymDense
		if pv := catch(func() { dc.CovarianceMatrix(&cv) }); pv != nil {
			r.cls("newnormalchol-no-sigma", "NewNormalChol.CovarianceMatrix", "", "panics: %v", pv)
		} else {
			for i := 0; i < n; i++ {
				for j := 0; j < n; j++ {
					if !closeRA(cv.At(i, j), c.sigma.a[i][j], 1e-13, 1e-300) {
						r.cls("newnormalchol-no-sigma", "NewNormalChol.CovarianceMatrix", fmt.Sprintf("%d,%d", i, j), "cov=%v want %v", cv.At(i, j), c.sigma.a[i][j])
					}
				}
			}
		}
		var ms distuv.Normal
		if pv := catch(func() { ms = dc.MarginalNormalSingle(0, nil) }); pv != nil {
			r.cls("newnormalchol-no-sigma", "NewNormalChol.MarginalNormalSingle", "", "panics: %v", pv)
		} else if !closeRA(ms.Sigma, math.Sqrt(c.sigma.a[0][0]), 1e-13, 0) {
			r.cls("newnormalchol-no-sigma", "NewNormalChol.MarginalNormalSingle", "", "Sigma=%v want %v", ms.Sigma, math.Sqrt(c.sigma.a[0][0]))
		}
	}
	t.Outcome(fmt.Sprintf("Normal dim=%d", n))
}

func checkMVStudent(t *vlib.T, c mvCase, nu float64) {
	r := &rep{t: t}
	t.Nontrivial()
	n := c.sigma.n
	d, ok := distmv.NewStudentsT(c.mu, c.sigma.sym(), nu, nil)
	if !ok {
		r.fail("NewStudentsT", "", "rejected")
		return
	}
	cond := c.sigma.condEst()
	pts := mvPoints(c)
	for _, x := range pts {
		arg := fmt.Sprint(x)
		want := studentLogPDF(x, c.mu, c.sigma, nu)
		got := d.LogProb(x)
		if math.Abs(got-want) > tolMVLogProb*(1+math.Abs(want))*cond {
			r.fail("StudentsT.LogProb=definition", arg, "LogProb=%v definition=%v", got, want)
		}
		if p := d.Prob(x); relErr(p, math.Exp(got)) > 1e-14 {
			r.fail("StudentsT.Prob=exp(LogProb)", arg, "Prob=%v", p)
		}
		if n == 1 {
			u := distuv.StudentsT{Mu: c.mu[0], Sigma: math.Sqrt(c.sigma.a[0][0]), Nu: nu}
			if math.Abs(u.LogProb(x[0])-got) > 1e-11*(1+math.Abs(got)) {
				r.fail("distmv.StudentsT(dim 1)=distuv.StudentsT", arg, "%v vs %v", got, u.LogProb(x[0]))
			}
		}
	}
	for i, v := range d.Mean(nil) {
		if v != c.mu[i] {
			r.fail("StudentsT.Mean", "", "Mean[%d]=%v", i, v)
		}
	}
	var cov mat.SymDense
	d.CovarianceMatrix(&cov)
	for i := 0; i < n; i++ {
		got := cov.At(i, i)
		if nu > 2 {
			if want := nu / (nu - 2) * c.sigma.a[i][i]; !closeRA(got, want, 1e-14, 0) {
				r.fail("StudentsT.CovarianceMatrix", fmt.Sprint(i), "cov=%v want %v", got, want)
			}
		} else if isFinite(got) {
			r.cls("mv-studentst-covariance-nu-le-2", "StudentsT.CovarianceMatrix-must-not-exist", fmt.Sprint(i), "variance %v reported for nu=%v (infinite for 1<nu<=2, undefined for nu<=1); want NaN or +Inf", got, nu)
			break
		}
	}
	// marginals (every index subset, incl. by integrating the joint density over the other
	// coordinate in dimension 2) and conditionals = joint / marginal
	pick := func(v []float64, idx []int) []float64 {
		o := make([]float64, len(idx))
		for i, k := range idx {
			o[i] = v[k]
		}
		return o
	}
	for i := 0; i < n; i++ {
		ms := d.MarginalStudentsTSingle(i, nil)
		for _, x := range pts[:4] {
			arg := fmt.Sprintf("i=%d x=%v", i, x)
			wantM := studentLogPDF([]float64{x[i]}, []float64{c.mu[i]}, c.sigma.sub([]int{i}), nu)
			if got := ms.LogProb(x[i]); math.Abs(got-wantM) > tolMVLogProb*(1+math.Abs(wantM)) {
				r.fail("MarginalStudentsTSingle.LogProb", arg, "%v want %v", got, wantM)
			}
			if n == 2 {
				o := 1 - i
				so := math.Sqrt(c.sigma.a[o][o])
				integral := glAdaptive(func(th float64) float64 {
					y := append([]float64(nil), x...)
					y[o] = c.mu[o] + so*math.Tan(th)
					co := math.Cos(th)
					return d.Prob(y) * so / (co * co)
				}, -math.Pi/2, math.Pi/2, 1e-13)
				if !closeRA(integral, math.Exp(wantM), 1e-7, 1e-300) {
					r.fail("integral of joint = marginal", arg, "integral=%v marginal density=%v", integral, math.Exp(wantM))
				}
			}
		}
	}
	for _, ob := range subsets(n) {
		mo, ok1 := d.MarginalStudentsT(ob, nil)
		if !ok1 {
			r.fail("MarginalStudentsT", fmt.Sprint(ob), "failed")
			continue
		}
		for _, x := range pts[:4] {
			want := studentLogPDF(pick(x, ob), pick(c.mu, ob), c.sigma.sub(ob), nu)
			if got := mo.LogProb(pick(x, ob)); math.Abs(got-want) > tolMVLogProb*(1+math.Abs(want))*cond {
				r.fail("MarginalStudentsT.LogProb", fmt.Sprintf("vars=%v x=%v", ob, x), "%v want %v", got, want)
			}
		}
		t.Count("marginals_checked", 1)
		if len(ob) == n {
			continue
		}
		un := complement(ob, n)
		for _, x := range pts[:4] {
			arg := fmt.Sprintf("observed=%v x=%v", ob, x)
			wantM := studentLogPDF(pick(x, ob), pick(c.mu, ob), c.sigma.sub(ob), nu)
			cd, ok2 := d.ConditionStudentsT(ob, pick(x, ob), nil)
			if !ok2 {
				r.fail("ConditionStudentsT", arg, "failed")
				continue
			}
			want := studentLogPDF(x, c.mu, c.sigma, nu) - wantM
			if got := cd.LogProb(pick(x, un)); math.Abs(got-want) > 1e-8*(1+math.Abs(want))*cond {
				r.fail("ConditionStudentsT: p(xu|xo)=p(x)/p(xo)", arg, "%v want %v", got, want)
			}
			if cd.Nu() != nu+float64(len(ob)) {
				r.fail("ConditionStudentsT.Nu", arg, "nu=%v want %v", cd.Nu(), nu+float64(len(ob)))
			}
		}
		t.Count("conditionals_checked", 1)
	}
	// Rand: first marginal follows the univariate Student law (enumerated source).
	if n <= smax {
		K := 16
		var v0, w []float64
		var wsum float64
		a := getAlphabet(K)
		var cur []float64
		bad := 0
		enumeratePaths(a, 3, drawCap, func(src *gridSrc) bool {
			dd, _ := distmv.NewStudentsT(c.mu, c.sigma.sym(), nu, src)
			ok := true
			if pv := catch(func() { cur = dd.Rand(nil) }); pv != nil {
				if bad == 0 {
					r.fail("StudentsT.Rand-panic", fmt.Sprint(src.idx), "%v", pv)
				}
				bad++
				ok = false
			}
			return ok
		}, func(wt float64, draws int) {
			if wt < 0 {
				return
			}
			for _, v := range cur {
				if !isFinite(v) && bad == 0 {
					bad++
					r.fail("StudentsT.Rand-finite", "", "sample %v", cur)
				}
			}
			v0 = append(v0, cur[0])
			w = append(w, wt)
			wsum += wt
			t.Max("rand_draws_per_path", int64(draws))
		})
		if bad == 0 {
			u := distuv.StudentsT{Mu: c.mu[0], Sigma: math.Sqrt(c.sigma.a[0][0]), Nu: nu}
			ks, at := ksPoints(v0, w, u.CDF, false)
			if !(ks <= ksMV) {
				r.fail("StudentsT.Rand: first marginal KS", "", "KS=%g at %v", ks, at)
			}
			devNote("rand", "mv StudentsT %s nu=%g\tks=%.4g ratio=%.3f", c.name, nu, ks, ks/ksMV)
		}
	}
	t.Outcome(fmt.Sprintf("StudentsT dim=%d nu%s2", n, map[bool]string{true: ">", false: "<="}[nu > 2]))
}

// checkMVNormalStat compares the closed-form divergences between normal laws
// with the harness quadrature of their definitions (dimension 1 and 2).
func checkMVNormalStat(t *vlib.T) {
	r := &rep{t: t}
	t.Nontrivial()
	cs := mvCases()
	pairs := [][2]int{{0, 0}, {0, 1}, {1, 0}, {3, 4}, {4, 3}, {4, 5}}
	shift := func(c mvCase, d float64) mvCase {
		m := append([]float64(nil), c.mu...)
		for i := range m {
			m[i] += d
		}
		return mvCase{c.name + "+shift", m, c.sigma}
	}
	for _, pr := range pairs {
		l, q := cs[pr[0]], shift(cs[pr[1]], 0.3)
		if pr[0] == 1 || pr[1] == 1 {
			// comparable scales: the d1 small case against a slightly wider one
			q = mvCase{"d1 small wide", []float64{-3.005}, smatFrom(1, []float64{2.25e-4})}
			l = cs[1]
			if pr[0] != 1 {
				l, q = q, l
			}
		}
		n := l.sigma.n
		dl, _ := distmv.NewNormal(l.mu, l.sigma.sym(), nil)
		dq, _ := distmv.NewNormal(q.mu, q.sigma.sym(), nil)
		arg := l.name + " || " + q.name
		// integrate in the whitened coordinates of l (integrands decay like the l density or faster where needed)
		ll := l.sigma.chol()
		detL := 1.0
		for i := 0; i < n; i++ {
			detL *= ll.a[i][i]
		}
		at := func(z []float64) []float64 {
			x := make([]float64, n)
			for i := 0; i < n; i++ {
				x[i] = l.mu[i]
				for k := 0; k <= i; k++ {
					x[i] += ll.a[i][k] * z[k]
				}
			}
			return x
		}
		integ := func(f func(x []float64) float64) float64 {
			if n == 1 {
				return glComposite(func(z float64) float64 { return f(at([]float64{z})) * detL }, -14, 14, 28)
			}
			return glComposite(func(z0 float64) float64 {
				return glComposite(func(z1 float64) float64 { return f(at([]float64{z0, z1})) * detL }, -14, 14, 20)
			}, -14, 14, 20)
		}
		lp := func(x []float64) float64 { return normalLogPDF(x, l.mu, l.sigma) }
		lq := func(x []float64) float64 { return normalLogPDF(x, q.mu, q.sigma) }
		kl := integ(func(x []float64) float64 { a := lp(x); return math.Exp(a) * (a - lq(x)) })
		ce := integ(func(x []float64) float64 { return -math.Exp(lp(x)) * lq(x) })
		bc := integ(func(x []float64) float64 { return math.Exp(0.5 * (lp(x) + lq(x))) })
		chk := func(name string, got, want float64) {
			if !closeRA(got, want, tolMVStat, tolMVStat) {
				r.fail(name, arg, "closed form %v quadrature of the definition %v", got, want)
			}
			t.Count("divergences_checked", 1)
		}
		chk("KullbackLeibler.DistNormal", distmv.KullbackLeibler{}.DistNormal(dl, dq), kl)
		chk("CrossEntropy.DistNormal", distmv.CrossEntropy{}.DistNormal(dl, dq), ce)
		chk("Bhattacharyya.DistNormal", distmv.Bhattacharyya{}.DistNormal(dl, dq), -math.Log(bc))
		chk("Hellinger.DistNormal", distmv.Hellinger{}.DistNormal(dl, dq), math.Sqrt(math.Max(0, 1-bc)))
		for _, al := range []float64{0.5, 0.9} {
			ren := 1 / (al - 1) * math.Log(integ(func(x []float64) float64 { return math.Exp(al*lp(x) + (1-al)*lq(x)) }))
			chk(fmt.Sprintf("Renyi(%g).DistNormal", al), distmv.Renyi{Alpha: al}.DistNormal(dl, dq), ren)
		}
		chk("Renyi(1)=KL", distmv.Renyi{Alpha: 1}.DistNormal(dl, dq), kl)
		if n == 1 {
			ul := distuv.Normal{Mu: l.mu[0], Sigma: math.Sqrt(l.sigma.a[0][0])}
			uq := distuv.Normal{Mu: q.mu[0], Sigma: math.Sqrt(q.sigma.a[0][0])}
			chk("distuv.KullbackLeibler.DistNormal", distuv.KullbackLeibler{}.DistNormal(ul, uq), kl)
			chk("distuv.Bhattacharyya.DistNormal", distuv.Bhattacharyya{}.DistNormal(ul, uq), -math.Log(bc))
			chk("distuv.Hellinger.DistNormal", distuv.Hellinger{}.DistNormal(ul, uq), math.Sqrt(math.Max(0, 1-bc)))
			// Wasserstein-2 between univariate normals: W^2 = (m1-m2)^2 + (s1-s2)^2; the function
			// documents the formula for d^2 and returns that quantity.
			w2 := (l.mu[0]-q.mu[0])*(l.mu[0]-q.mu[0]) + math.Pow(ul.Sigma-uq.Sigma, 2)
			chk("Wasserstein.DistNormal (d^2 as documented)", distmv.Wasserstein{}.DistNormal(dl, dq), w2)
		}
	}
	// univariate Beta divergences against quadrature
	for _, pr := range [][4]float64{{2, 3, 2.5, 1.01}, {1, 1, 5, 2}, {5, 50, 2, 2}} {
		l, q := distuv.Beta{Alpha: pr[0], Beta: pr[1]}, distuv.Beta{Alpha: pr[2], Beta: pr[3]}
		arg := fmt.Sprint(pr)
		kl := glAdaptive(func(x float64) float64 { a := l.LogProb(x); return math.Exp(a) * (a - q.LogProb(x)) }, 0, 1, 1e-13)
		bc := glAdaptive(func(x float64) float64 { return math.Exp(0.5 * (l.LogProb(x) + q.LogProb(x))) }, 0, 1, 1e-13)
		if got := (distuv.KullbackLeibler{}).DistBeta(l, q); !closeRA(got, kl, tolMVStat, tolMVStat) {
			r.fail("distuv.KullbackLeibler.DistBeta", arg, "closed form %v quadrature %v", got, kl)
		}
		if got := (distuv.Bhattacharyya{}).DistBeta(l, q); !closeRA(got, -math.Log(bc), tolMVStat, tolMVStat) {
			r.fail("distuv.Bhattacharyya.DistBeta", arg, "closed form %v quadrature %v", got, -math.Log(bc))
		}
		if got := (distuv.Hellinger{}).DistBeta(l, q); !closeRA(got, math.Sqrt(1-bc), tolMVStat, tolMVStat) {
			r.fail("distuv.Hellinger.DistBeta", arg, "closed form %v quadrature %v", got, math.Sqrt(1-bc))
		}
		t.Count("divergences_checked", 3)
	}
	t.Outcome("statdist")
}

// checkMVNormalStatHD: the divergences between normal laws in every dimension 1..4 (all
// ordered pairs of the mv cases of equal dimension, plus a shifted copy) against the textbook
// closed forms evaluated with the harness's own Gauss-Jordan linear algebra, and the relations
// between them. (The closed forms themselves are validated against quadrature of the
// definitions in dimensions 1 and 2 by checkMVNormalStat.)
func checkMVNormalStatHD(t *vlib.T) {
	r := &rep{t: t}
	t.Nontrivial()
	cs := mvCases()
	for i := range cs {
		sh := append([]float64(nil), cs[i].mu...)
		for k := range sh {
			sh[k] += 0.3 * math.Sqrt(cs[i].sigma.a[k][k]) * float64(k+1)
		}
		cs = append(cs, mvCase{cs[i].name + " shifted", sh, cs[i].sigma})
	}
	comb := func(a, b smat, wa, wb float64) smat {
		var m smat
		m.n = a.n
		for i := 0; i < a.n; i++ {
			for j := 0; j < a.n; j++ {
				m.a[i][j] = wa*a.a[i][j] + wb*b.a[i][j]
			}
		}
		return m
	}
	trProd := func(a, b smat) float64 {
		s := 0.0
		for i := 0; i < a.n; i++ {
			for j := 0; j < a.n; j++ {
				s += a.a[i][j] * b.a[j][i]
			}
		}
		return s
	}
	n := 0
	for _, l := range cs {
		for _, q := range cs {
			if l.sigma.n != q.sigma.n {
				continue
			}
			k := float64(l.sigma.n)
			arg := l.name + " || " + q.name
			cond := l.sigma.condEst() * q.sigma.condEst()
			if cond > 1e8 {
				continue
			}
			dl, _ := distmv.NewNormal(l.mu, l.sigma.sym(), nil)
			dq, _ := distmv.NewNormal(q.mu, q.sigma.sym(), nil)
			d := subv(l.mu, q.mu)
			ldl, ldq := math.Log(l.sigma.det()), math.Log(q.sigma.det())
			kl := 0.5 * (ldq - ldl + trProd(q.sigma.inv(), l.sigma) + q.sigma.inv().quad(d) - k)
			avg := comb(l.sigma, q.sigma, 0.5, 0.5)
			bh := 0.125*avg.inv().quad(d) + 0.5*(math.Log(avg.det())-0.5*ldl-0.5*ldq)
			hl := 0.5 * (k*(log2Pi+1) + ldl)
			tol := 1e-9 * cond
			chk := func(name string, got, want float64) {
				n++
				if !closeRA(got, want, tol, tol) {
					r.fail(name, arg, "got %v, closed form with the harness linear algebra %v", got, want)
				}
			}
			chk("KullbackLeibler.DistNormal", distmv.KullbackLeibler{}.DistNormal(dl, dq), kl)
			chk("CrossEntropy.DistNormal", distmv.CrossEntropy{}.DistNormal(dl, dq), kl+hl)
			chk("Bhattacharyya.DistNormal", distmv.Bhattacharyya{}.DistNormal(dl, dq), bh)
			chk("Bhattacharyya symmetric", distmv.Bhattacharyya{}.DistNormal(dq, dl), bh)
			chk("Hellinger.DistNormal", distmv.Hellinger{}.DistNormal(dl, dq), math.Sqrt(math.Max(0, -math.Expm1(-bh))))
			for _, al := range []float64{0.25, 0.5, 0.9} {
				sa := comb(l.sigma, q.sigma, 1-al, al)
				ren := al/2*sa.inv().quad(d) - 1/(2*(al-1))*(math.Log(sa.det())-(1-al)*ldl-al*ldq)
				chk(fmt.Sprintf("Renyi(%g).DistNormal", al), distmv.Renyi{Alpha: al}.DistNormal(dl, dq), ren)
			}
			chk("Renyi(1/2) = 2 Bhattacharyya", distmv.Renyi{Alpha: 0.5}.DistNormal(dl, dq), 2*bh)
			// (only for moderately different laws: dD/dalpha grows with the variance of the log ratio)
			if got := (distmv.Renyi{Alpha: 1 - 1e-7}).DistNormal(dl, dq); kl < 50 && !closeRA(got, kl, 1e-4, 1e-4) {
				r.fail("Renyi(alpha -> 1) -> KL", arg, "Renyi(1-1e-7)=%v KL=%v", got, kl)
			}
			if got := (distmv.Renyi{Alpha: 0}).DistNormal(dl, dq); got != 0 {
				r.fail("Renyi(0)", arg, "%v", got)
			}
			// Wasserstein-2 (squared, as documented) for commuting (here: diagonal) covariances
			diag := true
			for i := 0; i < l.sigma.n; i++ {
				for j := 0; j < l.sigma.n; j++ {
					if i != j && (l.sigma.a[i][j] != 0 || q.sigma.a[i][j] != 0) {
						diag = false
					}
				}
			}
			if diag {
				w2 := 0.0
				for i := 0; i < l.sigma.n; i++ {
					w2 += d[i]*d[i] + math.Pow(math.Sqrt(l.sigma.a[i][i])-math.Sqrt(q.sigma.a[i][i]), 2)
				}
				chk("Wasserstein.DistNormal (d^2, diagonal covariances)", distmv.Wasserstein{}.DistNormal(dl, dq), w2)
			} else if l.name == q.name {
				chk("Wasserstein.DistNormal(l,l)", distmv.Wasserstein{}.DistNormal(dl, dq), 0)
			}
			if l.name == q.name {
				chk("KullbackLeibler(l,l)=0", distmv.KullbackLeibler{}.DistNormal(dl, dq), 0)
			}
		}
	}
	t.Count("divergences_checked", int64(n))
	t.Outcome("statdist closed forms")
}

func checkMVUniform(t *vlib.T, b []r1.Interval) {
	r := &rep{t: t}
	t.Nontrivial()
	n := len(b)
	d := distmv.NewUniform(b, nil)
	vol := 1.0
	for _, iv := range b {
		vol *= iv.Max - iv.Min
	}
	mid := make([]float64, n)
	for i, iv := range b {
		mid[i] = (iv.Min + iv.Max) / 2
	}
	if got := d.LogProb(mid); !closeRA(got, -math.Log(vol), 1e-14, 1e-15) {
		r.fail("Uniform.LogProb", "", "%v want %v", got, -math.Log(vol))
	}
	if got := d.Prob(mid); !closeRA(got, 1/vol, 1e-13, 0) {
		r.fail("Uniform.Prob", "", "%v want %v", got, 1/vol)
	}
	if got := d.Entropy(); !closeRA(got, math.Log(vol), 1e-14, 1e-15) {
		r.fail("Uniform.Entropy", "", "%v want %v", got, math.Log(vol))
	}
	for i := range b {
		out := append([]float64(nil), mid...)
		out[i] = b[i].Max + 1
		if !math.IsInf(d.LogProb(out), -1) || d.Prob(out) != 0 {
			r.fail("Uniform-outside", fmt.Sprint(i), "LogProb=%v Prob=%v outside the box", d.LogProb(out), d.Prob(out))
		}
		c := d.CDF(nil, out)
		if c[i] != 1 {
			r.fail("Uniform.CDF-outside", fmt.Sprint(i), "CDF=%v", c)
		}
		out[i] = b[i].Min - 1
		if c := d.CDF(nil, out); c[i] != 0 {
			r.fail("Uniform.CDF-outside", fmt.Sprint(i), "CDF=%v", c)
		}
	}
	for i, v := range d.Mean(nil) {
		if v != mid[i] {
			r.fail("Uniform.Mean", "", "%v", v)
		}
	}
	for _, p := range pGrid {
		ps := make([]float64, n)
		for i := range ps {
			ps[i] = p
		}
		q := d.Quantile(nil, ps)
		c := d.CDF(nil, q)
		for i := range c {
			if math.Abs(c[i]-p) > 1e-12 {
				r.fail("Uniform.CDF(Quantile(p))=p", g(p), "coordinate %d: %v", i, c[i])
			}
		}
	}
	if catch(func() { d.Quantile(nil, make([]float64, n+1)) }) == nil {
		r.fail("Uniform.Quantile-length", "", "no panic for a wrong length")
	}
	bad := make([]float64, n)
	bad[0] = 1.5
	if catch(func() { d.Quantile(nil, bad) }) == nil {
		r.fail("Uniform.Quantile-domain", "", "no panic for p=1.5")
	}
	// Rand: every coordinate is the stratum midpoint of its own draw.
	K := 16
	a := getAlphabet(K)
	nb := 0
	paths, _, pan := mvRandPaths(K, n, func(src *gridSrc) []float64 { return distmv.NewUniform(b, src).Rand(nil) }, func(x []float64, _ float64, src *gridSrc) {
		for i := range x {
			want := b[i].Min + unifOf(a.u[kindUnif][src.idx[i]])*(b[i].Max-b[i].Min)
			if !closeRA(x[i], want, 1e-15, 1e-18) && nb < 2 {
				nb++
				r.fail("Uniform.Rand", fmt.Sprint(src.idx), "coordinate %d = %v want %v", i, x[i], want)
			}
		}
	})
	if pan != nil {
		r.fail("Uniform.Rand-panic", "", "%v", pan)
	}
	t.Count("rand_paths", paths)
	t.Outcome(fmt.Sprintf("Uniform dim=%d", n))
}

func checkMVUniformStat(t *vlib.T) {
	r := &rep{t: t}
	t.Nontrivial()
	mk := func(v ...float64) *distmv.Uniform {
		var b []r1.Interval
		for i := 0; i < len(v); i += 2 {
			b = append(b, r1.Interval{Min: v[i], Max: v[i+1]})
		}
		return distmv.NewUniform(b, nil)
	}
	type tc struct {
		l, q   *distmv.Uniform
		kl, bc float64 // expected KL and Bhattacharyya coefficient
	}
	cases := []tc{
		{mk(0, 1), mk(0, 1), 0, 1},
		{mk(0, 1), mk(-1, 3), math.Log(4), math.Sqrt(1.0 / 4)},
		{mk(-1, 3), mk(0, 1), math.Inf(1), math.Sqrt(1.0 / 4)},
		{mk(0, 2, 0, 2), mk(1, 3, 1, 5), math.Inf(1), 1 * 1 / math.Sqrt(4*8)},
		{mk(0, 1, 0, 1), mk(2, 3, 0, 1), math.Inf(1), 0},
		{mk(0, 1, 2, 3), mk(0, 2, 0, 4), math.Log(8), 1 / math.Sqrt(8)},
	}
	for i, c := range cases {
		arg := fmt.Sprint(i)
		if got := (distmv.KullbackLeibler{}).DistUniform(c.l, c.q); !(got == c.kl || closeRA(got, c.kl, 1e-13, 1e-15)) {
			r.fail("KullbackLeibler.DistUniform", arg, "%v want %v", got, c.kl)
		}
		want := -math.Log(c.bc)
		if got := (distmv.Bhattacharyya{}).DistUniform(c.l, c.q); !(got == want || closeRA(got, want, 1e-13, 1e-15)) {
			r.fail("Bhattacharyya.DistUniform", arg, "%v want %v", got, want)
		}
	}
	t.Outcome("statdist")
}

func checkDirichlet(t *vlib.T, al []float64) {
	r := &rep{t: t}
	t.Nontrivial()
	n := len(al)
	d := distmv.NewDirichlet(al, nil)
	a0 := 0.0
	for _, v := range al {
		a0 += v
	}
	logB := 0.0
	for _, v := range al {
		lg, _ := math.Lgamma(v)
		logB += lg
	}
	lg0, _ := math.Lgamma(a0)
	logB -= lg0
	def := func(x []float64) float64 {
		s := -logB
		for i, v := range x {
			if al[i] != 1 {
				s += (al[i] - 1) * math.Log(v)
			}
		}
		return s
	}
	// interior points of the simplex
	var pts [][]float64
	for _, w := range [][]float64{{1, 1, 1, 1}, {1, 2, 3, 4}, {10, 1, 1, 3}, {1, 30, 2, 0.5}} {
		x := make([]float64, n)
		s := 0.0
		for i := range x {
			s += w[i]
		}
		for i := range x {
			x[i] = w[i] / s
		}
		pts = append(pts, x)
	}
	for _, x := range pts {
		arg := fmt.Sprint(x)
		want := def(x)
		got := d.LogProb(x)
		if math.Abs(got-want) > 1e-12*(1+math.Abs(want)+math.Abs(logB)) {
			r.fail("Dirichlet.LogProb=definition", arg, "%v want %v", got, want)
		}
		if p := d.Prob(x); relErr(p, math.Exp(got)) > 1e-14 {
			r.fail("Dirichlet.Prob=exp(LogProb)", arg, "%v", p)
		}
		if n == 2 {
			b := distuv.Beta{Alpha: al[0], Beta: al[1]}
			if math.Abs(b.LogProb(x[0])-got) > 1e-11*(1+math.Abs(got)+math.Abs(logB)) {
				r.fail("Dirichlet(dim 2)=Beta", arg, "%v vs %v", got, b.LogProb(x[0]))
			}
		}
	}
	mean := d.Mean(nil)
	for i := range mean {
		if !closeRA(mean[i], al[i]/a0, 1e-15, 0) {
			r.fail("Dirichlet.Mean", fmt.Sprint(i), "%v want %v", mean[i], al[i]/a0)
		}
	}
	var cov mat.SymDense
	d.CovarianceMatrix(&cov)
	// moments by quadrature over the simplex (dims 2 and 3, all alpha >= 1: no singular corners)
	smooth := true
	for _, v := range al {
		if v != 1 && v < 2 { // x^(alpha-1) must be C^1 at the faces for the fixed rule
			smooth = false
		}
	}
	if n <= 3 && smooth {
		var m0 float64
		m1 := make([]float64, n)
		m2 := make([][]float64, n)
		for i := range m2 {
			m2[i] = make([]float64, n)
		}
		acc := func(x []float64, w float64) {
			p := math.Exp(d.LogProb(x)) * w
			m0 += p
			for i := range x {
				m1[i] += p * x[i]
				for j := range x {
					m2[i][j] += p * x[i] * x[j]
				}
			}
		}
		const np = 6
		if n == 2 {
			for pi := 0; pi < np; pi++ {
				for k, xn := range glX {
					h := 0.5 / np
					x0 := (float64(pi)+0.5)/np + h*xn
					acc([]float64{x0, 1 - x0}, glW[k]*h)
				}
			}
		} else {
			// x0 in (0,1), x1 = (1-x0) s with s in (0,1): Jacobian (1-x0)
			for pi := 0; pi < np; pi++ {
				for k, xn := range glX {
					h := 0.5 / np
					x0 := (float64(pi)+0.5)/np + h*xn
					for pj := 0; pj < np; pj++ {
						for k2, sn := range glX {
							s := (float64(pj)+0.5)/np + h*sn
							x1 := (1 - x0) * s
							acc([]float64{x0, x1, 1 - x0 - x1}, glW[k]*h*glW[k2]*h*(1-x0))
						}
					}
				}
			}
		}
		tol := 1e-6 // integrands with alpha-1 non-integer are only C^0 at the faces: algebraic convergence
		if math.Abs(m0-1) > tol {
			r.fail("Dirichlet integral(Prob)=1", "", "mass=%v", m0)
		} else {
			for i := 0; i < n; i++ {
				if !closeRA(mean[i], m1[i]/m0, tol, tol) {
					r.fail("Dirichlet.Mean=quadrature", fmt.Sprint(i), "%v vs %v", mean[i], m1[i]/m0)
				}
				for j := 0; j < n; j++ {
					want := m2[i][j]/m0 - m1[i]*m1[j]/(m0*m0)
					if !closeRA(cov.At(i, j), want, 10*tol, 10*tol*al[i]/a0) {
						r.fail("Dirichlet.CovarianceMatrix=quadrature", fmt.Sprintf("%d,%d", i, j), "%v vs %v", cov.At(i, j), want)
					}
				}
			}
		}
	}
	// closed-form covariance against the textbook formula
	for i := 0; i < n; i++ {
		for j := 0; j < n; j++ {
			want := -al[i] * al[j] / (a0 * a0 * (a0 + 1))
			if i == j {
				want = al[i] * (a0 - al[i]) / (a0 * a0 * (a0 + 1))
			}
			if !closeRA(cov.At(i, j), want, 1e-13, 0) {
				r.fail("Dirichlet.CovarianceMatrix", fmt.Sprintf("%d,%d", i, j), "%v want %v", cov.At(i, j), want)
			}
		}
	}
	// KL between Dirichlet laws in dimension 2 against the quadrature of the definition
	{
		// KL between Dirichlet laws of any dimension: E_l[log x_i] = d/d alpha_i log B(alpha) with the
		// derivative taken by Richardson differences of math.Lgamma (the formula is validated against
		// the quadrature of the definition in dimension 2 below)
		ar := make([]float64, n)
		for i := range ar {
			ar[i] = al[(i+1)%n] + 0.5*float64(i%2) + 0.25
		}
		q := distmv.NewDirichlet(ar, nil)
		psi := func(x float64) float64 {
			return richardson(func(e float64) float64 { v, _ := math.Lgamma(x + e); return v }, 1e-3*math.Min(1, x))
		}
		logB := func(a []float64) float64 {
			s, tot := 0.0, 0.0
			for _, v := range a {
				lg, _ := math.Lgamma(v)
				s += lg
				tot += v
			}
			lg, _ := math.Lgamma(tot)
			return s - lg
		}
		kl := logB(ar) - logB(al)
		for i := range al {
			kl += (al[i] - ar[i]) * (psi(al[i]) - psi(a0))
		}
		if got := (distmv.KullbackLeibler{}).DistDirichlet(d, q); !closeRA(got, kl, 1e-7, 1e-7) {
			r.fail("KullbackLeibler.DistDirichlet", fmt.Sprint(ar), "closed form %v; with d log B/d alpha by differences of Lgamma %v", got, kl)
		}
	}
	if n == 2 && smooth {
		q := distmv.NewDirichlet([]float64{al[1] + 0.5, al[0] + 1}, nil)
		kl := glAdaptive(func(x float64) float64 {
			p := d.LogProb([]float64{x, 1 - x})
			return math.Exp(p) * (p - q.LogProb([]float64{x, 1 - x}))
		}, 0, 1, 1e-13)
		if got := (distmv.KullbackLeibler{}).DistDirichlet(d, q); !closeRA(got, kl, 1e-7, 1e-9) {
			r.fail("KullbackLeibler.DistDirichlet", "", "closed form %v quadrature %v", got, kl)
		}
	}
	if got := (distmv.KullbackLeibler{}).DistDirichlet(d, d); math.Abs(got) > 1e-12 {
		r.fail("KullbackLeibler.DistDirichlet(d,d)=0", "", "%v", got)
	}
	// Rand: on the simplex; first coordinate ~ Beta(alpha_0, sum of the others).
	K := 16
	a := getAlphabet(K)
	var v0, w []float64
	var cur []float64
	bad := 0
	paths := enumeratePaths(a, 3, drawCap, func(src *gridSrc) bool {
		dd := distmv.NewDirichlet(al, src)
		if pv := catch(func() { cur = dd.Rand(nil) }); pv != nil {
			if bad == 0 {
				r.fail("Dirichlet.Rand-panic", fmt.Sprint(src.idx), "%v", pv)
			}
			bad++
			return false
		}
		s := 0.0
		for _, v := range cur {
			if !(v >= 0 && v <= 1) {
				if bad == 0 {
					r.fail("Dirichlet.Rand-in-support", fmt.Sprint(src.idx), "sample %v", cur)
				}
				bad++
				return false
			}
			s += v
		}
		if math.Abs(s-1) > 1e-14 {
			if bad == 0 {
				r.fail("Dirichlet.Rand-sum", fmt.Sprint(src.idx), "sample %v sums to %v", cur, s)
			}
			bad++
			return false
		}
		return true
	}, func(wt float64, draws int) {
		if wt > 0 {
			v0 = append(v0, cur[0])
			w = append(w, wt)
		}
		t.Max("rand_draws_per_path", int64(draws))
	})
	t.Count("rand_paths", paths)
	if bad == 0 {
		bt := distuv.Beta{Alpha: al[0], Beta: a0 - al[0]}
		ks, at := ksPoints(v0, w, bt.CDF, false)
		if !(ks <= ksMV) {
			r.fail("Dirichlet.Rand: first marginal KS", "", "KS=%g at %v", ks, at)
		}
		devNote("rand", "mv Dirichlet %v\tks=%.4g ratio=%.3f", al, ks, ks/ksMV)
	}
	t.Outcome(fmt.Sprintf("Dirichlet dim=%d smooth=%v", n, smooth))
}
