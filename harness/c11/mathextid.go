package main

import (
	"fmt"
	"math"
	"math/cmplx"
	"sort"

	"gonum.org/v1/gonum/internal/verif/vlib"
	"gonum.org/v1/gonum/mathext"
)

// Tolerances of the mathext group (relative unless noted). See NOTES.md.
const (
	tolSFComplement = 1e-12 // P+Q-1, I_x(a,b)+I_{1-x}(b,a)-1 (absolute, both terms are <= 1)
	tolSFRecur      = 1e-10 // recurrences, relative to the larger term (absolute where the terms are probabilities)
	tolSFInverse    = 1e-9  // F(F^-1(y)) = y, relative on the smaller of y, 1-y
	tolDigamma      = 1e-9  // the implementation's own truncation error is 5.3e-11 (NOTES.md)
	tolZeta         = 1e-12
	tolNormQ        = 1e-13 // Phi(NormalQuantile(p)) = p, relative on the smaller tail (plus conditioning of erfc)
	tolEll          = 1e-13
	tolAiry         = 1e-11
	tolLgamma       = 1e-13 // Beta/Lbeta/MvLgamma against math.Lgamma, absolute in the log plus relative
)

// sfErr keeps the worst error/tolerance ratio of a case for the evidence file.
type sfErr struct {
	worst float64
	where string
	n     int64
}

func (e *sfErr) see(ratio float64, where string) {
	e.n++
	if ratio > e.worst || math.IsNaN(ratio) {
		e.worst, e.where = ratio, where
	}
}

func sfCase(gen *vlib.G, key string, body func(r *rep, e *sfErr)) {
	gen.Case(key, func(t *vlib.T) {
		r := &rep{t: t}
		e := &sfErr{}
		body(r, e)
		t.Nontrivial()
		t.Count("special_function_identities", e.n)
		t.Outcome(key[:indexOrLen(key, ' ')] + " worst/tol~" + ratioBucket(e.worst))
		t.Detail(map[string]any{"worst_error_over_tolerance": e.worst, "at": e.where, "identities": e.n})
		devNote("sf", "%s\t%.3g\t%s", key, e.worst, e.where)
	})
}

func indexOrLen(s string, c byte) int {
	for i := 0; i < len(s); i++ {
		if s[i] == c {
			return i
		}
	}
	return len(s)
}

// straddle returns v and its neighbours a relative eps below/above.
func straddle(vs ...float64) []float64 {
	var o []float64
	for _, v := range vs {
		o = append(o, v*(1-1e-9), math.Nextafter(v, math.Inf(-1)), v, math.Nextafter(v, math.Inf(1)), v*(1+1e-9))
	}
	return o
}

func uniqSorted(v []float64) []float64 {
	sort.Float64s(v)
	o := v[:0]
	for i, x := range v {
		if i == 0 || x != v[i-1] {
			o = append(o, x)
		}
	}
	return o
}

// igamSmall = 20 and igamLarge = 200 bound the asymptotic regime; a = 1 and a < 1 matter to the callers.
var gammaAs = set([]float64{0.055, 0.1, 0.2, 0.83, 0.3, 0.5, 2, 2.5, 5, 10, 19.9, 20.1, 30, 50, 100, 150, 199, 201, 250, 500, 1000, 1e4}, nb(1), ulps(20, 200))

// gammaXs crosses every region switch of cephes igam.go for the given a:
// x = 1, 1.1, 0.5 (IgamC), x = a, x*1.1 = a, -0.4/log(x) = a, |x-a|/a = 0.3 (20<a<200),
// |x-a|/a = 4.5/sqrt(a) (a>200), plus far tails.
func gammaXs(a float64) []float64 {
	xs := []float64{1e-300, 1e-30, 1e-10, 1e-3, 0.1, 0.4}
	xs = append(xs, straddle(0.5, 1, 1.1, a, a/1.1, a*0.7, a*1.3, a*(1-4.5/math.Sqrt(a)), a*(1+4.5/math.Sqrt(a)))...)
	if a < 1 {
		xs = append(xs, straddle(math.Exp(-0.4/a))...)
	}
	xs = append(xs, a/100, a/3, a*2, a*5.5, a*30, a+40*math.Sqrt(a)+40, 700, 1e4)
	// a sweep of 48 log-spaced points over [a/1000, 1000 a] and 24 points across the bulk a +- 6 sqrt(a)
	for i := 0; i < 48; i++ {
		xs = append(xs, a*math.Pow(10, -3+6*float64(i)/47))
	}
	for i := 0; i < 24; i++ {
		xs = append(xs, a+math.Sqrt(a)*(-6+12*float64(i)/23))
	}
	o := xs[:0]
	for _, x := range xs {
		if x > 0 && isFinite(x) {
			o = append(o, x)
		}
	}
	return uniqSorted(o)
}

func genMathext(gen *vlib.G) {
	genMathextRef(gen)
	// --- incomplete gamma ---------------------------------------------------
	for _, a := range gammaAs {
		a := a
		sfCase(gen, fmt.Sprintf("GammaInc a=%g", a), func(r *rep, e *sfErr) {
			lga1, _ := math.Lgamma(a + 1)
			for _, x := range gammaXs(a) {
				arg := fmt.Sprintf("a=%g x=%s", a, g(x))
				p, q := mathext.GammaIncReg(a, x), mathext.GammaIncRegComp(a, x)
				if !(p >= 0 && p <= 1 && q >= 0 && q <= 1) {
					r.fail("GammaIncReg-range", arg, "P=%v Q=%v", p, q)
					continue
				}
				d := math.Abs(p + q - 1)
				e.see(d/tolSFComplement, arg)
				if d > tolSFComplement {
					r.fail("GammaIncReg+GammaIncRegComp=1", arg, "P=%v Q=%v P+Q-1=%g", p, q, p+q-1)
				}
				// recurrence P(a+1,x) = P(a,x) - x^a e^-x / Gamma(a+1)
				p1, q1 := mathext.GammaIncReg(a+1, x), mathext.GammaIncRegComp(a+1, x)
				term := math.Exp(a*math.Log(x) - x - lga1)
				// the term is formed from a*log(x)-x-lgamma: its own rounding error is eps*(|a log x| + x + |lgamma|)
				cond := 0x1p-52 * (math.Abs(a*math.Log(x)) + x + math.Abs(lga1)) * term
				dp := math.Abs(p1 - (p - term))
				dq := math.Abs(q1 - (q + term))
				tol := tolSFRecur*math.Max(p, term) + 4*cond + 1e-300
				e.see(dp/tol, arg)
				if dp > tol {
					r.fail("GammaIncReg-recurrence", arg, "P(a+1,x)=%v P(a,x)-x^a e^-x/G(a+1)=%v", p1, p-term)
				}
				tol = tolSFRecur*math.Max(q1, term) + 4*cond + 1e-300
				e.see(dq/tol, arg)
				if dq > tol {
					r.fail("GammaIncRegComp-recurrence", arg, "Q(a+1,x)=%v Q(a,x)+x^a e^-x/G(a+1)=%v", q1, q+term)
				}
			}
			// monotone in x
			prev := 0.0
			for _, x := range gammaXs(a) {
				p := mathext.GammaIncReg(a, x)
				if p < prev-1e-14 {
					r.fail("GammaIncReg-monotone", fmt.Sprintf("a=%g x=%s", a, g(x)), "P=%v after %v", p, prev)
				}
				prev = p
			}
			if mathext.GammaIncReg(a, 0) != 0 || mathext.GammaIncRegComp(a, 0) != 1 {
				r.fail("GammaIncReg-at-0", fmt.Sprintf("a=%g", a), "P(a,0)=%v Q(a,0)=%v", mathext.GammaIncReg(a, 0), mathext.GammaIncRegComp(a, 0))
			}
		})
		sfCase(gen, fmt.Sprintf("GammaIncInv a=%g", a), func(r *rep, e *sfErr) {
			ys := []float64{1e-300, 1e-200, 1e-100, 1e-50, 1e-30, 1e-20, 1e-19, 2.5e-18, 1e-18, 1e-15, 1e-12, 1e-9, 1e-6, 1e-3, 0.01, 0.1, 0.2, 0.3, 0.5, 0.7, 0.9, 0.99, 1 - 1e-3, 1 - 1e-6, 1 - 1e-9, 1 - 1e-12}
			ys = append(ys, straddle(0.25, 0.75, 0.5)...)
			for i := 1; i < 20; i++ {
				ys = append(ys, float64(i)/20)
			}
			for _, y := range uniqSorted(ys) {
				arg := fmt.Sprintf("a=%g y=%s", a, g(y))
				for _, comp := range []bool{false, true} {
					var x, back float64
					name := "GammaIncRegInv"
					if comp {
						name = "GammaIncRegCompInv"
					}
					if pv := catch(func() {
						if comp {
							x = mathext.GammaIncRegCompInv(a, y)
							back = mathext.GammaIncRegComp(a, x)
						} else {
							x = mathext.GammaIncRegInv(a, y)
							back = mathext.GammaIncReg(a, x)
						}
					}); pv != nil {
						cl := ""
						if !comp && y < 0.25 {
							cl = "gammaincreginv-tiny-result"
						}
						r.cls(cl, name+"-panic", arg, "%v", pv)
						continue
					}
					// conditioning: y and 1-y are both inputs of the algorithm (the inverse of the
					// complement is used for y >= 0.25), so eps relative to 1 is unavoidable.
					tol := tolSFInverse*math.Min(y, 1-y) + 8*0x1p-52
					d := math.Abs(back - y)
					e.see(d/tol, name+" "+arg)
					if !(d <= tol) {
						cl := ""
						if !comp && y < 0.25 && !(x >= 1e-5) {
							cl = "gammaincreginv-tiny-result"
						}
						r.cls(cl, name+"-inverse", arg, "x=%v maps back to %v (err %g, tol %g)", x, back, back-y, tol)
					}
				}
			}
			for _, c := range []struct {
				y         float64
				inv, cinv float64
			}{{0, 0, math.Inf(1)}, {1, math.Inf(1), 0}} {
				if v := mathext.GammaIncRegInv(a, c.y); v != c.inv {
					r.fail("GammaIncRegInv-endpoint", fmt.Sprintf("a=%g y=%g", a, c.y), "got %v want %v", v, c.inv)
				}
				if v := mathext.GammaIncRegCompInv(a, c.y); v != c.cinv {
					r.fail("GammaIncRegCompInv-endpoint", fmt.Sprintf("a=%g y=%g", a, c.y), "got %v want %v", v, c.cinv)
				}
			}
		})
	}

	// --- incomplete beta ----------------------------------------------------
	// incbi: aa <= 1 || bb <= 1 takes the bisection path; incbet: a+b < maxGam = 171.62
	betaAB := set([]float64{0.2, 0.3, 0.5, 2, 2.5, 5, 20, 50, 85, 86, 100, 171, 172, 1000}, nb(1))
	for _, a := range betaAB {
		for _, b := range betaAB {
			a, b := a, b
			sfCase(gen, fmt.Sprintf("RegIncBeta a=%g b=%g", a, b), func(r *rep, e *sfErr) {
				xs := []float64{1e-300, 1e-30, 1e-10, 1e-3, 0.01, 0.1, 0.25, 0.5, 0.75, 0.9, 0.99, 0.999, 1 - 1e-10}
				xs = append(xs, straddle(0.95, 0.05, a/(a+b), b/(a+b), (a-1)/(a+b-2), (a+1)/(a+b+2))...)
				xs = append(xs, straddle(1/b, 1/a, 1-1/a, 1-1/b)...)
				for i := 1; i < 32; i++ {
					xs = append(xs, float64(i)/32)
				}
				var ok []float64
				for _, x := range xs {
					if x > 0 && x < 1 {
						ok = append(ok, x)
					}
				}
				lb := mathext.Lbeta(a, b)
				prev := 0.0
				boxF := 1.0 // parameters beyond the property's box: tolerances x10
				if a > 50 || b > 50 {
					boxF = 10
				}
				for _, x := range uniqSorted(ok) {
					arg := fmt.Sprintf("a=%g b=%g x=%s", a, b, g(x))
					i1 := mathext.RegIncBeta(a, b, x)
					i2 := mathext.RegIncBeta(b, a, 1-x)
					if !(i1 >= 0 && i1 <= 1 && i2 >= 0 && i2 <= 1) {
						r.fail("RegIncBeta-range", arg, "I=%v I'=%v", i1, i2)
						continue
					}
					// 1-x is rounded: the second value is that of an argument eps away.
					xc := 1 - x
					cond := math.Abs(mathext.RegIncBeta(b, a, math.Min(1, math.Nextafter(xc, 2)))-mathext.RegIncBeta(b, a, math.Max(0, math.Nextafter(xc, -1)))) * 2
					d := math.Abs(i1 + i2 - 1)
					tol := boxF * (tolSFComplement + cond)
					e.see(d/tol, arg)
					if d > tol {
						r.fail("RegIncBeta-symmetry", arg, "I_x(a,b)=%v I_{1-x}(b,a)=%v sum-1=%g", i1, i2, i1+i2-1)
					}
					// the algorithm switches (series / continued fractions / transformed argument) meet
					// to about 1e-12 relative only: observed steps up to 9e-13 (NOTES.md O6)
					if i1 < prev-1e-11*prev-1e-300 {
						r.fail("RegIncBeta-monotone", arg, "I=%v after %v", i1, prev)
					}
					prev = i1
					// recurrence I_x(a+1,b) = I_x(a,b) - x^a (1-x)^b / (a B(a,b))
					logt := a*math.Log(x) + b*math.Log1p(-x) - math.Log(a) - lb
					term := math.Exp(logt)
					condT := 0x1p-52 * (math.Abs(a*math.Log(x)) + math.Abs(b*math.Log1p(-x)) + math.Abs(lb) + 1) * term
					if x < 1e-290 || i1 < 1e-290 {
						continue // denormal arguments and results carry few digits
					}
					i3 := mathext.RegIncBeta(a+1, b, x)
					d = math.Abs(i3 - (i1 - term))
					tol = boxF * (tolSFRecur*math.Max(i1, term) + 8*condT + 1e-300)
					e.see(d/tol, arg)
					if d > tol {
						r.fail("RegIncBeta-recurrence", arg, "I_x(a+1,b)=%v I_x(a,b)-x^a(1-x)^b/(aB)=%v", i3, i1-term)
					}
				}
				if mathext.RegIncBeta(a, b, 0) != 0 || mathext.RegIncBeta(a, b, 1) != 1 {
					r.fail("RegIncBeta-endpoints", fmt.Sprintf("a=%g b=%g", a, b), "I_0=%v I_1=%v", mathext.RegIncBeta(a, b, 0), mathext.RegIncBeta(a, b, 1))
				}
				// inverse
				// parameters beyond the property's box (kept to cross a+b = maxGam) get 1e-7
				tolInv := tolSFInverse
				if a > 50 || b > 50 {
					tolInv = 1e-7
				}
				for _, y := range []float64{1e-6, 1e-3, 0.01, 0.1, 0.3, 0.5 * (1 - 1e-9), 0.5, 0.5 * (1 + 1e-9), 0.7, 0.9, 0.99, 1 - 1e-3, 1 - 1e-6} {
					arg := fmt.Sprintf("a=%g b=%g y=%s", a, b, g(y))
					var x float64
					if pv := catch(func() { x = mathext.InvRegIncBeta(a, b, y) }); pv != nil {
						r.fail("InvRegIncBeta-panic", arg, "%v", pv)
						continue
					}
					if !(x >= 0 && x <= 1) {
						r.fail("InvRegIncBeta-range", arg, "x=%v", x)
						continue
					}
					back := mathext.RegIncBeta(a, b, x)
					// representation of x near 1 (and near 0 below the smallest normal)
					cond := 0.0
					if x > 0 && x < 1 {
						cond = math.Abs(mathext.RegIncBeta(a, b, math.Min(1, math.Nextafter(x, 2)))-mathext.RegIncBeta(a, b, math.Max(0, math.Nextafter(x, -1)))) * 2
					}
					tol := tolInv*math.Min(y, 1-y) + 8*0x1p-52 + cond
					d := math.Abs(back - y)
					e.see(d/tol, arg)
					if !(d <= tol) {
						r.fail("InvRegIncBeta-inverse", arg, "x=%v maps back to %v (err %g, tol %g)", x, back, back-y, tol)
					}
				}
				if mathext.InvRegIncBeta(a, b, 0) != 0 || mathext.InvRegIncBeta(a, b, 1) != 1 {
					r.fail("InvRegIncBeta-endpoints", fmt.Sprintf("a=%g b=%g", a, b), "inv(0)=%v inv(1)=%v", mathext.InvRegIncBeta(a, b, 0), mathext.InvRegIncBeta(a, b, 1))
				}
			})
		}
	}

	// --- digamma ------------------------------------------------------------
	sfCase(gen, "Digamma recurrence+reflection", func(r *rep, e *sfErr) {
		var xs []float64
		for _, x := range []float64{1e-8, 1e-3, 0.1, 0.25, 0.5, 0.75, 1, 1.4616321449683623, 1.5, 2, 3, 4.5, 5, 5.999999, 6, 6.000001, 6.5, 7, 7.000001, 8, 10, 50, 1e3, 1e6, 1e12} {
			xs = append(xs, x, -x-0.25, -x-0.5)
		}
		xs = append(xs, ulps(1, 2, 6, 7, 8)...) // the recurrence loop runs while x < 7
		for i := -200; i <= 240; i++ {          // sweep (-10, 12) in steps of 0.05 (poles are skipped below)
			xs = append(xs, float64(i)*0.05+0.0125)
		}
		for _, x := range xs {
			if x <= 0 && x == math.Floor(x) || x+1 <= 0 && x+1 == math.Floor(x+1) {
				continue // poles
			}
			arg := "x=" + g(x)
			p0, p1 := mathext.Digamma(x), mathext.Digamma(x+1)
			// near the zero of psi the values cancel: tolerance relative to the larger of the three terms
			m := math.Max(math.Max(math.Abs(p0), math.Abs(p1)), math.Abs(1/x))
			d := math.Abs(p1 - p0 - 1/x)
			e.see(d/(tolDigamma*m), arg)
			if !(d <= tolDigamma*m) {
				r.fail("Digamma-recurrence", arg, "psi(x+1)=%v psi(x)+1/x=%v", p1, p0+1/x)
			}
			if x > 1e-9 && x < 1-1e-9 { // pi cot(pi x) is ill-conditioned next to the poles
				// reflection psi(1-x) - psi(x) = pi cot(pi x)
				want := math.Pi / math.Tan(math.Pi*x)
				got := mathext.Digamma(1-x) - p0
				mm := math.Max(math.Abs(want), math.Abs(p0))
				d := math.Abs(got - want)
				e.see(d/(tolDigamma*mm), arg)
				if !(d <= tolDigamma*mm) {
					r.fail("Digamma-reflection", arg, "psi(1-x)-psi(x)=%v pi cot(pi x)=%v", got, want)
				}
			}
			if x > 1e-3 && x < 1e6 {
				// psi = d/dx lgamma (Richardson central difference of math.Lgamma)
				h := 1e-3 * math.Max(1, math.Abs(x))
				if fr := math.Abs(x - math.Round(x)); x < 0 {
					h = math.Min(h, 0.02*fr)
				} else if x < 1 {
					h = math.Min(h, 0.02*x)
				}
				num := richardson(func(t float64) float64 { v, _ := math.Lgamma(x + t); return v }, h)
				lg, _ := math.Lgamma(x)
				tol := 1e-7*math.Max(1, math.Abs(p0)) + 1e-13*math.Abs(lg)/h
				d := math.Abs(num - p0)
				e.see(d/tol, arg)
				if !(d <= tol) {
					r.fail("Digamma=dLgamma/dx", arg, "psi=%v central difference of Lgamma=%v", p0, num)
				}
			}
		}
		const euler = 0.57721566490153286060651209008240243
		for _, c := range []struct{ x, want float64 }{
			{1, -euler}, {0.5, -euler - 2*math.Ln2}, {2, 1 - euler}, {0.25, -euler - math.Pi/2 - 3*math.Ln2},
			{1.0 / 3, -euler - math.Pi/(2*math.Sqrt(3)) - 1.5*math.Log(3)},
		} {
			got := mathext.Digamma(c.x)
			d := math.Abs(got - c.want)
			e.see(d/(tolDigamma*math.Abs(c.want)), "x="+g(c.x))
			if !(d <= tolDigamma*math.Abs(c.want)) {
				r.fail("Digamma-special-value", "x="+g(c.x), "psi=%v want %v", got, c.want)
			}
		}
		if !math.IsNaN(mathext.Digamma(-2)) || !math.IsInf(mathext.Digamma(0), -1) || !math.IsInf(mathext.Digamma(math.Copysign(0, -1)), 1) {
			r.fail("Digamma-poles", "", "psi(-2)=%v psi(+0)=%v psi(-0)=%v", mathext.Digamma(-2), mathext.Digamma(0), mathext.Digamma(math.Copysign(0, -1)))
		}
	})

	// --- Hurwitz zeta -------------------------------------------------------
	for _, x := range []float64{1.0000001, 1.001, 1.01, 1.1, 1.25, 1.5, 2, 2.5, 3, 4, 5, 6, 8, 10, 15, 20, 30, 50, 100} {
		x := x
		sfCase(gen, fmt.Sprintf("Zeta x=%g", x), func(r *rep, e *sfErr) {
			// the summation loop runs while i < 9 || a <= 9; the asymptotic form takes over for q > 1e8
			qs := []float64{1e-3, 0.25, 0.5, 1, 1.5, 2, 3, 5, 7.5, 8, 8.5, 9.5, 10, 20, 50, 1e3, 1e6, 0.99e8, 1.01e8, 1e12}
			qs = append(qs, straddle(9, 1e8)...)
			for _, q := range qs {
				arg := fmt.Sprintf("x=%g q=%s", x, g(q))
				z0, z1 := mathext.Zeta(x, q), mathext.Zeta(x, q+1)
				t := math.Pow(q, -x)
				m := math.Max(z0, t)
				// for q >> 1 the difference of two nearly equal values is formed
				d := math.Abs(z1 - (z0 - t))
				tol := tolZeta * m
				e.see(d/tol, arg)
				if !(d <= tol) {
					r.fail("Zeta-recurrence", arg, "zeta(x,q+1)=%v zeta(x,q)-q^-x=%v", z1, z0-t)
				}
				if !(z1 < z0) && q < 1e7 && z0 > 1e-290 {
					r.fail("Zeta-decreasing-in-q", arg, "zeta(x,q)=%v zeta(x,q+1)=%v", z0, z1)
				}
			}
			// continuity across the q > 1e8 asymptotic switch
			a, b := mathext.Zeta(x, 1e8), mathext.Zeta(x, math.Nextafter(1e8, 1e9))
			if d := relErr(a, b); d > 1e-10 {
				r.fail("Zeta-switch-continuity", fmt.Sprintf("x=%g", x), "zeta(x,1e8)=%v zeta(x,1e8+)=%v", a, b)
			}
			// zeta(x,1/2) = (2^x-1) zeta(x,1)
			l, rr := mathext.Zeta(x, 0.5), (math.Pow(2, x)-1)*mathext.Zeta(x, 1)
			d := relErr(l, rr)
			e.see(d/tolZeta, "half")
			if d > tolZeta {
				r.fail("Zeta-half", fmt.Sprintf("x=%g", x), "zeta(x,1/2)=%v (2^x-1)zeta(x)=%v", l, rr)
			}
			// multiplication theorem with k = 3
			s := mathext.Zeta(x, 1.0/3) + mathext.Zeta(x, 2.0/3) + mathext.Zeta(x, 1)
			w := math.Pow(3, x) * mathext.Zeta(x, 1)
			d = relErr(s, w)
			e.see(d/tolZeta, "mult3")
			if d > tolZeta {
				r.fail("Zeta-multiplication", fmt.Sprintf("x=%g", x), "sum=%v 3^x zeta(x)=%v", s, w)
			}
		})
	}
	sfCase(gen, "Zeta special values", func(r *rep, e *sfErr) {
		pi := math.Pi
		for _, c := range []struct{ x, want float64 }{
			{2, pi * pi / 6}, {4, math.Pow(pi, 4) / 90}, {6, math.Pow(pi, 6) / 945}, {8, math.Pow(pi, 8) / 9450},
			{3, 1.2020569031595942853997381615114499907649},
		} {
			got := mathext.Zeta(c.x, 1)
			d := relErr(got, c.want)
			e.see(d/tolZeta, "x="+g(c.x))
			if d > tolZeta {
				r.fail("Zeta-special-value", "x="+g(c.x), "zeta=%v want %v", got, c.want)
			}
		}
		if !math.IsInf(mathext.Zeta(1, 3), 1) {
			r.fail("Zeta-pole", "", "zeta(1,3)=%v want +Inf", mathext.Zeta(1, 3))
		}
		for _, bad := range [][2]float64{{0.5, 1}, {2, 0}, {2, -3}, {2.5, -0.5}} {
			if catch(func() { mathext.Zeta(bad[0], bad[1]) }) == nil {
				r.fail("Zeta-domain", fmt.Sprint(bad), "documented panic did not happen")
			}
		}
		// negative non-integer q with integer x: recurrence upwards
		for _, q := range []float64{-0.5, -2.5, -7.25} {
			z0, z1 := mathext.Zeta(2, q), mathext.Zeta(2, q+1)
			if d := relErr(z1, z0-math.Pow(q, -2)); d > tolZeta {
				r.fail("Zeta-recurrence-negative-q", "q="+g(q), "zeta(2,q+1)=%v zeta(2,q)-q^-2=%v", z1, z0-math.Pow(q, -2))
			}
		}
	})

	// --- normal quantile ----------------------------------------------------
	sfCase(gen, "NormalQuantile inverse of erfc", func(r *rep, e *sfErr) {
		ps := []float64{1e-300, 1e-100, 1e-30, 1e-15, 1e-9, 1e-6, 1e-3, 0.01, 0.05, 0.1, 0.25, 0.4, 0.5}
		for i := 0; i < 600; i++ { // 2 points per decade down to 1e-300
			ps = append(ps, 0.5*math.Pow(10, -float64(i)/2))
		}
		for i := 1; i < 200; i++ {
			ps = append(ps, float64(i)/400)
		}
		ps = append(ps, straddle(0.075, math.Exp(-25))...)
		var all []float64
		for _, p := range ps {
			all = append(all, p)
			if 1-p < 1 && 1-p > 0 {
				all = append(all, 1-p)
			}
		}
		prev := math.Inf(-1)
		for _, p := range uniqSorted(all) {
			arg := "p=" + g(p)
			z := mathext.NormalQuantile(p)
			if !(z >= prev-1e-15*math.Abs(z)) { // p one ulp apart may share a value or swap the last bit
				r.fail("NormalQuantile-increasing", arg, "z=%v after %v", z, prev)
			}
			prev = z
			// compare on the smaller tail
			tail, back := p, 0.5*math.Erfc(-z/math.Sqrt2)
			if p > 0.5 {
				tail, back = 1-p, 0.5*math.Erfc(z/math.Sqrt2)
			}
			// conditioning: d(log tail)/dz ~ |z|, so one ulp of z moves the tail by eps*z^2
			// relatively; for p > 1/2 the implementation has to form 1-p (eps absolute).
			tol := (tolNormQ + 4*0x1p-52*(1+z*z)) * tail
			if p > 0.5 {
				tol += 2 * 0x1p-53
			}
			d := math.Abs(back - tail)
			e.see(d/tol, arg)
			if !(d <= tol) {
				r.fail("Phi(NormalQuantile(p))=p", arg, "z=%v tail=%v want %v (rel %g)", z, back, tail, d/tail)
			}
		}
		for _, p := range []float64{0.25, 0.125, 1.0 / 1024, 0x1p-40} {
			if a, b := mathext.NormalQuantile(p), mathext.NormalQuantile(1-p); relErr(a, -b) > 1e-14+0x1p-52/p {
				r.fail("NormalQuantile-symmetry", "p="+g(p), "q(p)=%v q(1-p)=%v", a, b)
			}
		}
		if mathext.NormalQuantile(0.5) != 0 || !math.IsInf(mathext.NormalQuantile(0), -1) || !math.IsInf(mathext.NormalQuantile(1), 1) {
			r.fail("NormalQuantile-endpoints", "", "q(0.5)=%v q(0)=%v q(1)=%v", mathext.NormalQuantile(0.5), mathext.NormalQuantile(0), mathext.NormalQuantile(1))
		}
		for _, p := range []float64{-1e-9, 1 + 1e-9} {
			if catch(func() { mathext.NormalQuantile(p) }) == nil {
				r.fail("NormalQuantile-domain", "p="+g(p), "documented panic did not happen")
			}
		}
	})

	// --- elliptic integrals ---------------------------------------------------
	ellThr := []float64{0.592990, 0.350756, 0.206924, 0.121734, 0.071412, 0.041770, 0.024360, 0.014165, 0.008213,
		0.566638, 0.315153, 0.171355, 0.090670, 0.046453, 0.022912, 0.010809, 0.004841,
		0.555073, 0.302367, 0.161052, 0.083522, 0.041966, 0.020313, 0.009408, 0.004136,
		0.599909, 0.359180, 0.214574, 0.127875, 0.076007, 0.045052, 0.026626, 0.015689, 0.009216}
	sfCase(gen, "Elliptic complete vs Carlson", func(r *rep, e *sfErr) {
		var ms []float64
		for _, mc := range ellThr {
			ms = append(ms, 1-mc*(1-1e-6), 1-mc, 1-mc*(1+1e-6), 1-math.Nextafter(mc, 0), 1-math.Nextafter(mc, 1))
		}
		ms = append(ms, 0, 1e-12, 1e-6, 0.01, 0.1, 0.3, 0.5, 0.7, 0.9, 0.99, 0.999, 1-1e-6, 1-1e-9, 1-1e-12)
		for i := 1; i < 100; i++ {
			ms = append(ms, float64(i)/100)
		}
		for _, m := range uniqSorted(ms) {
			arg := "m=" + g(m)
			K, E, B, D := mathext.CompleteK(m), mathext.CompleteE(m), mathext.CompleteB(m), mathext.CompleteD(m)
			rf := mathext.EllipticRF(0, 1-m, 1)
			rd := mathext.EllipticRD(0, 1-m, 1)
			// 1-m is formed by the caller: K has a logarithmic singularity at m=1, relative conditioning eps/(1-m)/K
			cond := 4 * 0x1p-52 / (1 - m) / math.Max(1, math.Log(16/(1-m))/2)
			chk := func(name string, got, want, extra float64) {
				d := relErr(got, want)
				tol := tolEll + cond + extra
				e.see(d/tol, name+" "+arg)
				if !(d <= tol) {
					r.fail(name, arg, "got %v want %v (rel %g)", got, want, d)
				}
			}
			chk("CompleteK=RF(0,1-m,1)", K, rf, 0)
			chk("CompleteD=RD(0,1-m,1)/3", D, rd/3, 0)
			chk("CompleteB=K-D", B, K-D, 4*0x1p-52*K/math.Abs(K-D))
			chk("CompleteE=K-mD", E, K-m*D, 4*0x1p-52*K/math.Abs(K-m*D))
			chk("EllipticF(pi/2,m)=K", mathext.EllipticF(math.Pi/2, m), K, 0)
			chk("EllipticE(pi/2,m)=E", mathext.EllipticE(math.Pi/2, m), E, 4*0x1p-52*K/E)
			if m > 0 && m < 1 {
				// Legendre's relation E K' + E' K - K K' = pi/2
				Kp, Ep := mathext.CompleteK(1-m), mathext.CompleteE(1-m)
				l := E*Kp + Ep*K - K*Kp
				scale := math.Abs(E*Kp) + math.Abs(Ep*K) + math.Abs(K*Kp)
				d := math.Abs(l - math.Pi/2)
				tol := (tolEll + 4*0x1p-52) * scale * (1 + math.Min(1/(1-m), 1/m)*0x1p-40)
				e.see(d/tol, "Legendre "+arg)
				if !(d <= tol) {
					r.fail("Legendre-relation", arg, "EK'+E'K-KK'=%v want pi/2 (err %g)", l, l-math.Pi/2)
				}
			}
			// definition by the harness quadrature (smooth integrands; skip the logarithmic end)
			if m <= 0.99 {
				kq := glComposite(func(t float64) float64 { return 1 / math.Sqrt(1-m*math.Sin(t)*math.Sin(t)) }, 0, math.Pi/2, 16)
				eq := glComposite(func(t float64) float64 { return math.Sqrt(1 - m*math.Sin(t)*math.Sin(t)) }, 0, math.Pi/2, 16)
				chk("CompleteK=integral", K, kq, 1e-12)
				chk("CompleteE=integral", E, eq, 1e-12)
			}
		}
		for _, m := range []float64{-1e-9, 1 + 1e-9, math.NaN()} {
			if !math.IsNaN(mathext.CompleteK(m)) || !math.IsNaN(mathext.CompleteE(m)) || !math.IsNaN(mathext.CompleteB(m)) || !math.IsNaN(mathext.CompleteD(m)) {
				r.fail("Complete-domain", "m="+g(m), "documented NaN not returned")
			}
		}
		if !math.IsInf(mathext.CompleteK(1), 1) || mathext.CompleteE(1) != 1 || mathext.CompleteK(0) != math.Pi/2 && relErr(mathext.CompleteK(0), math.Pi/2) > 1e-15 {
			r.fail("Complete-endpoints", "", "K(1)=%v E(1)=%v K(0)=%v", mathext.CompleteK(1), mathext.CompleteE(1), mathext.CompleteK(0))
		}
	})
	sfCase(gen, "Elliptic Carlson forms", func(r *rep, e *sfErr) {
		vals := []float64{1e-6, 0.01, 0.5, 1, 2, 7.5, 1e3, 1e6}
		for _, x := range vals {
			arg := "x=" + g(x)
			if d := relErr(mathext.EllipticRF(x, x, x), 1/math.Sqrt(x)); d > tolEll {
				r.fail("RF(x,x,x)=x^-1/2", arg, "rel %g", d)
			}
			if d := relErr(mathext.EllipticRD(x, x, x), math.Pow(x, -1.5)); d > tolEll {
				r.fail("RD(x,x,x)=x^-3/2", arg, "rel %g", d)
			}
			for _, y := range vals {
				for _, z := range vals {
					arg := fmt.Sprintf("x=%g y=%g z=%g", x, y, z)
					f := mathext.EllipticRF(x, y, z)
					// symmetry and homogeneity
					for _, pr := range [][3]float64{{y, x, z}, {z, y, x}, {y, z, x}} {
						d := relErr(f, mathext.EllipticRF(pr[0], pr[1], pr[2]))
						e.see(d/tolEll, arg)
						if d > tolEll {
							r.fail("RF-symmetry", arg, "rel %g", d)
						}
					}
					d := relErr(mathext.EllipticRF(4*x, 4*y, 4*z), f/2)
					e.see(d/tolEll, arg)
					if d > tolEll {
						r.fail("RF-homogeneity", arg, "rel %g", d)
					}
					dd := mathext.EllipticRD(x, y, z)
					d = relErr(mathext.EllipticRD(y, x, z), dd)
					e.see(d/tolEll, arg)
					if d > tolEll {
						r.fail("RD-symmetry-xy", arg, "rel %g", d)
					}
					d = relErr(mathext.EllipticRD(4*x, 4*y, 4*z), dd/8)
					e.see(d/tolEll, arg)
					if d > tolEll {
						r.fail("RD-homogeneity", arg, "rel %g", d)
					}
					// RD(x,y,z)+RD(y,z,x)+RD(z,x,y) = 3/sqrt(xyz)  (DLMF 19.21.8)
					s := dd + mathext.EllipticRD(y, z, x) + mathext.EllipticRD(z, x, y)
					d = relErr(s, 3/math.Sqrt(x*y*z))
					e.see(d/(10*tolEll), arg)
					if d > 10*tolEll {
						r.fail("RD-sum", arg, "sum=%v want %v", s, 3/math.Sqrt(x*y*z))
					}
				}
			}
		}
		// incomplete integrals against the harness quadrature of the definition
		for _, m := range []float64{0, 0.1, 0.5, 0.9, 0.99} {
			for _, phi := range []float64{0.1, 0.5, 1, 1.5, math.Pi / 2} {
				arg := fmt.Sprintf("phi=%g m=%g", phi, m)
				fq := glComposite(func(t float64) float64 { return 1 / math.Sqrt(1-m*math.Sin(t)*math.Sin(t)) }, 0, phi, 16)
				eq := glComposite(func(t float64) float64 { return math.Sqrt(1 - m*math.Sin(t)*math.Sin(t)) }, 0, phi, 16)
				if d := relErr(mathext.EllipticF(phi, m), fq); d > 1e-12 {
					r.fail("EllipticF=integral", arg, "got %v want %v", mathext.EllipticF(phi, m), fq)
				}
				if d := relErr(mathext.EllipticE(phi, m), eq); d > 1e-12 {
					r.fail("EllipticE=integral", arg, "got %v want %v", mathext.EllipticE(phi, m), eq)
				}
				e.see(0, arg)
			}
		}
	})

	// --- Airy ---------------------------------------------------------------
	sfCase(gen, "Airy Wronskian+ODE", func(r *rep, e *sfErr) {
		w1 := cmplx.Exp(complex(0, -2*math.Pi/3))
		w2 := cmplx.Exp(complex(0, 2*math.Pi/3))
		var zs []complex128
		for _, rad := range []float64{0, 0.1, 0.25, 0.5, 1, 1.5, 2, 3, 4, 5, 6, 8, 10, 15, 25} {
			for k := 0; k < 24; k++ {
				th := float64(k) * math.Pi / 12
				zs = append(zs, cmplx.Rect(rad, th))
				if rad == 0 {
					break
				}
			}
		}
		for _, z := range zs {
			arg := fmt.Sprintf("z=%v", z)
			a, ap := mathext.AiryAi(z), mathext.AiryAiDeriv(z)
			for i, w := range []complex128{w1, w2} {
				// W{Ai(z), Ai(z w)} = Ai(z) w Ai'(zw) - Ai'(z) Ai(zw) = e^{+-i pi/6}/(2 pi)   (DLMF 9.2.8)
				b, bp := mathext.AiryAi(z*w), mathext.AiryAiDeriv(z*w)
				got := a*w*bp - ap*b
				sign := 1.0
				if i == 1 {
					sign = -1
				}
				want := cmplx.Exp(complex(0, sign*math.Pi/6)) / complex(2*math.Pi, 0)
				scale := cmplx.Abs(a*w*bp) + cmplx.Abs(ap*b)
				d := cmplx.Abs(got - want)
				tol := tolAiry * math.Max(scale, cmplx.Abs(want))
				e.see(d/tol, arg)
				if !(d <= tol) {
					r.fail("Airy-Wronskian", arg, "W=%v want %v (terms of size %g)", got, want, scale)
				}
			}
			// Ai'' = z Ai : central difference of AiryAiDeriv along the real direction
			h := 1e-3
			num := (4*(mathext.AiryAiDeriv(z+complex(h/2, 0))-mathext.AiryAiDeriv(z-complex(h/2, 0)))/complex(h, 0) -
				(mathext.AiryAiDeriv(z+complex(h, 0))-mathext.AiryAiDeriv(z-complex(h, 0)))/complex(2*h, 0)) / 3
			d := cmplx.Abs(num - z*a)
			tol := 1e-8 * math.Max(cmplx.Abs(z*a), cmplx.Abs(ap)+cmplx.Abs(a))
			e.see(d/tol, arg)
			if !(d <= tol) {
				r.fail("Airy-ODE", arg, "Ai''~%v z*Ai=%v", num, z*a)
			}
			// Ai' = dAi/dz
			num = (4*(mathext.AiryAi(z+complex(h/2, 0))-mathext.AiryAi(z-complex(h/2, 0)))/complex(h, 0) -
				(mathext.AiryAi(z+complex(h, 0))-mathext.AiryAi(z-complex(h, 0)))/complex(2*h, 0)) / 3
			d = cmplx.Abs(num - ap)
			tol = 1e-8 * (cmplx.Abs(ap) + cmplx.Abs(a))
			e.see(d/tol, arg)
			if !(d <= tol) {
				r.fail("AiryAiDeriv=dAi/dz", arg, "central difference %v AiryAiDeriv %v", num, ap)
			}
		}
		ai0 := math.Pow(3, -2.0/3) / math.Gamma(2.0/3)
		aip0 := -math.Pow(3, -1.0/3) / math.Gamma(1.0/3)
		if d := cmplx.Abs(mathext.AiryAi(0) - complex(ai0, 0)); d > 1e-15 {
			r.fail("Airy-at-0", "", "Ai(0)=%v want %v", mathext.AiryAi(0), ai0)
		}
		if d := cmplx.Abs(mathext.AiryAiDeriv(0) - complex(aip0, 0)); d > 1e-15 {
			r.fail("Airy-at-0", "", "Ai'(0)=%v want %v", mathext.AiryAiDeriv(0), aip0)
		}
	})

	// --- Beta, Lbeta, MvLgamma ------------------------------------------------
	sfCase(gen, "Beta Lbeta MvLgamma vs Gamma", func(r *rep, e *sfErr) {
		vs := []float64{1e-3, 0.3, 0.5, 0.99, 1, 1.01, 2, 2.5, 5, 50, 85, 171, 172, 500}
		for _, a := range vs {
			for _, b := range vs {
				arg := fmt.Sprintf("a=%g b=%g", a, b)
				la, _ := math.Lgamma(a)
				lb, _ := math.Lgamma(b)
				lab, _ := math.Lgamma(a + b)
				want := la + lb - lab
				got := mathext.Lbeta(a, b)
				tol := tolLgamma * (math.Abs(la) + math.Abs(lb) + math.Abs(lab) + 1)
				d := math.Abs(got - want)
				e.see(d/tol, arg)
				if !(d <= tol) {
					r.fail("Lbeta=lgamma", arg, "Lbeta=%v want %v", got, want)
				}
				if mathext.Lbeta(b, a) != got {
					r.fail("Lbeta-symmetric", arg, "Lbeta(a,b)=%v Lbeta(b,a)=%v", got, mathext.Lbeta(b, a))
				}
				bt := mathext.Beta(a, b)
				if a+b < 170 {
					w := math.Gamma(a) * math.Gamma(b) / math.Gamma(a+b)
					d := relErr(bt, w)
					tolr := 1e-13 * (math.Abs(la) + math.Abs(lb) + math.Abs(lab) + 10)
					e.see(d/tolr, arg)
					if !(d <= tolr) {
						r.fail("Beta=Gamma-ratio", arg, "Beta=%v want %v (rel %g)", bt, w, d)
					}
				}
				// B(a+1,b) = B(a,b) a/(a+b)
				d = math.Abs(mathext.Lbeta(a+1, b) - (got + math.Log(a/(a+b))))
				e.see(d/(4*tol), arg)
				if !(d <= 4*tol) {
					r.fail("Lbeta-recurrence", arg, "Lbeta(a+1,b)=%v want %v", mathext.Lbeta(a+1, b), got+math.Log(a/(a+b)))
				}
			}
		}
		if !math.IsNaN(mathext.Lbeta(0, 0)) || !math.IsNaN(mathext.Lbeta(-1, 2)) || !math.IsInf(mathext.Lbeta(0, 2), 1) || !math.IsNaN(mathext.Beta(math.Inf(1), 1)) || !math.IsInf(mathext.Beta(0, 2), 1) {
			r.fail("Beta-special-cases", "", "documented special values not returned")
		}
		const logPi = 1.14472988584940017414342735135305871164729481
		for dim := 1; dim <= 6; dim++ {
			for _, v := range []float64{float64(dim-1) / 2, float64(dim-1)/2 + 1e-3, float64(dim), 2.5 + float64(dim), 50, 500} {
				arg := fmt.Sprintf("v=%g dim=%d", v, dim)
				got := mathext.MvLgamma(v, dim)
				if dim == 1 {
					lg, _ := math.Lgamma(v)
					if !(got == lg || relErr(got, lg) < 1e-15) {
						r.fail("MvLgamma-dim1", arg, "got %v want %v", got, lg)
					}
					continue
				}
				if v == float64(dim-1)/2 {
					// the last factor is Gamma(0): +Inf
					if !math.IsInf(got, 1) {
						r.fail("MvLgamma-boundary", arg, "got %v want +Inf", got)
					}
					continue
				}
				// Gamma_d(v) = pi^{(d-1)/2} Gamma(v) Gamma_{d-1}(v-1/2)
				lg, _ := math.Lgamma(v)
				want := float64(dim-1)/2*logPi + lg + mathext.MvLgamma(v-0.5, dim-1)
				tol := tolLgamma * (math.Abs(got) + math.Abs(lg) + 10)
				d := math.Abs(got - want)
				e.see(d/tol, arg)
				if !(d <= tol) {
					r.fail("MvLgamma-recurrence", arg, "got %v want %v", got, want)
				}
			}
			if !math.IsNaN(mathext.MvLgamma(float64(dim-1)/2-0.01, dim)) {
				r.fail("MvLgamma-domain", fmt.Sprintf("dim=%d", dim), "documented NaN not returned")
			}
		}
	})
}
