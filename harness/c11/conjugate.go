package main

import (
	"fmt"
	"math"
	"reflect"

	"gonum.org/v1/gonum/internal/verif/vlib"
)

// Group uv-conjugate: the laws of a conjugate update, for every distuv type that has
// ConjugateUpdate/SuffStat/NumSuffStat (found by reflection), over every combination of
// prior strengths from conjStrengths (zero, fractional, unequal between the components),
// several weight patterns and two sample sets:
//
//	L1 union:        update(A) then update(B)  ==  update(A u B)
//	L2 order:        update(A) then update(B)  ==  update(B) then update(A)
//	L3 homogeneity:  weights and strengths scaled by c give the same parameters, strengths scaled by c
//	L4 no strength:  a prior component of strength 0 has no influence (any prior value of that parameter)
//	L5 Fit:          all strengths 0  ==  Fit(A)
//	L6 strengths:    every strength grows by the total weight
//
// None of them needs a type-specific formula; together they pin the posterior to the pooled
// estimate of "strength[j] pseudo-observations carrying parameter j" that the doc comments describe.

var conjStrengths = []float64{0, 0.5, 1, 3, 10.5, 400}

const tolConj = 1e-10

type conjSample struct {
	name string
	x, w []float64
}

func (s conjSample) total() float64 {
	if s.w == nil {
		return float64(len(s.x))
	}
	t := 0.0
	for _, v := range s.w {
		t += v
	}
	return t
}

func (s conjSample) scaled(c float64) conjSample {
	w := make([]float64, len(s.x))
	for i := range w {
		w[i] = c
		if s.w != nil {
			w[i] = c * s.w[i]
		}
	}
	return conjSample{s.name + fmt.Sprintf("*%g", c), s.x, w}
}

func conjUnion(a, b conjSample) conjSample {
	full := func(s conjSample) []float64 {
		if s.w != nil {
			return s.w
		}
		w := make([]float64, len(s.x))
		for i := range w {
			w[i] = 1
		}
		return w
	}
	return conjSample{a.name + "+" + b.name, append(append([]float64(nil), a.x...), b.x...), append(append([]float64(nil), full(a)...), full(b)...)}
}

func genUVConjugate(gen *vlib.G) {
	for _, sp := range uvSpecs() {
		sp := sp
		probe := sp.mk(sp.grid(false)[0], nil)
		if _, ok := reflect.PointerTo(reflect.TypeOf(probe)).MethodByName("ConjugateUpdate"); !ok {
			continue
		}
		grid := sp.grid(gen.Thorough())
		for gi, p := range grid {
			p := p
			if !gen.Thorough() && gi%3 != 0 { // a third of the quick grid: the laws do not depend on branch constants
				continue
			}
			gen.Case(pkey(sp, p), func(t *vlib.T) { checkConjugate(t, sp, p) })
		}
	}
}

func checkConjugate(t *vlib.T, sp uvSpec, p []float64) {
	r := &rep{t: t}
	t.Nontrivial()
	c := &uvCtx{r: r, t: t, sp: sp, p: p, d: sp.mk(p, nil)}
	q := c.d.(hasQuantile)
	np := len(p)
	// two sample sets with different location and spread, several weight patterns
	mkx := func(n int, stretch, shift float64) []float64 {
		x := make([]float64, n)
		lo, hi := q.Quantile(0.001), q.Quantile(0.999)
		for i := range x {
			v := q.Quantile((float64(i) + 0.5) / float64(n))
			x[i] = lo + stretch*(v-lo) + shift*(hi-lo)
		}
		return x
	}
	xa, xb := mkx(37, 1, 0), mkx(23, 1.7, 0.3)
	wpat := func(n int, kind string) []float64 {
		if kind == "nil" {
			return nil
		}
		w := make([]float64, n)
		for i := range w {
			switch kind {
			case "w123":
				w[i] = 1 + float64(i%3)
			case "zeros":
				if i%3 != 1 {
					w[i] = 0.5 + float64(i%4)
				}
			case "frac":
				w[i] = 0.01 + 0.37*float64((i*7)%11)
			}
		}
		return w
	}
	pt := reflect.PointerTo(reflect.TypeOf(c.d))
	_ = pt
	// update applies ConjugateUpdate to a copy of prior with strengths s (copied) for sample smp.
	update := func(prior []float64, s []float64, smp conjSample) (post, str []float64, pan any) {
		pv := c.newPtr()
		c.setParams(pv, prior)
		nss := int(pv.MethodByName("NumSuffStat").Call(nil)[0].Int())
		ss := make([]float64, nss)
		str = append([]float64(nil), s...)
		func() {
			defer func() { pan = recover() }()
			wv := reflect.ValueOf(smp.w)
			if smp.w == nil {
				wv = reflect.ValueOf([]float64(nil))
			}
			n := pv.MethodByName("SuffStat").Call([]reflect.Value{reflect.ValueOf(ss), reflect.ValueOf(append([]float64(nil), smp.x...)), wv})[0].Float()
			pv.MethodByName("ConjugateUpdate").Call([]reflect.Value{reflect.ValueOf(ss), reflect.ValueOf(n), reflect.ValueOf(str)})
		}()
		if pan != nil {
			return nil, nil, pan
		}
		post, _ = c.readParams(pv)
		return post, str, nil
	}
	scale := math.Abs(q.Quantile(0.999) - q.Quantile(0.001))
	same := func(a, b []float64) bool {
		for j := range a {
			if !closeRA(a[j], b[j], tolConj, tolConj*scale) {
				return false
			}
		}
		return true
	}
	sameStr := func(a, b []float64) bool {
		for j := range a {
			if !closeRA(a[j], b[j], 1e-13, 1e-300) {
				return false
			}
		}
		return true
	}
	// a prior that differs from the law the samples come from
	prior := append([]float64(nil), p...)
	for j := range prior {
		prior[j] = prior[j]*1.3 + 0.11*scale
	}
	nfail := 0
	fail := func(law, arg, format string, a ...any) {
		if nfail < 6 {
			r.fail(law, arg, format, a...)
		}
		nfail++
	}
	nss := np
	radices := make([]int, nss)
	for j := range radices {
		radices[j] = len(conjStrengths)
	}
	laws := int64(0)
	for _, wk := range []string{"nil", "w123", "zeros", "frac"} {
		A := conjSample{"A:" + wk, xa, wpat(len(xa), wk)}
		B := conjSample{"B:" + wk, xb, wpat(len(xb), wk)}
		if wk == "frac" {
			B.w = nil // mixed: weighted batch followed by an unweighted one
		}
		each := func(ix []int) {
			s := make([]float64, nss)
			for j := range s {
				s[j] = conjStrengths[ix[j]]
			}
			arg := fmt.Sprintf("strength=%v weights=%s", s, wk)
			pa, sa, pan := update(prior, s, A)
			if pan != nil {
				fail("ConjugateUpdate-panic", arg, "%v", pan)
				return
			}
			// L6
			for j := range sa {
				if !closeRA(sa[j], s[j]+A.total(), 1e-13, 0) {
					fail("conjugate L6 strengths add", arg, "priorStrength[%d]=%v after the update, want %v", j, sa[j], s[j]+A.total())
				}
			}
			// L1, L2
			pab, sab, _ := update(pa, sa, B)
			pu, su, _ := update(prior, s, conjUnion(A, B))
			if !same(pab, pu) || !sameStr(sab, su) {
				fail("conjugate L1 batch o batch = union", arg, "update(A) then update(B) gives %v (strength %v); update(A u B) gives %v (strength %v)", pab, sab, pu, su)
			}
			pb, sb, _ := update(prior, s, B)
			pba, sba, _ := update(pb, sb, A)
			if !same(pab, pba) || !sameStr(sab, sba) {
				fail("conjugate L2 order independence", arg, "A then B gives %v; B then A gives %v", pab, pba)
			}
			// L3
			for _, cc := range []float64{0.5, 8} {
				sc := make([]float64, nss)
				for j := range sc {
					sc[j] = cc * s[j]
				}
				ph, sh, _ := update(prior, sc, A.scaled(cc))
				if !same(ph, pa) {
					fail("conjugate L3 homogeneity", arg, "weights and strengths times %g give %v instead of %v", cc, ph, pa)
				}
				for j := range sh {
					if !closeRA(sh[j], cc*sa[j], 1e-12, 1e-300) {
						fail("conjugate L3 homogeneity", arg, "strength[%d]=%v, want %g x %v", j, sh[j], cc, sa[j])
					}
				}
			}
			// L4
			for j := range s {
				if s[j] != 0 {
					continue
				}
				alt := append([]float64(nil), prior...)
				alt[j] = prior[j]*0.4 + 0.7*scale
				p2, _, pan2 := update(alt, s, A)
				if pan2 != nil || !same(p2, pa) {
					fail("conjugate L4 strength 0 carries no information", fmt.Sprintf("%s j=%d", arg, j), "prior %s=%v gives %v, prior %s=%v gives %v (panic %v)", sp.pnames[j], prior[j], pa, sp.pnames[j], alt[j], p2, pan2)
				}
			}
			// L5
			allZero := true
			for _, v := range s {
				allZero = allZero && v == 0
			}
			if allZero {
				pv := c.newPtr()
				var wv reflect.Value
				if A.w == nil {
					wv = reflect.ValueOf([]float64(nil))
				} else {
					wv = reflect.ValueOf(append([]float64(nil), A.w...))
				}
				pv.MethodByName("Fit").Call([]reflect.Value{reflect.ValueOf(append([]float64(nil), A.x...)), wv})
				pf, _ := c.readParams(pv)
				if !same(pf, pa) {
					fail("conjugate L5 zero strength = Fit", arg, "ConjugateUpdate gives %v, Fit gives %v", pa, pf)
				}
			}
			laws += 6
		}
		vlib.Product(radices, func(ix []int) bool { each(ix); return true })
	}
	// documented panics: wrong lengths
	pv := c.newPtr()
	c.setParams(pv, prior)
	if catch(func() {
		pv.MethodByName("ConjugateUpdate").Call([]reflect.Value{reflect.ValueOf(make([]float64, nss+1)), reflect.ValueOf(1.0), reflect.ValueOf(make([]float64, nss))})
	}) == nil {
		r.fail("ConjugateUpdate-length", "suffStat", "no panic for len(suffStat) != NumSuffStat")
	}
	if catch(func() {
		pv.MethodByName("ConjugateUpdate").Call([]reflect.Value{reflect.ValueOf(make([]float64, nss)), reflect.ValueOf(1.0), reflect.ValueOf(make([]float64, nss+1))})
	}) == nil {
		r.fail("ConjugateUpdate-length", "priorStrength", "no panic for len(priorStrength) != NumSuffStat")
	}
	t.Count("conjugate_laws_checked", laws)
	t.Outcome(fmt.Sprintf("%s strengths=%d^%d", sp.name, len(conjStrengths), nss))
}
