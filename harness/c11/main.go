// Harness C11: each probability distribution's methods describe one and the
// same law. See NOTES.md.
package main

import "gonum.org/v1/gonum/internal/verif/vlib"

func main() {
	groups := []vlib.Group{
		{Name: "uv-fit", Gen: genUVFit},
		{Name: "uv-conjugate", Gen: genUVConjugate},
		{Name: "mv", Gen: genMV},
		{Name: "samplers", Gen: genSamplers},
		{Name: "views", Gen: genViews},
		{Name: "repeat", Gen: genRepeat},
		{Name: "index-order", Gen: genIndexOrder},
	}
	if !noasmBuild {
		// Only the groups above reach code with assembly kernels (floats.Sum in
		// stat.Mean/SuffStat, BLAS in mat for distmv/distmat/samplemv); the others are scalar
		// code and identical in the noasm configuration.
		groups = append([]vlib.Group{
			{Name: "uv-identities", Gen: genUV},
			{Name: "mathext", Gen: genMathext},
			{Name: "rand-alphabet", Gen: genAlphabet},
			{Name: "uv-rand", Gen: genUVRand},
			{Name: "histories", Gen: genHistories},
			{Name: "joint", Gen: genJoint},
		}, groups...)
	}
	vlib.Main("C11", groups...)
}
