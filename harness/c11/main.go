// Harness C11: each probability distribution's methods describe one and the
// same law. See NOTES.md.
package main

import "gonum.org/v1/gonum/internal/verif/vlib"

func main() {
	vlib.Main("C11",
		vlib.Group{Name: "uv-identities", Gen: genUV},
		vlib.Group{Name: "mathext", Gen: genMathext},
		vlib.Group{Name: "rand-alphabet", Gen: genAlphabet},
		vlib.Group{Name: "uv-rand", Gen: genUVRand},
		vlib.Group{Name: "mv", Gen: genMV},
		vlib.Group{Name: "samplers", Gen: genSamplers},
	)
}
