package main

import (
	"fmt"
	"math"
	"reflect"

	"gonum.org/v1/gonum/internal/verif/vlib"
	"gonum.org/v1/gonum/mat"
	"gonum.org/v1/gonum/spatial/r1"
	"gonum.org/v1/gonum/stat/distmat"
	"gonum.org/v1/gonum/stat/distmv"
	"gonum.org/v1/gonum/stat/distuv"
	"gonum.org/v1/gonum/stat/samplemv"
)

// Group repeat: (1) REPEATED-CALL HISTORIES. A distribution object is a value: every accessor
// and every query method, called again (in another order, interleaved with the other accessors
// and with Rand), must return the bit-identical result. A method that caches, scales in place or
// leaves state behind is caught on the second or third round. (2) DESTINATION CONTENTS x QUERY
// REGION. Every method that stores into a caller-supplied dst is called on ONE destination that is
// reused across a sequence of queries lying below, on the edges of, inside and above the support
// in every coordinate (so it holds the stale result of the previous query), and additionally on
// destinations pre-filled with 1 and with NaN; the result must be bit-for-bit that of dst == nil.

type accessor struct {
	name string
	call func() []float64
}

// bitsEq compares two float slices bit for bit.
func bitsEq(a, b []float64) bool {
	_, ok := vlib.Same64(a, b)
	return ok
}

// guarded runs f and turns a panic into a recognisable result (a documented panic must recur too).
func guarded(f func() []float64) (out []float64) {
	defer func() {
		if e := recover(); e != nil {
			out = []float64{math.Float64frombits(0x7ff8_0000_0bad_0000), float64(len(fmt.Sprint(e)))}
		}
	}()
	return f()
}

// runRepeat calls all accessors in order, then (after between(), e.g. a Rand call) in reverse
// order, then in an interleaved order, and compares every result with the first round.
func runRepeat(r *rep, who string, acc []accessor, between func()) int {
	first := make([][]float64, len(acc))
	for i, a := range acc {
		first[i] = guarded(a.call)
	}
	calls := len(acc)
	round := func(label string, order []int) {
		for _, i := range order {
			got := guarded(acc[i].call)
			calls++
			if !bitsEq(got, first[i]) {
				r.fail("repeated call returns the same result", who+" "+acc[i].name, "%s call gives %v, the first call gave %v", label, got, first[i])
			}
		}
	}
	if between != nil {
		between()
	}
	rev := make([]int, len(acc))
	for i := range rev {
		rev[i] = len(acc) - 1 - i
	}
	round("second (reverse order)", rev)
	if between != nil {
		between()
	}
	inter := make([]int, 0, 2*len(acc))
	for i := range acc { // every accessor twice in a row, odd ones first
		if i%2 == 1 {
			inter = append(inter, i, i)
		}
	}
	for i := range acc {
		if i%2 == 0 {
			inter = append(inter, i, i)
		}
	}
	round("third/fourth (interleaved)", inter)
	return calls
}

func genRepeat(gen *vlib.G) {
	for _, sp := range uvSpecs() {
		sp := sp
		grid := sp.grid(false)
		picks := []int{0, len(grid) / 2, len(grid) - 1}
		if gen.Thorough() {
			picks = nil
			for i := 0; i < len(grid); i += 7 {
				picks = append(picks, i)
			}
		}
		seen := map[int]bool{}
		for _, gi := range picks {
			if seen[gi] {
				continue
			}
			seen[gi] = true
			p := grid[gi]
			gen.Case("distuv "+pkey(sp, p), func(t *vlib.T) { checkRepeatUV(t, sp, p) })
		}
	}
	gen.Case("distmv and distmat objects", checkRepeatMV)
	gen.Case("dst contents x query region", checkDstContents)
}

func checkRepeatUV(t *vlib.T, sp uvSpec, p []float64) {
	r := &rep{t: t}
	t.Nontrivial()
	d := sp.mk(p, newScript(16, 3, 9, 14, 0, 7, 11))
	lo, hi := sp.lo(p), sp.hi(p)
	// arguments: below / at the ends of / inside / above the support
	var xs []float64
	if q, ok := d.(hasQuantile); ok {
		for _, pp := range []float64{0.01, 0.5, 0.99} {
			pp := pp
			catch(func() { xs = append(xs, q.Quantile(pp)) })
		}
	} else {
		xs = append(xs, 0, 1, 2.5)
	}
	if isFinite(lo) {
		xs = append(xs, lo, lo-1)
	} else {
		xs = append(xs, -1e3)
	}
	if isFinite(hi) {
		xs = append(xs, hi, hi+1)
	} else {
		xs = append(xs, 1e3)
	}
	var acc []accessor
	rv := reflect.ValueOf(d)
	rt := rv.Type()
	f64 := reflect.TypeOf(float64(0))
	for i := 0; i < rt.NumMethod(); i++ {
		m := rt.Method(i)
		if m.Name == "Rand" {
			continue
		}
		mv := rv.Method(i)
		mt := mv.Type()
		switch {
		case mt.NumIn() == 0 && mt.NumOut() == 1 && mt.Out(0) == f64:
			acc = append(acc, accessor{m.Name + "()", func() []float64 { return []float64{mv.Call(nil)[0].Float()} }})
		case mt.NumIn() == 0 && mt.NumOut() == 1 && mt.Out(0).Kind() == reflect.Int:
			acc = append(acc, accessor{m.Name + "()", func() []float64 { return []float64{float64(mv.Call(nil)[0].Int())} }})
		case mt.NumIn() == 1 && mt.In(0) == f64 && mt.NumOut() == 1 && mt.Out(0) == f64:
			args := xs
			if m.Name == "Quantile" {
				args = []float64{0, 1e-6, 0.25, 0.5, 0.999, 1}
			}
			for _, x := range args {
				x := x
				acc = append(acc, accessor{fmt.Sprintf("%s(%g)", m.Name, x), func() []float64 {
					return []float64{mv.Call([]reflect.Value{reflect.ValueOf(x)})[0].Float()}
				}})
			}
		case m.Name == "Score":
			for _, x := range xs {
				x := x
				acc = append(acc, accessor{fmt.Sprintf("Score(nil,%g)", x), func() []float64 {
					return d.(hasScore).Score(nil, x)
				}})
			}
		}
	}
	var between func()
	if rd, ok := d.(hasRand); ok {
		between = func() { catch(func() { rd.Rand() }) }
	}
	n := runRepeat(r, sp.name, acc, between)
	t.Count("repeated_calls", int64(n))
	t.Outcome(fmt.Sprintf("%s accessors=%d", sp.name, len(acc)))
}

func symFlat(s *mat.SymDense) []float64 {
	n := s.SymmetricDim()
	out := make([]float64, 0, n*n)
	for i := 0; i < n; i++ {
		for j := 0; j < n; j++ {
			out = append(out, s.At(i, j))
		}
	}
	return out
}

func checkRepeatMV(t *vlib.T) {
	r := &rep{t: t}
	t.Nontrivial()
	calls := 0
	one := func(v float64) []float64 { return []float64{v} }
	for _, c := range mvCases() {
		n := c.sigma.n
		x := mvPoints(c)[3]
		pp := []float64{0.1, 0.9, 0.25, 0.6}[:n]
		src := newScript(16, 3, 9, 14, 0, 7, 11, 2, 5, 13, 8)
		d, _ := distmv.NewNormal(c.mu, c.sigma.sym(), src)
		o, _ := distmv.NewNormal(addv(c.mu, 0.3), c.sigma.sym(), nil)
		acc := []accessor{
			{"LogProb", func() []float64 { return one(d.LogProb(x)) }},
			{"Prob", func() []float64 { return one(d.Prob(x)) }},
			{"Entropy", func() []float64 { return one(d.Entropy()) }},
			{"Mean", func() []float64 { return d.Mean(nil) }},
			{"CovarianceMatrix", func() []float64 { var s mat.SymDense; d.CovarianceMatrix(&s); return symFlat(&s) }},
			{"Quantile", func() []float64 { return d.Quantile(nil, pp) }},
			{"ScoreInput", func() []float64 { return d.ScoreInput(nil, x) }},
			{"TransformNormal", func() []float64 { return d.TransformNormal(nil, pp) }},
			{"MarginalNormalSingle", func() []float64 { m := d.MarginalNormalSingle(0, nil); return []float64{m.Mu, m.Sigma} }},
			{"MarginalNormal", func() []float64 { m, _ := d.MarginalNormal([]int{n - 1}, nil); return one(m.LogProb(x[n-1:])) }},
			{"KullbackLeibler", func() []float64 { return one(distmv.KullbackLeibler{}.DistNormal(d, o)) }},
			{"Bhattacharyya", func() []float64 { return one(distmv.Bhattacharyya{}.DistNormal(d, o)) }},
			{"Hellinger", func() []float64 { return one(distmv.Hellinger{}.DistNormal(o, d)) }},
			{"CrossEntropy", func() []float64 { return one(distmv.CrossEntropy{}.DistNormal(d, o)) }},
			{"Renyi", func() []float64 { return one(distmv.Renyi{Alpha: 0.7}.DistNormal(d, o)) }},
			{"Wasserstein", func() []float64 { return one(distmv.Wasserstein{}.DistNormal(d, o)) }},
			{"Dim", func() []float64 { return one(float64(d.Dim())) }},
		}
		if n >= 2 {
			acc = append(acc, accessor{"ConditionNormal", func() []float64 {
				cd, _ := d.ConditionNormal([]int{0}, x[:1], nil)
				return append(cd.Mean(nil), cd.LogProb(x[1:]))
			}})
		}
		calls += runRepeat(r, "distmv.Normal "+c.name, acc, func() { d.Rand(nil) })

		st, _ := distmv.NewStudentsT(c.mu, c.sigma.sym(), 4.5, newScript(16, 3, 9, 14, 0, 7, 11, 2, 5))
		acc = []accessor{
			{"LogProb", func() []float64 { return one(st.LogProb(x)) }},
			{"Prob", func() []float64 { return one(st.Prob(x)) }},
			{"Mean", func() []float64 { return st.Mean(nil) }},
			{"CovarianceMatrix", func() []float64 { var s mat.SymDense; st.CovarianceMatrix(&s); return symFlat(&s) }},
			{"Nu", func() []float64 { return one(st.Nu()) }},
			{"MarginalStudentsTSingle", func() []float64 { m := st.MarginalStudentsTSingle(0, nil); return []float64{m.Mu, m.Sigma, m.Nu} }},
			{"MarginalStudentsT", func() []float64 { m, _ := st.MarginalStudentsT([]int{n - 1}, nil); return one(m.LogProb(x[n-1:])) }},
		}
		if n >= 2 {
			acc = append(acc, accessor{"ConditionStudentsT", func() []float64 {
				cd, _ := st.ConditionStudentsT([]int{0}, x[:1], nil)
				return append(cd.Mean(nil), cd.LogProb(x[1:]), cd.Nu())
			}})
		}
		calls += runRepeat(r, "distmv.StudentsT "+c.name, acc, func() { st.Rand(nil) })
	}
	{
		b := []r1.Interval{{Min: -3, Max: 2}, {Min: 2, Max: 102}, {Min: 0, Max: 1e-2}}
		u := distmv.NewUniform(b, newScript(16, 3, 9, 14, 0, 7, 11))
		u2 := distmv.NewUniform([]r1.Interval{{Min: -4, Max: 3}, {Min: 0, Max: 200}, {Min: 0, Max: 1}}, nil)
		acc := []accessor{
			{"CDF(inside)", func() []float64 { return u.CDF(nil, []float64{0, 50, 5e-3}) }},
			{"CDF(below/above)", func() []float64 { return u.CDF(nil, []float64{-9, 500, -1}) }},
			{"Quantile", func() []float64 { return u.Quantile(nil, []float64{0, 0.3, 1}) }},
			{"LogProb", func() []float64 { return one(u.LogProb([]float64{0, 50, 5e-3})) }},
			{"Prob(outside)", func() []float64 { return one(u.Prob([]float64{0, 50, 1})) }},
			{"Entropy", func() []float64 { return one(u.Entropy()) }},
			{"Mean", func() []float64 { return u.Mean(nil) }},
			{"Bounds", func() []float64 { bb := u.Bounds(nil); return []float64{bb[0].Min, bb[0].Max, bb[2].Min, bb[2].Max} }},
			{"KullbackLeibler", func() []float64 { return one(distmv.KullbackLeibler{}.DistUniform(u, u2)) }},
			{"Bhattacharyya", func() []float64 { return one(distmv.Bhattacharyya{}.DistUniform(u, u2)) }},
		}
		calls += runRepeat(r, "distmv.Uniform", acc, func() { u.Rand(nil) })
		dd := distmv.NewDirichlet([]float64{2.5, 1, 0.5}, newScript(16, 3, 9, 14, 0, 7, 11))
		d2 := distmv.NewDirichlet([]float64{1, 1, 3}, nil)
		acc = []accessor{
			{"LogProb", func() []float64 { return one(dd.LogProb([]float64{0.2, 0.3, 0.5})) }},
			{"Prob", func() []float64 { return one(dd.Prob([]float64{0.2, 0.3, 0.5})) }},
			{"Mean", func() []float64 { return dd.Mean(nil) }},
			{"CovarianceMatrix", func() []float64 { var s mat.SymDense; dd.CovarianceMatrix(&s); return symFlat(&s) }},
			{"KullbackLeibler", func() []float64 { return one(distmv.KullbackLeibler{}.DistDirichlet(dd, d2)) }},
		}
		calls += runRepeat(r, "distmv.Dirichlet", acc, func() { dd.Rand(nil) })
	}
	for _, nu := range []float64{1.5, 3, 5.5} {
		vm := smatFrom(2, []float64{2, 0.6}, []float64{0.6, 0.5})
		w, _ := distmat.NewWishart(vm.sym(), nu, newScript(16, 3, 9, 14, 0, 7, 11))
		xs := smatFrom(2, []float64{4, 1.2}, []float64{1.2, 1}).sym()
		var ch mat.Cholesky
		ch.Factorize(xs)
		acc := []accessor{
			{"MeanSymTo", func() []float64 { var s mat.SymDense; w.MeanSymTo(&s); return symFlat(&s) }},
			{"LogProbSym", func() []float64 { return one(w.LogProbSym(xs)) }},
			{"ProbSym", func() []float64 { return one(w.ProbSym(xs)) }},
			{"LogProbSymChol", func() []float64 { return one(w.LogProbSymChol(&ch)) }},
		}
		calls += runRepeat(r, fmt.Sprintf("distmat.Wishart nu=%g", nu), acc, func() { var s mat.SymDense; w.RandSymTo(&s) })
	}
	{
		// ProposalNormal keeps one Normal and moves its mean on every call
		pn, _ := samplemv.NewProposalNormal(mat.NewSymDense(2, []float64{0.5, 0.1, 0.1, 0.25}), newScript(16, 3, 9, 14, 0))
		x, y, z := []float64{0.2, -0.1}, []float64{1, 0.5}, []float64{-2, 3}
		acc := []accessor{
			{"ConditionalLogProb(x|y)", func() []float64 { return one(pn.ConditionalLogProb(x, y)) }},
			{"ConditionalLogProb(x|z)", func() []float64 { return one(pn.ConditionalLogProb(x, z)) }},
			{"ConditionalLogProb(z|y)", func() []float64 { return one(pn.ConditionalLogProb(z, y)) }},
		}
		calls += runRepeat(r, "samplemv.ProposalNormal", acc, func() { pn.ConditionalRand(nil, y) })
	}
	{
		c := distuv.NewCategorical([]float64{0.5, 0, 2, 1.5}, newScript(16, 3, 9, 14, 0))
		acc := []accessor{
			{"Prob", func() []float64 { return []float64{c.Prob(0), c.Prob(1), c.Prob(2), c.Prob(3), c.Prob(4), c.Prob(0.5)} }},
			{"CDF", func() []float64 { return []float64{c.CDF(-1), c.CDF(0), c.CDF(1.5), c.CDF(3), c.CDF(9)} }},
			{"LogProb", func() []float64 { return []float64{c.LogProb(1), c.LogProb(2)} }},
			{"Mean", func() []float64 { return one(c.Mean()) }},
			{"Entropy", func() []float64 { return one(c.Entropy()) }},
			{"Len", func() []float64 { return one(float64(c.Len())) }},
		}
		calls += runRepeat(r, "distuv.Categorical", acc, func() { c.Rand() })
	}
	t.Count("repeated_calls", int64(calls))
	t.Outcome("mv objects")
}

// checkDstContents: see the group comment (2).
func checkDstContents(t *vlib.T) {
	r := &rep{t: t}
	t.Nontrivial()
	calls := 0
	// seq runs f(nil, k) for the reference and f(dst, k) on one reused destination for k = 0..n-1,
	// then once more on destinations pre-filled with 1 and with NaN.
	seq := func(name string, dim, n int, f func(dst []float64, k int) []float64) {
		reused := make([]float64, dim)
		for k := 0; k < n; k++ {
			want := guarded(func() []float64 { return f(nil, k) })
			for state, dst := range [][]float64{reused, nil, nil} {
				switch state {
				case 1:
					dst = make([]float64, dim)
					for i := range dst {
						dst[i] = 1
					}
				case 2:
					dst = make([]float64, dim)
					vlib.FillPoison64(dst)
				}
				got := guarded(func() []float64 { return f(dst, k) })
				calls++
				if !bitsEq(got, want) {
					r.fail("dst contents must not matter", fmt.Sprintf("%s query=%d dst=%s", name, k, []string{"reused (stale result of the previous query)", "ones", "NaN"}[state]), "got %v, dst == nil gives %v", got, want)
				}
			}
		}
	}
	// distmv.Uniform: every coordinate below / at Min / inside / at Max / above
	b := []r1.Interval{{Min: -3, Max: 2}, {Min: 2, Max: 102}, {Min: 0, Max: 1e-2}}
	u := distmv.NewUniform(b, nil)
	pos := func(iv r1.Interval, k int) float64 {
		w := iv.Max - iv.Min
		return []float64{iv.Min - 0.7*w, iv.Min, iv.Min + 0.3*w, iv.Max, iv.Max + 0.4*w}[k]
	}
	// order the 125 queries so that consecutive ones differ a lot (above before below)
	seq("Uniform.CDF", 3, 125, func(dst []float64, k int) []float64 {
		kk := (k * 47) % 125
		return u.CDF(dst, []float64{pos(b[0], kk%5), pos(b[1], kk/5%5), pos(b[2], kk/25)})
	})
	seq("Uniform.Quantile", 3, 27, func(dst []float64, k int) []float64 {
		kk := (k * 11) % 27
		ps := []float64{1, 0, 0.3}
		return u.Quantile(dst, []float64{ps[kk%3], ps[kk/3%3], ps[kk/9]})
	})
	seq("Uniform.Mean", 3, 2, func(dst []float64, k int) []float64 { return u.Mean(dst) })
	seq("Uniform.Rand", 3, 4, func(dst []float64, k int) []float64 {
		return distmv.NewUniform(b, newScript(16, k, 15-k, 7)).Rand(dst)
	})
	for _, c := range mvCases() {
		n := c.sigma.n
		d, _ := distmv.NewNormal(c.mu, c.sigma.sym(), nil)
		st, _ := distmv.NewStudentsT(c.mu, c.sigma.sym(), 3, nil)
		pts := mvPoints(c)
		seq("Normal.ScoreInput "+c.name, n, len(pts), func(dst []float64, k int) []float64 { return d.ScoreInput(dst, pts[(k*3)%len(pts)]) })
		ps := [][]float64{{0.5, 0.5, 0.5, 0.5}, {1, 0, 1, 0}, {1e-9, 1 - 1e-9, 0.3, 0.7}, {0, 1, 0, 1}, {0.9, 0.1, 0.2, 0.8}}
		seq("Normal.Quantile "+c.name, n, len(ps), func(dst []float64, k int) []float64 { return d.Quantile(dst, ps[k][:n]) })
		seq("Normal.TransformNormal "+c.name, n, len(ps), func(dst []float64, k int) []float64 { return d.TransformNormal(dst, ps[k][:n]) })
		seq("Normal.Mean "+c.name, n, 2, func(dst []float64, k int) []float64 { return d.Mean(dst) })
		seq("StudentsT.Mean "+c.name, n, 2, func(dst []float64, k int) []float64 { return st.Mean(dst) })
		seq("Normal.Rand "+c.name, n, 3, func(dst []float64, k int) []float64 {
			dd, _ := distmv.NewNormal(c.mu, c.sigma.sym(), newScript(16, k, 15-k, 7, 3))
			return dd.Rand(dst)
		})
		seq("StudentsT.Rand "+c.name, n, 3, func(dst []float64, k int) []float64 {
			dd, _ := distmv.NewStudentsT(c.mu, c.sigma.sym(), 3, newScript(16, k, 15-k, 7, 3, 9, 1))
			return dd.Rand(dst)
		})
	}
	seq("Dirichlet.Mean", 3, 2, func(dst []float64, k int) []float64 {
		return distmv.NewDirichlet([]float64{2.5, 1, 0.5}, nil).Mean(dst)
	})
	seq("Dirichlet.Rand", 3, 3, func(dst []float64, k int) []float64 {
		return distmv.NewDirichlet([]float64{2.5, 1, 0.5}, newScript(16, k, 15-k, 7, 3, 9, 1)).Rand(dst)
	})
	// distuv Score(deriv, x): below / edges / inside / above the support on one reused deriv
	for _, sp := range uvSpecs() {
		grid := sp.grid(false)
		for _, gi := range []int{0, len(grid) - 1} {
			p := grid[gi]
			d := sp.mk(p, nil)
			s, ok := d.(hasScore)
			if !ok {
				continue
			}
			q := d.(hasQuantile)
			lo, hi := sp.lo(p), sp.hi(p)
			xs := []float64{q.Quantile(0.9), q.Quantile(0.1), q.Quantile(0.5)}
			if isFinite(hi) {
				xs = append(xs, hi+1, hi)
			}
			if isFinite(lo) {
				xs = append(xs, lo-1, lo)
			}
			xs = append(xs, q.Quantile(0.3))
			seq("Score "+pkey(sp, p), len(p), len(xs), func(dst []float64, k int) []float64 { return s.Score(dst, xs[k]) })
		}
	}
	// symmetric-matrix destinations holding the result of a different law
	{
		vm := smatFrom(2, []float64{2, 0.6}, []float64{0.6, 0.5})
		var dst mat.SymDense
		for k, nu := range []float64{5.5, 1.5, 50, 3} {
			w, _ := distmat.NewWishart(vm.sym(), nu, nil)
			var fresh mat.SymDense
			w.MeanSymTo(&fresh)
			w.MeanSymTo(&dst) // dst holds the previous nu's mean
			calls++
			if !bitsEq(symFlat(&dst), symFlat(&fresh)) {
				r.fail("dst contents must not matter", fmt.Sprintf("Wishart.MeanSymTo query=%d", k), "reused destination gives %v, a fresh one %v", symFlat(&dst), symFlat(&fresh))
			}
			w1, _ := distmat.NewWishart(vm.sym(), nu, newScript(16, k, 9, 3))
			w2, _ := distmat.NewWishart(vm.sym(), nu, newScript(16, k, 9, 3))
			var f2 mat.SymDense
			w1.RandSymTo(&f2)
			w2.RandSymTo(&dst)
			if !bitsEq(symFlat(&dst), symFlat(&f2)) {
				r.fail("dst contents must not matter", fmt.Sprintf("Wishart.RandSymTo query=%d", k), "reused destination differs from a fresh one")
			}
		}
		var cdst mat.SymDense
		for k, c := range mvCases()[3:6] { // the three 2-dimensional cases
			for _, which := range []string{"Normal", "StudentsT", "Dirichlet"} {
				fill := func(dst *mat.SymDense) {
					switch which {
					case "Normal":
						d, _ := distmv.NewNormal(c.mu, c.sigma.sym(), nil)
						d.CovarianceMatrix(dst)
					case "StudentsT":
						d, _ := distmv.NewStudentsT(c.mu, c.sigma.sym(), 3, nil)
						d.CovarianceMatrix(dst)
					default:
						distmv.NewDirichlet([]float64{2.5 + float64(k), 1}, nil).CovarianceMatrix(dst)
					}
				}
				var fresh mat.SymDense
				fill(&fresh)
				fill(&cdst)
				calls++
				if !bitsEq(symFlat(&cdst), symFlat(&fresh)) {
					r.fail("dst contents must not matter", which+".CovarianceMatrix "+c.name, "reused destination gives %v, a fresh one %v", symFlat(&cdst), symFlat(&fresh))
				}
			}
		}
	}
	t.Count("dst_content_calls", int64(calls))
	t.Outcome("dst contents")
}
