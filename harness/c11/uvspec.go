package main

import (
	"fmt"
	"math"
	"math/rand/v2"
	"sort"

	"gonum.org/v1/gonum/stat/distuv"
)

// The parameter alphabets of DESIGN C11.
var (
	shapeS = []float64{0.3, 0.5, 0.99, 1, 1.01, 2, 2.5, 5, 50}
	locL   = []float64{-3, 0, 2}
	scaleC = []float64{1e-2, 1, 1e2}
)

func cat(a []float64, b ...float64) []float64 { return append(append([]float64(nil), a...), b...) }

// ulps returns v and its two floating-point neighbours.
func ulps(vs ...float64) []float64 {
	var o []float64
	for _, v := range vs {
		o = append(o, math.Nextafter(v, math.Inf(-1)), v, math.Nextafter(v, math.Inf(1)))
	}
	return o
}

// nb returns the neighbourhood of a branch constant: 1% below, 1 ulp below, the
// constant, 1 ulp above, 1% above.
func nb(vs ...float64) []float64 {
	var o []float64
	for _, v := range vs {
		o = append(o, v*0.99, math.Nextafter(v, math.Inf(-1)), v, math.Nextafter(v, math.Inf(1)), v*1.01)
	}
	return o
}

// set merges value lists into a sorted list without duplicates.
func set(lists ...[]float64) []float64 {
	var all []float64
	for _, l := range lists {
		all = append(all, l...)
	}
	sort.Float64s(all)
	o := all[:0]
	for i, v := range all {
		if i == 0 || v != all[i-1] {
			o = append(o, v)
		}
	}
	return o
}

// pickT returns q in the quick tier and q plus extra in the thorough tier.
func pickT(th bool, q []float64, extra ...float64) []float64 {
	if th {
		return set(q, extra)
	}
	return set(q)
}

// uvSpec describes one distuv type: how to build it from a parameter vector,
// its parameter grid, its support and which absolute moments exist. Everything
// else (which methods exist) is discovered by reflection on the built value.
type uvSpec struct {
	name   string
	pnames []string
	grid   func(thorough bool) [][]float64
	mk     func(p []float64, src rand.Source) any
	lo, hi func(p []float64) float64
	// discrete support points (nil for continuous laws)
	points func(p []float64) []float64
	// momOrder: E|X|^r is finite iff r < momOrder(p). +Inf when all moments exist.
	momOrder func(p []float64) float64
	// scoreScale gives the natural step scale of parameter j (Score order = pnames order).
	scoreScale func(p []float64, j int) float64
	// kind of sampler: "inv" (one uniform/exponential/normal draw, monotone), "rej" (several draws)
	sampler string
	// refCDF is a harness-side CDF for types that do not export one (AlphaStable special cases).
	refCDF func(p []float64) func(float64) float64
}

func prod(lists ...[]float64) [][]float64 {
	out := [][]float64{{}}
	for _, l := range lists {
		var nx [][]float64
		for _, o := range out {
			for _, v := range l {
				nx = append(nx, append(append([]float64(nil), o...), v))
			}
		}
		out = nx
	}
	return out
}

func allMoments(p []float64) float64 { return math.Inf(1) }
func negInf(p []float64) float64     { return math.Inf(-1) }
func posInf(p []float64) float64     { return math.Inf(1) }
func zero(p []float64) float64       { return 0 }

// locScale pairs used where a full L x C product would only repeat an affine map.
func locScalePairs(thorough bool) [][]float64 {
	if thorough {
		return prod(locL, cat(scaleC, 1e-4, 1e4))
	}
	return prod(locL, scaleC)
}

// locScaleLS is locScalePairs as separate lists for prod().
func scalesT(th bool) []float64 { return pickT(th, scaleC, 1e-4, 1e4) }

func ints(lo, hi int) []float64 {
	var o []float64
	for i := lo; i <= hi; i++ {
		o = append(o, float64(i))
	}
	return o
}

var catWeights = [][]float64{
	{1},
	{1, 1},
	{0.3, 0.7},
	{0, 1, 0, 2},
	{1, 2, 3, 4, 5},
	{0.1, 0.2, 0.3, 0.4, 0, 0},
	{5, 0, 0, 0, 0, 0, 0, 1},
	{1e-3, 1, 1e3},
	{2, 2, 2, 2, 2, 2, 2, 2, 2},
}

func uvSpecs() []uvSpec {
	return []uvSpec{
		{
			name: "AlphaStable", pnames: []string{"Alpha", "Beta", "C", "Mu"},
			grid: func(th bool) [][]float64 {
				var out [][]float64
				// Alpha = 1 is a separate branch of the sampler; 2 is the upper end of the domain
				as := set([]float64{0.3, 0.5, 1.5, 1.98, math.Nextafter(2, 0), 2}, nb(1))
				if th {
					as = set(as, []float64{0.1, 0.75, 1 - 1e-6, 1 + 1e-6, 1.25, 1.9})
				}
				for _, a := range as {
					for _, b := range []float64{-1, -0.5, 0, 0.5, 1} {
						for _, ls := range locScalePairs(th) {
							out = append(out, []float64{a, b, ls[1], ls[0]})
						}
					}
				}
				return out
			},
			mk: func(p []float64, src rand.Source) any {
				return distuv.AlphaStable{Alpha: p[0], Beta: p[1], C: p[2], Mu: p[3], Src: src}
			},
			lo: func(p []float64) float64 {
				if p[0] < 1 && p[1] == 1 {
					return p[3]
				}
				return math.Inf(-1)
			},
			hi: func(p []float64) float64 {
				if p[0] < 1 && p[1] == -1 {
					return p[3]
				}
				return math.Inf(1)
			},
			momOrder: func(p []float64) float64 {
				if p[0] == 2 {
					return math.Inf(1)
				}
				return p[0]
			},
			sampler: "rej",
			refCDF: func(p []float64) func(float64) float64 {
				a, b, c, mu := p[0], p[1], p[2], p[3]
				switch {
				case a == 2: // Normal(mu, sqrt(2) c)
					return func(x float64) float64 { return 0.5 * math.Erfc(-(x-mu)/(2*c)) }
				case a == 1 && b == 0: // Cauchy(mu, c)
					return func(x float64) float64 { return 0.5 + math.Atan((x-mu)/c)/math.Pi }
				case a == 0.5 && b == 1: // Levy(mu, c)
					return func(x float64) float64 {
						if x <= mu {
							return 0
						}
						return math.Erfc(math.Sqrt(c / (2 * (x - mu))))
					}
				case a == 0.5 && b == -1: // mirrored Levy
					return func(x float64) float64 {
						if x >= mu {
							return 1
						}
						return 1 - math.Erfc(math.Sqrt(c/(2*(mu-x))))
					}
				}
				return nil
			},
		},
		{
			name: "Bernoulli", pnames: []string{"P"},
			grid: func(th bool) [][]float64 {
				return prod(pickT(th, set([]float64{0, 0.01, 0.3, 0.7, 0.99, 1}, nb(0.5)), 1e-9, 0.1, 0.9, 1-1e-9))
			},
			mk:       func(p []float64, src rand.Source) any { return distuv.Bernoulli{P: p[0], Src: src} },
			lo:       zero,
			hi:       func([]float64) float64 { return 1 },
			points:   func([]float64) []float64 { return []float64{0, 1} },
			momOrder: allMoments, sampler: "inv",
		},
		{
			name: "Beta", pnames: []string{"Alpha", "Beta"},
			grid: func(th bool) [][]float64 {
				// 1: Mode branches and the LogProb guards; 0.2 and 1: Gamma.Rand algorithm switches
				v := pickT(th, set(shapeS, ulps(1), []float64{0.198, 0.2, 0.202}), 0.1, 0.19, 0.21, 1.5, 1.98, 2.02, 10, 100)
				if th {
					v = set(v, ulps(2))
				}
				return prod(v, v)
			},
			mk:       func(p []float64, src rand.Source) any { return distuv.Beta{Alpha: p[0], Beta: p[1], Src: src} },
			lo:       zero,
			hi:       func([]float64) float64 { return 1 },
			momOrder: allMoments, sampler: "rej",
		},
		{
			name: "Binomial", pnames: []string{"N", "P"},
			grid: func(th bool) [][]float64 {
				// N < 25: direct method; N*min(P,1-P) < 1: Poisson rejection; else Cauchy rejection; P > 1/2: reflection
				ns := pickT(th, []float64{1, 2, 5, 24, 25, 26, 50, 200}, 3, 10, 100, 1000)
				ps := pickT(th, set([]float64{0, 0.01, 0.03, 0.3, 0.7, 0.97, 0.99, 1}, ulps(0.5)), 1e-6, 0.1, 0.495, 0.505, 0.9, 1-1e-6)
				out := prod(ns, ps)
				for _, n := range ns {
					if n >= 25 { // straddle N*p = 1 from both sides of the reflection
						for _, f := range []float64{0.99, 1, 1.01} {
							out = append(out, []float64{n, f / n}, []float64{n, 1 - f/n})
						}
					}
				}
				return out
			},
			mk:       func(p []float64, src rand.Source) any { return distuv.Binomial{N: p[0], P: p[1], Src: src} },
			lo:       zero,
			hi:       func(p []float64) float64 { return p[0] },
			points:   func(p []float64) []float64 { return ints(0, int(p[0])) },
			momOrder: allMoments, sampler: "rej",
		},
		{
			name: "Categorical", pnames: []string{"set"},
			grid: func(bool) [][]float64 { return prod(ints(0, len(catWeights)-1)) },
			mk: func(p []float64, src rand.Source) any {
				return distuv.NewCategorical(catWeights[int(p[0])], src)
			},
			lo:       zero,
			hi:       func(p []float64) float64 { return float64(len(catWeights[int(p[0])]) - 1) },
			points:   func(p []float64) []float64 { return ints(0, len(catWeights[int(p[0])])-1) },
			momOrder: allMoments, sampler: "inv",
		},
		{
			name: "Chi", pnames: []string{"K"},
			grid: func(th bool) [][]float64 {
				// 1: Mode and the LogProb guard; K/2 = 0.2 and K/2 = 1: Gamma.Rand switches
				return prod(pickT(th, set(shapeS, nb(1), nb(2), nb(0.4)), 0.1, 0.2, 1.5, 3, 10, 100, 1000))
			},
			mk:       func(p []float64, src rand.Source) any { return distuv.Chi{K: p[0], Src: src} },
			lo:       zero,
			hi:       posInf,
			momOrder: allMoments, sampler: "rej",
		},
		{
			name: "ChiSquared", pnames: []string{"K"},
			grid: func(th bool) [][]float64 {
				return prod(pickT(th, set(shapeS, nb(1), nb(2), nb(0.4), []float64{0.39, 0.41}), 0.1, 0.2, 1.5, 3, 10, 100, 1000))
			},
			mk:       func(p []float64, src rand.Source) any { return distuv.ChiSquared{K: p[0], Src: src} },
			lo:       zero,
			hi:       posInf,
			momOrder: allMoments, sampler: "rej",
		},
		{
			name: "Exponential", pnames: []string{"Rate"},
			grid: func(th bool) [][]float64 {
				return prod(pickT(th, set(shapeS, ulps(1), []float64{1e-2, 1e2}), 1e-6, 1e-4, 0.1, 10, 1e4, 1e6))
			},
			mk:       func(p []float64, src rand.Source) any { return distuv.Exponential{Rate: p[0], Src: src} },
			lo:       zero,
			hi:       posInf,
			momOrder: allMoments, sampler: "inv",
			scoreScale: func(p []float64, j int) float64 { return p[0] },
		},
		{
			name: "F", pnames: []string{"D1", "D2"},
			grid: func(th bool) [][]float64 {
				// D1 = 2: Mode and the density at 0; D2 = 2, 4, 6, 8: existence of the moments;
				// D/2 = 0.2 and D/2 = 1: Gamma.Rand switches
				d1 := pickT(th, set(shapeS, ulps(2), []float64{0.4, 9}), 0.396, 0.404, 1.98, 2.02, 4, 6, 8, 20, 200)
				d2 := pickT(th, set(shapeS, nb(2), ulps(4, 6, 8), []float64{0.4, 9}), 0.396, 0.404, 3.96, 4.04, 5.94, 6.06, 7.92, 8.08, 20, 200)
				return prod(d1, d2)
			},
			mk:       func(p []float64, src rand.Source) any { return distuv.F{D1: p[0], D2: p[1], Src: src} },
			lo:       zero,
			hi:       posInf,
			momOrder: func(p []float64) float64 { return p[1] / 2 },
			sampler:  "rej",
		},
		{
			name: "Gamma", pnames: []string{"Alpha", "Beta"},
			grid: func(th bool) [][]float64 {
				// smallAlphaThresh = 0.2, Alpha == 1 (exponential), Alpha < 1 (boost, Mode)
				a := pickT(th, set(shapeS, nb(0.2), ulps(1), []float64{0.1, 0.19, 0.21}), 0.01, 0.05, 1.5, 1.98, 2.02, 10, 100, 1000)
				return prod(a, pickT(th, scaleC, 0.5, 2))
			},
			mk:       func(p []float64, src rand.Source) any { return distuv.Gamma{Alpha: p[0], Beta: p[1], Src: src} },
			lo:       zero,
			hi:       posInf,
			momOrder: allMoments, sampler: "rej",
		},
		{
			name: "GumbelRight", pnames: []string{"Mu", "Beta"},
			grid:     func(th bool) [][]float64 { return prod(locL, scalesT(th)) },
			mk:       func(p []float64, src rand.Source) any { return distuv.GumbelRight{Mu: p[0], Beta: p[1], Src: src} },
			lo:       negInf,
			hi:       posInf,
			momOrder: allMoments, sampler: "inv",
		},
		{
			name: "InverseGamma", pnames: []string{"Alpha", "Beta"},
			grid: func(th bool) [][]float64 {
				// Alpha = 1, 2, 3, 4: existence of the moments; 0.2, 1: Gamma.Rand switches
				a := pickT(th, set(shapeS, ulps(1, 2, 3, 4), nb(0.2), []float64{4.5}), 0.1, 1.5, 1.98, 2.02, 2.97, 3.03, 3.96, 4.04, 10, 100)
				return prod(a, scaleC)
			},
			mk:       func(p []float64, src rand.Source) any { return distuv.InverseGamma{Alpha: p[0], Beta: p[1], Src: src} },
			lo:       zero,
			hi:       posInf,
			momOrder: func(p []float64) float64 { return p[0] },
			sampler:  "rej",
		},
		{
			name: "Laplace", pnames: []string{"Mu", "Scale"},
			grid:     func(th bool) [][]float64 { return prod(locL, scalesT(th)) },
			mk:       func(p []float64, src rand.Source) any { return distuv.Laplace{Mu: p[0], Scale: p[1], Src: src} },
			lo:       negInf,
			hi:       posInf,
			momOrder: allMoments, sampler: "inv",
			scoreScale: func(p []float64, j int) float64 { return p[1] },
		},
		{
			name: "Logistic", pnames: []string{"Mu", "S"},
			grid:     func(th bool) [][]float64 { return prod(locL, scalesT(th)) },
			mk:       func(p []float64, src rand.Source) any { return distuv.Logistic{Mu: p[0], S: p[1]} },
			lo:       negInf,
			hi:       posInf,
			momOrder: allMoments,
		},
		{
			name: "LogNormal", pnames: []string{"Mu", "Sigma"},
			grid: func(th bool) [][]float64 {
				return prod(locL, pickT(th, []float64{1e-2, 0.5, 1, 2}, 1e-4, 0.1, 0.25, 1.5, 3))
			},
			mk:       func(p []float64, src rand.Source) any { return distuv.LogNormal{Mu: p[0], Sigma: p[1], Src: src} },
			lo:       zero,
			hi:       posInf,
			momOrder: allMoments, sampler: "inv",
		},
		{
			name: "Normal", pnames: []string{"Mu", "Sigma"},
			grid:     func(th bool) [][]float64 { return prod(locL, scalesT(th)) },
			mk:       func(p []float64, src rand.Source) any { return distuv.Normal{Mu: p[0], Sigma: p[1], Src: src} },
			lo:       negInf,
			hi:       posInf,
			momOrder: allMoments, sampler: "inv",
			scoreScale: func(p []float64, j int) float64 { return p[1] },
		},
		{
			name: "Pareto", pnames: []string{"Xm", "Alpha"},
			grid: func(th bool) [][]float64 {
				a := pickT(th, set(shapeS, ulps(1, 2, 3, 4), []float64{4.5}), 0.1, 1.5, 1.98, 2.02, 2.97, 3.03, 3.96, 4.04, 10, 100)
				return prod(scaleC, a)
			},
			mk:       func(p []float64, src rand.Source) any { return distuv.Pareto{Xm: p[0], Alpha: p[1], Src: src} },
			lo:       func(p []float64) float64 { return p[0] },
			hi:       posInf,
			momOrder: func(p []float64) float64 { return p[1] },
			sampler:  "inv",
		},
		{
			name: "Poisson", pnames: []string{"Lambda"},
			grid: func(th bool) [][]float64 {
				// Lambda < 10: direct method; else PTRS
				return prod(pickT(th, set([]float64{0.3, 0.99, 1, 2.5, 5, 9.99, 10.01, 50, 200}, nb(10)), 1e-3, 0.1, 2, 9, 11, 12, 20, 100, 1000))
			},
			mk: func(p []float64, src rand.Source) any { return distuv.Poisson{Lambda: p[0], Src: src} },
			lo: zero,
			hi: posInf,
			points: func(p []float64) []float64 {
				return ints(0, int(p[0]+40*math.Sqrt(p[0])+60))
			},
			momOrder: allMoments, sampler: "rej",
		},
		{
			name: "StudentsT", pnames: []string{"Mu", "Sigma", "Nu"},
			grid: func(th bool) [][]float64 {
				var out [][]float64
				for _, ls := range locScalePairs(th) {
					// Nu = 1, 2: Mean/Variance branches; Nu/2 = 0.2, 1: Gamma.Rand switches
					nus := set(shapeS, ulps(1, 2), nb(0.4), []float64{3, 4, 4.5})
					if th {
						nus = set(nus, []float64{0.1, 1.5, 1.98, 2.02, 10, 100, 1000})
					}
					for _, nu := range nus {
						out = append(out, []float64{ls[0], ls[1], nu})
					}
				}
				return out
			},
			mk: func(p []float64, src rand.Source) any {
				return distuv.StudentsT{Mu: p[0], Sigma: p[1], Nu: p[2], Src: src}
			},
			lo:       negInf,
			hi:       posInf,
			momOrder: func(p []float64) float64 { return p[2] },
			sampler:  "rej",
		},
		{
			name: "Triangle", pnames: []string{"A", "B", "C"},
			grid: func(th bool) [][]float64 {
				// c = (a+b)/2: Median branch; c = a, c = b: degenerate sides
				out := [][]float64{{0, 1, 0.5}, {0, 1, 0}, {0, 1, 1}, {-3, 2, 0}, {-3, 2, -3}, {-3, 2, 2}, {0, 100, 1},
					{-3, 2, 1.99}, {2, 2.01, 2.005}, {-1, 1, 0.25}}
				for _, ab := range [][2]float64{{0, 1}, {-3, 2}} {
					m := (ab[0] + ab[1]) / 2
					out = append(out, []float64{ab[0], ab[1], math.Nextafter(m, -9)}, []float64{ab[0], ab[1], math.Nextafter(m, 9)},
						[]float64{ab[0], ab[1], math.Nextafter(ab[0], 9)}, []float64{ab[0], ab[1], math.Nextafter(ab[1], -9)})
				}
				out = append(out, []float64{-3, 2, -0.5})
				if th {
					out = append(out, []float64{-1e4, 1e4, 3}, []float64{0, 1e-4, 2.5e-5}, []float64{1e6, 1e6 + 1, 1e6 + 0.75}, []float64{-3, 2, -0.505}, []float64{-3, 2, -0.495})
				}
				return out
			},
			mk:       func(p []float64, src rand.Source) any { return distuv.NewTriangle(p[0], p[1], p[2], src) },
			lo:       func(p []float64) float64 { return p[0] },
			hi:       func(p []float64) float64 { return p[1] },
			momOrder: allMoments, sampler: "inv",
			scoreScale: func(p []float64, j int) float64 { return p[1] - p[0] },
		},
		{
			name: "Uniform", pnames: []string{"Min", "Max"},
			grid: func(th bool) [][]float64 {
				out := [][]float64{{0, 1}, {-3, 2}, {2, 102}, {-3, -2.99}, {0, 1e-2}}
				if th {
					out = append(out, []float64{-1e4, 1e4}, []float64{1e6, 1e6 + 1}, []float64{0, 1e-4}, []float64{-1, 0})
				}
				return out
			},
			mk:       func(p []float64, src rand.Source) any { return distuv.Uniform{Min: p[0], Max: p[1], Src: src} },
			lo:       func(p []float64) float64 { return p[0] },
			hi:       func(p []float64) float64 { return p[1] },
			momOrder: allMoments, sampler: "inv",
			scoreScale: func(p []float64, j int) float64 { return p[1] - p[0] },
		},
		{
			name: "Weibull", pnames: []string{"K", "Lambda"},
			grid: func(th bool) [][]float64 {
				// K = 1: Mode and the LogProb special case at 0
				return prod(pickT(th, set(shapeS, ulps(1)), 0.1, 1.5, 1.98, 2.02, 10, 100), scaleC)
			},
			mk:       func(p []float64, src rand.Source) any { return distuv.Weibull{K: p[0], Lambda: p[1], Src: src} },
			lo:       zero,
			hi:       posInf,
			momOrder: allMoments, sampler: "inv",
			scoreScale: func(p []float64, j int) float64 { return p[j] },
		},
	}
}

func pkey(sp uvSpec, p []float64) string {
	s := sp.name
	for i, v := range p {
		s += fmt.Sprintf(" %s=%g", sp.pnames[i], v)
	}
	return s
}

// Method-set interfaces discovered on the built value.
type (
	hasCDF      interface{ CDF(float64) float64 }
	hasSurvival interface{ Survival(float64) float64 }
	hasProb     interface{ Prob(float64) float64 }
	hasLogProb  interface{ LogProb(float64) float64 }
	hasQuantile interface{ Quantile(float64) float64 }
	hasMean     interface{ Mean() float64 }
	hasVariance interface{ Variance() float64 }
	hasStdDev   interface{ StdDev() float64 }
	hasSkewness interface{ Skewness() float64 }
	hasExKurt   interface{ ExKurtosis() float64 }
	hasEntropy  interface{ Entropy() float64 }
	hasMedian   interface{ Median() float64 }
	hasMode     interface{ Mode() float64 }
	hasRand     interface{ Rand() float64 }
	hasScore    interface {
		Score([]float64, float64) []float64
	}
	hasScoreInput interface{ ScoreInput(float64) float64 }
	hasNumParams  interface{ NumParameters() int }
)

var uvMethodNames = []string{"CDF", "Survival", "Prob", "LogProb", "Quantile", "Mean", "Variance", "StdDev", "Skewness",
	"ExKurtosis", "Entropy", "Median", "Mode", "Rand", "Fit", "Score", "ScoreInput", "ConjugateUpdate", "SuffStat", "LogSurvival"}
