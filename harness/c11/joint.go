package main

import (
	"fmt"
	"math"
	"math/rand/v2"
	"sort"

	"gonum.org/v1/gonum/internal/verif/vlib"
	"gonum.org/v1/gonum/mat"
	"gonum.org/v1/gonum/spatial/r1"
	"gonum.org/v1/gonum/stat/distmat"
	"gonum.org/v1/gonum/stat/distmv"
	"gonum.org/v1/gonum/stat/distuv"
	"gonum.org/v1/gonum/stat/samplemv"
	"gonum.org/v1/gonum/stat/sampleuv"
)

// Group joint: the JOINT law of samplers that consume several variates per batch or per
// sample. Per-dimension checks (marginal stratification, first-marginal Kolmogorov distance)
// cannot see a sampler that reuses one variate for several coordinates or couples what must be
// independent. Two oracles:
//
//	product structure: all answer sequences of the integer (or uniform) draws are enumerated;
//	  the set of reachable joint outcomes must be the full product of the per-coordinate outcome
//	  sets, each with the same multiplicity (independence and uniformity, exactly);
//	replay of the definition: the sample equals the documented construction evaluated by the
//	  harness from the same answers (which variate goes where).

// kindSeqSrc answers integer draws from ints (alphabet kInt) and uniform/normal/exponential
// draws from a fixed cyclic script (alphabet kReal); the kind of each draw position is cached
// (the pattern of draws of the samplers below does not depend on the answers).
type kindSeqSrc struct {
	aInt, aReal *alphabet
	ints        []int
	reals       []int
	ni, nr, n   int
	kinds       *[]int8
}

func (s *kindSeqSrc) Uint64() uint64 {
	pos := s.n
	s.n++
	var k int8
	if pos < len(*s.kinds) {
		k = (*s.kinds)[pos]
	} else {
		k = int8(callerKind())
		*s.kinds = append(*s.kinds, k)
	}
	if k == kindInt {
		v := s.aInt.u[kindInt][s.ints[s.ni%len(s.ints)]]
		s.ni++
		return v
	}
	v := s.aReal.u[k][s.reals[s.nr%len(s.reals)]]
	s.nr++
	return v
}

func factorial(n int) int {
	f := 1
	for i := 2; i <= n; i++ {
		f *= i
	}
	return f
}

func genJoint(gen *vlib.G) {
	shapes := [][2]int{{2, 2}, {2, 3}, {2, 4}, {3, 2}, {3, 3}}
	if gen.Thorough() {
		shapes = append(shapes, [2]int{4, 2}) // 12^6 answer sequences
	}
	for _, sh := range shapes {
		sh := sh
		gen.Case(fmt.Sprintf("samplemv.LatinHypercube r=%d c=%d all permutation draws", sh[0], sh[1]), func(t *vlib.T) { checkLHSJoint(t, sh[0], sh[1]) })
	}
	gen.Case("LatinHypercube = definition (uv and mv)", checkLHSReplay)
	gen.Case("IID and Uniform.Rand: full product of the answers", checkIIDProduct)
	gen.Case("Normal and StudentsT Rand: whitened sample = normal answers", checkMVRandReplay)
	gen.Case("Dirichlet.Rand = normalised gamma variates", checkDirichletReplay)
	gen.Case("Wishart.RandSymTo = Bartlett construction", checkWishartReplay)
	gen.Case("UnitVector = normalised normal variates", checkUnitVectorReplay)
	gen.Case("Weighted: joint law of the order of takes", checkWeightedJoint)
}

// lhsK is the smallest integer alphabet on which IntN(2..r) are all exactly uniform.
func lhsK(r int) int {
	k := 1
	for m := 2; m <= r; m++ {
		g := k
		for b := m; b != 0; {
			g, b = b, g%b
		}
		k = k / g * m
	}
	if r >= 4 && k%4 != 0 {
		k *= 2
	}
	return k
}

func checkLHSJoint(t *vlib.T, r, c int) {
	rp := &rep{t: t}
	t.Nontrivial()
	K := lhsK(r)
	nint := c * (r - 1)
	aInt, aReal := getAlphabet(K), getAlphabet(8)
	bounds := make([]r1.Interval, c)
	for j := range bounds {
		bounds[j] = r1.Interval{Min: float64(j) - 3, Max: float64(j)*2 + 1.5}
	}
	q := distmv.NewUniform(bounds, nil)
	kinds := []int8{}
	joint := map[string]int{}
	perCol := make([]map[string]int, c)
	for j := range perCol {
		perCol[j] = map[string]int{}
	}
	reals := []int{3, 0, 7, 5, 1, 6, 2, 4, 4, 1}
	total, bad := 0, 0
	drawsReported := false
	odometer(K, nint, func(idx []int) {
		src := &kindSeqSrc{aInt: aInt, aReal: aReal, ints: idx, reals: reals, kinds: &kinds}
		batch := mat.NewDense(r, c, nil)
		samplemv.LatinHypercube{Q: q, Src: src}.Sample(batch)
		if src.ni != nint && !drawsReported {
			drawsReported = true
			rp.fail("LatinHypercube: one permutation of the rows per column", fmt.Sprint(idx), "%d integer draws were consumed; %d columns of %d rows need %d", src.ni, c, r, nint)
		}
		key := ""
		for j := 0; j < c; j++ {
			col := make([]byte, r)
			seen := make([]bool, r)
			for i := 0; i < r; i++ {
				u := (batch.At(i, j) - bounds[j].Min) / (bounds[j].Max - bounds[j].Min)
				s := int(math.Floor(u * float64(r)))
				if s < 0 || s >= r || seen[s] {
					if bad < 3 {
						rp.fail("LatinHypercube: each column is a permutation of the strata", fmt.Sprint(idx), "column %d: %v", j, mat.Col(nil, j, batch))
					}
					bad++
					return
				}
				seen[s] = true
				col[i] = byte('0' + s)
			}
			perCol[j][string(col)]++
			key += string(col) + "|"
		}
		joint[key]++
		total++
	})
	t.Count("joint_answer_sequences", int64(total))
	if bad > 0 {
		return
	}
	f := factorial(r)
	for j := 0; j < c; j++ {
		if len(perCol[j]) != f {
			rp.fail("LatinHypercube: every stratum permutation of a column is reachable", fmt.Sprint(j), "%d of %d", len(perCol[j]), f)
		}
	}
	want := 1
	for j := 0; j < c; j++ {
		want *= f
	}
	if len(joint) != want {
		// e.g. one permutation shared by all columns gives r! instead of (r!)^c
		ex := ""
		for k := range joint {
			ex = k
			break
		}
		rp.fail("LatinHypercube: columns are permuted independently", "", "%d distinct (column-1 permutation, ..., column-%d permutation) tuples are reachable over all %d^%d answer sequences of the integer draws; the full product has (%d!)^%d = %d (e.g. reachable: %s)", len(joint), c, K, nint, r, c, want, ex)
	} else {
		for k, n := range joint {
			if n*want != total {
				rp.fail("LatinHypercube: joint assignment uniform", k, "%d of %d sequences, want %d", n, total, total/want)
				break
			}
		}
	}
	// consequence on the CDF scale: the cross moment of the stratum indices of two columns
	// over all outcomes is that of independent uniform permutations (zero covariance)
	t.Outcome(fmt.Sprintf("r=%d c=%d K=%d tuples=%d", r, c, K, len(joint)))
}

// checkLHSReplay: batch[perm[i]] (row perm_j[i] of column j) = Quantile((u + i)/n) with the
// permutations and uniforms drawn in the documented order.
func checkLHSReplay(t *vlib.T) {
	rp := &rep{t: t}
	t.Nontrivial()
	const K = 24
	n := 0
	for seed := 0; seed < 6; seed++ {
		idx := make([]int, 40)
		for i := range idx {
			idx[i] = (seed*11 + i*7 + i*i*3) % K
		}
		for _, r := range []int{1, 2, 3, 5} {
			// univariate
			qu := distuv.Normal{Mu: 1, Sigma: 2}
			batch := make([]float64, r)
			sampleuv.LatinHypercube{Q: qu, Src: newScript(K, idx...)}.Sample(batch)
			ref := rand.New(newScript(K, idx...))
			perm := ref.Perm(r)
			for i := 0; i < r; i++ {
				want := qu.Quantile(ref.Float64()/float64(r) + float64(i)/float64(r))
				if batch[perm[i]] != want {
					rp.fail("sampleuv.LatinHypercube = definition", fmt.Sprintf("seed=%d r=%d", seed, r), "batch[%d]=%v want %v", perm[i], batch[perm[i]], want)
				}
			}
			n++
			for _, c := range []int{1, 2, 3} {
				qm := distmv.NewUnitUniform(c, nil)
				b := mat.NewDense(r, c, nil)
				samplemv.LatinHypercube{Q: qm, Src: newScript(K, idx...)}.Sample(b)
				ref := rand.New(newScript(K, idx...))
				for j := 0; j < c; j++ {
					p := ref.Perm(r) // a fresh permutation for every dimension
					for i := 0; i < r; i++ {
						want := ref.Float64()/float64(r) + float64(i)/float64(r)
						if b.At(p[i], j) != want {
							rp.fail("samplemv.LatinHypercube = definition", fmt.Sprintf("seed=%d r=%d c=%d", seed, r, c), "element (%d,%d)=%v want %v", p[i], j, b.At(p[i], j), want)
						}
					}
				}
				n++
			}
		}
	}
	t.Count("replays", int64(n))
	t.Outcome("lhs replay")
}

// checkIIDProduct: n samples of a d-dimensional product law consume n*d uniform draws; over all
// K^(n d) answer sequences every batch is distinct (no variate is reused or skipped) and
// element (i,j) is the stratum midpoint of draw i*d+j.
func checkIIDProduct(t *vlib.T) {
	rp := &rep{t: t}
	t.Nontrivial()
	const K = 4
	a := getAlphabet(K)
	total := 0
	for _, sh := range [][2]int{{1, 2}, {2, 2}, {3, 2}, {2, 3}} {
		n, d := sh[0], sh[1]
		bounds := make([]r1.Interval, d)
		for j := range bounds {
			bounds[j] = r1.Interval{Min: float64(j), Max: float64(j) + 2}
		}
		seen := map[string]bool{}
		bad := 0
		odometer(K, n*d, func(idx []int) {
			src := newScript(K, idx...)
			b := mat.NewDense(n, d, nil)
			samplemv.IID{Dist: distmv.NewUniform(bounds, src)}.Sample(b)
			for i := 0; i < n; i++ {
				for j := 0; j < d; j++ {
					want := bounds[j].Min + unifOf(a.u[kindUnif][idx[i*d+j]])*2
					if b.At(i, j) != want && bad < 3 {
						bad++
						rp.fail("IID: element (i,j) comes from draw i*d+j", fmt.Sprintf("n=%d d=%d %v", n, d, idx), "(%d,%d)=%v want %v", i, j, b.At(i, j), want)
					}
				}
			}
			seen[fmt.Sprint(b.RawMatrix().Data)] = true
			total++
		})
		want := 1
		for i := 0; i < n*d; i++ {
			want *= K
		}
		if len(seen) != want {
			rp.fail("IID: full product of outcomes", fmt.Sprintf("n=%d d=%d", n, d), "%d distinct batches over %d answer sequences", len(seen), want)
		}
	}
	t.Count("joint_answer_sequences", int64(total))
	t.Outcome("iid product")
}

// checkMVRandReplay: for the Cholesky-based samplers L^-1 (x - mu) (scaled by sqrt(u/nu) for
// Student's t, u the chi-squared variate drawn after the normals) equals the vector of normal
// answers componentwise.
func checkMVRandReplay(t *vlib.T) {
	rp := &rep{t: t}
	t.Nontrivial()
	const K = 8
	a := getAlphabet(K)
	total := 0
	for _, c := range mvCases() {
		n := c.sigma.n
		if n < 2 {
			continue
		}
		l := c.sigma.chol()
		cond := c.sigma.condEst()
		whiten := func(x []float64, s float64) []float64 {
			z := make([]float64, n)
			for i := 0; i < n; i++ {
				v := x[i] - c.mu[i]
				for k := 0; k < i; k++ {
					v -= l.a[i][k] * z[k] / s
				}
				z[i] = v / l.a[i][i] * s
			}
			return z
		}
		bad := 0
		odometer(K, n, func(idx []int) {
			want := make([]float64, n)
			for i := range want {
				want[i], _ = normOf(a.u[kindNorm][idx[i]])
			}
			d, _ := distmv.NewNormal(c.mu, c.sigma.sym(), newScript(K, idx...))
			z := whiten(d.Rand(nil), 1)
			for i := range z {
				if !closeRA(math.Abs(z[i]), math.Abs(want[i]), 1e-10*cond, 1e-11*cond) && bad < 3 {
					bad++
					rp.fail("Normal.Rand: L^-1(x-mu) = normal answers", fmt.Sprintf("%s %v", c.name, idx), "component %d: %v want %v", i, z[i], want[i])
				}
			}
			for _, nu := range []float64{0.5, 3, 50} {
				src := newScript(K, idx...)
				st, _ := distmv.NewStudentsT(c.mu, c.sigma.sym(), nu, src)
				x := st.Rand(nil)
				// replay: the normals first, then one chi-squared(nu) variate from the same source
				ref := newScript(K, idx...)
				rr := rand.New(ref)
				for i := 0; i < n; i++ {
					rr.NormFloat64()
				}
				u := distuv.ChiSquared{K: nu, Src: ref}.Rand()
				s := math.Sqrt(u / nu)
				// whiten x - mu = sqrt(nu/u) L z
				zz := make([]float64, n)
				for i := 0; i < n; i++ {
					v := (x[i] - c.mu[i]) * s
					for k := 0; k < i; k++ {
						v -= l.a[i][k] * zz[k]
					}
					zz[i] = v / l.a[i][i]
				}
				for i := range zz {
					if !closeRA(math.Abs(zz[i]), math.Abs(want[i]), 1e-9*cond, 1e-10*cond) && bad < 3 {
						bad++
						rp.fail("StudentsT.Rand: sqrt(u/nu) L^-1(x-mu) = normal answers", fmt.Sprintf("%s nu=%g %v", c.name, nu, idx), "component %d: %v want %v (u=%v)", i, zz[i], want[i], u)
					}
				}
			}
			total++
		})
	}
	t.Count("joint_answer_sequences", int64(total))
	t.Outcome("mv rand replay")
}

func checkDirichletReplay(t *vlib.T) {
	rp := &rep{t: t}
	t.Nontrivial()
	const K = 8
	total := 0
	for _, al := range [][]float64{{1, 1}, {0.3, 2.5}, {2.5, 1, 5}, {0.5, 0.3, 2}, {5, 1, 0.15, 2}} {
		bad := 0
		odometer(K, 3, func(idx []int) {
			x := distmv.NewDirichlet(al, newScript(K, idx...)).Rand(nil)
			ref := newScript(K, idx...)
			g := make([]float64, len(al))
			s := 0.0
			for i, a := range al {
				g[i] = distuv.Gamma{Alpha: a, Beta: 1, Src: ref}.Rand()
				s += g[i]
			}
			for i := range x {
				if !closeRA(x[i], g[i]/s, 1e-14, 1e-300) && bad < 3 {
					bad++
					rp.fail("Dirichlet.Rand: x_i = g_i / sum g, g_i ~ Gamma(alpha_i) drawn in order", fmt.Sprintf("alpha=%v %v", al, idx), "x[%d]=%v want %v", i, x[i], g[i]/s)
				}
			}
			total++
		})
	}
	t.Count("joint_answer_sequences", int64(total))
	t.Outcome("dirichlet replay")
}

func checkWishartReplay(t *vlib.T) {
	rp := &rep{t: t}
	t.Nontrivial()
	const K = 8
	total := 0
	vm := smatFrom(2, []float64{2, 0.6}, []float64{0.6, 0.5})
	l := vm.chol() // V = L L', upper factor U = L'
	for _, nu := range []float64{1.5, 3, 5.5, 50} {
		bad := 0
		odometer(K, 3, func(idx []int) {
			w, _ := distmat.NewWishart(vm.sym(), nu, newScript(K, idx...))
			var x mat.SymDense
			w.RandSymTo(&x)
			// Bartlett: T upper triangular with t_ii^2 ~ chi2(nu - i) (drawn first, in order), then the
			// off-diagonal standard normals row by row; X = (T U)'(T U)
			ref := newScript(K, idx...)
			c0 := distuv.ChiSquared{K: nu, Src: ref}.Rand()
			c1 := distuv.ChiSquared{K: nu - 1, Src: ref}.Rand()
			n01 := distuv.Normal{Mu: 0, Sigma: 1, Src: ref}.Rand()
			u := [2][2]float64{{l.a[0][0], l.a[1][0]}, {0, l.a[1][1]}}
			// (the sign of the normal variate is immaterial for the law: accept either)
			ok := false
			var tu [2][2]float64
			for _, sg := range []float64{1, -1} {
				tm := [2][2]float64{{math.Sqrt(c0), sg * n01}, {0, math.Sqrt(c1)}}
				tu = [2][2]float64{}
				for i := 0; i < 2; i++ {
					for j := 0; j < 2; j++ {
						for k := 0; k < 2; k++ {
							tu[i][j] += tm[i][k] * u[k][j]
						}
					}
				}
				all := true
				for i := 0; i < 2; i++ {
					for j := 0; j < 2; j++ {
						if !closeRA(x.At(i, j), tu[0][i]*tu[0][j]+tu[1][i]*tu[1][j], 1e-12, 1e-300) {
							all = false
						}
					}
				}
				ok = ok || all
			}
			if !ok && bad < 3 {
				bad++
				rp.fail("Wishart.RandSymTo = Bartlett construction", fmt.Sprintf("nu=%g %v", nu, idx), "X=%v is not (TU)'(TU) with t00^2=%v t11^2=%v t01=+-%v", x.RawSymmetric().Data, c0, c1, n01)
			}
			total++
		})
	}
	t.Count("joint_answer_sequences", int64(total))
	t.Outcome("wishart replay")
}

func checkUnitVectorReplay(t *vlib.T) {
	rp := &rep{t: t}
	t.Nontrivial()
	const K = 8
	a := getAlphabet(K)
	total := 0
	for d := 1; d <= 4; d++ {
		bad := 0
		odometer(K, d, func(idx []int) {
			v := mat.NewVecDense(d, nil)
			distmat.NewUnitVector(newScript(K, idx...)).UnitVecTo(v)
			z := make([]float64, d)
			nn := 0.0
			for i := range z {
				z[i], _ = normOf(a.u[kindNorm][idx[i]])
				nn += z[i] * z[i]
			}
			nn = math.Sqrt(nn)
			for i := range z {
				if !closeRA(math.Abs(v.AtVec(i)), math.Abs(z[i])/nn, 1e-14, 1e-300) && bad < 3 {
					bad++
					rp.fail("UnitVecTo = z/|z|", fmt.Sprintf("d=%d %v", d, idx), "component %d: %v want %v", i, v.AtVec(i), z[i]/nn)
				}
			}
			total++
		})
	}
	t.Count("joint_answer_sequences", int64(total))
	t.Outcome("unit vector replay")
}

// checkWeightedJoint: the probability of the whole order (i1, i2, ..., in) of takes is
// prod_k w_ik / (remaining weight); over all K^n answer sequences each order is seen on that
// share of them up to n/K (one stratum boundary per draw).
func checkWeightedJoint(t *vlib.T) {
	rp := &rep{t: t}
	t.Nontrivial()
	const K = 32
	total := 0
	for _, w := range [][]float64{{1, 1}, {1, 2, 3}, {3, 1, 1, 1}, {0.5, 0, 2, 1.5}} {
		n := 0
		for _, v := range w {
			if v > 0 {
				n++
			}
		}
		if n > 3 {
			n = 3 // the first three takes
		}
		counts := map[string]float64{}
		odometer(K, n, func(idx []int) {
			s := sampleuv.NewWeighted(w, newScript(K, idx...))
			key := ""
			for k := 0; k < n; k++ {
				i, _ := s.Take()
				key += fmt.Sprint(i) + ","
			}
			counts[key]++
			total++
		})
		tot := math.Pow(K, float64(n))
		// every order of distinct positive-weight indices
		var rec func(prefix []int, rem []float64, p float64)
		keys := []string{}
		probs := map[string]float64{}
		rec = func(prefix []int, rem []float64, p float64) {
			if len(prefix) == n {
				k := ""
				for _, i := range prefix {
					k += fmt.Sprint(i) + ","
				}
				keys = append(keys, k)
				probs[k] = p
				return
			}
			r := sum(rem)
			for i, v := range rem {
				if v > 0 {
					nr := append([]float64(nil), rem...)
					nr[i] = 0
					rec(append(append([]int(nil), prefix...), i), nr, p*v/r)
				}
			}
		}
		rec(nil, w, 1)
		sort.Strings(keys)
		for _, k := range keys {
			if math.Abs(counts[k]/tot-probs[k]) > float64(n)/K+1e-12 {
				rp.fail("Weighted: law of the order of takes", fmt.Sprintf("w=%v order=%s", w, k), "seen on %v of the answer sequences, probability %v", counts[k]/tot, probs[k])
			}
			delete(counts, k)
		}
		for k := range counts {
			rp.fail("Weighted: impossible order", fmt.Sprintf("w=%v", w), "order %s was produced", k)
		}
	}
	t.Count("joint_answer_sequences", int64(total))
	t.Outcome("weighted joint")
}
