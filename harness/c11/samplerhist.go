package main

import (
	"fmt"
	"math"

	"gonum.org/v1/gonum/internal/verif/vlib"
	"gonum.org/v1/gonum/mat"
	"gonum.org/v1/gonum/stat/distmv"
	"gonum.org/v1/gonum/stat/distuv"
	"gonum.org/v1/gonum/stat/samplemv"
	"gonum.org/v1/gonum/stat/sampleuv"
)

// Sampler call histories (group histories): one sampler object is REUSED for a sequence of Sample
// calls that succeed, fail (acceptance constant too small: NaN batch, ErrRejection) or are
// rejected with a panic (C < 1). After every call the batch and the per-call status accessors
// (Err, Proposed) must be those of a FRESH sampler that makes only this call with the same answers
// of the random source: "Err returns nil if the most recent call to sample was successful".
// (After a panicking call the accessors are a don't-care, see NOTES; the batch must be untouched
// and the NEXT call must again look like a fresh one.)

// rejCall is one letter of the alphabet.
type rejCall struct {
	name  string
	c     float64
	n     int // batch length (rows)
	seed  int
	panic bool
}

type rejOutcome struct {
	batch    []float64
	err      error
	proposed int
}

func sameBatch(a, b []float64) bool { return bitsEq(a, b) }

func rejScript(seed int) *gridSrc {
	idx := make([]int, 40)
	for i := range idx {
		idx[i] = (seed*11 + i*7 + i*i*3) % 64
	}
	return newScript(64, idx...)
}

func genSamplerHistories(gen *vlib.G) {
	gen.Case("sampler call histories: sampleuv.Rejection", func(t *vlib.T) { checkRejectionHistories(t, false) })
	gen.Case("sampler call histories: samplemv.Rejection", func(t *vlib.T) { checkRejectionHistories(t, true) })
	gen.Case("sampler call histories: reused stateless samplers", checkReusedSamplers)
}

func checkRejectionHistories(t *vlib.T, mv bool) {
	r := &rep{t: t}
	t.Nontrivial()
	who := "sampleuv.Rejection"
	if mv {
		who = "samplemv.Rejection"
	}
	// target N(0.5, 1) (mv: a correlated normal), proposal N(0, 2^2): sup p/q is about 2.1 (mv: 5.8)
	targetU := distuv.Normal{Mu: 0.5, Sigma: 1}
	targetM, _ := distmv.NewNormal([]float64{0.5, -0.25}, mat.NewSymDense(2, []float64{1, 0.3, 0.3, 0.5}), nil)
	wide2 := mat.NewSymDense(2, []float64{4, 0, 0, 4})

	var uvObj *sampleuv.Rejection
	var mvObj *samplemv.Rejection
	// run performs the call on the given object (nil: a fresh one) and reports what the caller sees
	run := func(c rejCall, reuse bool) (out rejOutcome, pan any) {
		src := rejScript(c.seed)
		if !mv {
			obj := &sampleuv.Rejection{}
			if reuse {
				obj = uvObj
			}
			obj.C, obj.Target, obj.Proposal, obj.Src = c.c, targetU, distuv.Normal{Mu: 0, Sigma: 2, Src: src}, src
			b := make([]float64, c.n)
			for i := range b {
				b[i] = 0.75
			}
			pan = catch(func() { obj.Sample(b) })
			return rejOutcome{b, obj.Err(), obj.Proposed()}, pan
		}
		obj := &samplemv.Rejection{}
		if reuse {
			obj = mvObj
		}
		prop, _ := distmv.NewNormal([]float64{0, 0}, wide2, src)
		obj.C, obj.Target, obj.Proposal, obj.Src = c.c, targetM, prop, src
		b := mat.NewDense(c.n, 2, nil)
		for i := 0; i < c.n; i++ {
			b.Set(i, 0, 0.75)
			b.Set(i, 1, 0.75)
		}
		pan = catch(func() { obj.Sample(b) })
		return rejOutcome{denseFlat(b), obj.Err(), obj.Proposed()}, pan
	}
	errU, errM := error(sampleuv.ErrRejection), error(samplemv.ErrRejection)
	wantErr := errU
	if mv {
		wantErr = errM
	}
	calls := []rejCall{
		{"success(C=20,n=3)", 20, 3, 1, false},
		{"success(C=50,n=1)", 50, 1, 4, false},
		{"failure(C=1,n=3)", 1, 3, 2, false},
		{"failure(C=1.05,n=2)", 1.05, 2, 5, false},
		{"panic(C=0.5)", 0.5, 2, 3, true},
	}
	// the letters are what they say on a fresh object
	fresh := make([]rejOutcome, len(calls))
	for i, c := range calls {
		out, pan := run(c, false)
		fresh[i] = out
		switch {
		case c.panic:
			if pan == nil {
				r.fail("sampler history alphabet", who+" "+c.name, "no panic")
				return
			}
		case pan != nil:
			r.fail("sampler history alphabet", who+" "+c.name, "panics: %v", pan)
			return
		case c.c >= 20:
			if out.err != nil || out.proposed < c.n || math.IsNaN(out.batch[0]) {
				r.fail("sampler history alphabet", who+" "+c.name, "expected a successful call: %+v", out)
				return
			}
		default:
			if out.err != wantErr || !math.IsNaN(out.batch[0]) {
				r.fail("sampler history alphabet", who+" "+c.name, "expected a failing call (ErrRejection, NaN batch): %+v", out)
				return
			}
		}
	}
	nh, ncalls := 0, 0
	radices := []int{}
	for depth := 1; depth <= 3; depth++ {
		radices = append(radices, len(calls))
		vlib.Product(radices, func(ix []int) bool {
			uvObj, mvObj = &sampleuv.Rejection{}, &samplemv.Rejection{}
			arg := who
			for _, k := range ix {
				c := calls[k]
				arg += " " + c.name
				out, pan := run(c, true)
				ncalls++
				if c.panic {
					if pan == nil {
						r.fail("sampler history: C < 1 must panic", arg, "no panic")
						return false
					}
					if !sameBatch(out.batch, fresh[k].batch) {
						r.fail("sampler history: rejected call must not write to the batch", arg, "%v", out.batch)
					}
					continue // Err/Proposed after a panicking call: don't-care
				}
				if pan != nil {
					r.fail("sampler history", arg, "panics: %v", pan)
					return false
				}
				if !sameBatch(out.batch, fresh[k].batch) {
					r.fail("sampler history: batch = batch of a fresh sampler making this call", arg, "%v want %v", out.batch, fresh[k].batch)
				}
				if out.err != fresh[k].err {
					r.fail("sampler history: Err describes the most recent call", arg, "Err()=%v, a fresh sampler making this call reports %v", out.err, fresh[k].err)
				}
				if out.proposed != fresh[k].proposed {
					r.fail("sampler history: Proposed describes the most recent call", arg, "Proposed()=%d, a fresh sampler making this call reports %d", out.proposed, fresh[k].proposed)
				}
			}
			nh++
			return true
		})
	}
	t.Count("sampler_histories", int64(nh))
	t.Count("sampler_history_calls", int64(ncalls))
	t.Outcome(who)
}

// checkReusedSamplers: the samplers without status accessors are values; one value used for two
// calls (different batch sizes and answers) gives on the second call what a fresh one gives, and
// the slices it holds (Initial) are not written ("The initial location is NOT updated").
func checkReusedSamplers(t *vlib.T) {
	r := &rep{t: t}
	t.Nontrivial()
	targetM, _ := distmv.NewNormal([]float64{0.5, -0.25}, mat.NewSymDense(2, []float64{1, 0.3, 0.3, 0.5}), nil)
	n := 0
	type mvRun func(b *mat.Dense, src *gridSrc)
	initial := []float64{0.1, 0.2}
	propMV := &arProposalMV{steps: mhSteps}
	mh := samplemv.MetropolisHastingser{Initial: initial, Target: targetM, Proposal: propMV, BurnIn: 2, Rate: 2}
	lhs := samplemv.LatinHypercube{Q: distmv.NewUnitUniform(2, nil)}
	hal := samplemv.Halton{Kind: samplemv.Owen, Q: distmv.NewUnitUniform(2, nil)}
	mvs := map[string][2]mvRun{
		"samplemv.MetropolisHastingser": {
			func(b *mat.Dense, src *gridSrc) { propMV.k = 0; mh.Src = src; mh.Sample(b) },
			func(b *mat.Dense, src *gridSrc) {
				samplemv.MetropolisHastingser{Initial: []float64{0.1, 0.2}, Target: targetM, Proposal: &arProposalMV{steps: mhSteps}, Src: src, BurnIn: 2, Rate: 2}.Sample(b)
			}},
		"samplemv.LatinHypercube": {
			func(b *mat.Dense, src *gridSrc) { lhs.Src = src; lhs.Sample(b) },
			func(b *mat.Dense, src *gridSrc) {
				samplemv.LatinHypercube{Q: distmv.NewUnitUniform(2, nil), Src: src}.Sample(b)
			}},
		"samplemv.Halton": {
			func(b *mat.Dense, src *gridSrc) { hal.Src = src; hal.Sample(b) },
			func(b *mat.Dense, src *gridSrc) {
				samplemv.Halton{Kind: samplemv.Owen, Q: distmv.NewUnitUniform(2, nil), Src: src}.Sample(b)
			}},
	}
	for _, name := range vlib.SortedKeys(mvs) {
		pair := mvs[name]
		for _, sizes := range [][2]int{{3, 2}, {1, 4}, {4, 4}} {
			first := mat.NewDense(sizes[0], 2, nil)
			pair[0](first, rejScript(1))
			second := mat.NewDense(sizes[1], 2, nil)
			pair[0](second, rejScript(6))
			want := mat.NewDense(sizes[1], 2, nil)
			pair[1](want, rejScript(6))
			n++
			if !bitsEq(denseFlat(second), denseFlat(want)) {
				r.fail("second call on a reused sampler = call on a fresh sampler", fmt.Sprintf("%s sizes %v", name, sizes), "%v want %v", denseFlat(second), denseFlat(want))
			}
		}
	}
	if !bitsEq(initial, []float64{0.1, 0.2}) {
		r.fail("MetropolisHastingser must not update Initial", "samplemv", "%v", initial)
	}
	// uv
	propUV := &arProposal{steps: mhSteps}
	target := distuv.Laplace{Mu: 0.3, Scale: 1}
	mhu := sampleuv.MetropolisHastings{Initial: 0.1, Target: target, Proposal: propUV, BurnIn: 2, Rate: 2}
	lhu := sampleuv.LatinHypercube{Q: distuv.Uniform{Min: 0, Max: 1}}
	type uvRun func(b []float64, src *gridSrc)
	uvs := map[string][2]uvRun{
		"sampleuv.MetropolisHastings": {
			func(b []float64, src *gridSrc) { propUV.k = 0; mhu.Src = src; mhu.Sample(b) },
			func(b []float64, src *gridSrc) {
				sampleuv.MetropolisHastings{Initial: 0.1, Target: target, Proposal: &arProposal{steps: mhSteps}, Src: src, BurnIn: 2, Rate: 2}.Sample(b)
			}},
		"sampleuv.LatinHypercube": {
			func(b []float64, src *gridSrc) { lhu.Src = src; lhu.Sample(b) },
			func(b []float64, src *gridSrc) {
				sampleuv.LatinHypercube{Q: distuv.Uniform{Min: 0, Max: 1}, Src: src}.Sample(b)
			}},
	}
	for _, name := range vlib.SortedKeys(uvs) {
		pair := uvs[name]
		for _, sizes := range [][2]int{{3, 2}, {1, 4}, {4, 4}} {
			pair[0](make([]float64, sizes[0]), rejScript(1))
			second := make([]float64, sizes[1])
			pair[0](second, rejScript(6))
			want := make([]float64, sizes[1])
			pair[1](want, rejScript(6))
			n++
			if !bitsEq(second, want) {
				r.fail("second call on a reused sampler = call on a fresh sampler", fmt.Sprintf("%s sizes %v", name, sizes), "%v want %v", second, want)
			}
		}
	}
	if mhu.Initial != 0.1 {
		r.fail("MetropolisHastings must not update Initial", "sampleuv", "%v", mhu.Initial)
	}
	t.Count("sampler_history_calls", int64(2*n))
	t.Outcome("reused samplers")
}
