package main

import (
	"math"
	"math/rand/v2"
	"runtime"
	"sort"
	"strings"
	"sync"
)

// The random source is an environment. A sampler talks to it only through
// rand.Source.Uint64, and math/rand/v2 turns one answer into a uniform variate
// (Float64: low 53 bits), an exponential or a normal variate (ExpFloat64 /
// NormFloat64: ziggurat, position = bits 0..31, layer = bits 32..39) or an
// integer (uint64n: high bits of a product, low bits for powers of two). The
// environment answers each *primitive draw* from a K-point stratified alphabet
// of that primitive's law: the k-th answer makes Float64 return (k+1/2)/K and
// ExpFloat64 / NormFloat64 return (a value within 0.05/K in probability of) the
// (k+1/2)/K quantile of Exp(1) / N(0,1). Which primitive asks is read off the
// call stack (the call site of Source.Uint64 inside math/rand/v2, cached per
// PC). The exponential and normal alphabets are built black-box by bisection
// on the position bits for trial layers, calling the real math/rand/v2 code,
// and are verified by the rand-alphabet self-check group.

const (
	kindUnif = iota
	kindExp
	kindNorm
	kindInt // IntN, Perm, Shuffle, raw Uint64
	nKinds
)

type alphabet struct {
	K int
	u [nKinds][]uint64
}

// splitmix64 continuation stream: answers after the enumerated prefix.
type splitmix struct{ s uint64 }

func (s *splitmix) next() uint64 {
	s.s += 0x9E3779B97F4A7C15
	z := s.s
	z = (z ^ (z >> 30)) * 0xBF58476D1CE4E5B9
	z = (z ^ (z >> 27)) * 0x94D049BB133111EB
	return z ^ (z >> 31)
}

// oneSrc answers u first and then a fixed continuation stream; it counts draws.
type oneSrc struct {
	u    uint64
	n    int
	cont splitmix
}

func (s *oneSrc) Uint64() uint64 {
	s.n++
	if s.n == 1 {
		return s.u
	}
	return s.cont.next()
}

func expOf(u uint64) (float64, int) {
	s := &oneSrc{u: u, cont: splitmix{u}}
	v := rand.New(s).ExpFloat64()
	return v, s.n
}

func normOf(u uint64) (float64, int) {
	s := &oneSrc{u: u, cont: splitmix{u}}
	v := rand.New(s).NormFloat64()
	return v, s.n
}

func unifOf(u uint64) float64 {
	s := &oneSrc{u: u, cont: splitmix{u}}
	return rand.New(s).Float64()
}

func expCDF(x float64) float64  { return -math.Expm1(-x) }
func normCDF(x float64) float64 { return 0.5 * math.Erfc(-x/math.Sqrt2) }

var (
	alphaMu    sync.Mutex
	alphaCache = map[int]*alphabet{}
	// call site of Source.Uint64 -> primitive kind. Case bodies run sequentially in
	// one goroutine, so a small linear cache without locking is enough.
	pcCache [32]struct {
		key  [3]uintptr
		kind int
	}
	pcCacheN int
)

// callerKind classifies the math/rand/v2 primitive that is asking Source.Uint64
// for an answer: the innermost of Float64 / ExpFloat64 / NormFloat64 on the call
// stack above the source (a uniform drawn inside the slow path of ExpFloat64 is a
// uniform draw); anything else (IntN, Perm, Shuffle, a raw Uint64) is an integer draw.
func callerKind() int {
	var key [3]uintptr
	n := runtime.Callers(3, key[:])
	if n == 0 {
		return kindInt
	}
	for i := 0; i < pcCacheN; i++ {
		if pcCache[i].key == key {
			return pcCache[i].kind
		}
	}
	kind := kindInt
	frames := runtime.CallersFrames(key[:n])
	for {
		fr, more := frames.Next()
		if !strings.Contains(fr.Function, "math/rand/v2.") {
			break
		}
		if strings.HasSuffix(fr.Function, "rand/v2.(*Rand).Float64") {
			kind = kindUnif
			break
		}
		if strings.HasSuffix(fr.Function, "rand/v2.(*Rand).ExpFloat64") {
			kind = kindExp
			break
		}
		if strings.HasSuffix(fr.Function, "rand/v2.(*Rand).NormFloat64") {
			kind = kindNorm
			break
		}
		if !more {
			break
		}
	}
	if pcCacheN < len(pcCache) {
		pcCache[pcCacheN].key, pcCache[pcCacheN].kind = key, kind
		pcCacheN++
	}
	return kind
}

// getAlphabet returns the (cached, immutable) alphabet with K answers per primitive.
func getAlphabet(K int) *alphabet {
	alphaMu.Lock()
	defer alphaMu.Unlock()
	if a, ok := alphaCache[K]; ok {
		return a
	}
	a := buildAlphabet(K)
	alphaCache[K] = a
	return a
}

func buildAlphabet(K int) *alphabet {
	a := &alphabet{K: K}
	for i := range a.u {
		a.u[i] = make([]uint64, K)
	}
	for k := 0; k < K; k++ {
		t := (float64(k) + 0.5) / float64(K)
		// uniform: Float64 = low 53 bits / 2^53 = t up to 2^-53
		a.u[kindUnif][k] = uint64(t * (1 << 53))
		// integers: the high bits are the stratum (Lemire reduction uses them), the
		// low bits repeat k (power-of-two reductions mask the low bits)
		a.u[kindInt][k] = (uint64(t*(1<<32))<<32)&^(1<<20-1) | uint64(k)
		xe := -math.Log1p(-t)
		lo, hi := -9.0, 9.0
		for i := 0; i < 80; i++ {
			m := (lo + hi) / 2
			if normCDF(m) < t {
				lo = m
			} else {
				hi = m
			}
		}
		xn := (lo + hi) / 2
		a.u[kindExp][k] = fitZiggurat(k, K, t, xe, false, expOf, expCDF)
		a.u[kindNorm][k] = fitZiggurat(k, K, t, xn, xn < 0, normOf, normCDF)
	}
	return a
}

// fitZiggurat searches layer and position bits such that the primitive returns,
// in one draw, the value closest to the target x.
func fitZiggurat(k, K int, t, x float64, neg bool, of func(uint64) (float64, int), cdf func(float64) float64) uint64 {
	bestErr := math.Inf(1)
	var bestU uint64
	mk := func(layer uint64, a uint32) uint64 {
		j := a
		if neg {
			j = uint32(-int32(a))
		}
		return layer<<32 | uint64(j)
	}
	top := uint32(1<<32 - 1)
	if cdf(-1) > 0 { // normal: |j| < 2^31
		top = 1<<31 - 1
	}
	for trial := 0; trial < 256; trial++ {
		layer := uint64((k*37 + trial*101 + 1) & 0xFF)
		var al, ah uint32 = 0, top
		for al < ah {
			m := al + (ah-al)/2 + 1
			v, n := of(mk(layer, m))
			if n == 1 && math.Abs(v) <= math.Abs(x) {
				al = m
			} else {
				ah = m - 1
			}
		}
		cand := []uint32{al}
		if al < top {
			cand = append(cand, al+1)
		}
		for _, c := range cand {
			u := mk(layer, c)
			v, n := of(u)
			e := math.Abs(cdf(v) - t)
			if n != 1 {
				e += 1
			}
			if e < bestErr {
				bestErr, bestU = e, u
			}
		}
		if bestErr <= 0.05/float64(K) {
			break
		}
	}
	if bestErr > 0.6/float64(K) {
		// beyond the last ziggurat layer: answer with the base strip's tail case; the
		// tail variate is then drawn from the next answers (continuation stream).
		bestU = mk(0, top)
	}
	return bestU
}

// ksPoints is the Kolmogorov distance between the weighted empirical law of
// (v,w) (weights summing to 1) and cdf; atoms of cdf are handled by comparing
// only the right-continuous values when discrete is set.
func ksPoints(v, w []float64, cdf func(float64) float64, discrete bool) (d float64, at float64) {
	idx := make([]int, len(v))
	for i := range idx {
		idx[i] = i
	}
	sort.Slice(idx, func(a, b int) bool { return v[idx[a]] < v[idx[b]] })
	cum := 0.0
	for i := 0; i < len(idx); {
		x := v[idx[i]]
		before := cum
		for i < len(idx) && v[idx[i]] == x {
			cum += w[idx[i]]
			i++
		}
		f := cdf(x)
		e := math.Abs(f - cum)
		if !discrete {
			e = math.Max(e, math.Abs(f-before))
		} else if x-1 >= 0 {
			// the law may have mass on integers no path produced
			e = math.Max(e, math.Abs(cdf(x-1)-before))
		}
		if e > d || math.IsNaN(e) {
			d, at = e, x
			if math.IsNaN(e) {
				return math.NaN(), x
			}
		}
	}
	return d, at
}

// gridSrc is the enumerated environment of one path: the first len(idx)
// answers come from the alphabet, later ones from a continuation stream seeded
// by the path, up to a cap on the number of draws.
type gridSrc struct {
	a     *alphabet
	idx   []int
	n     int
	cont  splitmix
	limit int
	// kinds[j] caches which primitive consumes answer j (-1 unknown). The sampler is
	// deterministic, so it depends only on idx[:j]; enumeratePaths keeps the entries
	// of the unchanged prefix between consecutive paths (the stack walk is the hot spot).
	kinds []int8
}

type capExceeded struct{}

func (s *gridSrc) Uint64() uint64 {
	s.n++
	if s.n > s.limit {
		panic(capExceeded{})
	}
	if s.n <= len(s.idx) {
		j := s.n - 1
		if s.kinds == nil {
			return s.a.u[callerKind()][s.idx[j]]
		}
		if s.kinds[j] < 0 {
			s.kinds[j] = int8(callerKind())
		}
		return s.a.u[s.kinds[j]][s.idx[j]]
	}
	return s.cont.next()
}

func pathSeed(idx []int) uint64 {
	h := uint64(0xcbf29ce484222325)
	for _, i := range idx {
		h ^= uint64(i) + 0x9E3779B97F4A7C15
		h *= 0x100000001b3
	}
	return h
}

// enumeratePaths runs body for every sequence of alphabet answers of length
// <= depth that the sampler actually consumes: when a run consumed only c < depth
// enumerated answers, all sequences sharing that prefix are the same path and
// are visited once with weight K^-c.
func enumeratePaths(a *alphabet, depth, drawCap int, body func(src *gridSrc) (ok bool), visit func(weight float64, draws int)) (paths int64) {
	K := a.K
	idx := make([]int, depth)
	kinds := make([]int8, depth)
	for j := range kinds {
		kinds[j] = -1
	}
	for {
		src := &gridSrc{a: a, idx: idx, cont: splitmix{pathSeed(idx)}, limit: drawCap, kinds: kinds}
		ok := body(src)
		used := src.n
		if used > depth {
			used = depth
		}
		if used == 0 {
			used = 0
		}
		paths++
		if ok {
			visit(math.Pow(float64(K), -float64(used)), src.n)
		} else {
			visit(-math.Pow(float64(K), -float64(used)), src.n)
		}
		// advance the digit at position used-1 (skip the unused suffix)
		pos := used - 1
		if pos < 0 {
			return paths // the sampler consumed nothing: a single path
		}
		for j := pos + 1; j < depth; j++ {
			idx[j] = 0
			kinds[j] = -1 // the answer at position pos changes: later askers may differ
		}
		for pos >= 0 {
			idx[pos]++
			if idx[pos] < K {
				break
			}
			idx[pos] = 0
			pos--
		}
		if pos < 0 {
			return paths
		}
		for j := pos + 1; j < depth; j++ {
			kinds[j] = -1 // a carry changed the answer at position pos
		}
	}
}
