//go:build !noasm

package main

const noasmBuild = false
