package main

import (
	"fmt"
	"math"
	"reflect"
	"sort"
	"strings"

	"gonum.org/v1/gonum/internal/verif/vlib"
)

// Fixed tolerances of the uv-identities group (see NOTES.md).
// uvPoint is one argument of the grid with its origin tag.
type uvPoint struct {
	x   float64
	tag string
}

// quantSlack is the rounding noise allowed in the monotonicity of Quantile: iterative
// inverses and piecewise rational approximations are not monotone at the last bits
// (e.g. NormalQuantile across |p-1/2| = 0.425, InvRegIncBeta for p one ulp apart).
func quantSlack(a, b float64) float64 { return tolMonoQuant * (math.Abs(a) + math.Abs(b)) }

const (
	tolMonoQuant     = 1e-12 // relative noise allowed in "Quantile non-decreasing"
	tolMonoCDF       = 1e-13 // relative noise allowed in "CDF non-decreasing"
	momMargin        = 0.25
	tolQInvBetaUpper = 2e-7  // see chk in continuous()
	tolQInvTail      = 1e-6  // far-tail quantile points: |CDF(Quantile(p))-p| <= 1e-6*min(p,1-p) replaces the absolute 1e-12
	tolSurvRel       = 1e-9  // |S+C-1| <= tolSurvRel*min(S,C) + tolSurvAbs
	tolSurvAbs       = 1e-15 //
	tolProbExp       = 1e-12 // Prob vs exp(LogProb), relative
	tolCellAbs       = 1e-7  // CDF(b)-CDF(a) vs quadrature, absolute (continuous)
	tolCellRel       = 1e-7  //   ... plus relative to the cell probability
	tolMassAbs       = 1e-7  // total mass vs 1
	tolPMF           = 1e-10 // discrete: CDF(k)-CDF(k-1) vs Prob(k), absolute
	tolQInvRel       = 1e-8  // |CDF(Quantile(p))-p| <= tolQInvRel*min(p,1-p) + tolQInvAbs
	tolQInvAbs       = 1e-12
	tolMoment        = 1e-6 // closed-form moments vs quadrature: relative, plus absolute tolMoment*scale
	tolStdDev        = 1e-12
	tolMedian        = 1e-9
	tolModeRel       = 1e-9
	tolScoreRel      = 1e-5
	tolScoreAbs      = 1e-5 // times 1/scale of the parameter
	modeGridN        = 2000
	fitN             = 400
	tolFitLL         = 1e-9
	tolFitParam      = 1e-9
)

var pGrid = []float64{1e-6, 1e-3, .01, .1, .25, .5, .75, .9, .99, 1 - 1e-3, 1 - 1e-6}

func genUV(gen *vlib.G) {
	for _, sp := range uvSpecs() {
		sp := sp
		for _, p := range sp.grid(gen.Thorough()) {
			p := p
			gen.Case(pkey(sp, p), func(t *vlib.T) { checkUV(t, sp, p) })
		}
	}
}

// genUVFit: Fit, SuffStat and ConjugateUpdate are the only distuv methods that reach the
// floats/stat summation kernels, so they form their own group, which also runs in the
// noasm configuration.
func genUVFit(gen *vlib.G) {
	for _, sp := range uvSpecs() {
		sp := sp
		for _, p := range sp.grid(gen.Thorough()) {
			p := p
			d := sp.mk(p, nil)
			if _, ok := reflect.PointerTo(reflect.TypeOf(d)).MethodByName("Fit"); !ok {
				break
			}
			gen.Case(pkey(sp, p), func(t *vlib.T) {
				c := &uvCtx{r: &rep{t: t}, t: t, sp: sp, p: p, d: sp.mk(p, nil), lo: sp.lo(p), hi: sp.hi(p)}
				c.fit()
				t.Nontrivial()
				t.Outcome(sp.name)
			})
		}
	}
}

func methodSet(v any) []string {
	pt := reflect.PointerTo(reflect.TypeOf(v))
	var have []string
	for _, m := range uvMethodNames {
		if _, ok := pt.MethodByName(m); ok {
			have = append(have, m)
		}
	}
	return have
}

type uvCtx struct {
	r   *rep
	t   *vlib.T
	sp  uvSpec
	p   []float64
	d   any
	lo  float64
	hi  float64
	ord float64
	// continuous laws: quantile points (finite, inside support, increasing)
	qx     []float64
	qp     []float64
	evals  int64
	momTol float64
	maxMom int
	// probLogMismatch: Prob and exp(LogProb) disagree somewhere; the quadrature then
	// integrates Prob (the identities are stated for Prob) instead of exp(LogProb).
	probLogMismatch bool
	// allx is the whole argument grid of a continuous law (sorted, distinct).
	allx []uvPoint
}

func checkUV(t *vlib.T, sp uvSpec, p []float64) {
	r := &rep{t: t}
	d := sp.mk(p, nil)
	c := &uvCtx{r: r, t: t, sp: sp, p: p, d: d, lo: sp.lo(p), hi: sp.hi(p), ord: sp.momOrder(p), momTol: tolMoment}
	ms := methodSet(d)
	ex := 0
	for k := 1; k <= 4; k++ {
		if float64(k) < c.ord {
			ex = k
		}
	}
	t.Outcome(fmt.Sprintf("%s[%s] moments<=%d", sp.name, strings.Join(ms, ","), ex))
	t.Nontrivial()

	if sp.points != nil {
		c.discrete()
	} else if _, ok := d.(hasQuantile); ok {
		c.continuous()
	} else {
		// AlphaStable: no CDF/Prob/Quantile: only moment existence and Median/Mode contracts.
		c.momentsOnly()
	}
	c.score()
	t.Count("uv_method_evaluations", c.evals)
	t.Detail(map[string]any{"methods": ms, "lo": g(c.lo), "hi": g(c.hi), "moment_order": g(c.ord)})
}

// ----------------------------------------------------------------------------

func (c *uvCtx) cdf(x float64) float64  { c.evals++; return c.d.(hasCDF).CDF(x) }
func (c *uvCtx) surv(x float64) float64 { c.evals++; return c.d.(hasSurvival).Survival(x) }
func (c *uvCtx) prob(x float64) float64 { c.evals++; return c.d.(hasProb).Prob(x) }
func (c *uvCtx) logp(x float64) float64 { c.evals++; return c.d.(hasLogProb).LogProb(x) }
func (c *uvCtx) quant(p float64) float64 {
	c.evals++
	return c.d.(hasQuantile).Quantile(p)
}

// xres is the absolute rounding error made when x, x-lo or hi-x is formed in
// floating point (16 ulp of the largest of them).
func (c *uvCtx) xres(x float64) float64 {
	m := math.Abs(x)
	if isFinite(c.lo) {
		m = math.Max(m, math.Abs(x-c.lo))
	}
	if isFinite(c.hi) {
		m = math.Max(m, math.Abs(c.hi-x))
	}
	return 16 * 0x1p-52 * m
}

// cdfAllow is the change of the CDF over the representation uncertainty of x:
// the part of an identity's error that no implementation in float64 can avoid
// (a quantile closer to a non-zero end of the support than the spacing of floats).
func (c *uvCtx) cdfAllow(x float64) float64 {
	cd, ok := c.d.(hasCDF)
	if !ok || !isFinite(x) {
		return 0
	}
	d := c.xres(x)
	a, b := math.Max(x-d, c.lo), math.Min(x+d, c.hi)
	var v float64
	if catch(func() { v = math.Abs(cd.CDF(b) - cd.CDF(a)) }) != nil || math.IsNaN(v) {
		return 0
	}
	return v
}

// edgeAllow is the probability mass within 16 ulp of a finite non-zero end of
// the support, which no quadrature over float64 arguments can see.
func (c *uvCtx) edgeAllow() float64 {
	cd, ok := c.d.(hasCDF)
	if !ok {
		return 0
	}
	v := 0.0
	catch(func() {
		// (an end at 0: arguments below 1e-300 are denormal or underflow in every product)
		if isFinite(c.lo) {
			v += cd.CDF(c.lo + math.Max(16*0x1p-52*math.Abs(c.lo), 1e-300))
		}
		if isFinite(c.hi) {
			v += 1 - cd.CDF(c.hi-math.Max(16*0x1p-52*math.Abs(c.hi), 1e-300))
		}
	})
	if math.IsNaN(v) {
		return 0
	}
	return v
}

// pointwise checks shared by continuous and discrete laws at an argument x.
// inside tells whether x is within [lo,hi].
func (c *uvCtx) pointwise(x float64, tag string) {
	r := c.r
	arg := tag + "x=" + g(x)
	var cv, sv float64 = math.NaN(), math.NaN()
	_, hc := c.d.(hasCDF)
	_, hs := c.d.(hasSurvival)
	_, hp := c.d.(hasProb)
	_, hl := c.d.(hasLogProb)
	below := x < c.lo
	above := x > c.hi
	atEdge := x == c.lo || x == c.hi
	if hc {
		if pv := catch(func() { cv = c.cdf(x) }); pv != nil {
			if below || above {
				r.cls("support-boundary", "CDF-outside-support", arg, "CDF panics (%v); want %v", pv, b2f(above))
			} else {
				r.fail("CDF-panic", arg, "CDF panics: %v", pv)
			}
			hc = false
		} else {
			switch {
			case below && cv != 0:
				r.cls("support-boundary", "CDF-outside-support", arg, "CDF=%v below the support [%v,%v]; want 0", cv, c.lo, c.hi)
			case above && cv != 1:
				r.cls("support-boundary", "CDF-outside-support", arg, "CDF=%v above the support [%v,%v]; want 1", cv, c.lo, c.hi)
			case !(cv >= 0 && cv <= 1):
				r.fail("CDF-range", arg, "CDF=%v not in [0,1]", cv)
			}
		}
	}
	if hs {
		if pv := catch(func() { sv = c.surv(x) }); pv != nil {
			if below || above {
				r.cls("support-boundary", "Survival-outside-support", arg, "Survival panics (%v); want %v", pv, b2f(below))
			} else {
				r.fail("Survival-panic", arg, "Survival panics: %v", pv)
			}
			hs = false
		} else {
			switch {
			case below && sv != 1:
				r.cls("support-boundary", "Survival-outside-support", arg, "Survival=%v below the support; want 1", sv)
			case above && sv != 0:
				r.cls("support-boundary", "Survival-outside-support", arg, "Survival=%v above the support; want 0", sv)
			case !(sv >= 0 && sv <= 1):
				r.fail("Survival-range", arg, "Survival=%v not in [0,1]", sv)
			}
		}
	}
	if ls, ok := c.d.(interface{ LogSurvival(float64) float64 }); ok && hs && isFinite(sv) {
		var lv float64
		if pv := catch(func() { lv = ls.LogSurvival(x) }); pv != nil {
			r.fail("LogSurvival-panic", arg, "%v", pv)
		} else if e := math.Exp(lv); !(e == sv || relErr(e, sv) <= tolProbExp || e < 1e-290 && sv < 1e-290) {
			r.fail("exp(LogSurvival)=Survival", arg, "exp(LogSurvival)=%v Survival=%v", e, sv)
		}
	}
	if hc && hs && !below && !above && isFinite(cv) && isFinite(sv) {
		if math.Abs(sv+cv-1) > tolSurvRel*math.Min(sv, cv)+tolSurvAbs+2*c.cdfAllow(x) {
			r.fail("Survival=1-CDF", arg, "CDF=%v Survival=%v sum-1=%g", cv, sv, sv+cv-1)
		}
	}
	if hp || hl {
		var pv, lv float64 = math.NaN(), math.NaN()
		var pp, lp any
		if hp {
			pp = catch(func() { pv = c.prob(x) })
		}
		if hl {
			lp = catch(func() { lv = c.logp(x) })
		}
		if pp != nil || lp != nil {
			if below || above {
				r.cls("support-boundary", "Prob-outside-support", arg, "Prob/LogProb panics outside the support: %v %v", pp, lp)
			} else {
				r.fail("Prob-panic", arg, "Prob/LogProb panics: %v %v", pp, lp)
			}
			return
		}
		if below || above {
			if hp && pv != 0 {
				r.cls("support-boundary", "Prob-outside-support", arg, "Prob=%v outside the support [%v,%v]; want 0", pv, c.lo, c.hi)
			}
			if hl && !math.IsInf(lv, -1) {
				r.cls("support-boundary", "Prob-outside-support", arg, "LogProb=%v outside the support [%v,%v]; want -Inf", lv, c.lo, c.hi)
			}
			return
		}
		if hp && (math.IsNaN(pv) || pv < 0) || hl && math.IsNaN(lv) {
			if c.sp.name == "Binomial" && (c.p[1] == 0 || c.p[1] == 1) {
				r.cls("binomial-prob-nan-p01", "Prob>=0", arg, "Prob=%v LogProb=%v for P=%v", pv, lv, c.p[1])
			} else if atEdge {
				r.cls("support-boundary", "Prob>=0", arg, "Prob=%v LogProb=%v at the edge of the support", pv, lv)
			} else if c.sp.name == "Logistic" && hp && math.IsNaN(pv) && (x-c.p[0])/c.p[1] < -700 {
				r.cls("logistic-prob-overflow-nan", "Prob>=0", arg, "Prob=%v for (x-Mu)/S=%v; exp overflows", pv, (x-c.p[0])/c.p[1])
			} else {
				r.fail("Prob>=0", arg, "Prob=%v LogProb=%v", pv, lv)
			}
			return
		}
		if hp && hl {
			e := math.Exp(lv)
			if !(pv == e || relErr(pv, e) <= tolProbExp || pv < 1e-290 && e < 1e-290) { // denormal results carry few digits
				c.probLogMismatch = true
				cl := ""
				if c.sp.name == "Logistic" && (c.p[0] != 0 || c.p[1] != 1) {
					cl = "logistic-logprob-ignores-params"
				}
				r.cls(cl, "Prob=exp(LogProb)", arg, "Prob=%v exp(LogProb)=%v", pv, e)
			}
		}
	}
}

func b2f(b bool) float64 {
	if b {
		return 1
	}
	return 0
}

// ----------------------------------------------------------------------------
// Continuous laws with a Quantile.

func (c *uvCtx) continuous() {
	r := c.r
	// Quantile grid.
	for _, p := range pGrid {
		var x float64
		if pv := catch(func() { x = c.quant(p) }); pv != nil {
			r.fail("Quantile-panic", "p="+g(p), "Quantile panics: %v", pv)
			return
		}
		if !isFinite(x) || x < c.lo || x > c.hi {
			r.fail("Quantile-in-support", "p="+g(p), "Quantile=%v not a finite point of the support [%v,%v]", x, c.lo, c.hi)
			return
		}
		if n := len(c.qx); n > 0 && !(x >= c.qx[n-1]-quantSlack(x, c.qx[n-1])) {
			r.fail("Quantile-monotone", "p="+g(p), "Quantile(%v)=%v < Quantile(%v)=%v", p, x, c.qp[n-1], c.qx[n-1])
			return
		}
		c.qx = append(c.qx, x)
		c.qp = append(c.qp, p)
	}
	// p in {0,1}: the ends of the support (an infinite end may be reported as +-Inf or NaN-free huge value).
	for _, p := range []float64{0, 1} {
		var x float64
		want := c.lo
		if p == 1 {
			want = c.hi
		}
		if pv := catch(func() { x = c.quant(p) }); pv != nil {
			r.fail("Quantile-endpoint", "p="+g(p), "Quantile(%v) panics: %v", p, pv)
			continue
		}
		if !(x == want) {
			r.fail("Quantile-endpoint", "p="+g(p), "Quantile(%v)=%v; want the end of the support %v", p, x, want)
		}
	}
	// out of range p must panic (documented via badPercentile for all but Logistic).
	if c.sp.name != "Logistic" {
		for _, p := range []float64{-0.1, 1.1} {
			if pv := catch(func() { c.quant(p) }); pv == nil {
				r.fail("Quantile-domain", "p="+g(p), "Quantile(%v) does not panic", p)
			}
		}
	}

	span := c.qx[len(c.qx)-1] - c.qx[0]
	// Extra quantile points: far tails and the switch points of the quantile formulas
	// (NormalQuantile: |p-1/2| = 0.425 and sqrt(-log p) = 5; Laplace, StudentsT, F, Triangle:
	// p = 1/2 resp. p = CDF(Mode)).
	extraP := []float64{1e-300, 1e-100, 1e-30, 1e-15, 1e-12, 1e-9, 1 - 1e-9, 1 - 1e-12, 1 - 1e-15}
	extraP = append(extraP, ulps(0.5, 0.075, 0.925)...)
	extraP = append(extraP, math.Exp(-25)*0.99, math.Exp(-25)*1.01, 1-math.Exp(-25)*0.99, 1-math.Exp(-25)*1.01)
	if cd, ok := c.d.(hasCDF); ok {
		if m, ok := c.d.(hasMode); ok {
			var pm float64
			if catch(func() { pm = cd.CDF(m.Mode()) }) == nil && pm > 0 && pm < 1 {
				extraP = append(extraP, ulps(pm)...)
			}
		}
	}
	extraP = set(extraP)
	var ex, exP []float64
	{
		prevX, prevP := math.Inf(-1), 0.0
		ci := 0
		for _, p := range extraP {
			if !(p > 0 && p < 1) {
				continue
			}
			var x float64
			if pv := catch(func() { x = c.quant(p) }); pv != nil {
				r.cls(c.tailClass(0, p), "Quantile-panic", "p="+g(p), "Quantile panics: %v", pv)
				continue
			}
			if (p < 1e-6 || p > 1-1e-6) && c.outOfBox() {
				c.t.Count("far_tail_quantiles_not_judged_outside_the_box", 1)
				continue
			}
			if math.IsNaN(x) || x < c.lo || x > c.hi {
				r.cls(c.tailClass(x, p), "Quantile-in-support", "p="+g(p), "Quantile=%v is not in the support [%v,%v]", x, c.lo, c.hi)
				continue
			}
			// monotone against the previous extra point and the core points passed on the way
			for ci < len(c.qp) && c.qp[ci] <= p {
				if c.qx[ci] >= prevX || c.qp[ci] < prevP {
					prevX, prevP = c.qx[ci], c.qp[ci]
				}
				ci++
			}
			if x < prevX-quantSlack(x, prevX) {
				r.cls(c.tailClass(x, p), "Quantile-monotone", "p="+g(p), "Quantile(%v)=%v < Quantile(%v)=%v", p, x, prevP, prevX)
			}
			prevX, prevP = x, p
			ex = append(ex, x)
			exP = append(exP, p)
		}
	}
	// argument grid: quantile points, midpoints, edges, points next to the edges, outside, far tails.
	type pt = uvPoint
	var xs []pt
	for i, x := range c.qx {
		xs = append(xs, pt{x, "q "})
		if i+1 < len(c.qx) {
			xs = append(xs, pt{x + (c.qx[i+1]-x)/2, "mid "})
		}
	}
	for _, x := range ex {
		if isFinite(x) && x > c.lo && x < c.hi {
			xs = append(xs, pt{x, "xq "})
		}
	}
	// inside, next to a finite end of the support
	if isFinite(c.lo) {
		for _, d := range []float64{1e-12 * span, 1e-6 * span} {
			xs = append(xs, pt{c.lo + d, "near "})
		}
		xs = append(xs, pt{math.Nextafter(c.lo, math.Inf(1)), "near "})
		if c.lo == 0 {
			xs = append(xs, pt{1e-300, "near "}, pt{1e-100, "near "})
		}
	}
	if isFinite(c.hi) {
		for _, d := range []float64{1e-12 * span, 1e-6 * span} {
			xs = append(xs, pt{c.hi - d, "near "})
		}
		xs = append(xs, pt{math.Nextafter(c.hi, math.Inf(-1)), "near "})
	}
	if isFinite(c.lo) {
		xs = append(xs, pt{c.lo, "edge "}, pt{c.lo - span, "out "}, pt{c.lo - 1e-3*span, "out "}, pt{math.Nextafter(c.lo, math.Inf(-1)), "out "})
		if c.lo > 0 {
			xs = append(xs, pt{0, "out "}, pt{-c.lo, "out "})
		} else {
			xs = append(xs, pt{-1 - span, "out "})
		}
	} else {
		xs = append(xs, pt{c.qx[0] - 3*span, "far "}, pt{c.qx[0] - 30*span, "far "}, pt{c.qx[0] - 3000*span, "vfar "}, pt{c.qx[0] - 3e6*span, "vfar "}, pt{-1e300, "vfar "})
	}
	if isFinite(c.hi) {
		xs = append(xs, pt{c.hi, "edge "}, pt{c.hi + span, "out "}, pt{c.hi + 1e-3*span, "out "}, pt{math.Nextafter(c.hi, math.Inf(1)), "out "})
	} else {
		xs = append(xs, pt{c.qx[len(c.qx)-1] + 3*span, "far "}, pt{c.qx[len(c.qx)-1] + 30*span, "far "}, pt{c.qx[len(c.qx)-1] + 3000*span, "vfar "}, pt{c.qx[len(c.qx)-1] + 3e6*span, "vfar "}, pt{1e300, "vfar "})
	}
	sort.SliceStable(xs, func(i, j int) bool { return xs[i].x < xs[j].x })
	{ // drop duplicates and points that fell outside by rounding
		o := xs[:0]
		for i, q := range xs {
			if i > 0 && q.x == xs[i-1].x {
				continue
			}
			if (q.tag == "near " || q.tag == "xq ") && !(q.x > c.lo && q.x < c.hi) {
				continue
			}
			o = append(o, q)
		}
		xs = o
	}
	c.allx = xs
	for _, q := range xs {
		c.pointwise(q.x, q.tag)
	}
	// CDF non-decreasing along the whole grid (skip points where CDF panics or is NaN: reported above).
	if _, ok := c.d.(hasCDF); ok {
		prev, prevx := math.Inf(-1), math.NaN()
		for _, q := range xs {
			var cv float64
			if catch(func() { cv = c.cdf(q.x) }) != nil || math.IsNaN(cv) {
				continue
			}
			if q.x < c.lo || q.x > c.hi {
				continue // outside: judged by the 0/1 rule only
			}
			if cv < prev-tolMonoCDF*prev {
				r.fail("CDF-monotone", "x="+g(q.x), "CDF(%v)=%v < CDF(%v)=%v", q.x, cv, prevx, prev)
			}
			prev, prevx = cv, q.x
		}
		// CDF(Quantile(p)) = p. For the far-tail points the absolute part of the tolerance shrinks
		// with the tail (1e-6 relative); p > 1/2 is known to the implementation only up to the
		// rounding of 1-p. A quantile is also right when p lies between the CDF values of its two
		// floating-point neighbours (generalised inverse at float resolution: under/overflow of
		// the true quantile, e.g. Gamma{0.3,1}.Quantile(1e-300) = 0).
		chk := func(x, p float64) {
			cv := c.cdf(x)
			tail := math.Min(p, 1-p)
			tol := tolQInvRel*tail + math.Min(tolQInvAbs, tolQInvTail*tail) + c.cdfAllow(x)
			if p > 0.5 {
				tol += 4 * 0x1p-53
				// don't-care zone: cephes incbi inverts I_x itself (not its complement) when a <= 1 or
				// b <= 1, so the quantiles of the beta-based laws beyond 1-1e-6 are only good to
				// about 6e-8 in probability (observed; NOTES.md O5)
				switch c.sp.name {
				case "Beta", "F", "StudentsT":
					if p > 1-1e-6 {
						tol = math.Max(tol, tolQInvBetaUpper)
					}
				}
			} else if p < 1e-6 {
				// ... and in the far lower tail to a few per cent of the tail (observed 2.6%)
				switch c.sp.name {
				case "Beta", "F", "StudentsT":
					tol = math.Max(tol, math.Min(tolQInvBetaUpper, 0.05*p))
				}
			}
			if math.Abs(cv-p) <= tol {
				return
			}
			var lo, hi float64
			// neighbours: one ulp, but never inside the denormal range (products with the
			// parameters would underflow there)
			dn, up := math.Nextafter(x, math.Inf(-1)), math.Nextafter(x, math.Inf(1))
			if math.Abs(x) < 1e-290 {
				dn, up = x-1e-290, x+1e-290
			}
			if catch(func() {
				lo = c.cdf(math.Max(c.lo, dn))
				hi = c.cdf(math.Min(c.hi, up))
			}) == nil && lo <= p && p <= hi {
				c.t.Count("quantiles_right_at_float_resolution_only", 1)
				return
			}
			r.cls(c.tailClass(x, p), "CDF(Quantile(p))=p", "p="+g(p), "Quantile=%v CDF=%v err=%g (tolerance %g)", x, cv, cv-p, tol)
		}
		for i, x := range c.qx {
			chk(x, c.qp[i])
		}
		for i, x := range ex {
			if isFinite(x) {
				chk(x, exP[i])
			}
		}
	}

	// Median = Quantile(1/2).
	if m, ok := c.d.(hasMedian); ok {
		var mv float64
		if pv := catch(func() { mv = m.Median() }); pv != nil {
			r.fail("Median-panic", "", "Median panics: %v", pv)
		} else {
			q := c.quant(0.5)
			if !closeRA(mv, q, tolMedian, tolMedian*span) {
				r.fail("Median=Quantile(1/2)", "", "Median=%v Quantile(0.5)=%v", mv, q)
			}
		}
	}

	// Quadrature: cell probabilities, total mass, moments, entropy.
	lpf, okl := c.d.(hasLogProb)
	if !okl {
		return
	}
	brk := append([]float64(nil), c.qx...)
	for _, extra := range []float64{1e-12, 1e-9, 1e-4, 0.05, 0.4, 0.6, 0.95, 1 - 1e-4, 1 - 1e-9} {
		var x float64
		if catch(func() { x = c.quant(extra) }) == nil {
			brk = append(brk, x)
		}
	}
	var modeV float64 = math.NaN()
	if m, ok := c.d.(hasMode); ok {
		if catch(func() { modeV = m.Mode() }) == nil && isFinite(modeV) {
			brk = append(brk, modeV)
		}
	}
	if m, ok := c.d.(hasMean); ok {
		var v float64
		if catch(func() { v = m.Mean() }) == nil && isFinite(v) {
			brk = append(brk, v)
		}
	}
	cen := c.qx[len(c.qx)/2] // median
	// a moment whose order is within 0.25 of the existence boundary has a tail integrand
	// x^(-1-delta), delta < 0.25, which no panel sequence sums: it is not compared (counted)
	maxMom := 0
	for k := 1; k <= 4; k++ {
		if float64(k)+momMargin <= c.ord {
			maxMom = k
		}
	}
	c.maxMom = maxMom
	_, wantEnt := c.d.(hasEntropy)
	nanSeen := false
	logf := func(x float64) float64 {
		c.evals++
		v := lpf.LogProb(x)
		if pf, ok := c.d.(hasProb); ok && c.probLogMismatch {
			v = math.Log(pf.Prob(x))
		}
		if math.IsNaN(v) {
			nanSeen = true
		}
		return v
	}
	res := integrateLaw(logf, c.lo, c.hi, brk, cen, maxMom, wantEnt)
	c.t.Count("quadrature_panels", int64(res.panels))
	c.t.Max("graded_panels_one_side", int64(res.maxK))
	if nanSeen {
		cl := ""
		if c.sp.name == "Logistic" && c.probLogMismatch {
			cl = "logistic-prob-overflow-nan"
		}
		r.cls(cl, "LogProb-NaN-inside-support", "", "LogProb (or log Prob) returned NaN at an interior quadrature node")
		return
	}
	if res.capped {
		r.fail("quadrature-cap", "", "harness quadrature did not converge (graded panels capped)")
		return
	}
	edge := c.edgeAllow()
	c.momTol = tolMoment + 4*edge
	if math.Abs(res.acc[0]-1) > tolMassAbs+edge {
		r.fail("integral(Prob)=1", "", "mass=%v (err %g)", res.acc[0], res.acc[0]-1)
		return // moments from a wrong density are meaningless
	}
	if _, ok := c.d.(hasCDF); ok {
		f := func(x float64) float64 { c.evals++; return math.Exp(logf(x)) }
		for i := 0; i+1 < len(c.qx); i++ {
			a, b := c.qx[i], c.qx[i+1]
			if !(b > a) || !(a > c.lo) || !(b < c.hi) {
				continue
			}
			// break the cell at mode/mean if they fall inside (kinks)
			cuts := []float64{a}
			for _, v := range brk {
				if v > a && v < b {
					cuts = append(cuts, v)
				}
			}
			cuts = append(cuts, b)
			sort.Float64s(cuts)
			integral := 0.0
			for j := 0; j+1 < len(cuts); j++ {
				if cuts[j+1] > cuts[j] {
					integral += glAdaptive(f, cuts[j], cuts[j+1], 1e-12, c.lo, c.hi)
				}
			}
			dc := c.cdf(b) - c.cdf(a)
			if math.Abs(dc-integral) > tolCellAbs+tolCellRel*math.Abs(integral)+c.cdfAllow(a)+c.cdfAllow(b) {
				r.cls(c.tailClass(b, c.qp[i+1]), "CDF(b)-CDF(a)=integral(Prob)", fmt.Sprintf("p=[%g,%g]", c.qp[i], c.qp[i+1]), "a=%v b=%v CDF diff=%v integral=%v", a, b, dc, integral)
			}
		}
	}
	qMean, qVar, qSkew, qKurt := central(res.acc, cen)
	scale := span
	c.moment("Mean", 1, qMean, scale, func() (float64, bool) { m, ok := c.d.(hasMean); return callF(ok, func() float64 { return m.Mean() }) })
	c.moment("Variance", 2, qVar, scale*scale, func() (float64, bool) {
		m, ok := c.d.(hasVariance)
		return callF(ok, func() float64 { return m.Variance() })
	})
	c.moment("Skewness", 3, qSkew, 1, func() (float64, bool) {
		m, ok := c.d.(hasSkewness)
		return callF(ok, func() float64 { return m.Skewness() })
	})
	c.moment("ExKurtosis", 4, qKurt, 1, func() (float64, bool) {
		m, ok := c.d.(hasExKurt)
		return callF(ok, func() float64 { return m.ExKurtosis() })
	})
	c.stddev()
	// the unseen end mass m within width w of a finite end carries about m*|log(m/w)| of entropy
	entAllow := 0.0
	if edge > 0 {
		w := 16 * 0x1p-52 * math.Max(math.Abs(c.lo), math.Abs(c.hi))
		if isFinite(w) && w > 0 {
			entAllow = 4 * edge * (1 + math.Abs(math.Log(edge/w)))
		}
	}
	if e, ok := c.d.(hasEntropy); ok {
		var ev float64
		if pv := catch(func() { ev = e.Entropy() }); pv != nil {
			r.fail("Entropy-panic", "", "Entropy panics: %v", pv)
		} else if !closeRA(ev, res.acc[5], c.momTol+entAllow, c.momTol+entAllow) {
			r.fail("Entropy=-E[log f]", "", "Entropy=%v quadrature=%v", ev, res.acc[5])
		}
	}
	c.mode(modeV)
}

// outOfBox reports parameter points of the thorough tier whose shape parameter lies beyond
// the property's box (shapes 0.3..50): the incomplete gamma/beta inverses are known to
// break down in the far tails there (NOTES.md O3, O7), so the far-tail quantile points and
// the cancellation-prone third and fourth moments are judged loosely.
func (c *uvCtx) outOfBox() bool {
	switch c.sp.name {
	case "Beta":
		return c.p[0] > 50 || c.p[1] > 50
	case "F", "Chi", "ChiSquared":
		for _, v := range c.p {
			if v > 100 {
				return true
			}
		}
	case "StudentsT":
		return c.p[2] > 100
	case "Gamma", "InverseGamma":
		return c.p[0] > 50
	}
	return false
}

// tailClass names the two known accuracy defects in whose region a failing
// quantile/cell identity lies (the identities themselves are unchanged):
// mathext.GammaIncRegInv works to an absolute tolerance and returns 0 or a value
// without correct digits when the result is tiny; distuv.F forms d1*x/(d1*x+d2),
// which rounds to 1 in the upper tail of a heavy-tailed F law.
func (c *uvCtx) tailClass(x, p float64) string {
	switch c.sp.name {
	case "Gamma", "Chi", "ChiSquared":
		arg := x * c.p[len(c.p)-1] // Gamma: beta*x
		if c.sp.name == "ChiSquared" {
			arg = x / 2
		} else if c.sp.name == "Chi" {
			arg = x * x / 2
		}
		if p < 0.25 && !(arg >= 1e-5) {
			return "gammaincreginv-tiny-result"
		}
	case "Exponential", "Weibull", "Laplace":
		// -log(1-p) resp. log(1+2(p-1/2)) cancel for small p
		if p < 1e-6 {
			return "quantile-lower-tail-cancellation"
		}
	case "StudentsT":
		// 1 - t cancels in sqrt(nu (1-t)/t) next to the median
		if math.Abs(p-0.5) < 1e-6 {
			return "studentst-quantile-near-median"
		}
	case "F":
		z := c.p[0] * x / (c.p[0]*x + c.p[1])
		if 1-z < 1e-7 {
			return "f-upper-tail-cancellation"
		}
	}
	return ""
}

func callF(ok bool, f func() float64) (float64, bool) {
	if !ok {
		return 0, false
	}
	return f(), true
}

// moment compares a closed-form moment of order k with the quadrature value q,
// or demands NaN/Inf when the moment does not exist.
func (c *uvCtx) moment(name string, k int, q, absScale float64, get func() (float64, bool)) {
	var v float64
	var ok bool
	if pv := catch(func() { v, ok = get() }); pv != nil {
		c.r.fail(name+"-panic", "", "%s panics: %v", name, pv)
		return
	}
	if !ok {
		return
	}
	if !(float64(k) < c.ord) {
		if isFinite(v) {
			cl := "moment-does-not-exist"
			if c.sp.name == "StudentsT" && name == "Mean" {
				cl = "studentst-mean-undefined"
			}
			c.r.cls(cl, name+"-must-not-exist", "", "%s=%v but E|X|^%d is infinite for this parameter (moments exist only below order %v); want NaN or Inf", name, v, k, c.ord)
		}
		return
	}
	if sp := c.sp.points; sp == nil && k > c.maxMom {
		c.t.Count("moments_too_close_to_the_existence_boundary_not_compared", 1)
		return
	}
	if k >= 3 && c.outOfBox() {
		// Chi{K: 1000}: Variance = K - Mean^2 cancels and Skewness/ExKurtosis amplify it (O8)
		if !closeRA(v, q, math.Max(1e-3, c.momTol), math.Max(1e-4, c.momTol*absScale)) {
			c.r.fail(name+"=quadrature", "", "%s=%v quadrature=%v (parameter beyond the box: tolerance 1e-4)", name, v, q)
		}
		return
	}
	if !closeRA(v, q, c.momTol, c.momTol*absScale) {
		c.r.fail(name+"=quadrature", "", "%s=%v quadrature=%v rel=%g", name, v, q, relErr(v, q))
	}
}

func (c *uvCtx) stddev() {
	s, ok1 := c.d.(hasStdDev)
	v, ok2 := c.d.(hasVariance)
	if !ok1 || !ok2 {
		return
	}
	var sv, vv float64
	if pv := catch(func() { sv, vv = s.StdDev(), v.Variance() }); pv != nil {
		c.r.fail("StdDev-panic", "", "StdDev/Variance panics: %v", pv)
		return
	}
	if !(2 < c.ord) {
		if isFinite(sv) {
			c.r.cls("moment-does-not-exist", "StdDev-must-not-exist", "", "StdDev=%v but the variance is infinite", sv)
		}
		return
	}
	if !closeRA(sv, math.Sqrt(vv), tolStdDev, 0) {
		c.r.fail("StdDev=sqrt(Variance)", "", "StdDev=%v Variance=%v", sv, vv)
	}
}

// mode: Prob(Mode) >= Prob on a fine grid of the support.
func (c *uvCtx) mode(modeV float64) {
	m, ok := c.d.(hasMode)
	if !ok {
		return
	}
	if pv := catch(func() { modeV = m.Mode() }); pv != nil {
		c.r.fail("Mode-panic", "", "Mode panics: %v", pv)
		return
	}
	pf, ok := c.d.(hasProb)
	if !ok {
		return
	}
	if math.IsNaN(modeV) {
		if modeNaNDocumented(c.sp.name, c.p) {
			return
		}
		c.r.fail("Mode-NaN", "", "Mode=NaN is not documented for this parameter")
		return
	}
	if modeV < c.lo || modeV > c.hi {
		c.r.fail("Mode-in-support", "", "Mode=%v outside the support [%v,%v]", modeV, c.lo, c.hi)
		return
	}
	pm := pf.Prob(modeV)
	// the mode is right when it is right at float resolution: a density that drops to 0
	// exactly at an end of the support (Beta{2, 1+2^-52} at 1) must not be judged there
	for _, nbx := range []float64{math.Nextafter(modeV, math.Inf(-1)), math.Nextafter(modeV, math.Inf(1))} {
		if nbx >= c.lo && nbx <= c.hi {
			if v := pf.Prob(nbx); v > pm {
				pm = v
			}
		}
	}
	best, bestx := math.Inf(-1), math.NaN()
	try := func(x float64) {
		c.evals++
		v := pf.Prob(x)
		if v > best {
			best, bestx = v, x
		}
	}
	a, b := c.qx[1], c.qx[len(c.qx)-2] // Q(1e-3) .. Q(1-1e-3)
	for i := 0; i <= modeGridN; i++ {
		try(a + (b-a)*float64(i)/modeGridN)
	}
	for _, x := range c.qx {
		try(x)
	}
	if !(pm >= best*(1-tolModeRel)) {
		cl := ""
		if math.IsNaN(pm) && (modeV == c.lo || modeV == c.hi) {
			cl = "support-boundary"
		}
		if c.sp.name == "Weibull" && c.p[0] == 1 && modeV == 0 {
			cl = "weibull-logprob-at-zero"
		}
		c.r.cls(cl, "Mode-maximises-Prob", "", "Prob(Mode=%v)=%v < Prob(%v)=%v", modeV, pm, bestx, best)
	}
}

// modeNaNDocumented lists the parameter regions where the doc comment of Mode
// announces NaN.
func modeNaNDocumented(name string, p []float64) bool {
	switch name {
	case "Beta": // "NaN if both parameters are less than or equal to 1"
		return p[0] <= 1 && p[1] <= 1
	case "Chi": // "NaN if K is less than one"
		return p[0] < 1
	case "F": // "NaN if the D1 parameter is less than or equal to 2"
		return p[0] <= 2
	case "Weibull": // "NaN ... where K is less than 1" (the code returns 0, which is the true mode)
		return p[0] < 1
	}
	return false
}

// ----------------------------------------------------------------------------
// Discrete laws: exact sums over the support points.

func (c *uvCtx) discrete() {
	r := c.r
	pts := c.sp.points(c.p)
	last := pts[len(pts)-1]
	// argument grid: support points, half-integers, outside.
	var xs []float64
	xs = append(xs, -1, -0.5, math.Nextafter(0, -1))
	for _, k := range pts {
		xs = append(xs, k, k+0.5)
	}
	if isFinite(c.hi) {
		xs = append(xs, c.hi+1, c.hi+7.25)
	}
	sort.Float64s(xs)
	for _, x := range xs {
		tag := "k "
		if x != math.Floor(x) {
			tag = "frac "
		}
		c.pointwise(x, tag)
	}
	pf, hp := c.d.(hasProb)
	// Prob at non-integers inside the support must be 0.
	if hp {
		for _, k := range pts[:len(pts)-1] {
			if v := pf.Prob(k + 0.5); v != 0 {
				r.fail("Prob-non-integer", "x="+g(k+0.5), "Prob=%v at a non-integer", v)
				break
			}
		}
	}
	var pm []float64
	if hp {
		sum := 0.0
		bad := false
		for _, k := range pts {
			c.evals++
			v := pf.Prob(k)
			if math.IsNaN(v) || v < 0 {
				bad = true
			}
			pm = append(pm, v)
			sum += v
		}
		if bad {
			// already reported pointwise as Prob>=0
			return
		}
		if math.Abs(sum-1) > tolPMF {
			r.fail("sum(Prob)=1", "", "sum=%v", sum)
			return
		}
	}
	if _, ok := c.d.(hasCDF); ok && hp {
		cum := 0.0
		prev := 0.0
		for i, k := range pts {
			cum += pm[i]
			cv := c.cdf(k)
			if math.Abs(cv-cum) > tolPMF {
				r.fail("CDF=sum(Prob)", "k="+g(k), "CDF=%v sum=%v", cv, cum)
				break
			}
			if cv < prev {
				r.fail("CDF-monotone", "k="+g(k), "CDF(%v)=%v < CDF(%v)=%v", k, cv, k-1, prev)
			}
			if ch := c.cdf(k + 0.5); ch != cv && k < last {
				r.fail("CDF-step", "x="+g(k+0.5), "CDF(%v)=%v != CDF(%v)=%v", k+0.5, ch, k, cv)
			}
			prev = cv
		}
	}
	// Quantile as generalised inverse: min{x : CDF(x) >= p}.
	if q, ok := c.d.(hasQuantile); ok {
		if _, ok := c.d.(hasCDF); ok {
			ps := append([]float64{0, 1}, pGrid...)
			for _, k := range pts {
				cv := c.cdf(k)
				ps = append(ps, cv, math.Nextafter(cv, 0), math.Nextafter(cv, 2))
			}
			for _, p := range ps {
				if p < 0 || p > 1 {
					continue
				}
				var got float64
				if pv := catch(func() { got = q.Quantile(p) }); pv != nil {
					r.fail("Quantile-panic", "p="+g(p), "Quantile panics: %v", pv)
					continue
				}
				want := math.NaN()
				for _, k := range pts {
					if c.cdf(k) >= p {
						want = k
						break
					}
				}
				if got != want {
					r.fail("Quantile=generalised-inverse", "p="+g(p), "Quantile=%v; min{x: CDF(x)>=p}=%v", got, want)
				}
			}
			for _, p := range []float64{-0.1, 1.1} {
				if pv := catch(func() { q.Quantile(p) }); pv == nil {
					r.fail("Quantile-domain", "p="+g(p), "Quantile(%v) does not panic", p)
				}
			}
		}
	}
	if !hp {
		return
	}
	// moments by exact sums
	mean := 0.0
	for i, k := range pts {
		mean += k * pm[i]
	}
	var m2, m3, m4, ent float64
	for i, k := range pts {
		d := k - mean
		m2 += d * d * pm[i]
		m3 += d * d * d * pm[i]
		m4 += d * d * d * d * pm[i]
		if pm[i] > 0 {
			ent -= pm[i] * math.Log(pm[i])
		}
	}
	scale := math.Max(1, math.Sqrt(m2))
	c.moment("Mean", 1, mean, scale, func() (float64, bool) { m, ok := c.d.(hasMean); return callF(ok, func() float64 { return m.Mean() }) })
	c.moment("Variance", 2, m2, scale*scale, func() (float64, bool) {
		m, ok := c.d.(hasVariance)
		return callF(ok, func() float64 { return m.Variance() })
	})
	if m2 > 0 {
		c.moment("Skewness", 3, m3/math.Pow(m2, 1.5), 1, func() (float64, bool) {
			m, ok := c.d.(hasSkewness)
			return callF(ok, func() float64 { return m.Skewness() })
		})
		c.moment("ExKurtosis", 4, m4/(m2*m2)-3, 1, func() (float64, bool) {
			m, ok := c.d.(hasExKurt)
			return callF(ok, func() float64 { return m.ExKurtosis() })
		})
	} else {
		c.t.Count("degenerate_laws_skew_kurt_not_judged", 1)
	}
	c.stddev()
	if e, ok := c.d.(hasEntropy); ok {
		var ev float64
		if pv := catch(func() { ev = e.Entropy() }); pv != nil {
			r.fail("Entropy-panic", "", "Entropy panics: %v", pv)
		} else if !closeRA(ev, ent, tolMoment, tolMoment) {
			r.fail("Entropy=-sum p log p", "", "Entropy=%v sum=%v", ev, ent)
		}
	}
	// Median: any m with P(X<m) <= 1/2 <= P(X<=m) is a median of a discrete law (don't-care zone).
	if m, ok := c.d.(hasMedian); ok {
		if _, ok := c.d.(hasCDF); ok {
			mv := m.Median()
			le := c.cdf(mv)
			lt := 0.0
			for i, k := range pts {
				if k < mv {
					lt += pm[i]
				}
			}
			if !(lt <= 0.5+1e-12 && le >= 0.5-1e-12) {
				r.fail("Median-is-a-median", "", "Median=%v P(X<m)=%v P(X<=m)=%v", mv, lt, le)
			}
		}
	}
	// Mode (no discrete distuv type has one today; kept for discovery).
	if m, ok := c.d.(hasMode); ok {
		mv := m.Mode()
		pmv := pf.Prob(mv)
		for i, k := range pts {
			if pm[i] > pmv*(1+tolModeRel) {
				r.fail("Mode-maximises-Prob", "", "Prob(Mode=%v)=%v < Prob(%v)=%v", mv, pmv, k, pm[i])
				break
			}
		}
	}
}

// ----------------------------------------------------------------------------
// AlphaStable: closed forms exist only for alpha = 2; otherwise moments must
// be reported as not existing exactly as documented.

func (c *uvCtx) momentsOnly() {
	r := c.r
	alpha, beta, cc, mu := c.p[0], c.p[1], c.p[2], c.p[3]
	d := c.d
	get := func(name string, f func() float64) (v float64, ok bool) {
		if pv := catch(func() { v = f() }); pv != nil {
			r.fail(name+"-panic", "", "%s panics: %v", name, pv)
			return 0, false
		}
		return v, true
	}
	if v, ok := get("Mean", d.(hasMean).Mean); ok {
		if alpha > 1 {
			if v != mu {
				r.fail("Mean", "", "Mean=%v want Mu=%v", v, mu)
			}
		} else if !math.IsNaN(v) {
			r.cls("moment-does-not-exist", "Mean-must-not-exist", "", "Mean=%v for Alpha<=1; documented NaN", v)
		}
	}
	if v, ok := get("Variance", d.(hasVariance).Variance); ok {
		if alpha == 2 {
			if !closeRA(v, 2*cc*cc, 1e-15, 0) {
				r.fail("Variance", "", "Variance=%v want 2C^2=%v", v, 2*cc*cc)
			}
		} else if !math.IsInf(v, 1) {
			r.cls("moment-does-not-exist", "Variance-must-not-exist", "", "Variance=%v for Alpha<2; documented +Inf", v)
		}
	}
	c.stddev()
	for _, nm := range []string{"Skewness", "ExKurtosis"} {
		var f func() float64
		if nm == "Skewness" {
			f = d.(hasSkewness).Skewness
		} else {
			f = d.(hasExKurt).ExKurtosis
		}
		if v, ok := get(nm, f); ok {
			if alpha == 2 {
				if v != 0 {
					r.fail(nm, "", "%s=%v want 0 for Alpha=2", nm, v)
				}
			} else if !math.IsNaN(v) {
				r.cls("moment-does-not-exist", nm+"-must-not-exist", "", "%s=%v for Alpha<2; documented NaN", nm, v)
			}
		}
	}
	// Median and Mode: Mu for Beta == 0, documented panic otherwise.
	for _, nm := range []string{"Median", "Mode"} {
		var f func() float64
		if nm == "Median" {
			f = d.(hasMedian).Median
		} else {
			f = d.(hasMode).Mode
		}
		var v float64
		pv := catch(func() { v = f() })
		if beta == 0 {
			if pv != nil || v != mu {
				r.fail(nm, "", "%s=%v panic=%v; want Mu=%v for Beta=0", nm, v, pv, mu)
			}
		} else if pv == nil {
			r.fail(nm, "", "%s=%v for Beta!=0; documented panic", nm, v)
		}
	}
}
