package main

import (
	"fmt"
	"math"
	"math/big"
	"math/cmplx"

	"gonum.org/v1/gonum/internal/verif/vlib"
	"gonum.org/v1/gonum/mathext"
)

// Definitional oracles for the special functions whose identities alone could be
// satisfied by a consistently wrong implementation: the Maclaurin series of Ai and Ai'
// in 256-bit arithmetic, the defining series of the Hurwitz zeta function summed directly,
// and the defining integrals of Carlson's R_F and R_D by the harness quadrature.

const bigPrec = 256

type bigC struct{ re, im *big.Float }

func newBigC(re, im float64) bigC {
	return bigC{new(big.Float).SetPrec(bigPrec).SetFloat64(re), new(big.Float).SetPrec(bigPrec).SetFloat64(im)}
}

func (a bigC) mul(b bigC) bigC {
	t := func() *big.Float { return new(big.Float).SetPrec(bigPrec) }
	re := t().Sub(t().Mul(a.re, b.re), t().Mul(a.im, b.im))
	im := t().Add(t().Mul(a.re, b.im), t().Mul(a.im, b.re))
	return bigC{re, im}
}

func (a bigC) add(b bigC) bigC {
	return bigC{new(big.Float).SetPrec(bigPrec).Add(a.re, b.re), new(big.Float).SetPrec(bigPrec).Add(a.im, b.im)}
}

func (a bigC) scale(s *big.Float) bigC {
	return bigC{new(big.Float).SetPrec(bigPrec).Mul(a.re, s), new(big.Float).SetPrec(bigPrec).Mul(a.im, s)}
}

func (a bigC) quoInt(n int64) bigC {
	d := new(big.Float).SetPrec(bigPrec).SetInt64(n)
	return bigC{new(big.Float).SetPrec(bigPrec).Quo(a.re, d), new(big.Float).SetPrec(bigPrec).Quo(a.im, d)}
}

func (a bigC) c128() complex128 {
	re, _ := a.re.Float64()
	im, _ := a.im.Float64()
	return complex(re, im)
}

func (a bigC) small() bool {
	re, _ := a.re.Float64()
	im, _ := a.im.Float64()
	return math.Abs(re)+math.Abs(im) < 1e-60
}

func bigConst(s string) *big.Float {
	f, _, err := big.ParseFloat(s, 10, bigPrec, big.ToNearestEven)
	if err != nil {
		panic(err)
	}
	return f
}

// Ai(0) = 3^(-2/3)/Gamma(2/3) and -Ai'(0) = 3^(-1/3)/Gamma(1/3) (OEIS A284867, A284868).
var (
	airyC1 = bigConst("0.355028053887817239260063186004183176397979174199")
	airyC2 = bigConst("0.258819403792806798405183560189203963479091138354")
)

// airySeries returns Ai(z) and Ai'(z) from Ai = c1 f - c2 g with
// f = sum a_k z^3k, a_0 = 1, a_{k+1} = a_k/((3k+2)(3k+3)); g = sum b_k z^(3k+1), b_0 = 1, b_{k+1} = b_k/((3k+3)(3k+4)).
func airySeries(z complex128) (ai, aip complex128) {
	zz := newBigC(real(z), imag(z))
	z2 := zz.mul(zz)
	z3 := z2.mul(zz)
	// running terms: tf = a_k z^3k, tg = b_k z^(3k+1); derivatives: 3k a_k z^(3k-1), (3k+1) b_k z^3k
	tf := newBigC(1, 0)
	tg := zz
	tfp := newBigC(0, 0) // derivative term of f for k (0 for k = 0)
	tgp := newBigC(1, 0)
	f, g, fp, gp := tf, tg, tfp, tgp
	for k := int64(0); k < 2000; k++ {
		// next f term and its derivative: a_{k+1} z^(3k+3); derivative (3k+3) a_{k+1} z^(3k+2) = a_k z^3k * z^2/(3k+2)
		tfp = tf.mul(z2).quoInt(3*k + 2)
		tf = tf.mul(z3).quoInt((3*k + 2) * (3*k + 3))
		// g: b_{k+1} z^(3k+4); derivative (3k+4) b_{k+1} z^(3k+3) = b_k z^(3k+1) * z^2/(3k+3)
		tgp = tg.mul(z2).quoInt(3*k + 3)
		tg = tg.mul(z3).quoInt((3*k + 3) * (3*k + 4))
		f, g, fp, gp = f.add(tf), g.add(tg), fp.add(tfp), gp.add(tgp)
		if tf.small() && tg.small() && tfp.small() && tgp.small() {
			break
		}
	}
	neg := new(big.Float).SetPrec(bigPrec).Neg(airyC2)
	ai = f.scale(airyC1).add(g.scale(neg)).c128()
	aip = fp.scale(airyC1).add(gp.scale(neg)).c128()
	return
}

func genMathextRef(gen *vlib.G) {
	sfCase(gen, "Airy vs Maclaurin series (256 bit)", func(r *rep, e *sfErr) {
		// self-check of the constants: Ai(0) * (-Ai'(0)) = 1/(2 pi sqrt 3)
		prod, _ := new(big.Float).SetPrec(bigPrec).Mul(airyC1, airyC2).Float64()
		if math.Abs(prod*2*math.Pi*math.Sqrt(3)-1) > 4e-16 {
			r.fail("harness", "", "Airy constants inconsistent: %v", prod*2*math.Pi*math.Sqrt(3))
			return
		}
		for _, rad := range []float64{0, 0.05, 0.3, 0.7, 1, 1.3, 2, 2.5, 3, 3.7, 4.2, 5} {
			for k := 0; k < 24; k++ {
				z := cmplx.Rect(rad, float64(k)*math.Pi/12)
				arg := fmt.Sprintf("z=%v", z)
				wa, wp := airySeries(z)
				ga, gp := mathext.AiryAi(z), mathext.AiryAiDeriv(z)
				for i, pr := range [][2]complex128{{ga, wa}, {gp, wp}} {
					d := cmplx.Abs(pr[0]-pr[1]) / cmplx.Abs(pr[1])
					e.see(d/tolAiry, arg)
					if !(d <= tolAiry) {
						r.fail([]string{"AiryAi=series", "AiryAiDeriv=series"}[i], arg, "got %v, series %v (rel %g)", pr[0], pr[1], d)
					}
				}
				if rad == 0 {
					break
				}
			}
		}
	})
	for _, x := range []float64{1.001, 1.01, 1.1, 1.5, 2, 2.5, 3, 4, 6, 10, 30} {
		x := x
		sfCase(gen, fmt.Sprintf("Zeta vs direct summation x=%g", x), func(r *rep, e *sfErr) {
			const N = 20000
			for _, q := range []float64{1e-3, 0.25, 0.5, 1, 1.5, 2, 5, 8.5, 9, 9.5, 10, 50, 1e3, 1e5, 1e7, 0.99e8, 1e8, math.Nextafter(1e8, 2e8), 1.01e8, 1e10, 1e15} {
				arg := fmt.Sprintf("x=%g q=%s", x, g(q))
				// Kahan sum of the first N terms, smallest first, plus the midpoint estimate of the rest
				s, c := 0.0, 0.0
				for k := N - 1; k >= 0; k-- {
					y := math.Pow(float64(k)+q, -x) - c
					t := s + y
					c = (t - s) - y
					s = t
				}
				s += math.Pow(float64(N)+q-0.5, 1-x) / (x - 1)
				got := mathext.Zeta(x, q)
				d := relErr(got, s)
				e.see(d/1e-10, arg)
				if !(d <= 1e-10) {
					r.fail("Zeta=defining series", arg, "Zeta=%v direct sum=%v (rel %g)", got, s, d)
				}
			}
		})
	}
	// negative non-integer q (documented for integer x only): terms change sign when k+q crosses 0
	// for odd x; and large positive q up to the asymptotic switch at 1e8
	for xi := 2; xi <= 9; xi++ {
		x := float64(xi)
		sfCase(gen, fmt.Sprintf("Zeta negative q and large q, integer x=%d", xi), func(r *rep, e *sfErr) {
			const N = 20000
			direct := func(q float64) (s, sabs float64) {
				c := 0.0
				for k := N - 1; k >= 0; k-- {
					t := math.Pow(float64(k)+q, -x)
					sabs += math.Abs(t)
					y := t - c
					u := s + y
					c = (u - s) - y
					s = u
				}
				s += math.Pow(float64(N)+q-0.5, 1-x) / (x - 1)
				return
			}
			qs := []float64{-0.5, -0.25, -0.75, -1.5, -2.5, -3.75, -4.5, -7.3, -8.5, -9.5, -10.25, -11.9, -12.5, -0.001, -1e-3 - 5, 1e4, 1e6, 0.99e8}
			for _, q := range qs {
				arg := fmt.Sprintf("x=%d q=%s", xi, g(q))
				var got float64
				if pv := catch(func() { got = mathext.Zeta(x, q) }); pv != nil {
					r.fail("Zeta-panic", arg, "%v", pv)
					continue
				}
				want, sabs := direct(q)
				tol := 1e-10*math.Abs(want) + 1e-13*sabs
				d := math.Abs(got - want)
				e.see(d/tol, arg)
				if !(d <= tol) {
					r.fail("Zeta=defining series", arg, "Zeta=%v direct sum=%v", got, want)
				}
				// recurrence Zeta(x,q) = q^-x + Zeta(x,q+1), chained until q+1 > 0
				if q < 1e3 {
					nx := mathext.Zeta(x, q+1)
					t := math.Pow(q, -x)
					tolr := 1e-12*(math.Abs(got)+math.Abs(t)+math.Abs(nx)) + 1e-13*sabs // +-(1/2)^-x cancel for odd x
					d := math.Abs(got - (t + nx))
					e.see(d/tolr, arg)
					if !(d <= tolr) {
						r.fail("Zeta-recurrence", arg, "Zeta(x,q)=%v q^-x+Zeta(x,q+1)=%v", got, t+nx)
					}
				}
			}
			// documented panics: non-positive integer q; negative q with non-integer x
			for _, bad := range [][2]float64{{x, 0}, {x, -3}, {x + 0.5, -2.5}} {
				if catch(func() { mathext.Zeta(bad[0], bad[1]) }) == nil {
					r.fail("Zeta-domain", fmt.Sprint(bad), "documented panic did not happen")
				}
			}
		})
	}
	// GammaIncReg/GammaIncRegComp against the integral of the gamma density, with a sweep through the
	// band 20 < a < 200, |x-a|/a < 0.3 of the uniform asymptotic expansion (and a > 200, 4.5/sqrt(a))
	for _, a := range []float64{0.5, 1, 2.5, 19.9, 20.1, 25, 50, 100, 150, 199, 201, 500, 1000} {
		a := a
		sfCase(gen, fmt.Sprintf("GammaIncReg vs integral a=%g", a), func(r *rep, e *sfErr) {
			lg, _ := math.Lgamma(a)
			dens := func(t float64) float64 { return math.Exp((a-1)*math.Log(t) - t - lg) }
			var xs []float64
			for dlt := -0.35; dlt <= 0.3501; dlt += 0.05 {
				xs = append(xs, a*(1+dlt))
			}
			xs = append(xs, a*(1-4.4/math.Sqrt(a)), a*(1-4.6/math.Sqrt(a)), a*(1+4.4/math.Sqrt(a)), a*(1+4.6/math.Sqrt(a)), a/4, a*3, 0.5, 1.05)
			for _, x := range xs {
				if !(x > 0) {
					continue
				}
				arg := fmt.Sprintf("a=%g x=%s", a, g(x))
				p := glAdaptive(dens, 0, x, 0, 0, math.Inf(1))
				hi := math.Max(x, a) + 60*math.Sqrt(a) + 60
				q := glAdaptive(dens, x, hi, 0)
				for i, pr := range [][2]float64{{mathext.GammaIncReg(a, x), p}, {mathext.GammaIncRegComp(a, x), q}} {
					if pr[1] < 1e-200 {
						continue
					}
					d := relErr(pr[0], pr[1])
					e.see(d/1e-10, arg)
					if !(d <= 1e-10) {
						r.fail([]string{"GammaIncReg=integral", "GammaIncRegComp=integral"}[i], arg, "got %v integral %v (rel %g)", pr[0], pr[1], d)
					}
				}
			}
		})
	}
	sfCase(gen, "Carlson RF RD vs defining integrals", func(r *rep, e *sfErr) {
		vals := []float64{0, 0.01, 0.5, 2, 1e3}
		for _, x := range vals {
			for _, y := range vals[1:] {
				for _, z := range vals[1:] {
					arg := fmt.Sprintf("x=%g y=%g z=%g", x, y, z)
					s := math.Sqrt(math.Min(y, z) * math.Max(x, math.Max(y, z))) // balances the two ends of t = s u/(1-u)
					// [0,s] directly and [s,inf) with t = s/w: both end singularities (t^-1/2 at 0 when x = 0,
					// t^-3/2 at infinity) then sit at 0, where floats are dense
					integ := func(f func(t float64) float64) float64 {
						head := glAdaptive(f, 0, s, 1e-15, 0, math.Inf(1))
						tail := glAdaptive(func(w float64) float64 { return f(s/w) * s / (w * w) }, 0, 1, 1e-15, 0, math.Inf(1))
						return head + tail
					}
					rf := 0.5 * integ(func(t float64) float64 { return 1 / math.Sqrt((t+x)*(t+y)*(t+z)) })
					rd := 1.5 * integ(func(t float64) float64 { return 1 / (math.Sqrt((t+x)*(t+y)) * math.Pow(t+z, 1.5)) })
					for i, pr := range [][2]float64{{mathext.EllipticRF(x, y, z), rf}, {mathext.EllipticRD(x, y, z), rd}} {
						d := relErr(pr[0], pr[1])
						e.see(d/1e-9, arg)
						if !(d <= 1e-9) {
							r.fail([]string{"EllipticRF=integral", "EllipticRD=integral"}[i], arg, "got %v integral %v (rel %g)", pr[0], pr[1], d)
						}
					}
				}
			}
		}
	})
}
