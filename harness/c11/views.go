package main

import (
	"fmt"
	"math"
	"math/rand/v2"

	"gonum.org/v1/gonum/internal/verif/vlib"
	"gonum.org/v1/gonum/mat"
	"gonum.org/v1/gonum/spatial/r1"
	"gonum.org/v1/gonum/stat/distmat"
	"gonum.org/v1/gonum/stat/distmv"
	"gonum.org/v1/gonum/stat/distuv"
	"gonum.org/v1/gonum/stat/samplemv"
	"gonum.org/v1/gonum/stat/sampleuv"
)

// Group views: every caller-supplied destination (and matrix input) of the samplers and of the
// multivariate laws in every storage state a caller can hand over:
//
//	*mat.Dense batch:  compact | view with stride > cols | view at a row/column offset of a larger matrix
//	[]float64 dst:     nil | exact length inside a longer backing array
//	*mat.SymDense dst: empty | sized | view (SliceSym) of a larger matrix
//	*mat.VecDense dst: compact | column view with increment > 1
//
// each pre-filled with zeros or with NaN poison (content the routine must not depend on), the
// storage around the addressed region filled with NaN poison of distinct payloads. Oracle:
// with the same answers of the random environment the addressed region is bit-for-bit the
// result of the compact, zero-filled call, and nothing outside it is written. Inputs the
// constructors document to copy are mutated after construction and must have no effect.

type denseLayout struct {
	name           string
	r0, c0, pr, pc int // offset of the view in the parent, padding rows/cols after it
}

var denseLayouts = []denseLayout{
	{"compact", 0, 0, 0, 0},
	{"stride>cols", 0, 0, 0, 3},
	{"offset view", 2, 1, 1, 2},
}

// denseDest builds an n x d destination in the given layout. fill: 0 zeros, 1 poison.
func denseDest(n, d int, l denseLayout, fill int) (view *mat.Dense, parent *mat.Dense, before []float64) {
	R, C := l.r0+n+l.pr, l.c0+d+l.pc
	data := make([]float64, R*C)
	vlib.FillPoison64(data)
	parent = mat.NewDense(R, C, data)
	view = parent
	if R != n || C != d {
		view = parent.Slice(l.r0, l.r0+n, l.c0, l.c0+d).(*mat.Dense)
	}
	for i := 0; i < n; i++ {
		for j := 0; j < d; j++ {
			if fill == 0 {
				view.Set(i, j, 0)
			} else {
				view.Set(i, j, vlib.Poison64(40000+i*d+j))
			}
		}
	}
	before = append([]float64(nil), data...)
	return view, parent, before
}

// denseOutside reports the first element outside the view that changed.
func denseOutside(n, d int, l denseLayout, parent *mat.Dense, before []float64) (string, bool) {
	R, C := parent.Dims()
	raw := parent.RawMatrix().Data
	for i := 0; i < R; i++ {
		for j := 0; j < C; j++ {
			if i >= l.r0 && i < l.r0+n && j >= l.c0 && j < l.c0+d {
				continue
			}
			if math.Float64bits(raw[i*C+j]) != math.Float64bits(before[i*C+j]) {
				return fmt.Sprintf("parent element (%d,%d) outside the %dx%d view at (%d,%d) changed from poison to %v", i, j, n, d, l.r0, l.c0, raw[i*C+j]), false
			}
		}
	}
	return "", true
}

func denseContent(m *mat.Dense) []float64 {
	r, c := m.Dims()
	out := make([]float64, 0, r*c)
	for i := 0; i < r; i++ {
		for j := 0; j < c; j++ {
			out = append(out, m.At(i, j))
		}
	}
	return out
}

// sliceDest returns an exact-length slice in the middle of a poisoned array.
func sliceDest(n, fill int) (dst, backing, before []float64) {
	backing = make([]float64, n+7)
	vlib.FillPoison64(backing)
	dst = backing[3 : 3+n : 3+n]
	for i := range dst {
		if fill == 0 {
			dst[i] = 0
		} else {
			dst[i] = vlib.Poison64(50000 + i)
		}
	}
	before = append([]float64(nil), backing...)
	return
}

func sliceOutside(n int, backing, before []float64) (string, bool) {
	for i := range backing {
		if i >= 3 && i < 3+n {
			continue
		}
		if math.Float64bits(backing[i]) != math.Float64bits(before[i]) {
			return fmt.Sprintf("element %d outside dst[0:%d] changed to %v", i-3, n, backing[i]), false
		}
	}
	return "", true
}

func genViews(gen *vlib.G) {
	gen.Case("samplemv batch layouts", checkViewsSampleMV)
	gen.Case("sampleuv batch layouts", checkViewsSampleUV)
	gen.Case("distmv dst layouts", checkViewsDistMV)
	gen.Case("distmat dst layouts", checkViewsDistMat)
	gen.Case("inputs copied by constructors", checkInputsCopied)
}

const viewK = 16

func viewAnswers(seed, n int) []int {
	idx := make([]int, n)
	for i := range idx {
		idx[i] = (seed*5 + i*7 + i*i*3) % viewK
	}
	return idx
}

// ---------------------------------------------------------------------------

func checkViewsSampleMV(t *vlib.T) {
	r := &rep{t: t}
	t.Nontrivial()
	sig2 := mat.NewSymDense(2, []float64{1, 0.3, 0.3, 0.5})
	wide2 := mat.NewSymDense(2, []float64{4, 0, 0, 4})
	target2, _ := distmv.NewNormal([]float64{0.2, -0.1}, sig2, nil)
	type sampler struct {
		name string
		d    int
		ns   []int
		run  func(batch *mat.Dense, src rand.Source)
	}
	var ss []sampler
	for _, d := range []int{1, 2, 3} {
		d := d
		ss = append(ss,
			sampler{fmt.Sprintf("Halton d=%d", d), d, []int{1, 2, 5, 9}, func(b *mat.Dense, src rand.Source) {
				samplemv.Halton{Kind: samplemv.Owen, Q: distmv.NewUnitUniform(d, nil), Src: src}.Sample(b)
			}},
			sampler{fmt.Sprintf("LatinHypercube d=%d", d), d, []int{1, 2, 4}, func(b *mat.Dense, src rand.Source) {
				samplemv.LatinHypercube{Q: distmv.NewUnitUniform(d, nil), Src: src}.Sample(b)
			}},
			sampler{fmt.Sprintf("IID d=%d", d), d, []int{1, 3}, func(b *mat.Dense, src rand.Source) {
				samplemv.IID{Dist: distmv.NewUnitUniform(d, src)}.Sample(b)
			}},
			sampler{fmt.Sprintf("SampleUniformWeighted d=%d", d), d, []int{2}, func(b *mat.Dense, src rand.Source) {
				r, _ := b.Dims()
				samplemv.SampleUniformWeighted{Sampler: samplemv.IID{Dist: distmv.NewUnitUniform(d, src)}}.SampleWeighted(b, make([]float64, r))
			}},
		)
	}
	ss = append(ss,
		sampler{"Halton(Normal) d=2", 2, []int{4}, func(b *mat.Dense, src rand.Source) {
			samplemv.Halton{Kind: samplemv.Owen, Q: target2, Src: src}.Sample(b)
		}},
		sampler{"LatinHypercube(Normal) d=2", 2, []int{3}, func(b *mat.Dense, src rand.Source) {
			samplemv.LatinHypercube{Q: target2, Src: src}.Sample(b)
		}},
		sampler{"Importance d=2", 2, []int{1, 3}, func(b *mat.Dense, src rand.Source) {
			prop, _ := distmv.NewNormal([]float64{0, 0}, wide2, src)
			rr, _ := b.Dims()
			samplemv.Importance{Target: target2, Proposal: prop}.SampleWeighted(b, make([]float64, rr))
		}},
		sampler{"Rejection d=2", 2, []int{1, 3}, func(b *mat.Dense, src rand.Source) {
			prop, _ := distmv.NewNormal([]float64{0, 0}, wide2, src)
			(&samplemv.Rejection{C: 9.6, Target: target2, Proposal: prop, Src: src}).Sample(b)
		}},
	)
	for _, burn := range []int{0, 2, 5} {
		for _, rate := range []int{0, 2, 5} {
			burn, rate := burn, rate
			ss = append(ss, sampler{fmt.Sprintf("MetropolisHastingser burn=%d rate=%d", burn, rate), 2, []int{1, 3}, func(b *mat.Dense, src rand.Source) {
				samplemv.MetropolisHastingser{Initial: []float64{0.1, 0.2}, Target: target2, Proposal: &arProposalMV{steps: mhSteps}, Src: src, BurnIn: burn, Rate: rate}.Sample(b)
			}})
		}
	}
	calls := 0
	for _, s := range ss {
		for _, n := range s.ns {
			for seed := 0; seed < 2; seed++ {
				idx := viewAnswers(seed, 64)
				var ref []float64
				for li, l := range denseLayouts {
					for fill := 0; fill < 2; fill++ {
						view, parent, before := denseDest(n, s.d, l, fill)
						arg := fmt.Sprintf("%s n=%d batch=%s prefilled=%s seed=%d", s.name, n, l.name, []string{"zeros", "NaN"}[fill], seed)
						if pv := catch(func() { s.run(view, newScript(viewK, idx...)) }); pv != nil {
							r.fail("samplemv batch layout", arg, "panics: %v", pv)
							continue
						}
						calls++
						if msg, ok := denseOutside(n, s.d, l, parent, before); !ok {
							r.fail("samplemv batch layout: nothing written outside the batch", arg, "%s", msg)
						}
						got := denseContent(view)
						if li == 0 && fill == 0 {
							ref = got
							continue
						}
						if i, ok := vlib.Same64(got, ref); !ok {
							r.fail("samplemv batch layout: same samples as into a compact zero batch", arg, "element %d: %v, compact zero batch gives %v (batch %v vs %v)", i, got[i], ref[i], got, ref)
						}
					}
				}
			}
		}
	}
	t.Count("destination_layout_calls", int64(calls))
	t.Outcome("samplemv")
}

func checkViewsSampleUV(t *vlib.T) {
	r := &rep{t: t}
	t.Nontrivial()
	target := distuv.Beta{Alpha: 2, Beta: 2}
	type sampler struct {
		name string
		run  func(batch, weights []float64, src rand.Source)
	}
	ss := []sampler{
		{"LatinHypercube", func(b, w []float64, src rand.Source) {
			sampleuv.LatinHypercube{Q: distuv.Uniform{Min: -3, Max: 2}, Src: src}.Sample(b)
		}},
		{"Rejection", func(b, w []float64, src rand.Source) {
			(&sampleuv.Rejection{C: 1.5, Target: target, Proposal: distuv.Uniform{Min: 0, Max: 1, Src: src}, Src: src}).Sample(b)
		}},
		{"Importance", func(b, w []float64, src rand.Source) {
			sampleuv.Importance{Target: distuv.Normal{Mu: 0.5, Sigma: 0.8}, Proposal: distuv.Laplace{Mu: 0, Scale: 1.5, Src: src}}.SampleWeighted(b, w)
		}},
		{"IIDer", func(b, w []float64, src rand.Source) {
			sampleuv.IIDer{Dist: distuv.Exponential{Rate: 2, Src: src}}.Sample(b)
		}},
		{"SampleUniformWeighted", func(b, w []float64, src rand.Source) {
			sampleuv.SampleUniformWeighted{Sampler: sampleuv.IIDer{Dist: distuv.Exponential{Rate: 2, Src: src}}}.SampleWeighted(b, w)
		}},
	}
	for _, burn := range []int{0, 2, 5} {
		for _, rate := range []int{0, 2, 5} {
			burn, rate := burn, rate
			ss = append(ss, sampler{fmt.Sprintf("MetropolisHastings burn=%d rate=%d", burn, rate), func(b, w []float64, src rand.Source) {
				sampleuv.MetropolisHastings{Initial: 0.1, Target: distuv.Laplace{Mu: 0.3, Scale: 1}, Proposal: &arProposal{steps: mhSteps}, Src: src, BurnIn: burn, Rate: rate}.Sample(b)
			}})
		}
	}
	calls := 0
	for _, s := range ss {
		for _, n := range []int{1, 2, 4} {
			idx := viewAnswers(n, 64)
			var refB, refW []float64
			for state := 0; state < 3; state++ { // 0: own zero slices; 1: inside a poisoned array, zeros; 2: inside a poisoned array, NaN
				var b, w, bb, wb, bBefore, wBefore []float64
				if state == 0 {
					b, w = make([]float64, n), make([]float64, n)
				} else {
					b, bb, bBefore = sliceDest(n, state-1)
					w, wb, wBefore = sliceDest(n, state-1)
				}
				arg := fmt.Sprintf("%s n=%d state=%d", s.name, n, state)
				if pv := catch(func() { s.run(b, w, newScript(viewK, idx...)) }); pv != nil {
					r.fail("sampleuv batch layout", arg, "panics: %v", pv)
					continue
				}
				calls++
				if state == 0 {
					refB, refW = append([]float64(nil), b...), append([]float64(nil), w...)
					continue
				}
				if msg, ok := sliceOutside(n, bb, bBefore); !ok {
					r.fail("sampleuv batch layout: nothing written outside batch", arg, "%s", msg)
				}
				if msg, ok := sliceOutside(n, wb, wBefore); !ok {
					r.fail("sampleuv batch layout: nothing written outside weights", arg, "%s", msg)
				}
				if i, ok := vlib.Same64(b, refB); !ok {
					r.fail("sampleuv batch layout: same samples", arg, "sample %d: %v vs %v", i, b[i], refB[i])
				}
				// weights are only defined for the weighted samplers (others leave the slice alone)
				if s.name == "Importance" || s.name == "SampleUniformWeighted" {
					if i, ok := vlib.Same64(w, refW); !ok {
						r.fail("sampleuv batch layout: same weights", arg, "weight %d: %v vs %v", i, w[i], refW[i])
					}
				}
			}
		}
	}
	// WithoutReplacement into a sub-slice
	for _, kn := range [][2]int{{2, 3}, {2, 9}, {3, 5}} {
		k, n := kn[0], kn[1]
		backing := make([]int, k+4)
		for i := range backing {
			backing[i] = -1000 - i
		}
		sampleuv.WithoutReplacement(backing[2:2+k:2+k], n, newScript(24, 5, 17, 3, 11))
		own := make([]int, k)
		sampleuv.WithoutReplacement(own, n, newScript(24, 5, 17, 3, 11))
		for i := range backing {
			switch {
			case i >= 2 && i < 2+k:
				if backing[i] != own[i-2] {
					r.fail("WithoutReplacement layout", fmt.Sprint(kn), "idxs[%d]=%d vs %d", i-2, backing[i], own[i-2])
				}
			case backing[i] != -1000-i:
				r.fail("WithoutReplacement layout: nothing written outside idxs", fmt.Sprint(kn), "element %d changed", i-2)
			}
		}
	}
	t.Count("destination_layout_calls", int64(calls))
	t.Outcome("sampleuv")
}

// ---------------------------------------------------------------------------

func checkViewsDistMV(t *vlib.T) {
	r := &rep{t: t}
	t.Nontrivial()
	calls := 0
	for _, c := range mvCases() {
		n := c.sigma.n
		if n == 1 && c.name != "d1 unit" {
			continue
		}
		// covariance given compact, as a view of a larger symmetric matrix, and as a foreign Symmetric type
		big := mat.NewSymDense(n+3, nil)
		for i := 0; i < n+3; i++ {
			for j := i; j < n+3; j++ {
				big.SetSym(i, j, vlib.Poison64(i*17+j))
			}
		}
		for i := 0; i < n; i++ {
			for j := i; j < n; j++ {
				big.SetSym(2+i, 2+j, c.sigma.a[i][j])
			}
		}
		sigmas := map[string]mat.Symmetric{
			"compact":     c.sigma.sym(),
			"SliceSym":    big.SliceSym(2, 2+n),
			"foreign sym": foreignSym{c.sigma},
		}
		idx := viewAnswers(n, 16)
		x := mvPoints(c)[3]
		pp := []float64{0.1, 0.9, 0.25, 0.6}[:n]
		type vecFn struct {
			name string
			run  func(sig mat.Symmetric, dst []float64) []float64
		}
		fns := []vecFn{
			{"Normal.Rand", func(sig mat.Symmetric, dst []float64) []float64 {
				d, _ := distmv.NewNormal(c.mu, sig, newScript(viewK, idx...))
				return d.Rand(dst)
			}},
			{"Normal.Mean", func(sig mat.Symmetric, dst []float64) []float64 {
				d, _ := distmv.NewNormal(c.mu, sig, nil)
				return d.Mean(dst)
			}},
			{"Normal.Quantile", func(sig mat.Symmetric, dst []float64) []float64 {
				d, _ := distmv.NewNormal(c.mu, sig, nil)
				return d.Quantile(dst, pp)
			}},
			{"Normal.ScoreInput", func(sig mat.Symmetric, dst []float64) []float64 {
				d, _ := distmv.NewNormal(c.mu, sig, nil)
				return d.ScoreInput(dst, x)
			}},
			{"Normal.TransformNormal", func(sig mat.Symmetric, dst []float64) []float64 {
				d, _ := distmv.NewNormal(c.mu, sig, nil)
				return d.TransformNormal(dst, pp)
			}},
			{"NormalRand", func(sig mat.Symmetric, dst []float64) []float64 {
				var ch mat.Cholesky
				ch.Factorize(sig)
				return distmv.NormalRand(dst, c.mu, &ch, newScript(viewK, idx...))
			}},
			{"NormalRandCov", func(sig mat.Symmetric, dst []float64) []float64 {
				return distmv.NormalRandCov(dst, c.mu, sig, newScript(viewK, idx...))
			}},
			{"StudentsT.Rand", func(sig mat.Symmetric, dst []float64) []float64 {
				d, _ := distmv.NewStudentsT(c.mu, sig, 5, newScript(viewK, idx...))
				return d.Rand(dst)
			}},
			{"StudentsT.Mean", func(sig mat.Symmetric, dst []float64) []float64 {
				d, _ := distmv.NewStudentsT(c.mu, sig, 5, nil)
				return d.Mean(dst)
			}},
		}
		for _, f := range fns {
			var ref []float64
			for _, sn := range vlib.SortedKeys(sigmas) {
				sig := sigmas[sn]
				for state := 0; state < 3; state++ { // nil, exact zeros, exact NaN
					var dst, backing, before []float64
					if state > 0 {
						dst, backing, before = sliceDest(n, state-1)
					}
					arg := fmt.Sprintf("%s %s sigma=%s dst-state=%d", c.name, f.name, sn, state)
					var out []float64
					if pv := catch(func() { out = f.run(sig, dst) }); pv != nil {
						r.fail("distmv dst layout", arg, "panics: %v", pv)
						continue
					}
					calls++
					if state > 0 {
						if msg, ok := sliceOutside(n, backing, before); !ok {
							r.fail("distmv dst layout: nothing written outside dst", arg, "%s", msg)
						}
						if &out[0] != &dst[0] {
							r.fail("distmv dst layout: result stored in place", arg, "the returned slice is not dst")
						}
					}
					if ref == nil {
						ref = append([]float64(nil), out...)
						continue
					}
					// a foreign Symmetric or a view is factorized by the same code: bit-for-bit
					if i, ok := vlib.Same64(out, ref); !ok {
						r.fail("distmv dst layout: same result", arg, "element %d: %v vs %v", i, out[i], ref[i])
					}
				}
			}
			// wrong length must panic as documented
			if catch(func() { f.run(c.sigma.sym(), make([]float64, n+1)) }) == nil {
				r.fail("distmv dst length", c.name+" "+f.name, "no panic for len(dst) = dim+1")
			}
		}
		// aliasing documented for TransformNormal (dst == x) and used by Quantile
		{
			d, _ := distmv.NewNormal(c.mu, c.sigma.sym(), nil)
			want := d.TransformNormal(nil, pp)
			buf := append([]float64(nil), pp...)
			got := d.TransformNormal(buf, buf)
			if i, ok := vlib.Same64(got, want); !ok {
				r.fail("TransformNormal(dst == x)", c.name, "element %d: %v vs %v", i, got[i], want[i])
			}
			wq := d.Quantile(nil, pp)
			buf = append([]float64(nil), pp...)
			if i, ok := vlib.Same64(d.Quantile(buf, buf), wq); !ok {
				r.fail("Normal.Quantile(dst == p)", c.name, "element %d differs", i)
			}
		}
		// CovarianceMatrix into an empty, a sized and a view destination
		covs := map[string]func(dst *mat.SymDense){
			"Normal": func(dst *mat.SymDense) { d, _ := distmv.NewNormal(c.mu, c.sigma.sym(), nil); d.CovarianceMatrix(dst) },
			"StudentsT": func(dst *mat.SymDense) {
				d, _ := distmv.NewStudentsT(c.mu, c.sigma.sym(), 5, nil)
				d.CovarianceMatrix(dst)
			},
			"Dirichlet": func(dst *mat.SymDense) {
				distmv.NewDirichlet([]float64{2.5, 1, 5, 0.7}[:max(n, 2)], nil).CovarianceMatrix(dst)
			},
		}
		for _, cn := range vlib.SortedKeys(covs) {
			dim := n
			if cn == "Dirichlet" {
				dim = max(n, 2)
			}
			checkSymDest(r, "CovarianceMatrix "+cn+" "+c.name, dim, covs[cn])
			calls += 3
		}
		// SetMean and Bounds
		{
			d, _ := distmv.NewNormal(c.mu, c.sigma.sym(), nil)
			nm := make([]float64, n)
			for i := range nm {
				nm[i] = c.mu[i] + 0.5
			}
			d.SetMean(nm)
			nm[0] = 99 // the caller's slice is copied
			want := normalLogPDF(x, addv(c.mu, 0.5), c.sigma)
			if got := d.LogProb(x); math.Abs(got-want) > tolMVLogProb*(1+math.Abs(want))*c.sigma.condEst() {
				r.fail("Normal.SetMean", c.name, "LogProb=%v want %v", got, want)
			}
			if catch(func() { d.SetMean(make([]float64, n+1)) }) == nil {
				r.fail("Normal.SetMean-length", c.name, "no panic")
			}
		}
	}
	// Uniform and Dirichlet vector destinations
	bnds := []r1.Interval{{Min: -3, Max: 2}, {Min: 2, Max: 102}, {Min: 0, Max: 1e-2}}
	idx := viewAnswers(1, 16)
	uf := map[string]func(dst []float64) []float64{
		"Uniform.Rand": func(dst []float64) []float64 { return distmv.NewUniform(bnds, newScript(viewK, idx...)).Rand(dst) },
		"Uniform.Mean": func(dst []float64) []float64 { return distmv.NewUniform(bnds, nil).Mean(dst) },
		"Uniform.CDF":  func(dst []float64) []float64 { return distmv.NewUniform(bnds, nil).CDF(dst, []float64{0, 50, 5e-3}) },
		"Uniform.Quantile": func(dst []float64) []float64 {
			return distmv.NewUniform(bnds, nil).Quantile(dst, []float64{0.1, 0.5, 1})
		},
		"Dirichlet.Rand": func(dst []float64) []float64 {
			return distmv.NewDirichlet([]float64{2.5, 1, 0.5}, newScript(viewK, idx...)).Rand(dst)
		},
		"Dirichlet.Mean": func(dst []float64) []float64 { return distmv.NewDirichlet([]float64{2.5, 1, 0.5}, nil).Mean(dst) },
		"ProposalNormal.ConditionalRand": func(dst []float64) []float64 {
			pn, _ := samplemv.NewProposalNormal(mat.NewSymDense(3, []float64{1, 0.2, 0, 0.2, 2, 0.1, 0, 0.1, 0.5}), newScript(viewK, idx...))
			return pn.ConditionalRand(dst, []float64{1, 2, 3})
		},
	}
	for _, name := range vlib.SortedKeys(uf) {
		var ref []float64
		for state := 0; state < 3; state++ {
			var dst, backing, before []float64
			if state > 0 {
				dst, backing, before = sliceDest(3, state-1)
			}
			arg := fmt.Sprintf("%s dst-state=%d", name, state)
			var out []float64
			if pv := catch(func() { out = uf[name](dst) }); pv != nil {
				r.fail("distmv dst layout", arg, "panics: %v", pv)
				continue
			}
			calls++
			if state > 0 {
				if msg, ok := sliceOutside(3, backing, before); !ok {
					r.fail("distmv dst layout: nothing written outside dst", arg, "%s", msg)
				}
				if &out[0] != &dst[0] {
					r.fail("distmv dst layout: result stored in place", arg, "the returned slice is not dst")
				}
			}
			if ref == nil {
				ref = append([]float64(nil), out...)
			} else if i, ok := vlib.Same64(out, ref); !ok {
				r.fail("distmv dst layout: same result", arg, "element %d: %v vs %v", i, out[i], ref[i])
			}
		}
	}
	u := distmv.NewUniform(bnds, nil)
	got := u.Bounds(nil)
	got[0].Min = 55
	if b2 := u.Bounds(make([]r1.Interval, 3)); b2[0] != bnds[0] || b2[2] != bnds[2] {
		r.fail("Uniform.Bounds", "", "%v", b2)
	}
	if catch(func() { u.Bounds(make([]r1.Interval, 2)) }) == nil {
		r.fail("Uniform.Bounds-length", "", "no panic")
	}
	t.Count("destination_layout_calls", int64(calls))
	t.Outcome("distmv")
}

func addv(a []float64, c float64) []float64 {
	o := make([]float64, len(a))
	for i := range a {
		o[i] = a[i] + c
	}
	return o
}

// foreignSym is a mat.Symmetric that is none of gonum's own types.
type foreignSym struct{ m smat }

func (f foreignSym) Dims() (int, int)    { return f.m.n, f.m.n }
func (f foreignSym) At(i, j int) float64 { return f.m.a[i][j] }
func (f foreignSym) T() mat.Matrix       { return f }
func (f foreignSym) SymmetricDim() int   { return f.m.n }

// checkSymDest calls fill with an empty destination, a sized one pre-filled with NaN and a
// SliceSym view of a larger poisoned matrix; the three results must agree bit for bit and the
// parent of the view must be untouched outside the view.
func checkSymDest(r *rep, name string, n int, fill func(dst *mat.SymDense)) {
	var empty mat.SymDense
	if pv := catch(func() { fill(&empty) }); pv != nil {
		r.fail("SymDense dst layout", name+" empty", "panics: %v", pv)
		return
	}
	ref := make([]float64, 0, n*n)
	for i := 0; i < n; i++ {
		for j := 0; j < n; j++ {
			ref = append(ref, empty.At(i, j))
		}
	}
	sized := mat.NewSymDense(n, nil)
	for i := 0; i < n; i++ {
		for j := i; j < n; j++ {
			sized.SetSym(i, j, vlib.Poison64(i*n+j))
		}
	}
	big := mat.NewSymDense(n+3, nil)
	for i := 0; i < n+3; i++ {
		for j := i; j < n+3; j++ {
			big.SetSym(i, j, vlib.Poison64(1000+i*(n+3)+j))
		}
	}
	view := big.SliceSym(1, 1+n).(*mat.SymDense)
	for which, dst := range []*mat.SymDense{sized, view} {
		arg := name + []string{" sized+NaN", " SliceSym view"}[which]
		if pv := catch(func() { fill(dst) }); pv != nil {
			r.fail("SymDense dst layout", arg, "panics: %v", pv)
			continue
		}
		got := make([]float64, 0, n*n)
		for i := 0; i < n; i++ {
			for j := 0; j < n; j++ {
				got = append(got, dst.At(i, j))
			}
		}
		if i, ok := vlib.Same64(got, ref); !ok {
			r.fail("SymDense dst layout: same result", arg, "element %d: %v vs %v", i, got[i], ref[i])
		}
	}
	for i := 0; i < n+3; i++ {
		for j := i; j < n+3; j++ {
			if i >= 1 && i < 1+n && j >= 1 && j < 1+n {
				continue
			}
			if math.Float64bits(big.At(i, j)) != math.Float64bits(vlib.Poison64(1000+i*(n+3)+j)) {
				r.fail("SymDense dst layout: nothing written outside the view", name, "parent element (%d,%d) changed to %v", i, j, big.At(i, j))
				return
			}
		}
	}
	if catch(func() { fill(mat.NewSymDense(n+1, nil)) }) == nil {
		r.fail("SymDense dst size", name, "no panic for a destination of order n+1")
	}
}

// ---------------------------------------------------------------------------

func checkViewsDistMat(t *vlib.T) {
	r := &rep{t: t}
	t.Nontrivial()
	vm := smatFrom(2, []float64{2, 0.6}, []float64{0.6, 0.5})
	idx := viewAnswers(3, 24)
	checkSymDest(r, "Wishart.MeanSymTo", 2, func(dst *mat.SymDense) {
		w, _ := distmat.NewWishart(vm.sym(), 5.5, nil)
		w.MeanSymTo(dst)
	})
	checkSymDest(r, "Wishart.RandSymTo", 2, func(dst *mat.SymDense) {
		w, _ := distmat.NewWishart(vm.sym(), 5.5, newScript(viewK, idx...))
		w.RandSymTo(dst)
	})
	// V given as a view / foreign symmetric
	{
		w0, _ := distmat.NewWishart(vm.sym(), 5.5, nil)
		x := smatFrom(2, []float64{4, 1.2}, []float64{1.2, 1}).sym()
		big := mat.NewSymDense(4, nil)
		for i := 0; i < 4; i++ {
			for j := i; j < 4; j++ {
				big.SetSym(i, j, vlib.Poison64(i*4+j))
			}
		}
		big.SetSym(1, 1, 2)
		big.SetSym(1, 2, 0.6)
		big.SetSym(2, 2, 0.5)
		for name, v := range map[string]mat.Symmetric{"SliceSym": big.SliceSym(1, 3), "foreign sym": foreignSym{vm}} {
			w1, ok := distmat.NewWishart(v, 5.5, nil)
			if !ok || math.Float64bits(w1.LogProbSym(x)) != math.Float64bits(w0.LogProbSym(x)) {
				r.fail("NewWishart(V as "+name+")", "", "LogProbSym differs from the compact V")
			}
		}
		// x as view
		xb := mat.NewSymDense(4, nil)
		for i := 0; i < 4; i++ {
			for j := i; j < 4; j++ {
				xb.SetSym(i, j, vlib.Poison64(i*4+j))
			}
		}
		xb.SetSym(2, 2, 4)
		xb.SetSym(2, 3, 1.2)
		xb.SetSym(3, 3, 1)
		if math.Float64bits(w0.LogProbSym(xb.SliceSym(2, 4))) != math.Float64bits(w0.LogProbSym(x)) {
			r.fail("Wishart.LogProbSym(x as SliceSym view)", "", "differs from the compact x")
		}
	}
	// RandCholTo into a used Cholesky
	{
		w1, _ := distmat.NewWishart(vm.sym(), 5.5, newScript(viewK, idx...))
		w2, _ := distmat.NewWishart(vm.sym(), 5.5, newScript(viewK, idx...))
		var c1, c2 mat.Cholesky
		c2.Factorize(mat.NewSymDense(2, []float64{7, 1, 1, 9}))
		w1.RandCholTo(&c1)
		w2.RandCholTo(&c2)
		var s1, s2 mat.SymDense
		c1.ToSym(&s1)
		c2.ToSym(&s2)
		if !mat.Equal(&s1, &s2) {
			r.fail("Wishart.RandCholTo into a used Cholesky", "", "differs from the result into an empty one")
		}
	}
	// PermTo into views: only the ones are written
	for _, n := range []int{1, 2, 3, 4} {
		pidx := viewAnswers(n, 8)
		for i := range pidx {
			pidx[i] %= 24
		}
		var ref []float64
		for li, l := range denseLayouts {
			view, parent, before := denseDest(n, n, l, 0)
			distmat.NewUniformPermutation(newScript(24, pidx...)).PermTo(view)
			arg := fmt.Sprintf("n=%d dst=%s", n, l.name)
			if msg, ok := denseOutside(n, n, l, parent, before); !ok {
				r.fail("PermTo dst layout: nothing written outside dst", arg, "%s", msg)
			}
			got := denseContent(view)
			if li == 0 {
				ref = got
			} else if i, ok := vlib.Same64(got, ref); !ok {
				r.fail("PermTo dst layout: same permutation", arg, "element %d", i)
			}
		}
		// documented: elements are not zeroed; a NaN-filled destination keeps NaN where no 1 is put
		view, _, _ := denseDest(n, n, denseLayouts[2], 1)
		distmat.NewUniformPermutation(newScript(24, pidx...)).PermTo(view)
		got := denseContent(view)
		for i := range got {
			if ref[i] == 1 && got[i] != 1 || ref[i] == 0 && !math.IsNaN(got[i]) {
				r.fail("PermTo writes only the ones", fmt.Sprintf("n=%d", n), "element %d = %v (zero destination gives %v)", i, got[i], ref[i])
			}
		}
	}
	// UnitVecTo into a column view (increment > 1)
	for _, d := range []int{1, 2, 3} {
		uidx := viewAnswers(d, 8)
		want := mat.NewVecDense(d, nil)
		distmat.NewUnitVector(newScript(viewK, uidx...)).UnitVecTo(want)
		for fill := 0; fill < 2; fill++ {
			view, parent, before := denseDest(d, 1, denseLayouts[2], fill)
			col := view.ColView(0).(*mat.VecDense)
			distmat.NewUnitVector(newScript(viewK, uidx...)).UnitVecTo(col)
			arg := fmt.Sprintf("d=%d prefilled=%d", d, fill)
			if msg, ok := denseOutside(d, 1, denseLayouts[2], parent, before); !ok {
				r.fail("UnitVecTo dst layout: nothing written outside dst", arg, "%s", msg)
			}
			for i := 0; i < d; i++ {
				if math.Float64bits(col.AtVec(i)) != math.Float64bits(want.AtVec(i)) {
					r.fail("UnitVecTo dst layout: same vector", arg, "element %d: %v vs %v", i, col.AtVec(i), want.AtVec(i))
				}
			}
		}
	}
	t.Outcome("distmat")
}

// checkInputsCopied: slices and matrices handed to a constructor are the caller's; changing
// them afterwards must not change the law (constructors document or imply a copy), and
// slices returned by accessors must not alias the internals.
func checkInputsCopied(t *vlib.T) {
	r := &rep{t: t}
	t.Nontrivial()
	x := []float64{0.3, -0.2}
	{
		mu := []float64{0.1, 0.2}
		sig := mat.NewSymDense(2, []float64{1, 0.3, 0.3, 0.5})
		d, _ := distmv.NewNormal(mu, sig, nil)
		want := d.LogProb(x)
		mu[0], mu[1] = 9, 9
		sig.SetSym(0, 0, 100)
		if d.LogProb(x) != want {
			r.fail("NewNormal copies mu and sigma", "", "LogProb changed after the caller changed its arguments")
		}
		m := d.Mean(nil)
		m[0] = 77
		var cv mat.SymDense
		d.CovarianceMatrix(&cv)
		cv.SetSym(0, 0, 55)
		if d.LogProb(x) != want {
			r.fail("Normal accessors return copies", "", "LogProb changed after Mean()/CovarianceMatrix() results were modified")
		}
		var ch mat.Cholesky
		ch.Factorize(mat.NewSymDense(2, []float64{1, 0.3, 0.3, 0.5}))
		mu2 := []float64{0.1, 0.2}
		dc := distmv.NewNormalChol(mu2, &ch, nil)
		mu2[0] = 9
		ch.Factorize(mat.NewSymDense(2, []float64{50, 0, 0, 50}))
		if dc.LogProb(x) != want {
			r.fail("NewNormalChol copies mu and chol", "", "LogProb changed after the caller changed its arguments")
		}
	}
	{
		mu := []float64{0.1, 0.2}
		sig := mat.NewSymDense(2, []float64{1, 0.3, 0.3, 0.5})
		d, _ := distmv.NewStudentsT(mu, sig, 4, nil)
		want := d.LogProb(x)
		mu[0] = 9
		sig.SetSym(1, 1, 100)
		d.Mean(nil)[0] = 5
		if d.LogProb(x) != want {
			r.fail("NewStudentsT copies mu and sigma", "", "LogProb changed")
		}
	}
	{
		al := []float64{2, 3, 4}
		d := distmv.NewDirichlet(al, nil)
		p := []float64{0.2, 0.3, 0.5}
		want := d.LogProb(p)
		al[0] = 50
		d.Mean(nil)[1] = 9
		if d.LogProb(p) != want {
			r.fail("NewDirichlet copies alpha", "", "LogProb changed")
		}
	}
	{
		b := []r1.Interval{{Min: 0, Max: 1}, {Min: 2, Max: 4}}
		d := distmv.NewUniform(b, nil)
		want := d.LogProb([]float64{0.5, 3})
		b[1].Max = 400
		d.Bounds(nil)[0].Max = 7
		if d.LogProb([]float64{0.5, 3}) != want {
			r.fail("NewUniform copies bounds", "", "LogProb changed")
		}
	}
	{
		w := []float64{1, 2, 3}
		c := distuv.NewCategorical(w, nil)
		w[0] = 100
		if c.Prob(0) != 1.0/6 {
			r.fail("NewCategorical copies w", "", "Prob(0)=%v", c.Prob(0))
		}
		ws := []float64{1, 2, 3}
		s := sampleuv.NewWeighted(ws, newScript(32, 31))
		ws[2] = 0 // would make index 2 impossible
		if i, _ := s.Take(); i != 2 {
			r.fail("NewWeighted copies w", "", "Take with the largest answer returned %d, want 2", i)
		}
		c.ReweightAll([]float64{2, 2, 2})
		w2 := []float64{5, 1, 1}
		c.ReweightAll(w2)
		w2[0] = 0
		if c.Prob(0) != 5.0/7 {
			r.fail("Categorical.ReweightAll copies w", "", "Prob(0)=%v", c.Prob(0))
		}
	}
	{
		v := mat.NewSymDense(2, []float64{2, 0.6, 0.6, 0.5})
		w, _ := distmat.NewWishart(v, 5, nil)
		xs := mat.NewSymDense(2, []float64{4, 1.2, 1.2, 1})
		want := w.LogProbSym(xs)
		v.SetSym(0, 0, 100)
		if w.LogProbSym(xs) != want {
			r.fail("NewWishart copies v", "", "LogProbSym changed")
		}
	}
	t.Outcome("inputs")
}
