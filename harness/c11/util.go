package main

import (
	"fmt"
	"math"
	"os"
	"sort"

	"gonum.org/v1/gonum/internal/verif/vlib"
)

// ---------------------------------------------------------------------------
// Violations. One case checks many identities; each failing identity is its
// own sub-violation (sub = identity + argument) with an optional finding class.

type rep struct {
	t *vlib.T
	n int
}

// fail records a violation of identity id (at argument arg) without a class.
func (r *rep) fail(id, arg, format string, a ...any) { r.cls("", id, arg, format, a...) }

// cls records a violation that belongs to a named finding class.
func (r *rep) cls(class, id, arg, format string, a ...any) {
	r.n++
	sub := id
	if arg != "" {
		sub += "@" + arg
	}
	msg := fmt.Sprintf(format, a...)
	r.t.SubViolation(sub, class, nil, "%s: %s", sub, msg)
	if p := os.Getenv("C11_DUMP"); p != "" { // development aid: full list of violations, one per line
		if f, err := os.OpenFile(p, os.O_APPEND|os.O_CREATE|os.O_WRONLY, 0o644); err == nil {
			fmt.Fprintf(f, "%s\t%s\t%s\t%s\t%s\n", r.t.Group, r.t.Key, class, sub, msg)
			f.Close()
		}
	}
}

// devNote appends a line to $C11_DUMP.<kind> (development aid for tuning margins; inert otherwise).
func devNote(kind, format string, a ...any) {
	if p := os.Getenv("C11_DUMP"); p != "" {
		if f, err := os.OpenFile(p+"."+kind, os.O_APPEND|os.O_CREATE|os.O_WRONLY, 0o644); err == nil {
			fmt.Fprintf(f, format+"\n", a...)
			f.Close()
		}
	}
}

func g(x float64) string { return fmt.Sprintf("%.17g", x) }

// catch runs f and returns the recovered panic value (nil if none).
func catch(f func()) (p any) {
	defer func() { p = recover() }()
	f()
	return nil
}

// ---------------------------------------------------------------------------
// Tolerances helpers.

// relErr is |a-b| / max(|a|,|b|) with 0 for a == b (including equal infinities).
func relErr(a, b float64) float64 {
	if a == b {
		return 0
	}
	d := math.Abs(a - b)
	m := math.Max(math.Abs(a), math.Abs(b))
	if m == 0 {
		return d
	}
	return d / m
}

// closeRA reports |a-b| <= rel*max(|a|,|b|) + abs.
func closeRA(a, b, rel, abs float64) bool {
	if a == b {
		return true
	}
	if math.IsNaN(a) || math.IsNaN(b) || math.IsInf(a, 0) || math.IsInf(b, 0) {
		return false
	}
	return math.Abs(a-b) <= rel*math.Max(math.Abs(a), math.Abs(b))+abs
}

func isFinite(x float64) bool { return !math.IsNaN(x) && !math.IsInf(x, 0) }

// ---------------------------------------------------------------------------
// Gauss-Legendre rule of the harness (20 points), nodes by Newton iteration on
// the Legendre recurrence. Exact for polynomials of degree 39.

const glN = 20

var glX, glW = gaussLegendre(glN)

func gaussLegendre(n int) (x, w []float64) {
	x = make([]float64, n)
	w = make([]float64, n)
	for i := 0; i < (n+1)/2; i++ {
		z := math.Cos(math.Pi * (float64(i) + 0.75) / (float64(n) + 0.5))
		var pp float64
		for it := 0; it < 100; it++ {
			p1, p2 := 1.0, 0.0
			for j := 0; j < n; j++ {
				p3 := p2
				p2 = p1
				p1 = ((2*float64(j)+1)*z*p2 - float64(j)*p3) / float64(j+1)
			}
			pp = float64(n) * (z*p1 - p2) / (z*z - 1)
			z1 := z
			z = z1 - p1/pp
			if math.Abs(z-z1) < 1e-16 {
				break
			}
		}
		x[i] = -z
		x[n-1-i] = z
		w[i] = 2 / ((1 - z*z) * pp * pp)
		w[n-1-i] = w[i]
	}
	return x, w
}

// glPanel integrates f over [a,b] with one 20-point panel.
func glPanel(f func(float64) float64, a, b float64) float64 {
	h := (b - a) / 2
	m := (b + a) / 2
	s := 0.0
	for i, x := range glX {
		s += glW[i] * f(m+h*x)
	}
	return s * h
}

// glComposite integrates f over [a,b] with n equal panels.
func glComposite(f func(float64) float64, a, b float64, n int) float64 {
	s := 0.0
	for i := 0; i < n; i++ {
		lo := a + (b-a)*float64(i)/float64(n)
		hi := a + (b-a)*float64(i+1)/float64(n)
		s += glPanel(f, lo, hi)
	}
	return s
}

// splitPoint is the bisection point of [a0,a1] used by the adaptive rules: the arithmetic
// midpoint, or the geometric one (relative to a finite end lo/hi of the support, or to 0)
// when the panel spans more than two octaves of the distance to that point.
func splitPoint(a0, a1, lo, hi float64) float64 {
	switch {
	case !math.IsInf(lo, 0) && a0 > lo && a1-lo > 4*(a0-lo):
		return lo + math.Sqrt(a0-lo)*math.Sqrt(a1-lo)
	case !math.IsInf(hi, 0) && a1 < hi && hi-a0 > 4*(hi-a1):
		return hi - math.Sqrt(hi-a0)*math.Sqrt(hi-a1)
	case a0 > 0 && a1 > 4*a0: // decades of a heavy tail
		return math.Sqrt(a0) * math.Sqrt(a1)
	case a1 < 0 && a0 < 4*a1:
		return -math.Sqrt(-a0) * math.Sqrt(-a1)
	}
	return a0 + (a1-a0)/2
}

// glAdaptive integrates f over [a,b] by recursive bisection of 20-point panels
// until the two halves reproduce the parent to tol (absolute) or 1e-13 relative.
// edges, if given, are the ends (lo, hi) of the support, towards which the bisection is geometric.
func glAdaptive(f func(float64) float64, a, b, tol float64, edges ...float64) float64 {
	lo, hi := math.Inf(-1), math.Inf(1)
	if len(edges) == 2 {
		lo, hi = edges[0], edges[1]
	}
	var rec func(a, b, whole float64, depth int) float64
	rec = func(a, b, whole float64, depth int) float64 {
		m := splitPoint(a, b, lo, hi)
		l, r := glPanel(f, a, m), glPanel(f, m, b)
		if math.Abs(l+r-whole) <= tol+1e-13*math.Abs(l+r) || depth >= 60 || !(m > a && m < b) {
			return l + r
		}
		return rec(a, m, l, depth+1) + rec(m, b, r, depth+1)
	}
	return rec(a, b, glPanel(f, a, b), 0)
}

// ---------------------------------------------------------------------------
// Moments of a density given by its log, by composite Gauss-Legendre on a
// partition made of caller-supplied breakpoints (quantiles, mode, mean, median)
// plus geometrically graded panels towards both ends of the support (halving
// towards a finite end point so that an integrable algebraic singularity is
// resolved, doubling towards an infinite one so that an algebraic tail is).

const nAcc = 6 // mass, raw moments 1..4 about c, entropy

type momResult struct {
	acc    [nAcc]float64
	panels int
	maxK   int // number of graded panels used on the longer side
	capped bool
}

// integrateLaw accumulates mass, E[(x-c)^k] (k=1..maxMom) and -E[log f].
func integrateLaw(logf func(float64) float64, lo, hi float64, brk []float64, c float64, maxMom int, wantEnt bool) momResult {
	var res momResult
	b := append([]float64(nil), brk...)
	sort.Float64s(b)
	// unique, strictly inside the support
	u := b[:0]
	for _, v := range b {
		if !(v > lo && v < hi) || !isFinite(v) {
			continue
		}
		if len(u) > 0 && v <= u[len(u)-1] {
			continue
		}
		u = append(u, v)
	}
	b = u
	if len(b) < 2 {
		res.capped = true
		return res
	}
	panel := func(a, bb float64) (out [nAcc]float64) {
		h := (bb - a) / 2
		m := (bb + a) / 2
		for i, xn := range glX {
			x := m + h*xn
			lf := logf(x)
			if math.IsInf(lf, -1) || math.IsNaN(lf) {
				if math.IsNaN(lf) {
					out[0] = math.NaN()
				}
				continue
			}
			w := glW[i] * h
			f := math.Exp(lf)
			out[0] += w * f
			d := x - c
			if d != 0 {
				ld := math.Log(math.Abs(d))
				for k := 1; k <= maxMom; k++ {
					v := math.Exp(float64(k)*ld + lf)
					if d < 0 && k%2 == 1 {
						v = -v
					}
					out[k] += w * v
				}
			}
			if wantEnt {
				out[5] += w * (-lf * f)
			}
		}
		res.panels++
		return out
	}
	add := func(p [nAcc]float64) {
		for k := range res.acc {
			res.acc[k] += p[k]
		}
	}
	// adaptive bisection between breakpoints: a panel is accepted when its two
	// halves reproduce it to 1e-13 of the running totals (quantile cells of a
	// density with an algebraic singularity span many decades).
	var adapt func(a0, a1 float64, whole [nAcc]float64, depth int)
	adapt = func(a0, a1 float64, whole [nAcc]float64, depth int) {
		m := splitPoint(a0, a1, lo, hi)
		l, r := panel(a0, m), panel(m, a1)
		okAll := true
		for k := range whole {
			s := l[k] + r[k]
			if math.Abs(s-whole[k]) > 1e-13*math.Max(math.Abs(res.acc[k]), math.Abs(s))+1e-300 {
				okAll = false
			}
		}
		if okAll || depth >= 60 || !(m > a0 && m < a1) {
			if !okAll {
				res.capped = true
			}
			add(l)
			add(r)
			return
		}
		adapt(a0, m, l, depth+1)
		adapt(m, a1, r, depth+1)
	}
	for i := 0; i+1 < len(b); i++ {
		adapt(b[i], b[i+1], panel(b[i], b[i+1]), 0)
	}
	small := func(p [nAcc]float64) bool {
		for k := range p {
			if math.Abs(p[k]) > 1e-16*math.Abs(res.acc[k]) && math.Abs(p[k]) > 1e-300 {
				return false
			}
		}
		return true
	}
	grade := func(edge, first, width float64, dir float64) {
		// dir = -1: towards lo, +1: towards hi. edge may be infinite.
		quiet := 0
		const capK = 1100
		k := 0
		if math.IsInf(edge, 0) {
			near := first
			w := width
			for ; k < capK; k++ {
				far := near + dir*w
				if math.Abs(far) > 1e300 { // products with parameters overflow beyond
					break
				}
				var p [nAcc]float64
				if dir > 0 {
					p = panel(near, far)
				} else {
					p = panel(far, near)
				}
				add(p)
				if small(p) {
					quiet++
					if quiet >= 4 {
						break
					}
				} else {
					quiet = 0
				}
				near = far
				w *= 2
			}
		} else {
			d := math.Abs(first - edge)
			near := first
			for ; k < capK; k++ {
				d /= 2
				far := edge - dir*d
				if far == near || far == edge {
					break
				}
				var p [nAcc]float64
				if dir > 0 {
					p = panel(near, far)
				} else {
					p = panel(far, near)
				}
				add(p)
				if small(p) {
					quiet++
					if quiet >= 4 {
						break
					}
				} else {
					quiet = 0
				}
				near = far
			}
		}
		if k >= capK {
			res.capped = true
		}
		if k > res.maxK {
			res.maxK = k
		}
	}
	grade(lo, b[0], b[1]-b[0], -1)
	grade(hi, b[len(b)-1], b[len(b)-1]-b[len(b)-2], +1)
	return res
}

// central converts raw moments about c into mean, variance, skewness, excess kurtosis.
func central(acc [nAcc]float64, c float64) (mean, variance, skew, exkurt float64) {
	m0 := acc[0]
	m1, m2, m3, m4 := acc[1]/m0, acc[2]/m0, acc[3]/m0, acc[4]/m0
	mean = c + m1
	variance = m2 - m1*m1
	mu3 := m3 - 3*m1*m2 + 2*m1*m1*m1
	mu4 := m4 - 4*m1*m3 + 6*m1*m1*m2 - 3*m1*m1*m1*m1
	skew = mu3 / math.Pow(variance, 1.5)
	exkurt = mu4/(variance*variance) - 3
	return
}
