// mat_band.go — second round of part (c): band, symmetric band, triangular
// band, diagonal and tridiagonal types (products and solves with mismatching
// shapes, row/column iteration ranges), the SetRaw* methods with raw structs
// that are documented to be rejected, ReuseAs*/Grow* with bad sizes or a
// non-empty receiver, empty-matrix Trace/Norm, illegal norm orders. Overlap
// ("bad region") panics belong to C05 and are not provoked here.
package main

import (
	"fmt"

	"gonum.org/v1/gonum/blas"
	"gonum.org/v1/gonum/blas/blas64"
	"gonum.org/v1/gonum/internal/verif/vlib"
	"gonum.org/v1/gonum/mat"
)

func mkBand(r, c, kl, ku int) *mat.BandDense {
	b := mat.NewBandDense(r, c, kl, ku, nil)
	for i := 0; i < r; i++ {
		for j := imax(0, i-kl); j < imin(c, i+ku+1); j++ {
			b.SetBand(i, j, float64(1+(i+2*j)%5))
		}
	}
	return b
}

func mkSymBand(n, k int) *mat.SymBandDense {
	s := mat.NewSymBandDense(n, k, nil)
	for i := 0; i < n; i++ {
		for j := i; j < imin(n, i+k+1); j++ {
			x := float64(1 + (i+j)%3)
			if i == j {
				x = 6
			}
			s.SetSymBand(i, j, x)
		}
	}
	return s
}

func mkTriBand(n, k int, kind mat.TriKind) *mat.TriBandDense {
	t := mat.NewTriBandDense(n, k, kind, nil)
	for i := 0; i < n; i++ {
		for j := 0; j < n; j++ {
			if (kind == mat.Upper && j >= i && j-i <= k) || (kind == mat.Lower && j <= i && i-j <= k) {
				x := float64(1 + (i+j)%3)
				if i == j {
					x = 4
				}
				t.SetTriBand(i, j, x)
			}
		}
	}
	return t
}

func mkTridiag(n int) *mat.Tridiag {
	t := mat.NewTridiag(n, nil, nil, nil)
	for i := 0; i < n; i++ {
		t.SetBand(i, i, 4)
		if i+1 < n {
			t.SetBand(i, i+1, 1)
			t.SetBand(i+1, i, 0.5)
		}
	}
	return t
}

func genMatBand(g *vlib.G) {
	dims := vlib.Pick(g, []int{1, 2, 4}, []int{1, 2, 3, 4, 6})
	// products: dst = op(A) x
	type mulvec struct {
		name  string
		mk    func(r, c int) any
		rect  bool
		mul   func(a any, dst *mat.VecDense, trans bool, x mat.Vector)
		trans []bool
	}
	mvs := []mulvec{
		{"BandDense", func(r, c int) any { return mkBand(r, c, imin(1, r-1), imin(1, c-1)) }, true,
			func(a any, dst *mat.VecDense, tr bool, x mat.Vector) { a.(*mat.BandDense).MulVecTo(dst, tr, x) }, []bool{false, true}},
		{"SymBandDense", func(r, c int) any { return mkSymBand(r, imin(1, r-1)) }, false,
			func(a any, dst *mat.VecDense, tr bool, x mat.Vector) { a.(*mat.SymBandDense).MulVecTo(dst, tr, x) }, []bool{false}},
		{"Tridiag", func(r, c int) any { return mkTridiag(r) }, false,
			func(a any, dst *mat.VecDense, tr bool, x mat.Vector) { a.(*mat.Tridiag).MulVecTo(dst, tr, x) }, []bool{false, true}},
	}
	for _, mv := range mvs {
		for _, r := range dims {
			for _, c := range dims {
				if !mv.rect && r != c {
					continue
				}
				mv, r, c := mv, r, c
				g.Case(fmt.Sprintf("%s.MulVecTo %dx%d", mv.name, r, c), func(t *vlib.T) {
					st := &matStats{errs: map[string]bool{}}
					for _, tr := range mv.trans {
						m, n := r, c
						if tr {
							m, n = c, r
						}
						for _, strided := range []bool{false, true} {
							mkv := mkVec
							if strided {
								mkv = mkVecInc
							}
							a := mv.mk(r, c)
							x := mkv(n, 1)
							nm := fmt.Sprintf("%s(%dx%d).MulVecTo(dst, %v, ", mv.name, r, c, tr)
							dst := mkVec(m, 2)
							runMatCheck(t, matCheck{name: nm + "x ok) dst ok", objs: []any{a, x}, call: func() { mv.mul(a, dst, tr, x) }, valid: true}, st)
							var empty mat.VecDense
							runMatCheck(t, matCheck{name: nm + "x ok) dst empty", objs: []any{a, x}, call: func() { mv.mul(a, &empty, tr, x) }, valid: true}, st)
							for _, n2 := range []int{n + 1, n - 1} {
								if n2 == 0 {
									continue
								}
								x2 := mkv(n2, 1)
								for _, dst := range []*mat.VecDense{mkVec(m, 2), {}} {
									runMatCheck(t, matCheck{name: nm + fmt.Sprintf("x len %d)", n2), objs: []any{a, dst, x2}, call: func() { mv.mul(a, dst, tr, x2) }, want: errShape}, st)
								}
							}
							for _, m2 := range []int{m + 1, m - 1} {
								if m2 == 0 {
									continue
								}
								dst := mkv(m2, 2)
								runMatCheck(t, matCheck{name: nm + fmt.Sprintf("x ok) dst len %d", m2), objs: []any{a, dst, x}, call: func() { mv.mul(a, dst, tr, x) }, want: errShape}, st)
							}
						}
					}
					finishMat(t, st, mv.name+".MulVecTo")
				})
			}
		}
	}
	// solves: TriBandDense, Tridiag
	for _, n := range dims {
		n := n
		g.Case(fmt.Sprintf("TriBandDense/Tridiag SolveTo n=%d", n), func(t *vlib.T) {
			st := &matStats{errs: map[string]bool{}}
			type solver struct {
				name   string
				a      any
				solve  func(dst *mat.Dense, tr bool, b mat.Matrix) error
				solveV func(dst *mat.VecDense, tr bool, b mat.Vector) error
			}
			var ss []solver
			for _, kind := range []mat.TriKind{mat.Upper, mat.Lower} {
				tb := mkTriBand(n, imin(1, n-1), kind)
				ss = append(ss, solver{fmt.Sprintf("TriBandDense(n=%d)", n), tb, tb.SolveTo, tb.SolveVecTo})
			}
			td := mkTridiag(n)
			ss = append(ss, solver{fmt.Sprintf("Tridiag(n=%d)", n), td, td.SolveTo, td.SolveVecTo})
			for _, s := range ss {
				s := s
				for _, tr := range []bool{false, true} {
					for _, nrhs := range []int{1, 2} {
						b := mkDense(n, nrhs, 1)
						dst := mkDense(n, nrhs, 2)
						nm := fmt.Sprintf("%s.SolveTo(dst, %v, ", s.name, tr)
						runMatCheck(t, matCheck{name: nm + "b ok)", objs: []any{s.a, b}, call: func() { _ = s.solve(dst, tr, b) }, valid: true}, st)
						for _, n2 := range []int{n + 1, n - 1} {
							if n2 == 0 {
								continue
							}
							b2 := mkDense(n2, nrhs, 1)
							for _, dst := range []*mat.Dense{mkDense(n, nrhs, 2), mkDense(n2, nrhs, 2), {}} {
								runMatCheck(t, matCheck{name: nm + fmt.Sprintf("b %dx%d)", n2, nrhs), objs: []any{s.a, dst, b2}, call: func() { _ = s.solve(dst, tr, b2) }, want: errShape}, st)
							}
						}
						for _, o := range otherShapes(n, nrhs) {
							dst := mkDense(o[0], o[1], 2)
							runMatCheck(t, matCheck{name: nm + fmt.Sprintf("b ok) dst %dx%d", o[0], o[1]), objs: []any{s.a, dst, b}, call: func() { _ = s.solve(dst, tr, b) }, want: errShape}, st)
						}
					}
					bv := mkVec(n, 1)
					dv := mkVec(n, 2)
					nm := fmt.Sprintf("%s.SolveVecTo(dst, %v, ", s.name, tr)
					runMatCheck(t, matCheck{name: nm + "b ok)", objs: []any{s.a, bv}, call: func() { _ = s.solveV(dv, tr, bv) }, valid: true}, st)
					for _, n2 := range []int{n + 1, n - 1} {
						if n2 == 0 {
							continue
						}
						b2 := mkVec(n2, 1)
						for _, dst := range []*mat.VecDense{mkVec(n, 2), mkVec(n2, 2), {}} {
							runMatCheck(t, matCheck{name: nm + fmt.Sprintf("b len %d)", n2), objs: []any{s.a, dst, b2}, call: func() { _ = s.solveV(dst, tr, b2) }, want: errShape}, st)
						}
						d2 := mkVec(n2, 2)
						runMatCheck(t, matCheck{name: nm + fmt.Sprintf("b ok) dst len %d", n2), objs: []any{s.a, d2, bv}, call: func() { _ = s.solveV(d2, tr, bv) }, want: errShape}, st)
					}
				}
			}
			finishMat(t, st, "band solves")
		})
	}
	// row / column iteration ranges, Trace, Norm
	g.Case("DoRowNonZero/DoColNonZero/Trace/Norm", func(t *vlib.T) {
		st := &matStats{errs: map[string]bool{}}
		type iter interface {
			DoRowNonZero(i int, fn func(i, j int, v float64))
			DoColNonZero(j int, fn func(i, j int, v float64))
		}
		nop := func(i, j int, v float64) {}
		for _, n := range []int{1, 3} {
			objs := map[string]iter{
				"BandDense": mkBand(n, n+1, imin(1, n-1), 1), "SymBandDense": mkSymBand(n, imin(1, n-1)), "TriBandDense": mkTriBand(n, imin(1, n-1), mat.Upper),
				"Tridiag": mkTridiag(n), "TriDense": mkTri(n, mat.Lower, 0),
			}
			for _, name := range vlib.SortedKeys(objs) {
				o := objs[name]
				r, c := o.(mat.Matrix).Dims()
				for _, i := range []int{-1, 0, r - 1, r, r + 1} {
					i := i
					runMatCheck(t, matCheck{name: fmt.Sprintf("%s(%dx%d).DoRowNonZero(%d)", name, r, c, i), objs: []any{o}, call: func() { o.DoRowNonZero(i, nop) },
						valid: i >= 0 && i < r, want: []mat.Error{mat.ErrRowAccess}}, st)
				}
				for _, j := range []int{-1, 0, c - 1, c, c + 1} {
					j := j
					runMatCheck(t, matCheck{name: fmt.Sprintf("%s(%dx%d).DoColNonZero(%d)", name, r, c, j), objs: []any{o}, call: func() { o.DoColNonZero(j, nop) },
						valid: j >= 0 && j < c, want: []mat.Error{mat.ErrColAccess}}, st)
				}
			}
		}
		// Trace of a non-square band, Trace/Norm of empty matrices, illegal norm orders
		wide := mkBand(2, 3, 1, 1)
		runMatCheck(t, matCheck{name: "BandDense(2x3).Trace()", objs: []any{wide}, call: func() { wide.Trace() }, want: []mat.Error{mat.ErrSquare}}, st)
		type tn interface {
			Trace() float64
			Norm(float64) float64
		}
		empties := map[string]tn{"Dense": &mat.Dense{}, "SymDense": &mat.SymDense{}, "TriDense": &mat.TriDense{}, "BandDense": &mat.BandDense{},
			"SymBandDense": &mat.SymBandDense{}, "TriBandDense": &mat.TriBandDense{}, "DiagDense": &mat.DiagDense{}, "Tridiag": &mat.Tridiag{}}
		for _, name := range vlib.SortedKeys(empties) {
			o := empties[name]
			runMatCheck(t, matCheck{name: name + "{}.Trace()", call: func() { o.Trace() }, want: []mat.Error{mat.ErrZeroLength}}, st)
			runMatCheck(t, matCheck{name: name + "{}.Norm(2)", call: func() { o.Norm(2) }, want: []mat.Error{mat.ErrZeroLength, mat.ErrShape}}, st)
		}
		full := map[string]tn{"Dense": mkDense(2, 2, 0), "SymDense": mkSym(2, 0), "TriDense": mkTri(2, mat.Upper, 0), "BandDense": mkBand(2, 2, 1, 1),
			"SymBandDense": mkSymBand(2, 1), "TriBandDense": mkTriBand(2, 1, mat.Upper), "DiagDense": mat.NewDiagDense(2, []float64{1, 2}), "Tridiag": mkTridiag(2)}
		for _, name := range vlib.SortedKeys(full) {
			o := full[name]
			for _, ord := range []float64{0, 3, -1, 1.5} {
				ord := ord
				runMatCheck(t, matCheck{name: fmt.Sprintf("%s.Norm(%v)", name, ord), objs: []any{o}, call: func() { o.Norm(ord) }, want: []mat.Error{mat.ErrNormOrder}}, st)
			}
			for _, ord := range []float64{1, 2} {
				ord := ord
				runMatCheck(t, matCheck{name: fmt.Sprintf("%s.Norm(%v)", name, ord), objs: []any{o}, call: func() { o.Norm(ord) }, valid: true}, st)
			}
		}
		var ev mat.VecDense
		runMatCheck(t, matCheck{name: "VecDense{}.Norm(2)", call: func() { ev.Norm(2) }, want: []mat.Error{mat.ErrZeroLength}}, st)
		v := mkVec(3, 0)
		runMatCheck(t, matCheck{name: "VecDense.Norm(-1)", objs: []any{v}, call: func() { v.Norm(-1) }, want: []mat.Error{mat.ErrNormOrder}}, st)
		finishMat(t, st, "iteration/trace/norm")
	})
	// DiagFrom, NewDiagonalRect, NewTridiag
	g.Case("DiagFrom/NewDiagonalRect/NewTridiag", func(t *vlib.T) {
		st := &matStats{errs: map[string]bool{}}
		for _, sh := range [][2]int{{2, 2}, {2, 3}, {3, 2}} {
			r, c := sh[0], sh[1]
			n := imin(r, c)
			srcs := map[string]mat.Matrix{"Dense": mkDense(r, c, 1), "BandDense": mkBand(r, c, 1, 1)}
			if r == c {
				srcs["SymDense"], srcs["TriDense"], srcs["SymBandDense"], srcs["TriBandDense"], srcs["Tridiag"] = mkSym(r, 1), mkTri(r, mat.Upper, 1), mkSymBand(r, 1), mkTriBand(r, 1, mat.Lower), mkTridiag(r)
				srcs["DiagDense"] = mat.NewDiagDense(r, nil)
			}
			for _, name := range vlib.SortedKeys(srcs) {
				m := srcs[name]
				ok := mat.NewDiagDense(n, nil)
				runMatCheck(t, matCheck{name: fmt.Sprintf("DiagDense(%d).DiagFrom(%s %dx%d)", n, name, r, c), objs: []any{m}, call: func() { ok.DiagFrom(m) }, valid: true}, st)
				var em mat.DiagDense
				runMatCheck(t, matCheck{name: fmt.Sprintf("DiagDense{}.DiagFrom(%s %dx%d)", name, r, c), objs: []any{m}, call: func() { em.DiagFrom(m) }, valid: true}, st)
				for _, n2 := range []int{n + 1, n - 1} {
					if n2 == 0 {
						continue
					}
					d := mat.NewDiagDense(n2, nil)
					runMatCheck(t, matCheck{name: fmt.Sprintf("DiagDense(%d).DiagFrom(%s %dx%d)", n2, name, r, c), objs: []any{d, m}, call: func() { d.DiagFrom(m) }, want: errShape}, st)
				}
			}
			for _, dl := range []int{-1, 0, 1} {
				data := make([]float64, n+dl)
				runMatCheck(t, matCheck{name: fmt.Sprintf("NewDiagonalRect(%d,%d,len %d)", r, c, n+dl), objs: []any{data}, call: func() { mat.NewDiagonalRect(r, c, data) }, valid: dl == 0, want: errShape}, st)
			}
		}
		for _, n := range []int{-1, 0, 1, 3} {
			n := n
			var want []mat.Error
			switch {
			case n == 0:
				want = []mat.Error{mat.ErrZeroLength}
			case n < 0:
				want = []mat.Error{mat.ErrNegativeDimension}
			}
			runMatCheck(t, matCheck{name: fmt.Sprintf("NewTridiag(%d,nil,nil,nil)", n), call: func() { mat.NewTridiag(n, nil, nil, nil) }, valid: n > 0, want: want}, st)
			if n > 0 {
				for _, bad := range []int{0, 1, 2} {
					ls := [3]int{n - 1, n, n - 1}
					ls[bad]++
					dl, d, du := make([]float64, ls[0]), make([]float64, ls[1]), make([]float64, ls[2])
					runMatCheck(t, matCheck{name: fmt.Sprintf("NewTridiag(%d, len %d, len %d, len %d)", n, ls[0], ls[1], ls[2]), objs: []any{dl, d, du},
						call: func() { mat.NewTridiag(n, dl, d, du) }, want: errShape}, st)
				}
				dl, d, du := make([]float64, n-1), make([]float64, n), make([]float64, n-1)
				runMatCheck(t, matCheck{name: fmt.Sprintf("NewTridiag(%d, exact slices)", n), call: func() { mat.NewTridiag(n, dl, d, du) }, valid: true}, st)
			}
		}
		finishMat(t, st, "diag/tridiag constructors")
	})
	// SetRaw* with raw structs that are documented to be rejected
	g.Case("SetRaw", func(t *vlib.T) {
		st := &matStats{errs: map[string]bool{}}
		data := func(n int) []float64 { return make([]float64, n) }
		{
			s := mkSym(2, 0)
			runMatCheck(t, matCheck{name: "SymDense.SetRawSymmetric(Uplo: Lower)", objs: []any{s}, call: func() {
				s.SetRawSymmetric(blas64.Symmetric{Uplo: blas.Lower, N: 2, Stride: 2, Data: data(4)})
			}, want: nil}, st)
			runMatCheck(t, matCheck{name: "SymDense.SetRawSymmetric(Uplo: 0)", objs: []any{s}, call: func() {
				s.SetRawSymmetric(blas64.Symmetric{N: 2, Stride: 2, Data: data(4)})
			}, want: nil}, st)
			runMatCheck(t, matCheck{name: "SymDense.SetRawSymmetric(Uplo: Upper)", call: func() {
				s.SetRawSymmetric(blas64.Symmetric{Uplo: blas.Upper, N: 2, Stride: 2, Data: data(4)})
			}, valid: true}, st)
		}
		{
			tr := mkTri(2, mat.Upper, 0)
			runMatCheck(t, matCheck{name: "TriDense.SetRawTriangular(Diag: Unit)", objs: []any{tr}, call: func() {
				tr.SetRawTriangular(blas64.Triangular{Uplo: blas.Upper, Diag: blas.Unit, N: 2, Stride: 2, Data: data(4)})
			}, want: nil}, st)
			runMatCheck(t, matCheck{name: "TriDense.SetRawTriangular(Diag: NonUnit)", call: func() {
				tr.SetRawTriangular(blas64.Triangular{Uplo: blas.Lower, Diag: blas.NonUnit, N: 2, Stride: 2, Data: data(4)})
			}, valid: true}, st)
		}
		{
			sb := mkSymBand(3, 1)
			runMatCheck(t, matCheck{name: "SymBandDense.SetRawSymBand(Uplo: Lower)", objs: []any{sb}, call: func() {
				sb.SetRawSymBand(blas64.SymmetricBand{Uplo: blas.Lower, N: 3, K: 1, Stride: 2, Data: data(6)})
			}, want: nil}, st)
			runMatCheck(t, matCheck{name: "SymBandDense.SetRawSymBand(Uplo: Upper)", call: func() {
				sb.SetRawSymBand(blas64.SymmetricBand{Uplo: blas.Upper, N: 3, K: 1, Stride: 2, Data: data(6)})
			}, valid: true}, st)
		}
		{
			tb := mkTriBand(3, 1, mat.Upper)
			runMatCheck(t, matCheck{name: "TriBandDense.SetRawTriBand(Diag: Unit)", objs: []any{tb}, call: func() {
				tb.SetRawTriBand(blas64.TriangularBand{Uplo: blas.Upper, Diag: blas.Unit, N: 3, K: 1, Stride: 2, Data: data(6)})
			}, want: nil}, st)
			runMatCheck(t, matCheck{name: "TriBandDense.SetRawTriBand(Diag: NonUnit)", call: func() {
				tb.SetRawTriBand(blas64.TriangularBand{Uplo: blas.Lower, Diag: blas.NonUnit, N: 3, K: 1, Stride: 2, Data: data(6)})
			}, valid: true}, st)
		}
		finishMat(t, st, "SetRaw")
	})
	// ReuseAs*, Grow*, Reset
	g.Case("ReuseAs/Grow/Reset", func(t *vlib.T) {
		st := &matStats{errs: map[string]bool{}}
		sizeErr := func(dims ...int) []mat.Error {
			z, neg := false, false
			for _, d := range dims {
				z, neg = z || d == 0, neg || d < 0
			}
			switch {
			case z:
				return []mat.Error{mat.ErrZeroLength}
			case neg:
				return []mat.Error{mat.ErrNegativeDimension}
			}
			return nil
		}
		nonEmpty := []mat.Error{mat.ErrReuseNonEmpty}
		for _, r := range []int{-1, 0, 1, 2} {
			for _, c := range []int{-1, 0, 1, 2} {
				r, c := r, c
				want := sizeErr(r, c)
				var e mat.Dense
				runMatCheck(t, matCheck{name: fmt.Sprintf("Dense{}.ReuseAs(%d,%d)", r, c), objs: []any{&e}, call: func() { e.ReuseAs(r, c) }, valid: want == nil, want: want}, st)
				full := mkDense(2, 2, 0)
				w2 := want
				if w2 == nil {
					w2 = nonEmpty
				}
				runMatCheck(t, matCheck{name: fmt.Sprintf("Dense(2x2).ReuseAs(%d,%d)", r, c), objs: []any{full}, call: func() { full.ReuseAs(r, c) }, want: w2}, st)
				reset := mkDense(2, 2, 0)
				reset.Reset()
				runMatCheck(t, matCheck{name: fmt.Sprintf("Dense(2x2).Reset().ReuseAs(%d,%d)", r, c), call: func() { reset.ReuseAs(r, c) }, valid: want == nil, want: want}, st)
			}
		}
		for _, n := range []int{-1, 0, 1, 3} {
			n := n
			want := sizeErr(n)
			w2 := want
			if w2 == nil {
				w2 = nonEmpty
			}
			var ev mat.VecDense
			runMatCheck(t, matCheck{name: fmt.Sprintf("VecDense{}.ReuseAsVec(%d)", n), call: func() { ev.ReuseAsVec(n) }, valid: want == nil, want: want}, st)
			fv := mkVec(2, 0)
			runMatCheck(t, matCheck{name: fmt.Sprintf("VecDense(2).ReuseAsVec(%d)", n), objs: []any{fv}, call: func() { fv.ReuseAsVec(n) }, want: w2}, st)
			var es mat.SymDense
			runMatCheck(t, matCheck{name: fmt.Sprintf("SymDense{}.ReuseAsSym(%d)", n), call: func() { es.ReuseAsSym(n) }, valid: want == nil, want: want}, st)
			fs := mkSym(2, 0)
			runMatCheck(t, matCheck{name: fmt.Sprintf("SymDense(2).ReuseAsSym(%d)", n), objs: []any{fs}, call: func() { fs.ReuseAsSym(n) }, want: w2}, st)
			var et mat.TriDense
			runMatCheck(t, matCheck{name: fmt.Sprintf("TriDense{}.ReuseAsTri(%d,Upper)", n), call: func() { et.ReuseAsTri(n, mat.Upper) }, valid: want == nil, want: want}, st)
			ft := mkTri(2, mat.Lower, 0)
			runMatCheck(t, matCheck{name: fmt.Sprintf("TriDense(2).ReuseAsTri(%d,Lower)", n), objs: []any{ft}, call: func() { ft.ReuseAsTri(n, mat.Lower) }, want: w2}, st)
			for _, k := range []int{-1, 0, 1, 3} {
				k := k
				var wtb []mat.Error
				switch {
				case n == 0:
					wtb = []mat.Error{mat.ErrZeroLength}
				case n < 0 || k < 0:
					wtb = []mat.Error{mat.ErrNegativeDimension}
				case k+1 > n:
					wtb = []mat.Error{mat.ErrBandwidth}
				}
				var etb mat.TriBandDense
				runMatCheck(t, matCheck{name: fmt.Sprintf("TriBandDense{}.ReuseAsTriBand(%d,%d,Upper)", n, k), call: func() { etb.ReuseAsTriBand(n, k, mat.Upper) }, valid: wtb == nil, want: wtb}, st)
				ftb := mkTriBand(2, 1, mat.Upper)
				w3 := wtb
				if w3 == nil {
					w3 = nonEmpty
				}
				runMatCheck(t, matCheck{name: fmt.Sprintf("TriBandDense(2,1).ReuseAsTriBand(%d,%d,Upper)", n, k), objs: []any{ftb}, call: func() { ftb.ReuseAsTriBand(n, k, mat.Upper) }, want: w3}, st)
			}
			gs := mkSym(2, 0)
			runMatCheck(t, matCheck{name: fmt.Sprintf("SymDense(2).GrowSym(%d)", n), objs: []any{gs}, call: func() { gs.GrowSym(n) }, valid: n >= 0, want: []mat.Error{mat.ErrIndexOutOfRange}}, st)
			gv := mkVec(2, 0)
			_ = gv
		}
		finishMat(t, st, "ReuseAs/Grow")
	})
}
