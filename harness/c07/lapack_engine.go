// lapack_engine.go — contract rows for LAPACK routines and the execution of
// one valid base with all its single faults.
//
// A row lists the arguments of lapack/gonum.Implementation.<name> in order.
// Every argument carries its role: flag (legal values), dimension, other
// integer (computed from the dimensions), matrix + leading dimension, float
// or int vector with a required length (minimum or exact), work/lwork pair,
// scalar. From the roles the engine derives the valid bases, the fault menu
// and the message each violated clause must produce.
package main

import (
	"fmt"
	"math"
	"reflect"
	"strings"
)

// lenv holds the integer-valued arguments of one call by name.
type lenv struct {
	v  map[string]int
	fv map[string]float64 // overrides of float scalar arguments (quick-return values)
}

func (e *lenv) g(name string) int {
	x, ok := e.v[name]
	if !ok {
		panic("harness: no value for " + name)
	}
	return x
}

type efn func(e *lenv) int

func v(name string) efn { return func(e *lenv) int { return e.g(name) } }
func cst(c int) efn     { return func(*lenv) int { return c } }
func plus(f efn, c int) efn {
	return func(e *lenv) int { return f(e) + c }
}
func times(c int, f efn) efn { return func(e *lenv) int { return c * f(e) } }
func minOf(fs ...efn) efn {
	return func(e *lenv) int {
		m := fs[0](e)
		for _, f := range fs[1:] {
			m = imin(m, f(e))
		}
		return m
	}
}
func maxOf(fs ...efn) efn {
	return func(e *lenv) int {
		m := fs[0](e)
		for _, f := range fs[1:] {
			m = imax(m, f(e))
		}
		return m
	}
}

// ifEq returns a when flag name has value val, else b.
func ifEq(name string, val byte, a, b efn) efn {
	return func(e *lenv) int {
		if e.g(name) == int(val) {
			return a(e)
		}
		return b(e)
	}
}

type lkind int

const (
	lkFlag lkind = iota
	lkDim
	lkInt
	lkMat
	lkLd
	lkVec
	lkIVec
	lkBVec  // []bool
	lkWork  // work paired with a following lwork
	lkLwork // lwork
	lkScalar
	lkBool
	lkRaw // any other argument, built by mk (e.g. Dlacn2's isave *[3]int)
)

type larg struct {
	kind lkind
	name string
	msg  string   // message of the clause this argument can violate
	alt  []string // further acceptable messages (documented ambiguity, see NOTES.md)

	ftype   reflect.Type // flag type
	legal   []byte       // legal flag values
	illegal []byte       // illegal flag values tried (default 0 and '?')
	noFault bool         // flag: every value is accepted by the documentation
	enum    bool         // lkBool: both values are enumerated in the valid grid
	mk      func(e *lenv) reflect.Value

	rows, cols efn    // matrix extents
	ld         string // name of the leading-dimension argument of a matrix / the matrix of an ld
	min        efn    // ld: minimal value; lwork: minimal value
	length     efn    // vector: required length (matrix: overrides (rows-1)*ld+cols when set, evaluated with ld in env)
	exact      bool   // vector length must be equal, not at least
	used       func(e *lenv) bool
	val        efn // lkInt: the value in a valid call
	fval       float64
	fvals      []float64 // lkScalar: further values (quick-return triggers) crossed with every fault
	bval       bool
	init       func(e *lenv, i int) int   // int vector contents
	inits      []func(e *lenv, i int) int // int vector contents: variants enumerated inside the case (e.v["#init"])
	fill       func(e *lenv, s []float64) // float slice contents (default: generic)
	noNeg      bool                       // lkDim: no "-1" fault (the routine documents a relation instead of a sign)
	skipQuery  bool                       // lkLd: not checked in a workspace query (documented in the code only)
	onlyIf     func(e *lenv) bool         // fault on this argument only applies when true
	menu       []int                      // lkDim: own menu
	extra      func(e *lenv) []lextra     // additional documented faults on this argument
}

// lextra is a routine-specific extra fault: the argument takes value val.
type lextra struct {
	val int
	msg string
	alt []string
}

type lroutine struct {
	name  string
	args  []larg
	ok    func(e *lenv) bool // relations between the dimensions of a valid call
	empty func(e *lenv) bool // no slice length is demanded (default: some dimension is 0)
	dims  []int              // default menu of the dimensions
	// noMinLwork: the documented minimum of lwork is only a necessary condition
	// (nested routines need more); valid bases use the query optimum and -1 only.
	noMinLwork bool
	// variants: number of content/sub-range variants enumerated inside a case (e.v["#init"]).
	variants int
	// noWorkFaultOnEmpty: len(work) is only examined for non-empty problems.
	pos map[string]int
}

// scratch reports workspace arguments: their contents are unspecified on any
// exit (several drivers store the result of nested workspace queries in
// work[0] before they examine the slice lengths), so they are exempt from the
// "unchanged after a panic" comparison (don't-care, see NOTES.md). Writes
// outside the slice are still detected by the valid call.
func (a *larg) scratch() bool {
	return a.kind == lkWork || a.name == "work" || a.name == "iwork"
}

// ---- row builders -------------------------------------------------------------

func row(name string, parts ...[]larg) *lroutine {
	r := &lroutine{name: name, pos: map[string]int{}}
	for _, p := range parts {
		r.args = append(r.args, p...)
	}
	for i, a := range r.args {
		if _, dup := r.pos[a.name]; dup {
			panic("harness: duplicate argument " + a.name + " in " + name)
		}
		r.pos[a.name] = i
	}
	return r
}

func (r *lroutine) where(ok func(e *lenv) bool) *lroutine  { r.ok = ok; return r }
func (r *lroutine) emptyIf(f func(e *lenv) bool) *lroutine { r.empty = f; return r }
func (r *lroutine) menu(d ...int) *lroutine                { r.dims = d; return r }
func (r *lroutine) optLworkOnly() *lroutine                { r.noMinLwork = true; return r }

// mod applies f to the argument called name.
func (r *lroutine) mod(name string, f func(a *larg)) *lroutine {
	f(&r.args[r.pos[name]])
	return r
}

// also adds further values of a float scalar argument: values that trigger a
// quick return or a special path; every fault is crossed with each of them.
func (r *lroutine) also(name string, vals ...float64) *lroutine {
	return r.mod(name, func(a *larg) { a.fvals = append(a.fvals, vals...) })
}

// altMsg adds acceptable messages for the fault on an argument.
func (r *lroutine) altMsg(name string, msgs ...string) *lroutine {
	return r.mod(name, func(a *larg) { a.alt = append(a.alt, msgs...) })
}

func lflag(name string, sample any, msg string, legal ...byte) []larg {
	return []larg{{kind: lkFlag, name: name, ftype: reflect.TypeOf(sample), legal: legal, msg: msg}}
}

func ldim(names ...string) []larg {
	var out []larg
	for _, n := range names {
		out = append(out, larg{kind: lkDim, name: n, msg: "lapack: " + n + " < 0"})
	}
	return out
}

// intv is an integer argument that is a function of the dimensions (ilo, ihi, k1, incX, ...).
func intv(name string, val efn) []larg { return []larg{{kind: lkInt, name: name, val: val}} }

// mat is a dense rows×cols matrix followed by its leading dimension.
func lmat(name string, rows, cols efn) []larg {
	up := strings.ToUpper(name)
	return []larg{
		{kind: lkMat, name: name, rows: rows, cols: cols, ld: "ld" + name, msg: "lapack: insufficient length of " + name},
		{kind: lkLd, name: "ld" + name, ld: name, min: func(e *lenv) int { return imax(1, cols(e)) }, msg: "lapack: bad leading dimension of " + up},
	}
}

// band is a band matrix in rows×(ncol) row-major band storage: length (rows-1)*ld+ncol, ld >= ncol.
func lband(name string, rows, ncol efn, ldMsg string) []larg {
	return []larg{
		{kind: lkMat, name: name, rows: rows, cols: ncol, ld: "ld" + name, msg: "lapack: insufficient length of " + name},
		{kind: lkLd, name: "ld" + name, ld: name, min: ncol, msg: ldMsg},
	}
}

func lvec(name string, length efn) []larg {
	return []larg{{kind: lkVec, name: name, length: length, msg: "lapack: insufficient length of " + name}}
}

func lvecEq(name string, length efn, msg string) []larg {
	return []larg{{kind: lkVec, name: name, length: length, exact: true, msg: msg}}
}

func ivec(name string, length efn, msg string) []larg {
	return []larg{{kind: lkIVec, name: name, length: length, msg: msg, init: func(_ *lenv, i int) int { return i }}}
}

func bvecEq(name string, length efn, msg string) []larg {
	return []larg{{kind: lkBVec, name: name, length: length, exact: true, msg: msg}}
}

func ivecEq(name string, length efn, msg string) []larg {
	return []larg{{kind: lkIVec, name: name, length: length, exact: true, msg: msg, init: func(_ *lenv, i int) int { return i }}}
}

// lwork is the pair work, lwork with len(work) >= max(1,lwork) and lwork >= min or lwork == -1.
func lwork(min efn) []larg {
	return []larg{
		{kind: lkWork, name: "work", msg: "lapack: insufficient length of work"},
		{kind: lkLwork, name: "lwork", min: func(e *lenv) int { return imax(1, min(e)) }, msg: "lapack: insufficient declared workspace length"},
	}
}

func lscalar(name string, x float64) []larg { return []larg{{kind: lkScalar, name: name, fval: x}} }
func boolv(name string, b bool) []larg      { return []larg{{kind: lkBool, name: name, bval: b}} }

// boolEnum is a bool argument whose two values are both enumerated.
func boolEnum(name string) []larg { return []larg{{kind: lkBool, name: name, enum: true}} }

// raw is an argument of any other type with a fixed valid value.
func raw(name string, mk func(e *lenv) reflect.Value) []larg {
	return []larg{{kind: lkRaw, name: name, mk: mk}}
}

// isTrue reports whether the enumerated bool argument name is true.
func isTrue(name string) func(e *lenv) bool { return func(e *lenv) bool { return e.g(name) != 0 } }

func usedIf(a []larg, f func(e *lenv) bool) []larg { a[0].used = f; return a }

// ---- execution ----------------------------------------------------------------

var lapackMsgs = map[string]bool{}

func isLapackMsg(s string) bool { return lapackMsgs[s] }

type lmethod struct {
	r  *lroutine
	m  reflect.Value
	mt reflect.Type
}

func newLMethod(impl reflect.Value, r *lroutine) *lmethod {
	m := impl.MethodByName(r.name)
	if !m.IsValid() {
		panic("harness: no method " + r.name)
	}
	lm := &lmethod{r: r, m: m, mt: m.Type()}
	if lm.mt.NumIn() != len(r.args) {
		panic(fmt.Sprintf("harness: %s takes %d arguments, row lists %d", r.name, lm.mt.NumIn(), len(r.args)))
	}
	for i, a := range r.args {
		pt := lm.mt.In(i)
		var want reflect.Kind
		switch a.kind {
		case lkFlag:
			if pt != a.ftype {
				panic(fmt.Sprintf("harness: %s argument %d (%s) has type %v, row says %v", r.name, i, a.name, pt, a.ftype))
			}
			continue
		case lkDim, lkInt, lkLd, lkLwork:
			want = reflect.Int
		case lkMat, lkVec, lkIVec, lkBVec, lkWork:
			want = reflect.Slice
		case lkScalar:
			want = reflect.Float64
		case lkBool:
			want = reflect.Bool
		case lkRaw:
			continue
		}
		if pt.Kind() != want {
			panic(fmt.Sprintf("harness: %s argument %d (%s) has type %v, row says %v", r.name, i, a.name, pt, want))
		}
		if a.kind == lkIVec && pt.Elem().Kind() != reflect.Int {
			panic(fmt.Sprintf("harness: %s argument %d (%s) is not []int", r.name, i, a.name))
		}
	}
	return lm
}

func flagValue(t reflect.Type, b byte) reflect.Value {
	x := reflect.New(t).Elem()
	x.SetUint(uint64(b))
	return x
}

// lbase is one valid base: the environment plus lwork mode.
type lfault struct {
	pos   int
	val   reflect.Value
	n     int // new length for slice faults, -1 otherwise
	msg   string
	alt   []string
	label string
	kind  string
	first bool // member of the pair menu (one value per argument)
}

type lstats struct {
	valid, guard, single, pair int64
	kinds                      map[string]bool
}

// needOf returns the minimal length of slice argument i in environment e (lds and lwork set).
func (lm *lmethod) needOf(e *lenv, i int) int {
	a := &lm.r.args[i]
	if a.used != nil && !a.used(e) {
		return 0
	}
	switch a.kind {
	case lkMat:
		if a.length != nil {
			return imax(0, a.length(e))
		}
		rows, cols := a.rows(e), a.cols(e)
		if rows <= 0 {
			return 0
		}
		return (rows-1)*e.g(a.ld) + cols
	case lkVec, lkIVec, lkBVec:
		return imax(0, a.length(e))
	case lkWork:
		return imax(1, e.g("lwork"))
	}
	panic("harness: needOf on non-slice")
}

func (lm *lmethod) isEmpty(e *lenv) bool {
	if lm.r.empty != nil {
		return lm.r.empty(e)
	}
	return lm.isEmptyDims(e)
}

// isEmptyDims reports whether some dimension argument is zero.
func (lm *lmethod) isEmptyDims(e *lenv) bool {
	for _, a := range lm.r.args {
		if a.kind == lkDim && e.g(a.name) == 0 {
			return true
		}
	}
	return false
}

// fillDefault writes generic finite contents: matrices get a symmetric,
// strictly diagonally dominant pattern (positive definite, every leading
// block nonsingular), vectors called d get 4, other vectors 1, 0.5, 0.25 ...
func fillDefault(a *larg, e *lenv, s []float64) {
	for i := range s {
		s[i] = 0.5
	}
	switch a.kind {
	case lkMat:
		if a.length != nil {
			for i := range s {
				s[i] = 1 + 0.25*float64(i%3)
			}
			return
		}
		rows, cols, ld := a.rows(e), a.cols(e), e.g(a.ld)
		for i := 0; i < rows; i++ {
			for j := 0; j < cols; j++ {
				x := 0.25 * float64((i+j)%3-1)
				if i == j {
					x = 4 + 0.5*float64(i)
				}
				if p := i*ld + j; p < len(s) {
					s[p] = x
				}
			}
		}
	case lkVec:
		for i := range s {
			if a.name == "d" {
				s[i] = 4 + 0.5*float64(i)
			} else {
				s[i] = 1 / float64(int(1)<<uint(i%3))
			}
		}
	}
}

func (lm *lmethod) describe(in []reflect.Value) string {
	var sb strings.Builder
	sb.WriteString(lm.r.name)
	sb.WriteByte('(')
	for i, a := range lm.r.args {
		if i > 0 {
			sb.WriteString(", ")
		}
		x := in[i]
		switch x.Kind() {
		case reflect.Slice:
			if a.kind == lkIVec && len(a.inits) > 0 && x.Len() <= 8 {
				fmt.Fprintf(&sb, "%s=%v", a.name, x.Interface())
				break
			}
			fmt.Fprintf(&sb, "len(%s)=%d", a.name, x.Len())
		case reflect.Uint8:
			if u := x.Uint(); u > 32 && u < 127 {
				fmt.Fprintf(&sb, "%s='%c'", a.name, rune(u))
			} else {
				fmt.Fprintf(&sb, "%s=%d", a.name, u)
			}
		case reflect.Ptr:
			fmt.Fprintf(&sb, "%s=&%v", a.name, x.Elem().Interface())
		default:
			fmt.Fprintf(&sb, "%s=%v", a.name, x.Interface())
		}
	}
	sb.WriteByte(')')
	return sb.String()
}

// lworkMode of a base
const (
	lwNone  = iota // the routine has no lwork
	lwMin          // lwork = documented minimum
	lwOpt          // lwork = value returned by the workspace query
	lwQuery        // lwork = -1
	// intermediate legal values: every lwork >= min must be accepted
	lwMinPlus1  // min+1
	lwMid       // (min+opt)/2
	lwOptMinus1 // opt-1
	lwOptPlus3  // opt+3
)

// runBase runs one valid base (flags, dims in e.v; ld deltas; lwork mode) and its faults.
func (lm *lmethod) runBase(t failer, e *lenv, ldDelta []int, mode int, faults, pairs bool, st *lstats) {
	r := lm.r
	// derived integers, leading dimensions, lwork
	for _, a := range r.args {
		if a.kind == lkInt {
			e.v[a.name] = a.val(e)
		}
	}
	k := 0
	for _, a := range r.args {
		if a.kind == lkLd {
			e.v[a.name] = a.min(e) + ldDelta[k%len(ldDelta)]
			k++
		}
	}
	query := mode == lwQuery
	if j, ok := r.pos["lwork"]; ok {
		min := r.args[j].min(e)
		switch mode {
		case lwMin:
			e.v["lwork"] = min
		case lwQuery:
			e.v["lwork"] = -1
		default:
			e.v["lwork"] = -1
			in, _, _ := lm.build(e, nil)
			_, pe := invoke(lm.m, in)
			opt := min
			if pe == nil {
				if w := in[r.pos["work"]].Interface().([]float64); len(w) > 0 && int(w[0]) > min && w[0] < 1e6 {
					opt = int(w[0])
				}
			}
			// the legal values in a fixed order; a mode whose value coincides with an earlier one is skipped
			order := []int{lwMin, lwMinPlus1, lwMid, lwOptMinus1, lwOpt, lwOptPlus3}
			vals := map[int]int{lwMin: min, lwMinPlus1: min + 1, lwMid: (min + opt) / 2, lwOptMinus1: opt - 1, lwOpt: opt, lwOptPlus3: opt + 3}
			if r.noMinLwork {
				// the documented minimum is only necessary: values below the query optimum are not claimed legal
				order = []int{lwOpt, lwOptPlus3}
			}
			v, legal := vals[mode], false
			for _, m := range order {
				if m == mode {
					legal = true
					break
				}
				if vals[m] == v {
					return
				}
			}
			if !legal || v < min {
				return
			}
			e.v["lwork"] = v
		}
	}
	in, regs, lens := lm.build(e, nil)
	unchanged := func(class, what string, cur []int) {
		for i := range r.args {
			if regs[i] == nil || r.args[i].scratch() {
				continue
			}
			if d := regs[i].changed(cur[i]); d != "" {
				t.FailClass(class, "%s: argument %s was modified although the call panicked: %s", what, r.args[i].name, d)
				regs[i].restore()
			}
		}
	}
	restoreAll := func() {
		for _, reg := range regs {
			if reg != nil {
				reg.restore()
			}
		}
	}

	// 1. valid call
	_, pe := invoke(lm.m, in)
	st.valid++
	if o := classify(pe, isLapackMsg); o.class != pcNone {
		cl := "valid-call-panics"
		if o.class == pcFault {
			cl = "memory-fault"
		} else if k := lapackValidFinding(r.name, e, o); k != "" {
			cl = k
		}
		t.FailClass(cl, "%s: all arguments satisfy the documented contract (slices exactly minimal, cap == len) but the call %s", lm.describe(in), o)
	}
	for i, reg := range regs {
		if reg == nil {
			continue
		}
		pre, post := reg.off*reg.es, (reg.off+lens[i])*reg.es
		if string(reg.bytes[:pre]) != string(reg.snap[:pre]) || string(reg.bytes[post:]) != string(reg.snap[post:]) {
			t.FailClass("write-outside-slice", "%s: memory outside the slice %s (len=cap=%d) was written", lm.describe(in), r.args[i].name, lens[i])
		}
	}
	if _, hasLwork := r.pos["lwork"]; pe == nil && hasLwork {
		// every legal lwork must give a usable result: the routines with a workspace
		// argument get well conditioned input, so their outputs are finite
		for i, reg := range regs {
			a := &r.args[i]
			if reg == nil || a.scratch() || (a.kind != lkMat && a.kind != lkVec) {
				continue
			}
			for j, x := range in[i].Interface().([]float64) {
				if math.IsNaN(x) || math.IsInf(x, 0) {
					t.FailClass("valid-call-nonfinite-output", "%s: %s[%d] = %v after a valid call on finite, well conditioned input", lm.describe(in), a.name, j, x)
					break
				}
			}
		}
	}
	restoreAll()

	// 2. guard pages: all slices end-aligned, all start-aligned, and for at most
	// three slice arguments every mixed placement.
	nsl := 0
	for _, a := range r.args {
		switch a.kind {
		case lkMat, lkVec, lkIVec, lkBVec, lkWork:
			nsl++
		}
	}
	masks := []int{0, 1<<nsl - 1}
	if nsl <= 3 {
		masks = masks[:0]
		for m := 0; m < 1<<nsl; m++ {
			masks = append(masks, m)
		}
	}
	if nsl == 0 {
		masks = nil
	}
	for _, mask := range masks {
		mask := mask
		gin, _, _ := lm.buildPlaced(e, func(k int) bool { return mask>>k&1 == 0 })
		_, pe := invoke(lm.m, gin)
		st.guard++
		if o := classify(pe, isLapackMsg); o.class != pcNone {
			cl := "valid-call-panics"
			if o.class == pcFault {
				cl = "memory-fault"
			} else if k := lapackValidFinding(r.name, e, o); k != "" {
				cl = k
			}
			t.FailClass(cl, "%s with the slices on guard pages (placement mask %b over the slice arguments in order, 0 = ends at a PROT_NONE page, 1 = starts right after one): %s", lm.describe(gin), mask, o)
		}
	}

	// 3. single faults
	if !faults {
		return
	}
	empty := lm.isEmpty(e)
	var fs []lfault
	add := func(f lfault) { fs = append(fs, f) }
	for i := range r.args {
		a := &r.args[i]
		if a.onlyIf != nil && !a.onlyIf(e) {
			continue
		}
		switch a.kind {
		case lkFlag:
			ill := a.illegal
			if ill == nil {
				ill = []byte{0, '?'}
			}
			if a.noFault {
				ill = nil
			}
			for k, b := range ill {
				add(lfault{pos: i, val: flagValue(a.ftype, b), n: -1, msg: a.msg, alt: a.alt, label: fmt.Sprintf("%s=%d", a.name, b), kind: "flag", first: k == 0})
			}
		case lkDim:
			if !a.noNeg {
				add(lfault{pos: i, val: reflect.ValueOf(-1), n: -1, msg: a.msg, alt: a.alt, label: a.name + "=-1", kind: "dim", first: true})
			}
		case lkLd:
			if query && a.skipQuery {
				continue
			}
			min := a.min(e)
			add(lfault{pos: i, val: reflect.ValueOf(min - 1), n: -1, msg: a.msg, alt: a.alt, label: fmt.Sprintf("%s=%d", a.name, min-1), kind: "ld", first: true})
		case lkMat, lkVec, lkIVec, lkBVec:
			if empty || query || lens[i] == 0 {
				if a.kind != lkMat && a.exact && !empty && !query && (a.used == nil || a.used(e)) {
					add(lfault{pos: i, val: regs[i].slice(1), n: 1, msg: a.msg, alt: a.alt, label: fmt.Sprintf("len(%s)=1", a.name), kind: "long"})
				}
				continue
			}
			add(lfault{pos: i, val: regs[i].slice(lens[i] - 1), n: lens[i] - 1, msg: a.msg, alt: a.alt, label: fmt.Sprintf("len(%s)=%d", a.name, lens[i]-1), kind: "short", first: true})
			if a.exact {
				add(lfault{pos: i, val: regs[i].slice(lens[i] + 1), n: lens[i] + 1, msg: a.msg, alt: a.alt, label: fmt.Sprintf("len(%s)=%d", a.name, lens[i]+1), kind: "long"})
			}
		case lkWork:
			add(lfault{pos: i, val: regs[i].slice(lens[i] - 1), n: lens[i] - 1, msg: a.msg, alt: a.alt, label: fmt.Sprintf("len(work)=%d", lens[i]-1), kind: "work", first: true})
		case lkLwork:
			if mode == lwMin || (r.noMinLwork && mode == lwOpt) {
				add(lfault{pos: i, val: reflect.ValueOf(a.min(e) - 1), n: -1, msg: a.msg, alt: a.alt, label: fmt.Sprintf("lwork=%d", a.min(e)-1), kind: "lwork", first: true})
				add(lfault{pos: i, val: reflect.ValueOf(-2), n: -1, msg: a.msg, alt: a.alt, label: "lwork=-2", kind: "lwork"})
			}
		}
		if a.extra != nil && !query {
			for _, x := range a.extra(e) {
				add(lfault{pos: i, val: reflect.ValueOf(x.val), n: -1, msg: x.msg, alt: x.alt, label: fmt.Sprintf("%s=%d", a.name, x.val), kind: "relation"})
			}
		}
	}
	cur := make([]int, len(lens))
	for i := range fs {
		f := &fs[i]
		st.kinds[f.kind] = true
		old := in[f.pos]
		in[f.pos] = f.val
		copy(cur, lens)
		if f.n >= 0 {
			cur[f.pos] = f.n
		}
		_, pe := invoke(lm.m, in)
		st.single++
		o := classify(pe, isLapackMsg)
		what := fmt.Sprintf("%s [single fault %s, valid otherwise]", lm.describe(in), f.label)
		okMsg := o.msg == f.msg
		for _, m := range f.alt {
			okMsg = okMsg || o.msg == m
		}
		known := lapackFinding(r.name, r.args[f.pos].name, f.kind, o)
		cls := func(generic string) string {
			if known != "" {
				return known
			}
			return generic
		}
		switch {
		case o.class == pcNone:
			t.FailClass(cls("invalid-accepted"), "%s: returned normally, want panic %q", what, f.msg)
			restoreAll()
		case o.class == pcFault:
			t.FailClass("memory-fault", "%s: %s, want panic %q", what, o, f.msg)
		case o.class == pcRuntime:
			t.FailClass(cls("runtime-error-for-invalid"), "%s: %s, want panic %q", what, o, f.msg)
		case o.class == pcOther:
			t.FailClass(cls("foreign-panic"), "%s: %s, want panic %q", what, o, f.msg)
		case !okMsg:
			t.FailClass(cls("wrong-message"), "%s: %s, want %q", what, o, f.msg)
		}
		unchanged(cls("write-before-validate"), what, cur)
		in[f.pos] = old
	}

	// 4. all pairs of faults on different arguments (one value per argument):
	// a package panic, never a runtime.Error, nothing written.
	if !pairs {
		return
	}
	for i := range fs {
		if !fs[i].first {
			continue
		}
		for j := i + 1; j < len(fs); j++ {
			if !fs[j].first || fs[j].pos == fs[i].pos {
				continue
			}
			f, g := &fs[i], &fs[j]
			oldf, oldg := in[f.pos], in[g.pos]
			in[f.pos], in[g.pos] = f.val, g.val
			copy(cur, lens)
			if f.n >= 0 {
				cur[f.pos] = f.n
			}
			if g.n >= 0 {
				cur[g.pos] = g.n
			}
			_, pe := invoke(lm.m, in)
			st.pair++
			o := classify(pe, isLapackMsg)
			what := fmt.Sprintf("%s [double fault %s, %s]", lm.describe(in), f.label, g.label)
			known := lapackFinding(r.name, r.args[f.pos].name, f.kind, o)
			if known == "" {
				known = lapackFinding(r.name, r.args[g.pos].name, g.kind, o)
			}
			cls := func(generic string) string {
				if known != "" {
					return known
				}
				return generic
			}
			switch o.class {
			case pcNone:
				t.FailClass(cls("invalid-accepted"), "%s: returned normally, want a package panic", what)
				restoreAll()
			case pcFault:
				t.FailClass("memory-fault", "%s: %s, want a package panic", what, o)
			case pcRuntime:
				t.FailClass(cls("runtime-error-for-invalid"), "%s: %s, want a package panic", what, o)
			case pcOther:
				t.FailClass(cls("foreign-panic"), "%s: %s, want a package panic", what, o)
			}
			unchanged(cls("write-before-validate"), what, cur)
			in[f.pos], in[g.pos] = oldf, oldg
		}
	}
}

// build lays out all slices (on the heap with guard elements, or on guard
// pages when atEnd != nil) and assembles the argument list.
func (lm *lmethod) build(e *lenv, atEnd *bool) (in []reflect.Value, regs []*region, lens []int) {
	if atEnd == nil {
		return lm.buildPlaced(e, nil)
	}
	if *atEnd {
		return lm.buildPlaced(e, func(int) bool { return true })
	}
	return lm.buildPlaced(e, func(int) bool { return false })
}

// buildPlaced is build with a placement function: place(k) says whether the
// k-th slice argument ends at a PROT_NONE page (true) or starts after one.
func (lm *lmethod) buildPlaced(e *lenv, place func(k int) bool) (in []reflect.Value, regs []*region, lens []int) {
	r := lm.r
	in = make([]reflect.Value, len(r.args))
	regs = make([]*region, len(r.args))
	lens = make([]int, len(r.args))
	gi := 0
	for i := range r.args {
		a := &r.args[i]
		switch a.kind {
		case lkFlag:
			in[i] = flagValue(a.ftype, byte(e.g(a.name)))
		case lkDim, lkInt, lkLd, lkLwork:
			in[i] = reflect.ValueOf(e.g(a.name))
		case lkScalar:
			if x, ok := e.fv[a.name]; ok {
				in[i] = reflect.ValueOf(x)
			} else {
				in[i] = reflect.ValueOf(a.fval)
			}
		case lkBool:
			if a.enum {
				in[i] = reflect.ValueOf(e.g(a.name) != 0)
			} else {
				in[i] = reflect.ValueOf(a.bval)
			}
		case lkRaw:
			in[i] = a.mk(e)
		case lkMat, lkVec, lkWork, lkIVec, lkBVec:
			n := lm.needOf(e, i)
			lens[i] = n
			p := D
			if a.kind == lkIVec {
				p = I
			} else if a.kind == lkBVec {
				p = Bo
			}
			var sl reflect.Value
			if place == nil {
				reg := newHeapRegionN(p, n+2)
				reg.fill(i)
				regs[i] = reg
				sl = reg.slice(n)
			} else {
				b := getGuardN(gi, 8*n+64)
				sl = typedSlice(p, b.place(p, n, place(gi)), n)
				gi++
			}
			if p == I {
				s := sl.Interface().([]int)
				ini := a.init
				if len(a.inits) > 0 {
					ini = a.inits[e.v["#init"]%len(a.inits)]
				}
				for j := range s {
					s[j] = ini(e, j)
				}
			} else if p == Bo {
				s := sl.Interface().([]bool)
				for j := range s {
					s[j] = true
				}
			} else {
				s := sl.Interface().([]float64)
				if a.fill != nil {
					a.fill(e, s)
				} else {
					fillDefault(a, e, s)
				}
			}
			if regs[i] != nil {
				regs[i].snapshot()
			}
			in[i] = sl
		}
	}
	return in, regs, lens
}

// lapackValidFinding names the triaged gonum defect a panicking VALID call is an
// instance of (NOTES.md), or returns "".
func lapackValidFinding(routine string, e *lenv, o outcome) string {
	switch {
	case routine == "Dlarfb" && e.g("k") == 0 && o.class == pcRuntime:
		return "dlarfb-k0-panics"
	case routine == "Dlahr2" && e.g("nb") == 0 && e.g("n") > 1 && o.class == pcRuntime:
		return "dlahr2-nb0-panics"
	case routine == "Dlatdf" && e.g("n") == 1 && o.class == pcPackage && o.msg == "lapack: k2 out of range":
		return "dlatdf-n1-panics"
	case routine == "Dlapll" && e.g("n") == 2 && e.g("incY") > 1 && o.class == pcRuntime:
		return "dlapll-n2-strided-slice-panic"
	}
	return ""
}

// lapackFinding names the triaged gonum defect (see NOTES.md, "Findings") a
// failing single fault belongs to, or returns "". Every predicate is
// restricted to the routine, the argument and the observed behaviour of the
// defect, so that any other failure keeps its generic class.
func lapackFinding(routine, arg, kind string, o outcome) string {
	switch {
	case arg == "ldc" && (routine == "Dormlq" || routine == "Dorml2"):
		// no ldc check in the prologue: quiet return on the quick-return and
		// workspace-query paths, otherwise a panic from a nested routine after
		// a, c (and work) were modified.
		return "dormlq-dorml2-missing-ldc-check"
	case arg == "ldc" && routine == "Dormhr" && o.class == pcNone:
		return "dormhr-missing-ldc-check"
	case routine == "Dlantb" && arg == "diag" && o.class == pcNone:
		return "dlantb-missing-diag-check"
	case routine == "Dgebd2" && arg == "a" && kind == "short":
		return "dgebd2-missing-shorta-check"
	case (routine == "Dgeev" || routine == "Dgehrd") && arg == "work" && o.class == pcRuntime:
		return "lapack-query-empty-work-index-panic"
	case routine == "Dlaexc" && arg == "ldq" && o.class == pcNone:
		return "dlaexc-ldq-check-tests-ldt"
	case (routine == "Dlasq3" || routine == "Dlasq4" || routine == "Dlasq5" || routine == "Dlasq6") && arg == "z" && kind == "short" && (o.class == pcNone || o.class == pcRuntime):
		return "dlasq-short-z-off-by-one"
	case o.class != pcPackage:
		return ""
	case routine == "Dgetc2" && arg == "jpiv" && o.msg == "lapack: bad length of jpvt":
		return "dgetc2-jpiv-wrong-message"
	case (routine == "Dggsvd3" || routine == "Dggsvp3") && arg == "iwork" && o.msg == "lapack: insufficient length of work":
		return "dggsv-iwork-wrong-message"
	case routine == "Dgesv" && arg == "a" && o.msg == "lapack: insufficient length of ab",
		routine == "Dlange" && arg == "a" && o.msg == "lapack: bad leading dimension of A",
		routine == "Dlarft" && arg == "ldt" && o.msg == "lapack: insufficient length of t",
		routine == "Dlantb" && arg == "k" && o.msg == "lapack: kd < 0",
		routine == "Dlantb" && arg == "a" && o.msg == "lapack: insufficient length of ab":
		return "lapack-wrong-message"
	}
	return ""
}
